/-
Model of `src/raft/cluster.rs` (ClusterConfig / ClusterManager): the membership list, the
active set, the per-node role metadata and `health_status`, for property C33.
Import-free (the driver links against it).

`cfgAdd` / `health` model the code after the `fix:` commit (add_node upserts the first
entry with the id; health counts *distinct* voter ids); `cfgAddLegacy` / `healthLegacy`
model the pinned tree (push without de-duplication; count list entries).
-/
namespace SgModel.Quorum

inductive Role where
  | leader | follower | candidate | learner
deriving DecidableEq, Repr

structure NodeCfg where
  id : Nat
  voter : Bool
deriving DecidableEq, Repr

structure State where
  nodes : List NodeCfg := []        -- ClusterConfig.nodes (a Vec: order and repeats are real)
  rf : Nat := 1                     -- ClusterConfig.replication_factor
  active : List Nat := []           -- HashSet<RaftNodeId>: kept sorted and duplicate-free
  roles : List (Nat × Role) := []   -- HashMap<RaftNodeId, NodeMetadata>: one entry per key
deriving DecidableEq, Repr

/-! ### ClusterConfig -/

/-- `ClusterConfig::add_node` after the repair: update the first entry with this id, else push -/
def cfgAdd : List NodeCfg → Nat → Bool → List NodeCfg
  | [], id, v => [⟨id, v⟩]
  | n :: rest, id, v => if n.id == id then ⟨id, v⟩ :: rest else n :: cfgAdd rest id v

/-- the pinned tree: `self.nodes.push(..)` -/
def cfgAddLegacy (ns : List NodeCfg) (id : Nat) (v : Bool) : List NodeCfg := ns ++ [⟨id, v⟩]

def voters (ns : List NodeCfg) : List NodeCfg := ns.filter (·.voter)

/-- `ClusterConfig::validate` -/
def validate (ns : List NodeCfg) (rf : Nat) : Bool :=
  !ns.isEmpty && !(voters ns).isEmpty && decide (rf ≤ (voters ns).length)

/-! ### set / map helpers (HashSet, HashMap) -/

def setInsert : List Nat → Nat → List Nat
  | [], x => [x]
  | y :: ys, x => if x < y then x :: y :: ys else if x == y then y :: ys else y :: setInsert ys x

def setRemove (s : List Nat) (x : Nat) : List Nat := s.filter (· != x)

def mapInsert (m : List (Nat × Role)) (k : Nat) (r : Role) : List (Nat × Role) :=
  m.filter (·.1 != k) ++ [(k, r)]

def mapRemove (m : List (Nat × Role)) (k : Nat) : List (Nat × Role) := m.filter (·.1 != k)

def mapUpdate (m : List (Nat × Role)) (k : Nat) (r : Role) : List (Nat × Role) :=
  m.map (fun e => if e.1 == k then (k, r) else e)

def mapGet (m : List (Nat × Role)) (k : Nat) : Option Role :=
  (m.find? (·.1 == k)).map (·.2)

def initialRole (voter : Bool) : Role := if voter then .follower else .learner

/-! ### ClusterManager -/

inductive Op where
  | add (id : Nat) (voter : Bool)       -- ClusterManager::add_node
  | remove (id : Nat)                   -- ClusterManager::remove_node
  | markActive (id : Nat)
  | markInactive (id : Nat)
  | role (id : Nat) (r : Role)          -- update_node_role
  | updateConfig (ns : List NodeCfg)    -- update_config (any list, validated)
deriving DecidableEq, Repr

/-- `ClusterManager::new`: `none` when `validate` rejects the configuration -/
def mk (ns : List NodeCfg) (rf : Nat) : Option State :=
  if validate ns rf then
    some { nodes := ns, rf := rf, active := [],
           roles := ns.foldl (fun m n => mapInsert m n.id (initialRole n.voter)) [] }
  else none

/-- one operation; the Bool is `Ok`/`Err` of the call -/
def stepWith (add : List NodeCfg → Nat → Bool → List NodeCfg) (s : State) : Op → State × Bool
  | .add id v =>
      ({ s with nodes := add s.nodes id v, roles := mapInsert s.roles id (initialRole v) }, true)
  | .remove id =>
      ({ s with nodes := s.nodes.filter (·.id != id), active := setRemove s.active id,
                roles := mapRemove s.roles id }, true)
  | .markActive id => ({ s with active := setInsert s.active id }, true)
  | .markInactive id => ({ s with active := setRemove s.active id }, true)
  | .role id r => ({ s with roles := mapUpdate s.roles id r }, true)
  | .updateConfig ns => if validate ns s.rf then ({ s with nodes := ns }, true) else (s, false)

def step (s : State) (op : Op) : State := (stepWith cfgAdd s op).1
def stepLegacy (s : State) (op : Op) : State := (stepWith cfgAddLegacy s op).1

def run (s : State) (ops : List Op) : State := ops.foldl step s

/-! ### health_status -/

/-- duplicate-free list with the same members -/
def dedup : List Nat → List Nat
  | [] => []
  | x :: xs => if xs.contains x then dedup xs else x :: dedup xs

/-- the *set* of voter ids (`HashSet` collected from `voters()`) -/
def voterIds (ns : List NodeCfg) : List Nat := dedup ((voters ns).map (·.id))

structure Health where
  healthy : Bool
  totalNodes : Nat
  activeNodes : Nat
  totalVoters : Nat
  activeVoters : Nat
  hasLeader : Bool
deriving DecidableEq, Repr

def hasLeader (s : State) : Bool := s.roles.any (fun e => e.2 == Role.leader)

def activeVoterIds (ns : List NodeCfg) (active : List Nat) : List Nat :=
  (voterIds ns).filter (fun i => active.contains i)

def health (s : State) : Health :=
  let v := (voterIds s.nodes).length
  let av := (activeVoterIds s.nodes s.active).length
  { healthy := decide (v / 2 + 1 ≤ av) && hasLeader s,
    totalNodes := s.nodes.length, activeNodes := s.active.length,
    totalVoters := v, activeVoters := av, hasLeader := hasLeader s }

/-- the pinned tree: list entries are counted, so a repeated id has several votes -/
def healthLegacy (s : State) : Health :=
  let v := (voters s.nodes).length
  let av := ((voters s.nodes).filter (fun n => s.active.contains n.id)).length
  { healthy := decide (v / 2 + 1 ≤ av) && hasLeader s,
    totalNodes := s.nodes.length, activeNodes := s.active.length,
    totalVoters := v, activeVoters := av, hasLeader := hasLeader s }

/-! ### Observations and the executable specification `S` -/

def probeMax : Nat := 6

structure Obs where
  nodes : List NodeCfg              -- get_config().nodes
  active : List Nat                 -- get_active_nodes(), sorted
  roles : List (Option Role)        -- get_node_metadata(i).role for i = 0 .. probeMax
  health : Health                   -- health_status()
  ok : Bool                         -- the operation returned Ok
deriving DecidableEq, Repr

def obsWith (h : State → Health) (s : State) (ok : Bool) : Obs :=
  { nodes := s.nodes, active := s.active,
    roles := (List.range (probeMax + 1)).map (mapGet s.roles),
    health := h s, ok := ok }

def obs (s : State) (ok : Bool) : Obs := obsWith health s ok

/-- C33 on one observation: `healthy` is claimed only when a leader is known and a strict
majority of the **distinct** voter ids of the reported configuration is in the reported
active set.  (Leader knowledge is read from the role probes, ids 0..probeMax; the harness
only uses ids in that range.) -/
def specObs (o : Obs) : Bool :=
  let V := voterIds o.nodes
  let av := (V.filter (fun i => o.active.contains i)).length
  let leader := o.roles.any (fun r => r == some Role.leader)
  !o.health.healthy || (leader && decide (V.length < 2 * av))

/-- entries of `a` for ids other than `id` are entries of `b` -/
def othersKept (id : Nat) (a b : List NodeCfg) : Bool := a.all (fun n => n.id == id || b.contains n)

/-- C33 over one step: besides `specObs` on the observation after the operation, the
*reported configuration* must be the one the membership history says — an acknowledged
`add_node(id, voter)` leaves an entry `(id, voter)` and touches no other id, an acknowledged
`remove_node(id)` leaves no entry for `id` and touches no other id, an acknowledged
`update_config` installs the given list, everything else leaves the configuration alone.
(Otherwise "the distinct voting members" that health is computed over would not be the
cluster's members: a voter/learner change that is silently dropped keeps the report
self-consistent but wrong.) -/
def specStep (pre : Obs) (op : Op) (post : Obs) : Bool :=
  specObs post &&
  match op with
  | .add id v =>
      !post.ok || (post.nodes.any (fun n => n.id == id && n.voter == v)
        && othersKept id pre.nodes post.nodes && othersKept id post.nodes pre.nodes)
  | .remove id =>
      !post.ok || (post.nodes.all (fun n => n.id != id)
        && othersKept id pre.nodes post.nodes && othersKept id post.nodes pre.nodes)
  | .updateConfig ns => if post.ok then post.nodes == ns else post.nodes == pre.nodes
  | _ => post.nodes == pre.nodes

end SgModel.Quorum
