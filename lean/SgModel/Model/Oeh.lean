/-
Model of the OEH hierarchy index: `src/index/hierarchy/{poset,oeh,monoid,manager}.rs` and the
planner rewrite `src/query/executor/hierarchy_detector.rs`.  Import-free (the driver links).

Contents
* `RV`, `Op`            — `RollupValue` (integers and Null; floats are excluded by the
                          generators and never enter a theorem) and the four monoids;
* `Poset`               — covering relation as `(child, parent)` edges over dense indices, in
                          insertion order (this is the order `Poset::from_edges` pushes them in);
* specification `S`     — `reach` (reflexive-transitive closure, fuel `n`), `specDesc`,
                          `specLca`, `specRollup` (fold over the *set* of descendants);
* implementation `I`    — nested-set labels from the DFS pre-order, Fenwick tree (`lowbit`
                          loops on a `List Int`), bottom-up segment tree, Kahn topological
                          order + greedy chain decomposition + `reach` tables + per-chain suffix
                          folds, spanning forest + exception edges; `updateMeasure` in place;
* manager               — `fresh | stale`, covering-edge writes, in-place measure writes,
                          rebuild, and which plan the planner picks for the `*0..` shapes.
-/
namespace SgModel.Oeh

/-! ### values and monoids (`monoid.rs`) -/

inductive RV where
  | int (i : Int)
  | null
deriving DecidableEq, Repr, Inhabited

inductive Op where
  | sum | count | min | max
deriving DecidableEq, Repr

def Op.identity : Op → RV
  | .sum => .int 0
  | .count => .int 0
  | .min => .null
  | .max => .null

/-- `RollupOp::combine` on the integer/Null fragment -/
def Op.combine (op : Op) (a b : RV) : RV :=
  match a, b with
  | .null, x => x
  | .int x, .null => .int x
  | .int x, .int y =>
    match op with
    | .sum => .int (x + y)
    | .count => .int (x + y)
    | .min => .int (if x ≤ y then x else y)
    | .max => .int (if x ≥ y then x else y)

abbrev Measure := List (Option Int)

def mval (m : Measure) (i : Nat) : Option Int := (m[i]?).join

/-! ### the poset (`poset.rs`) -/

structure Poset where
  n : Nat
  edges : List (Nat × Nat)      -- (child, parent), distinct, insertion order
deriving Repr, DecidableEq

def Poset.parents (P : Poset) (i : Nat) : List Nat :=
  (P.edges.filter (fun e => e.1 == i)).map (·.2)

def Poset.children (P : Poset) (i : Nat) : List Nat :=
  (P.edges.filter (fun e => e.2 == i)).map (·.1)

def Poset.roots (P : Poset) : List Nat :=
  (List.range P.n).filter (fun i => (P.parents i).isEmpty)

def Poset.isTree (P : Poset) : Bool :=
  (List.range P.n).all (fun i => (P.parents i).length ≤ 1)

def Poset.extraParents (P : Poset) : Nat :=
  ((List.range P.n).map (fun i => (P.parents i).length - 1)).sum

/-- Kahn's sort, children before parents, FIFO queue seeded in index order (`topo_sort_up`). -/
def topoLoop (P : Poset) : Nat → List Nat → List Nat → List Nat → List Nat
  | 0, _, _, acc => acc.reverse
  | _ + 1, [], _, acc => acc.reverse
  | f + 1, u :: q, indeg, acc =>
    let st := (P.parents u).foldl (fun (st : List Nat × List Nat) p =>
        let d := st.1.getD p 0 - 1
        (st.1.set p d, if d == 0 then st.2 ++ [p] else st.2)) (indeg, [])
    topoLoop P f (q ++ st.2) st.1 (u :: acc)

def Poset.topoUp (P : Poset) : List Nat :=
  let indeg := (List.range P.n).map (fun i => (P.children i).length)
  let q := (List.range P.n).filter (fun i => indeg.getD i 0 == 0)
  topoLoop P P.n q indeg []

def Poset.topoDown (P : Poset) : List Nat := P.topoUp.reverse

def nodupNat : List Nat → Bool
  | [] => true
  | x :: r => !(r.contains x) && nodupNat r

def nodupEdges : List (Nat × Nat) → Bool
  | [] => true
  | x :: r => !(r.contains x) && nodupEdges r

/-- what `Poset::from_edges` accepts: endpoints in range, distinct edges, acyclic
(every node gets ordered by Kahn's sort) -/
def Poset.wf (P : Poset) : Bool :=
  P.edges.all (fun e => e.1 < P.n && e.2 < P.n) && nodupEdges P.edges
  && P.topoUp.length == P.n

/-! ### specification `S`: the brute-force poset answers -/

/-- `x ⊑ y` with at most `fuel` covering steps upward from `x` -/
def reach (P : Poset) : Nat → Nat → Nat → Bool
  | 0, x, y => x == y
  | f + 1, x, y => x == y || (P.parents x).any (fun p => reach P f p y)

def specSubsumes (P : Poset) (x y : Nat) : Bool := reach P P.n x y

/-- `{y} ∪ descendants(y)`, ascending -/
def specDesc (P : Poset) (y : Nat) : List Nat :=
  (List.range P.n).filter (fun x => reach P P.n x y)

/-- minimal common upper bounds, ascending -/
def specLca (P : Poset) (x y : Nat) : List Nat :=
  let common := (List.range P.n).filter (fun c => reach P P.n x c && reach P P.n y c)
  common.filter (fun c => !(common.any (fun d => d != c && reach P P.n d c)))

def foldMeasure (op : Op) (m : Measure) (nodes : List Nat) : RV :=
  nodes.foldl (fun acc z => match mval m z with
    | some v => op.combine acc (.int v)
    | none => acc) op.identity

/-- roll-up = fold of the measure over the *set* of reflexive descendants; COUNT counts nodes -/
def specRollup (P : Poset) (m : Measure) (op : Op) (y : Nat) : RV :=
  match op with
  | .count => .int (specDesc P y).length
  | _ => foldMeasure op m (specDesc P y)

/-- integer view of the SUM roll-up (what the theorems are stated on) -/
def bruteSum (P : Poset) (m : Measure) (y : Nat) : Int :=
  ((specDesc P y).map (fun z => (mval m z).getD 0)).sum

def updMeasure (m : Measure) (u : Nat × Option Int) : Measure := m.set u.1 u.2

/-! ### the same answers by frontier closure (polynomial; used by the driver on large posets,
where the path-enumerating `reach` is exponential on diamonds) -/

def insertSorted (x : Nat) : List Nat → List Nat
  | [] => [x]
  | y :: r => if x < y then x :: y :: r else if x = y then y :: r else y :: insertSorted x r

def unionSorted (a b : List Nat) : List Nat := b.foldl (fun s x => insertSorted x s) a

/-- `S ↦ S ∪ nbrs(S)` until nothing is added (at most `fuel` rounds); `S` sorted, duplicate-free -/
def closureLoop (nbrs : Nat → List Nat) : Nat → List Nat → List Nat
  | 0, S => S
  | f + 1, S =>
    let S' := unionSorted S (S.flatMap nbrs)
    if S'.length == S.length then S else closureLoop nbrs f S'

def descFast (P : Poset) (y : Nat) : List Nat := closureLoop P.children P.n [y]
def ancFast (P : Poset) (x : Nat) : List Nat := closureLoop P.parents P.n [x]

def specLcaFast (P : Poset) (x y : Nat) : List Nat :=
  let ay := ancFast P y
  let common := (ancFast P x).filter ay.contains
  common.filter (fun c => !(common.any (fun d => d != c && (ancFast P d).contains c)))

def specRollupFast (P : Poset) (m : Measure) (op : Op) (y : Nat) : RV :=
  match op with
  | .count => .int (descFast P y).length
  | _ => foldMeasure op m (descFast P y)

/-! ### nested-set encoding (`build_nested_set`) -/

/-- DFS pre-order of the subtree of `v` (children in insertion order); `fuel` bounds the depth -/
def pre (P : Poset) : Nat → Nat → List Nat
  | 0, _ => []
  | f + 1, v => v :: (P.children v).flatMap (pre P f)

/-- the rank → node table `inv`: roots in index order, each followed by its subtree -/
def order (P : Poset) : List Nat := P.roots.flatMap (pre P P.n)

structure Nested where
  tin : List Nat
  tout : List Nat
  inv : List Nat
deriving Repr, DecidableEq

def subtreeSize (P : Poset) (v : Nat) : Nat := (pre P P.n v).length

def buildNested (P : Poset) : Nested :=
  let inv := order P
  { inv := inv
    tin := (List.range P.n).map (fun v => inv.idxOf v)
    tout := (List.range P.n).map (fun v => inv.idxOf v + subtreeSize P v - 1) }

def Nested.tinOf (N : Nested) (v : Nat) : Nat := N.tin.getD v 0
def Nested.toutOf (N : Nested) (v : Nat) : Nat := N.tout.getD v 0

/-- interval containment: two integer comparisons -/
def Nested.subsumes (N : Nested) (x y : Nat) : Bool :=
  N.tinOf y ≤ N.tinOf x && N.toutOf x ≤ N.toutOf y

/-- `inv[tin[y] ..= tout[y]]` -/
def Nested.descendants (N : Nested) (y : Nat) : List Nat :=
  (N.inv.drop (N.tinOf y)).take (N.toutOf y + 1 - N.tinOf y)

def Nested.count (N : Nested) (y : Nat) : Nat := N.toutOf y - N.tinOf y + 1

/-! ### Fenwick tree (`Fenwick::Int`) -/

theorem lowbit_dec {j : Nat} (h : ¬ j = 0) : j / 2 < j := by omega

/-- `j & j.wrapping_neg()`: the lowest set bit -/
def lowbit (j : Nat) : Nat :=
  if h : j = 0 then 0 else if j % 2 = 1 then 1 else 2 * lowbit (j / 2)
termination_by j
decreasing_by exact lowbit_dec h

theorem lowbit_pos : ∀ j : Nat, 0 < j → 0 < lowbit j := by
  intro j
  induction j using Nat.strongRecOn with
  | _ j ih =>
    intro hj
    rw [lowbit]
    split
    · omega
    · split
      · omega
      · have := ih (j / 2) (by omega) (by omega)
        omega

theorem lowbit_le : ∀ j : Nat, lowbit j ≤ j := by
  intro j
  induction j using Nat.strongRecOn with
  | _ j ih =>
    rw [lowbit]
    split
    · omega
    · split
      · omega
      · have := ih (j / 2) (by omega)
        omega

/-- `while j <= n { t[j] += d; j += j & -j }` -/
def fwAddLoop : Nat → List Int → Nat → Int → List Int
  | 0, t, _, _ => t
  | f + 1, t, j, d =>
    if 0 < j ∧ j < t.length then fwAddLoop f (t.set j (t.getD j 0 + d)) (j + lowbit j) d else t

/-- `Fenwick::add(pos, delta)` -/
def fwAdd (t : List Int) (pos : Nat) (d : Int) : List Int := fwAddLoop t.length t (pos + 1) d

/-- `while i > 0 { acc += t[i]; i -= i & -i }` -/
def fwPrefixLoop (t : List Int) (i : Nat) : Int :=
  if _h : i = 0 then 0 else t.getD i 0 + fwPrefixLoop t (i - lowbit i)
termination_by i
decreasing_by
  have := lowbit_pos i (by omega)
  omega

/-- `Fenwick::prefix(i)`: sum of positions `[0, i)` -/
def fwPrefix (t : List Int) (i : Nat) : Int := fwPrefixLoop t (min i (t.length - 1))

/-- `Fenwick::range(lo, hi)`, inclusive -/
def fwRange (t : List Int) (lo hi : Nat) : Int :=
  if hi < lo then 0 else fwPrefix t (hi + 1) - fwPrefix t lo

def fwBuildFrom : List Int → Nat → List Int → List Int
  | [], _, t => t
  | v :: vs, i, t => fwBuildFrom vs (i + 1) (fwAdd t i v)

/-- `Fenwick::build(values)`: add every position into a zero tree -/
def fwBuild (vals : List Int) : List Int :=
  fwBuildFrom vals 0 (List.replicate (vals.length + 1) 0)

/-! ### segment tree (`SegmentTree`) -/

structure Seg where
  tree : List RV
  op : Op
  size : Nat
  n : Nat
deriving Repr, DecidableEq

def nextPow2Loop : Nat → Nat → Nat → Nat
  | 0, p, _ => p
  | f + 1, p, n => if n ≤ p then p else nextPow2Loop f (2 * p) n

def nextPow2 (n : Nat) : Nat := nextPow2Loop n 1 n

/-- `for i in (1..size).rev() { tree[i] = combine(tree[2i], tree[2i+1]) }`; `k` counts down -/
def segFill (op : Op) : Nat → List RV → List RV
  | 0, t => t
  | k + 1, t =>
    if k = 0 then t
    else segFill op k (t.set k (op.combine (t.getD (2 * k) .null) (t.getD (2 * k + 1) .null)))

def Seg.build (vals : List RV) (op : Op) : Seg :=
  let n := vals.length
  let size := nextPow2 (max n 1)
  let t0 := List.replicate size op.identity ++ vals ++ List.replicate (size - n) op.identity
  { tree := segFill op size t0, op := op, size := size, n := n }

def segRangeLoop (op : Op) (t : List RV) : Nat → Nat → Nat → RV → RV
  | 0, _, _, acc => acc
  | f + 1, l, r, acc =>
    if l < r then
      let acc1 := if l % 2 = 1 then op.combine acc (t.getD l .null) else acc
      let l1 := if l % 2 = 1 then l + 1 else l
      let r1 := if r % 2 = 1 then r - 1 else r
      let acc2 := if r % 2 = 1 then op.combine acc1 (t.getD r1 .null) else acc1
      segRangeLoop op t f (l1 / 2) (r1 / 2) acc2
    else acc

/-- `SegmentTree::range(lo, hi)`, inclusive -/
def Seg.range (s : Seg) (lo hi : Nat) : RV :=
  if hi < lo ∨ s.n ≤ lo then s.op.identity
  else segRangeLoop s.op s.tree (2 * s.size + 1) (lo + s.size) (min hi (s.n - 1) + s.size + 1) s.op.identity

def segSetLoop (op : Op) : Nat → List RV → Nat → List RV
  | 0, t, _ => t
  | f + 1, t, i =>
    if 1 < i then
      let p := i / 2
      segSetLoop op f (t.set p (op.combine (t.getD (2 * p) .null) (t.getD (2 * p + 1) .null))) p
    else t

/-- `SegmentTree::set(pos, value)` -/
def Seg.set (s : Seg) (pos : Nat) (v : RV) : Seg :=
  if s.n ≤ pos then s
  else { s with tree := segSetLoop s.op (2 * s.size) (s.tree.set (pos + s.size) v) (pos + s.size) }

/-! ### nested-set index with its roll-up structures -/

structure NestedIdx where
  P : Poset
  lab : Nested
  measure : Measure
  fen : List Int          -- SUM
  segMin : Seg
  segMax : Seg
deriving Repr

/-- the measure reordered into rank order -/
def byRank (P : Poset) (N : Nested) (m : Measure) : List (Option Int) :=
  (List.range P.n).map (fun r => mval m (N.inv.getD r 0))

def optRV : Option Int → RV
  | some v => .int v
  | none => .null

def NestedIdx.build (P : Poset) (m : Measure) : NestedIdx :=
  let N := buildNested P
  let br := byRank P N m
  { P := P, lab := N, measure := m
    fen := fwBuild (br.map (·.getD 0))
    segMin := Seg.build (br.map optRV) .min
    segMax := Seg.build (br.map optRV) .max }

/-- `OehIndex::update_measure` on the nested-set encoding -/
def NestedIdx.update (I : NestedIdx) (u : Nat × Option Int) : NestedIdx :=
  if I.P.n ≤ u.1 then I else
  let old := mval I.measure u.1
  let rank := I.lab.tinOf u.1
  { I with
    measure := I.measure.set u.1 u.2
    fen := fwAdd I.fen rank (u.2.getD 0 - old.getD 0)
    segMin := I.segMin.set rank (optRV u.2)
    segMax := I.segMax.set rank (optRV u.2) }

def NestedIdx.rollup (I : NestedIdx) (op : Op) (y : Nat) : RV :=
  match op with
  | .count => .int (I.lab.count y)
  | .sum => .int (fwRange I.fen (I.lab.tinOf y) (I.lab.toutOf y))
  | .min => I.segMin.range (I.lab.tinOf y) (I.lab.toutOf y)
  | .max => I.segMax.range (I.lab.tinOf y) (I.lab.toutOf y)

/-- walk up from `x` to the first ancestor whose interval contains `y` -/
def nestedLcaLoop (P : Poset) (N : Nested) : Nat → Nat → Nat → List Nat
  | 0, _, _ => []
  | f + 1, cur, y =>
    if N.subsumes y cur then [cur]
    else match (P.parents cur).head? with
      | some p => nestedLcaLoop P N f p y
      | none => []

def NestedIdx.lca (I : NestedIdx) (x y : Nat) : List Nat :=
  nestedLcaLoop I.P I.lab (I.P.n + 1) x y

/-! ### chain decomposition (`decompose_chains`, `build_chain`) -/

def chainWalk (P : Poset) : Nat → Nat → List Bool → List Nat → List Bool × List Nat
  | 0, _, used, acc => (used, acc.reverse)
  | f + 1, v, used, acc =>
    if used.getD v true then (used, acc.reverse)
    else
      let used1 := used.set v true
      match (P.children v).find? (fun c => !(used1.getD c true)) with
      | some c => chainWalk P f c used1 (v :: acc)
      | none => (used1, (v :: acc).reverse)

def decomposeChains (P : Poset) : List (List Nat) :=
  (P.topoDown.foldl (fun (st : List Bool × List (List Nat)) u =>
      if st.1.getD u true then st
      else
        let r := chainWalk P (P.n + 1) u st.1 []
        (r.1, st.2 ++ [r.2])) (List.replicate P.n false, [])).2

/-- insert `(cid, pos)` into a list sorted by chain id, keeping the minimum position -/
def reachInsert : List (Nat × Nat) → Nat × Nat → List (Nat × Nat)
  | [], e => [e]
  | (c, p) :: r, (c', p') =>
    if c' < c then (c', p') :: (c, p) :: r
    else if c' = c then (c, if p' < p then p' else p) :: r
    else (c, p) :: reachInsert r (c', p')

structure Chain where
  chainOf : List (Nat × Nat)
  chains : List (List Nat)
  rch : List (List (Nat × Nat))
deriving Repr, DecidableEq

def buildChain (P : Poset) : Chain :=
  let chains := decomposeChains P
  let chainOf := (List.range P.n).map (fun v =>
    match (List.range chains.length).find? (fun c => (chains.getD c []).contains v) with
    | some c => (c, (chains.getD c []).idxOf v)
    | none => (0, 0))
  let rch := P.topoUp.foldl (fun (rm : List (List (Nat × Nat))) v =>
      let acc := (P.children v).foldl (fun acc c => (rm.getD c []).foldl reachInsert acc)
        [chainOf.getD v (0, 0)]
      rm.set v acc) (List.replicate P.n [])
  { chainOf := chainOf, chains := chains, rch := rch }

def Chain.subsumes (C : Chain) (x y : Nat) : Bool :=
  let cp := C.chainOf.getD x (0, 0)
  match (C.rch.getD y []).find? (fun e => e.1 == cp.1) with
  | some e => e.2 ≤ cp.2
  | none => false

def Chain.descendants (C : Chain) (y : Nat) : List Nat :=
  (C.rch.getD y []).flatMap (fun e => (C.chains.getD e.1 []).drop e.2)

def Chain.count (C : Chain) (y : Nat) : Nat :=
  ((C.rch.getD y []).map (fun e => (C.chains.getD e.1 []).length - e.2)).sum

/-- per-chain suffix folds: `suf[i] = combine(v_i, suf[i+1])`, `suf[len] = identity` -/
def suffixFold (op : Op) (m : Measure) : List Nat → List RV
  | [] => [op.identity]
  | v :: rest =>
    let tl := suffixFold op m rest
    op.combine ((mval m v).elim op.identity .int) (tl.headD op.identity) :: tl

/-- refold positions `pos, pos-1, …, 0` of one chain's suffix table (`k = pos + 1`) -/
def refold (op : Op) (m : Measure) (chain : List Nat) : Nat → List RV → List RV
  | 0, suf => suf
  | k + 1, suf =>
    let v := (mval m (chain.getD k 0)).elim op.identity .int
    refold op m chain k (suf.set k (op.combine v (suf.getD (k + 1) op.identity)))

structure ChainIdx where
  P : Poset
  C : Chain
  measure : Measure
  sufSum : List (List RV)
  sufMin : List (List RV)
  sufMax : List (List RV)
deriving Repr

def ChainIdx.build (P : Poset) (m : Measure) : ChainIdx :=
  let C := buildChain P
  { P := P, C := C, measure := m
    sufSum := C.chains.map (suffixFold .sum m)
    sufMin := C.chains.map (suffixFold .min m)
    sufMax := C.chains.map (suffixFold .max m) }

def ChainIdx.update (I : ChainIdx) (u : Nat × Option Int) : ChainIdx :=
  if I.P.n ≤ u.1 then I else
  let m := I.measure.set u.1 u.2
  let cp := I.C.chainOf.getD u.1 (0, 0)
  let chain := I.C.chains.getD cp.1 []
  let re := fun (op : Op) (tabs : List (List RV)) =>
    tabs.set cp.1 (refold op m chain (cp.2 + 1) (tabs.getD cp.1 []))
  { I with measure := m, sufSum := re .sum I.sufSum, sufMin := re .min I.sufMin,
           sufMax := re .max I.sufMax }

def ChainIdx.rollup (I : ChainIdx) (op : Op) (y : Nat) : RV :=
  let fold := fun (tabs : List (List RV)) =>
    (I.C.rch.getD y []).foldl (fun acc e => op.combine acc ((tabs.getD e.1 []).getD e.2 op.identity))
      op.identity
  match op with
  | .count => .int (I.C.count y)
  | .sum => fold I.sufSum
  | .min => fold I.sufMin
  | .max => fold I.sufMax

/-! executable well-formedness checks of the two graph algorithms the chain encoding rests on
(hypotheses of `C28_chain_reach_iff_partial`; the driver evaluates them on every chain case) -/

/-- `order` lists every node once, every child before its parents -/
def topoOkB (P : Poset) (order : List Nat) : Bool :=
  nodupNat order && (List.range P.n).all (fun v => order.contains v)
  && P.edges.all (fun e => order.idxOf e.1 < order.idxOf e.2)
  && order.all (fun v => v < P.n)

/-- consecutive elements of a chain are parent, child -/
def pathOkB (P : Poset) : List Nat → Bool
  | [] => true
  | [_] => true
  | a :: b :: r => P.edges.contains (b, a) && pathOkB P (b :: r)

/-- every node sits where `chainOf` says, and every chain is a downward path -/
def chainsOkB (P : Poset) (C : Chain) : Bool :=
  (List.range P.n).all (fun v =>
    let cp := C.chainOf.getD v (0, 0)
    (C.chains.getD cp.1 [])[cp.2]? == some v)
  && C.chains.all (pathOkB P)

/-- minimal elements of the common upper bounds, by the index's own subsumption test -/
def lcaBy (n : Nat) (sub : Nat → Nat → Bool) (x y : Nat) : List Nat :=
  let common := (List.range n).filter (fun c => sub x c && sub y c)
  common.filter (fun c => !(common.any (fun d => d != c && sub d c)))

/-! ### near-tree: spanning forest + exception edges (`build_near_tree`) -/

structure Near where
  lab : Nested
  exceptions : List (Nat × Nat)     -- (child, parent) edges outside the spanning forest
deriving Repr, DecidableEq

/-- the spanning forest: every node keeps its first parent; forest children in index order -/
def forestOf (P : Poset) : Poset :=
  { n := P.n
    edges := (List.range P.n).filterMap (fun c => (P.parents c).head?.map (fun p => (c, p))) }

def insertByKey (key : Nat × Nat → Nat) (e : Nat × Nat) : List (Nat × Nat) → List (Nat × Nat)
  | [] => [e]
  | x :: r => if key e < key x then e :: x :: r else x :: insertByKey key e r

def buildNear (P : Poset) : Near :=
  let lab := buildNested (forestOf P)
  let exc := (List.range P.n).flatMap (fun c => ((P.parents c).drop 1).map (fun p => (c, p)))
  { lab := lab
    exceptions := exc.foldl (fun acc e => insertByKey (fun x => lab.tinOf x.1) e acc) [] }

/-- `via_exception`: the path leaves the forest through an exception edge `(c, p)`;
`seen` is threaded through the whole search exactly as the `&mut Vec` is -/
def viaException (N : Near) : Nat → Nat → Nat → List Nat → Bool × List Nat
  | 0, _, _, seen => (false, seen)
  | f + 1, x, y, seen =>
    N.exceptions.foldl (fun (st : Bool × List Nat) e =>
      if st.1 then st
      else if !(N.lab.subsumes x e.1) then st
      else if N.lab.subsumes e.2 y then (true, st.2)
      else if st.2.contains e.2 then st
      else viaException N f e.2 y (e.2 :: st.2)) (false, seen)

def Near.subsumes (N : Near) (x y : Nat) : Bool :=
  N.lab.subsumes x y || (viaException N (N.lab.tin.length + 1) x y []).1

/-- the frontier loop of `descendants` (a stack; `seen` kept as a sorted duplicate-free list) -/
def nearDescLoop (N : Near) : Nat → List Nat → List Nat → List Nat
  | 0, _, seen => seen
  | _ + 1, [], seen => seen
  | f + 1, cur :: frontier, seen =>
    let seen1 := (N.lab.descendants cur).foldl (fun s d => insertSorted d s) seen
    let push := N.exceptions.filter (fun e => N.lab.subsumes e.2 cur && !(seen1.contains e.1))
    nearDescLoop N f ((push.map (·.1)).reverse ++ frontier) seen1

/-- fuel of the frontier loop: an upper bound on the number of pops (every pop of `x` can push
at most one entry per exception, and pushed nodes lie strictly lower in the poset) -/
def nearFuel (N : Near) : Nat := (N.exceptions.length + 1) ^ N.lab.tin.length + 1

def Near.descendants (N : Near) (y : Nat) : List Nat :=
  nearDescLoop N (nearFuel N) [y] []

structure NearIdx where
  P : Poset
  N : Near
  measure : Measure
deriving Repr

def NearIdx.rollup (I : NearIdx) (op : Op) (y : Nat) : RV :=
  match op with
  | .count => .int (I.N.descendants y).length
  | _ => foldMeasure op I.measure (I.N.descendants y)

/-! ### the index as a whole (`OehIndex`) -/

inductive Enc where
  | nested | chain | near
deriving DecidableEq, Repr

inductive Index where
  | nested (i : NestedIdx)
  | chain (i : ChainIdx)
  | near (i : NearIdx)
deriving Repr

def isqrtLoop : Nat → Nat → Nat → Nat
  | 0, k, _ => k
  | f + 1, k, m => if (k + 1) * (k + 1) ≤ m then isqrtLoop f (k + 1) m else k

/-- `max(64, (8.0 * sqrt(n)) as usize)` -/
def widthCap (n : Nat) : Nat := max 64 (isqrtLoop (64 * n + 1) 0 (64 * n))

/-- `min(n / 20, 100_000)` -/
def exceptionCap (n : Nat) : Nat := min (n / 20) 100000

inductive BuildResult where
  | ok (i : Index)
  | declined (width cap : Nat)
  | notATree

def buildForced (P : Poset) (m : Measure) : Enc → BuildResult
  | .nested => if P.isTree then .ok (.nested (NestedIdx.build P m)) else .notATree
  | .near => .ok (.near { P := P, N := buildNear P, measure := m })
  | .chain => .ok (.chain (ChainIdx.build P m))

/-- `OehIndex::probe` + `build` -/
def buildAuto (P : Poset) (m : Measure) : BuildResult :=
  if P.isTree then buildForced P m .nested
  else if P.extraParents ≤ exceptionCap P.n then buildForced P m .near
  else
    let w := (decomposeChains P).length
    if w > widthCap P.n ∧ P.n > 100 then .declined w (widthCap P.n)
    else buildForced P m .chain

def Index.enc : Index → Enc
  | .nested _ => .nested
  | .chain _ => .chain
  | .near _ => .near

def Index.poset : Index → Poset
  | .nested i => i.P
  | .chain i => i.P
  | .near i => i.P

def Index.subsumes : Index → Nat → Nat → Bool
  | .nested i, x, y => i.lab.subsumes x y
  | .chain i, x, y => i.C.subsumes x y
  | .near i, x, y => i.N.subsumes x y

def Index.descendants : Index → Nat → List Nat
  | .nested i, y => i.lab.descendants y
  | .chain i, y => i.C.descendants y
  | .near i, y => i.N.descendants y

def Index.rollup : Index → Op → Nat → RV
  | .nested i, op, y => i.rollup op y
  | .chain i, op, y => i.rollup op y
  | .near i, op, y => i.rollup op y

def Index.lca : Index → Nat → Nat → List Nat
  | .nested i, x, y => i.lca x y
  | .chain i, x, y => lcaBy i.P.n i.C.subsumes x y
  | .near i, x, y => lcaBy i.P.n i.N.subsumes x y

def Index.update : Index → Nat × Option Int → Index
  | .nested i, u => .nested (i.update u)
  | .chain i, u => .chain (i.update u)
  | .near i, u => if i.P.n ≤ u.1 then .near i else .near { i with measure := i.measure.set u.1 u.2 }

def Index.measure : Index → Measure
  | .nested i => i.measure
  | .chain i => i.measure
  | .near i => i.measure

/-- chain width, when the chain encoding is used (`OehIndex::width`) -/
def Index.width : Index → Option Nat
  | .chain i => some i.C.chains.length
  | _ => none

/-- `OehIndex::structural_bytes` (4-byte ranks, 8-byte pairs): ties the *representation* -/
def Index.structuralBytes : Index → Nat
  | .nested i => (i.lab.tin.length + i.lab.tout.length + i.lab.inv.length) * 4
  | .near i => (i.N.lab.tin.length + i.N.lab.tout.length + i.N.lab.inv.length) * 4
      + i.N.exceptions.length * 8
  | .chain i => i.C.chainOf.length * 8 + (i.C.chains.map List.length).sum * 4
      + (i.C.rch.map List.length).sum * 8

end SgModel.Oeh
