/-
Model of `src/graph/store.rs` (GraphStore) for property C06: the redundant representations
(node arena, `edge_endpoints` with the `(0,0)` deleted sentinel, `edge_type_ids` with an
UNSET sentinel, interned type table, write-buffer adjacency, frozen segments appended by
`compact_adjacency`, LIFO free lists, label / edge-type indexes, sparse edge properties and
the two column stores) and the reads of the `observe_at` list.  Import-free.

`step` models the code after the `fix:` commits; `stepLegacy` models the pinned tree
(`delete_edge` leaves the frozen tier and the `edge_columns` row alone, `edges_between`
binary-searches the concatenation of all frozen segments).

Simplifications (trusted, see props/C06.json): a CSR segment (offsets + packed entries) is a
list of rows; node version chains have length ≤ 1 (no version bump happens in C06 histories:
`current_version` only changes in `commit_transaction`, which belongs to C07-C09), so a chain
is an `Option`; hash maps/sets are association lists / duplicate-free lists and every
observation of them is compared as a sorted list; labels, types, keys, values are `Nat` tags.
-/
namespace SgModel.Store

abbrev Row := List (Nat × Nat)      -- (neighbour node id, edge id)
abbrev Seg := List Row              -- one frozen segment: row per node index
abbrev Props := List (Nat × Nat)    -- key ↦ value

/-! ### small list utilities (arrays that are resized on demand) -/

/-- `v[i] = x`, after `v.resize(i+1, d)` when `i` is out of range -/
def setGrow {α : Type} (l : List α) (i : Nat) (x d : α) : List α :=
  if i < l.length then l.set i x else l ++ List.replicate (i - l.length) d ++ [x]

def insertAt {α : Type} (l : List α) (p : Nat) (x : α) : List α := l.take p ++ x :: l.drop p

def sumLen {α : Type} (rows : List (List α)) : Nat := (rows.map List.length).sum

/-- loop of Rust's `slice::binary_search_by` (no early exit on Equal) -/
def bsLoop (a : List Nat) (k : Nat) : Nat → Nat → Nat → Nat
  | 0, _, base => base
  | fuel + 1, size, base =>
    if 1 < size then
      let half := size / 2
      let mid := base + half
      bsLoop a k fuel (size - half) (if k < a.getD mid 0 then base else mid)
    else base

/-- `binary_search_by_key(&k, …)`: `(true, pos)` = `Ok(pos)`, `(false, pos)` = `Err(pos)` -/
def bsearch (a : List Nat) (k : Nat) : Bool × Nat :=
  if a.length = 0 then (false, 0) else
    let base := bsLoop a k a.length a.length 0
    let x := a.getD base 0
    if x = k then (true, base) else (false, base + (if x < k then 1 else 0))

/-- stable insertion sort by neighbour id (`sort_by_key` in `from_vec_of_vec`) -/
def insKey (x : Nat × Nat) : Row → Row
  | [] => [x]
  | y :: ys => if x.1 ≤ y.1 then x :: y :: ys else y :: insKey x ys

def sortRow : Row → Row
  | [] => []
  | x :: xs => insKey x (sortRow xs)

/-! ### one adjacency direction: write buffer + frozen segments -/

structure Tier where
  buf : List Row := []
  segs : List Seg := []
  total : Nat := 0          -- FrozenAdjacencyStore.total_edges (cached)
deriving DecidableEq, Repr

namespace Tier

/-- `FrozenAdjacencyStore::neighbors_collected` -/
def frozenRow (T : Tier) (n : Nat) : Row := T.segs.flatMap (fun seg => seg.getD n [])

/-- frozen entries, then write-buffer entries (the order every reader uses) -/
def row (T : Tier) (n : Nat) : Row := T.frozenRow n ++ T.buf.getD n []

/-- `create_edge`: sorted insert at the position the binary search reports -/
def insertSorted (T : Tier) (n x e : Nat) : Tier :=
  let r := T.buf.getD n []
  { T with buf := setGrow T.buf n (insertAt r (bsearch (r.map (·.1)) x).2 (x, e)) [] }

/-- `create_edge_stub`: unsorted push -/
def push (T : Tier) (n x e : Nat) : Tier :=
  { T with buf := setGrow T.buf n (T.buf.getD n [] ++ [(x, e)]) [] }

/-- `delete_edge` after the fix: `retain` on the buffer row **and** on the row of every frozen
segment, keeping the cached total exact -/
def remove (T : Tier) (n e : Nat) : Tier :=
  { buf := T.buf.set n ((T.buf.getD n []).filter (fun p => p.2 != e))
    segs := T.segs.map (fun seg => seg.set n ((seg.getD n []).filter (fun p => p.2 != e)))
    total := T.total - (T.frozenRow n).countP (fun p => p.2 == e) }

/-- the pinned tree: only the buffer row is touched -/
def removeLegacy (T : Tier) (n e : Nat) : Tier :=
  { T with buf := T.buf.set n ((T.buf.getD n []).filter (fun p => p.2 != e)) }

/-- `compact_adjacency` for one direction: new sorted segment, cleared buffer -/
def compact (T : Tier) : Tier :=
  { buf := T.buf.map (fun _ => []), segs := T.segs ++ [T.buf.map sortRow],
    total := T.total + sumLen T.buf }

/-- rows grow with the node arena (`outgoing.resize(idx+1, Vec::new())`) -/
def ensure (T : Tier) (n : Nat) : Tier :=
  if n < T.buf.length then T else { T with buf := T.buf ++ List.replicate (n + 1 - T.buf.length) [] }

def bufCount (T : Tier) : Nat := sumLen T.buf

end Tier

/-! ### the store -/

structure NodeRec where
  labels : List Nat := []
  props : Props := []
deriving DecidableEq, Repr

structure State where
  nodes : List (Option NodeRec) := []
  etypeTable : List Nat := []                 -- interned id → type
  etypeIds : List (Option Nat) := []          -- edge id → interned id; none = EDGE_TYPE_UNSET
  endp : List (Nat × Nat) := []               -- edge id → (source, target); (0,0) = deleted
  eprops : List (Nat × Props) := []           -- sparse edge properties
  outT : Tier := {}
  inT : Tier := {}
  freeN : List Nat := []                      -- head = top of the stack
  freeE : List Nat := []
  nextN : Nat := 1
  nextE : Nat := 1
  labelIdx : List (Nat × List Nat) := []
  typeIdx : List (Nat × List Nat) := []
  ncols : List ((Nat × Nat) × Nat) := []      -- node_columns: (row, key) ↦ value
  ecols : List ((Nat × Nat) × Nat) := []      -- edge_columns
  stubPending : Bool := false                 -- ghost: an edge stub was created since finish_bulk_load
deriving DecidableEq, Repr

def init : State := {}

inductive Ret where
  | id (n : Nat)
  | ok
  | no            -- `Ok(false)` of remove_label_from_node
  | err (code : Nat)   -- 1 NodeNotFound, 2 EdgeNotFound, 3 InvalidEdgeSource, 4 InvalidEdgeTarget, 9 precondition
deriving DecidableEq, Repr

inductive Op where
  | mkN (l : Nat) | mkNP (l k v : Nat) | mkNS (l : Nat)
  | mkE (s t ty : Nat) | mkEP (s t ty k v : Nat) | mkES (s t ty : Nat)
  | delE (e : Nat) | delN (n : Nat)
  | addL (n l : Nat) | rmL (n l : Nat)
  | setNP (n k v : Nat) | rmNP (n k : Nat) | setEP (e k v : Nat) | rmEP (e k : Nat)
  | compact | finish | clear
deriving DecidableEq, Repr

/-! association-list helpers -/

def assocGet {β : Type} (m : List (Nat × β)) (k : Nat) : Option β :=
  (m.find? (fun p => p.1 == k)).map (·.2)

def assocSet {β : Type} (m : List (Nat × β)) (k : Nat) (v : β) : List (Nat × β) :=
  if m.any (fun p => p.1 == k) then m.map (fun p => if p.1 == k then (k, v) else p) else m ++ [(k, v)]

def assocErase {β : Type} (m : List (Nat × β)) (k : Nat) : List (Nat × β) := m.filter (fun p => p.1 != k)

def setInsert (l : List Nat) (x : Nat) : List Nat := if l.contains x then l else l ++ [x]

def idxInsert (m : List (Nat × List Nat)) (k x : Nat) : List (Nat × List Nat) :=
  assocSet m k (setInsert ((assocGet m k).getD []) x)

def idxRemove (m : List (Nat × List Nat)) (k x : Nat) : List (Nat × List Nat) :=
  match assocGet m k with
  | some ids => assocSet m k (ids.filter (· != x))
  | none => m

def colGet (c : List ((Nat × Nat) × Nat)) (r k : Nat) : Option Nat :=
  (c.find? (fun p => p.1 == (r, k))).map (·.2)
def colSet (c : List ((Nat × Nat) × Nat)) (r k v : Nat) : List ((Nat × Nat) × Nat) :=
  c.filter (fun p => p.1 != (r, k)) ++ [((r, k), v)]
def colRemove (c : List ((Nat × Nat) × Nat)) (r k : Nat) : List ((Nat × Nat) × Nat) :=
  c.filter (fun p => p.1 != (r, k))
def colClearRow (c : List ((Nat × Nat) × Nat)) (r : Nat) : List ((Nat × Nat) × Nat) :=
  c.filter (fun p => p.1.1 != r)

/-! ### point reads -/

def getNode (s : State) (n : Nat) : Option NodeRec := s.nodes.getD n none
def liveN (s : State) (n : Nat) : Bool := (getNode s n).isSome
def endpOf (s : State) (e : Nat) : Nat × Nat := s.endp.getD e (0, 0)
def liveE (s : State) (e : Nat) : Bool := endpOf s e != (0, 0)
def typeIdOf (s : State) (e : Nat) : Option Nat := s.etypeIds.getD e none

/-- `get_edge_type` -/
def edgeTypeOf (s : State) (e : Nat) : Option Nat :=
  match typeIdOf s e with
  | some ti => s.etypeTable[ti]?
  | none => none

/-- `get_edge` at the current version: (source, target, type, properties) -/
def getEdge (s : State) (e : Nat) : Option (Nat × Nat × Nat × Props) :=
  if endpOf s e == (0, 0) then none else
    match edgeTypeOf s e with
    | some ty => some ((endpOf s e).1, (endpOf s e).2, ty, (assocGet s.eprops e).getD [])
    | none => none

/-- `edge_type_id` -/
def typeIdFor (s : State) (ty : Nat) : Option Nat :=
  if s.etypeTable.contains ty then some (s.etypeTable.idxOf ty) else none

/-! ### id allocation and interning -/

def allocN (s : State) : Nat × State :=
  match s.freeN with
  | i :: rest => (i, { s with freeN := rest })
  | [] => (s.nextN, { s with nextN := s.nextN + 1 })

def allocE (s : State) : Nat × State :=
  match s.freeE with
  | i :: rest => (i, { s with freeE := rest })
  | [] => (s.nextE, { s with nextE := s.nextE + 1 })

def intern (tbl : List Nat) (ty : Nat) : List Nat × Nat :=
  if tbl.contains ty then (tbl, tbl.idxOf ty) else (tbl ++ [ty], tbl.length)

/-! ### writes -/

/-- `outgoing.resize(idx+1, …)` / `incoming.resize(idx+1, …)` -/
def ensureRows (s : State) (n : Nat) : State :=
  { s with outT := s.outT.ensure n, inT := s.inT.ensure n }

/-- `create_node` / `create_node_stub` / `create_node_with_properties` (one label, props) -/
def createNode (s : State) (l : Nat) (ps : Props) : State × Ret :=
  let (i, s1) := allocN s
  let s2 := { s1 with ncols := ps.foldl (fun c p => colSet c i p.1 p.2) s1.ncols,
                      labelIdx := idxInsert s1.labelIdx l i }
  let s3 := ensureRows s2 i
  ({ s3 with nodes := setGrow s3.nodes i (some { labels := [l], props := ps }) none }, .id i)

/-- common tail of the three edge constructors -/
def linkEdge (s : State) (i src tgt ty : Nat) (sorted : Bool) : State :=
  let (tbl, ti) := intern s.etypeTable ty
  { s with outT := if sorted then s.outT.insertSorted src tgt i else s.outT.push src tgt i
           inT := if sorted then s.inT.insertSorted tgt src i else s.inT.push tgt src i
           endp := setGrow s.endp i (src, tgt) (0, 0)
           etypeTable := tbl
           etypeIds := setGrow s.etypeIds i (some ti) none }

/-- `create_edge` / `create_edge_with_properties` -/
def createEdge (s : State) (src tgt ty : Nat) (ps : Props) : State × Ret :=
  if !liveN s src then (s, .err 3) else
  if !liveN s tgt then (s, .err 4) else
  let (i, s1) := allocE s
  let s2 := { s1 with ecols := ps.foldl (fun c p => colSet c i p.1 p.2) s1.ecols }
  let s3 := linkEdge s2 i src tgt ty true
  ({ s3 with eprops := if ps.isEmpty then s3.eprops else assocSet s3.eprops i ps,
             typeIdx := idxInsert s3.typeIdx ty i }, .id i)

/-- `create_edge_stub`; the API indexes `outgoing[source]` unchecked, so live endpoints are a
precondition (`Pre`); outside it the model refuses instead of panicking -/
def createEdgeStub (s : State) (src tgt ty : Nat) : State × Ret :=
  if !liveN s src || !liveN s tgt then (s, .err 9) else
  let (i, s1) := allocE s
  ({ linkEdge s1 i src tgt ty false with stubPending := true }, .id i)

/-- `delete_edge` (after the fix) -/
def deleteEdge (s : State) (e : Nat) : State × Ret :=
  match getEdge s e with
  | none => (s, .err 2)
  | some (src, tgt, ty, _) =>
    ({ s with freeE := e :: s.freeE
              typeIdx := idxRemove s.typeIdx ty e
              outT := s.outT.remove src e
              inT := s.inT.remove tgt e
              endp := if e < s.endp.length then s.endp.set e (0, 0) else s.endp
              etypeIds := if e < s.etypeIds.length then s.etypeIds.set e none else s.etypeIds
              eprops := assocErase s.eprops e
              ecols := colClearRow s.ecols e }, .ok)

/-- `delete_edge` of the pinned tree: frozen tier and `edge_columns` row untouched -/
def deleteEdgeLegacy (s : State) (e : Nat) : State × Ret :=
  match getEdge s e with
  | none => (s, .err 2)
  | some (src, tgt, ty, _) =>
    ({ s with freeE := e :: s.freeE
              typeIdx := idxRemove s.typeIdx ty e
              outT := s.outT.removeLegacy src e
              inT := s.inT.removeLegacy tgt e
              endp := if e < s.endp.length then s.endp.set e (0, 0) else s.endp
              etypeIds := if e < s.etypeIds.length then s.etypeIds.set e none else s.etypeIds
              eprops := assocErase s.eprops e }, .ok)

/-- the node-side bookkeeping of `delete_node` -/
def dropNode (s : State) (n : Nat) (r : NodeRec) : State :=
  { s with freeN := n :: s.freeN
           labelIdx := r.labels.foldl (fun m l => idxRemove m l n) s.labelIdx
           ncols := colClearRow s.ncols n
           nodes := s.nodes.set n none }

/-- `delete_node`: free the id, un-index, clear the column row, pop the version, then
`delete_edge` every id collected from the frozen and buffer rows (outgoing first).  The
`mem::take` of the two buffer rows is modelled by its net effect: every entry taken is
removed by the `delete_edge` calls that follow. -/
def deleteNodeWith (del : State → Nat → State × Ret) (s : State) (n : Nat) : State × Ret :=
  match getNode s n with
  | none => (s, .err 1)
  | some r =>
    let ids := (s.outT.row n).map (·.2) ++ (s.inT.row n).map (·.2)
    (ids.foldl (fun acc e => (del acc e).1) (dropNode s n r), .ok)

def deleteNode := deleteNodeWith deleteEdge
def deleteNodeLegacy := deleteNodeWith deleteEdgeLegacy

def updNode (s : State) (n : Nat) (f : NodeRec → NodeRec) : State :=
  match getNode s n with
  | some r => { s with nodes := s.nodes.set n (some (f r)) }
  | none => s

def addLabel (s : State) (n l : Nat) : State × Ret :=
  match getNode s n with
  | none => (s, .err 1)
  | some _ =>
    ({ updNode s n (fun r => { r with labels := setInsert r.labels l }) with
         labelIdx := idxInsert s.labelIdx l n }, .ok)

def removeLabel (s : State) (n l : Nat) : State × Ret :=
  match getNode s n with
  | none => (s, .err 1)
  | some r =>
    if !r.labels.contains l then (s, .no) else
    let s1 := updNode s n (fun r => { r with labels := r.labels.filter (· != l) })
    let m := idxRemove s.labelIdx l n
    ({ s1 with labelIdx := if ((assocGet m l).getD []).isEmpty then assocErase m l else m }, .ok)

def setNodeProp (s : State) (n k v : Nat) : State × Ret :=
  match getNode s n with
  | none => (s, .err 9)     -- the API writes the column before it checks: live node is a precondition
  | some _ =>
    ({ updNode s n (fun r => { r with props := assocSet r.props k v }) with
         ncols := colSet s.ncols n k v }, .ok)

def removeNodeProp (s : State) (n k : Nat) : State × Ret :=
  ({ updNode s n (fun r => { r with props := assocErase r.props k }) with
       ncols := colRemove s.ncols n k }, .ok)

def setEdgeProp (s : State) (e k v : Nat) : State × Ret :=
  if !liveE s e then (s, .err 9) else   -- the API does not check existence: precondition
  ({ s with ecols := colSet s.ecols e k v
            eprops := assocSet s.eprops e (assocSet ((assocGet s.eprops e).getD []) k v) }, .ok)

def removeEdgeProp (s : State) (e k : Nat) : State × Ret :=
  if !liveE s e then ({ s with ecols := colRemove s.ecols e k }, .ok) else
  ({ s with ecols := colRemove s.ecols e k
            eprops := assocSet s.eprops e (assocErase ((assocGet s.eprops e).getD []) k) }, .ok)

/-- `compact_adjacency` -/
def compact (s : State) : State :=
  if s.outT.bufCount = 0 ∧ s.inT.bufCount = 0 then s
  else { s with outT := s.outT.compact, inT := s.inT.compact }

/-- `rebuild_edge_type_index` -/
def rebuildTypeIdx (s : State) : List (Nat × List Nat) :=
  (List.range s.etypeIds.length).foldl (fun m e =>
    match typeIdOf s e with
    | none => m
    | some ti =>
      if e < s.endp.length && endpOf s e != (0, 0) then
        match s.etypeTable[ti]? with
        | some ty => idxInsert m ty e
        | none => m
      else m) []

/-- `finish_bulk_load` (catalog / vector index are not part of C06) -/
def finish (s : State) : State :=
  let s1 := compact s
  { s1 with typeIdx := rebuildTypeIdx s1, stubPending := false }

def stepWith (delE : State → Nat → State × Ret) (s : State) : Op → State × Ret
  | .mkN l => createNode s l []
  | .mkNP l k v => createNode s l [(k, v)]
  | .mkNS l => createNode s l []
  | .mkE a b ty => createEdge s a b ty []
  | .mkEP a b ty k v => createEdge s a b ty [(k, v)]
  | .mkES a b ty => createEdgeStub s a b ty
  | .delE e => delE s e
  | .delN n => deleteNodeWith delE s n
  | .addL n l => addLabel s n l
  | .rmL n l => removeLabel s n l
  | .setNP n k v => setNodeProp s n k v
  | .rmNP n k => removeNodeProp s n k
  | .setEP e k v => setEdgeProp s e k v
  | .rmEP e k => removeEdgeProp s e k
  | .compact => (compact s, .ok)
  | .finish => (finish s, .ok)
  | .clear => (init, .ok)

def step := stepWith deleteEdge
def stepLegacy := stepWith deleteEdgeLegacy

def run (ops : List Op) : State := ops.foldl (fun s op => (step s op).1) init
def runLegacy (ops : List Op) : State := ops.foldl (fun s op => (stepLegacy s op).1) init

/-! ### list reads (the `observe_at` API) -/

/-- `get_outgoing_edges` / `get_incoming_edges`: ids of the edges returned -/
def edgesOf (s : State) (T : Tier) (n : Nat) : List Nat :=
  ((T.row n).filter (fun p => (getEdge s p.2).isSome)).map (·.2)

/-- `edge_type_matches` -/
def typeMatches (s : State) (e : Nat) (filt : Option (List Nat)) : Bool :=
  match typeIdOf s e with
  | none => false
  | some id => match filt with
    | none => true
    | some ids => ids.contains id

/-- `for_each_outgoing_neighbor` / `for_each_incoming_neighbor`: visited (neighbour, edge) -/
def neighbours (s : State) (T : Tier) (n : Nat) (filt : Option (List Nat)) : Row :=
  (T.row n).filter (fun p => typeMatches s p.2 filt)

/-- `outgoing_degree_for_type` / `incoming_degree_for_type` -/
def degreeForType (s : State) (T : Tier) (n ty : Nat) : Nat :=
  match typeIdFor s ty with
  | none => 0
  | some tid => (T.row n).countP (fun p => typeIdOf s p.2 == some tid)

def walkBack (keys : List Nat) (k : Nat) : Nat → Nat
  | 0 => 0
  | p + 1 => if keys.getD p 0 = k then walkBack keys k p else p + 1

/-- `search_adjacency_slice` -/
def searchSlice (s : State) (entries : Row) (key src tgt : Nat) (ty : Option Nat) : List Nat :=
  let keys := entries.map (·.1)
  match bsearch keys key with
  | (false, _) => []
  | (true, pos) =>
    let start := walkBack keys key pos
    ((entries.drop start).takeWhile (fun p => p.1 == key)).filterMap (fun p =>
      match getEdge s p.2 with
      | some (a, b, t, _) =>
        if a == src && b == tgt && (match ty with | some want => t == want | none => true)
        then some p.2 else none
      | none => match ty with
        | some want => if edgeTypeOf s p.2 == some want then some p.2 else none
        | none => some p.2)

/-- `edges_between` after the fix: each frozen segment is searched on its own -/
def edgesBetween (s : State) (src tgt : Nat) (ty : Option Nat) : List Nat :=
  s.outT.segs.flatMap (fun seg => searchSlice s (seg.getD src []) tgt src tgt ty)
    ++ searchSlice s (s.outT.buf.getD src []) tgt src tgt ty

/-- the pinned tree: one binary search over the concatenated segment rows -/
def edgesBetweenLegacy (s : State) (src tgt : Nat) (ty : Option Nat) : List Nat :=
  searchSlice s (s.outT.frozenRow src) tgt src tgt ty
    ++ searchSlice s (s.outT.buf.getD src []) tgt src tgt ty

/-- the specification-level formulation: filter instead of binary search -/
def edgesBetweenF (s : State) (src tgt : Nat) (ty : Option Nat) : List Nat :=
  ((s.outT.row src).filter (fun p => p.1 == tgt &&
      match getEdge s p.2 with
      | some (_, _, t, _) => (match ty with | some want => t == want | none => true)
      | none => false)).map (·.2)

def nodesByLabel (s : State) (l : Nat) : List Nat :=
  ((assocGet s.labelIdx l).getD []).filter (liveN s)

def edgesByType (s : State) (ty : Nat) : List Nat :=
  ((assocGet s.typeIdx ty).getD []).filter (fun e => (getEdge s e).isSome)

def nodeCount (s : State) : Nat := (s.nodes.filter Option.isSome).length

/-- `edge_count` = frozen total + buffer length -/
def edgeCount (s : State) : Nat := s.outT.total + s.outT.bufCount

/-- `all_edges` (ids) -/
def allEdges (s : State) : List Nat :=
  (List.range s.endp.length).filter (fun e => liveE s e && (getEdge s e).isSome)

end SgModel.Store
