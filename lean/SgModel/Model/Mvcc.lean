import SgModel.Model.Txn
/-
Model of the versioning functions of `src/graph/store.rs` (C07, C08):
per-node version chains (`nodes: Vec<Vec<Node>>`), copy-on-write node writes
(`set_node_property`, `remove_node_property`, `add_label_to_node`, `remove_label_from_node`),
`delete_node`, the per-relationship property map and post-image log (`edge_properties`,
`edge_version_log`, `set_edge_property`), `get_node_at_version`, `get_edge_at_version` with its
fallback branch, `node_count`/`all_nodes`, `gc_versions`/`gc_auto`, and — through the embedded
transaction machine of `Model/Txn.lean` — `current_version` and the active transactions.

`stepG false` is the code after the `fix:` commits; `stepG true` (`stepLegacy`) is the pinned
tree: `remove_node_property` and the two label functions mutate the newest version in place,
`delete_node` pops one version, `node_count`/`all_nodes` flatten every version.

Not modelled: adjacency tiers and compaction (C06), indices, columnar stores, edge types.
Ids are allocated as the code does (LIFO free list, then a counter).  The per-id vectors are
total functions `Nat → …` (an absent index is the empty chain / the dead relationship).
-/
namespace SgModel.Mvcc

abbrev Props := List (Nat × Int)

/-- property maps and label sets are kept sorted, so that equal maps are equal lists -/
def setKey : Props → Nat → Int → Props
  | [], k, v => [(k, v)]
  | (k', v') :: rest, k, v =>
    if k < k' then (k, v) :: (k', v') :: rest
    else if k = k' then (k, v) :: rest
    else (k', v') :: setKey rest k v

def delKey (m : Props) (k : Nat) : Props := m.filter (fun p => p.1 != k)

def addLab : List Nat → Nat → List Nat
  | [], l => [l]
  | l' :: rest, l =>
    if l < l' then l :: l' :: rest else if l = l' then l' :: rest else l' :: addLab rest l

def delLab (ls : List Nat) (l : Nat) : List Nat := ls.filter (fun x => x != l)

/-- one version of a node -/
structure NodeV where
  version : Nat
  labels : List Nat
  props : Props
deriving DecidableEq, Repr

/-- `EdgeVersionEntry` -/
structure ELog where
  version : Nat
  props : Props
deriving DecidableEq, Repr

structure EdgeRec where
  src : Nat := 0            -- (0, 0): deleted or never created
  tgt : Nat := 0
  props : Props := []       -- edge_properties (absent = empty)
  log : List ELog := []     -- edge_version_log (absent = empty)
deriving DecidableEq, Repr

def EdgeRec.live (e : EdgeRec) : Bool := e.src != 0 || e.tgt != 0

structure State where
  txn : Txn.State := {}
  nodes : Nat → List NodeV := fun _ => []
  edges : Nat → EdgeRec := fun _ => {}
  freeNodes : List Nat := []        -- top of the stack first
  freeEdges : List Nat := []
  nextNode : Nat := 1
  nextEdge : Nat := 1

def State.cur (s : State) : Nat := s.txn.core.cur

def upd {α : Type} (f : Nat → α) (i : Nat) (x : α) : Nat → α := fun j => if j = i then x else f j

inductive Op where
  | createNode (label : Nat)
  | setProp (n k : Nat) (v : Int)
  | removeProp (n k : Nat)
  | addLabel (n l : Nat)
  | removeLabel (n l : Nat)
  | deleteNode (n : Nat)
  | createEdge (src tgt : Nat) (props : Props)
  | setEdgeProp (e k : Nat) (v : Int)
  | deleteEdge (e : Nat)
  | txn (op : Txn.Op)                -- begin / write sets / commit / abort / bump / gc
deriving DecidableEq, Repr

inductive Out where
  | id (i : Nat)                     -- a freshly allocated id
  | ok
  | no                               -- Ok(false) of remove_label_from_node
  | notFound
  | badSource
  | badTarget
  | txn (o : Txn.Out)
deriving DecidableEq, Repr

/-! ### reads -/

/-- `get_node_at_version`: newest version `≤ v` -/
def chainAt (c : List NodeV) (v : Nat) : Option NodeV := c.reverse.find? (fun x => decide (x.version ≤ v))

def getNodeAt (s : State) (n v : Nat) : Option NodeV := chainAt (s.nodes n) v

/-- `get_node` -/
def getNode (s : State) (n : Nat) : Option NodeV := getNodeAt s n s.cur

/-- the `(version, properties)` part of `get_edge_at_version` -/
def edgeAt (e : EdgeRec) (cur v : Nat) : Option (Nat × Props) :=
  if !e.live then none else
  let r : Nat × Props :=
    match e.log.reverse.find? (fun x => decide (x.version ≤ v)) with
    | some entry =>
      if (e.log.find? (fun x => decide (v < x.version))).isSome || decide (v < cur)
      then (entry.version, entry.props)        -- historical read: the logged snapshot
      else (entry.version, e.props)            -- current read: the live map
    | none => (1, e.props)                     -- no entry ≤ v: current properties, version 1
  if v < r.1 then none else some r

def getEdgeAt (s : State) (e v : Nat) : Option (Nat × Props) := edgeAt (s.edges e) s.cur v

def getEdge (s : State) (e : Nat) : Option (Nat × Props) := getEdgeAt s e s.cur

/-- `node_count` (fixed: chains that hold a node) / all versions (pinned tree) -/
def nodeCountG (lg : Bool) (s : State) : Nat :=
  if lg then ((List.range s.nextNode).map (fun i => (s.nodes i).length)).sum
  else ((List.range s.nextNode).filter (fun i => !(s.nodes i).isEmpty)).length

/-- `all_nodes`, as (id, version) pairs -/
def allNodesG (lg : Bool) (s : State) : List (Nat × Nat) :=
  if lg then (List.range s.nextNode).flatMap (fun i => (s.nodes i).map (fun x => (i, x.version)))
  else (List.range s.nextNode).filterMap (fun i => (s.nodes i).getLast?.map (fun x => (i, x.version)))

/-! ### writes -/

/-- copy-on-write: apply `f` to the newest version, in a new version stamped `cur` when the
newest one is older than `cur`, in place otherwise -/
def cow (c : List NodeV) (cur : Nat) (f : NodeV → NodeV) : List NodeV :=
  match c.getLast? with
  | none => c
  | some last =>
    if last.version < cur then c ++ [f { last with version := cur }]
    else c.dropLast ++ [f last]

/-- the pinned tree's in-place mutation of the newest version -/
def inPlace (c : List NodeV) (f : NodeV → NodeV) : List NodeV :=
  match c.getLast? with
  | none => c
  | some last => c.dropLast ++ [f last]

def popId (free : List Nat) (next : Nat) : Nat × List Nat × Nat :=
  match free with
  | i :: rest => (i, rest, next)
  | [] => (next, [], next + 1)

/-- `set_edge_property`: update the live map, then record the post-image at `cur`
(coalescing with a last entry of the same version) -/
def setEdge (e : EdgeRec) (cur k : Nat) (v : Int) : EdgeRec :=
  let props := setKey e.props k v
  let log := match e.log.getLast? with
    | some last => if last.version = cur then e.log.dropLast ++ [{ last with props := props }]
                   else e.log ++ [⟨cur, props⟩]
    | none => e.log ++ [⟨cur, props⟩]
  { e with props := props, log := log }

/-- `delete_edge` -/
def killEdge (s : State) (e : Nat) : State :=
  if (edgeAt (s.edges e) s.cur s.cur).isSome then
    { s with edges := upd s.edges e {}, freeEdges := e :: s.freeEdges }
  else s

/-- the relationships `delete_node` cascades to: outgoing first, then incoming -/
def incident (s : State) (n : Nat) : List Nat :=
  (List.range s.nextEdge).filter (fun e => (s.edges e).live && (s.edges e).src == n)
  ++ (List.range s.nextEdge).filter (fun e => (s.edges e).live && (s.edges e).tgt == n)

/-- `rposition` -/
def rpos {α : Type} (p : α → Bool) : List α → Option Nat
  | [] => none
  | x :: rest => match rpos p rest with
    | some i => some (i + 1)
    | none => if p x then some 0 else none

/-- `gc_versions` on one chain / one log: with ≥ 2 entries, drop everything before the
newest entry `≤ w` -/
def gcList {α : Type} (ver : α → Nat) (l : List α) (w : Nat) : List α :=
  if l.length ≤ 1 then l else
  match rpos (fun x => decide (ver x ≤ w)) l with
  | some i => l.drop i
  | none => l

def gcStore (s : State) (w : Nat) : State :=
  { s with nodes := fun i => gcList NodeV.version (s.nodes i) w,
           edges := fun i => { s.edges i with log := gcList ELog.version (s.edges i).log w } }

def stepG (lg : Bool) (s : State) : Op → State × Out
  | .createNode l =>
    let p := popId s.freeNodes s.nextNode
    ({ s with nodes := upd s.nodes p.1 (s.nodes p.1 ++ [⟨s.cur, [l], []⟩]),
              freeNodes := p.2.1, nextNode := p.2.2 }, .id p.1)
  | .setProp n k v =>
    if (s.nodes n).isEmpty then (s, .notFound)
    else ({ s with nodes := upd s.nodes n (cow (s.nodes n) s.cur (fun x => { x with props := setKey x.props k v })) }, .ok)
  | .removeProp n k =>
    let f := fun (x : NodeV) => { x with props := delKey x.props k }
    ({ s with nodes := upd s.nodes n (if lg then inPlace (s.nodes n) f else cow (s.nodes n) s.cur f) }, .ok)
  | .addLabel n l =>
    if (s.nodes n).isEmpty then (s, .notFound)
    else
      let f := fun (x : NodeV) => { x with labels := addLab x.labels l }
      ({ s with nodes := upd s.nodes n (if lg then inPlace (s.nodes n) f else cow (s.nodes n) s.cur f) }, .ok)
  | .removeLabel n l =>
    match (s.nodes n).getLast? with
    | none => (s, .notFound)
    | some last =>
      if !last.labels.contains l then (s, .no)
      else
        let f := fun (x : NodeV) => { x with labels := delLab x.labels l }
        ({ s with nodes := upd s.nodes n (if lg then inPlace (s.nodes n) f else cow (s.nodes n) s.cur f) }, .ok)
  | .deleteNode n =>
    if (getNode s n).isNone then (s, .notFound)
    else
      let s1 : State := { s with freeNodes := n :: s.freeNodes,
                                  nodes := upd s.nodes n (if lg then (s.nodes n).dropLast else []) }
      ((incident s n).foldl killEdge s1, .ok)
  | .createEdge src tgt props =>
    if (getNode s src).isNone then (s, .badSource)
    else if (getNode s tgt).isNone then (s, .badTarget)
    else
      let p := popId s.freeEdges s.nextEdge
      ({ s with edges := upd s.edges p.1 { src := src, tgt := tgt, props := props, log := [] },
                freeEdges := p.2.1, nextEdge := p.2.2 }, .id p.1)
  | .setEdgeProp e k v =>
    -- precondition of the correspondence: issued for live relationships only
    if !(s.edges e).live then (s, .notFound)
    else ({ s with edges := upd s.edges e (setEdge (s.edges e) s.cur k v) }, .ok)
  | .deleteEdge e =>
    if (getEdge s e).isNone then (s, .notFound) else (killEdge s e, .ok)
  | .txn op =>
    let r := Txn.step s.txn op
    let s1 : State := { s with txn := r.1 }
    match op with
    | .gc w => (gcStore s1 (w.getD (Txn.watermark s.txn.core)), .txn r.2)
    | _ => (s1, .txn r.2)

def step : State → Op → State × Out := stepG false
def stepLegacy : State → Op → State × Out := stepG true

def exec (ops : List Op) : State := ops.foldl (fun s op => (step s op).1) {}
def execLegacy (ops : List Op) : State := ops.foldl (fun s op => (stepLegacy s op).1) {}

/-- `get_node_for_txn` / `get_edge_for_txn` -/
def getNodeFor (s : State) (t n : Nat) : Option NodeV :=
  match Txn.readVersion s.txn.core t with
  | none => none
  | some v => getNodeAt s n v

def getEdgeFor (s : State) (t e : Nat) : Option (Nat × Props) :=
  match Txn.readVersion s.txn.core t with
  | none => none
  | some v => getEdgeAt s e v

/-! ### Observations and the executable specification

After every operation the harness dumps, for the node ids `1..probeIds` and the
relationship ids `1..probeIds`, every read at the versions `0..cur`, plus `node_count`,
`all_nodes` and what the first `probeTxns` transactions read.  The specification relates the
dump before an operation, the operation and its result, and the dump after it.  It is what
"a reference versioned map" means, stated step by step:

* `stable` (0) – a read at a version older than the version current *before* the step is
                 unchanged by the step (for `gc w`: only reads at versions `≥ w`);
* `asof`   (1) – when the step raises the current version from `c` to `c'`, the reads at
                 `c ≤ v < c'` return what was current before the step;
* `now`    (2) – the read at the current version after the step is the state the operation
                 prescribes (created / updated / removed / untouched);
* `scan`   (3) – `all_nodes` lists exactly the ids readable now, once each, and `node_count`
                 is their number;
* `txn`    (5) – `gc_auto` does not change what an active transaction reads (C08).
-/

def probeIds : Nat := 3
def probeTxns : Nat := 3

structure Obs where
  out : Out
  cur : Nat
  nodeReads : List (List (Option NodeV))          -- [id-1][v], v = 0..cur
  edgeReads : List (List (Option (Nat × Props)))  -- [id-1][v]
  edgeEnds : List (Nat × Nat)                     -- endpoints of relationship id (0,0 = dead)
  count : Nat
  all : List (Nat × Nat)                          -- (id, version) of all_nodes, sorted
  txnNode : List (Option NodeV)                   -- get_node_for_txn(t, node 1), t = 1..probeTxns
  txnEdge : List (Option (Nat × Props))           -- get_edge_for_txn(t, relationship 1)
  active : List Bool                              -- transaction t is Active
  wm : Nat                                        -- gc_watermark()
deriving DecidableEq, Repr

def insertSorted (x : Nat × Nat) : List (Nat × Nat) → List (Nat × Nat)
  | [] => [x]
  | y :: rest => if x.1 < y.1 || (x.1 == y.1 && x.2 ≤ y.2) then x :: y :: rest else y :: insertSorted x rest

def sortPairs (l : List (Nat × Nat)) : List (Nat × Nat) := l.foldr insertSorted []

def isActive (s : State) (t : Nat) : Bool :=
  match Txn.findTxn s.txn.core t with
  | some x => x.status == .active
  | none => false

def obsG (lg : Bool) (s : State) (out : Out) : Obs :=
  { out := out, cur := s.cur,
    nodeReads := (List.range probeIds).map (fun i => (List.range (s.cur + 1)).map (fun v => getNodeAt s (i + 1) v)),
    edgeReads := (List.range probeIds).map (fun i => (List.range (s.cur + 1)).map (fun v => getEdgeAt s (i + 1) v)),
    edgeEnds := (List.range probeIds).map (fun i => ((s.edges (i + 1)).src, (s.edges (i + 1)).tgt)),
    count := nodeCountG lg s,
    all := sortPairs (allNodesG lg s),
    txnNode := (List.range probeTxns).map (fun t => getNodeFor s (t + 1) 1),
    txnEdge := (List.range probeTxns).map (fun t => getEdgeFor s (t + 1) 1),
    active := (List.range probeTxns).map (fun t => isActive s (t + 1)),
    wm := Txn.watermark s.txn.core }

def traceG (lg : Bool) (s : State) : List Op → List Obs
  | [] => []
  | op :: ops =>
    let r := stepG lg s op
    obsG lg r.1 r.2 :: traceG lg r.1 ops

def run (ops : List Op) : List Obs := traceG false {} ops
def runLegacy (ops : List Op) : List Obs := traceG true {} ops

/-- a violated clause of the specification: which clause, on a node (`false`) or a
relationship (`true`), which id -/
structure Viol where
  clause : Nat
  isEdge : Bool
  id : Nat
deriving DecidableEq, Repr

def nodeRead (o : Obs) (i v : Nat) : Option NodeV := (o.nodeReads[i]?.bind (fun r => r[v]?)).join
def edgeRead (o : Obs) (i v : Nat) : Option (Nat × Props) := (o.edgeReads[i]?.bind (fun r => r[v]?)).join

def strip (x : Option NodeV) : Option (List Nat × Props) := x.map (fun x => (x.labels, x.props))
def estrip (x : Option (Nat × Props)) : Option Props := x.map (·.2)

/-- current state of node / relationship `i+1` as the dump shows it, version stripped -/
def nowNode (o : Obs) (i : Nat) : Option (List Nat × Props) := strip (nodeRead o i o.cur)
def nowEdge (o : Obs) (i : Nat) : Option Props := estrip (edgeRead o i o.cur)

/-- what the current state of node `i+1` must be after `op` returned `out` -/
def expectNode (pre : Obs) (op : Op) (out : Out) (i : Nat) : Option (List Nat × Props) :=
  let old := nowNode pre i
  match op, out with
  | .createNode l, .id j => if j = i + 1 then some ([l], []) else old
  | .setProp n k v, .ok => if n = i + 1 then old.map (fun x => (x.1, setKey x.2 k v)) else old
  | .removeProp n k, .ok => if n = i + 1 then old.map (fun x => (x.1, delKey x.2 k)) else old
  | .addLabel n l, .ok => if n = i + 1 then old.map (fun x => (addLab x.1 l, x.2)) else old
  | .removeLabel n l, .ok => if n = i + 1 then old.map (fun x => (delLab x.1 l, x.2)) else old
  | .deleteNode n, .ok => if n = i + 1 then none else old
  | _, _ => old

/-- … and of relationship `i+1` (a relationship dies with either endpoint) -/
def expectEdge (pre : Obs) (op : Op) (out : Out) (i : Nat) : Option Props :=
  let old := nowEdge pre i
  match op, out with
  | .createEdge _ _ props, .id j => if j = i + 1 then some props else old
  | .setEdgeProp e k v, .ok => if e = i + 1 then old.map (fun x => setKey x k v) else old
  | .deleteEdge e, .ok => if e = i + 1 then none else old
  | .deleteNode n, .ok =>
      match pre.edgeEnds[i]? with
      | some (a, b) => if a = n || b = n then none else old
      | none => old
  | _, _ => old

def ids : List Nat := List.range probeIds

/-- the versions whose reads the step must leave unchanged: those below the old current
version (gc w: those ≥ w; gc_auto: w = gc_watermark()) -/
def stableVs (pre : Obs) (op : Op) : List Nat :=
  match op with
  | .txn (.gc none) => (List.range pre.cur).filter (fun v => decide (pre.wm ≤ v))
  | .txn (.gc (some w)) => (List.range pre.cur).filter (fun v => decide (w ≤ v))
  | _ => List.range pre.cur

def stableNodes (pre : Obs) (op : Op) (post : Obs) : List Nat :=
  ids.filter (fun i => (stableVs pre op).any (fun v => nodeRead post i v != nodeRead pre i v))
def stableEdges (pre : Obs) (op : Op) (post : Obs) : List Nat :=
  ids.filter (fun i => (stableVs pre op).any (fun v => edgeRead post i v != edgeRead pre i v))

/-- the versions the step made historical -/
def asofVs (pre post : Obs) : List Nat := (List.range post.cur).filter (fun v => decide (pre.cur ≤ v))

def asofNodes (pre post : Obs) : List Nat :=
  ids.filter (fun i => (asofVs pre post).any (fun v => strip (nodeRead post i v) != nowNode pre i))
def asofEdges (pre post : Obs) : List Nat :=
  ids.filter (fun i => (asofVs pre post).any (fun v => estrip (edgeRead post i v) != nowEdge pre i))

def nowNodes (pre : Obs) (op : Op) (post : Obs) : List Nat :=
  ids.filter (fun i => nowNode post i != expectNode pre op post.out i)
def nowEdges (pre : Obs) (op : Op) (post : Obs) : List Nat :=
  ids.filter (fun i => nowEdge post i != expectEdge pre op post.out i)

def liveIds (post : Obs) : List Nat := (ids.filter (fun i => (nowNode post i).isSome)).map (· + 1)
def scanBad (post : Obs) : Bool := post.all.map (·.1) != liveIds post || post.count != (liveIds post).length

/-- across an automatic garbage collection, a transaction that was active keeps its reads -/
def txnBad (pre : Obs) (op : Op) (post : Obs) : Bool :=
  (match op with | .txn (.gc none) => true | _ => false) &&
  (List.range probeTxns).any (fun t =>
    pre.active[t]?.getD false &&
    (post.txnNode[t]? != pre.txnNode[t]? || post.txnEdge[t]? != pre.txnEdge[t]?))

/-- all violated clauses of one step -/
def specStep (pre : Obs) (op : Op) (post : Obs) : List Viol :=
  (stableNodes pre op post).map (⟨0, false, · + 1⟩) ++ (stableEdges pre op post).map (⟨0, true, · + 1⟩)
  ++ (asofNodes pre post).map (⟨1, false, · + 1⟩) ++ (asofEdges pre post).map (⟨1, true, · + 1⟩)
  ++ (nowNodes pre op post).map (⟨2, false, · + 1⟩) ++ (nowEdges pre op post).map (⟨2, true, · + 1⟩)
  ++ (if scanBad post then [⟨3, false, 0⟩] else [])
  ++ (if txnBad pre op post then [⟨5, false, 0⟩] else [])

end SgModel.Mvcc
