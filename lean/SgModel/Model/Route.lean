/-
Model of the read/write routing of the two query front ends (property C23):

* `src/protocol/command.rs::handle_graph_query`   (RESP `GRAPH.QUERY`)
* `src/http/handler.rs::query_handler`            (HTTP `POST /api/query`)

Both decide, from the statement text, whether to run `QueryEngine::execute_mut`
(`MutQueryExecutor`, `&mut GraphStore`) or `QueryEngine::execute` (`QueryExecutor`,
`&GraphStore`, refuses every plan with `is_write`).

`routeLegacyResp` / `routeLegacyHttp` are the substring heuristics of the pinned tree,
verbatim on `List Char` (ASCII: `trim`, `to_uppercase`, `starts_with`, `contains`, `ends_with`).

After the `fix:` commits both front ends ask `QueryEngine::is_write_query`, i.e. the planner's
`ExecutionPlan::is_write` of the parsed statement.  The pest parser and the planner are not
modelled; their verdict is idealised as `routeNew`: *some clause keyword that writes occurs as
a word of the statement outside quoted text* (`scan`).  The harness compares this verdict with
the real planner on every generated statement.

The front end itself is modelled over an arbitrary engine (`Engine`): only the dispatch is
specific to this component.  Import-free (the driver links against it).
-/
namespace SgModel.Route

/-! ## characters -/

def isWordChar (c : Char) : Bool := c.isAlphanum || c == '_'

def isQuote (c : Char) : Bool := c == '\'' || c == '"' || c == '`'

/-- what Rust's `str::trim` removes, restricted to ASCII -/
def isTrimWs (c : Char) : Bool :=
  c == ' ' || c == '\t' || c == '\n' || c == '\r' || c == Char.ofNat 11 || c == Char.ofNat 12

def up (s : List Char) : List Char := s.map Char.toUpper

def trim (s : List Char) : List Char :=
  ((s.dropWhile isTrimWs).reverse.dropWhile isTrimWs).reverse

/-- `str::contains` -/
def hasInfix (p : List Char) : List Char → Bool
  | [] => p.isEmpty
  | c :: cs => p.isPrefixOf (c :: cs) || hasInfix p cs

/-! ## keywords (explicit character lists: `String` does not reduce in the kernel) -/

def kCREATE : List Char := ['C','R','E','A','T','E']
def kDELETE : List Char := ['D','E','L','E','T','E']
def kSET : List Char := ['S','E','T']
def kMERGE : List Char := ['M','E','R','G','E']
def kREMOVE : List Char := ['R','E','M','O','V','E']
def kFOREACH : List Char := ['F','O','R','E','A','C','H']
def kDROP : List Char := ['D','R','O','P']
def kREBUILD : List Char := ['R','E','B','U','I','L','D']
def kMATCH : List Char := ['M','A','T','C','H']
def kEXPLAIN : List Char := ['E','X','P','L','A','I','N']
def kPROFILE : List Char := ['P','R','O','F','I','L','E']

def spaced (k : List Char) : List Char := ' ' :: k ++ [' ']
def spacedL (k : List Char) : List Char := ' ' :: k

/-! ## the pinned tree: substring heuristics -/

/-- `command.rs:144-152` of the pinned tree -/
def routeLegacyResp (q : List Char) : Bool :=
  let u := up (trim q)
  kCREATE.isPrefixOf u || kDELETE.isPrefixOf u || kSET.isPrefixOf u || kMERGE.isPrefixOf u
    || hasInfix (spaced kCREATE) u || hasInfix (spaced kDELETE) u
    || hasInfix (spaced kSET) u || hasInfix (spaced kMERGE) u

/-- `handler.rs:93-102` of the pinned tree -/
def routeLegacyHttp (q : List Char) : Bool :=
  let u := up (trim q)
  kCREATE.isPrefixOf u || kSET.isPrefixOf u || kDELETE.isPrefixOf u || kMERGE.isPrefixOf u
    || (kMATCH.isPrefixOf u
        && (hasInfix (spaced kCREATE) u || hasInfix (spaced kSET) u
            || hasInfix (spaced kDELETE) u || hasInfix (spaced kMERGE) u
            || hasInfix (spaced kREMOVE) u
            || (spacedL kCREATE).isSuffixOf u || (spacedL kSET).isSuffixOf u
            || (spacedL kDELETE).isSuffixOf u || (spacedL kMERGE).isSuffixOf u))

/-! ## after the fix: clause keywords are words, not substrings -/

inductive Mode where
  | code
  | str (q : Char)      -- inside `'…'`, `"…"` or a back-quoted name
  | esc (q : Char)      -- after a backslash inside quoted text
  | slash               -- after a `/` in code: `//` and `/*` open a comment (`COMMENT` of cypher.pest)
  | line                -- inside `// … <LF>`
  | block               -- inside `/* … */`
  | star                -- inside a block comment, after a `*`
deriving DecidableEq, Repr

def flush (cur : List Char) : List (List Char) := if cur.isEmpty then [] else [cur]

/-- The upper-cased words (maximal runs of letters, digits, `_`) of a statement that lie
outside quoted text and outside comments, in order.  `cur` is the word being read. -/
def scan : Mode → List Char → List Char → List (List Char)
  | _, cur, [] => flush cur
  | .esc q, cur, _ :: cs => scan (.str q) cur cs
  | .str q, cur, c :: cs =>
      if c == '\\' then scan (.esc q) cur cs
      else if c == q then scan .code cur cs
      else scan (.str q) cur cs
  | .line, cur, c :: cs => if c == '\n' then scan .code cur cs else scan .line cur cs
  | .block, cur, c :: cs => if c == '*' then scan .star cur cs else scan .block cur cs
  | .star, cur, c :: cs =>
      if c == '/' then scan .code cur cs
      else if c == '*' then scan .star cur cs
      else scan .block cur cs
  | .slash, cur, c :: cs =>       -- `cur` is empty: the `/` flushed it
      if c == '/' then scan .line cur cs
      else if c == '*' then scan .block cur cs
      else if isWordChar c then scan .code (cur ++ [c.toUpper]) cs
      else if isQuote c then scan (.str c) [] cs
      else scan .code [] cs
  | .code, cur, c :: cs =>
      if isWordChar c then scan .code (cur ++ [c.toUpper]) cs
      else if isQuote c then flush cur ++ scan (.str c) [] cs
      else if c == '/' then flush cur ++ scan .slash [] cs
      else flush cur ++ scan .code [] cs

/-- clause keywords whose plan has `is_write` (data writes and DDL) -/
def writeWords : List (List Char) :=
  [kCREATE, kMERGE, kSET, kREMOVE, kDELETE, kFOREACH, kDROP, kREBUILD]

def isWriteWord (w : List Char) : Bool := writeWords.contains w

/-- `QueryEngine::is_write_query` (idealised): the statement has a write clause -/
def routeNew (q : List Char) : Bool := (scan .code [] q).any isWriteWord

/-- what may precede the first clause (`explain_clause` of cypher.pest) -/
inductive Prefix where
  | none | explain | profile
deriving DecidableEq, Repr

def prefixOfWords : List (List Char) → Prefix
  | w :: _ => if w == kEXPLAIN then .explain else if w == kPROFILE then .profile else .none
  | [] => .none

/-- `Query::explain` / `Query::profile` of the parsed statement (idealised: the first word) -/
def planPrefix (q : List Char) : Prefix := prefixOfWords (scan .code [] q)

/-- A statement that really writes when the engine runs it.  `EXPLAIN` describes the plan and
executes nothing (both executors return the description before anything else); `PROFILE` is
**not** such a request: `MutQueryExecutor` ignores the flag and runs the statement, the read
executor refuses a write plan before it looks at the flag. -/
def executesWrite (q : List Char) : Bool := routeNew q && planPrefix q != .explain

/-- the seeded defect class "an option vetoes the planner in one front end": plan requests
(`EXPLAIN` *and* `PROFILE`) kept off the write path -/
def routePlanVeto (q : List Char) : Bool := planPrefix q == .none && routeNew q

/-! ## token-level statements and their renderings -/

inductive Tok where
  | word (w : List Char)            -- keyword, identifier or number, as written (any case)
  | str (q : Char) (s : List Char)  -- quoted text, delimiter `q`
  | sym (c : Char)                  -- punctuation
  | strEsc (q : Char) (segs : List (List Char)) (last : List Char)
                                    -- quoted text with escaped delimiters: seg `\q` seg `\q` … last
  | lineComment (s : List Char)     -- `//` … LF
  | blockComment (s : List Char)    -- `/*` … `*/`
deriving DecidableEq, Repr

/-- what is written after a token -/
inductive Sep where
  | none | sp | tab | lf | crlf
deriving DecidableEq, Repr

def Sep.chars : Sep → List Char
  | .none => []
  | .sp => [' ']
  | .tab => ['\t']
  | .lf => ['\n']
  | .crlf => ['\r', '\n']

/-- segments each followed by an escaped delimiter (`\'` inside `'…'`) -/
def escBody (q : Char) : List (List Char) → List Char
  | [] => []
  | s :: r => s ++ ('\\' :: q :: escBody q r)

def cleanSeg (q : Char) (s : List Char) : Bool := s.all (fun c => c != q && c != '\\')

def Tok.chars : Tok → List Char
  | .word w => w
  | .str q s => q :: (s ++ [q])
  | .strEsc q segs last => q :: (escBody q segs ++ (last ++ [q]))
  | .sym c => [c]
  | .lineComment s => '/' :: '/' :: (s ++ ['\n'])
  | .blockComment s => '/' :: '*' :: (s ++ ['*', '/'])

def render : List (Tok × Sep) → List Char
  | [] => []
  | (t, s) :: r => t.chars ++ (s.chars ++ render r)

def Tok.wf : Tok → Bool
  | .word w => !w.isEmpty && w.all isWordChar
  | .str q s => isQuote q && s.all (fun c => c != q && c != '\\')
  | .strEsc q segs last => isQuote q && segs.all (cleanSeg q) && cleanSeg q last
  | .sym c => !isWordChar c && !isQuote c && c != '/'
  | .lineComment s => s.all (fun c => c != '\n')
  | .blockComment s => s.all (fun c => c != '*')

def startsWord : List (Tok × Sep) → Bool
  | (.word _, _) :: _ => true
  | _ => false

/-- every token is well formed and two words are never glued together -/
def valid : List (Tok × Sep) → Bool
  | [] => true
  | (t, s) :: r =>
      t.wf && (match t, s with
               | .word _, .none => !startsWord r
               | _, _ => true) && valid r

/-- the statement's words, case-folded: what the lexer of any Cypher parser sees -/
def wordsOf : List (Tok × Sep) → List (List Char)
  | [] => []
  | (.word w, _) :: r => up w :: wordsOf r
  | _ :: r => wordsOf r

/-- the statement has a clause that writes (identifiers are assumed not to be reserved words) -/
def hasWriteClause (xs : List (Tok × Sep)) : Bool := (wordsOf xs).any isWriteWord

/-- the statement's `EXPLAIN` / `PROFILE` prefix: its first word -/
def prefixTok (xs : List (Tok × Sep)) : Prefix := prefixOfWords (wordsOf xs)

def executesWriteTok (xs : List (Tok × Sep)) : Bool := hasWriteClause xs && prefixTok xs != .explain

/-- whitespace before the statement -/
def leadChars : List Sep → List Char
  | [] => []
  | s :: r => s.chars ++ leadChars r

/-- a statement as sent: leading whitespace, then the tokens -/
def renderL (lead : List Sep) (xs : List (Tok × Sep)) : List Char := leadChars lead ++ render xs

/-! ## the front end over an arbitrary engine -/

/-- What the two executors compute.  `evalRead` has only shared access to the graph, so it
returns no graph; `evalMut` returns the graph it leaves behind even when it fails
(statements are not atomic, property C05). -/
structure Engine (Q G R : Type) where
  isWritePlan : Q → Bool          -- `ExecutionPlan::is_write`
  evalRead : Q → G → R            -- `QueryExecutor` on a plan that is not `is_write`
  evalMut : Q → G → R × G         -- `MutQueryExecutor`

/-- reply of a front end: the engine's result, or the read executor's refusal of a write plan -/
inductive Reply (R : Type) where
  | result (r : R)
  | refused
deriving DecidableEq, Repr

/-- `QueryEngine::execute` -/
def execRead {Q G R : Type} (e : Engine Q G R) (q : Q) (g : G) : Reply R × G :=
  if e.isWritePlan q then (.refused, g) else (.result (e.evalRead q g), g)

/-- `QueryEngine::execute_mut`: the embedded engine -/
def execMut {Q G R : Type} (e : Engine Q G R) (q : Q) (g : G) : Reply R × G :=
  let p := e.evalMut q g
  (.result p.1, p.2)

/-- a front end with routing function `route` -/
def front {Q G R : Type} (e : Engine Q G R) (route : Q → Bool) (q : Q) (g : G) : Reply R × G :=
  if route q then execMut e q g else execRead e q g

/-- On plans that are not writes the two executors agree and the graph is untouched.
(An assumption about the engine, not about the front ends; the harness exercises it by
running every read through both executors.) -/
def Engine.ReadAgree {Q G R : Type} (e : Engine Q G R) : Prop :=
  ∀ q g, e.isWritePlan q = false → e.evalMut q g = (e.evalRead q g, g)

/-- **The engine run directly**: the engine's documented dispatch — `QueryExecutor` for a plan
that is not a write, `MutQueryExecutor` for a write plan (an embedder has no other choice: the
read executor refuses write plans).  It is the reference of the property; it differs from
`execMut` exactly where `ReadAgree` fails in the real engine (`PROFILE` of a read is reported
only by the read executor). -/
def engineRun {Q G R : Type} (e : Engine Q G R) (q : Q) (g : G) : Reply R × G :=
  if e.isWritePlan q then execMut e q g else execRead e q g

/-- results of a statement with an optional plan prefix -/
inductive PR (R : Type) where
  | rows (r : R)          -- the statement's own result
  | plan                  -- `EXPLAIN`: the plan description, nothing executed
  | profile (r : R)       -- `PROFILE` of a read on the read executor: executed and timed
deriving DecidableEq, Repr

/-- What the executors do with `EXPLAIN` / `PROFILE` (executor/mod.rs): the planner ignores the
prefix; both executors answer `EXPLAIN` with the plan before anything else; the read executor
refuses a write plan *before* looking at `PROFILE`; `MutQueryExecutor` ignores `PROFILE` and
runs the statement. -/
def withPrefix {Q G R : Type} (b : Engine Q G R) : Engine (Prefix × Q) G (PR R) where
  isWritePlan := fun pq => b.isWritePlan pq.2
  evalRead := fun pq g =>
    match pq.1 with
    | .explain => .plan
    | .profile => .profile (b.evalRead pq.2 g)
    | .none => .rows (b.evalRead pq.2 g)
  evalMut := fun pq g =>
    match pq.1 with
    | .explain => (.plan, g)
    | _ => let p := b.evalMut pq.2 g; (.rows p.1, p.2)

/-- a tiny concrete engine over statement texts, for non-vacuity: the graph is a node count,
a write statement adds a node and returns nothing, a read returns the count -/
def toyEngine : Engine (List Char) Nat (Option Nat) where
  isWritePlan := routeNew
  evalRead := fun _ g => some g
  evalMut := fun q g => if routeNew q then (none, g + 1) else (some g, g)

/-! ## executable specification, on observations

One case = one statement run on three identical graphs: directly on the engine (`engineRun`), through
`CommandHandler::handle_command` and through the axum router.  `α` is the canonical text of an
outcome (rows or error class) or of a full graph dump. -/

structure Obs (α β : Type) where
  hasWrite : Bool        -- the statement has a write clause and is not an `EXPLAIN` (`executesWrite`)
  pre : β                -- dump before
  engOut : α
  engPost : β
  respOut : α
  respPost : β
  respRefused : Bool     -- the reply is the read executor's refusal
  httpOut : α
  httpPost : β
  httpRefused : Bool

/-- 0 = holds; otherwise the number of the first clause that fails -/
def specFrontCode {α β : Type} [BEq α] [BEq β] (o : Obs α β) : Nat :=
  if !(o.respOut == o.engOut) then 1
  else if !(o.respPost == o.engPost) then 2
  else if !(o.httpOut == o.engOut) then 3
  else if !(o.httpPost == o.engPost) then 4
  else if !o.hasWrite && !(o.respPost == o.pre && o.httpPost == o.pre) then 5
  else if o.respRefused && !(o.respPost == o.pre) then 6
  else if o.httpRefused && !(o.httpPost == o.pre) then 7
  else 0

def specFront {α β : Type} [BEq α] [BEq β] (o : Obs α β) : Bool := specFrontCode o == 0

/-- the observations the model predicts for a statement `q` on graph `g` when the two front
ends route with `routeR` / `routeH`; `ex q` = the statement executes a write -/
def modelObs {Q G R : Type} (e : Engine Q G R) (ex : Q → Bool) (routeR routeH : Q → Bool) (q : Q) (g : G) :
    Obs (Reply R) G :=
  let en := engineRun e q g
  let r := front e routeR q g
  let h := front e routeH q g
  { hasWrite := ex q
    pre := g
    engOut := en.1, engPost := en.2
    respOut := r.1, respPost := r.2
    respRefused := !routeR q && e.isWritePlan q
    httpOut := h.1, httpPost := h.2
    httpRefused := !routeH q && e.isWritePlan q }

end SgModel.Route
