import SgModel.Model.CyGraph
/-!
# Cy — expressions and their evaluation (layer 3 of 5)

`evalExpr g row e` is the openCypher value of `e` in the row (variable bindings) `row`.
Three-valued logic throughout; a type error, an arithmetic error (overflow, division by
zero) and "outside the fragment" are distinguished (`Err`).  Both operands of a binary
operator are always evaluated (no short-circuit), so an error anywhere is an error.
-/
namespace SgModel.Cy

inductive CmpOp where | eq | ne | lt | le | gt | ge
deriving DecidableEq, Repr, Inhabited
inductive StrOp where | starts | ends | contains
deriving DecidableEq, Repr, Inhabited
inductive ArithOp where | add | sub | mul | div | mod
deriving DecidableEq, Repr, Inhabited
/-- unary scalar functions of the fragment -/
inductive Fn1 where | size | abs | toString | head | last | id
deriving DecidableEq, Repr, Inhabited

inductive Expr where
  | lit (v : Val)
  | var (x : Name)
  | prop (e : Expr) (k : Name)
  | not (e : Expr)
  | and (a b : Expr)
  | or (a b : Expr)
  | xor (a b : Expr)
  | cmp (op : CmpOp) (a b : Expr)
  | isNull (e : Expr)
  | isNotNull (e : Expr)
  | inList (a b : Expr)
  | strOp (op : StrOp) (a b : Expr)
  | arith (op : ArithOp) (a b : Expr)
  | neg (e : Expr)
  | fn1 (f : Fn1) (e : Expr)
  | coalesce (a b : Expr)
deriving DecidableEq, Repr, Inhabited

/-- variable bindings of one row, innermost first -/
abbrev Row := List (Name × Val)

def Row.get? (r : Row) (x : Name) : Option Val := r.lookup x

/-! ## operators on values -/

def evalCmp (op : CmpOp) (a b : Val) : Except Err Val :=
  match op with
  | .eq => .ok (ofTv (Val.eq3 a b))
  | .ne => .ok (ofTv (not3 (Val.eq3 a b)))
  | _ =>
    match a, b with
    | .atom .null, _ => .ok .null
    | _, .atom .null => .ok .null
    | _, _ =>
      match Val.cmp3 a b with
      | .error e => .error e
      | .ok none => .ok .null
      | .ok (some o) => .ok (.bool (match op with
          | .lt => o == .lt
          | .le => o != .gt
          | .gt => o == .gt
          | _ => o != .lt))

/-- `a IN l`: a definite match wins, otherwise unknown if any comparison was -/
def inAtoms (a : Atom) : List Atom → Option Bool
  | [] => some false
  | x :: xs =>
    match Atom.eq3 a x, inAtoms a xs with
    | some true, _ => some true
    | _, some true => some true
    | some false, some false => some false
    | _, _ => none

def evalIn (a b : Val) : Except Err Val :=
  match b with
  | .atom .null => .ok .null
  | .list l =>
    match a with
    | .atom x => .ok (ofTv (inAtoms x l))
    | .list _ => .error .unspecified
  | _ => .error .type

def evalStrOp (op : StrOp) (a b : Val) : Val :=
  match a, b with
  | .atom (.str x), .atom (.str y) => .bool (match op with
      | .starts => y.isPrefixOf x
      | .ends => y.reverse.isPrefixOf x.reverse
      | .contains => isInfix y x)
  | _, _ => .null

/-- an integer operand of mixed int/float arithmetic must convert to `f64` exactly -/
def intAsFlt (i : Int) : Except Err (Int × Nat) :=
  if isF64 i 0 then .ok (i, 0) else .error .unspecified

def dyAdd (a : Int) (ka : Nat) (b : Int) (kb : Nat) : Except Err Val :=
  ckFlt (a * 2 ^ (max ka kb - ka) + b * 2 ^ (max ka kb - kb)) (max ka kb)

def evalArith (op : ArithOp) (a b : Val) : Except Err Val :=
  match a, b with
  | .list _, _ => .error .unspecified
  | _, .list _ => .error .unspecified
  | .atom .null, _ => .ok .null
  | _, .atom .null => .ok .null
  | .atom (.int x), .atom (.int y) =>
    match op with
    | .add => ckInt (x + y)
    | .sub => ckInt (x - y)
    | .mul => ckInt (x * y)
    | .div => if y == 0 then .error .arith else ckInt (Int.tdiv x y)
    | .mod => if y == 0 then .error .arith else ckInt (Int.tmod x y)
  | .atom (.str x), .atom (.str y) =>
    match op with
    | .add => .ok (.str (x ++ y))
    | _ => .error .type
  | .atom x, .atom y =>
    match x.num?, y.num? with
    | some (p, kp), some (q, kq) =>
      -- at least one float: the integer side (k = 0 from `.int`) must be exact in f64
      match (if kp == 0 then intAsFlt p else .ok (p, kp)),
            (if kq == 0 then intAsFlt q else .ok (q, kq)) with
      | .ok (p, kp), .ok (q, kq) =>
        match op with
        | .add => dyAdd p kp q kq
        | .sub => dyAdd p kp (-q) kq
        | .mul => ckFlt (p * q) (kp + kq)
        | _ => .error .unspecified
      | _, _ => .error .unspecified
    | _, _ => .error .type

def evalNeg : Val → Except Err Val
  | .atom .null => .ok .null
  | .atom (.int i) => ckInt (-i)
  | .atom (.flt n k) => .ok (.flt (-n) k)
  | _ => .error .type

def natToChars (n : Nat) : List Char := (toString n).toList

def evalFn1 (f : Fn1) (v : Val) : Except Err Val :=
  match f, v with
  | _, .atom .null => .ok .null
  | .size, .list l => .ok (.int l.length)
  | .size, .atom (.str s) => .ok (.int s.length)
  | .size, _ => .error .type
  | .abs, .atom (.int i) => ckInt (Int.ofNat i.natAbs)
  | .abs, .atom (.flt n k) => .ok (.flt (Int.ofNat n.natAbs) k)
  | .abs, _ => .error .type
  | .toString, .atom (.str s) => .ok (.str s)
  | .toString, .atom (.bool b) => .ok (.str (if b then "true".toList else "false".toList))
  | .toString, .atom (.int i) =>
      .ok (.str (if i < 0 then '-' :: natToChars i.natAbs else natToChars i.natAbs))
  | .toString, .atom (.flt _ _) => .error .unspecified
  | .toString, _ => .error .type
  | .head, .list l => .ok (match l.head? with | some a => .atom a | none => .null)
  | .head, _ => .error .type
  | .last, .list l => .ok (match l.getLast? with | some a => .atom a | none => .null)
  | .last, _ => .error .type
  | .id, .atom (.node i) => .ok (.int i)
  | .id, .atom (.rel i) => .ok (.int i)
  | .id, _ => .error .type

def tvOf (v : Val) : Except Err (Option Bool) :=
  match v.tv? with
  | some t => .ok t
  | none => .error .type

/-! ## evaluation -/

def evalExpr (g : Graph) (row : Row) : Expr → Except Err Val
  | .lit v => .ok v
  | .var x => match row.get? x with
    | some v => .ok v
    | none => .error .unbound
  | .prop e k => do g.getProp (← evalExpr g row e) k
  | .not e => do pure (ofTv (not3 (← tvOf (← evalExpr g row e))))
  | .and a b => do
      let x ← evalExpr g row a
      let y ← evalExpr g row b
      pure (ofTv (and3 (← tvOf x) (← tvOf y)))
  | .or a b => do
      let x ← evalExpr g row a
      let y ← evalExpr g row b
      pure (ofTv (or3 (← tvOf x) (← tvOf y)))
  | .xor a b => do
      let x ← evalExpr g row a
      let y ← evalExpr g row b
      pure (ofTv (xor3 (← tvOf x) (← tvOf y)))
  | .cmp op a b => do
      let x ← evalExpr g row a
      let y ← evalExpr g row b
      evalCmp op x y
  | .isNull e => do pure (.bool ((← evalExpr g row e) == .null))
  | .isNotNull e => do pure (.bool ((← evalExpr g row e) != .null))
  | .inList a b => do
      let x ← evalExpr g row a
      let y ← evalExpr g row b
      evalIn x y
  | .strOp op a b => do
      let x ← evalExpr g row a
      let y ← evalExpr g row b
      pure (evalStrOp op x y)
  | .arith op a b => do
      let x ← evalExpr g row a
      let y ← evalExpr g row b
      evalArith op x y
  | .neg e => do evalNeg (← evalExpr g row e)
  | .fn1 f e => do evalFn1 f (← evalExpr g row e)
  | .coalesce a b => do
      let x ← evalExpr g row a
      let y ← evalExpr g row b
      pure (if x == .null then y else x)

/-- the WHERE rule: a row is kept iff the predicate is *true* (false and null both drop it) -/
def keeps (g : Graph) (row : Row) (p : Expr) : Except Err Bool := do
  match (← evalExpr g row p).tv? with
  | some (some true) => pure true
  | some _ => pure false
  | none => .error .type

/-- filter with error propagation (an error on any row is an error of the clause) -/
def filterM' {α : Type} (f : α → Except Err Bool) : List α → Except Err (List α)
  | [] => .ok []
  | x :: xs => do
      let b ← f x
      let rest ← filterM' f xs
      pure (if b then x :: rest else rest)

def mapM' {α β : Type} (f : α → Except Err β) : List α → Except Err (List β)
  | [] => .ok []
  | x :: xs => do
      let y ← f x
      let ys ← mapM' f xs
      pure (y :: ys)

end SgModel.Cy
