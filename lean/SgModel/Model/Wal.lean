/-
Model of `src/persistence/wal.rs` (the write-ahead log), property C15.  Import-free.

Representation mirrored from the Rust:
* a WAL directory is a list of files `wal-{name:016x}.log`; a file is a byte string;
* a record is framed as `u32-LE length ++ body`, `body = u64-LE sequence ++ entry ++ u32-LE
  checksum` (bincode 1.x, fixed-width little-endian integers, struct fields in order);
  the checksum is the XOR of the entry bytes (`WalRecord::calculate_checksum`) — it covers
  neither the sequence nor the length prefix;
* the bincode encoding of the `WalEntry` payload is **not** modelled: entries are opaque
  byte strings and the decoder is a parameter `dec : Bytes → Option Nat` ("how many bytes
  does bincode read for one WalEntry from the front of this slice, if it succeeds");
* `Wal` = open file (`BufWriter`, logical content incl. the unflushed buffer, plus how many
  bytes are certainly on disk), closed files, sequence counter, sync mode.

`Mode` switches the three repaired behaviours, so that the pinned tree stays expressible:
`Mode.fixed` is the code after the `fix:` commits, `Mode.legacy` the pinned tree.
-/
namespace SgModel.Wal

abbrev Bytes := List UInt8

/-- `n` bytes, little endian (`to_le_bytes`) -/
def le : Nat → Nat → Bytes
  | 0, _ => []
  | n + 1, v => UInt8.ofNat (v % 256) :: le n (v / 256)

/-- `from_le_bytes` -/
def fromLE : Bytes → Nat
  | [] => 0
  | b :: bs => b.toNat + 256 * fromLE bs

/-- `bytes.iter().fold(0, |acc, b| acc ^ b)` -/
def xorAll : Bytes → UInt8
  | [] => 0
  | b :: bs => b ^^^ xorAll bs

/-- `WalRecord::calculate_checksum`: XOR of the entry bytes, widened to `u32` -/
def cksum (e : Bytes) : Nat := (xorAll e).toNat

structure Rec where
  seq : Nat
  entry : Bytes
deriving DecidableEq, Repr

/-- `bincode::serialize(&WalRecord{sequence, entry, checksum})` -/
def body (r : Rec) : Bytes := le 8 r.seq ++ (r.entry ++ le 4 (cksum r.entry))

/-- what `Wal::append` writes: length prefix, then the body -/
def frame (r : Rec) : Bytes := le 4 (r.entry.length + 12) ++ body r

def frames : List Rec → Bytes
  | [] => []
  | r :: rs => frame r ++ frames rs

/-- the bincode decoder of `WalEntry`, abstractly: extent of the entry at the front of a slice -/
abbrev Dec := Bytes → Option Nat

/-- how `Wal::replay` ended -/
inductive End where
  | ok                       -- all files read to their end
  | io                       -- `Err(WalError::Io)` (pinned tree: torn body)
  | ser                      -- `Err(WalError::Serialization)`
  | corrupt (seq : Nat)      -- `Err(WalError::Corruption(seq))`
deriving DecidableEq, Repr

structure Mode where
  /-- `fix:` #1 — `Wal::new` scans the newest file for its last sequence -/
  scanOnOpen : Bool
  /-- `fix:` #2 — a record body cut short ends the log instead of `Err(Io)` -/
  tornIsEnd : Bool
  /-- `fix:` #3 — a record must fill its frame exactly (no trailing bytes) -/
  exactSize : Bool
deriving DecidableEq, Repr

def Mode.fixed : Mode := ⟨true, true, true⟩
def Mode.legacy : Mode := ⟨false, false, false⟩

/-- `bincode::deserialize::<WalRecord>(buf)`: record, stored checksum, bytes consumed
(trailing bytes are accepted by `bincode::deserialize`) -/
def parseBody (dec : Dec) (b : Bytes) : Option (Rec × Nat × Nat) :=
  if b.length < 8 then none else
  match dec (b.drop 8) with
  | none => none
  | some n =>
    if b.length < 8 + n + 4 then none
    else some (⟨fromLE (b.take 8), (b.drop 8).take n⟩, fromLE ((b.drop (8 + n)).take 4), 8 + n + 4)

/-- the read loop of `Wal::replay` over one file (all records, before the `frm` filter) -/
def replayFile (m : Mode) (dec : Dec) : Nat → Bytes → List Rec × End
  | 0, _ => ([], .ok)
  | fuel + 1, bs =>
    if bs.length < 4 then ([], .ok) else
    let len := fromLE (bs.take 4)
    let rest := bs.drop 4
    if rest.length < len then ([], if m.tornIsEnd then .ok else .io) else
    match parseBody dec (rest.take len) with
    | none => ([], .ser)
    | some (r, ck, used) =>
      if (m.exactSize && used != len) || cksum r.entry != ck then ([], .corrupt r.seq)
      else
        let p := replayFile m dec fuel (rest.drop len)
        (r :: p.1, p.2)

/-- every iteration consumes at least the 4-byte prefix, so `length + 1` iterations suffice
(`replayFile_fuel` in `Lemmas/Wal.lean`) -/
def replay (m : Mode) (dec : Dec) (bs : Bytes) : List Rec × End :=
  replayFile m dec (bs.length + 1) bs

/-- all files in name order; an error stops the whole replay -/
def replayDir (m : Mode) (dec : Dec) : List Bytes → List Rec × End
  | [] => ([], .ok)
  | f :: fs =>
    let p := replay m dec f
    if p.2 = .ok then
      let q := replayDir m dec fs
      (p.1 ++ q.1, q.2)
    else p

/-- what the callback of `replay(frm, cb)` receives -/
def delivered (frm : Nat) (rs : List Rec) : List Rec := rs.filter (fun r => frm ≤ r.seq)

/-- the `Ok(last_sequence)` of `replay(frm, cb)` -/
def lastSeq (frm : Nat) (rs : List Rec) : Nat :=
  match (delivered frm rs).getLast? with
  | some r => r.seq
  | none => frm

/-! ### the writer -/

structure File where
  name : Nat
  data : Bytes
deriving DecidableEq, Repr

structure State where
  closed : List File := []      -- files no longer written to, oldest first
  cur : Option File := none     -- `current_file`: logical content incl. the BufWriter buffer
  flushed : Nat := 0            -- bytes of `cur` that are certainly on disk
  seq : Nat := 0                -- `sequence`
  sync : Bool := false          -- `sync_mode`
deriving DecidableEq, Repr

inductive Op where
  | append (e : Bytes)          -- `append(entry)`, `e` = bincode of the entry
  | flush
  | checkpoint (e : Bytes)      -- `checkpoint(_)`, `e` = bincode of the marker it appends
  | reopen                      -- drop (flushes) + `Wal::new`
  | crash (k : Nat)             -- process dies with `k` bytes of the open file on disk + `Wal::new`
  | setSync (b : Bool)
deriving DecidableEq, Repr

def dir (s : State) : List File := s.closed ++ s.cur.toList

/-- the file with the greatest name (`find_latest_sequence` takes the max over the listing) -/
def newest : List File → Option File
  | [] => none
  | f :: fs =>
    match newest fs with
    | none => some f
    | some g => if f.name < g.name then some g else some f

/-- the scan added by fix #1 accepts exactly what the repaired `replay` accepts -/
def scanMode : Mode := ⟨true, true, true⟩

/-- `find_latest_sequence` -/
def findLatest (m : Mode) (dec : Dec) (files : List File) : Nat :=
  match newest files with
  | none => 0
  | some f =>
    if m.scanOnOpen then (replay scanMode dec f.data).1.foldl (fun a r => max a r.seq) f.name
    else f.name

def append (s : State) (e : Bytes) : State :=
  let q := s.seq + 1
  let f : File := match s.cur with
    | some f => f
    | none => ⟨q, []⟩                         -- `open_new_file`: named after the first sequence
  let f' : File := { f with data := f.data ++ frame ⟨q, e⟩ }
  { s with seq := q, cur := some f',
           flushed := if s.sync then f'.data.length else if s.cur.isSome then s.flushed else 0 }

def flush (s : State) : State :=
  match s.cur with
  | some f => { s with flushed := f.data.length }
  | none => s

def close (s : State) : State :=
  { s with closed := s.closed ++ s.cur.toList, cur := none, flushed := 0 }

def reopen (m : Mode) (dec : Dec) (s : State) : State :=
  let s' := close s
  { s' with seq := findLatest m dec s'.closed, sync := false }

/-- the open file keeps `k` bytes, at least what was flushed and at most what was written -/
def crash (m : Mode) (dec : Dec) (s : State) (k : Nat) : State :=
  match s.cur with
  | none => reopen m dec s
  | some f =>
    let k' := max s.flushed (min k f.data.length)
    reopen m dec { s with cur := some { f with data := f.data.take k' } }

def step (m : Mode) (dec : Dec) (s : State) : Op → State
  | .append e => append s e
  | .flush => flush s
  | .checkpoint e => close (flush (append s e))
  | .reopen => reopen m dec s
  | .crash k => crash m dec s k
  | .setSync b => { s with sync := b }

def run (m : Mode) (dec : Dec) (ops : List Op) : State := ops.foldl (step m dec) {}

/-- what is on disk if the process exits normally now -/
def image (s : State) : List Bytes := (dir s).map (·.data)

/-- the entries an op history hands to `append`/`checkpoint` -/
def opEntries : List Op → List Bytes
  | [] => []
  | .append e :: ops => e :: opEntries ops
  | .checkpoint e :: ops => e :: opEntries ops
  | _ :: ops => opEntries ops

/-- The decoder contract, as a decoder: the entries of a history are self-delimiting and
prefix-free, so the extent of the entry at the front of a slice is that of the (unique)
history entry which is a prefix of it.  Used by the driver for op histories, where only
intact records are ever decoded. -/
def decOf (es : List Bytes) : Dec := fun b =>
  match es.find? (fun e => e.isPrefixOf b) with
  | some e => some e.length
  | none => none

/-! ### image variants: truncation and byte flips -/

def truncAt (files : List Bytes) (i k : Nat) : List Bytes :=
  files.modify i (fun f => f.take k)

def flipByte (bs : Bytes) (p : Nat) (mask : UInt8) : Bytes :=
  bs.modify p (fun b => b ^^^ mask)

def flipAt (files : List Bytes) (i p : Nat) (mask : UInt8) : List Bytes :=
  files.modify i (fun f => flipByte f p mask)

/-! ### Observations and the executable specification `S`

What the public API shows: `append` return values, `current_sequence()`, the entries the
`replay(frm, ·)` callback receives and its result.  A record's sequence is visible only
through the `frm` filter and the returned last sequence, so a replay observation is taken
for every `frm` in `0 ..= top`. -/

/-- one `Wal::new(dir)` + `replay(frm, cb)` for each `frm = 0, 1, …` -/
structure ReplayObs where
  cur : Nat                              -- `current_sequence()` right after `Wal::new`
  runs : List (List Bytes × End × Nat)   -- per `frm`: delivered entries, outcome, `Ok` value
deriving DecidableEq, Repr

def observe (m : Mode) (dec : Dec) (files : List File) (top : Nat) : ReplayObs :=
  let p := replayDir m dec (files.map (·.data))
  { cur := findLatest m dec files,
    runs := (List.range (top + 1)).map (fun frm =>
      ((delivered frm p.1).map (·.entry), p.2, if p.2 = .ok then lastSeq frm p.1 else 0)) }

def strictIncr : List Nat → Bool
  | [] => true
  | [_] => true
  | a :: b :: rest => a < b && strictIncr (b :: rest)

/-- `o` is what an intact log holding exactly `recs` (in this order) must show -/
def specIntact (recs : List Rec) (o : ReplayObs) : Bool :=
  strictIncr (recs.map (·.seq))
  && o.runs.length > 0
  && (match recs.getLast? with | some r => r.seq ≤ o.cur | none => true)
  && (List.range o.runs.length).all (fun frm =>
      o.runs[frm]? == some ((delivered frm recs).map (·.entry), End.ok, lastSeq frm recs))

/-- number of whole frames of `recs` that fit into `k` bytes -/
def fitCount : List Rec → Nat → Nat
  | [], _ => 0
  | r :: rs, k => if r.entry.length + 16 ≤ k then fitCount rs (k - (r.entry.length + 16)) + 1 else 0

/-- files given by their records; file `i` cut to `k` bytes: exactly the whole records
before the cut survive, the rest of the directory is untouched, and replay succeeds -/
def specTrunc (fileRecs : List (List Rec)) (i k : Nat) (o : ReplayObs) : Bool :=
  let expect := (fileRecs.modify i (fun rs => rs.take (fitCount rs k))).flatten
  specIntact expect o

inductive Region where
  | len | seq | entry | cksum
deriving DecidableEq, Repr

/-- which record of a file, and which field of it, byte offset `p` falls into -/
def locate : List Rec → Nat → Option (Nat × Region)
  | [], _ => none
  | r :: rs, p =>
    let n := r.entry.length
    if p < 4 then some (0, .len)
    else if p < 12 then some (0, .seq)
    else if p < 12 + n then some (0, .entry)
    else if p < 16 + n then some (0, .cksum)
    else (locate rs (p - (16 + n))).map (fun (j, g) => (j + 1, g))

def isSubseq : List Bytes → List Bytes → Bool
  | [], _ => true
  | _ :: _, [] => false
  | a :: as, b :: bs => if a == b then isSubseq as bs else isSubseq (a :: as) bs

/-- One byte of file `i` at offset `p` was changed.  Always: nothing is delivered altered —
for every `frm`, what is delivered is `delivered frm` of a sub-list of the original
records (original entry bytes, original sequences), and a successful replay returns the
original sequence of the last one.  If the byte lies in a field the checksum protects
(`entry`, `cksum`) or in the length prefix, the damaged record and everything after it is
absent; for `entry`/`cksum` the replay must moreover fail (the corruption is *reported*). -/
def specFlip (fileRecs : List (List Rec)) (i p : Nat) (o : ReplayObs) : Bool :=
  let all := fileRecs.flatten
  match fileRecs[i]?, o.runs with
  | none, _ => false
  | _, [] => false
  | some rs, (d0, e0, _) :: _ =>
    -- the records delivered at `frm = 0`, as original records
    let kept := all.filter (fun r => d0.contains r.entry)
    isSubseq d0 (all.map (·.entry))
    && kept.map (·.entry) == d0
    && (List.range o.runs.length).all (fun frm =>
        match o.runs[frm]? with
        | some (d, e, l) =>
            d == (delivered frm kept).map (·.entry) && e == e0
            && (e != End.ok || l == lastSeq frm kept)
        | none => false)
    && (match locate rs p with
        | none => true            -- the byte lies in a torn tail: nothing more is required
        | some (j, g) =>
          let before := (fileRecs.take i).flatten ++ rs.take j
          match g with
          | .seq => true
          | .len =>
              -- reported, or the record looks torn: its file ends there and later files follow
              d0 == before.map (·.entry) || d0 == (before ++ (rs.drop j).take 1).map (·.entry)
              || d0 == (before ++ (fileRecs.drop (i + 1)).flatten).map (·.entry)
          | .entry => d0 == before.map (·.entry) && e0 != End.ok
          | .cksum => d0 == before.map (·.entry) && e0 != End.ok)

/-! history observations -/

/-- per op: the `append` return value (appends only) and `current_sequence()` afterwards -/
abbrev OpObs := Option Nat × Nat

/-- the records a history appended, each under the sequence the implementation reported
for it (`append` return value; `current_sequence()` after a checkpoint) -/
def appended : List Op → List OpObs → List Rec
  | .append e :: ops, (ret, _) :: obs => ⟨ret.getD 0, e⟩ :: appended ops obs
  | .checkpoint e :: ops, (_, cur) :: obs => ⟨cur, e⟩ :: appended ops obs
  | _ :: ops, _ :: obs => appended ops obs
  | _, _ => []

/-- The history specification (core), evaluated on what the implementation returned:
* every `append` returns the new `current_sequence()`;
* the final replay (after a clean close) succeeds and delivers a sub-list of the appended
  entries, in append order, each under the sequence reported for it at append time, with
  strictly increasing sequences (`specIntact`: the `from` filter and the returned last
  sequence agree with exactly those sequences).
Entries of a history are pairwise distinct (the harness tags them). -/
def specHistCore (ops : List Op) (obs : List OpObs) (final : ReplayObs) : Bool :=
  let app := appended ops obs
  ops.length == obs.length
  && (List.zip ops obs).all (fun (op, (ret, cur)) =>
      match op with
      | .append _ => ret == some cur
      | _ => ret == none)
  && (match final.runs with
      | [] => false
      | (d0, _, _) :: _ =>
        let kept := app.filter (fun r => d0.contains r.entry)
        isSubseq d0 (app.map (·.entry))
        && kept.map (·.entry) == d0
        && specIntact kept final)

/-- Which appended records were durable: appended in sync mode, or followed by a flush /
checkpoint / reopen / the clean close at the end of the history before any crash.
Returns the appended entries in order with that flag. -/
def durability : List Op → Bool → List (Bytes × Bool) → List (Bytes × Bool) → List (Bytes × Bool)
  -- `done`: settled records (reversed); `pend`: appended since the last durable point (reversed)
  | [], _, done, pend => (pend.map (fun p => (p.1, true)) ++ done).reverse
  | op :: ops, sync, done, pend =>
    let settle := pend.map (fun p => (p.1, true)) ++ done
    match op with
    | .append e =>
      if sync then durability ops sync ((e, true) :: settle) []
      else durability ops sync done ((e, false) :: pend)
    | .checkpoint e => durability ops sync ((e, true) :: settle) []
    | .flush => durability ops sync settle []
    | .reopen => durability ops false settle []
    | .crash _ => durability ops false (pend ++ done) []
    | .setSync b => durability ops b done pend

/-- every durable record is delivered by the final replay -/
def specDurable (ops : List Op) (final : ReplayObs) : Bool :=
  match final.runs with
  | [] => false
  | (d0, _, _) :: _ => (durability ops false [] []).all (fun (e, must) => !must || d0.contains e)

def specHistory (ops : List Op) (obs : List OpObs) (final : ReplayObs) : Bool :=
  specHistCore ops obs final && specDurable ops final

/-- the model's own observations of a history -/
def traceObs (m : Mode) (dec : Dec) : State → List Op → List OpObs
  | _, [] => []
  | s, op :: ops =>
    let s' := step m dec s op
    ((match op with | .append _ => some s'.seq | _ => none), s'.seq) :: traceObs m dec s' ops

def finalObs (m : Mode) (dec : Dec) (ops : List Op) (top : Nat) : ReplayObs :=
  observe m dec (dir (close (run m dec ops))) top

end SgModel.Wal
