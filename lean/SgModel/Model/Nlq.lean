import SgModel.Model.Lex
/-
Model of the natural-language front end (src/nlq/mod.rs): `extract_cypher`, `is_safe_query`
and the accept/reject decision of `text_to_cypher`.  Imports only `SgModel.Model.Lex`.

* `extract` mirrors `extract_cypher` on `List Char`: trim; first ``` fence (skip the language
  tag up to the first newline, take up to the next ```), else the lines that start with a
  read keyword joined by one space, else the text with outer fences stripped.
* `isSafeLegacy` is the pinned tree: a prefix test on the upper-cased text.
* the repaired `is_safe_query` parses the text and inspects the statement.  The parser is a
  parameter (`parse : List Char → Option Stmt`, the grammar is not modelled); a statement is
  summarised as levels of items — one level per (sub)query: the top level, a `CALL { }`
  subquery, each `UNION` branch — and `isReadOnly` is `NLQPipeline::is_read_only`.
-/
namespace SgModel.Nlq

open SgModel.Lex (isWsUnicode)

/-! ### string helpers (Rust `str` methods on `List Char`) -/

def trimStart : List Char → List Char
  | [] => []
  | c :: rest => if isWsUnicode c then trimStart rest else c :: rest

def trimEnd (s : List Char) : List Char := (trimStart s.reverse).reverse

/-- `str::trim` -/
def trim (s : List Char) : List Char := trimEnd (trimStart s)

def startsWith (p s : List Char) : Bool := p.isPrefixOf s

/-- `str::find(pat)`: char index of the first occurrence -/
def findSub (pat : List Char) : List Char → Option Nat
  | [] => if pat.isEmpty then some 0 else none
  | c :: rest =>
    if startsWith pat (c :: rest) then some 0
    else (findSub pat rest).map (· + 1)

def fence : List Char := ['`', '`', '`']
def fenceCypher : List Char := ['`', '`', '`', 'c', 'y', 'p', 'h', 'e', 'r']

/-- `str::trim_start_matches(pat)` (pat non-empty) with fuel = length -/
def trimStartMatchesAux (pat : List Char) : Nat → List Char → List Char
  | 0, s => s
  | n + 1, s => if !pat.isEmpty && startsWith pat s then trimStartMatchesAux pat n (s.drop pat.length) else s

def trimStartMatches (pat s : List Char) : List Char := trimStartMatchesAux pat s.length s

def trimEndMatches (pat s : List Char) : List Char :=
  (trimStartMatches pat.reverse s.reverse).reverse

/-- `str::lines()`: split at `\n`, drop one trailing `\r` per line, no final empty line -/
def splitNl : List Char → List Char → List (List Char)
  | cur, [] => if cur.isEmpty then [] else [cur.reverse]
  | cur, c :: rest => if c == '\n' then cur.reverse :: splitNl [] rest else splitNl (c :: cur) rest

def stripCr (l : List Char) : List Char :=
  match l.reverse with
  | '\r' :: r => r.reverse
  | _ => l

def lines (s : List Char) : List (List Char) := (splitNl [] s).map stripCr

/-- `char::to_uppercase` as far as it can produce the ASCII letters of the keywords below:
ASCII lower case, dotless i (U+0131 → I) and long s (U+017F → S).  Every other character
either maps to itself or to something that is not a prefix of a keyword. -/
def upper (c : Char) : Char :=
  if 'a' ≤ c ∧ c ≤ 'z' then Char.ofNat (c.toNat - 32)
  else if c.toNat = 0x131 then 'I'
  else if c.toNat = 0x17F then 'S'
  else c

def upperAll (s : List Char) : List Char := s.map upper

def kwMatch : List Char := ['M', 'A', 'T', 'C', 'H']
def kwReturn : List Char := ['R', 'E', 'T', 'U', 'R', 'N']
def kwWith : List Char := ['W', 'I', 'T', 'H']
def kwUnwind : List Char := ['U', 'N', 'W', 'I', 'N', 'D']
def kwCall : List Char := ['C', 'A', 'L', 'L']
def kwOptional : List Char := ['O', 'P', 'T', 'I', 'O', 'N', 'A', 'L']
def kwWhere : List Char := ['W', 'H', 'E', 'R', 'E']
def kwOrder : List Char := ['O', 'R', 'D', 'E', 'R']
def kwLimit : List Char := ['L', 'I', 'M', 'I', 'T']

def lineKeywords : List (List Char) :=
  [kwMatch, kwReturn, kwWith, kwUnwind, kwCall, kwOptional, kwWhere, kwOrder, kwLimit]

/-- the line filter of `extract_cypher` -/
def keepLine (l : List Char) : Bool :=
  let u := upperAll (trim l)
  lineKeywords.any (fun kw => startsWith kw u)

def joinSpace : List (List Char) → List Char
  | [] => []
  | [l] => l
  | l :: rest => l ++ ' ' :: joinSpace rest

/-- the part of `extract_cypher` after the fence attempt -/
def extractNoFence (t : List Char) : List Char :=
  let kept := (lines t).filter keepLine
  if !kept.isEmpty then joinSpace kept
  else trim (trimEndMatches fence (trimStartMatches fence (trimStartMatches fenceCypher t)))

/-- `NLQPipeline::extract_cypher` -/
def extract (response : List Char) : List Char :=
  let t := trim response
  match findSub fence t with
  | some start =>
    let after := t.drop (start + 3)
    let codeStart := match findSub ['\n'] after with
      | some i => i + 1
      | none => 0
    let code := after.drop codeStart
    (match findSub fence code with
     | some e => trim (code.take e)
     | none => extractNoFence t)
  | none => extractNoFence t

/-- `is_safe_query` of the pinned tree: the first keyword decides -/
def isSafeLegacy (q : List Char) : Bool :=
  let u := upperAll (trim q)
  startsWith kwMatch u || startsWith kwReturn u || startsWith kwUnwind u || startsWith kwCall u
    || startsWith kwWith u

/-! ### parsed statements -/

inductive WriteKind where
  | create | merge | set | remove | delete | foreach
deriving DecidableEq, Repr

inductive DdlKind where
  | createIndex | dropIndex | createConstraint | createVectorIndex | createHierarchyIndex
  | dropHierarchyIndex | rebuildHierarchyIndex
deriving DecidableEq, Repr

inductive Item where
  | read                          -- MATCH, OPTIONAL MATCH, WHERE, UNWIND, WITH, RETURN, SHOW …
  | write (k : WriteKind)
  | ddl (k : DdlKind)
  | call (proc : List Char)       -- CALL <procedure name>
deriving DecidableEq, Repr

/-- A statement: the items of one query level, followed by the nested levels (the `CALL { }`
subquery, every `UNION` branch), each a statement again. -/
inductive Stmt where
  | level (items : List Item)
  | seq (a b : Stmt)
deriving Repr

def lowerAscii (c : Char) : Char :=
  if 'A' ≤ c ∧ c ≤ 'Z' then Char.ofNat (c.toNat + 32) else c

def stripPrefix? (p s : List Char) : Option (List Char) :=
  if startsWith p s then some (s.drop p.length) else none

/-- `AlgorithmOperator::canonical_name` -/
def canonicalName (name : List Char) : List Char :=
  let bare := match stripPrefix? ['a', 'l', 'g', 'o', '.'] name with
    | some r => r
    | none => match stripPrefix? ['s', 'a', 'm', 'y', 'a', 'm', 'a', '.'] name with
      | some r => r
      | none => match stripPrefix? ['g', 'd', 's', '.'] name with
        | some r => r
        | none => name
  bare.map lowerAscii

def readOnlyDbProcs : List (List Char) :=
  [['d', 'b', '.', 'l', 'a', 'b', 'e', 'l', 's'], ['d', 'b', '.', 'r', 'e', 'l', 'a', 't', 'i', 'o', 'n', 's', 'h', 'i', 'p', 'T', 'y', 'p', 'e', 's'], ['d', 'b', '.', 'p', 'r', 'o', 'p', 'e', 'r', 't', 'y', 'K', 'e', 'y', 's'],
   ['d', 'b', '.', 's', 'c', 'h', 'e', 'm', 'a', '.', 'v', 'i', 's', 'u', 'a', 'l', 'i', 'z', 'a', 't', 'i', 'o', 'n'], ['d', 'b', '.', 'i', 'n', 'd', 'e', 'x', '.', 'v', 'e', 'c', 't', 'o', 'r', '.', 'q', 'u', 'e', 'r', 'y', 'N', 'o', 'd', 'e', 's']]

def readOnlyAlgos : List (List Char) :=
  [['p', 'a', 'g', 'e', 'r', 'a', 'n', 'k'], ['s', 'h', 'o', 'r', 't', 'e', 's', 't', 'p', 'a', 't', 'h'], ['w', 'c', 'c'], ['s', 'c', 'c'], ['w', 'e', 'i', 'g', 'h', 't', 'e', 'd', 'p', 'a', 't', 'h'],
   ['m', 'a', 'x', 'f', 'l', 'o', 'w'], ['m', 's', 't'], ['t', 'r', 'i', 'a', 'n', 'g', 'l', 'e', 'c', 'o', 'u', 'n', 't'], ['c', 'd', 'l', 'p'], ['l', 'c', 'c']]

/-- `NLQPipeline::is_read_only_procedure` -/
def readOnlyProc (name : List Char) : Bool :=
  readOnlyDbProcs.contains name || readOnlyAlgos.contains (canonicalName name)

def itemOk : Item → Bool
  | .read => true
  | .write _ => false
  | .ddl _ => false
  | .call p => readOnlyProc p

/-- `NLQPipeline::is_read_only` -/
def isReadOnly : Stmt → Bool
  | .level items => items.all itemOk
  | .seq a b => isReadOnly a && isReadOnly b

def Stmt.items : Stmt → List Item
  | .level items => items
  | .seq a b => a.items ++ b.items

/-- the repaired `is_safe_query`, for a given parser -/
def isSafe (parse : List Char → Option Stmt) (q : List Char) : Bool :=
  match parse q with
  | some s => isReadOnly s
  | none => false

/-- `text_to_cypher` after the model call: `some q` = the statement handed back, `none` =
ValidationError -/
def textToCypher (parse : List Char → Option Stmt) (response : List Char) : Option (List Char) :=
  let q := extract response
  if isSafe parse q then some q else none

def textToCypherLegacy (response : List Char) : Option (List Char) :=
  let q := extract response
  if isSafeLegacy q then some q else none

/-! ### what executing a statement does to a store

`eff` is the effect of one item on a store of any type `G` — arbitrary for write clauses,
DDL and procedures outside the read-only list.  -/

def exec {G : Type} (eff : Item → G → G) : Stmt → G → G
  | .level items, g => items.foldl (fun g it => eff it g) g
  | .seq a b, g => exec eff b (exec eff a g)

/-! ### executable specification on observations -/

/-- S: a statement that was handed back did not change the store when executed on a copy.
`accepted` = `text_to_cypher` returned `Ok`, `mutated` = dumps + index/constraint lists
differ before/after. -/
def specObs (accepted mutated : Bool) : Bool := !(accepted && mutated)

end SgModel.Nlq
