/-
Model of the parsed-query cache of `QueryEngine` (src/query/mod.rs): `lru::LruCache<String,
Query>` behind `cached_parse`.  Import-free.

The LRU is an association list, most recently used first.  `get` promotes the entry, `put`
replaces-and-promotes an existing key or pushes a new entry and, when that exceeds the
capacity, evicts the last (least recently used) one.  `cachedParse` is the function as
coded: look the key up; on a hit return the stored value; on a miss parse, and store the
result *only if parsing succeeded* (a parse error returns early and is never cached).

`key` and `parse` are parameters: the theorems of C03 hold for every key/parse pair such
that equal keys imply equal parses; the instance used by the engine is `Lex.normalize`
(after the fix) or `Lex.legacyKey` (pinned tree).
-/
namespace SgModel.Cache

abbrev LRU (K V : Type) := List (K × V)

variable {K V S E : Type} [DecidableEq K]

def lookup (k : K) : LRU K V → Option V
  | [] => none
  | (k', v) :: rest => if k' = k then some v else lookup k rest

def remove (k : K) (c : LRU K V) : LRU K V := c.filter (fun kv => !decide (kv.1 = k))

/-- `LruCache::get`: value and the cache with the entry promoted to the front -/
def get (k : K) (c : LRU K V) : Option (V × LRU K V) :=
  match lookup k c with
  | some v => some (v, (k, v) :: remove k c)
  | none => none

/-- `LruCache::put` with capacity `cap` (≥ 1) -/
def put (cap : Nat) (k : K) (v : V) (c : LRU K V) : LRU K V :=
  ((k, v) :: remove k c).take cap

/-- `QueryEngine::with_capacity(0)` gives capacity 1 -/
def effCap (cap : Nat) : Nat := if cap = 0 then 1 else cap

structure Step (V E : Type) (K : Type) where
  result : Except E V
  cache : LRU K V
  hit : Bool

/-- `QueryEngine::cached_parse` -/
def cachedParse (cap : Nat) (key : S → K) (parse : S → Except E V) (c : LRU K V) (s : S) :
    Step V E K :=
  match get (key s) c with
  | some (v, c') => { result := .ok v, cache := c', hit := true }
  | none =>
    match parse s with
    | .ok v => { result := .ok v, cache := put (effCap cap) (key s) v c, hit := false }
    | .error e => { result := .error e, cache := c, hit := false }

/-- the cache after a history of query strings through one engine -/
def run (cap : Nat) (key : S → K) (parse : S → Except E V) (hist : List S) : LRU K V :=
  hist.foldl (fun c s => (cachedParse cap key parse c s).cache) []

/-- every step of a history, for the driver: (hit, cache length, result) -/
def trace (cap : Nat) (key : S → K) (parse : S → Except E V) :
    LRU K V → List S → List (Step V E K)
  | _, [] => []
  | c, s :: rest =>
    let st := cachedParse cap key parse c s
    st :: trace cap key parse st.cache rest

/-! ### executable specification on observations

One observation per executed query string: what the long-lived engine returned, what a
fresh parse-and-execute of the same string returned (both as opaque digests), and the
engine's counters after the call. -/

structure Obs where
  cached : Nat      -- digest of the result through the long-lived engine
  fresh : Nat       -- digest of the result of parsing and executing the string afresh
  hits : Nat
  misses : Nat
  len : Nat
deriving DecidableEq, Repr

/-- S: the cached answer is the fresh answer; counters add up; the cache is bounded -/
def specObs (cap : Nat) (k : Nat) (o : Obs) : Bool :=
  o.cached == o.fresh && o.hits + o.misses == k + 1 && decide (o.len ≤ effCap cap)

def specTrace (cap : Nat) : Nat → List Obs → Option Nat
  | _, [] => none
  | k, o :: rest => if specObs cap k o then specTrace cap (k + 1) rest else some k

/-- the observations of the model itself for a history (digest `d` of a result) -/
def obsTrace (cap : Nat) (key : S → K) (parse : S → Except E V) (d : Except E V → Nat) :
    LRU K V → Nat → Nat → List S → List Obs
  | _, _, _, [] => []
  | c, h, m, s :: rest =>
    let st := cachedParse cap key parse c s
    let h' := if st.hit then h + 1 else h
    let m' := if st.hit then m else m + 1
    { cached := d st.result, fresh := d (parse s), hits := h', misses := m',
      len := st.cache.length } :: obsTrace cap key parse d st.cache h' m' rest

end SgModel.Cache
