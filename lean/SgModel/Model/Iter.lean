import SgModel.Model.Algo
/-
Model for property C27 (`pagerank.rs`, `cdlp.rs`): the PageRank iteration and the synchronous
label propagation, as the Rust code computes them, over exact rationals (`Rat` of core Lean —
no import needed, the driver links) and natural-number labels.

The Rust PageRank works in `f64`; this model is the same iteration in exact arithmetic.
Float round-off and the rayon summation order (n ≥ 1000) are the part the model cannot
exhibit; the correspondence compares within a tolerance and is labelled partial for that.
-/
namespace SgModel.Iter
open SgModel.Algo

def rsum (l : List Nat) (f : Nat → Rat) : Rat := (l.map f).sum

structure PrConfig where
  d : Rat              -- damping factor
  iterations : Nat
  tol : Rat            -- L1 convergence threshold (0 = run all iterations)
  dangling : Bool      -- redistribute the mass of nodes without out-edges
deriving Repr

def sget (s : List Rat) (i : Nat) : Rat := s.getD i 0

/-- mass sitting on nodes without successors -/
def danglingMass (vw : View) (s : List Rat) : Rat :=
  rsum (List.range vw.n) (fun i => if vw.outDeg i = 0 then sget s i else 0)

/-- Σ over predecessors `u` of `PR u / outdeg u` -/
def incoming (vw : View) (s : List Rat) (v : Nat) : Rat :=
  rsum (vw.pred v) (fun u => if vw.outDeg u = 0 then 0 else sget s u / (vw.outDeg u : Rat))

/-- `PR' v = (1-d)/n + d·(Σ_{u→v} PR u / outdeg u + dangling/n)` with the dangling mass `dm`
of the old vector passed in (computed once per round, as the Rust code does) -/
def prNextD (vw : View) (cfg : PrConfig) (s : List Rat) (dm : Rat) (v : Nat) : Rat :=
  (1 - cfg.d) / (vw.n : Rat)
    + cfg.d * (incoming vw s v + (if cfg.dangling then dm / (vw.n : Rat) else 0))

/-- the update of one node; reads only the old vector -/
def prNext (vw : View) (cfg : PrConfig) (s : List Rat) (v : Nat) : Rat :=
  prNextD vw cfg s (danglingMass vw s) v

def prStep (vw : View) (cfg : PrConfig) (s : List Rat) : List Rat :=
  let dm := danglingMass vw s
  (List.range vw.n).map (prNextD vw cfg s dm)

def rabs (x : Rat) : Rat := if x < 0 then -x else x

def l1diff (n : Nat) (a b : List Rat) : Rat := rsum (List.range n) (fun i => rabs (sget a i - sget b i))

/-- fixed number of iterations with early exit once the L1 change drops below the tolerance -/
def prLoop (vw : View) (cfg : PrConfig) : Nat → List Rat → List Rat
  | 0, s => s
  | k + 1, s =>
    let s' := prStep vw cfg s
    if l1diff vw.n s' s < cfg.tol then s' else prLoop vw cfg k s'

def prInit (vw : View) : List Rat := List.replicate vw.n (1 / (vw.n : Rat))

def pageRank (vw : View) (cfg : PrConfig) : List Rat := prLoop vw cfg cfg.iterations (prInit vw)

/-- the same update performed node by node in an arbitrary order into a buffer
(what a thread pool does: every write reads only the old vector) -/
def writeAll {α : Type} (f : Nat → α) (order : List Nat) (buf : List α) : List α :=
  order.foldl (fun b i => b.set i (f i)) buf

/-- executable specification on observations: the returned scores are non-negative and sum
to one (dangling redistribution) or to at most one (without), within `eps` -/
def specPr (cfg : PrConfig) (eps : Rat) (scores : List Rat) : Bool :=
  let total := (scores.map id).sum
  scores.all (fun x => decide (0 ≤ x))
  && (if cfg.dangling then decide (rabs (total - 1) ≤ eps) else decide (total ≤ 1 + eps))

/-! ## CDLP -/

/-- is `(count a, a)` better than `(count b, b)`: more frequent, ties to the smaller label -/
def better (l : List Nat) (a b : Nat) : Bool :=
  decide (l.count b < l.count a) || (l.count a == l.count b && decide (a < b))

/-- the most frequent label, ties to the smallest; `none` for the empty list -/
def mode (l : List Nat) : Option Nat :=
  match l with
  | [] => none
  | x :: xs => some (xs.foldl (fun best y => if better l y best then y else best) x)

def lget (labels : List Nat) (i : Nat) : Nat := labels.getD i 0

/-- new label of `v`: mode over the labels of successors **and** predecessors (a mutual pair
counts twice); a node without neighbours keeps its label -/
def cdlpNext (vw : View) (labels : List Nat) (v : Nat) : Nat :=
  match mode ((vw.succ v ++ vw.pred v).map (lget labels)) with
  | some m => m
  | none => lget labels v

def cdlpStep (vw : View) (labels : List Nat) : List Nat := (List.range vw.n).map (cdlpNext vw labels)

/-- (labels, iterations performed): stop after the first round that changes nothing -/
def cdlpLoop (vw : View) : Nat → List Nat → Nat → List Nat × Nat
  | 0, labels, it => (labels, it)
  | k + 1, labels, it =>
    let nl := cdlpStep vw labels
    if nl = labels then (nl, it + 1) else cdlpLoop vw k nl (it + 1)

/-- `ids` = the node ids (`index_to_node`), which are the initial labels -/
def cdlp (vw : View) (ids : List Nat) (maxIter : Nat) : List Nat × Nat :=
  if vw.n = 0 then ([], 0) else cdlpLoop vw maxIter ids 0

/-- executable specification of one synchronous round on observations: `post` is the
LDBC update of `pre` at every node -/
def specCdlpRound (vw : View) (pre post : List Nat) : Bool :=
  post.length == vw.n && (List.range vw.n).all (fun v =>
    let nb := (vw.succ v ++ vw.pred v).map (lget pre)
    let m := lget post v
    if nb.isEmpty then m == lget pre v
    else decide (m ∈ nb) && nb.all (fun x => decide (nb.count x < nb.count m) || (nb.count x == nb.count m && decide (m ≤ x))))

end SgModel.Iter
