/-
Model of `src/raft/storage.rs` (RaftStorage): the in-memory Raft log, the snapshot
metadata, and the reads of property C31.  Import-free (the driver links against it).

`step` is the model of the code as it stands after the `fix:` commits; `stepLegacy` is the
model of the pinned tree (append = push, snapshot = retain the *prefix*) and is kept so
that the shape of the original defects stays recognisable.
-/
namespace SgModel.RaftLog

structure Entry where
  index : Nat
  term : Nat
  data : Nat
deriving DecidableEq, Repr

structure State where
  log : List Entry := []
  snap : Option (Nat × Nat) := none
deriving DecidableEq, Repr

inductive Op where
  | append (es : List Entry)      -- RaftStorage::append_entries
  | truncate (i : Nat)            -- RaftStorage::delete_entries_from
  | snapshot (i t : Nat)          -- RaftStorage::create_snapshot
deriving DecidableEq, Repr

/-- one entry of `append_entries`: drop the conflicting suffix, then push -/
def append1 (s : State) (e : Entry) : State :=
  { s with log := s.log.filter (fun x => x.index < e.index) ++ [e] }

def truncate (s : State) (i : Nat) : State :=
  { s with log := s.log.filter (fun x => x.index < i) }

def snapshot (s : State) (i t : Nat) : State :=
  { log := s.log.filter (fun x => i < x.index), snap := some (i, t) }

def step (s : State) : Op → State
  | .append es => es.foldl append1 s
  | .truncate i => truncate s i
  | .snapshot i t => snapshot s i t

def run (ops : List Op) : State := ops.foldl step {}

/-! reads -/

def getEntry (s : State) (i : Nat) : Option Entry := s.log.find? (fun e => e.index == i)

def getEntries (s : State) (a b : Nat) : List Entry :=
  s.log.filter (fun e => a ≤ e.index && e.index < b)

def last (s : State) : Nat × Nat :=
  match s.log.getLast? with
  | some e => (e.index, e.term)
  | none => match s.snap with
    | some p => p
    | none => (0, 0)

/-! the pinned tree -/

def append1Legacy (s : State) (e : Entry) : State := { s with log := s.log ++ [e] }

def snapshotLegacy (s : State) (i t : Nat) : State :=
  { log := s.log.filter (fun x => x.index < i + 1), snap := some (i, t) }

def stepLegacy (s : State) : Op → State
  | .append es => es.foldl append1Legacy s
  | .truncate i => truncate s i
  | .snapshot i t => snapshotLegacy s i t

def runLegacy (ops : List Op) : State := ops.foldl stepLegacy {}

/-! ### Observations and the executable specification `S`

An observation is what the public read API returns; the specification relates the
observation before an operation, the operation, and the observation after it.  It is
evaluated on the *implementation's* observations by the harness (S ⊨ R) and is proved
of the model for every state (`Props/C31.lean`). -/

structure Obs where
  dump : List Entry              -- get_entries(0, ∞), in storage order
  last : Nat × Nat               -- get_last_log_index_term
  snap : Option (Nat × Nat)      -- get_snapshot_metadata
  gets : List (Option Entry)     -- get_entry(i) for i = 0 .. probeMax
  range : List Entry             -- get_entries(rangeLo, rangeHi)
deriving DecidableEq, Repr

def probeMax : Nat := 6
def rangeLo : Nat := 2
def rangeHi : Nat := 4

def obs (s : State) : Obs :=
  { dump := s.log, last := last s, snap := s.snap,
    gets := (List.range (probeMax + 1)).map (getEntry s),
    range := getEntries s rangeLo rangeHi }

/-- the point and range reads must be views of the dump -/
def specReads (o : Obs) : Bool :=
  o.gets == (List.range (probeMax + 1)).map (fun i => o.dump.find? (fun e => e.index == i))
  && o.range == o.dump.filter (fun e => rangeLo ≤ e.index && e.index < rangeHi)

def nodupIdx : List Entry → Bool
  | [] => true
  | e :: rest => rest.all (fun x => x.index != e.index) && nodupIdx rest

def maxIdxEntry : List Entry → Option Entry
  | [] => none
  | e :: rest => match maxIdxEntry rest with
    | none => some e
    | some m => if m.index < e.index then some e else some m

/-- what `last` must be, given the dump and the snapshot metadata -/
def specLast (o : Obs) : Bool :=
  match maxIdxEntry o.dump with
  | some m => o.last == (m.index, m.term)
  | none => match o.snap with
    | some p => o.last == p
    | none => o.last == (0, 0)

def subsetOf (a b : List Entry) : Bool := a.all (fun x => b.contains x)

/-- one appended entry, relationally, on dumps -/
def specAppend1 (pre : List Entry) (e : Entry) (post : List Entry) : Bool :=
  post.contains e
  && (pre.filter (fun x => x.index < e.index)).all (fun x => post.contains x)
  && post.all (fun x => x == e || (pre.contains x && x.index < e.index))

def specStep (pre : Obs) (op : Op) (post : Obs) : Bool :=
  nodupIdx post.dump && specLast post && specReads post &&
  match op with
  | .append [e] => specAppend1 pre.dump e post.dump && post.snap == pre.snap
  | .append _ => true     -- batches are specified as the composition of single appends
  | .truncate i =>
      subsetOf post.dump pre.dump
      && (pre.dump.filter (fun x => x.index < i)).all (fun x => post.dump.contains x)
      && post.dump.all (fun x => x.index < i) && post.snap == pre.snap
  | .snapshot i t =>
      subsetOf post.dump pre.dump
      && (pre.dump.filter (fun x => i < x.index)).all (fun x => post.dump.contains x)
      && post.snap == some (i, t)

end SgModel.RaftLog
