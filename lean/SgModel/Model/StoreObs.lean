import SgModel.Model.Store
/-!
Observations of the graph store (what the public read API returns for a fixed list of probe
ids / labels / types / keys) and the executable specification `S` of property C06 phrased on
them: every read view is the corresponding function of the logical graph (`nodes`, `edges`)
that the point reads describe, and a write changes the logical graph the way the API contract
says.  The harness evaluates `specObs` / `specStep` on the *implementation's* observations.
-/
namespace SgModel.Store

structure Probe where
  ids : List Nat        -- node ids and relationship ids to probe (0 … P)
  labels : List Nat
  types : List Nat
  keys : List Nat
deriving Repr

abbrev EdgeObs := Nat × Nat × Nat × Nat × Props      -- id, source, target, type, properties
abbrev NodeObs := Nat × List Nat × Props             -- id, labels, properties

structure Obs where
  nodes : List NodeObs := []                           -- get_node over the probes (live ones)
  edges : List EdgeObs := []                           -- all_edges
  nodeCount : Nat := 0
  edgeCount : Nat := 0
  getE : List (Option (Nat × Nat × Nat × Props)) := [] -- get_edge per probe
  outE : List (List Nat) := []                         -- get_outgoing_edges per probe (ids)
  inE : List (List Nat) := []
  outN : List Row := []                                -- for_each_outgoing_neighbor(None)
  inN : List Row := []
  outNT : List (List Row) := []                        -- … (Some([type id])) per probe, per type
  inNT : List (List Row) := []
  outD : List (List Nat) := []                         -- outgoing_degree_for_type per probe, per type
  inD : List (List Nat) := []
  btw : List (List (List (List Nat))) := []            -- edges_between per a, per b, per (None :: types)
  byLabel : List (List Nat) := []
  byType : List (List Nat) := []
  ncol : List (List (Option Nat)) := []                -- node_columns per probe, per key
  ecol : List (List (Option Nat)) := []
  pending : Bool := false                              -- an edge stub is waiting for finish_bulk_load
deriving Repr

def edgeObs (s : State) (e : Nat) : Option EdgeObs :=
  (getEdge s e).map (fun q => (e, q.1, q.2.1, q.2.2.1, q.2.2.2))

def typeFilter (s : State) (ty : Nat) : Option (List Nat) :=
  match typeIdFor s ty with
  | some id => some [id]
  | none => some []

def obs (s : State) (p : Probe) : Obs :=
  { nodes := p.ids.filterMap (fun n => (getNode s n).map (fun r => (n, r.labels, r.props)))
    edges := (allEdges s).filterMap (edgeObs s)
    nodeCount := nodeCount s
    edgeCount := edgeCount s
    getE := p.ids.map (getEdge s)
    outE := p.ids.map (edgesOf s s.outT)
    inE := p.ids.map (edgesOf s s.inT)
    outN := p.ids.map (fun n => neighbours s s.outT n none)
    inN := p.ids.map (fun n => neighbours s s.inT n none)
    outNT := p.ids.map (fun n => p.types.map (fun ty => neighbours s s.outT n (typeFilter s ty)))
    inNT := p.ids.map (fun n => p.types.map (fun ty => neighbours s s.inT n (typeFilter s ty)))
    outD := p.ids.map (fun n => p.types.map (degreeForType s s.outT n))
    inD := p.ids.map (fun n => p.types.map (degreeForType s s.inT n))
    btw := p.ids.map (fun a => p.ids.map (fun b =>
      (none :: p.types.map some).map (edgesBetween s a b)))
    byLabel := p.labels.map (nodesByLabel s)
    byType := p.types.map (edgesByType s)
    ncol := p.ids.map (fun n => p.keys.map (colGet s.ncols n))
    ecol := p.ids.map (fun e => p.keys.map (colGet s.ecols e))
    pending := s.stubPending }

/-! ### the specification on one observation -/

def sameSet {α : Type} [BEq α] (a b : List α) : Bool :=
  a.all (fun x => b.contains x) && b.all (fun x => a.contains x)

def nodupB {α : Type} [BEq α] : List α → Bool
  | [] => true
  | x :: xs => !xs.contains x && nodupB xs

/-- same elements, each exactly once (the reference side is duplicate-free by construction) -/
def sameOnce {α : Type} [BEq α] (got want : List α) : Bool := nodupB got && sameSet got want

def eId (e : EdgeObs) : Nat := e.1
def eSrc (e : EdgeObs) : Nat := e.2.1
def eTgt (e : EdgeObs) : Nat := e.2.2.1
def eTy (e : EdgeObs) : Nat := e.2.2.2.1
def eProps (e : EdgeObs) : Props := e.2.2.2.2

def specCount (o : Obs) : Bool := o.edgeCount == o.edges.length && nodupB (o.edges.map eId)

def specNodeCount (o : Obs) : Bool := o.nodeCount == o.nodes.length

/-- no relationship dangles (the probes cover every id in use) -/
def specEnds (o : Obs) : Bool :=
  o.edges.all (fun e => (o.nodes.map (·.1)).contains (eSrc e) && (o.nodes.map (·.1)).contains (eTgt e))

def specOutN (p : Probe) (o : Obs) : Bool :=
  (p.ids.zip o.outN).all (fun x =>
    sameOnce x.2 ((o.edges.filter (fun e => eSrc e == x.1)).map (fun e => (eTgt e, eId e))))

def specInN (p : Probe) (o : Obs) : Bool :=
  (p.ids.zip o.inN).all (fun x =>
    sameOnce x.2 ((o.edges.filter (fun e => eTgt e == x.1)).map (fun e => (eSrc e, eId e))))

def specOutE (p : Probe) (o : Obs) : Bool :=
  (p.ids.zip o.outE).all (fun x =>
    sameOnce x.2 ((o.edges.filter (fun e => eSrc e == x.1)).map eId))

def specInE (p : Probe) (o : Obs) : Bool :=
  (p.ids.zip o.inE).all (fun x =>
    sameOnce x.2 ((o.edges.filter (fun e => eTgt e == x.1)).map eId))

/-- the part of the specification that `C06_model_refines_spec` proves of the model for every
history: counts, exactly-once adjacency in both directions and both list reads, no dangling -/
def specCore (p : Probe) (o : Obs) : Bool :=
  specCount o && specOutN p o && specInN p o && specOutE p o && specInE p o && specEnds o

def specGetE (p : Probe) (o : Obs) : Bool :=
  (p.ids.zip o.getE).all (fun x =>
    x.2 == ((o.edges.find? (fun e => eId e == x.1)).map (fun e => (eSrc e, eTgt e, eTy e, eProps e))))

def specTyped (p : Probe) (o : Obs) : Bool :=
  (p.ids.zip (o.outNT.zip (o.inNT.zip (o.outD.zip o.inD)))).all (fun x =>
    let n := x.1
    (p.types.zip (x.2.1.zip (x.2.2.1.zip (x.2.2.2.1.zip x.2.2.2.2)))).all (fun y =>
      let ty := y.1
      let wantOut := (o.edges.filter (fun e => eSrc e == n && eTy e == ty)).map (fun e => (eTgt e, eId e))
      let wantIn := (o.edges.filter (fun e => eTgt e == n && eTy e == ty)).map (fun e => (eSrc e, eId e))
      sameOnce y.2.1 wantOut && sameOnce y.2.2.1 wantIn
        && y.2.2.2.1 == wantOut.length && y.2.2.2.2 == wantIn.length))

def specBetween (p : Probe) (o : Obs) : Bool :=
  o.pending ||
  (p.ids.zip o.btw).all (fun x =>
    (p.ids.zip x.2).all (fun y =>
      ((none :: p.types.map some).zip y.2).all (fun z =>
        sameOnce z.2 ((o.edges.filter (fun e => eSrc e == x.1 && eTgt e == y.1 &&
          (match z.1 with | some ty => eTy e == ty | none => true))).map eId))))

def specIndexes (p : Probe) (o : Obs) : Bool :=
  (p.labels.zip o.byLabel).all (fun x =>
    sameOnce x.2 ((o.nodes.filter (fun n => n.2.1.contains x.1)).map (·.1)))
  && (o.pending || (p.types.zip o.byType).all (fun x =>
    sameOnce x.2 ((o.edges.filter (fun e => eTy e == x.1)).map eId)))

def propGet (ps : Props) (k : Nat) : Option Nat := (ps.find? (fun q => q.1 == k)).map (·.2)

/-- column stores mirror the row properties of live entities and hold nothing for dead ids -/
def specCols (p : Probe) (o : Obs) : Bool :=
  (p.ids.zip (o.ncol.zip o.ecol)).all (fun x =>
    (p.keys.zip (x.2.1.zip x.2.2)).all (fun y =>
      y.2.1 == (match o.nodes.find? (fun n => n.1 == x.1) with
                | some n => propGet n.2.2 y.1 | none => none)
      && y.2.2 == (match o.edges.find? (fun e => eId e == x.1) with
                | some e => propGet (eProps e) y.1 | none => none)))

/-- everything the harness checks on one observation -/
def specObs (p : Probe) (o : Obs) : Bool :=
  specCore p o && specNodeCount o && specGetE p o && specTyped p o && specBetween p o
    && specIndexes p o && specCols p o

/-- which conjunct fails first (for the replay / signature) -/
def specObsWhy (p : Probe) (o : Obs) : String :=
  if !specCount o then "edge_count"
  else if !specOutN p o then "out_neighbours"
  else if !specInN p o then "in_neighbours"
  else if !specOutE p o then "out_edges"
  else if !specInE p o then "in_edges"
  else if !specEnds o then "dangling"
  else if !specNodeCount o then "node_count"
  else if !specGetE p o then "get_edge"
  else if !specTyped p o then "typed_neighbours_or_degree"
  else if !specBetween p o then "edges_between"
  else if !specIndexes p o then "label_or_type_index"
  else if !specCols p o then "columns"
  else "ok"

/-! ### the specification of one step on the logical graph -/

/-- same node: same id, same label *set*, same property *map* (label and property lists are
compared up to order: they come from a `HashSet` / `HashMap`) -/
def nodeEqv (x y : NodeObs) : Bool :=
  x.1 == y.1 && sameSet x.2.1 y.2.1 && sameSet x.2.2 y.2.2

def nodesSame (a b : List NodeObs) : Bool :=
  a.all (fun x => b.any (fun y => nodeEqv x y)) && b.all (fun y => a.any (fun x => nodeEqv x y))

def edgeEqv (x y : EdgeObs) : Bool :=
  eId x == eId y && eSrc x == eSrc y && eTgt x == eTgt y && eTy x == eTy y
    && sameSet (eProps x) (eProps y)

def edgesSame (a b : List EdgeObs) : Bool :=
  a.all (fun x => b.any (fun y => edgeEqv x y)) && b.all (fun y => a.any (fun x => edgeEqv x y))

def setProp (ps : Props) (k v : Nat) : Props :=
  let rest := ps.filter (fun q => q.1 != k)
  -- keep sorted by key, as observations are
  (rest.filter (fun q => q.1 < k)) ++ (k, v) :: (rest.filter (fun q => k < q.1))

def insLabel (ls : List Nat) (l : Nat) : List Nat :=
  if ls.contains l then ls else (ls.filter (· < l)) ++ l :: (ls.filter (l < ·))

/-- nothing changed in the logical graph -/
def specSame (pre post : Obs) : Bool :=
  nodesSame post.nodes pre.nodes && edgesSame post.edges pre.edges

/-- a node was added under an id that was not in use, with exactly this label and properties -/
def specNewNode (pre : Obs) (ret : Ret) (post : Obs) (l : Nat) (ps : Props) : Bool :=
  match ret with
  | .id i => !(pre.nodes.map (·.1)).contains i && nodesSame post.nodes ((i, [l], ps) :: pre.nodes)
             && edgesSame post.edges pre.edges
  | _ => false

/-- a relationship was added under an id that was not in use — or refused because an endpoint
does not exist -/
def specNewEdge (pre : Obs) (ret : Ret) (post : Obs) (a b ty : Nat) (ps : Props) : Bool :=
  if !(pre.nodes.map (·.1)).contains a then ret == .err 3 && specSame pre post
  else if !(pre.nodes.map (·.1)).contains b then ret == .err 4 && specSame pre post
  else match ret with
    | .id i => !(pre.edges.map eId).contains i && nodesSame post.nodes pre.nodes
               && edgesSame post.edges ((i, a, b, ty, ps) :: pre.edges)
    | _ => false

def specUpdNode (pre post : Obs) (n : Nat) (f : NodeObs → NodeObs) : Bool :=
  nodesSame post.nodes (pre.nodes.map (fun x => if x.1 == n then f x else x))
    && edgesSame post.edges pre.edges

def specUpdEdge (pre post : Obs) (e : Nat) (f : EdgeObs → EdgeObs) : Bool :=
  nodesSame post.nodes pre.nodes
    && edgesSame post.edges (pre.edges.map (fun x => if eId x == e then f x else x))

/-- `post` is the logical graph `pre` transformed by `op` with result `ret`; ids are chosen
by the implementation, the specification only demands that a new id was not live -/
def specStep (pre : Obs) (op : Op) (ret : Ret) (post : Obs) : Bool :=
  let nid := pre.nodes.map (·.1)
  let eid := pre.edges.map eId
  match op with
  | .mkN l => specNewNode pre ret post l []
  | .mkNS l => specNewNode pre ret post l []
  | .mkNP l k v => specNewNode pre ret post l [(k, v)]
  | .mkE a b ty => specNewEdge pre ret post a b ty []
  | .mkES a b ty => specNewEdge pre ret post a b ty []
  | .mkEP a b ty k v => specNewEdge pre ret post a b ty [(k, v)]
  | .delE e =>
    if eid.contains e then
      ret == .ok && nodesSame post.nodes pre.nodes
        && edgesSame post.edges (pre.edges.filter (fun x => eId x != e))
    else ret == .err 2 && specSame pre post
  | .delN n =>
    if nid.contains n then
      ret == .ok && nodesSame post.nodes (pre.nodes.filter (fun x => x.1 != n))
        && edgesSame post.edges (pre.edges.filter (fun x => eSrc x != n && eTgt x != n))
    else ret == .err 1 && specSame pre post
  | .addL n l =>
    if nid.contains n then ret == .ok && specUpdNode pre post n (fun x => (x.1, insLabel x.2.1 l, x.2.2))
    else ret == .err 1 && specSame pre post
  | .rmL n l =>
    if nid.contains n then
      (ret == .ok || ret == .no) && specUpdNode pre post n (fun x => (x.1, x.2.1.filter (· != l), x.2.2))
    else ret == .err 1 && specSame pre post
  | .setNP n k v =>
    if nid.contains n then ret == .ok && specUpdNode pre post n (fun x => (x.1, x.2.1, setProp x.2.2 k v))
    else true       -- outside the precondition: not specified
  | .rmNP n k => specUpdNode pre post n (fun x => (x.1, x.2.1, x.2.2.filter (fun q => q.1 != k)))
  | .setEP e k v =>
    if eid.contains e then
      ret == .ok && specUpdEdge pre post e (fun x => (x.1, x.2.1, x.2.2.1, x.2.2.2.1, setProp x.2.2.2.2 k v))
    else true
  | .rmEP e k =>
    specUpdEdge pre post e (fun x => (x.1, x.2.1, x.2.2.1, x.2.2.2.1, x.2.2.2.2.filter (fun q => q.1 != k)))
  | .compact => ret == .ok && specSame pre post
  | .finish => ret == .ok && specSame pre post && !post.pending
  | .clear => ret == .ok && post.nodes.isEmpty && post.edges.isEmpty

end SgModel.Store
