/-
Model of `src/snapshot/mod.rs` — the `.sgsnap` codec and the import/export algorithms —
for properties C12 (export → import reproduces the graph) and C13 (a failed import leaves
the store unchanged).  Import-free (the driver links against it).

What is modelled (as of the code *after* the `fix:` commits; the pinned tree's behaviour is
kept behind the `lg := true` ("legacy") switch of the same functions):

* `PV`  — `PropertyValue`; `J` — `serde_json::Value`; `enc`/`dec` = `property_to_json` /
  `json_to_property` (tagged objects for DateTime / Vector / Duration / non-finite Float);
* the line records (`SnapshotNode`, `SnapshotEdge`, `SnapshotHierarchyIndex`) as JSON
  objects, `lineToJ` (what the exporter's serde derive writes) and `parseLine` (routing on
  the top-level `t` field + the typed decode the importer's serde derive performs);
* the store at the granularity the importer touches it: per node the label list, the row
  map (`node.properties`) and the column map (`node_columns`); relationships; the label
  index; hierarchy declarations;
* `exportLines` (`export_tenant_with_compression`) and `importLines`
  (`import_tenant_with_dedup`: id remap table, dedup index, merge path, undo journal,
  rollback).

What is *not* modelled and enters as a trusted text layer: gzip, serde_json's text
reader/writer (incl. float ↔ decimal text and `f32` widening/narrowing), hash-map
iteration order (the harness sorts), `finish_bulk_load` (no logical effect), the cycle
check of `HierarchyIndexManager::create`.

Strings are `List Nat` (UTF-8 bytes); `f64` is its bit pattern as a `Nat`; a `Vector`
component is the bit pattern of the `f64` the `f32` widens to.
-/
namespace SgModel.SnapJson

abbrev Str := List Nat

/-! ### values -/

inductive PV where
  | null
  | bool (b : Bool)
  | int (i : Int)
  | flt (bits : Nat)
  | str (s : Str)
  | dt (ms : Int)
  | arr (l : List PV)
  | map (kvs : List (Str × PV))
  | vec (l : List Nat)
  | dur (mo d s ns : Int)
deriving Repr

inductive J where
  | null
  | bool (b : Bool)
  | int (i : Int)          -- a JSON number that fits i64 (`as_i64` succeeds)
  | flt (bits : Nat)       -- any other JSON number, as the f64 `as_f64` yields
  | str (s : Str)
  | arr (l : List J)
  | obj (kvs : List (Str × J))
deriving Repr

def lookup {α : Type} (k : Str) : List (Str × α) → Option α
  | [] => none
  | (k', v) :: r => if k' == k then some v else lookup k r

def keys {α : Type} (l : List (Str × α)) : List Str := l.map (·.1)

/-! string constants -/
def kType : Str := [95, 95, 116, 121, 112, 101]                     -- "__type"
def kValue : Str := [118, 97, 108, 117, 101]                        -- "value"
def tDateTime : Str := [68, 97, 116, 101, 84, 105, 109, 101]        -- "DateTime"
def tVector : Str := [86, 101, 99, 116, 111, 114]                   -- "Vector"
def tDuration : Str := [68, 117, 114, 97, 116, 105, 111, 110]       -- "Duration"
def tFloat : Str := [70, 108, 111, 97, 116]                         -- "Float"
def kMonths : Str := [109, 111, 110, 116, 104, 115]                 -- "months"
def kDays : Str := [100, 97, 121, 115]                              -- "days"
def kSeconds : Str := [115, 101, 99, 111, 110, 100, 115]            -- "seconds"
def kNanos : Str := [110, 97, 110, 111, 115]                        -- "nanos"
def sNaN : Str := [78, 97, 78]                                      -- "NaN"
def sInf : Str := [73, 110, 102, 105, 110, 105, 116, 121]           -- "Infinity"
def sNegInf : Str := [45, 73, 110, 102, 105, 110, 105, 116, 121]    -- "-Infinity"

/-! floats as bit patterns -/
def nonFinite (b : Nat) : Bool := (b / 4503599627370496) % 2048 == 2047
def nanBits : Nat := 0x7ff8000000000000
def infBits : Nat := 0x7ff0000000000000
def negInfBits : Nat := 0xfff0000000000000

def nonFiniteName (b : Nat) : Str :=
  if b == infBits then sInf else if b == negInfBits then sNegInf else sNaN

def nonFiniteOfName (s : Str) : Option Nat :=
  if s == sNaN then some nanBits
  else if s == sInf then some infBits
  else if s == sNegInf then some negInfBits
  else none

/-- `property_to_json` of a float (also of one widened `Vector` component).
legacy: `json!(f)` turns every non-finite float into `null`. -/
def encFlt (lg : Bool) (b : Nat) : J :=
  if nonFinite b then
    (if lg then .null else .obj [(kType, .str tFloat), (kValue, .str (nonFiniteName b))])
  else .flt b

/-- legacy `str::trim` (ASCII white space; the real one also trims Unicode White_Space) -/
def isWs (c : Nat) : Bool := c == 32 || (9 ≤ c && c ≤ 13)
def trim (s : Str) : Str := ((s.dropWhile isWs).reverse.dropWhile isWs).reverse

/-! ### `property_to_json` -/
mutual
def enc (lg : Bool) : PV → J
  | .null => .null
  | .bool b => .bool b
  | .int i => .int i
  | .flt b => encFlt lg b
  | .str s => .str s
  | .dt ms => .obj [(kType, .str tDateTime), (kValue, .int ms)]
  | .arr l => .arr (encL lg l)
  | .map kvs => .obj (encKV lg kvs)
  | .vec l => .obj [(kType, .str tVector), (kValue, .arr (l.map (encFlt lg)))]
  | .dur mo d s ns =>
      .obj [(kType, .str tDuration), (kMonths, .int mo), (kDays, .int d), (kSeconds, .int s),
            (kNanos, .int ns)]
def encL (lg : Bool) : List PV → List J
  | [] => []
  | v :: r => enc lg v :: encL lg r
def encKV (lg : Bool) : List (Str × PV) → List (Str × J)
  | [] => []
  | (k, v) :: r => (k, enc lg v) :: encKV lg r
end

/-! ### `json_to_property` -/

/-- `{"__type":"Float","value":"NaN"|"Infinity"|"-Infinity"}` (added by the repair) -/
def taggedFloat (kvs : List (Str × J)) : Option Nat :=
  match lookup kType kvs, lookup kValue kvs with
  | some (.str t), some (.str n) => if t == tFloat then nonFiniteOfName n else none
  | _, _ => none

/-- one component of a `Vector`: `as_f64`, or (repaired code) a tagged non-finite float;
anything else is dropped by the `filter_map` -/
def elemToF (lg : Bool) : J → Option Nat
  | .flt b => some b
  | .obj kvs => if lg then none else taggedFloat kvs
  | _ => none

def getI64 (k : Str) (kvs : List (Str × J)) : Int :=
  match lookup k kvs with
  | some (.int i) => i
  | _ => 0

/-- Rust's `as i32` on an `i64` -/
def wrapI32 (i : Int) : Int := (i + 2147483648) % 4294967296 - 2147483648

/-- the `__type` dispatch; `none` = "plain map" -/
def tagged (lg : Bool) (kvs : List (Str × J)) : Option PV :=
  match lookup kType kvs with
  | some (.str t) =>
    if t == tDateTime then
      (match lookup kValue kvs with
       | some (.int i) => some (.dt i)
       | _ => none)
    else if t == tVector then
      (match lookup kValue kvs with
       | some (.arr l) => some (.vec (l.filterMap (elemToF lg)))
       | _ => none)
    else if t == tDuration then
      some (.dur (getI64 kMonths kvs) (getI64 kDays kvs) (getI64 kSeconds kvs)
        (wrapI32 (getI64 kNanos kvs)))
    else if !lg && t == tFloat then
      (match lookup kValue kvs with
       | some (.str n) => (nonFiniteOfName n).map PV.flt
       | _ => none)
    else none
  | _ => none

mutual
def dec (lg : Bool) : J → PV
  | .null => .null
  | .bool b => .bool b
  | .int i => .int i
  | .flt b => .flt b
  | .str s => .str (if lg then trim s else s)
  | .arr l => .arr (decL lg l)
  | .obj kvs =>
      match tagged lg kvs with
      | some v => v
      | none => .map (decKV lg kvs)
def decL (lg : Bool) : List J → List PV
  | [] => []
  | v :: r => dec lg v :: decL lg r
def decKV (lg : Bool) : List (Str × J) → List (Str × PV)
  | [] => []
  | (k, v) :: r => (k, dec lg v) :: decKV lg r
end

/-! ### which values a snapshot can carry (`Snapshotable`) -/

/-- finite, or one of the three canonical non-finite patterns (a NaN payload is not
carried: JSON has no NaN, the repaired codec writes the *name*) -/
def fltOk (b : Nat) : Bool := !nonFinite b || b == nanBits || b == infBits || b == negInfBits

def isTag (t : Str) : Bool := t == tDateTime || t == tVector || t == tDuration || t == tFloat

/-- a user map that *looks like* a tagged value cannot be told from one -/
def taggedKey (kvs : List (Str × PV)) : Bool :=
  match lookup kType kvs with
  | some (.str t) => isTag t
  | _ => false

mutual
def snapOk : PV → Bool
  | .flt b => fltOk b
  | .vec l => l.all fltOk
  | .dur _ _ _ ns => decide (-2147483648 ≤ ns) && decide (ns < 2147483648)
  | .arr l => snapOkL l
  | .map kvs => !taggedKey kvs && snapOkKV kvs
  | _ => true
def snapOkL : List PV → Bool
  | [] => true
  | v :: r => snapOk v && snapOkL r
def snapOkKV : List (Str × PV) → Bool
  | [] => true
  | (_, v) :: r => snapOk v && snapOkKV r
end

/-! ### structural equality on values (no `DecidableEq` for nested inductives) -/
mutual
def PV.beq : PV → PV → Bool
  | .null, .null => true
  | .bool a, .bool b => a == b
  | .int a, .int b => a == b
  | .flt a, .flt b => a == b
  | .str a, .str b => a == b
  | .dt a, .dt b => a == b
  | .arr a, .arr b => PV.beqL a b
  | .map a, .map b => PV.beqKV a b
  | .vec a, .vec b => a == b
  | .dur a b c d, .dur a' b' c' d' => a == a' && b == b' && c == c' && d == d'
  | _, _ => false
def PV.beqL : List PV → List PV → Bool
  | [], [] => true
  | x :: xs, y :: ys => PV.beq x y && PV.beqL xs ys
  | _, _ => false
def PV.beqKV : List (Str × PV) → List (Str × PV) → Bool
  | [], [] => true
  | (k, x) :: xs, (k', y) :: ys => k == k' && PV.beq x y && PV.beqKV xs ys
  | _, _ => false
end

def PV.isNull : PV → Bool
  | .null => true
  | _ => false

/-- `String | Integer | Float | Boolean`: kept in the column only by the importer -/
def PV.isScalar : PV → Bool
  | .str _ => true
  | .int _ => true
  | .flt _ => true
  | .bool _ => true
  | _ => false

/-! ### the store, as far as export/import touch it -/

structure HierS where
  name : Str
  types : List Str
  reverse : Bool
  mlabel : Option Str
  mprop : Option Str
  ops : List Str
deriving Repr, DecidableEq

structure NodeS where
  id : Nat
  labels : List Str
  row : List (Str × PV)            -- `node.properties`
  col : List (Str × PV)            -- `node_columns` (no `Null` entries: Null = absent)
  hist : List (List (Str × PV)) := []   -- row maps of older MVCC versions (oldest first)
deriving Repr

structure EdgeS where
  id : Nat
  src : Nat
  tgt : Nat
  ty : Str
  props : List (Str × PV)
deriving Repr

structure St where
  nodes : List NodeS := []
  edges : List EdgeS := []
  lidx : List (Str × List Nat) := []    -- `label_index`
  hier : List HierS := []
  nextNode : Nat := 0
  nextEdge : Nat := 0
deriving Repr

/-! ### the logical graph (what the property is stated about) -/

structure LNode where
  labels : List Str
  props : List (Str × PV)
deriving Repr

structure LEdge where
  src : Nat          -- rank of the source node
  tgt : Nat
  ty : Str
  props : List (Str × PV)
deriving Repr

structure LG where
  nodes : List LNode
  edges : List LEdge
  hier : List HierS
deriving Repr

def nonNull (l : List (Str × PV)) : List (Str × PV) := l.filter (fun kv => !kv.2.isNull)

/-- `GraphStore::node_properties_merged`: the column wins, the row supplies the rest -/
def mergedView (n : NodeS) : List (Str × PV) :=
  nonNull n.col ++ n.row.filter (fun kv => !(keys (nonNull n.col)).contains kv.1)

def rank (ids : List Nat) (id : Nat) : Nat := ids.idxOf id

def nodeIds (st : St) : List Nat := st.nodes.map (·.id)

def logical (st : St) : LG :=
  { nodes := st.nodes.map (fun n => { labels := n.labels, props := mergedView n }),
    edges := st.edges.map (fun e =>
      { src := rank (nodeIds st) e.src, tgt := rank (nodeIds st) e.tgt, ty := e.ty, props := e.props }),
    hier := st.hier }

/-! ### line records -/

inductive Line where
  | node (id : Nat) (labels : List Str) (props : List (Str × J))
  | edge (id src tgt : Nat) (ty : Str) (props : List (Str × J))
  | hier (h : HierS)
  | skip           -- well-formed JSON whose `t` is absent or of an unknown kind
  | bad            -- not JSON, wrong field types, or the reader failed (gzip / io error)
deriving Repr

def kT : Str := [116]                                     -- "t"
def kId : Str := [105, 100]                               -- "id"
def kLabels : Str := [108, 97, 98, 101, 108, 115]         -- "labels"
def kProps : Str := [112, 114, 111, 112, 115]             -- "props"
def kSrc : Str := [115, 114, 99]                          -- "src"
def kTgt : Str := [116, 103, 116]                         -- "tgt"
def kTy : Str := [116, 121, 112, 101]                     -- "type"
def kName : Str := [110, 97, 109, 101]                    -- "name"
def kEdgeTypes : Str := [101, 100, 103, 101, 95, 116, 121, 112, 101, 115]   -- "edge_types"
def kReverse : Str := [114, 101, 118, 101, 114, 115, 101]                   -- "reverse"
def kMLabel : Str := [109, 101, 97, 115, 117, 114, 101, 95, 108, 97, 98, 101, 108]
def kMProp : Str :=
  [109, 101, 97, 115, 117, 114, 101, 95, 112, 114, 111, 112, 101, 114, 116, 121]
def kOps : Str := [111, 112, 115]                         -- "ops"
def sN : Str := [110]
def sE : Str := [101]
def sH : Str := [104]

def optStrJ : Option Str → J
  | some s => .str s
  | none => .null

/-- what serde's derive writes for the three record types (field order of the structs) -/
def lineToJ : Line → J
  | .node id labels props =>
      .obj [(kT, .str sN), (kId, .int id), (kLabels, .arr (labels.map J.str)), (kProps, .obj props)]
  | .edge id src tgt ty props =>
      .obj [(kT, .str sE), (kId, .int id), (kSrc, .int src), (kTgt, .int tgt), (kTy, .str ty),
            (kProps, .obj props)]
  | .hier h =>
      .obj [(kT, .str sH), (kName, .str h.name), (kEdgeTypes, .arr (h.types.map J.str)),
            (kReverse, .bool h.reverse), (kMLabel, optStrJ h.mlabel), (kMProp, optStrJ h.mprop),
            (kOps, .arr (h.ops.map J.str))]
  | .skip => .obj []
  | .bad => .null

def strList : List J → Option (List Str)
  | [] => some []
  | .str s :: r => (strList r).map (s :: ·)
  | _ :: _ => none

def getU64 (k : Str) (kvs : List (Str × J)) : Option Nat :=
  match lookup k kvs with
  | some (.int i) => if 0 ≤ i then some i.toNat else none
  | _ => none

def getStr (k : Str) (kvs : List (Str × J)) : Option Str :=
  match lookup k kvs with
  | some (.str s) => some s
  | _ => none

def getStrList (k : Str) (kvs : List (Str × J)) : Option (List Str) :=
  match lookup k kvs with
  | some (.arr l) => strList l
  | _ => none

def getObj (k : Str) (kvs : List (Str × J)) : Option (List (Str × J)) :=
  match lookup k kvs with
  | some (.obj o) => some o
  | _ => none

/-- `Option<String>` with `#[serde(default)]`: absent or null is `None`, a non-string fails -/
def getOptStr (k : Str) (kvs : List (Str × J)) : Option (Option Str) :=
  match lookup k kvs with
  | none => some none
  | some .null => some none
  | some (.str s) => some (some s)
  | some _ => none

def getBoolD (k : Str) (kvs : List (Str × J)) : Option Bool :=
  match lookup k kvs with
  | none => some false
  | some (.bool b) => some b
  | some _ => none

def getStrListD (k : Str) (kvs : List (Str × J)) : Option (List Str) :=
  match lookup k kvs with
  | none => some []
  | some (.arr l) => strList l
  | some _ => none

def decodeNode (kvs : List (Str × J)) : Line :=
  match getU64 kId kvs, getStrList kLabels kvs, getObj kProps kvs with
  | some id, some ls, some ps => .node id ls ps
  | _, _, _ => .bad

def decodeEdge (kvs : List (Str × J)) : Line :=
  match getU64 kId kvs, getU64 kSrc kvs, getU64 kTgt kvs, getStr kTy kvs, getObj kProps kvs with
  | some id, some s, some t, some ty, some ps => .edge id s t ty ps
  | _, _, _, _, _ => .bad

def decodeHier (kvs : List (Str × J)) : Line :=
  match getStr kName kvs, getStrList kEdgeTypes kvs, getBoolD kReverse kvs,
        getOptStr kMLabel kvs, getOptStr kMProp kvs, getStrListD kOps kvs with
  | some n, some ts, some r, some ml, some mp, some ops =>
      .hier { name := n, types := ts, reverse := r, mlabel := ml, mprop := mp, ops := ops }
  | _, _, _, _, _, _ => .bad

/-- Routing (repaired code): the line is parsed and its *top-level* `t` decides. -/
def parseLine : J → Line
  | .obj kvs =>
      match lookup kT kvs with
      | some (.str t) =>
          if t == sN then decodeNode kvs
          else if t == sH then decodeHier kvs
          else if t == sE then decodeEdge kvs
          else .skip
      | some _ => .bad          -- `t` present but not a string: the typed read fails
      | none => .skip
  | _ => .bad

/-! #### the pinned tree routed on the *text* of the line -/

def digits (n : Nat) : Str := (Nat.toDigits 10 n).map Char.toNat

def renderStr (s : Str) : Str :=
  34 :: (s.flatMap (fun c => if c == 34 then [92, 34] else if c == 92 then [92, 92] else [c])) ++ [34]

mutual
/-- compact JSON text as serde_json writes it (floats abstracted to `0.0`: they contain no
quote, which is all the routing looks at) -/
def render : J → Str
  | .null => [110, 117, 108, 108]
  | .bool true => [116, 114, 117, 101]
  | .bool false => [102, 97, 108, 115, 101]
  | .int i => if i < 0 then 45 :: digits i.natAbs else digits i.toNat
  | .flt _ => [48, 46, 48]
  | .str s => renderStr s
  | .arr l => 91 :: renderL l ++ [93]
  | .obj kvs => 123 :: renderKV kvs ++ [125]
def renderL : List J → Str
  | [] => []
  | [v] => render v
  | v :: r => render v ++ 44 :: renderL r
def renderKV : List (Str × J) → Str
  | [] => []
  | [(k, v)] => renderStr k ++ 58 :: render v
  | (k, v) :: r => renderStr k ++ 58 :: render v ++ 44 :: renderKV r
end

def isPrefix : Str → Str → Bool
  | [], _ => true
  | _ :: _, [] => false
  | a :: p, b :: t => a == b && isPrefix p t

def isInfix (p : Str) : Str → Bool
  | [] => p.isEmpty
  | c :: t => isPrefix p (c :: t) || isInfix p t

inductive Kind where
  | node | hier | edge | skip
deriving DecidableEq, Repr

def patN : Str := [34, 116, 34, 58, 34, 110, 34]     -- "t":"n"
def patH : Str := [34, 116, 34, 58, 34, 104, 34]
def patE : Str := [34, 116, 34, 58, 34, 101, 34]

/-- `line.contains("\"t\":\"n\"")` … of the pinned tree -/
def classifyLegacy (text : Str) : Kind :=
  if isInfix patN text then .node
  else if isInfix patH text then .hier
  else if isInfix patE text then .edge
  else .skip

def Line.kind : Line → Kind
  | .node .. => .node
  | .hier .. => .hier
  | .edge .. => .edge
  | _ => .skip

/-! ### export -/

/-- pinned tree: the property map the exporter wrote for a node — row value where the row has
the key, otherwise the non-null column value ("row first, then columns not already present").
On a clash this is the *superseded* copy: every read path (`node_properties_merged`,
`resolve_property`) lets the column win. -/
def exportPropsLegacy (row col : List (Str × PV)) : List (Str × PV) :=
  (nonNull col).map (fun kv => (kv.1, (lookup kv.1 row).getD kv.2))
    ++ row.filter (fun kv => !(keys (nonNull col)).contains kv.1)

/-- the property map the exporter writes for a node.  Repaired code: exactly what the read
paths resolve — the column wins, the row supplies the rest. -/
def exportProps (lg : Bool) (row col : List (Str × PV)) : List (Str × PV) :=
  if lg then exportPropsLegacy row col
  else nonNull col ++ row.filter (fun kv => !(keys (nonNull col)).contains kv.1)

def hierLine (h : HierS) : Line := .hier h

/-- legacy: `reverse`, `measure_label` were not exported (written as `false` / `null`) -/
def hierLineLegacy (h : HierS) : Line := .hier { h with reverse := false, mlabel := none }

def nodeLines (lg : Bool) (n : NodeS) : List Line :=
  (if lg then n.hist.map (fun r => Line.node n.id n.labels (encKV lg (exportProps lg r n.col))) else [])
    ++ [Line.node n.id n.labels (encKV lg (exportProps lg n.row n.col))]

def edgeLine (lg : Bool) (e : EdgeS) : Line := .edge e.id e.src e.tgt e.ty (encKV lg e.props)

/-- `export_tenant_with_compression` (after the header): hierarchy declarations, nodes in id
order, relationships in id order -/
def exportLines (lg : Bool) (st : St) : List Line :=
  st.hier.map (if lg then hierLineLegacy else hierLine)
    ++ st.nodes.flatMap (nodeLines lg) ++ st.edges.map (edgeLine lg)

def exportJ (lg : Bool) (st : St) : List J := (exportLines lg st).map lineToJ

/-! ### import -/

/-- reversible effects of the merge path on nodes that existed before the import -/
inductive Undo where
  | col (id : Nat) (k : Str)          -- a column value was added
  | row (id : Nat) (k : Str)          -- a row value was added
  | label (id : Nat) (l : Str)        -- a label was added
  | edge (eid : Nat)                  -- a relationship between two pre-existing nodes
deriving Repr

structure Imp where
  st : St
  remap : List (Nat × Nat) := []                       -- snapshot id ↦ store id, newest first
  dedup : List ((Str × Str × Str) × Nat) := []         -- (label, key, normalised value) ↦ id
  created : List Nat := []                             -- newest first
  journal : List Undo := []                            -- newest first
  hier : List HierS := []                              -- deferred declarations (reverse order)
  nNodes : Nat := 0
  nEdges : Nat := 0
  nMerged : Nat := 0
deriving Repr

def lookupNat {α : Type} (k : Nat) : List (Nat × α) → Option α
  | [] => none
  | (k', v) :: r => if k' == k then some v else lookupNat k r

def lookupKey3 (k : Str × Str × Str) : List ((Str × Str × Str) × Nat) → Option Nat
  | [] => none
  | (k', v) :: r => if k' == k then some v else lookupKey3 k r

def toLower (c : Nat) : Nat := if 65 ≤ c && c ≤ 90 then c + 32 else c
/-- `s.trim().to_lowercase()` (ASCII part) -/
def normDedup (s : Str) : Str := (trim s).map toLower

def intText (i : Int) : Str := if i < 0 then 45 :: digits i.natAbs else digits i.toNat

/-- the text under which a snapshot value is looked up in the dedup index -/
def dedupValJ : J → Option Str
  | .str s => some (normDedup s)
  | .int i => some (intText i)
  | _ => none          -- (a non-integer number is indexed by its decimal text: not modelled)

def dedupValPV : PV → Option Str
  | .str s => some (normDedup s)
  | .int i => some (intText i)
  | _ => none

def updNode (id : Nat) (f : NodeS → NodeS) (st : St) : St :=
  { st with nodes := st.nodes.map (fun n => if n.id == id then f n else n) }

def getNode (id : Nat) (st : St) : Option NodeS := st.nodes.find? (fun n => n.id == id)

def lidxInsert (l : Str) (id : Nat) : List (Str × List Nat) → List (Str × List Nat)
  | [] => [(l, [id])]
  | (l', ids) :: r =>
      if l' == l then (l', if ids.contains id then ids else ids ++ [id]) :: r
      else (l', ids) :: lidxInsert l id r

def lidxRemove (l : Str) (id : Nat) : List (Str × List Nat) → List (Str × List Nat)
  | [] => []
  | (l', ids) :: r =>
      if l' == l then
        (if (ids.erase id).isEmpty then r else (l', ids.erase id) :: r)
      else (l', ids) :: lidxRemove l id r

def setKV (k : Str) (v : PV) (l : List (Str × PV)) : List (Str × PV) :=
  if (keys l).contains k then l.map (fun kv => if kv.1 == k then (k, v) else kv) else l ++ [(k, v)]

def eraseKV (k : Str) (l : List (Str × PV)) : List (Str × PV) := l.filter (fun kv => !(kv.1 == k))

/-- `set_column_property` (a `Null` clears the cell) -/
def colSet (k : Str) (v : PV) (l : List (Str × PV)) : List (Str × PV) :=
  if v.isNull then eraseKV k l else setKV k v l

/-- `create_node_stub(first)` + the remaining labels.
legacy: an unlabelled record becomes a node labelled `""`, and only the first label reaches
the label index (`node.add_label`). -/
def createNode (lg : Bool) (labels : List Str) (props : List (Str × PV)) (st : St) : St × Nat :=
  let id := st.nextNode
  let labels' := if lg && labels.isEmpty then [[]] else labels
  let indexed := if lg then labels'.take 1 else labels'
  let n : NodeS :=
    { id := id, labels := labels', col := nonNull props,
      row := props.filter (fun kv => !kv.2.isScalar) }
  ({ st with nodes := st.nodes ++ [n],
             lidx := indexed.foldl (fun ix l => lidxInsert l id ix) st.lidx,
             nextNode := id + 1 }, id)

def createEdge (src tgt : Nat) (ty : Str) (props : List (Str × PV)) (st : St) : St × Nat :=
  let id := st.nextEdge
  ({ st with edges := st.edges ++ [{ id := id, src := src, tgt := tgt, ty := ty, props := props }],
             nextEdge := id + 1 }, id)

/-- `delete_node`: the node, its label-index entries, every attached relationship -/
def deleteNode (id : Nat) (st : St) : St :=
  match getNode id st with
  | none => st
  | some n =>
    { st with nodes := st.nodes.filter (fun m => !(m.id == id)),
              edges := st.edges.filter (fun e => !(e.src == id) && !(e.tgt == id)),
              lidx := n.labels.foldl (fun ix l => lidxRemove l id ix) st.lidx }

def snapLabels (labels : List Str) : List Str := if labels.isEmpty then [[]] else labels

/-- the first (key, label) of the record that hits the dedup index -/
def findExisting (dedup : List ((Str × Str × Str) × Nat)) (labels : List Str)
    (props : List (Str × J)) : List Str → Option Nat
  | [] => none
  | key :: rest =>
      match (lookup key props).bind dedupValJ with
      | some v =>
          (match (snapLabels labels).findSome? (fun l => lookupKey3 (l, key, v) dedup) with
           | some id => some id
           | none => findExisting dedup labels props rest)
      | none => findExisting dedup labels props rest

def registerDedup (dedup : List ((Str × Str × Str) × Nat)) (labels : List Str)
    (props : List (Str × J)) (id : Nat) (ks : List Str) : List ((Str × Str × Str) × Nat) :=
  ks.foldl (fun d key =>
    match (lookup key props).bind dedupValJ with
    | some v => (snapLabels labels).foldl (fun d l => ((l, key, v), id) :: d) d
    | none => d) dedup

/-- merge one property into an existing node ("additive only"); journals what it adds when
`jr` (repaired code) -/
def mergeProp (jr : Bool) (id : Nat) (s : St × List Undo) (kv : Str × PV) : St × List Undo :=
  match getNode id s.1 with
  | none => s
  | some n =>
    let colAbsent := !(keys n.col).contains kv.1
    let rowAbsent := !(keys n.row).contains kv.1
    let addCol := colAbsent && !kv.2.isNull
    let addRow := !kv.2.isScalar && rowAbsent
    let st1 := if addCol then updNode id (fun m => { m with col := m.col ++ [kv] }) s.1 else s.1
    let st2 := if addRow then updNode id (fun m => { m with row := m.row ++ [kv] }) st1 else st1
    let j1 := if jr && addCol then Undo.col id kv.1 :: s.2 else s.2
    let j2 := if jr && addRow then Undo.row id kv.1 :: j1 else j1
    (st2, j2)

def mergeLabel (lg jr : Bool) (id : Nat) (s : St × List Undo) (l : Str) : St × List Undo :=
  match getNode id s.1 with
  | none => s
  | some n =>
    if n.labels.contains l then s
    else
      let st1 := updNode id (fun m => { m with labels := m.labels ++ [l] }) s.1
      let st2 := if lg then st1 else { st1 with lidx := lidxInsert l id st1.lidx }
      (st2, if jr then Undo.label id l :: s.2 else s.2)

/-- One line of the snapshot body.  `lg` = the pinned tree's codec / labelling; `jr` = the
merge path keeps an undo journal (repaired code). -/
def stepLine (lg jr : Bool) (ks : List Str) (s : Imp) : Line → Option Imp
  | .bad => none
  | .skip => some s
  | .hier h => some { s with hier := h :: s.hier }
  | .node id labels props =>
      match findExisting s.dedup labels props ks with
      | some eid =>
          let pvs := decKV lg props
          -- only writes to nodes that existed before the import are journalled: a node this
          -- import created is deleted whole by the rollback
          let jr' := jr && !s.created.contains eid
          let r1 := pvs.foldl (mergeProp jr' eid) (s.st, s.journal)
          let r2 := labels.foldl (mergeLabel lg jr' eid) r1
          some { s with st := r2.1, journal := r2.2, remap := (id, eid) :: s.remap,
                        nMerged := s.nMerged + 1 }
      | none =>
          let (st', nid) := createNode lg labels (decKV lg props) s.st
          some { s with st := st', created := nid :: s.created,
                        dedup := registerDedup s.dedup labels props nid ks,
                        remap := (id, nid) :: s.remap, nNodes := s.nNodes + 1 }
  | .edge _ src tgt ty props =>
      match lookupNat src s.remap, lookupNat tgt s.remap with
      | some a, some b =>
          let (st', eid) := createEdge a b ty (decKV lg props) s.st
          let pre := !s.created.contains a && !s.created.contains b
          some { s with st := st', nEdges := s.nEdges + 1,
                        journal := if jr && pre then Undo.edge eid :: s.journal else s.journal }
      | _, _ => none

def undo1 (st : St) : Undo → St
  | .col id k => updNode id (fun m => { m with col := eraseKV k m.col }) st
  | .row id k => updNode id (fun m => { m with row := eraseKV k m.row }) st
  | .label id l =>
      { updNode id (fun m => { m with labels := m.labels.filter (fun x => !(x == l)) }) st with
        lidx := lidxRemove l id st.lidx }
  | .edge eid => { st with edges := st.edges.filter (fun e => !(e.id == eid)) }

/-- error path of `import_tenant_with_dedup`: undo the journal newest-first, then delete the
created nodes newest-first -/
def rollback (s : Imp) : St :=
  s.created.foldl (fun st id => deleteNode id st) (s.journal.foldl undo1 s.st)

/-- pre-population of the dedup index from the store, for the labels the header lists -/
def prepopulate (ks : List Str) (hdrLabels : List Str) (st : St) :
    List ((Str × Str × Str) × Nat) :=
  hdrLabels.foldl (fun d l =>
    ((lookup l st.lidx).getD []).foldl (fun d id =>
      match getNode id st with
      | none => d
      | some n =>
        ks.foldl (fun d key =>
          -- the column is consulted after the row; a row value of another type skips the key
          let colPart (d1 : List ((Str × Str × Str) × Nat)) :=
            match lookup key n.col with
            | some (.str s) => if s.isEmpty then d1 else ((l, key, normDedup s), id) :: d1
            | some (.int i) => ((l, key, intText i), id) :: d1
            | _ => d1
          match lookup key n.row with
          | some v =>
              (match dedupValPV v with
               | some t => colPart (((l, key, t), id) :: d)
               | none => d)
          | none => colPart d) d) d) []

def foldLines (lg jr : Bool) (ks : List Str) : Imp → List Line → Imp × Bool
  | s, [] => (s, true)
  | s, l :: r =>
      match stepLine lg jr ks s l with
      | some s' => foldLines lg jr ks s' r
      | none => (s, false)

def sSum : Str := [115, 117, 109]
def sCount : Str := [99, 111, 117, 110, 116]
def sMin : Str := [109, 105, 110]
def sMax : Str := [109, 97, 120]

/-- `RollupOp::parse` followed by `RollupOp::name` -/
def parseOp (s : Str) : Option Str :=
  let t := s.map toLower
  if t == sSum then some sSum else if t == sCount then some sCount
  else if t == sMin then some sMin else if t == sMax then some sMax else none

/-- the `HierarchySpec` the importer builds from a declaration: without a measure property
the label and the ops are ignored (`ops = [count]`); with one, unknown ops are dropped and
an empty list means `[sum]` -/
def normHier (h : HierS) : HierS :=
  match h.mprop with
  | none => { h with mlabel := none, ops := [sCount] }
  | some _ =>
      let o := h.ops.filterMap parseOp
      { h with ops := if o.isEmpty then [sSum] else o }

/-- hierarchy declarations are created after the body; a duplicate name is skipped -/
def addHier (st : St) (decls : List HierS) : St × Nat :=
  decls.foldl (fun (acc : St × Nat) h =>
    if (acc.1.hier.map (·.name)).contains h.name then acc
    else ({ acc.1 with hier := acc.1.hier ++ [normHier h] }, acc.2 + 1)) (st, 0)

structure Stats where
  nodes : Nat
  edges : Nat
  merged : Nat
  hier : Nat
deriving Repr, DecidableEq

/-- `import_tenant_with_dedup` on the body lines (header already accepted): the resulting
store and `some stats` on success, the rolled-back store and `none` on failure. -/
def importLines (lg jr : Bool) (ks hdrLabels : List Str) (st : St) (lines : List Line) :
    St × Option Stats :=
  let s0 : Imp := { st := st, dedup := if ks.isEmpty then [] else prepopulate ks hdrLabels st }
  match foldLines lg jr ks s0 lines with
  | (s, true) =>
      let (st', nh) := addHier s.st s.hier.reverse
      (st', some { nodes := s.nNodes, edges := s.nEdges, merged := s.nMerged, hier := nh })
  | (s, false) => (rollback s, none)

def importJ (lg jr : Bool) (ks hdrLabels : List Str) (st : St) (js : List J) : St × Option Stats :=
  importLines lg jr ks hdrLabels st (js.map parseLine)

/-! ### executable specification, phrased on observations (dumps of real stores) -/

def propsEqv (a b : List (Str × PV)) : Bool :=
  a.length == b.length && a.all (fun kv => b.any (fun kw => kv.1 == kw.1 && PV.beq kv.2 kw.2))

def setEqv (a b : List Str) : Bool := a.length == b.length && a.all (fun x => b.contains x)

def nodeEqv (a b : LNode) : Bool := setEqv a.labels b.labels && propsEqv a.props b.props

def edgeEqv (a b : LEdge) : Bool :=
  a.src == b.src && a.tgt == b.tgt && a.ty == b.ty && propsEqv a.props b.props

def nodesEqv : List LNode → List LNode → Bool
  | [], [] => true
  | a :: as, b :: bs => nodeEqv a b && nodesEqv as bs
  | _, _ => false

/-- multiset equality by greedy matching -/
def matchAll {α : Type} (eqv : α → α → Bool) : List α → List α → Bool
  | [], ys => ys.isEmpty
  | x :: xs, ys =>
      match ys.findIdx? (eqv x) with
      | some i => matchAll eqv xs (ys.eraseIdx i)
      | none => false

def hierEqv (a b : HierS) : Bool :=
  a.name == b.name && setEqv a.types b.types && a.reverse == b.reverse && a.mlabel == b.mlabel
    && a.mprop == b.mprop && setEqv a.ops b.ops

def lgEqv (a b : LG) : Bool :=
  nodesEqv a.nodes b.nodes && matchAll edgeEqv a.edges b.edges && matchAll hierEqv a.hier b.hier

/-- the label index lists exactly the nodes carrying each label -/
def lidxOk (st : St) : Bool :=
  st.nodes.all (fun n => n.labels.all (fun l => ((lookup l st.lidx).getD []).contains n.id))
  && st.lidx.all (fun e => e.2.all (fun id =>
        match getNode id st with
        | some n => n.labels.contains e.1
        | none => false))

/-- C12: exporting `src` and importing into an empty store gave `dst` -/
def specRoundTrip (src dst : St) : Bool := lgEqv (logical src) (logical dst) && lidxOk dst

/-- the abstract effect of a successful import (no journal, no rollback) -/
def mergeSpec (ks hdrLabels : List Str) (pre : St) (lines : List Line) : Option St :=
  match importLines false false ks hdrLabels pre lines with
  | (st, some _) => some st
  | (_, none) => none

/-- C13: `pre` is the store before, `post` after, `ok` whether the import returned `Ok` -/
def specImport (ks hdrLabels : List Str) (pre : St) (lines : List Line) (ok : Bool) (post : St) :
    Bool :=
  if ok then
    match mergeSpec ks hdrLabels pre lines with
    | some want => lgEqv (logical want) (logical post) && lidxOk post
    | none => false
  else lgEqv (logical pre) (logical post) && lidxOk post

end SgModel.SnapJson
