/-!
# Cy — values of the Cypher reference semantics (layer 1 of 5)

`Atom` is a scalar (or an entity reference), `Val` is an atom or a list of atoms.  The
fragment has no nested lists and no maps, so the value type is *not* a nested inductive
and `DecidableEq` is derived (everything below reduces in the kernel, `decide` works).

Floats are **exact dyadic rationals** `num / 2^k` (every finite `f64` is one); the model
never rounds: an arithmetic result that is not exactly representable as an `f64`
(`Dy.isF64 = false`) makes evaluation stop with `Err.unspecified`, and the harness drops
the case.  On the remaining cases IEEE-754 arithmetic is exact, so the engine's `f64`
result must be the same rational.  Int↔float comparison is *mathematically exact*
(openCypher), not `i64 as f64`.

Three layers of "sameness", as openCypher has them:
* `eq3`     — the `=` operator, three-valued (`none` = unknown);
* `cmp3`    — comparability for `< <= > >=` (`none` = incomparable ⇒ null);
* `ordCmp`  — orderability for `ORDER BY` (a total preorder over all values);
* `equiv`   — equivalence for `DISTINCT` / grouping (null ≡ null).
-/
namespace SgModel.Cy

/-- errors of the reference evaluator -/
inductive Err where
  /-- a Cypher type error (e.g. `1 + true`) -/
  | type
  /-- integer overflow, division by zero -/
  | arith
  /-- a variable that is not in scope -/
  | unbound
  /-- outside the fragment the model defines (inexact float, list-vs-list `<`, int/float
      twins under DISTINCT, …): the harness does not compare such a case -/
  | unspecified
deriving DecidableEq, Repr, Inhabited

inductive Atom where
  | null
  | bool (b : Bool)
  | int (i : Int)
  /-- the rational `num / 2^k` -/
  | flt (num : Int) (k : Nat)
  | str (s : List Char)
  | node (id : Nat)
  | rel (id : Nat)
deriving DecidableEq, Repr, Inhabited

inductive Val where
  | atom (a : Atom)
  | list (l : List Atom)
deriving DecidableEq, Repr, Inhabited

namespace Val
@[match_pattern] abbrev null : Val := .atom .null
@[match_pattern] abbrev bool (b : Bool) : Val := .atom (.bool b)
@[match_pattern] abbrev int (i : Int) : Val := .atom (.int i)
@[match_pattern] abbrev flt (n : Int) (k : Nat) : Val := .atom (.flt n k)
@[match_pattern] abbrev str (s : List Char) : Val := .atom (.str s)
@[match_pattern] abbrev node (i : Nat) : Val := .atom (.node i)
@[match_pattern] abbrev rel (i : Nat) : Val := .atom (.rel i)
end Val

/-! ## i64 and exact f64 -/

def i64Min : Int := -9223372036854775808
def i64Max : Int := 9223372036854775807
def inI64 (i : Int) : Bool := decide (i64Min ≤ i) && decide (i ≤ i64Max)

/-- checked integer result -/
def ckInt (i : Int) : Except Err Val := if inI64 i then .ok (.int i) else .error .arith

/-- strip common factors of two: `num / 2^k` with `k = 0` or `num` odd (fuel = k) -/
def dyNorm : Int → Nat → Int × Nat
  | n, 0 => (n, 0)
  | n, k + 1 => if n % 2 == 0 then dyNorm (n / 2) k else (n, k + 1)

/-- the odd part of a natural (fuel-bounded; fuel = the number itself is plenty) -/
def oddPart : Nat → Nat → Nat
  | 0, n => n
  | f + 1, n => if n != 0 && n % 2 == 0 then oddPart f (n / 2) else n

/-- exactly representable as a finite `f64` of moderate magnitude: at most 53 significant
bits, at most 1000 fractional bits, and magnitude below 2^200 (no overflow anywhere near) -/
def isF64 (n : Int) (k : Nat) : Bool :=
  let m := n.natAbs
  decide (oddPart 256 m < 9007199254740992) && decide (k ≤ 1000) && decide (m < 2 ^ 200)

def ckFlt (n : Int) (k : Nat) : Except Err Val :=
  let (n', k') := dyNorm n k
  if isF64 n' k' then .ok (.flt n' k') else .error .unspecified

/-- numeric view of an atom as a dyadic rational -/
def Atom.num? : Atom → Option (Int × Nat)
  | .int i => some (i, 0)
  | .flt n k => some (n, k)
  | _ => none

/-- exact comparison of `a/2^ka` and `b/2^kb` -/
def dyCmp (a : Int) (ka : Nat) (b : Int) (kb : Nat) : Ordering :=
  compare (a * 2 ^ kb) (b * 2 ^ ka)

/-! ## strings -/

def cmpChars : List Char → List Char → Ordering
  | [], [] => .eq
  | [], _ :: _ => .lt
  | _ :: _, [] => .gt
  | a :: as, b :: bs =>
    if a.toNat < b.toNat then .lt else if b.toNat < a.toNat then .gt else cmpChars as bs

def isInfix : List Char → List Char → Bool
  | p, [] => p.isEmpty
  | p, s@(_ :: t) => p.isPrefixOf s || isInfix p t

/-! ## `=` : three-valued equality -/

def Atom.eq3 : Atom → Atom → Option Bool
  | .null, _ => none
  | _, .null => none
  | .bool a, .bool b => some (a == b)
  | .str a, .str b => some (a == b)
  | .node a, .node b => some (a == b)
  | .rel a, .rel b => some (a == b)
  | a, b =>
    match a.num?, b.num? with
    | some (x, kx), some (y, ky) => some (dyCmp x kx y ky == .eq)
    | _, _ => some false

/-- element-wise; one definite difference decides, otherwise unknown if any element is -/
def eq3List : List Atom → List Atom → Option Bool
  | [], [] => some true
  | a :: as, b :: bs =>
    match Atom.eq3 a b, eq3List as bs with
    | some false, _ => some false
    | _, some false => some false
    | some true, some true => some true
    | _, _ => none
  | _, _ => some false

def Val.eq3 : Val → Val → Option Bool
  | .atom .null, _ => none
  | _, .atom .null => none
  | .atom a, .atom b => Atom.eq3 a b
  | .list a, .list b => eq3List a b
  | _, _ => some false

/-! ## `<` : comparability -/

/-- `none` = incomparable (the comparison is null) -/
def Atom.cmp3 : Atom → Atom → Option Ordering
  | .bool a, .bool b => some (compare a.toNat b.toNat)
  | .str a, .str b => some (cmpChars a b)
  | a, b =>
    match a.num?, b.num? with
    | some (x, kx), some (y, ky) => some (dyCmp x kx y ky)
    | _, _ => none

/-- list-vs-list ordering comparisons are outside the fragment -/
def Val.cmp3 : Val → Val → Except Err (Option Ordering)
  | .atom a, .atom b => .ok (Atom.cmp3 a b)
  | .list _, .list _ => .error .unspecified
  | _, _ => .ok none

/-! ## `ORDER BY` : orderability (total preorder; ascending) -/

/-- Map < Node < Relationship < List < Path < String < Boolean < Number < null -/
def Atom.rank : Atom → Nat
  | .node _ => 1
  | .rel _ => 2
  | .str _ => 5
  | .bool _ => 6
  | .int _ => 7
  | .flt _ _ => 7
  | .null => 9

def Atom.ordCmp (a b : Atom) : Ordering :=
  if a.rank != b.rank then compare a.rank b.rank else
  match a, b with
  | .node x, .node y => compare x y
  | .rel x, .rel y => compare x y
  | .str x, .str y => cmpChars x y
  | .bool x, .bool y => compare x.toNat y.toNat
  | x, y =>
    match x.num?, y.num? with
    | some (p, kp), some (q, kq) => dyCmp p kp q kq
    | _, _ => .eq

def ordCmpList : List Atom → List Atom → Ordering
  | [], [] => .eq
  | [], _ :: _ => .lt
  | _ :: _, [] => .gt
  | a :: as, b :: bs =>
    match Atom.ordCmp a b with
    | .eq => ordCmpList as bs
    | o => o

def Val.ordCmp : Val → Val → Ordering
  | .atom a, .atom b => Atom.ordCmp a b
  | .list a, .list b => ordCmpList a b
  | .list _, .atom a => compare 3 a.rank
  | .atom a, .list _ => compare a.rank 3

/-! ## `DISTINCT` / grouping: equivalence

Two values are the same group iff they are structurally equal (floats are kept
normalised, so structural equality is numeric equality within one type).  An integer and
a float with the same numeric value (`1` and `1.0`) are "twins": whether they group
together is answered differently by different openCypher implementations, so the model
does not define it (`Err.unspecified`) — see `twinFree`. -/

def Atom.twin (a b : Atom) : Bool :=
  match a, b with
  | .int x, .flt n k => dyCmp x 0 n k == .eq
  | .flt n k, .int x => dyCmp x 0 n k == .eq
  | _, _ => false

def Val.atoms : Val → List Atom
  | .atom a => [a]
  | .list l => l

/-- no integer/float twins among the given values -/
def twinFree (vs : List Val) : Bool :=
  let as := vs.flatMap Val.atoms
  as.all fun a => as.all fun b => !Atom.twin a b

/-! ## three-valued logic -/

/-- truth value of a `Val`: `some none` = null, `none` = not a boolean (type error) -/
def Val.tv? : Val → Option (Option Bool)
  | .atom .null => some none
  | .atom (.bool b) => some (some b)
  | _ => none

def ofTv : Option Bool → Val
  | none => .null
  | some b => .bool b

def and3 : Option Bool → Option Bool → Option Bool
  | some false, _ => some false
  | _, some false => some false
  | some true, some true => some true
  | _, _ => none

def or3 : Option Bool → Option Bool → Option Bool
  | some true, _ => some true
  | _, some true => some true
  | some false, some false => some false
  | _, _ => none

def xor3 : Option Bool → Option Bool → Option Bool
  | some a, some b => some (a != b)
  | _, _ => none

def not3 : Option Bool → Option Bool
  | some b => some !b
  | none => none

end SgModel.Cy
