/-
Model of the MVCC transaction API of `src/graph/store.rs` (C09):
`begin_transaction`, `txn_write_node`, `txn_write_edge`, `commit_transaction`,
`abort_transaction`, `gc_versions` (the part that forgets finished transactions),
`gc_watermark`/`gc_auto`, and the read version chosen by `get_*_for_txn`.
Import-free (the driver links against it).

Two machines over the same operations:

* `I` (`step`) mirrors the code: conflict detection looks each written entity up in the two
  `*_last_commit` maps and compares the stored version with the transaction's
  `start_version`.
* `S` (`AState`, `astep`) is the abstract first-committer-wins machine of the property: a
  global log of `(commit version, writer, write set)`; `commit t` fails exactly when some
  entry appended to the log *after `t` began* (position in the log, no version arithmetic)
  intersects the write set of `t`.

The bookkeeping that both share (transaction table, version counter, id allocation) is
`Core`/`coreStep`, parameterised by the conflict test.  `Props/C09.lean` proves that the
two machines produce the same outputs on every history.
-/
namespace SgModel.Txn

inductive Iso where
  | rc   -- IsolationLevel::ReadCommitted
  | si   -- IsolationLevel::SnapshotIsolation
deriving DecidableEq, Repr

inductive Status where
  | active | committed | aborted
deriving DecidableEq, Repr

/-- `Transaction` of store.rs (`commit_version` is kept; the two write sets are sets) -/
structure Txn where
  id : Nat
  iso : Iso
  status : Status
  start : Nat
  commitV : Option Nat := none
  nodeW : List Nat := []
  edgeW : List Nat := []
deriving DecidableEq, Repr

/-- the part of `GraphStore` both machines share: `current_version`, `next_txn_id`,
`active_transactions` (a map keyed by id: here a list with distinct ids) -/
structure Core where
  cur : Nat := 1
  nextId : Nat := 1
  txns : List Txn := []
deriving DecidableEq, Repr

inductive Op where
  | begin (iso : Iso)                  -- begin_transaction
  | writeNode (t n : Nat)              -- txn_write_node
  | writeEdge (t e : Nat)              -- txn_write_edge
  | commit (t : Nat)                   -- commit_transaction
  | abort (t : Nat)                    -- abort_transaction
  | bump                               -- store.current_version += 1 (public field)
  | gc (w : Option Nat)                -- gc_versions(w) / gc_auto() for `none`
deriving DecidableEq, Repr

inductive Out where
  | began (id : Nat)
  | unit
  | committed (v : Nat)                -- Ok(commit_version)
  | conflict                           -- Err(WriteConflict)
  | notFound                           -- Err(TransactionNotFound)
  | notActive                          -- Err(TransactionNotActive)
  | aborted                            -- Ok(())
deriving DecidableEq, Repr

def addSet (l : List Nat) (x : Nat) : List Nat := if l.contains x then l else l ++ [x]

def findTxn (c : Core) (t : Nat) : Option Txn := c.txns.find? (fun x => x.id == t)

def setTxn (c : Core) (t : Nat) (f : Txn → Txn) : Core :=
  { c with txns := c.txns.map (fun x => if x.id == t then f x else x) }

def minList : List Nat → Option Nat
  | [] => none
  | x :: rest => match minList rest with
    | none => some x
    | some m => some (if x ≤ m then x else m)

/-- `gc_watermark`: minimum `start_version` of the active transactions, else `current_version` -/
def watermark (c : Core) : Nat :=
  (minList ((c.txns.filter (fun x => x.status == .active)).map (·.start))).getD c.cur

/-- the transaction table after `gc_versions(w)` -/
def gcTxns (c : Core) (w : Nat) : Core :=
  { c with txns := c.txns.filter (fun x => x.status == .active || decide (w ≤ x.start)) }

/-- One operation on the shared part.  `conflict` is the machine-specific conflict test.
The third component is the transaction *as it was when it committed* (its write sets are
what gets stamped / logged). -/
def coreStep (c : Core) (conflict : Txn → Bool) : Op → Core × Out × Option Txn
  | .begin iso =>
      ({ c with nextId := c.nextId + 1,
                txns := c.txns ++ [{ id := c.nextId, iso := iso, status := .active, start := c.cur }] },
       .began c.nextId, none)
  | .writeNode t n => (setTxn c t (fun x => { x with nodeW := addSet x.nodeW n }), .unit, none)
  | .writeEdge t e => (setTxn c t (fun x => { x with edgeW := addSet x.edgeW e }), .unit, none)
  | .commit t =>
      match findTxn c t with
      | none => (c, .notFound, none)
      | some x =>
        if x.status != .active then (c, .notActive, none)
        else if conflict x then
          (setTxn c t (fun y => { y with status := .aborted }), .conflict, none)
        else
          ({ setTxn c t (fun y => { y with status := .committed, commitV := some (c.cur + 1) })
               with cur := c.cur + 1 },
           .committed (c.cur + 1), some x)
  | .abort t =>
      match findTxn c t with
      | none => (c, .notFound, none)
      | some x =>
        if x.status != .active then (c, .notActive, none)
        else (setTxn c t (fun y => { y with status := .aborted }), .aborted, none)
  | .bump => ({ c with cur := c.cur + 1 }, .unit, none)
  | .gc w => (gcTxns c (w.getD (watermark c)), .unit, none)

/-- `get_node_for_txn` / `get_edge_for_txn`: the version the read is made at (`none`: the
transaction is not in the table).  The status is not consulted by the code. -/
def readVersion (c : Core) (t : Nat) : Option Nat :=
  (findTxn c t).map (fun x => match x.iso with | .rc => c.cur | .si => x.start)

/-! ### I — the code's representation: `node_last_commit`, `edge_last_commit` -/

abbrev LastMap := List (Nat × Nat)

def lookup (m : LastMap) (k : Nat) : Option Nat := (m.find? (fun p => p.1 == k)).map (·.2)

/-- `for id in set { map.insert(id, v) }` (newest binding first) -/
def stamp (m : LastMap) (ks : List Nat) (v : Nat) : LastMap := ks.map (fun k => (k, v)) ++ m

structure State where
  core : Core := {}
  nodeLast : LastMap := []
  edgeLast : LastMap := []
deriving DecidableEq, Repr

/-- some written entity has `last_commit > start_version` -/
def laterIn (m : LastMap) (ks : List Nat) (start : Nat) : Bool :=
  ks.any (fun k => match lookup m k with | some c => decide (start < c) | none => false)

def conflictI (s : State) (x : Txn) : Bool :=
  laterIn s.nodeLast x.nodeW x.start || laterIn s.edgeLast x.edgeW x.start

def step (s : State) (op : Op) : State × Out :=
  match coreStep s.core (conflictI s) op with
  | (c, out, some x) =>
      ({ core := c, nodeLast := stamp s.nodeLast x.nodeW c.cur,
         edgeLast := stamp s.edgeLast x.edgeW c.cur }, out)
  | (c, out, none) => ({ s with core := c }, out)

/-! ### S — abstract first-committer-wins -/

structure Entry where
  v : Nat
  tid : Nat
  nodes : List Nat
  edges : List Nat
deriving DecidableEq, Repr

structure AState where
  core : Core := {}
  log : List Entry := []
  /-- ghost: transaction id ↦ length of the log when it began -/
  began : List (Nat × Nat) := []
deriving DecidableEq, Repr

def meets (a b : List Nat) : Bool := a.any (fun x => b.contains x)

def Entry.hits (e : Entry) (x : Txn) : Bool := meets x.nodeW e.nodes || meets x.edgeW e.edges

/-- the log entries appended after transaction `t` began -/
def since (s : AState) (t : Nat) : List Entry := s.log.drop ((lookup s.began t).getD 0)

def conflictS (s : AState) (x : Txn) : Bool := (since s x.id).any (fun e => e.hits x)

def astep (s : AState) (op : Op) : AState × Out :=
  match coreStep s.core (conflictS s) op with
  | (c, out, some x) =>
      ({ s with core := c, log := s.log ++ [⟨c.cur, x.id, x.nodeW, x.edgeW⟩] }, out)
  | (c, out, none) =>
      match op with
      | .begin _ => ({ s with core := c, began := (s.core.nextId, s.log.length) :: s.began }, out)
      | _ => ({ s with core := c }, out)

/-! ### Histories and observations -/

/-- what is observed after each operation: the result, `current_version`, and the read
version of the transactions with ids `1..probeTxns` -/
structure Obs where
  out : Out
  cur : Nat
  reads : List (Option Nat)
deriving DecidableEq, Repr

def probeTxns : Nat := 4

def obsOf (c : Core) (out : Out) : Obs :=
  { out := out, cur := c.cur, reads := (List.range probeTxns).map (fun i => readVersion c (i + 1)) }

def runFrom (s : State) : List Op → State × List Obs
  | [] => (s, [])
  | op :: ops =>
    let r := step s op
    let rest := runFrom r.1 ops
    (rest.1, obsOf r.1.core r.2 :: rest.2)

def arunFrom (s : AState) : List Op → AState × List Obs
  | [] => (s, [])
  | op :: ops =>
    let r := astep s op
    let rest := arunFrom r.1 ops
    (rest.1, obsOf r.1.core r.2 :: rest.2)

def run (ops : List Op) : State × List Obs := runFrom {} ops
def arun (ops : List Op) : AState × List Obs := arunFrom {} ops

/-- state after a history (left fold; `runFrom` reaches the same state) -/
def exec (ops : List Op) : State := ops.foldl (fun s op => (step s op).1) {}
def aexec (ops : List Op) : AState := ops.foldl (fun s op => (astep s op).1) {}

/-- The executable specification: the observations `os` (of the implementation) are those
of the abstract first-committer-wins machine.  `none` = satisfied, `some k` = first step
whose observation differs. -/
def specFirstViolation (ops : List Op) (os : List Obs) : Option Nat :=
  let rec go (k : Nat) : List Obs → List Obs → Option Nat
    | a :: as, b :: bs => if a = b then go (k + 1) as bs else some k
    | [], [] => none
    | _, _ => some k
  go 0 (arun ops).2 os

def spec (ops : List Op) (os : List Obs) : Bool := (specFirstViolation ops os).isNone

end SgModel.Txn
