/-
Model of what the server makes durable (property C19).

* `src/protocol/command.rs::handle_graph_query`: a statement routed as a write runs on the
  in-memory store; then, with persistence enabled, every `Value::Node` / `Value::Edge` found
  **in the result rows** is written with `persist_create_node` / `persist_create_edge`
  (RocksDB `put` under the entity id: the entity's *current* state replaces what was stored).
  Nothing else is persisted: no deletion, no change to an entity that is not returned.
* `handle_graph_delete` (`GRAPH.DELETE`): clears the in-memory store only.
* `src/http/handler.rs::query_handler`: persists nothing.
* `src/main.rs::start_server` recovery: `recover(tenant)` = all stored nodes, all stored edges;
  nodes are re-inserted first, then each edge, which is refused when an endpoint is missing.

The Cypher engine is not modelled here: a request carries the *effect* it had on the in-memory
graph (`muts`, the entity-level difference the harness reads off the real store) and the ids of
the entities its reply returned.  Entity contents are opaque codes.  `Blame` records, per
entity, why its stored state may lag behind memory; it is the classifier of the known
findings.  Import-free (the driver links against it).
-/
namespace SgModel.AckDurable

/-! ## association tables keyed by entity id -/

abbrev Tab (α : Type) := List (Nat × α)

def Tab.get {α : Type} (t : Tab α) (k : Nat) : Option α :=
  match t with
  | [] => none
  | (k', v) :: r => if k' == k then some v else Tab.get r k

def Tab.erase {α : Type} (t : Tab α) (k : Nat) : Tab α :=
  match t with
  | [] => []
  | (k', v) :: r => if k' == k then Tab.erase r k else (k', v) :: Tab.erase r k

def Tab.put {α : Type} (t : Tab α) (k : Nat) (v : α) : Tab α := (k, v) :: Tab.erase t k

/-! ## graphs, requests -/

structure EdgeD where
  src : Nat
  tgt : Nat
  d : Nat            -- type + properties, opaque
deriving DecidableEq, Repr

structure G where
  nodes : Tab Nat := []      -- id ↦ labels + properties, opaque
  edges : Tab EdgeD := []
deriving DecidableEq, Repr

inductive Mut where
  | putNode (id : Nat) (d : Nat)       -- created, or labels/properties changed to `d`
  | delNode (id : Nat)
  | putEdge (id : Nat) (e : EdgeD)
  | delEdge (id : Nat)
deriving DecidableEq, Repr

inductive Front where
  | resp | http
deriving DecidableEq, Repr

/-- clause kind of the statement (only used to name a finding) -/
inductive Kind where
  | create | merge | set | remove | label | delete
deriving DecidableEq, Repr

structure Stmt where
  front : Front
  kind : Kind
  muts : List Mut
  retN : List Nat       -- node ids returned as whole entities by the reply
  retE : List Nat
deriving DecidableEq, Repr

inductive Req where
  | query (s : Stmt)     -- an acknowledged (error-free) GRAPH.QUERY / POST /api/query
  | graphDelete          -- an acknowledged GRAPH.DELETE
deriving DecidableEq, Repr

/-- why the stored state of an entity may differ from memory -/
inductive Cause where
  | notReturned (f : Front) (k : Kind)   -- changed by a statement that did not return it (HTTP: never persisted)
  | deleted (f : Front)                  -- deletions are never persisted
  | graphDelete
  | endpointNotDurable                   -- a stored edge whose endpoint is not stored
deriving DecidableEq, Repr

structure State where
  mem : G := {}
  disk : G := {}
  blameN : Tab Cause := []
  blameE : Tab Cause := []
deriving DecidableEq, Repr

/-! ## one request -/

def applyMut (g : G) : Mut → G
  | .putNode id d => { g with nodes := g.nodes.put id d }
  | .delNode id => { g with nodes := g.nodes.erase id }
  | .putEdge id e => { g with edges := g.edges.put id e }
  | .delEdge id => { g with edges := g.edges.erase id }

/-- `persist_create_node` of a returned node: its current in-memory state is stored -/
def persistNode (mem : G) (disk : G) (id : Nat) : G :=
  match mem.nodes.get id with
  | some d => { disk with nodes := disk.nodes.put id d }
  | none => disk

/-- The stored record is the **whole** entity — for a relationship its endpoints, its type and
its properties (`EdgeD`) — and it replaces whatever was stored under the id: `GraphStore`
recycles the ids of deleted entities, so the previous holder of the id may have been a
different relationship between other nodes. -/
def persistEdge (mem : G) (disk : G) (id : Nat) : G :=
  match mem.edges.get id with
  | some e => { disk with edges := disk.edges.put id e }
  | none => disk

/-- the defective variant "an id already stored is a property update": endpoints of the stored
record are kept, only the opaque content is replaced -/
def persistEdgeKeepEndpoints (mem : G) (disk : G) (id : Nat) : G :=
  match mem.edges.get id, disk.edges.get id with
  | some e, some old => { disk with edges := disk.edges.put id { old with d := e.d } }
  | some e, none => { disk with edges := disk.edges.put id e }
  | none, _ => disk

/-- The durable image of a returned whole entity is **the state it has when the statement
ends**, however many rows (or columns of one row) return it: `retN` / `retE` may repeat an id,
every occurrence stores the same final state. -/
def persistReturned (mem disk : G) (retN retE : List Nat) : G :=
  retE.foldl (persistEdge mem) (retN.foldl (persistNode mem) disk)

/-! ### the same rule, row by row (what `handle_graph_query` literally does)

The handler walks the result rows in order and stores the snapshot each whole-entity cell
carries.  `SET` is applied row by row and every row's projection takes a fresh snapshot, so an
entity returned by several rows is stored several times, and **the last write wins**: that is
the final state whenever the entity is returned by the last row that changes it.
`occ` lists the cells in row order as (id, snapshot). -/

def persistOcc (t : Tab Nat) (occ : List (Nat × Nat)) : Tab Nat :=
  occ.foldl (fun t p => t.put p.1 p.2) t

/-- the defective variant "persisted once per statement": the first occurrence wins -/
def persistOccFirst (t : Tab Nat) (occ : List (Nat × Nat)) : Tab Nat :=
  (occ.foldl (fun (acc : Tab Nat × List Nat) p =>
      if acc.2.contains p.1 then acc else (acc.1.put p.1 p.2, p.1 :: acc.2)) (t, [])).1

/-- blame bookkeeping for one mutation of a statement -/
def blameMut (s : Stmt) (b : Tab Cause × Tab Cause) : Mut → Tab Cause × Tab Cause
  | .putNode id _ =>
      if s.front == .resp && s.retN.contains id then (b.1.erase id, b.2)
      else (b.1.put id (.notReturned s.front s.kind), b.2)
  | .delNode id => (b.1.put id (.deleted s.front), b.2)
  | .putEdge id _ =>
      if s.front == .resp && s.retE.contains id then (b.1, b.2.erase id)
      else (b.1, b.2.put id (.notReturned s.front s.kind))
  | .delEdge id => (b.1, b.2.put id (.deleted s.front))

def stepQuery (st : State) (s : Stmt) : State :=
  let mem' := s.muts.foldl applyMut st.mem
  let disk' := match s.front with
    | .resp => persistReturned mem' st.disk s.retN s.retE
    | .http => st.disk
  -- an entity returned by a RESP write is stored in its current state even when this
  -- statement did not change it
  let b := s.muts.foldl (blameMut s) (st.blameN, st.blameE)
  let bN := match s.front with
    | .resp => s.retN.foldl (fun t id => if (mem'.nodes.get id).isSome then t.erase id else t) b.1
    | .http => b.1
  let bE := match s.front with
    | .resp => s.retE.foldl (fun t id => if (mem'.edges.get id).isSome then t.erase id else t) b.2
    | .http => b.2
  { mem := mem', disk := disk', blameN := bN, blameE := bE }

def blameAll (ids : List Nat) (c : Cause) (t : Tab Cause) : Tab Cause :=
  ids.foldl (fun t id => t.put id c) t

def step (st : State) : Req → State
  | .query s => stepQuery st s
  | .graphDelete =>
      { st with mem := {}
                blameN := blameAll (st.mem.nodes.map (·.1)) .graphDelete st.blameN
                blameE := blameAll (st.mem.edges.map (·.1)) .graphDelete st.blameE }

def run (rs : List Req) : State := rs.foldl step {}

/-! ## restart -/

/-- node `id` of the graph served after a restart on the same data directory -/
def recNode (st : State) (id : Nat) : Option Nat := st.disk.nodes.get id

/-- edge `id` after a restart: stored, and both endpoints stored (`insert_recovered_edge`) -/
def recEdge (st : State) (id : Nat) : Option EdgeD :=
  match st.disk.edges.get id with
  | some e =>
      if (st.disk.nodes.get e.src).isSome && (st.disk.nodes.get e.tgt).isSome then some e else none
  | none => none

def finalBlameN (st : State) (id : Nat) : Option Cause := st.blameN.get id

def finalBlameE (st : State) (id : Nat) : Option Cause :=
  match st.blameE.get id with
  | some c => some c
  | none => match st.disk.edges.get id with
    | some e =>
        if (st.disk.nodes.get e.src).isSome && (st.disk.nodes.get e.tgt).isSome then none
        else some .endpointNotDurable
    | none => none

/-! ## the histories for which durability is proved -/

def Mut.isPut : Mut → Bool
  | .putNode .. | .putEdge .. => true
  | _ => false

def Mut.returnedBy (s : Stmt) : Mut → Bool
  | .putNode id _ => s.retN.contains id
  | .putEdge id _ => s.retE.contains id
  | _ => false

/-- a RESP statement that only creates or changes entities and returns every one of them
(in particular: a `CREATE` that returns every entity it creates) -/
def Stmt.returnsAll (s : Stmt) : Bool :=
  s.front == .resp && s.muts.all (fun m => m.isPut && m.returnedBy s)

def Req.returnsAll : Req → Bool
  | .query s => s.returnsAll
  | .graphDelete => false

/-- every edge in memory has both endpoints in memory (what `GraphStore::create_edge` enforces) -/
def G.wf (g : G) : Prop :=
  ∀ id e, g.edges.get id = some e → (g.nodes.get e.src).isSome = true ∧ (g.nodes.get e.tgt).isSome = true

/-! ## executable specification, on observations

For every entity id seen in memory or after the restart: its canonical state in memory just
before shutdown and in the recovered graph (`none` = absent). -/

def specDurableAt {α : Type} [BEq α] : List (Option α × Option α) → Nat → Option Nat
  | [], _ => none
  | (a, b) :: r, k => if a == b then specDurableAt r (k + 1) else some k

/-- the property on observations: the recovered graph is the pre-restart graph -/
def specDurable {α : Type} [BEq α] (obs : List (Option α × Option α)) : Bool :=
  (specDurableAt obs 0).isNone

def probeN (st : State) (ids : List Nat) : List (Option Nat × Option Nat) :=
  ids.map (fun id => (st.mem.nodes.get id, recNode st id))

def probeE (st : State) (ids : List Nat) : List (Option EdgeD × Option EdgeD) :=
  ids.map (fun id => (st.mem.edges.get id, recEdge st id))

end SgModel.AckDurable
