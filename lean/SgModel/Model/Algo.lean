/-
Model for property C26 (crate `samyama-graph-algorithms`, `src/algo/mod.rs`): the
`GraphView` representation, reference definitions of the graph problems, the executable
*certificate checkers* whose soundness is proved in `Props/C26.lean`, simple reference
algorithms that produce the certificates (closure by fuel, Bellman-Ford, Ford-Fulkerson on
edge-indexed flows), and the pieces of the Rust code that are modelled directly
(Prim with its parallel-edge weight lookup, the triangle / LCC enumerations, `build_view`).

Import-free (the driver links against it).  All weights / capacities are naturals: the
generators use integer weights, on which the `f64` arithmetic of the Rust code is exact.
`primLegacy` / `ekLegacy` are the pinned tree; `prim` / `ek` the code after the `fix:` commits.
-/
namespace SgModel.Algo

/-- (source, target, weight) -/
abbrev Edge := Nat × Nat × Nat

/-! ## GraphView (CSR, here as nested lists) -/

/-- `out[u]` = successors of `u` with weights (listing order), `inn[v]` = predecessors. -/
structure View where
  n : Nat
  out : List (List (Nat × Nat))
  inn : List (List Nat)
deriving Repr, DecidableEq

def View.succW (vw : View) (u : Nat) : List (Nat × Nat) := vw.out.getD u []
def View.succ (vw : View) (u : Nat) : List Nat := (vw.succW u).map (·.1)
def View.pred (vw : View) (v : Nat) : List Nat := vw.inn.getD v []
def View.outDeg (vw : View) (u : Nat) : Nat := (vw.succW u).length

/-- what `build_view` / `from_adjacency_list` produce from the edges in listing order:
out-lists keep the listing order.  The in-list of `v` holds the source of every edge into `v`
(here in listing order; `build_view` fills them while walking the sources upwards — no
modelled result depends on the order inside an in-list, only on its content as a multiset:
`C26_view_of_edges`, `C27_cdlp_mode_perm_invariant`, sums in ℚ). -/
def outOf (es : List Edge) (u : Nat) : List (Nat × Nat) :=
  es.filterMap (fun e => if e.1 = u then some e.2 else none)

def innOf (es : List Edge) (v : Nat) : List Nat :=
  es.filterMap (fun e => if e.2.1 = v then some e.1 else none)

def ofEdges (n : Nat) (es : List Edge) : View :=
  { n := n, out := (List.range n).map (outOf es), inn := (List.range n).map (innOf es) }

/-- all edges of a view, grouped by source -/
def edgesOf (vw : View) : List Edge :=
  (List.range vw.n).flatMap (fun u => (vw.succW u).map (fun p => (u, p.1, p.2)))

/-- `in` is the transpose of `out` and every index is in range -/
def wellFormedB (vw : View) : Bool :=
  vw.out.length == vw.n && vw.inn.length == vw.n
  && (List.range vw.n).all (fun u => (vw.succ u).all (· < vw.n) && (vw.pred u).all (· < vw.n))
  && (List.range vw.n).all (fun u => (List.range vw.n).all (fun v =>
        (vw.pred v).count u == (vw.succ u).count v))

/-! ## Reachability, components -/

abbrev Pairs := List (Nat × Nat)

def pairs (es : List Edge) : Pairs := es.map (fun e => (e.1, e.2.1))
def rev (P : Pairs) : Pairs := P.map (fun e => (e.2, e.1))
def sym (P : Pairs) : Pairs := P ++ rev P

/-- directed reachability along the listed pairs (reflexive, transitive) -/
inductive Reach (P : Pairs) : Nat → Nat → Prop
  | refl (u : Nat) : Reach P u u
  | step {u v w : Nat} : Reach P u v → (v, w) ∈ P → Reach P u w

def expand (P : Pairs) (S : List Nat) : List Nat :=
  S ++ (P.filter (fun e => decide (e.1 ∈ S) && !decide (e.2 ∈ S))).map (·.2)

def closedB (P : Pairs) (S : List Nat) : Bool :=
  P.all (fun e => !decide (e.1 ∈ S) || decide (e.2 ∈ S))

def closure (P : Pairs) : Nat → List Nat → List Nat
  | 0, S => S
  | f + 1, S => if closedB P S then S else closure P f (expand P S)

/-- nodes reachable from `s` (fuel `|P| + 1` always suffices: `closure_closed`) -/
def reachSet (P : Pairs) (s : Nat) : List Nat := closure P (P.length + 1) [s]

def canon (n : Nat) (S : List Nat) : List Nat := (List.range n).filter (fun x => decide (x ∈ S))

/-- weakly connected component of `s`, as the increasing list of its nodes `< n` -/
def compW (P : Pairs) (n s : Nat) : List Nat := canon n (reachSet (sym P) s)

/-- strongly connected component of `s` -/
def compS (P : Pairs) (n s : Nat) : List Nat :=
  canon n ((reachSet P s).filter (fun v => decide (v ∈ reachSet (rev P) s)))

/-- the classes `comp s`, each listed once (a node already covered is skipped) -/
def partitionBy (comp : Nat → List Nat) (nodes : List Nat) : List (List Nat) :=
  nodes.foldl (fun acc s => if acc.any (fun C => decide (s ∈ C)) then acc else acc ++ [comp s]) []

def wccRef (vw : View) : List (List Nat) :=
  partitionBy (compW (pairs (edgesOf vw)) vw.n) (List.range vw.n)
def sccRef (vw : View) : List (List Nat) :=
  partitionBy (compS (pairs (edgesOf vw)) vw.n) (List.range vw.n)

/-! ## Shortest paths: walks, potentials, checker -/

/-- `Walk E u t p c`: `p` is the node list of a walk from `u` to `t` using edges of `E`
whose weights add up to `c` -/
inductive Walk (E : List Edge) : Nat → Nat → List Nat → Nat → Prop
  | nil (u : Nat) : Walk E u u [u] 0
  | cons {u v t w c : Nat} {p : List Nat} : (u, v, w) ∈ E → Walk E v t p c → Walk E u t (u :: p) (w + c)

abbrev Dist := List (Option Nat)

def dget (d : Dist) (u : Nat) : Option Nat := d.getD u none

/-- potentials certificate: `d s = 0`, every edge out of a labelled node leads to a labelled
node and satisfies the triangle inequality -/
def potentialOk (E : List Edge) (s : Nat) (d : Dist) : Bool :=
  dget d s == some 0
  && E.all (fun e => match dget d e.1 with
      | none => true
      | some du => match dget d e.2.1 with
        | none => false
        | some dv => decide (dv ≤ du + e.2.2))

/-- cheapest parallel edge `u → v` -/
def minW (E : List Edge) (u v : Nat) : Option Nat :=
  E.foldl (fun acc e => if e.1 = u ∧ e.2.1 = v then
      (match acc with | none => some e.2.2 | some a => some (min a e.2.2)) else acc) none

/-- cost of the node list as a walk, taking the cheapest parallel edge at every hop -/
def walkCost (E : List Edge) : List Nat → Option Nat
  | [] => none
  | [_] => some 0
  | u :: v :: rest =>
    match minW E u v, walkCost E (v :: rest) with
    | some w, some c => some (w + c)
    | _, _ => none

/-- the answer of `bfs` / `dijkstra`: `none`, or (cost, node path) -/
abbrev PathObs := Option (Nat × List Nat)

def spCheck (E : List Edge) (d : Dist) (s t : Nat) : PathObs → Bool
  | none => potentialOk E s d && dget d t == none
  | some (c, p) =>
    potentialOk E s d && p.head? == some s && p.getLast? == some t
    && walkCost E p == some c && dget d t == some c

/-- Bellman-Ford (reference algorithm producing the potentials; *not* verified itself) -/
def relax (E : List Edge) (d : Dist) : Dist :=
  E.foldl (fun d e => match dget d e.1 with
    | none => d
    | some du => match dget d e.2.1 with
      | none => d.set e.2.1 (some (du + e.2.2))
      | some dv => if du + e.2.2 < dv then d.set e.2.1 (some (du + e.2.2)) else d) d

def iter {α : Type} (f : α → α) : Nat → α → α
  | 0, x => x
  | k + 1, x => iter f k (f x)

def bellmanFord (E : List Edge) (n s : Nat) : Dist :=
  iter (relax E) n ((List.replicate n none).set s (some 0))

def unitW (E : List Edge) : List Edge := E.map (fun e => (e.1, e.2.1, 1))

/-! ## Maximum flow: feasible flows, cuts, checker, reference Ford-Fulkerson -/

/-- an edge with its capacity and the flow it carries -/
structure FEdge where
  u : Nat
  v : Nat
  c : Nat
  f : Nat
deriving Repr, DecidableEq

def outflow (L : List FEdge) (x : Nat) : Nat := (L.map (fun e => if e.u = x then e.f else 0)).sum
def inflow (L : List FEdge) (x : Nat) : Nat := (L.map (fun e => if e.v = x then e.f else 0)).sum

/-- capacity of the cut `S` (edges leaving `S`) -/
def cutCap (L : List FEdge) (S : List Nat) : Nat :=
  (L.map (fun e => if e.u ∈ S ∧ e.v ∉ S then e.c else 0)).sum

def feasibleB (n : Nat) (L : List FEdge) (s t : Nat) : Bool :=
  L.all (fun e => decide (e.f ≤ e.c) && decide (e.u < n) && decide (e.v < n))
  && (List.range n).all (fun x => x == s || x == t || outflow L x == inflow L x)

/-- certificate check: a feasible flow of value `val` and a cut of capacity `val` -/
def flowCheck (n : Nat) (L : List FEdge) (s t : Nat) (S : List Nat) (val : Nat) : Bool :=
  feasibleB n L s t && decide (s < n) && decide (s ≠ t)
  && outflow L s == inflow L s + val
  && decide (s ∈ S) && !decide (t ∈ S) && cutCap L S == val

/-- residual arc: (from, to, edge index, forward?, residual capacity) -/
structure Arc where
  a : Nat
  b : Nat
  idx : Nat
  fwd : Bool
  res : Nat
deriving Repr

def arcsOf (L : List FEdge) : List Arc :=
  (L.zipIdx).flatMap (fun (p : FEdge × Nat) =>
    (if p.1.f < p.1.c then [Arc.mk p.1.u p.1.v p.2 true (p.1.c - p.1.f)] else [])
    ++ (if 0 < p.1.f then [Arc.mk p.1.v p.1.u p.2 false p.1.f] else []))

/-- one round of growing the set of reached nodes, each with the arc path that reaches it -/
def growPaths (A : List Arc) (R : List (Nat × List Arc)) : List (Nat × List Arc) :=
  A.foldl (fun R a =>
    if R.any (fun r => r.1 == a.b) then R
    else match R.find? (fun r => r.1 == a.a) with
      | some r => R ++ [(a.b, r.2 ++ [a])]
      | none => R) R

def reachPaths (A : List Arc) (n s : Nat) : List (Nat × List Arc) :=
  iter (growPaths A) n [(s, [])]

def augment (L : List FEdge) (p : List Arc) (b : Nat) : List FEdge :=
  (L.zipIdx).map (fun (q : FEdge × Nat) =>
    match p.find? (fun a => a.idx == q.2) with
    | some a => if a.fwd then { q.1 with f := q.1.f + b } else { q.1 with f := q.1.f - b }
    | none => q.1)

def bottleneck (p : List Arc) : Nat :=
  match p with
  | [] => 0
  | a :: rest => rest.foldl (fun m x => min m x.res) a.res

/-- Ford-Fulkerson with fuel; returns the flow and the residual-reachable set (the cut) -/
def fordFulkerson (n s t : Nat) : Nat → List FEdge → List FEdge × List Nat
  | 0, L => (L, (reachPaths (arcsOf L) n s).map (·.1))
  | fuel + 1, L =>
    let R := reachPaths (arcsOf L) n s
    match R.find? (fun r => r.1 == t) with
    | some r => if bottleneck r.2 = 0 then (L, R.map (·.1)) else fordFulkerson n s t fuel (augment L r.2 (bottleneck r.2))
    | none => (L, R.map (·.1))

def zeroFlow (E : List Edge) : List FEdge := E.map (fun e => ⟨e.1, e.2.1, e.2.2, 0⟩)

/-- the network underneath a flow assignment -/
def netw (L : List FEdge) : List Edge := L.map (fun e => (e.u, e.v, e.c))

/-- reference maximum flow value with its certificate check; `none` = no certificate -/
def maxFlowRef (n : Nat) (E : List Edge) (s t : Nat) : Option Nat :=
  if s = t then some 0 else
  let fuel := (E.map (·.2.2)).sum + 1
  let r := fordFulkerson n s t fuel (zeroFlow E)
  let val := outflow r.1 s - inflow r.1 s
  if flowCheck n r.1 s t r.2 val && netw r.1 == E then some val else none

/-- Edmonds-Karp's outer loop as the Rust code has it, on an abstract "find an augmenting
path" step: `none` = the fuel ran out (the loop did not terminate within `fuel` rounds).
With `guard = false` (pinned tree) and `s = t` the BFS reports "found" at once with an
infinite bottleneck and nothing changes: the loop never ends, for any fuel. -/
def ekLoop (guard : Bool) (n : Nat) (s t : Nat) : Nat → List FEdge → Nat → Option Nat
  | 0, _, _ => none
  | fuel + 1, L, total =>
    if guard && s == t then some 0
    else if s == t then ekLoop guard n s t fuel L total     -- found_path, empty path: no change
    else
      let R := reachPaths (arcsOf L) n s
      match R.find? (fun r => r.1 == t) with
      | some r => if bottleneck r.2 = 0 then some total
                  else ekLoop guard n s t fuel (augment L r.2 (bottleneck r.2)) (total + bottleneck r.2)
      | none => some total

def ek (n : Nat) (E : List Edge) (s t fuel : Nat) : Option Nat := ekLoop true n s t fuel (zeroFlow E) 0
def ekLegacy (n : Nat) (E : List Edge) (s t fuel : Nat) : Option Nat := ekLoop false n s t fuel (zeroFlow E) 0

/-! ## Minimum spanning tree: Prim as in `mst.rs`, and the spanning-tree checker -/

/-- weights of the parallel edges `u → v`, in listing order -/
def wOut (vw : View) (u v : Nat) : List Nat :=
  (vw.succW u).filterMap (fun p => if p.1 = v then some p.2 else none)

def listMin : List Nat → Option Nat
  | [] => none
  | x :: xs => some (xs.foldl min x)

/-- `add_edges`: what visiting `u` pushes on the heap, as (weight, from, to).  For an
incoming edge `v → u` the pinned tree looks up the **first** `u` in `successors(v)`
(`firstOnly = true`); the repaired code takes the minimum over the parallel edges. -/
def pushed (firstOnly : Bool) (vw : View) (vis : List Nat) (u : Nat) : List (Nat × Nat × Nat) :=
  ((vw.succW u).filter (fun p => decide (p.1 ∉ vis))).map (fun p => (p.2, u, p.1))
  ++ ((vw.pred u).filter (fun v => decide (v ∉ vis))).filterMap (fun v =>
      (if firstOnly then (wOut vw v u).head? else listMin (wOut vw v u)).map (fun w => (w, u, v)))

def pickMin : List (Nat × Nat × Nat) → Option (Nat × Nat × Nat)
  | [] => none
  | x :: xs => some (xs.foldl (fun m y => if y.1 < m.1 then y else m) x)

/-- heap content that still matters = everything pushed by visited nodes towards unvisited ones -/
def primLoop (firstOnly : Bool) (vw : View) : Nat → List Nat → Nat → List (Nat × Nat × Nat)
    → Nat × List (Nat × Nat × Nat)
  | 0, _, total, acc => (total, acc)
  | fuel + 1, vis, total, acc =>
    match pickMin (vis.flatMap (fun u => (pushed firstOnly vw vis u).filter (fun c => decide (c.2.2 ∉ vis)))) with
    | none => (total, acc)
    | some c => primLoop firstOnly vw fuel (vis ++ [c.2.2]) (total + c.1) (acc ++ [(c.2.1, c.2.2, c.1)])

/-- (total weight, tree edges (from, to, weight)) -/
def prim (vw : View) : Nat × List (Nat × Nat × Nat) :=
  if vw.n = 0 then (0, []) else primLoop false vw vw.n [0] 0 []
def primLegacy (vw : View) : Nat × List (Nat × Nat × Nat) :=
  if vw.n = 0 then (0, []) else primLoop true vw vw.n [0] 0 []

/-- checker for a reported spanning tree of the component of node 0 -/
def mstCheck (vw : View) (total : Nat) (T : List Edge) : Bool :=
  let E := edgesOf vw
  if vw.n = 0 then total == 0 && T.isEmpty else
  T.all (fun e => decide ((e.1, e.2.1, e.2.2) ∈ E) || decide ((e.2.1, e.1, e.2.2) ∈ E))
  && (T.map (·.2.2)).sum == total
  && compW (pairs T) vw.n 0 == compW (pairs E) vw.n 0
  && T.length + 1 == (compW (pairs E) vw.n 0).length

/-! ## Triangles and local clustering coefficient -/

def dedup : List Nat → List Nat
  | [] => []
  | x :: xs => if x ∈ xs then dedup xs else x :: dedup xs

/-! ### MST minimality certificate (cycle property) -/

/-- an edge up to orientation: (smaller endpoint, larger endpoint, weight) -/
def canonE (e : Edge) : Edge := (min e.1 e.2.1, max e.1 e.2.1, e.2.2)

def wsum (T : List Edge) : Nat := (T.map (·.2.2)).sum

/-- the tree edges of weight at most `w` -/
def lightT (T : List Edge) (w : Nat) : List Edge := T.filter (fun e => decide (e.2.2 ≤ w))

/-- the nodes weakly connected to node 0, each once -/
def compNodes (E : List Edge) : List Nat := dedup (reachSet (sym (pairs E)) 0)

/-- cycle property: the endpoints of every edge of node 0's component are joined inside `T`
by edges that are not heavier than that edge -/
def cycleCert (E T : List Edge) : Bool :=
  let R := reachSet (sym (pairs E)) 0
  E.all (fun g => !decide (g.1 ∈ R) || decide (g.2.1 ∈ reachSet (sym (pairs (lightT T g.2.2))) g.1))

/-- checker for a reported minimum spanning tree of node 0's component of the undirected
multigraph `E`: real edges (either orientation, with their weight), the reported total, one
edge fewer than nodes, connecting the whole component, and the cycle property -/
def mstMinCheck (E : List Edge) (total : Nat) (T : List Edge) : Bool :=
  T.all (fun e => decide (canonE e ∈ E.map canonE))
  && wsum T == total
  && T.length + 1 == (compNodes E).length
  && (compNodes E).all (fun x => decide (x ∈ reachSet (sym (pairs T)) 0))
  && cycleCert E T

/-- the `HashSet` of undirected neighbours the Rust code builds (some enumeration order) -/
def nbrs (vw : View) (u : Nat) : List Nat := dedup (vw.succ u ++ vw.pred u)

def nsum (l : List Nat) (f : Nat → Nat) : Nat := (l.map f).sum

/-- `count_triangles`: for `u`, for `v ∈ N(u)`, `v > u`, for `w ∈ N(v)`, `w > v`, count `w ∈ N(u)` -/
def trianglesImpl (vw : View) : Nat :=
  nsum (List.range vw.n) (fun u =>
    nsum (nbrs vw u) (fun v => if u < v then
      nsum (nbrs vw v) (fun w => if v < w ∧ w ∈ nbrs vw u then 1 else 0) else 0))

/-- adjacency in the underlying undirected simple graph -/
def adj (vw : View) (a b : Nat) : Bool := decide (b ∈ vw.succ a) || decide (a ∈ vw.succ b)

/-- definition: number of vertex sets `{u,v,w}`, `u < v < w < n`, pairwise adjacent -/
def trianglesDef (vw : View) : Nat :=
  nsum (List.range vw.n) (fun u => nsum (List.range vw.n) (fun v => nsum (List.range vw.n) (fun w =>
    if u < v ∧ v < w ∧ adj vw u v ∧ adj vw v w ∧ adj vw u w then 1 else 0)))

/-- neighbours without the node itself (`lcc.rs` drops self-loops) -/
def nbrsNoSelf (vw : View) (u : Nat) : List Nat := (nbrs vw u).filter (fun x => decide (x ≠ u))

def pairsCount (R : Nat → Nat → Bool) : List Nat → Nat
  | [] => 0
  | x :: xs => xs.countP (R x) + pairsCount R xs

/-- `local_clustering_coefficient` (undirected): (edges among the neighbours, deg·(deg−1)/2);
(0, 1) when deg < 2 -/
def lccImpl (vw : View) (u : Nat) : Nat × Nat :=
  let nv := nbrsNoSelf vw u
  let deg := nv.length
  if deg < 2 then (0, 1)
  else (pairsCount (fun a b => decide (b ∈ nbrsNoSelf vw a)) nv, deg * (deg - 1) / 2)

/-- definition: pairs `a < b` of distinct neighbours of `u` that are adjacent -/
def lccDefNum (vw : View) (u : Nat) : Nat :=
  nsum (List.range vw.n) (fun a => nsum (List.range vw.n) (fun b =>
    if a < b ∧ a ≠ u ∧ b ≠ u ∧ adj vw u a ∧ adj vw u b ∧ adj vw a b then 1 else 0))

def degDef (vw : View) (u : Nat) : Nat :=
  nsum (List.range vw.n) (fun a => if a ≠ u ∧ adj vw u a then 1 else 0)

/-! ## Projection (`build_view`) -/

/-- a store: nodes (id, labels) in `all_nodes` order, edges (src id, dst id, type, weight
property if it is numeric) in per-source listing order -/
structure Store where
  nodes : List (Nat × List Nat)
  edges : List (Nat × Nat × Nat × Option Nat)
deriving Repr

def indexOf? (ids : List Nat) (x : Nat) : Option Nat :=
  let i := ids.idxOf x
  if i < ids.length then some i else none

/-- node ids selected by the label filter, in order -/
def projNodes (st : Store) (label : Option Nat) : List Nat :=
  (st.nodes.filter (fun nd => match label with | none => true | some l => decide (l ∈ nd.2))).map (·.1)

def typeOk (ty : Option Nat) (t : Nat) : Bool :=
  match ty with
  | none => true
  | some x => t == x

/-- one store edge in the projection: type filter, both endpoints selected, weight from the
property or 1 when absent / not numeric / not requested -/
def projEdge (ids : List Nat) (ty : Option Nat) (weighted : Bool) (e : Nat × Nat × Nat × Option Nat) : Option Edge :=
  if typeOk ty e.2.2.1 then
    match indexOf? ids e.1, indexOf? ids e.2.1 with
    | some u, some v => some (u, v, if weighted then e.2.2.2.getD 1 else 1)
    | _, _ => none
  else none

/-- edges of the projection over dense indices, in store listing order -/
def projEdges (st : Store) (label ty : Option Nat) (weighted : Bool) : List Edge :=
  st.edges.filterMap (projEdge (projNodes st label) ty weighted)

def buildView (st : Store) (label ty : Option Nat) (weighted : Bool) : View :=
  ofEdges (projNodes st label).length (projEdges st label ty weighted)

end SgModel.Algo
