import SgModel.Lemmas.MvccRead
/-!
Relationship history (C07): what `get_edge_at_version` is guaranteed to return in every state the
model of the repaired store can reach.

* `RelInv` — invariants of reachable states about relationships: the newest log entry carries the
  live property map, `current_version ≥ 1`, and the id allocator never hands out a live id.
* `edgeAt_eq_spec` — in such states `get_edge_at_version(e, v)` is exactly: the newest logged
  snapshot `≤ v` if there is one, else (for `v ≥ 1`) the *current* property map with version 1.
* consequences: the read at the current version, reads of relationships not modified after `v`,
  one-step and history-level stability of anchored reads under every operation that does not
  delete the relationship.
-/
namespace SgModel.Mvcc

/-! ### invariants -/

structure RelInv (s : State) : Prop where
  sync : ∀ e l, (s.edges e).log.getLast? = some l → l.props = (s.edges e).props
  curPos : 1 ≤ s.cur
  freeDead : ∀ i ∈ s.freeEdges, (s.edges i).live = false
  freeNodup : s.freeEdges.Nodup
  freeLt : ∀ i ∈ s.freeEdges, i < s.nextEdge
  beyondDead : ∀ i, s.nextEdge ≤ i → (s.edges i).live = false

theorem dead_default : ({} : EdgeRec).live = false := rfl

theorem relInv_init : RelInv {} where
  sync := by intro e l h; simp at h
  curPos := Nat.le_refl _
  freeDead := by intro i hi; simp at hi
  freeNodup := List.nodup_nil
  freeLt := by intro i hi; simp at hi
  beyondDead := by intro i _; rfl

theorem live_of_edgeAt {e : EdgeRec} {cur v : Nat} (h : (edgeAt e cur v).isSome) : e.live = true := by
  unfold edgeAt at h
  cases hl : e.live
  · simp [hl] at h
  · rfl

theorem relInv_killEdge {s : State} (i : RelInv s) (e : Nat) : RelInv (killEdge s e) := by
  unfold killEdge
  split
  · rename_i hsome
    have hlive := live_of_edgeAt hsome
    have hnot : e ∉ s.freeEdges := by
      intro hm; have := i.freeDead e hm; rw [hlive] at this; cases this
    have hlt : e < s.nextEdge := by
      by_cases h : e < s.nextEdge
      · exact h
      · have := i.beyondDead e (by omega); rw [hlive] at this; cases this
    refine ⟨?_, i.curPos, ?_, ?_, ?_, ?_⟩
    · intro e' l h
      dsimp only at h ⊢
      by_cases he : e' = e
      · subst he; rw [show upd s.edges e' {} e' = {} from upd_same _ _ _] at h; simp at h
      · rw [show upd s.edges e {} e' = s.edges e' from upd_other _ _ _ _ he] at h ⊢
        exact i.sync e' l h
    · intro j hj
      dsimp only at hj ⊢
      by_cases he : j = e
      · subst he; rw [show upd s.edges j {} j = {} from upd_same _ _ _]; rfl
      · rw [show upd s.edges e {} j = s.edges j from upd_other _ _ _ _ he]
        rcases List.mem_cons.mp hj with h | h
        · exact absurd h he
        · exact i.freeDead j h
    · exact List.nodup_cons.mpr ⟨hnot, i.freeNodup⟩
    · intro j hj
      dsimp only at hj ⊢
      rcases List.mem_cons.mp hj with h | h
      · rw [h]; exact hlt
      · exact i.freeLt j h
    · intro j hj
      dsimp only at hj ⊢
      by_cases he : j = e
      · subst he; rw [show upd s.edges j {} j = {} from upd_same _ _ _]; rfl
      · rw [show upd s.edges e {} j = s.edges j from upd_other _ _ _ _ he]
        exact i.beyondDead j hj
  · exact i

theorem relInv_killEdges (l : List Nat) {s : State} (i : RelInv s) : RelInv (l.foldl killEdge s) := by
  induction l generalizing s with
  | nil => exact i
  | cons e l ih => exact ih (relInv_killEdge i e)

theorem setEdge_live (e : EdgeRec) (cur k : Nat) (v : Int) : (setEdge e cur k v).live = e.live := rfl

theorem setEdge_sync (e : EdgeRec) (cur k : Nat) (v : Int) (l : ELog)
    (h : (setEdge e cur k v).log.getLast? = some l) : l.props = (setEdge e cur k v).props := by
  unfold setEdge at h ⊢
  simp only at h ⊢
  cases hl : e.log.getLast? with
  | none =>
    rw [hl] at h
    simp only [List.getLast?_append, List.getLast?_singleton, Option.some_or, Option.some.injEq] at h
    rw [← h]
  | some last =>
    rw [hl] at h
    simp only at h
    split at h
    · simp only [List.getLast?_append, List.getLast?_singleton, Option.some_or, Option.some.injEq] at h
      rw [← h]
    · simp only [List.getLast?_append, List.getLast?_singleton, Option.some_or, Option.some.injEq] at h
      rw [← h]

theorem gcList_getLast {α : Type} (ver : α → Nat) (l : List α) (w : Nat) :
    (gcList ver l w).getLast? = l.getLast? := by
  unfold gcList
  split
  · rfl
  · cases hr : rpos (fun x => decide (ver x ≤ w)) l with
    | none => rfl
    | some i =>
      simp only
      obtain ⟨x, rest, h1, _⟩ := rpos_some _ l i hr
      conv => rhs; rw [← List.take_append_drop i l]
      rw [h1, List.getLast?_append]
      have hs : ((x :: rest).getLast?).isSome := by simp
      obtain ⟨y, hy⟩ := Option.isSome_iff_exists.mp hs
      rw [hy]; rfl

theorem relInv_frame {s s' : State} (i : RelInv s) (he : s'.edges = s.edges) (hc : s'.cur = s.cur)
    (hf : s'.freeEdges = s.freeEdges) (hn : s'.nextEdge = s.nextEdge) : RelInv s' := by
  refine ⟨?_, ?_, ?_, ?_, ?_, ?_⟩
  · intro e l h; rw [he] at h ⊢; exact i.sync e l h
  · rw [hc]; exact i.curPos
  · intro j hj; rw [hf] at hj; rw [he]; exact i.freeDead j hj
  · rw [hf]; exact i.freeNodup
  · intro j hj; rw [hf] at hj; rw [hn]; exact i.freeLt j hj
  · intro j hj; rw [hn] at hj; rw [he]; exact i.beyondDead j hj

theorem relInv_step (lg : Bool) {s : State} (i : RelInv s) (op : Op) : RelInv (stepG lg s op).1 := by
  cases op with
  | createNode l => exact relInv_frame i rfl rfl rfl rfl
  | setProp n k v =>
    simp only [stepG]; split
    · exact i
    · exact relInv_frame i rfl rfl rfl rfl
  | removeProp n k => exact relInv_frame i rfl rfl rfl rfl
  | addLabel n l =>
    simp only [stepG]; split
    · exact i
    · exact relInv_frame i rfl rfl rfl rfl
  | removeLabel n l =>
    simp only [stepG]; split
    · exact i
    · split
      · exact i
      · exact relInv_frame i rfl rfl rfl rfl
  | deleteNode n =>
    simp only [stepG]; split
    · exact i
    · exact relInv_killEdges _ (relInv_frame i rfl rfl rfl rfl)
  | createEdge a b props =>
    simp only [stepG]; split
    · exact i
    · split
      · exact i
      · cases hfree : s.freeEdges with
        | nil =>
          simp only [popId]
          refine ⟨?_, i.curPos, ?_, List.nodup_nil, ?_, ?_⟩
          · intro e l h
            dsimp only at h ⊢
            by_cases he : e = s.nextEdge
            · subst he; rw [upd_same] at h; simp at h
            · rw [upd_other _ _ _ _ he] at h ⊢; exact i.sync e l h
          · intro j hj; simp at hj
          · intro j hj; simp at hj
          · intro j hj
            dsimp only at hj ⊢
            rw [upd_other _ _ _ _ (by omega)]
            exact i.beyondDead j (by omega)
        | cons f rest =>
          simp only [popId]
          have hnd : f ∉ rest ∧ rest.Nodup := by
            have := i.freeNodup; rw [hfree] at this; exact List.nodup_cons.mp this
          have hflt : f < s.nextEdge := i.freeLt f (by rw [hfree]; exact List.mem_cons_self)
          refine ⟨?_, i.curPos, ?_, hnd.2, ?_, ?_⟩
          · intro e l h
            dsimp only at h ⊢
            by_cases he : e = f
            · subst he; rw [upd_same] at h; simp at h
            · rw [upd_other _ _ _ _ he] at h ⊢; exact i.sync e l h
          · intro j hj
            dsimp only at hj ⊢
            have hne : j ≠ f := fun h => hnd.1 (h ▸ hj)
            rw [upd_other _ _ _ _ hne]
            exact i.freeDead j (by rw [hfree]; exact List.mem_cons_of_mem _ hj)
          · intro j hj
            exact i.freeLt j (by rw [hfree]; exact List.mem_cons_of_mem _ hj)
          · intro j hj
            dsimp only at hj ⊢
            rw [upd_other _ _ _ _ (by omega)]
            exact i.beyondDead j hj
  | setEdgeProp e k v =>
    simp only [stepG]; split
    · exact i
    · refine ⟨?_, i.curPos, ?_, i.freeNodup, i.freeLt, ?_⟩
      · intro e' l h
        dsimp only at h ⊢
        by_cases he : e' = e
        · subst he; rw [upd_same] at h ⊢; exact setEdge_sync _ _ _ _ l h
        · rw [upd_other _ _ _ _ he] at h ⊢; exact i.sync e' l h
      · intro j hj
        dsimp only at hj ⊢
        by_cases he : j = e
        · subst he; rw [upd_same, setEdge_live]; exact i.freeDead j hj
        · rw [upd_other _ _ _ _ he]; exact i.freeDead j hj
      · intro j hj
        dsimp only at hj ⊢
        by_cases he : j = e
        · subst he; rw [upd_same, setEdge_live]; exact i.beyondDead j hj
        · rw [upd_other _ _ _ _ he]; exact i.beyondDead j hj
  | deleteEdge e =>
    simp only [stepG]; split
    · exact i
    · exact relInv_killEdge i e
  | txn top =>
    have hle : s.cur ≤ (Txn.step s.txn top).1.core.cur := Txn.shape_cur_le (Txn.step_shape s.txn top)
    have base : RelInv { s with txn := (Txn.step s.txn top).1 } :=
      ⟨i.sync, Nat.le_trans i.curPos hle, i.freeDead, i.freeNodup, i.freeLt, i.beyondDead⟩
    cases top with
    | gc w =>
      simp only [stepG]
      refine ⟨?_, base.curPos, ?_, base.freeNodup, base.freeLt, ?_⟩
      · intro e l h
        simp only [gcStore] at h ⊢
        rw [gcList_getLast] at h
        exact i.sync e l h
      · intro j hj; exact i.freeDead j hj
      · intro j hj; exact i.beyondDead j hj
    | _ => exact base

theorem relInv_foldl (lg : Bool) {s : State} (i : RelInv s) (ops : List Op) :
    RelInv (ops.foldl (fun s op => (stepG lg s op).1) s) := by
  induction ops generalizing s with
  | nil => exact i
  | cons op ops ih => exact ih (relInv_step lg i op)

theorem relInv_exec (ops : List Op) : RelInv (exec ops) := relInv_foldl false relInv_init ops
