/-
Facts about the bit-level `i64 as f64` model of `SgModel.Model.PV` (`F64.cast`): it never
produces a NaN and it is weakly monotone in the numeric order of non-NaN floats (`ieeeKey`).
-/
import SgModel.Model.PV
namespace SgModel.PV.F64

/-- the rounded 53-bit significand of `n` whose top bit is bit `e` -/
def sig (e n : Nat) : Nat :=
  if e ≤ 52 then n * 2 ^ (52 - e)
  else
    let s := e - 52
    let q := n / 2 ^ s
    let r := n % 2 ^ s
    let h := 2 ^ (s - 1)
    if h < r || (r = h && q % 2 = 1) then q + 1 else q

theorem ofNat_eq (n : Nat) (h : n ≠ 0) :
    ofNat n = (n.log2 + 1023) * 0x10000000000000 + (sig n.log2 n - 0x10000000000000) := by
  unfold ofNat sig
  rw [if_neg h]
  by_cases he : n.log2 ≤ 52
  · simp only [if_pos he]
  · simp only [if_neg he]

theorem sig_small (e n m : Nat) (he : e ≤ 52) (h1 : 2 ^ e ≤ n) (hnm : n ≤ m) (h2 : m < 2 ^ (e + 1)) :
    0x10000000000000 ≤ sig e n ∧ sig e n ≤ sig e m ∧ sig e m ≤ 0x20000000000000 := by
  unfold sig
  simp only [if_pos he]
  have hp : 2 ^ e * 2 ^ (52 - e) = 0x10000000000000 := by
    rw [← Nat.pow_add]; have : e + (52 - e) = 52 := by omega
    rw [this]
  have hp2 : 2 ^ (e + 1) * 2 ^ (52 - e) = 0x20000000000000 := by
    rw [← Nat.pow_add]; have : e + 1 + (52 - e) = 53 := by omega
    rw [this]
  refine ⟨?_, Nat.mul_le_mul_right _ hnm, ?_⟩
  · rw [← hp]; exact Nat.mul_le_mul_right _ h1
  · rw [← hp2]; exact Nat.mul_le_mul_right _ (Nat.le_of_lt h2)

theorem sig_big (e n m : Nat) (he : 52 < e) (he' : e ≤ 63) (h1 : 2 ^ e ≤ n) (hnm : n ≤ m)
    (h2 : m < 2 ^ (e + 1)) :
    0x10000000000000 ≤ sig e n ∧ sig e n ≤ sig e m ∧ sig e m ≤ 0x20000000000000 := by
  have hc : e = 53 ∨ e = 54 ∨ e = 55 ∨ e = 56 ∨ e = 57 ∨ e = 58 ∨ e = 59 ∨ e = 60 ∨ e = 61 ∨
      e = 62 ∨ e = 63 := by omega
  unfold sig
  rcases hc with h | h | h | h | h | h | h | h | h | h | h <;> subst h <;>
    simp only [Nat.reduceLeDiff, if_false, Nat.reduceSub, Nat.reducePow, Nat.reduceAdd,
      Bool.or_eq_true, Bool.and_eq_true, decide_eq_true_eq] at h1 h2 ⊢ <;>
    (split <;> split <;> omega)
theorem sig_spec (e n m : Nat) (he' : e ≤ 63) (h1 : 2 ^ e ≤ n) (hnm : n ≤ m)
    (h2 : m < 2 ^ (e + 1)) :
    0x10000000000000 ≤ sig e n ∧ sig e n ≤ sig e m ∧ sig e m ≤ 0x20000000000000 := by
  by_cases he : e ≤ 52
  · exact sig_small e n m he h1 hnm h2
  · exact sig_big e n m (by omega) he' h1 hnm h2

theorem log2_le_63 (n : Nat) (h0 : n ≠ 0) (hn : n ≤ 0x8000000000000000) : n.log2 ≤ 63 := by
  have : n.log2 < 64 := (Nat.log2_lt h0).2 (by omega)
  omega

/-- bounds (A) -/
theorem ofNat_bounds (n : Nat) (h0 : n ≠ 0) (hn : n ≤ 0x8000000000000000) :
    (n.log2 + 1023) * 0x10000000000000 ≤ ofNat n ∧
      ofNat n ≤ (n.log2 + 1024) * 0x10000000000000 := by
  have hs := sig_spec n.log2 n n (log2_le_63 n h0 hn) (Nat.log2_self_le h0) (Nat.le_refl _)
    Nat.lt_log2_self
  rw [ofNat_eq n h0]
  generalize sig n.log2 n = s at hs ⊢
  generalize n.log2 = e
  refine ⟨Nat.le_add_right _ _, ?_⟩
  omega

theorem log2_mono (n m : Nat) (h0 : n ≠ 0) (hnm : n ≤ m) : n.log2 ≤ m.log2 := by
  have hm : m ≠ 0 := by omega
  exact (Nat.le_log2 hm).2 (Nat.le_trans (Nat.log2_self_le h0) hnm)

theorem ofNat_mono (n m : Nat) (hnm : n ≤ m) (hm : m ≤ 0x8000000000000000) :
    ofNat n ≤ ofNat m := by
  by_cases h0 : n = 0
  · subst h0; simp [ofNat]
  · have hm0 : m ≠ 0 := by omega
    have hle := log2_mono n m h0 hnm
    by_cases heq : n.log2 = m.log2
    · have hs := sig_spec m.log2 n m (log2_le_63 m hm0 hm) (heq ▸ Nat.log2_self_le h0) hnm
        Nat.lt_log2_self
      rw [ofNat_eq n h0, ofNat_eq m hm0, heq]
      generalize sig m.log2 n = s at hs ⊢
      generalize sig m.log2 m = t at hs ⊢
      generalize m.log2 = e
      omega
    · have hA := ofNat_bounds n h0 (by omega)
      have hB := ofNat_bounds m hm0 hm
      have hlt : n.log2 + 1 ≤ m.log2 := by omega
      have := Nat.mul_le_mul_right 0x10000000000000 (Nat.add_le_add_right hlt 1023)
      generalize n.log2 = e at *
      generalize m.log2 = f at *
      omega

theorem ofNat_pos (n : Nat) (h0 : n ≠ 0) (hn : n ≤ 0x8000000000000000) : 0 < ofNat n := by
  have := ofNat_bounds n h0 hn
  omega

theorem ofNat_two63 : ofNat 0x8000000000000000 = 0x43E0000000000000 := by decide +kernel

theorem ofNat_le (n : Nat) (hn : n ≤ 0x8000000000000000) : ofNat n ≤ 0x43E0000000000000 := by
  rw [← ofNat_two63]; exact ofNat_mono n _ hn (Nat.le_refl _)

theorem clampI64_range (i : Int) :
    -0x8000000000000000 ≤ clampI64 i ∧ clampI64 i ≤ 0x7FFFFFFFFFFFFFFF := by
  unfold clampI64; split
  · omega
  · split <;> omega

theorem clampI64_mono (i j : Int) (h : i ≤ j) : clampI64 i ≤ clampI64 j := by
  unfold clampI64
  split <;> split <;> (try split) <;> (try split) <;> omega

theorem ieeeKey_ofInt (i : Int) (h1 : -0x8000000000000000 ≤ i) (h2 : i ≤ 0x7FFFFFFFFFFFFFFF) :
    isNaN (ofInt i) = false ∧
      ieeeKey (ofInt i) = if 0 ≤ i then (ofNat i.toNat : Int) else -1 - (ofNat (-i).toNat : Int) := by
  unfold ofInt
  by_cases hi : 0 ≤ i
  · have hb := ofNat_le i.toNat (by omega)
    simp only [if_pos hi]
    refine ⟨?_, ?_⟩
    · simp only [isNaN, decide_eq_false_iff_not]; omega
    · unfold ieeeKey totalKey
      rw [if_neg (by omega), if_pos (by omega)]
  · have hb := ofNat_le (-i).toNat (by omega)
    have hp := ofNat_pos (-i).toNat (by omega) (by omega)
    simp only [if_neg hi]
    refine ⟨?_, ?_⟩
    · simp only [isNaN, decide_eq_false_iff_not]; omega
    · unfold ieeeKey totalKey
      rw [if_neg (by omega), if_neg (by omega)]
      omega

/-- `i64 as f64` is never NaN -/
theorem cast_noNaN (i : Int) : isNaN (cast i) = false := by
  have hr := clampI64_range i
  exact (ieeeKey_ofInt _ hr.1 hr.2).1

/-- `i64 as f64` is (weakly) monotone in the numeric order of non-NaN floats -/
theorem cast_mono (i j : Int) (h : i ≤ j) : ieeeKey (cast i) ≤ ieeeKey (cast j) := by
  have hi := clampI64_range i
  have hj := clampI64_range j
  have hij := clampI64_mono i j h
  unfold cast
  generalize clampI64 i = a at *
  generalize clampI64 j = b at *
  rw [(ieeeKey_ofInt a hi.1 hi.2).2, (ieeeKey_ofInt b hj.1 hj.2).2]
  by_cases ha : 0 ≤ a
  · have hb : 0 ≤ b := by omega
    rw [if_pos ha, if_pos hb]
    have := ofNat_mono a.toNat b.toNat (by omega) (by omega)
    omega
  · by_cases hb : 0 ≤ b
    · rw [if_neg ha, if_pos hb]; omega
    · rw [if_neg ha, if_neg hb]
      have := ofNat_mono (-b).toNat (-a).toNat (by omega) (by omega)
      omega

end SgModel.PV.F64
