import SgModel.Lemmas.SnapJsonUndo
/-!
C13 with dedup keys, continued: every line of the import keeps `UInv`, and from `UInv` the
rollback gives back the original logical graph.
-/
namespace SgModel.SnapJson

theorem uinv_of_sameAbove' {st0 : St} {s : Imp} (h : UInv st0 s) {st' : St} {j' : List Undo}
    (hs : SameAbove st0.nextNode s.st st') (hj : j' = s.journal) (remap' : List (Nat × Nat)) (m : Nat) :
    UInv st0 { s with st := st', journal := j', remap := remap', nMerged := m } := by
  subst hj
  exact uinv_of_sameAbove h hs remap' m

theorem created_ge {st0 : St} {s : Imp} (h : UInv st0 s) {id : Nat} (hid : id ∈ s.created) :
    st0.nextNode ≤ id :=
  (h.created_iff id (h.created_sub id hid)).mpr hid

theorem uinv_merge {st0 : St} {s : Imp} (h : UInv st0 s) (eid : Nat) (pvs : List (Str × PV))
    (labels : List Str) (remap' : List (Nat × Nat)) (m : Nat) :
    let jr' := true && !s.created.contains eid
    let r1 := pvs.foldl (mergeProp jr' eid) (s.st, s.journal)
    let r2 := labels.foldl (mergeLabel false jr' eid) r1
    UInv st0 { s with st := r2.1, journal := r2.2, remap := remap', nMerged := m } := by
  intro jr' r1 r2
  by_cases hc : s.created.contains eid = true
  · have hjr : jr' = false := by
      show (true && !s.created.contains eid) = false
      rw [hc]; rfl
    have hge : st0.nextNode ≤ eid := created_ge h (by simpa using hc)
    have a1 := sameAbove_foldl_mergeProp st0.nextNode eid hge pvs s.st s.journal
    have a2 := sameAbove_foldl_mergeLabel st0.nextNode eid hge labels
      (pvs.foldl (mergeProp false eid) (s.st, s.journal)).1 (pvs.foldl (mergeProp false eid) (s.st, s.journal)).2
    have e1 : r1 = pvs.foldl (mergeProp false eid) (s.st, s.journal) := by simp only [r1, hjr]
    have e2 : r2 = labels.foldl (mergeLabel false false eid) (pvs.foldl (mergeProp false eid) (s.st, s.journal)) := by
      simp only [r2, e1, hjr]
    rw [e2]
    exact uinv_of_sameAbove' h (a1.1.trans a2.1) (a2.2.trans a1.2) remap' m
  · have hc' : s.created.contains eid = false := by simpa using hc
    have hjr : jr' = true := by
      show (true && !s.created.contains eid) = true
      rw [hc']; rfl
    have a1 := undoes_foldl_mergeProp eid pvs s.st s.journal h.nd
    have hnd1 : (nodeIds (pvs.foldl (mergeProp true eid) (s.st, s.journal)).1).Nodup := by
      rw [a1.ids]; exact h.nd
    have a2 := undoes_foldl_mergeLabel eid labels
      (pvs.foldl (mergeProp true eid) (s.st, s.journal)).1 (pvs.foldl (mergeProp true eid) (s.st, s.journal)).2 hnd1
    have e1 : r1 = pvs.foldl (mergeProp true eid) (s.st, s.journal) := by simp only [r1, hjr]
    have e2 : r2 = labels.foldl (mergeLabel false true eid) (pvs.foldl (mergeProp true eid) (s.st, s.journal)) := by
      simp only [r2, e1, hjr]
    rw [e2]
    exact uinv_of_undoes h (a1.trans a2) remap' m

theorem uinv_step {st0 : St} {s s' : Imp} (h : UInv st0 s) (ks : List Str) (l : Line)
    (hs : stepLine false true ks s l = some s') : UInv st0 s' := by
  cases l with
  | bad => simp [stepLine] at hs
  | skip =>
    simp only [stepLine, Option.some.injEq] at hs
    subst hs; exact h
  | hier hd =>
    simp only [stepLine, Option.some.injEq] at hs
    subst hs
    exact ⟨h.nodes, h.created_iff, h.created_sub, h.created_nd, h.fresh, h.nextN, h.nd, h.edges,
      h.jedges, h.nextE, h.hier⟩
  | node id labels props =>
    simp only [stepLine] at hs
    cases hf : findExisting s.dedup labels props ks with
    | some eid =>
      simp only [hf, Option.some.injEq] at hs
      subst hs
      exact uinv_merge h eid (decKV false props) labels ((id, eid) :: s.remap) (s.nMerged + 1)
    | none =>
      simp only [hf, Option.some.injEq] at hs
      subst hs
      have hnid : ∀ x ∈ nodeIds s.st, x ≠ s.st.nextNode := fun x hx e => by
        have := h.fresh x hx; omega
      refine ⟨?_, ?_, ?_, ?_, ?_, ?_, ?_, ?_, h.jedges, h.nextE, h.hier⟩
      · show s.journal.foldl undoN ((createNode false labels (decKV false props) s.st).1.nodes.filter
            (isPre st0.nextNode)) = st0.nodes
        simp only [createNode, Bool.false_and, Bool.false_eq_true, ↓reduceIte, List.filter_append]
        have : List.filter (isPre st0.nextNode)
            [{ id := s.st.nextNode, labels := labels, row := (decKV false props).filter (fun kv => !kv.2.isScalar),
               col := nonNull (decKV false props) }] = [] := by
          simp only [List.filter_cons, isPre, List.filter_nil]
          have := h.nextN
          simp only [decide_eq_true_eq]
          rw [if_neg (by omega)]
        rw [this, List.append_nil]
        exact h.nodes
      · intro x hx
        simp only [createNode, nodeIds, List.map_append, List.map_cons, List.map_nil, List.mem_append,
          List.mem_singleton] at hx
        simp only [createNode, List.mem_cons]
        rcases hx with hx | hx
        · have := h.created_iff x hx
          have hne := hnid x hx
          constructor
          · intro q; exact Or.inr (this.mp q)
          · rintro (q | q)
            · exact absurd q hne
            · exact this.mpr q
        · subst hx
          exact ⟨fun _ => Or.inl rfl, fun _ => h.nextN⟩
      · intro x hx
        simp only [createNode, List.mem_cons] at hx
        simp only [createNode, nodeIds, List.map_append, List.map_cons, List.map_nil, List.mem_append,
          List.mem_singleton]
        rcases hx with hx | hx
        · exact Or.inr hx
        · exact Or.inl (h.created_sub x hx)
      · simp only [createNode, List.nodup_cons]
        refine ⟨?_, h.created_nd⟩
        intro q
        exact hnid _ (h.created_sub _ q) rfl
      · intro x hx
        simp only [createNode, nodeIds, List.map_append, List.map_cons, List.map_nil, List.mem_append,
          List.mem_singleton] at hx
        simp only [createNode]
        rcases hx with hx | hx
        · have := h.fresh x hx; omega
        · omega
      · simp only [createNode]
        have := h.nextN; omega
      · simp only [createNode, nodeIds, List.map_append, List.map_cons, List.map_nil]
        rw [List.nodup_append]
        refine ⟨h.nd, by simp, ?_⟩
        intro a ha b hb
        simp only [List.mem_singleton] at hb
        subst hb
        exact hnid a ha
      · obtain ⟨ne, h1, h2⟩ := h.edges
        refine ⟨ne, by simp only [createNode]; exact h1, ?_⟩
        intro e he
        obtain ⟨p, q⟩ := h2 e he
        refine ⟨p, ?_⟩
        simp only [createNode, List.mem_cons]
        rcases q with q | q | q
        · exact Or.inl (Or.inr q)
        · exact Or.inr (Or.inl (Or.inr q))
        · exact Or.inr (Or.inr q)
  | edge eid src tgt ty props =>
    simp only [stepLine] at hs
    cases ha : lookupNat src s.remap with
    | none => simp [ha] at hs
    | some a =>
      cases hb : lookupNat tgt s.remap with
      | none => simp [ha, hb] at hs
      | some b =>
        simp only [ha, hb, Option.some.injEq, Bool.true_and] at hs
        subst hs
        refine ⟨?_, h.created_iff, h.created_sub, h.created_nd, h.fresh, h.nextN, h.nd, ?_, ?_, ?_, h.hier⟩
        · show (if (!s.created.contains a && !s.created.contains b) = true then Undo.edge s.st.nextEdge :: s.journal
              else s.journal).foldl undoN ((createEdge a b ty (decKV false props) s.st).1.nodes.filter
              (isPre st0.nextNode)) = st0.nodes
          simp only [createEdge]
          by_cases hp : (!s.created.contains a && !s.created.contains b) = true
          · simp only [hp, ↓reduceIte, List.foldl_cons, undoN]; exact h.nodes
          · simp only [hp, ↓reduceIte]; exact h.nodes
        · obtain ⟨ne, h1, h2⟩ := h.edges
          refine ⟨ne ++ [{ id := s.st.nextEdge, src := a, tgt := b, ty := ty, props := decKV false props }],
            by simp only [createEdge]; rw [h1, List.append_assoc], ?_⟩
          intro e he
          rcases List.mem_append.mp he with he | he
          · obtain ⟨p, q⟩ := h2 e he
            refine ⟨p, ?_⟩
            rcases q with q | q | q
            · exact Or.inl q
            · exact Or.inr (Or.inl q)
            · refine Or.inr (Or.inr ?_)
              show Undo.edge e.id ∈ (if _ then _ else _)
              split
              · exact List.mem_cons_of_mem _ q
              · exact q
          · simp only [List.mem_singleton] at he
            subst he
            refine ⟨h.nextE, ?_⟩
            by_cases hp : (!s.created.contains a && !s.created.contains b) = true
            · refine Or.inr (Or.inr ?_)
              show Undo.edge s.st.nextEdge ∈ (if _ then _ else _)
              rw [if_pos hp]; exact List.mem_cons_self
            · have : s.created.contains a = true ∨ s.created.contains b = true := by
                cases h1 : s.created.contains a <;> cases h2 : s.created.contains b <;> simp_all
              rcases this with q | q
              · exact Or.inl (by simpa using q)
              · exact Or.inr (Or.inl (by simpa using q))
        · intro x hx
          have hx' : Undo.edge x ∈ (if (!s.created.contains a && !s.created.contains b) = true
              then Undo.edge s.st.nextEdge :: s.journal else s.journal) := hx
          split at hx'
          · rcases List.mem_cons.mp hx' with q | q
            · injection q with q; subst q; exact h.nextE
            · exact h.jedges x q
          · exact h.jedges x hx'
        · show st0.nextEdge ≤ (createEdge a b ty (decKV false props) s.st).1.nextEdge
          simp only [createEdge]
          have := h.nextE; omega

theorem uinv_fold {st0 : St} (ks : List Str) (ls : List Line) : ∀ (s : Imp), UInv st0 s →
    UInv st0 (foldLines false true ks s ls).1 := by
  induction ls with
  | nil => intro s h; exact h
  | cons l r ih =>
    intro s h
    simp only [foldLines]
    cases hs : stepLine false true ks s l with
    | none => exact h
    | some s' => exact ih s' (uinv_step h ks l hs)

/-- from the invariant: undo the journal, delete the created nodes — the original nodes,
relationships and hierarchy declarations are back -/
theorem rollback_of_uinv {st0 : St} (hwf : StoreWF2 st0) {s : Imp} (h : UInv st0 s) :
    (rollback s).nodes = st0.nodes ∧ (rollback s).edges = st0.edges ∧ (rollback s).hier = st0.hier := by
  have hroll : rollback s = deleteAll s.created (s.journal.foldl undo1 s.st) := rfl
  have hJids : nodeIds (s.journal.foldl undo1 s.st) = nodeIds s.st := by
    unfold nodeIds; rw [foldl_undo1_nodes, foldl_undoN_ids]
  have hcont : ∀ x ∈ nodeIds s.st, s.created.contains x = !decide (x < st0.nextNode) := by
    intro x hx
    have := h.created_iff x hx
    by_cases hlt : x < st0.nextNode
    · have : x ∉ s.created := fun q => by have := this.mpr q; omega
      simp [hlt, this]
    · have : x ∈ s.created := this.mp (by omega)
      simp [hlt, this]
  have hcreated_ge : ∀ x ∈ s.created, st0.nextNode ≤ x := fun x hx => created_ge h hx
  refine ⟨?_, ?_, ?_⟩
  · rw [hroll, deleteAll_nodes, foldl_undo1_nodes]
    have : List.filter (fun m => !s.created.contains m.id) (s.journal.foldl undoN s.st.nodes)
        = List.filter (isPre st0.nextNode) (s.journal.foldl undoN s.st.nodes) := by
      apply List.filter_congr
      intro m hm
      have hid : m.id ∈ nodeIds s.st := by
        have : m.id ∈ (s.journal.foldl undoN s.st.nodes).map (·.id) := List.mem_map_of_mem hm
        rw [foldl_undoN_ids] at this; exact this
      rw [hcont m.id hid]; simp [isPre]
    rw [this, foldl_undoN_filter]
    exact h.nodes
  · obtain ⟨ne, h1, h2⟩ := h.edges
    rw [hroll, deleteAll_edges s.created _ h.created_nd (by rw [hJids]; exact h.created_sub),
      foldl_undo1_edges, foldl_undoE, List.filter_filter, h1, List.filter_append]
    have e1 : List.filter (fun a => (!s.created.contains a.src && !s.created.contains a.tgt)
        && !jEdge s.journal a.id) st0.edges = st0.edges := by
      rw [List.filter_eq_self]
      intro e he
      obtain ⟨hs, ht⟩ := hwf.closed e he
      have hs' : s.created.contains e.src = false := by
        rw [Bool.eq_false_iff]; intro q
        have := hcreated_ge e.src (by simpa using q)
        simp only [nodeIds, List.mem_map] at hs
        obtain ⟨n, hn, hn'⟩ := hs
        have := hwf.fresh n hn; omega
      have ht' : s.created.contains e.tgt = false := by
        rw [Bool.eq_false_iff]; intro q
        have := hcreated_ge e.tgt (by simpa using q)
        simp only [nodeIds, List.mem_map] at ht
        obtain ⟨n, hn, hn'⟩ := ht
        have := hwf.fresh n hn; omega
      have hj : jEdge s.journal e.id = false := by
        rw [Bool.eq_false_iff]; intro q
        have := h.jedges e.id ((jEdge_iff _ _).mp q)
        have := hwf.efresh e he; omega
      show ((!s.created.contains e.src && !s.created.contains e.tgt) && !jEdge s.journal e.id) = true
      rw [hs', ht', hj]; rfl
    have e2 : List.filter (fun a => (!s.created.contains a.src && !s.created.contains a.tgt)
        && !jEdge s.journal a.id) ne = [] := by
      rw [List.filter_eq_nil_iff]
      intro e he
      show ¬ (((!s.created.contains e.src && !s.created.contains e.tgt) && !jEdge s.journal e.id) = true)
      rcases (h2 e he).2 with q | q | q
      · have : s.created.contains e.src = true := by simpa using q
        rw [this]; simp
      · have : s.created.contains e.tgt = true := by simpa using q
        rw [this]; simp
      · have : jEdge s.journal e.id = true := (jEdge_iff _ _).mpr q
        rw [this]; simp
    rw [e1, e2, List.append_nil]
  · rw [hroll, deleteAll_hier, foldl_undo1_hier]; exact h.hier

theorem rollback_logical_of_uinv {st0 : St} (hwf : StoreWF2 st0) {s : Imp} (h : UInv st0 s) :
    logical (rollback s) = logical st0 := by
  obtain ⟨a, b, c⟩ := rollback_of_uinv hwf h
  unfold logical nodeIds
  rw [a, b, c]

/-- a failed import — any dedup keys, any header labels, any line sequence — leaves the
nodes, relationships and hierarchy declarations exactly as they were -/
theorem failed_import_restores (ks hdr : List Str) (st : St) (lines : List Line) (hwf : StoreWF2 st)
    (hfail : (importLines false true ks hdr st lines).2 = none) :
    (importLines false true ks hdr st lines).1.nodes = st.nodes
    ∧ (importLines false true ks hdr st lines).1.edges = st.edges
    ∧ (importLines false true ks hdr st lines).1.hier = st.hier := by
  have hinv := uinv_fold (st0 := st) ks lines
    { st := st, dedup := if ks.isEmpty then [] else prepopulate ks hdr st } (uinv_init hwf _)
  unfold importLines at hfail ⊢
  simp only at hfail ⊢
  cases hf : foldLines false true ks
      { st := st, dedup := if ks.isEmpty then [] else prepopulate ks hdr st } lines with
  | mk s ok =>
    rw [hf] at hinv hfail
    cases ok with
    | true => exact absurd hfail (by intro h; cases h)
    | false => exact rollback_of_uinv hwf hinv

end SgModel.SnapJson
