import SgModel.Lemmas.AlgoCount
/-!
Lemmas about built views (`ofEdges`, `buildView`) for C26.  Core Lean only.
-/
namespace SgModel.Algo

theorem succW_ofEdges {n : Nat} {es : List Edge} {u : Nat} (hu : u < n) :
    (ofEdges n es).succW u = outOf es u := by
  simp [View.succW, ofEdges, List.getD_eq_getElem?_getD, List.getElem?_map, List.getElem?_range hu]

theorem pred_ofEdges {n : Nat} {es : List Edge} {v : Nat} (hv : v < n) :
    (ofEdges n es).pred v = innOf es v := by
  simp [View.pred, ofEdges, List.getD_eq_getElem?_getD, List.getElem?_map, List.getElem?_range hv]

theorem mem_outOf {es : List Edge} {u : Nat} {p : Nat × Nat} : p ∈ outOf es u ↔ (u, p) ∈ es := by
  simp only [outOf, List.mem_filterMap]
  constructor
  · rintro ⟨e, he, h⟩
    split at h
    · rename_i h1
      simp only [Option.some.injEq] at h
      have : e = (u, p) := by rw [← h1, ← h]
      rw [← this]; exact he
    · cases h
  · intro h; exact ⟨(u, p), h, by simp⟩

theorem count_innOf {es : List Edge} {u v : Nat} :
    (innOf es v).count u = ((outOf es u).map (·.1)).count v := by
  unfold innOf outOf
  induction es with
  | nil => rfl
  | cons e t ih =>
    simp only [List.filterMap_cons]
    by_cases h1 : e.2.1 = v <;> by_cases h2 : e.1 = u <;>
      simp [h1, h2, List.count_cons, ih]

theorem wellFormed_ofEdges {n : Nat} {es : List Edge} (hes : ∀ e ∈ es, e.1 < n ∧ e.2.1 < n) :
    WellFormed (ofEdges n es) := by
  have hn : (ofEdges n es).n = n := rfl
  refine ⟨?_, ?_, ?_⟩
  · intro u hu v hv
    rw [hn] at hu ⊢
    simp only [View.succ, succW_ofEdges hu, List.mem_map] at hv
    obtain ⟨p, hp, rfl⟩ := hv
    exact (hes _ (mem_outOf.mp hp)).2
  · intro u hu v hv
    rw [hn] at hu ⊢
    rw [pred_ofEdges hu] at hv
    simp only [innOf, List.mem_filterMap] at hv
    obtain ⟨e, he, h⟩ := hv
    split at h
    · simp only [Option.some.injEq] at h
      rw [← h]; exact (hes e he).1
    · cases h
  · intro u v hu hv
    rw [hn] at hu hv
    rw [pred_ofEdges hv, count_innOf]
    simp only [View.succ, succW_ofEdges hu]

theorem mem_edgesOf_ofEdges {n : Nat} {es : List Edge} (hes : ∀ e ∈ es, e.1 < n ∧ e.2.1 < n) {e : Edge} :
    e ∈ edgesOf (ofEdges n es) ↔ e ∈ es := by
  have hn : (ofEdges n es).n = n := rfl
  simp only [edgesOf, hn, List.mem_flatMap, List.mem_range, List.mem_map]
  constructor
  · rintro ⟨u, hu, p, hp, rfl⟩
    rw [succW_ofEdges hu] at hp
    exact mem_outOf.mp hp
  · intro he
    refine ⟨e.1, (hes e he).1, e.2, ?_, rfl⟩
    rw [succW_ofEdges (hes e he).1]
    exact mem_outOf.mpr he

theorem indexOf?_lt {ids : List Nat} {x i : Nat} (h : indexOf? ids x = some i) : i < ids.length ∧ ids[i]? = some x := by
  simp only [indexOf?] at h
  split at h
  · rename_i hlt
    simp only [Option.some.injEq] at h
    subst h
    refine ⟨hlt, ?_⟩
    rw [List.getElem?_eq_getElem hlt]
    simp
  · cases h

theorem projEdge_some {ids : List Nat} {ty : Option Nat} {weighted : Bool}
    {e : Nat × Nat × Nat × Option Nat} {x : Edge} (h : projEdge ids ty weighted e = some x) :
    typeOk ty e.2.2.1 = true ∧ indexOf? ids e.1 = some x.1 ∧ indexOf? ids e.2.1 = some x.2.1
      ∧ x.2.2 = (if weighted then e.2.2.2.getD 1 else 1) := by
  unfold projEdge at h
  split at h
  · rename_i hty
    split at h
    · rename_i u v hu hv
      simp only [Option.some.injEq] at h
      subst h
      exact ⟨hty, hu, hv, rfl⟩
    · cases h
  · cases h

theorem projEdges_lt (st : Store) (label ty : Option Nat) (weighted : Bool) :
    ∀ e ∈ projEdges st label ty weighted,
      e.1 < (projNodes st label).length ∧ e.2.1 < (projNodes st label).length := by
  intro e he
  simp only [projEdges, List.mem_filterMap] at he
  obtain ⟨x, _, hx⟩ := he
  have := projEdge_some hx
  exact ⟨(indexOf?_lt this.2.1).1, (indexOf?_lt this.2.2.1).1⟩

end SgModel.Algo
