import SgModel.Model.Numeral
/-!
The checked accumulation of `from_str_radix` computes the mathematical value or fails,
for digit strings of any length.
-/
namespace SgModel.Numeral

theorem le_valueFrom (b : Nat) (hb : 1 ≤ b) (ds : List Nat) : ∀ acc, acc ≤ valueFrom b acc ds := by
  induction ds with
  | nil => intro acc; exact Nat.le_refl _
  | cons d rest ih =>
    intro acc
    show acc ≤ valueFrom b (acc * b + d) rest
    have h1 : acc ≤ acc * b := Nat.le_mul_of_pos_right acc hb
    exact Nat.le_trans (Nat.le_trans h1 (Nat.le_add_right _ _)) (ih _)

/-- `accChecked` = the value if it is within the bound, `none` otherwise — however long the
digit string is. -/
theorem accChecked_eq (b bound : Nat) (hb : 1 ≤ b) (ds : List Nat) :
    ∀ acc, acc ≤ bound →
      accChecked b bound acc ds
        = if valueFrom b acc ds ≤ bound then some (valueFrom b acc ds) else none := by
  induction ds with
  | nil => intro acc h; simp [accChecked, valueFrom, h]
  | cons d rest ih =>
    intro acc _
    have hv : valueFrom b acc (d :: rest) = valueFrom b (acc * b + d) rest := rfl
    rw [hv, accChecked]
    by_cases h1 : acc * b ≤ bound
    · by_cases h2 : acc * b + d ≤ bound
      · simp only [h1, h2, ↓reduceIte]; exact ih _ h2
      · have hge := le_valueFrom b hb rest (acc * b + d)
        have : ¬ valueFrom b (acc * b + d) rest ≤ bound := by omega
        simp [h1, h2, this]
    · have hge := le_valueFrom b hb rest (acc * b + d)
      have : ¬ valueFrom b (acc * b + d) rest ≤ bound := by omega
      simp [h1, this]

theorem base_pos (r : Radix) : 1 ≤ r.base := by cases r <;> decide

theorem magnitude_checked (n : Num) (bound : Nat) :
    accChecked n.radix.base bound 0 n.digits
      = if n.magnitude ≤ bound then some n.magnitude else none :=
  accChecked_eq _ _ (base_pos _) _ 0 (Nat.zero_le _)

end SgModel.Numeral
