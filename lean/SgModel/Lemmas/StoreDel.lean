import SgModel.Lemmas.StoreEdge
/-!
Helper lemmas for the graph-store model (C06), part 5: `delete_edge`, `delete_node`, and the
invariant over every step and every history.
-/
namespace SgModel.Store

theorem getD_clear {α : Type} (l : List α) (e e' : Nat) (d : α) :
    (if e < l.length then l.set e d else l).getD e' d = if e' = e then d else l.getD e' d := by
  by_cases hl : e < l.length
  · simp only [hl, if_true, getD_set_eq]
    by_cases h : e' = e <;> simp [h, hl]
  · simp only [hl, if_false]
    by_cases h : e' = e
    · subst h
      simp [List.getD_eq_getElem?_getD, List.getElem?_eq_none (Nat.le_of_not_lt hl)]
    · simp [h]

theorem getEdge_some {s : State} {e a b ty : Nat} {ps : Props}
    (h : getEdge s e = some (a, b, ty, ps)) : endpOf s e = (a, b) ∧ endpOf s e ≠ (0, 0) := by
  unfold getEdge at h
  by_cases h0 : endpOf s e = (0, 0)
  · simp [h0] at h
  · have hb : (endpOf s e == (0, 0)) = false := by simpa using h0
    rw [hb] at h
    simp only [Bool.false_eq_true, if_false] at h
    cases hty : edgeTypeOf s e with
    | none => rw [hty] at h; cases h
    | some t =>
      rw [hty] at h
      simp only [Option.some.injEq, Prod.mk.injEq] at h
      refine ⟨?_, h0⟩
      rw [← h.1, ← h.2.1]

theorem getEdge_of_live {s : State} (h : InvE s) {e : Nat} (hl : endpOf s e ≠ (0, 0)) :
    ∃ ty, getEdge s e = some ((endpOf s e).1, (endpOf s e).2, ty, (assocGet s.eprops e).getD [])
      ∧ edgeTypeOf s e = some ty := by
  obtain ⟨ti, h1, h2⟩ := h.typed e hl
  have hb : (endpOf s e == (0, 0)) = false := by simpa using hl
  have hty : edgeTypeOf s e = some (s.etypeTable[ti]'h2) := by
    unfold edgeTypeOf; rw [h1]; simp [List.getElem?_eq_getElem h2]
  refine ⟨s.etypeTable[ti]'h2, ?_, hty⟩
  unfold getEdge
  rw [hb, hty]; simp

theorem getEdge_none {s : State} (h : InvE s) {e : Nat} (hn : getEdge s e = none) :
    endpOf s e = (0, 0) := by
  apply Classical.byContradiction
  intro hl
  obtain ⟨ty, hg, _⟩ := getEdge_of_live h hl
  rw [hg] at hn; cases hn

theorem InvE.edge_del {s s' : State} (h : InvE s) (e src tgt : Nat)
    (hk : endpOf s e = (src, tgt)) (hlive : ((src, tgt) : Nat × Nat) ≠ (0, 0))
    (hendp : ∀ e', endpOf s' e' = if e' = e then (0, 0) else endpOf s e')
    (hty : ∀ e', typeIdOf s' e' = if e' = e then none else typeIdOf s e')
    (htbl : s'.etypeTable = s.etypeTable) (hnodes : s'.nodes = s.nodes)
    (hfn : s'.freeN = s.freeN) (hnn : s'.nextN = s.nextN)
    (hout : s'.outT = s.outT.remove src e) (hin : s'.inT = s.inT.remove tgt e)
    (hfe : s'.freeE = e :: s.freeE) (hne : s'.nextE = s.nextE)
    (hec : ∀ p ∈ s'.ecols, p ∈ s.ecols ∧ p.1.1 ≠ e) (hep : ∀ p ∈ s'.eprops, p ∈ s.eprops ∧ p.1 ≠ e)
    (hnc : s'.ncols = s.ncols) : InvE s' := by
  have hg : ∀ n, getNode s' n = getNode s n := fun n => by simp [getNode, hnodes]
  have hl : endpOf s e ≠ (0, 0) := by rw [hk]; exact hlive
  have hko : keyOut s' = fun e' => if e' = e then none else keyOut s e' := by
    funext e'; unfold keyOut; rw [hendp]
    by_cases he : e' = e <;> simp [he]
  have hki : keyIn s' = fun e' => if e' = e then none else keyIn s e' := by
    funext e'; unfold keyIn; rw [hendp]
    by_cases he : e' = e <;> simp [he]
  refine { out := ?_, inn := ?_, typed := ?_, untyped := ?_, node0 := ?_,
           freeE_dead := ?_, freeE_nodup := ?_, freeE_lt := ?_, nextE_dead := ?_, freeN_dead := ?_,
           freeN_pos := ?_, freeN_nodup := ?_, freeN_lt := ?_, nextN_dead := ?_, nextN_pos := ?_, tbl := ?_,
           ecols_live := ?_, eprops_live := ?_, ncols_live := ?_ }
  · rw [hko, hout]
    exact h.out.remove src tgt e (by simp [keyOut, hk, hlive])
  · rw [hki, hin]
    exact h.inn.remove tgt src e (by simp [keyIn, hk, hlive])
  · intro e' hl'
    rw [hendp] at hl'; rw [hty, htbl]
    by_cases he : e' = e
    · simp [he] at hl'
    · simp only [he, if_false] at hl' ⊢; exact h.typed e' hl'
  · intro e' hl'
    rw [hendp] at hl'; rw [hty]
    by_cases he : e' = e
    · simp [he]
    · simp only [he, if_false] at hl' ⊢; exact h.untyped e' hl'
  · rw [hg]; exact h.node0
  · intro e' hm
    rw [hfe] at hm; rw [hendp]
    by_cases he : e' = e
    · simp [he]
    · simp only [he, if_false]
      rcases List.mem_cons.mp hm with hm | hm
      · exact absurd hm he
      · exact h.freeE_dead e' hm
  · rw [hfe, List.nodup_cons]
    exact ⟨fun hm => hl (h.freeE_dead e hm), h.freeE_nodup⟩
  · intro e' hm
    rw [hfe] at hm; rw [hne]
    rcases List.mem_cons.mp hm with hm | hm
    · subst hm
      apply Nat.lt_of_not_le
      intro hle; exact hl (h.nextE_dead _ hle)
    · exact h.freeE_lt e' hm
  · intro e' hle
    rw [hne] at hle; rw [hendp]
    by_cases he : e' = e
    · simp [he]
    · simp only [he, if_false]; exact h.nextE_dead e' hle
  · intro n hm; rw [hfn] at hm; rw [hg]; exact h.freeN_dead n hm
  · intro n hm; rw [hfn] at hm; exact h.freeN_pos n hm
  · rw [hfn]; exact h.freeN_nodup
  · intro n hm; rw [hfn] at hm; rw [hnn]; exact h.freeN_lt n hm
  · intro n hle; rw [hnn] at hle; rw [hg]; exact h.nextN_dead n hle
  · rw [hnn]; exact h.nextN_pos
  · rw [htbl]; exact h.tbl
  · intro p hp
    have := hec p hp
    rw [hendp]; simp only [this.2, if_false]; exact h.ecols_live p this.1
  · intro p hp
    have := hep p hp
    rw [hendp]; simp only [this.2, if_false]; exact h.eprops_live p this.1
  · intro p hp; rw [hnc] at hp; rw [hg]; exact h.ncols_live p hp

/-- what `delete_edge` does to the point reads (both outcomes) -/
theorem deleteEdge_reads {s : State} (h : InvE s) (e : Nat) :
    (∀ e', endpOf (deleteEdge s e).1 e' = if e' = e then (0, 0) else endpOf s e')
    ∧ (deleteEdge s e).1.nodes = s.nodes := by
  unfold deleteEdge
  cases hg : getEdge s e with
  | none =>
    refine ⟨?_, rfl⟩
    intro e'
    by_cases he : e' = e
    · subst he; simp [getEdge_none h hg]
    · simp [he]
  | some q =>
    obtain ⟨a, b, ty, ps⟩ := q
    refine ⟨?_, rfl⟩
    intro e'
    show (if e < s.endp.length then s.endp.set e (0, 0) else s.endp).getD e' (0, 0) = _
    rw [getD_clear]; rfl

theorem invE_deleteEdge {s : State} (h : InvE s) (e : Nat) : InvE (deleteEdge s e).1 := by
  have hr := deleteEdge_reads h e
  unfold deleteEdge at hr ⊢
  cases hg : getEdge s e with
  | none => exact h
  | some q =>
    obtain ⟨a, b, ty, ps⟩ := q
    rw [hg] at hr
    obtain ⟨hk, hl⟩ := getEdge_some hg
    refine InvE.edge_del h e a b hk (hk ▸ hl) hr.1 ?_ rfl rfl rfl rfl rfl rfl rfl rfl ?_ ?_ rfl
    · intro e'
      show (if e < s.etypeIds.length then s.etypeIds.set e none else s.etypeIds).getD e' none = _
      rw [getD_clear]; rfl
    · intro p hp; exact mem_colClearRow hp
    · intro p hp; exact mem_assocErase hp

theorem inv_deleteEdge {s : State} (h : Inv s) (e : Nat) : Inv (deleteEdge s e).1 := by
  have hE := invE_deleteEdge h.toInvE e
  have hr := deleteEdge_reads h.toInvE e
  refine { toInvE := hE, ends := ?_ }
  intro e' hl
  have hg : ∀ n, getNode (deleteEdge s e).1 n = getNode s n := fun n => by simp [getNode, hr.2]
  rw [hr.1] at hl ⊢
  by_cases he : e' = e
  · simp [he] at hl
  · simp only [he, if_false] at hl ⊢
    rw [hg, hg]; exact h.ends e' hl

/-! ### delete_node -/

theorem foldl_deleteEdge {s : State} (h : InvE s) (ids : List Nat) :
    InvE (ids.foldl (fun acc e => (deleteEdge acc e).1) s)
    ∧ (ids.foldl (fun acc e => (deleteEdge acc e).1) s).nodes = s.nodes
    ∧ (∀ e', endpOf (ids.foldl (fun acc e => (deleteEdge acc e).1) s) e'
          = if e' ∈ ids then (0, 0) else endpOf s e') := by
  induction ids generalizing s with
  | nil => exact ⟨h, rfl, fun e' => by simp⟩
  | cons a as ih =>
    have h1 := invE_deleteEdge h a
    have r1 := deleteEdge_reads h a
    obtain ⟨i1, i2, i3⟩ := ih h1
    simp only [List.foldl_cons]
    refine ⟨i1, by rw [i2, r1.2], ?_⟩
    intro e'
    rw [i3, r1.1]
    by_cases hm : e' ∈ as
    · simp [hm]
    · by_cases he : e' = a
      · simp [he]
      · simp [hm, he]

theorem getNode_dropNode (s : State) (n m : Nat) (r : NodeRec) :
    getNode (dropNode s n r) m = if m = n then none else getNode s m := by
  show (s.nodes.set n none).getD m none = _
  rw [getD_set_eq]
  by_cases hm : m = n
  · subst hm; simp
    intro hle; simp [List.getElem?_eq_none hle]
  · simp [hm, getNode]

theorem invE_dropNode {s : State} (h : InvE s) (n : Nat) (r : NodeRec) (hn : getNode s n = some r) :
    InvE (dropNode s n r) := by
  have hg := getNode_dropNode s n
  have he : ∀ e, endpOf (dropNode s n r) e = endpOf s e := fun e => rfl
  have ht : ∀ e, typeIdOf (dropNode s n r) e = typeIdOf s e := fun e => rfl
  have hlive : getNode s n ≠ none := by rw [hn]; simp
  refine { out := ?_, inn := ?_, typed := ?_, untyped := ?_, node0 := ?_,
           freeE_dead := ?_, freeE_nodup := ?_, freeE_lt := ?_, nextE_dead := ?_, freeN_dead := ?_,
           freeN_pos := ?_, freeN_nodup := ?_, freeN_lt := ?_, nextN_dead := ?_, nextN_pos := ?_, tbl := ?_,
           ecols_live := ?_, eprops_live := ?_, ncols_live := ?_ }
  · rw [keyOut_congr he]; exact h.out
  · rw [keyIn_congr he]; exact h.inn
  · exact h.typed
  · exact h.untyped
  · rw [hg]; split
    · rfl
    · exact h.node0
  · exact h.freeE_dead
  · exact h.freeE_nodup
  · exact h.freeE_lt
  · exact h.nextE_dead
  · intro m hm
    rw [hg]
    by_cases hmn : m = n
    · simp [hmn]
    · simp only [hmn, if_false]
      rcases List.mem_cons.mp hm with hm | hm
      · exact absurd hm hmn
      · exact h.freeN_dead m hm
  · intro m hm
    rcases List.mem_cons.mp hm with hm | hm
    · subst hm; intro h0; subst h0; exact hlive h.node0
    · exact h.freeN_pos m hm
  · show (n :: s.freeN).Nodup
    rw [List.nodup_cons]
    exact ⟨fun hm => hlive (h.freeN_dead n hm), h.freeN_nodup⟩
  · intro m hm
    show m < s.nextN
    rcases List.mem_cons.mp hm with hm | hm
    · subst hm
      apply Nat.lt_of_not_le
      intro hle; exact hlive (h.nextN_dead _ hle)
    · exact h.freeN_lt m hm
  · intro m hle
    rw [hg]; split
    · rfl
    · exact h.nextN_dead m hle
  · exact h.nextN_pos
  · exact h.tbl
  · exact h.ecols_live
  · exact h.eprops_live
  · intro p hp
    have := mem_colClearRow hp
    rw [hg]; simp only [this.2, if_false]
    exact h.ncols_live p this.1

theorem inv_deleteNode {s : State} (h : Inv s) (n : Nat) : Inv (deleteNode s n).1 := by
  unfold deleteNode deleteNodeWith
  cases hn : getNode s n with
  | none => exact h
  | some r =>
    simp only
    have hd := invE_dropNode h.toInvE n r hn
    obtain ⟨f1, f2, f3⟩ := foldl_deleteEdge hd
      ((s.outT.row n).map (·.2) ++ (s.inT.row n).map (·.2))
    refine { toInvE := f1, ends := ?_ }
    intro e hl
    rw [f3] at hl ⊢
    by_cases hm : e ∈ (s.outT.row n).map (·.2) ++ (s.inT.row n).map (·.2)
    · simp [hm] at hl
    · simp only [hm, if_false] at hl ⊢
      have hl' : endpOf s e ≠ (0, 0) := hl
      have hends := h.ends e hl'
      have hgn : ∀ m, getNode (List.foldl (fun acc e => (deleteEdge acc e).1) (dropNode s n r)
          ((s.outT.row n).map (·.2) ++ (s.inT.row n).map (·.2))) m
          = if m = n then none else getNode s m := by
        intro m
        have : getNode (List.foldl (fun acc e => (deleteEdge acc e).1) (dropNode s n r)
          ((s.outT.row n).map (·.2) ++ (s.inT.row n).map (·.2))) m = getNode (dropNode s n r) m := by
          unfold getNode; rw [f2]
        rw [this, getNode_dropNode]
      have hendp_eq : endpOf (dropNode s n r) e = endpOf s e := rfl
      rw [hendp_eq]
      have h1 : (endpOf s e).1 ≠ n := by
        intro heq
        apply hm
        apply List.mem_append_left
        have hk : keyOut s e = some (n, (endpOf s e).2) := by
          simp [keyOut, hl', heq]
        have := h.out.complete e n _ hk
        exact List.mem_map.mpr ⟨_, this, rfl⟩
      have h2 : (endpOf s e).2 ≠ n := by
        intro heq
        apply hm
        apply List.mem_append_right
        have hk : keyIn s e = some (n, (endpOf s e).1) := by
          simp [keyIn, hl', heq]
        have := h.inn.complete e n _ hk
        exact List.mem_map.mpr ⟨_, this, rfl⟩
      rw [hgn, hgn]
      simp only [h1, h2, if_false]
      exact hends

/-! ### every step, every history -/

theorem inv_step {s : State} (h : Inv s) (op : Op) : Inv (step s op).1 := by
  cases op with
  | mkN l => exact inv_createNode h l []
  | mkNP l k v => exact inv_createNode h l [(k, v)]
  | mkNS l => exact inv_createNode h l []
  | mkE a b ty => exact inv_createEdge h a b ty []
  | mkEP a b ty k v => exact inv_createEdge h a b ty [(k, v)]
  | mkES a b ty => exact inv_createEdgeStub h a b ty
  | delE e => exact inv_deleteEdge h e
  | delN n => exact inv_deleteNode h n
  | addL n l => exact inv_addLabel h n l
  | rmL n l => exact inv_removeLabel h n l
  | setNP n k v => exact inv_setNodeProp h n k v
  | rmNP n k => exact inv_removeNodeProp h n k
  | setEP e k v => exact inv_setEdgeProp h e k v
  | rmEP e k => exact inv_removeEdgeProp h e k
  | compact => exact inv_compact h
  | finish => exact inv_finish h
  | clear => exact inv_init

theorem inv_foldl (ops : List Op) {s : State} (h : Inv s) :
    Inv (ops.foldl (fun s op => (step s op).1) s) := by
  induction ops generalizing s with
  | nil => exact h
  | cons op rest ih => exact ih (inv_step h op)

theorem inv_run (ops : List Op) : Inv (run ops) := inv_foldl ops inv_init

end SgModel.Store
