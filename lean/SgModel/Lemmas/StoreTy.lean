import SgModel.Lemmas.StoreLbl
/-!
Helper lemmas for the graph-store model (C06), part 9: the edge-type index invariant (I6):
always sound (`e ∈ typeIdx[τ] → e exists ∧ type e = τ`), complete when no stub is pending,
re-established by `finish_bulk_load`; preserved by every step.
-/
namespace SgModel.Store

structure TyInv (s : State) : Prop where
  sound : ∀ ty e, e ∈ idxGet s.typeIdx ty → endpOf s e ≠ (0, 0) ∧ edgeTypeOf s e = some ty
  complete : s.stubPending = false →
    ∀ ty e, endpOf s e ≠ (0, 0) → edgeTypeOf s e = some ty → e ∈ idxGet s.typeIdx ty
  nodup : ∀ ty, (idxGet s.typeIdx ty).Nodup

theorem tyInv_init : TyInv init := by
  refine ⟨fun ty e hm => ?_, fun _ ty e hl _ => absurd (endpOf_init e) hl, fun ty => ?_⟩
  · simp [idxGet, assocGet, init] at hm
  · simp [idxGet, assocGet, init]

theorem TyInv.frame {s s' : State} (h : TyInv s) (hidx : s'.typeIdx = s.typeIdx)
    (hendp : s'.endp = s.endp) (hty : s'.etypeIds = s.etypeIds) (htbl : s'.etypeTable = s.etypeTable)
    (hp : s'.stubPending = s.stubPending) : TyInv s' := by
  have he : ∀ e, endpOf s' e = endpOf s e := fun e => by simp [endpOf, hendp]
  have ht : ∀ e, edgeTypeOf s' e = edgeTypeOf s e := fun e => by simp [edgeTypeOf, typeIdOf, hty, htbl]
  refine ⟨fun ty e hm => ?_, fun hpend ty e hl hty' => ?_, fun ty => by rw [hidx]; exact h.nodup ty⟩
  · rw [hidx] at hm; rw [he, ht]; exact h.sound ty e hm
  · rw [hidx]; rw [he] at hl; rw [ht] at hty'
    exact h.complete (by rw [← hp]; exact hpend) ty e hl hty'

theorem updNode_ty (s : State) (n : Nat) (f : NodeRec → NodeRec) :
    (updNode s n f).typeIdx = s.typeIdx ∧ (updNode s n f).stubPending = s.stubPending := by
  unfold updNode; cases getNode s n <;> exact ⟨rfl, rfl⟩

theorem TyInv.updNode {s : State} (h : TyInv s) (n : Nat) (f : NodeRec → NodeRec) :
    TyInv (updNode s n f) := by
  obtain ⟨a1, a2, a3, _⟩ := updNode_fields s n f
  exact h.frame (updNode_ty s n f).1 a1 a2 a3 (updNode_ty s n f).2

theorem tyInv_createNode {s : State} (h : TyInv s) (l : Nat) (ps : Props) :
    TyInv (createNode s l ps).1 := by
  unfold createNode allocN
  cases s.freeN <;> exact h.frame rfl rfl rfl rfl rfl

/-! ### delete_edge -/

theorem deleteEdge_ty {s : State} (h : InvE s) (e : Nat) :
    (∀ e', edgeTypeOf (deleteEdge s e).1 e' = if e' = e then none else edgeTypeOf s e')
    ∧ (deleteEdge s e).1.stubPending = s.stubPending
    ∧ (deleteEdge s e).1.typeIdx
        = (match edgeTypeOf s e with
           | some ty => if endpOf s e = (0, 0) then s.typeIdx else idxRemove s.typeIdx ty e
           | none => s.typeIdx) := by
  unfold deleteEdge
  cases hg : getEdge s e with
  | none =>
    have h0 := getEdge_none h hg
    refine ⟨fun e' => ?_, rfl, ?_⟩
    · by_cases he : e' = e
      · subst he
        simp only [if_true]
        unfold edgeTypeOf; rw [h.untyped e' h0]
      · simp [he]
    · cases edgeTypeOf s e <;> simp [h0]
  | some q =>
    obtain ⟨a, b, ty, ps⟩ := q
    obtain ⟨hk, hl⟩ := getEdge_some hg
    obtain ⟨ty', hg', hty'⟩ := getEdge_of_live h hl
    have htyeq : ty' = ty := by
      rw [hg] at hg'
      simp only [Option.some.injEq, Prod.mk.injEq] at hg'
      exact hg'.2.2.1.symm
    subst htyeq
    refine ⟨fun e' => ?_, rfl, ?_⟩
    · show (match (if e < s.etypeIds.length then s.etypeIds.set e none else s.etypeIds).getD e' none with
            | some ti => s.etypeTable[ti]? | none => none) = _
      rw [getD_clear]
      by_cases he : e' = e
      · simp [he]
      · simp only [he, if_false]; rfl
    · rw [hty']; simp [hl]

theorem tyInv_deleteEdge {s : State} (hI : InvE s) (h : TyInv s) (e : Nat) :
    TyInv (deleteEdge s e).1 := by
  obtain ⟨hty, hp, hidx⟩ := deleteEdge_ty hI e
  have hendp := (deleteEdge_reads hI e).1
  by_cases hl : endpOf s e = (0, 0)
  · -- nothing to delete: all reads unchanged
    have hnone : edgeTypeOf s e = none := by unfold edgeTypeOf; rw [hI.untyped e hl]
    have hidx' : (deleteEdge s e).1.typeIdx = s.typeIdx := by rw [hidx, hnone]
    have he : ∀ e', endpOf (deleteEdge s e).1 e' = endpOf s e' := by
      intro e'; rw [hendp]; by_cases hh : e' = e
      · subst hh; simp [hl]
      · simp [hh]
    have ht : ∀ e', edgeTypeOf (deleteEdge s e).1 e' = edgeTypeOf s e' := by
      intro e'; rw [hty]; by_cases hh : e' = e
      · subst hh; simp [hnone]
      · simp [hh]
    refine ⟨fun ty e' hm => ?_, fun hpend ty e' hl' hty' => ?_, fun ty => by rw [hidx']; exact h.nodup ty⟩
    · rw [hidx'] at hm; rw [he, ht]; exact h.sound ty e' hm
    · rw [hidx']; rw [he] at hl'; rw [ht] at hty'
      exact h.complete (by rw [← hp]; exact hpend) ty e' hl' hty'
  · obtain ⟨ty, _, htye⟩ := getEdge_of_live hI hl
    have hidx' : (deleteEdge s e).1.typeIdx = idxRemove s.typeIdx ty e := by
      rw [hidx, htye]; simp [hl]
    refine ⟨fun ty' e' hm => ?_, fun hpend ty' e' hl' hty' => ?_, fun ty' => ?_⟩
    · rw [hidx', idxGet_idxRemove] at hm
      have hne : e' ≠ e := by
        intro hh; subst hh
        by_cases ht : ty' = ty
        · subst ht
          simp only [if_true, List.mem_filter, bne_iff_ne, ne_eq, not_true_eq_false, and_false] at hm
        · simp only [ht, if_false] at hm
          have := (h.sound ty' e' hm).2
          rw [htye] at this
          simp only [Option.some.injEq] at this
          exact ht this.symm
      have hold : e' ∈ idxGet s.typeIdx ty' := by
        by_cases ht : ty' = ty
        · subst ht
          simp only [if_true, List.mem_filter] at hm; exact hm.1
        · simp only [ht, if_false] at hm; exact hm
      rw [hendp, hty]
      simp only [hne, if_false]
      exact h.sound ty' e' hold
    · rw [hendp] at hl'
      rw [hty] at hty'
      have hne : e' ≠ e := by
        intro hh; subst hh; simp at hl'
      simp only [hne, if_false] at hl' hty'
      have hold := h.complete (by rw [← hp]; exact hpend) ty' e' hl' hty'
      rw [hidx', idxGet_idxRemove]
      split
      · rename_i ht; subst ht
        exact List.mem_filter.mpr ⟨hold, by simpa using hne⟩
      · exact hold
    · rw [hidx', idxGet_idxRemove]
      split
      · exact (h.nodup ty).filter _
      · exact h.nodup ty'

theorem foldl_deleteEdge_ty (ids : List Nat) {s : State} (hI : InvE s) (h : TyInv s) :
    TyInv (ids.foldl (fun acc e => (deleteEdge acc e).1) s) := by
  induction ids generalizing s with
  | nil => exact h
  | cons a as ih => exact ih (invE_deleteEdge hI a) (tyInv_deleteEdge hI h a)

theorem tyInv_deleteNode {s : State} (hI : Inv s) (h : TyInv s) (n : Nat) :
    TyInv (deleteNode s n).1 := by
  unfold deleteNode deleteNodeWith
  cases hn : getNode s n with
  | none => exact h
  | some r =>
    simp only
    exact foldl_deleteEdge_ty _ (invE_dropNode hI.toInvE n r hn) (h.frame rfl rfl rfl rfl rfl)

/-! ### relationship creation -/

/-- the point reads after a successful `create_edge` / `create_edge_with_properties` -/
theorem createEdge_reads {s : State} {a b : Nat} (ty : Nat) (ps : Props)
    (ha : liveN s a = true) (hb : liveN s b = true) :
    (createEdge s a b ty ps).2 = .id (allocE s).1
    ∧ (∀ e, endpOf (createEdge s a b ty ps).1 e = if e = (allocE s).1 then (a, b) else endpOf s e)
    ∧ (∀ e, typeIdOf (createEdge s a b ty ps).1 e
        = if e = (allocE s).1 then some (intern s.etypeTable ty).2 else typeIdOf s e)
    ∧ (createEdge s a b ty ps).1.etypeTable = (intern s.etypeTable ty).1
    ∧ (createEdge s a b ty ps).1.typeIdx = idxInsert s.typeIdx ty (allocE s).1
    ∧ (createEdge s a b ty ps).1.stubPending = s.stubPending
    ∧ (createEdge s a b ty ps).1.eprops
        = (if ps.isEmpty then s.eprops else assocSet s.eprops (allocE s).1 ps)
    ∧ (createEdge s a b ty ps).1.nodes = s.nodes := by
  unfold createEdge
  simp only [ha, hb, Bool.not_true, Bool.false_eq_true, if_false]
  unfold allocE
  cases s.freeE with
  | nil =>
    rw [linkEdge_eq]
    refine ⟨?_, fun e => ?_, fun e => ?_, ?_, ?_, ?_, ?_, ?_⟩
    all_goals first | rfl | trivial | skip
    · show (setGrow s.endp s.nextE (a, b) (0, 0)).getD e (0, 0) = _
      rw [getD_setGrow]; rfl
    · show (setGrow s.etypeIds s.nextE (some (intern s.etypeTable ty).2) none).getD e none = _
      rw [getD_setGrow]; rfl
  | cons i rest =>
    rw [linkEdge_eq]
    refine ⟨?_, fun e => ?_, fun e => ?_, ?_, ?_, ?_, ?_, ?_⟩
    all_goals first | rfl | trivial | skip
    · show (setGrow s.endp i (a, b) (0, 0)).getD e (0, 0) = _
      rw [getD_setGrow]; rfl
    · show (setGrow s.etypeIds i (some (intern s.etypeTable ty).2) none).getD e none = _
      rw [getD_setGrow]; rfl

/-- … and after `create_edge_stub` -/
theorem createEdgeStub_reads {s : State} {a b : Nat} (ty : Nat)
    (ha : liveN s a = true) (hb : liveN s b = true) :
    (createEdgeStub s a b ty).2 = .id (allocE s).1
    ∧ (∀ e, endpOf (createEdgeStub s a b ty).1 e = if e = (allocE s).1 then (a, b) else endpOf s e)
    ∧ (∀ e, typeIdOf (createEdgeStub s a b ty).1 e
        = if e = (allocE s).1 then some (intern s.etypeTable ty).2 else typeIdOf s e)
    ∧ (createEdgeStub s a b ty).1.etypeTable = (intern s.etypeTable ty).1
    ∧ (createEdgeStub s a b ty).1.typeIdx = s.typeIdx
    ∧ (createEdgeStub s a b ty).1.stubPending = true
    ∧ (createEdgeStub s a b ty).1.eprops = s.eprops
    ∧ (createEdgeStub s a b ty).1.nodes = s.nodes := by
  unfold createEdgeStub
  simp only [ha, hb, Bool.not_true, Bool.or_self, Bool.false_eq_true, if_false]
  unfold allocE
  cases s.freeE with
  | nil =>
    rw [linkEdge_eq]
    refine ⟨?_, fun e => ?_, fun e => ?_, ?_, ?_, ?_, ?_, ?_⟩
    all_goals first | rfl | trivial | skip
    · show (setGrow s.endp s.nextE (a, b) (0, 0)).getD e (0, 0) = _
      rw [getD_setGrow]; rfl
    · show (setGrow s.etypeIds s.nextE (some (intern s.etypeTable ty).2) none).getD e none = _
      rw [getD_setGrow]; rfl
  | cons i rest =>
    rw [linkEdge_eq]
    refine ⟨?_, fun e => ?_, fun e => ?_, ?_, ?_, ?_, ?_, ?_⟩
    all_goals first | rfl | trivial | skip
    · show (setGrow s.endp i (a, b) (0, 0)).getD e (0, 0) = _
      rw [getD_setGrow]; rfl
    · show (setGrow s.etypeIds i (some (intern s.etypeTable ty).2) none).getD e none = _
      rw [getD_setGrow]; rfl

/-- interning a type changes the type of no existing relationship, and the new one gets `ty` -/
theorem edgeTypeOf_after_link {s s' : State} (h : InvE s) (i ty : Nat)
    (hty : ∀ e, typeIdOf s' e = if e = i then some (intern s.etypeTable ty).2 else typeIdOf s e)
    (htbl : s'.etypeTable = (intern s.etypeTable ty).1) (hfresh : endpOf s i = (0, 0)) :
    ∀ e, edgeTypeOf s' e = if e = i then some ty else edgeTypeOf s e := by
  have is := intern_spec s.etypeTable ty h.tbl
  intro e
  unfold edgeTypeOf
  rw [hty, htbl]
  by_cases he : e = i
  · simp only [he, if_true]; exact is.2.2.2.1
  · simp only [he, if_false]
    cases hti : typeIdOf s e with
    | none => rfl
    | some ti =>
      simp only
      have hl : endpOf s e ≠ (0, 0) := by
        intro h0; rw [h.untyped e h0] at hti; cases hti
      obtain ⟨ti', h1, h2⟩ := h.typed e hl
      rw [hti] at h1
      simp only [Option.some.injEq] at h1
      subst h1
      exact is.2.2.2.2 ti h2

theorem tyInv_createEdge {s : State} (hI : Inv s) (h : TyInv s) (a b ty : Nat) (ps : Props) :
    TyInv (createEdge s a b ty ps).1 := by
  cases ha : liveN s a with
  | false => unfold createEdge; simp only [ha]; exact h
  | true =>
    cases hb : liveN s b with
    | false => unfold createEdge; simp only [ha, hb]; exact h
    | true =>
      obtain ⟨_, hendp, htyid, htbl, hidx, hp, _, _⟩ := createEdge_reads (s := s) ty ps ha hb
      have hfresh := (allocE_spec hI.toInvE).1
      have hty := edgeTypeOf_after_link hI.toInvE _ ty htyid htbl hfresh
      have hsrc0 : a ≠ 0 := by
        intro h0; subst h0
        have := (liveN_iff s 0).mp ha
        exact this hI.node0
      have hnot : ∀ ty', (allocE s).1 ∉ idxGet s.typeIdx ty' :=
        fun ty' hm => (h.sound ty' _ hm).1 hfresh
      refine ⟨fun ty' e hm => ?_, fun hpend ty' e hl hte => ?_, fun ty' => ?_⟩
      · rw [hidx, idxGet_idxInsert] at hm
        rw [hendp, hty]
        by_cases he : e = (allocE s).1
        · simp only [he, if_true]
          refine ⟨fun hp' => hsrc0 (Prod.mk.inj hp').1, ?_⟩
          by_cases ht : ty' = ty
          · rw [ht]
          · simp only [ht, if_false] at hm
            exact absurd (he ▸ hm) (hnot ty')
        · simp only [he, if_false]
          have hold : e ∈ idxGet s.typeIdx ty' := by
            by_cases ht : ty' = ty
            · subst ht
              simp only [if_true, mem_setInsert, he, false_or] at hm; exact hm
            · simp only [ht, if_false] at hm; exact hm
          exact h.sound ty' e hold
      · rw [hidx, idxGet_idxInsert]
        rw [hendp] at hl; rw [hty] at hte
        by_cases he : e = (allocE s).1
        · simp only [he, if_true, Option.some.injEq] at hte
          subst hte
          simp only [if_true, mem_setInsert]
          exact Or.inl he
        · simp only [he, if_false] at hl hte
          have hold := h.complete (by rw [← hp]; exact hpend) ty' e hl hte
          split
          · rename_i ht; subst ht; exact (mem_setInsert _ _ _).mpr (Or.inr hold)
          · exact hold
      · rw [hidx, idxGet_idxInsert]
        split
        · exact nodup_setInsert _ _ (h.nodup ty)
        · exact h.nodup ty'

theorem tyInv_createEdgeStub {s : State} (hI : Inv s) (h : TyInv s) (a b ty : Nat) :
    TyInv (createEdgeStub s a b ty).1 := by
  cases ha : liveN s a with
  | false => unfold createEdgeStub; simp only [ha]; exact h
  | true =>
    cases hb : liveN s b with
    | false => unfold createEdgeStub; simp only [ha, hb]; exact h
    | true =>
      obtain ⟨_, hendp, htyid, htbl, hidx, hp, _, _⟩ := createEdgeStub_reads (s := s) ty ha hb
      have hfresh := (allocE_spec hI.toInvE).1
      have hty := edgeTypeOf_after_link hI.toInvE _ ty htyid htbl hfresh
      refine ⟨fun ty' e hm => ?_, fun hpend => ?_, fun ty' => by rw [hidx]; exact h.nodup ty'⟩
      · rw [hidx] at hm
        have hold := h.sound ty' e hm
        have he : e ≠ (allocE s).1 := by
          intro hh; subst hh; exact hold.1 hfresh
        rw [hendp, hty]
        simp only [he, if_false]
        exact hold
      · rw [hp] at hpend; cases hpend

/-! ### finish_bulk_load rebuilds the index -/

/-- the condition under which `rebuild_edge_type_index` files `e` under `ty` -/
def rebuildCond (s : State) (e ty : Nat) : Prop :=
  ∃ ti, typeIdOf s e = some ti ∧ e < s.endp.length ∧ endpOf s e ≠ (0, 0) ∧ s.etypeTable[ti]? = some ty

def rebuildStep (s : State) (m : List (Nat × List Nat)) (e : Nat) : List (Nat × List Nat) :=
  match typeIdOf s e with
  | none => m
  | some ti =>
    if e < s.endp.length && endpOf s e != (0, 0) then
      match s.etypeTable[ti]? with
      | some ty => idxInsert m ty e
      | none => m
    else m

theorem rebuildTypeIdx_eq (s : State) :
    rebuildTypeIdx s = (List.range s.etypeIds.length).foldl (rebuildStep s) [] := rfl

theorem mem_rebuildStep (s : State) (m : List (Nat × List Nat)) (e ty x : Nat) :
    x ∈ idxGet (rebuildStep s m e) ty ↔ x ∈ idxGet m ty ∨ (x = e ∧ rebuildCond s e ty) := by
  unfold rebuildStep rebuildCond
  cases hti : typeIdOf s e with
  | none => simp
  | some ti =>
    simp only [Option.some.injEq, exists_eq_left']
    by_cases hc : (e < s.endp.length && endpOf s e != (0, 0)) = true
    · have hc' : e < s.endp.length ∧ endpOf s e ≠ (0, 0) := by simpa using hc
      simp only [hc, if_true]
      cases htb : s.etypeTable[ti]? with
      | none => simp
      | some ty' =>
        simp only [idxGet_idxInsert, Option.some.injEq]
        by_cases ht : ty = ty'
        · subst ht
          simp only [if_true, mem_setInsert]
          constructor
          · rintro (h | h)
            · exact Or.inr ⟨h, hc'.1, hc'.2, trivial⟩
            · exact Or.inl h
          · rintro (h | h)
            · exact Or.inr h
            · exact Or.inl h.1
        · have ht' : ¬ ty' = ty := fun hh => ht hh.symm
          simp [ht, ht']
    · simp only [hc]
      have : ¬ (e < s.endp.length ∧ endpOf s e ≠ (0, 0)) := by simpa using hc
      simp only [Bool.false_eq_true, if_false]
      constructor
      · exact Or.inl
      · rintro (h | ⟨_, h1, h2, _⟩)
        · exact h
        · exact absurd ⟨h1, h2⟩ this

theorem mem_foldl_rebuild (s : State) (es : List Nat) (m : List (Nat × List Nat)) (ty x : Nat) :
    x ∈ idxGet (es.foldl (rebuildStep s) m) ty ↔ x ∈ idxGet m ty ∨ (x ∈ es ∧ rebuildCond s x ty) := by
  induction es generalizing m with
  | nil => simp
  | cons a as ih =>
    rw [List.foldl_cons, ih, mem_rebuildStep]
    constructor
    · rintro ((h | ⟨rfl, h⟩) | ⟨h1, h2⟩)
      · exact Or.inl h
      · exact Or.inr ⟨List.mem_cons_self .., h⟩
      · exact Or.inr ⟨List.mem_cons_of_mem _ h1, h2⟩
    · rintro (h | ⟨h1, h2⟩)
      · exact Or.inl (Or.inl h)
      · rcases List.mem_cons.mp h1 with rfl | h1
        · exact Or.inl (Or.inr ⟨rfl, h2⟩)
        · exact Or.inr ⟨h1, h2⟩

theorem nodup_rebuildStep (s : State) (m : List (Nat × List Nat)) (e : Nat)
    (h : ∀ ty, (idxGet m ty).Nodup) : ∀ ty, (idxGet (rebuildStep s m e) ty).Nodup := by
  intro ty
  unfold rebuildStep
  cases typeIdOf s e with
  | none => exact h ty
  | some ti =>
    simp only
    split
    · cases s.etypeTable[ti]? with
      | none => exact h ty
      | some ty' =>
        simp only [idxGet_idxInsert]
        split
        · exact nodup_setInsert _ _ (h ty')
        · exact h ty
    · exact h ty

theorem nodup_foldl_rebuild (s : State) (es : List Nat) (m : List (Nat × List Nat))
    (h : ∀ ty, (idxGet m ty).Nodup) : ∀ ty, (idxGet (es.foldl (rebuildStep s) m) ty).Nodup := by
  induction es generalizing m with
  | nil => exact h
  | cons a as ih => rw [List.foldl_cons]; exact ih _ (nodup_rebuildStep s m a h)

theorem rebuildCond_iff {s : State} (h : InvE s) (e ty : Nat) :
    (e < s.etypeIds.length ∧ rebuildCond s e ty) ↔ (endpOf s e ≠ (0, 0) ∧ edgeTypeOf s e = some ty) := by
  unfold rebuildCond
  constructor
  · rintro ⟨_, ti, h1, _, h3, h4⟩
    refine ⟨h3, ?_⟩
    unfold edgeTypeOf; rw [h1]; exact h4
  · rintro ⟨hl, hty⟩
    obtain ⟨ti, h1, h2⟩ := h.typed e hl
    have hlt : e < s.etypeIds.length := by
      apply Nat.lt_of_not_le
      intro hle
      simp [typeIdOf, List.getD_eq_getElem?_getD, List.getElem?_eq_none hle] at h1
    refine ⟨hlt, ti, h1, endpOf_lt_of_live hl, hl, ?_⟩
    unfold edgeTypeOf at hty; rw [h1] at hty; exact hty

theorem tyInv_finish {s : State} (hI : Inv s) : TyInv (finish s) := by
  have hc := inv_compact hI
  have hendp : ∀ e, endpOf (finish s) e = endpOf (compact s) e := fun e => rfl
  have hty : ∀ e, edgeTypeOf (finish s) e = edgeTypeOf (compact s) e := fun e => rfl
  have hmem : ∀ ty e, e ∈ idxGet (finish s).typeIdx ty
      ↔ (endpOf (compact s) e ≠ (0, 0) ∧ edgeTypeOf (compact s) e = some ty) := by
    intro ty e
    show e ∈ idxGet (rebuildTypeIdx (compact s)) ty ↔ _
    rw [rebuildTypeIdx_eq, mem_foldl_rebuild, ← rebuildCond_iff hc.toInvE]
    simp [idxGet, assocGet, List.mem_range]
  refine ⟨fun ty e hm => ?_, fun _ ty e hl hte => ?_, fun ty => ?_⟩
  · rw [hendp, hty]; exact (hmem ty e).mp hm
  · rw [hendp] at hl; rw [hty] at hte; exact (hmem ty e).mpr ⟨hl, hte⟩
  · show (idxGet (rebuildTypeIdx (compact s)) ty).Nodup
    rw [rebuildTypeIdx_eq]
    exact nodup_foldl_rebuild _ _ _ (fun ty => by simp [idxGet, assocGet]) ty

theorem tyInv_compact {s : State} (h : TyInv s) : TyInv (compact s) := by
  unfold compact; split
  · exact h
  · exact h.frame rfl rfl rfl rfl rfl

theorem tyInv_step {s : State} (hI : Inv s) (h : TyInv s) (op : Op) : TyInv (step s op).1 := by
  cases op with
  | mkN l => exact tyInv_createNode h l []
  | mkNP l k v => exact tyInv_createNode h l [(k, v)]
  | mkNS l => exact tyInv_createNode h l []
  | mkE a b ty => exact tyInv_createEdge hI h a b ty []
  | mkEP a b ty k v => exact tyInv_createEdge hI h a b ty [(k, v)]
  | mkES a b ty => exact tyInv_createEdgeStub hI h a b ty
  | delE e => exact tyInv_deleteEdge hI.toInvE h e
  | delN n => exact tyInv_deleteNode hI h n
  | addL n l =>
    show TyInv (addLabel s n l).1
    unfold addLabel; cases getNode s n with
    | none => exact h
    | some r => exact (h.updNode n _).frame rfl rfl rfl rfl rfl
  | rmL n l =>
    show TyInv (removeLabel s n l).1
    unfold removeLabel; cases getNode s n with
    | none => exact h
    | some r =>
      simp only; split
      · exact h
      · exact (h.updNode n _).frame rfl rfl rfl rfl rfl
  | setNP n k v =>
    show TyInv (setNodeProp s n k v).1
    unfold setNodeProp; cases getNode s n with
    | none => exact h
    | some r => exact (h.updNode n _).frame rfl rfl rfl rfl rfl
  | rmNP n k =>
    show TyInv (removeNodeProp s n k).1
    unfold removeNodeProp; exact (h.updNode n _).frame rfl rfl rfl rfl rfl
  | setEP e k v =>
    show TyInv (setEdgeProp s e k v).1
    unfold setEdgeProp; split <;> exact h.frame rfl rfl rfl rfl rfl
  | rmEP e k =>
    show TyInv (removeEdgeProp s e k).1
    unfold removeEdgeProp; split <;> exact h.frame rfl rfl rfl rfl rfl
  | compact => exact tyInv_compact h
  | finish => exact tyInv_finish hI
  | clear => exact tyInv_init

theorem tyInv_run (ops : List Op) : TyInv (run ops) := by
  have : ∀ (ops : List Op) (s : State), Inv s → TyInv s →
      TyInv (ops.foldl (fun s op => (step s op).1) s) := by
    intro ops
    induction ops with
    | nil => intro s _ h; exact h
    | cons op rest ih => intro s hI h; exact ih _ (inv_step hI op) (tyInv_step hI h op)
  exact this ops init inv_init tyInv_init

end SgModel.Store
