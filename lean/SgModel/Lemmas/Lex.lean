import SgModel.Model.Lex
/-!
Lemmas about the scanner: re-scanning the repaired cache key yields the same token
stream as scanning the original text.
-/
namespace SgModel.Lex

theorem flush_nil : flush ([] : List Char) = [] := rfl

theorem isWs_space : isWs ' ' = true := by decide

theorem slashKind_space : slashKind (some ' ') = 0 := by decide

/-- whitespace never opens a comment -/
theorem slashKind_ws {d : Char} (h : isWs d = true) : slashKind (some d) = 0 := by
  simp only [isWs, Bool.or_eq_true, beq_iff_eq] at h
  rcases h with ((h | h) | h) | h <;> subst h <;> decide

/-- with whitespace pending, the key continues with nothing or with a single space -/
theorem norm_pending_head (r : List Char) :
    (norm .code true true r).head? = none ∨ (norm .code true true r).head? = some ' ' := by
  induction r with
  | nil => left; rfl
  | cons c rest ih =>
    unfold norm
    by_cases hw : isWs c = true
    · simp only [hw, and_self, ↓reduceIte]; exact ih
    · simp [hw]

/-- the look-ahead after a character is the same in the key as in the text, as far as
comment openers are concerned -/
theorem slashKind_norm_head (st : St) (rest : List Char) :
    slashKind (norm st false true rest).head? = slashKind rest.head? := by
  cases rest with
  | nil => rfl
  | cons d r =>
    unfold norm
    by_cases h : st = .code ∧ isWs d = true
    · simp only [h, and_self, ↓reduceIte, List.head?_cons]
      rw [slashKind_ws h.2]
      rcases norm_pending_head r with h' | h' <;> rw [h'] <;> rfl
    · simp [h]

/-- `next` and `cls` look at the look-ahead only through `slashKind` -/
theorem next_congr (st : St) (c : Char) {p q : Option Char} (h : slashKind p = slashKind q) :
    next st c p = next st c q := by
  cases st <;> simp [next, h]

theorem cls_congr (st : St) (c : Char) {p q : Option Char} (h : slashKind p = slashKind q) :
    cls st c p = cls st c q := by
  cases st <;> simp [cls, h]

theorem cls_sep_iff (st : St) (c : Char) (pk : Option Char) :
    cls st c pk = .sep ↔ (st = .code ∧ isWs c = true) := by
  cases st <;> simp [cls]
  · by_cases hw : isWs c = true
    · simp [hw]
    · simp [hw]; split <;> simp

theorem next_code_ws {c : Char} (h : isWs c = true) (pk : Option Char) :
    next .code c pk = .code := by
  simp only [isWs, Bool.or_eq_true, beq_iff_eq] at h
  rcases h with ((h | h) | h) | h <;> subst h <;> simp [next, isQuote]

/-- The scanner run over the key produces the words of the original text.
`cl` is the word under construction. -/
theorem tok_norm (a : List Char) :
    ∀ (st : St) (p e : Bool) (cl : List Char),
      (p = true → st = .code) → (e = false → cl = []) →
      tok st cl (norm st p e a)
        = if p then flush cl ++ tok .code [] a else tok st cl a := by
  induction a with
  | nil =>
    intro st p e cl hp he
    cases p
    · simp [norm, tok]
    · have := hp rfl; subst this
      simp [norm, tok, flush]
  | cons c rest ih =>
    intro st p e cl hp he
    by_cases hws : st = .code ∧ isWs c = true
    · -- whitespace in the code state: nothing is emitted, whitespace becomes pending
      obtain ⟨hst, hw⟩ := hws
      subst hst
      have hn : norm .code p e (c :: rest) = norm .code true e rest := by
        rw [norm]; simp [hw]
      rw [hn, ih .code true e cl (fun _ => rfl) he]
      have hsep : cls .code c rest.head? = .sep := (cls_sep_iff _ _ _).2 ⟨rfl, hw⟩
      cases p
      · simp [tok, hsep, next_code_ws hw]
      · simp [tok, hsep, next_code_ws hw, flush]
    · -- a character that is copied to the key
      have hn : norm st p e (c :: rest)
          = (if p && e then [' '] else []) ++ c :: norm (next st c rest.head?) false true rest := by
        rw [norm]; simp [hws]
      have hnsep : ∀ pk, cls st c pk ≠ .sep := fun pk h => hws ((cls_sep_iff _ _ _).1 h)
      have hk := slashKind_norm_head (next st c rest.head?) rest
      -- one scanner step over `c` followed by the rest of the key
      have hstep : ∀ cur, tok st cur (c :: norm (next st c rest.head?) false true rest)
          = tok (next st c rest.head?) (c :: cur) rest := by
        intro cur
        rw [tok]
        rw [next_congr st c hk]
        simp only [hnsep, ↓reduceIte]
        exact (ih (next st c rest.head?) false true (c :: cur) (by simp) (by simp)).trans (by simp)
      have hrhs : ∀ cur, tok st cur (c :: rest) = tok (next st c rest.head?) (c :: cur) rest := by
        intro cur; rw [tok]; simp [hnsep]
      rw [hn]
      cases p
      · simp only [Bool.false_and, Bool.false_eq_true, ↓reduceIte, List.nil_append]
        rw [hstep, hrhs]
      · have hst := hp rfl
        subst hst
        cases e
        · have := he rfl; subst this
          simp only [Bool.and_false, Bool.false_eq_true, ↓reduceIte, List.nil_append, flush_nil]
          rw [hstep, hrhs]
        · simp only [Bool.and_self, ↓reduceIte, List.singleton_append]
          have hsp : cls .code ' ' (some c) = .sep := (cls_sep_iff _ _ _).2 ⟨rfl, isWs_space⟩
          rw [tok]
          simp only [List.head?_cons, hsp, ↓reduceIte, next_code_ws isWs_space]
          rw [hstep, hrhs]

theorem tokens_normalize (a : List Char) : tokens (normalize a) = tokens a := by
  have := tok_norm a .code false false [] (by simp) (by simp)
  simpa [tokens, normalize] using this

/-- The same for the comment-free words of the code region. -/
theorem ctok_norm (a : List Char) :
    ∀ (st : St) (p e : Bool) (cl : List Char),
      (p = true → st = .code) → (e = false → cl = []) →
      ctok st cl (norm st p e a)
        = if p then flush cl ++ ctok .code [] a else ctok st cl a := by
  induction a with
  | nil =>
    intro st p e cl hp he
    cases p
    · simp [norm, ctok]
    · have := hp rfl; subst this
      simp [norm, ctok, flush]
  | cons c rest ih =>
    intro st p e cl hp he
    by_cases hws : st = .code ∧ isWs c = true
    · obtain ⟨hst, hw⟩ := hws
      subst hst
      have hn : norm .code p e (c :: rest) = norm .code true e rest := by
        rw [norm]; simp [hw]
      rw [hn, ih .code true e cl (fun _ => rfl) he]
      have hsep : cls .code c rest.head? = .sep := (cls_sep_iff _ _ _).2 ⟨rfl, hw⟩
      cases p
      · simp [ctok, hsep, next_code_ws hw]
      · simp [ctok, hsep, next_code_ws hw, flush]
    · have hn : norm st p e (c :: rest)
          = (if p && e then [' '] else []) ++ c :: norm (next st c rest.head?) false true rest := by
        rw [norm]; simp [hws]
      have hk := slashKind_norm_head (next st c rest.head?) rest
      have hstep : ∀ cur, ctok st cur (c :: norm (next st c rest.head?) false true rest)
          = ctok st cur (c :: rest) := by
        intro cur
        rw [ctok, ctok]
        rw [next_congr st c hk, cls_congr st c hk]
        by_cases hs : cls st c rest.head? = .sig
        · simp only [hs, ↓reduceIte]
          exact (ih (next st c rest.head?) false true (c :: cur) (by simp) (by simp)).trans (by simp)
        · simp only [hs, ↓reduceIte]
          congr 1
          exact (ih (next st c rest.head?) false true [] (by simp) (by simp)).trans (by simp)
      rw [hn]
      cases p
      · simp only [Bool.false_and, Bool.false_eq_true, ↓reduceIte, List.nil_append]
        rw [hstep]
      · have hst := hp rfl
        subst hst
        cases e
        · have := he rfl; subst this
          simp only [Bool.and_false, Bool.false_eq_true, ↓reduceIte, List.nil_append, flush_nil]
          rw [hstep]
        · simp only [Bool.and_self, ↓reduceIte, List.singleton_append]
          have hsp : cls .code ' ' (some c) = .sep := (cls_sep_iff _ _ _).2 ⟨rfl, isWs_space⟩
          rw [ctok]
          simp [hsp, next_code_ws isWs_space, hstep]

theorem codeTokens_normalize (a : List Char) : codeTokens (normalize a) = codeTokens a := by
  have := ctok_norm a .code false false [] (by simp) (by simp)
  simpa [codeTokens, normalize] using this

end SgModel.Lex
