import SgModel.Model.Moo
/-! Helper lemmas for C34 (core Lean only). -/
namespace SgModel.Moo

/-! ### clamp -/

theorem clamp_bounds (lo hi x : Int) (h : lo ≤ hi) : lo ≤ clamp lo hi x ∧ clamp lo hi x ≤ hi := by
  unfold clamp
  simp only
  split <;> split <;> omega

theorem clamp_id (lo hi x : Int) (h1 : lo ≤ x) (h2 : x ≤ hi) : clamp lo hi x = x := by
  unfold clamp
  simp only
  split <;> split <;> omega

theorem clampVec_inBounds : ∀ (lo hi x : List Int), boxOK lo hi = true → x.length = lo.length →
    inBounds lo hi (clampVec lo hi x) = true
  | [], [], [], _, _ => rfl
  | [], [], _ :: _, _, h => by simp at h
  | l :: lo, h :: hi, [], _, hl => by simp at hl
  | l :: lo, h :: hi, x :: xs, hb, hl => by
    simp only [boxOK, Bool.and_eq_true, decide_eq_true_eq] at hb
    have hx := clamp_bounds l h x hb.1
    have := clampVec_inBounds lo hi xs hb.2 (by simpa using hl)
    simp [clampVec, inBounds, hx.1, hx.2, this]
  | [], _ :: _, _, hb, _ => by simp [boxOK] at hb
  | _ :: _, [], _, hb, _ => by simp [boxOK] at hb

/-! ### tracker -/

theorem antitone_append (l : List Int) (x : Int)
    (h : antitone l = true) (hl : ∀ y, l.getLast? = some y → x ≤ y) :
    antitone (l ++ [x]) = true := by
  induction l with
  | nil => rfl
  | cons a t ih =>
    cases t with
    | nil =>
      have := hl a (by simp)
      simp [antitone, this]
    | cons b t' =>
      simp only [antitone, Bool.and_eq_true, decide_eq_true_eq] at h
      have ih' := ih h.2 (by
        intro y hy
        apply hl y
        simpa [List.getLast?_cons_cons] using hy)
      simp only [List.cons_append, antitone, Bool.and_eq_true, decide_eq_true_eq]
      exact ⟨h.1, by simpa using ih'⟩

/-- what every solver built on the tracker maintains -/
structure TInv {X : Type} (f : X → Int) (t : Tracker X) : Prop where
  fit : t.bestFit = f t.best
  anti : antitone t.hist = true
  last : ∀ y, t.hist.getLast? = some y → t.bestFit ≤ y

theorem tinv_init {X : Type} (f : X → Int) (x0 : X) : TInv f (Tracker.init f x0) :=
  ⟨rfl, rfl, by intro y hy; simp [Tracker.init] at hy⟩

theorem tinv_consider {X : Type} (f : X → Int) (t : Tracker X) (c : X) (h : TInv f t) :
    TInv f (consider f t c) := by
  unfold consider
  split
  · rename_i hlt
    exact ⟨rfl, h.anti, fun y hy => by have := h.last y hy; simp only; omega⟩
  · exact h

theorem tinv_foldl_consider {X : Type} (f : X → Int) (cs : List X) (t : Tracker X) (h : TInv f t) :
    TInv f (cs.foldl (consider f) t) := by
  induction cs generalizing t with
  | nil => exact h
  | cons c cs ih => exact ih _ (tinv_consider f t c h)

theorem tinv_iter {X : Type} (f : X → Int) (t : Tracker X) (cs : List X) (h : TInv f t) :
    TInv f (iter f t cs) := by
  unfold iter
  apply tinv_foldl_consider
  refine ⟨h.fit, antitone_append _ _ h.anti h.last, ?_⟩
  intro y hy
  simp at hy
  show t.bestFit ≤ y
  omega

theorem tinv_runGen {X : Type} (f : X → Int) (gen : Tracker X → Nat → List X) (n : Nat)
    (t : Tracker X) (h : TInv f t) : TInv f (runGen f gen n t) := by
  induction n with
  | zero => exact h
  | succ n ih => exact tinv_iter f _ _ ih

/-- the incumbent is always the start point or one of the candidates seen -/
theorem best_mem_consider {X : Type} (f : X → Int) (P : X → Prop) (t : Tracker X) (c : X)
    (ht : P t.best) (hc : P c) : P (consider f t c).best := by
  unfold consider
  split <;> assumption

theorem best_foldl_consider {X : Type} (f : X → Int) (P : X → Prop) (cs : List X) (t : Tracker X)
    (ht : P t.best) (hc : ∀ c ∈ cs, P c) : P (cs.foldl (consider f) t).best := by
  induction cs generalizing t with
  | nil => exact ht
  | cons c cs ih =>
    exact ih _ (best_mem_consider f P t c ht (hc c (List.mem_cons_self ..)))
      (fun c' hc' => hc c' (List.mem_cons_of_mem _ hc'))

theorem best_runGen {X : Type} (f : X → Int) (P : X → Prop) (gen : Tracker X → Nat → List X)
    (hgen : ∀ t n, ∀ c ∈ gen t n, P c) (n : Nat) (t : Tracker X) (ht : P t.best) :
    P (runGen f gen n t).best := by
  induction n with
  | zero => exact ht
  | succ n ih =>
    simp only [runGen, iter]
    exact best_foldl_consider f P _ _ ih (hgen _ _)

/-! ### fronts -/

theorem ndFilter_nondominated (l : List Ind) : mutuallyNonDominated (ndFilter l) = true := by
  simp only [mutuallyNonDominated, List.all_eq_true, Bool.not_eq_eq_eq_not, Bool.not_true]
  intro a ha b hb
  simp only [ndFilter, List.mem_filter, List.all_eq_true, Bool.not_eq_eq_eq_not,
    Bool.not_true] at ha hb
  exact hb.2 a ha.1

theorem mem_ndFilter_sub {l : List Ind} {a : Ind} (h : a ∈ ndFilter l) : a ∈ l := by
  simp only [ndFilter, List.mem_filter] at h
  exact h.1

theorem ndSortFuel_fronts (n : Nat) (rest : List Ind) :
    ∀ F ∈ ndSortFuel n rest, mutuallyNonDominated F = true := by
  induction n generalizing rest with
  | zero => intro F hF; simp [ndSortFuel] at hF
  | succ n ih =>
    intro F hF
    cases rest with
    | nil => simp [ndSortFuel] at hF
    | cons a r =>
      simp only [ndSortFuel] at hF
      split at hF
      · simp at hF
      · rcases List.mem_cons.mp hF with h | h
        · subst h; exact ndFilter_nondominated _
        · exact ih _ F h

/-- a subset of a mutually non-dominated list is mutually non-dominated -/
theorem mutuallyNonDominated_sub {l m : List Ind} (h : mutuallyNonDominated l = true)
    (hs : ∀ a ∈ m, a ∈ l) : mutuallyNonDominated m = true := by
  simp only [mutuallyNonDominated, List.all_eq_true, Bool.not_eq_eq_eq_not, Bool.not_true] at h ⊢
  intro a ha b hb
  exact h a (hs a ha) b (hs b hb)

/-! ### archive -/

/-- the truncation may pick any `cap` members (crowding distance is not modelled) -/
structure PickOK (cap : Nat) (pick : List Ind → List Ind) : Prop where
  sub : ∀ l, ∀ a ∈ pick l, a ∈ l
  len : ∀ l, cap < l.length → (pick l).length = cap

theorem archiveInsert_inv (cap : Nat) (pick : List Ind → List Ind) (hp : PickOK cap pick)
    (members : List Ind) (c : Ind) :
    (archiveInsert cap pick members c).length ≤ cap
    ∧ mutuallyNonDominated (archiveInsert cap pick members c) = true := by
  unfold archiveInsert
  simp only
  split
  · rename_i h
    exact ⟨h, ndFilter_nondominated _⟩
  · rename_i h
    have hlen := hp.len (ndFilter (members ++ [c])) (by omega)
    exact ⟨by omega, mutuallyNonDominated_sub (ndFilter_nondominated _) (hp.sub _)⟩

theorem archiveInsert_spec (cap : Nat) (pick : List Ind → List Ind) (hp : PickOK cap pick)
    (members : List Ind) (c : Ind) :
    archStepSpec cap members c (archiveInsert cap pick members c) = true := by
  have hinv := archiveInsert_inv cap pick hp members c
  unfold archStepSpec
  simp only [hinv.1, hinv.2, decide_true, Bool.and_true]
  unfold archiveInsert
  simp only
  split
  · simp
  · rename_i h
    have hlen := hp.len (ndFilter (members ++ [c])) (by omega)
    simp only [hlen, beq_self_eq_true, Bool.true_and, List.all_eq_true, List.contains_iff_mem]
    exact hp.sub _

/-! ### child seed -/

theorem xor_cancel_left (a x y : Nat) (h : a ^^^ x = a ^^^ y) : x = y := by
  have : a ^^^ (a ^^^ x) = a ^^^ (a ^^^ y) := by rw [h]
  simpa [← Nat.xor_assoc] using this

theorem mul_odd_inj (c inv : Nat) (hinv : c * inv % two64 = 1) (i j : Nat)
    (hi : i < two64) (hj : j < two64) (h : i * c % two64 = j * c % two64) : i = j := by
  have key : ∀ k, k < two64 → (k * c % two64) * inv % two64 = k := by
    intro k hk
    rw [Nat.mod_mul_mod, Nat.mul_assoc, Nat.mul_mod, hinv, Nat.mul_one, Nat.mod_mod,
      Nat.mod_eq_of_lt hk]
  have := congrArg (fun v => v * inv % two64) h
  simp only [key i hi, key j hj] at this
  exact this

end SgModel.Moo
