import SgModel.Lemmas.SnapSpec
/-!
C13 helpers: the undo journal is bookkeeping only — it never influences the store the
import builds (so a successful journalled import equals the plain merge specification).
-/
namespace SgModel.SnapJson

/-- forget the journal -/
def strip (s : Imp) : Imp := { s with journal := [] }

theorem mergeProp_fst (b b' : Bool) (id : Nat) (st : St) (j j' : List Undo) (kv : Str × PV) :
    (mergeProp b id (st, j) kv).1 = (mergeProp b' id (st, j') kv).1 := by
  unfold mergeProp
  cases getNode id st <;> simp

theorem foldl_mergeProp_fst (b b' : Bool) (id : Nat) (pvs : List (Str × PV)) :
    ∀ (st : St) (j j' : List Undo),
      (pvs.foldl (mergeProp b id) (st, j)).1 = (pvs.foldl (mergeProp b' id) (st, j')).1 := by
  induction pvs with
  | nil => intro st j j'; rfl
  | cons kv r ih =>
    intro st j j'
    simp only [List.foldl_cons]
    obtain ⟨st1, j1, e1⟩ : ∃ st1 j1, mergeProp b id (st, j) kv = (st1, j1) := ⟨_, _, rfl⟩
    obtain ⟨st2, j2, e2⟩ : ∃ st2 j2, mergeProp b' id (st, j') kv = (st2, j2) := ⟨_, _, rfl⟩
    have h : st1 = st2 := by
      have := mergeProp_fst b b' id st j j' kv
      rw [e1, e2] at this; exact this
    rw [e1, e2, h]; exact ih st2 j1 j2

theorem mergeLabel_fst (lg b b' : Bool) (id : Nat) (st : St) (j j' : List Undo) (l : Str) :
    (mergeLabel lg b id (st, j) l).1 = (mergeLabel lg b' id (st, j') l).1 := by
  unfold mergeLabel
  cases getNode id st with
  | none => rfl
  | some n => by_cases h : l ∈ n.labels <;> simp [h]

theorem foldl_mergeLabel_fst (lg b b' : Bool) (id : Nat) (ls : List Str) :
    ∀ (st : St) (j j' : List Undo),
      (ls.foldl (mergeLabel lg b id) (st, j)).1 = (ls.foldl (mergeLabel lg b' id) (st, j')).1 := by
  induction ls with
  | nil => intro st j j'; rfl
  | cons l r ih =>
    intro st j j'
    simp only [List.foldl_cons]
    obtain ⟨st1, j1, e1⟩ : ∃ st1 j1, mergeLabel lg b id (st, j) l = (st1, j1) := ⟨_, _, rfl⟩
    obtain ⟨st2, j2, e2⟩ : ∃ st2 j2, mergeLabel lg b' id (st, j') l = (st2, j2) := ⟨_, _, rfl⟩
    have h : st1 = st2 := by
      have := mergeLabel_fst lg b b' id st j j' l
      rw [e1, e2] at this; exact this
    rw [e1, e2, h]; exact ih st2 j1 j2

theorem stepLine_strip (lg jr : Bool) (ks : List Str) (s s2 : Imp) (hs : strip s = strip s2) (l : Line) :
    (stepLine lg jr ks s l).map strip = (stepLine lg false ks s2 l).map strip := by
  have h1 : s.st = s2.st := (congrArg Imp.st hs : (strip _).st = (strip _).st)
  have h2 : s.remap = s2.remap := (congrArg Imp.remap hs : (strip _).remap = (strip _).remap)
  have h3 : s.dedup = s2.dedup := (congrArg Imp.dedup hs : (strip _).dedup = (strip _).dedup)
  have h4 : s.created = s2.created := (congrArg Imp.created hs : (strip _).created = (strip _).created)
  have h5 : s.hier = s2.hier := (congrArg Imp.hier hs : (strip _).hier = (strip _).hier)
  have h6 : s.nNodes = s2.nNodes := (congrArg Imp.nNodes hs : (strip _).nNodes = (strip _).nNodes)
  have h7 : s.nEdges = s2.nEdges := (congrArg Imp.nEdges hs : (strip _).nEdges = (strip _).nEdges)
  have h8 : s.nMerged = s2.nMerged := (congrArg Imp.nMerged hs : (strip _).nMerged = (strip _).nMerged)
  cases l with
  | bad => rfl
  | skip => simp only [stepLine, Option.map_some, hs]
  | hier h => simp only [stepLine, Option.map_some, strip, h1, h2, h3, h4, h5, h6, h7, h8]
  | node id labels props =>
    simp only [stepLine, ← h3]
    cases findExisting s.dedup labels props ks with
    | none =>
      simp only [Option.map_some, strip, h1, h2, h3, h4, h5, h6, h7, h8]
    | some eid =>
      simp only [Option.map_some, Bool.false_and, strip, Option.some.injEq]
      obtain ⟨a1, a2, ea⟩ : ∃ a1 a2, List.foldl (mergeProp (jr && !s.created.contains eid) eid)
          (s.st, s.journal) (decKV lg props) = (a1, a2) := ⟨_, _, rfl⟩
      obtain ⟨b1, b2, eb⟩ : ∃ b1 b2, List.foldl (mergeProp false eid)
          (s2.st, s2.journal) (decKV lg props) = (b1, b2) := ⟨_, _, rfl⟩
      have hab : a1 = b1 := by
        have := foldl_mergeProp_fst (jr && !s.created.contains eid) false eid (decKV lg props) s.st
          s.journal s2.journal
        rw [ea, h1, eb] at this; exact this
      rw [ea, eb, hab]
      have := foldl_mergeLabel_fst lg (jr && !s.created.contains eid) false eid labels b1 a2 b2
      rw [this, h2, h3, h4, h5, h6, h7, h8]
  | edge eid src tgt ty props =>
    simp only [stepLine, ← h2]
    cases lookupNat src s.remap <;> cases lookupNat tgt s.remap <;>
      simp only [Option.map_none, Option.map_some, strip, h1, h2, h3, h4, h5, h6, h7, h8]

theorem foldLines_strip (lg jr : Bool) (ks : List Str) (ls : List Line) : ∀ (s s2 : Imp),
    strip s = strip s2 →
    strip (foldLines lg jr ks s ls).1 = strip (foldLines lg false ks s2 ls).1
      ∧ (foldLines lg jr ks s ls).2 = (foldLines lg false ks s2 ls).2 := by
  induction ls with
  | nil => intro s s2 h; exact ⟨h, rfl⟩
  | cons l r ih =>
    intro s s2 hs
    have h := stepLine_strip lg jr ks s s2 hs l
    simp only [foldLines]
    cases h1 : stepLine lg jr ks s l with
    | none =>
      cases h2 : stepLine lg false ks s2 l with
      | none => exact ⟨hs, rfl⟩
      | some t => rw [h1, h2] at h; simp at h
    | some t1 =>
      cases h2 : stepLine lg false ks s2 l with
      | none => rw [h1, h2] at h; simp at h
      | some t2 =>
        rw [h1, h2] at h
        simp only [Option.map_some, Option.some.injEq] at h
        exact ih t1 t2 h

/-- the journal never influences the store a *successful* import builds -/
theorem import_ok_eq_mergeSpec (lg : Bool) (ks hdr : List Str) (st : St) (lines : List Line)
    (st' : St) (stats : Stats)
    (h : importLines lg true ks hdr st lines = (st', some stats)) :
    importLines lg false ks hdr st lines = (st', some stats) := by
  unfold importLines at h ⊢
  have hs := foldLines_strip lg true ks lines
    { st := st, dedup := if ks.isEmpty then [] else prepopulate ks hdr st }
    { st := st, dedup := if ks.isEmpty then [] else prepopulate ks hdr st } rfl
  revert h hs
  simp only
  cases foldLines lg true ks { st := st, dedup := if ks.isEmpty then [] else prepopulate ks hdr st } lines with
  | mk s ok =>
    cases foldLines lg false ks { st := st, dedup := if ks.isEmpty then [] else prepopulate ks hdr st } lines with
    | mk s2 ok2 =>
      intro h hs
      obtain ⟨hs1, hs2⟩ := hs
      simp only at hs1 hs2
      subst hs2
      cases ok with
      | false => simp at h
      | true =>
        have e1 : s.st = s2.st := (congrArg Imp.st hs1 : (strip _).st = (strip _).st)
        have e5 : s.hier = s2.hier := (congrArg Imp.hier hs1 : (strip _).hier = (strip _).hier)
        have e6 : s.nNodes = s2.nNodes := (congrArg Imp.nNodes hs1 : (strip _).nNodes = (strip _).nNodes)
        have e7 : s.nEdges = s2.nEdges := (congrArg Imp.nEdges hs1 : (strip _).nEdges = (strip _).nEdges)
        have e8 : s.nMerged = s2.nMerged := (congrArg Imp.nMerged hs1 : (strip _).nMerged = (strip _).nMerged)
        simp only [← e1, ← e5, ← e6, ← e7, ← e8]
        exact h

end SgModel.SnapJson
