import SgModel.Model.SnapJson
/-!
C13, failure half without dedup keys: whatever the line sequence, when the fold stops at a bad
line the rollback (delete the created nodes, newest first) gives back the original logical
graph.  The invariant: everything the import added is a created node or a relationship with a
created endpoint, and the journal is empty.
-/
namespace SgModel.SnapJson

/-- `ids.foldl deleteNode` -/
def deleteAll (ids : List Nat) (st : St) : St := ids.foldl (fun st id => deleteNode id st) st

theorem getNode_none_iff (id : Nat) (st : St) : getNode id st = none ↔ ∀ n ∈ st.nodes, n.id ≠ id := by
  unfold getNode
  rw [List.find?_eq_none]
  simp

theorem deleteNode_nodes (id : Nat) (st : St) :
    (deleteNode id st).nodes = st.nodes.filter (fun m => !(m.id == id)) := by
  unfold deleteNode
  cases h : getNode id st with
  | none =>
    simp only
    rw [eq_comm, List.filter_eq_self]
    intro n hn
    have := (getNode_none_iff id st).mp h n hn
    simp [this]
  | some n => rfl

theorem deleteNode_hier (id : Nat) (st : St) : (deleteNode id st).hier = st.hier := by
  unfold deleteNode
  cases getNode id st <;> rfl

theorem deleteNode_edges_some {id : Nat} {st : St} {n : NodeS} (h : getNode id st = some n) :
    (deleteNode id st).edges = st.edges.filter (fun e => !(e.src == id) && !(e.tgt == id)) := by
  unfold deleteNode
  rw [h]

theorem getNode_isSome_of_mem {id : Nat} {st : St} (h : id ∈ nodeIds st) : ∃ n, getNode id st = some n := by
  cases hg : getNode id st with
  | some n => exact ⟨n, rfl⟩
  | none =>
    exfalso
    have := (getNode_none_iff id st).mp hg
    simp only [nodeIds, List.mem_map] at h
    obtain ⟨n, hn, rfl⟩ := h
    exact this n hn rfl

theorem deleteAll_nodes (ids : List Nat) : ∀ (st : St),
    (deleteAll ids st).nodes = st.nodes.filter (fun m => !ids.contains m.id) := by
  induction ids with
  | nil =>
    intro st
    simp only [deleteAll, List.foldl_nil, List.contains_nil, Bool.not_false]
    exact (List.filter_eq_self.mpr (fun _ _ => rfl)).symm
  | cons id r ih =>
    intro st
    simp only [deleteAll, List.foldl_cons] at ih ⊢
    rw [ih, deleteNode_nodes, List.filter_filter]
    congr 1
    funext m
    by_cases h : m.id = id
    · simp [h]
    · have h' : ¬ id = m.id := fun e => h e.symm
      simp [h, h', List.contains_cons]

theorem deleteAll_hier (ids : List Nat) : ∀ (st : St), (deleteAll ids st).hier = st.hier := by
  induction ids with
  | nil => intro st; rfl
  | cons id r ih =>
    intro st
    simp only [deleteAll, List.foldl_cons] at ih ⊢
    rw [ih, deleteNode_hier]

theorem deleteAll_edges (ids : List Nat) : ∀ (st : St), ids.Nodup → (∀ id ∈ ids, id ∈ nodeIds st) →
    (deleteAll ids st).edges = st.edges.filter (fun e => !ids.contains e.src && !ids.contains e.tgt) := by
  induction ids with
  | nil =>
    intro st _ _
    simp only [deleteAll, List.foldl_nil, List.contains_nil, Bool.not_false, Bool.and_self]
    exact (List.filter_eq_self.mpr (fun _ _ => rfl)).symm
  | cons id r ih =>
    intro st hnd hmem
    simp only [List.nodup_cons] at hnd
    obtain ⟨n, hn⟩ := getNode_isSome_of_mem (hmem id List.mem_cons_self)
    simp only [deleteAll, List.foldl_cons] at ih ⊢
    rw [ih (deleteNode id st) hnd.2, deleteNode_edges_some hn, List.filter_filter]
    · congr 1
      funext e
      have hs : (id :: r).contains e.src = ((e.src == id) || r.contains e.src) := List.contains_cons
      have ht : (id :: r).contains e.tgt = ((e.tgt == id) || r.contains e.tgt) := List.contains_cons
      rw [hs, ht]
      cases (e.src == id) <;> cases (e.tgt == id) <;> cases r.contains e.src <;> cases r.contains e.tgt <;> rfl
    · intro x hx
      have hx' := hmem x (List.mem_cons_of_mem _ hx)
      have hne : x ≠ id := fun e => hnd.1 (e ▸ hx)
      simp only [nodeIds, deleteNode_nodes, List.mem_map, List.mem_filter] at hx' ⊢
      obtain ⟨m, hm, rfl⟩ := hx'
      exact ⟨m, ⟨hm, by simp [hne]⟩, rfl⟩


/-! ### the no-dedup invariant -/

/-- everything the import added so far: created nodes `cn` (fresh ids) and relationships `ne`
leaving a created node; nothing else changed, nothing journalled -/
def NDInv (st0 : St) (s : Imp) : Prop :=
  ∃ (cn : List NodeS) (ne : List EdgeS),
    s.st.nodes = st0.nodes ++ cn ∧ s.st.edges = st0.edges ++ ne ∧ s.st.hier = st0.hier
    ∧ s.journal = [] ∧ s.created = (cn.map (·.id)).reverse
    ∧ (∀ n ∈ cn, st0.nextNode ≤ n.id ∧ n.id < s.st.nextNode)
    ∧ (cn.map (·.id)).Nodup
    ∧ (∀ e ∈ ne, e.src ∈ cn.map (·.id))
    ∧ (∀ p ∈ s.remap, p.2 ∈ cn.map (·.id))
    ∧ st0.nextNode ≤ s.st.nextNode

theorem lookupNat_mem {α : Type} {k : Nat} {v : α} {l : List (Nat × α)} (h : lookupNat k l = some v) :
    (k, v) ∈ l := by
  induction l with
  | nil => simp [lookupNat] at h
  | cons kv r ih =>
    obtain ⟨k', v'⟩ := kv
    simp only [lookupNat] at h
    split at h
    · rename_i hk
      simp only [beq_iff_eq] at hk
      simp only [Option.some.injEq] at h
      subst hk; subst h
      exact List.mem_cons_self
    · exact List.mem_cons_of_mem _ (ih h)

theorem ndinv_step {st0 : St} {s s' : Imp} (h : NDInv st0 s) (l : Line)
    (hs : stepLine false true [] s l = some s') : NDInv st0 s' := by
  obtain ⟨cn, ne, h1, h2, h3, h4, h5, h6, h7, h8, h9, h10⟩ := h
  cases l with
  | bad => simp [stepLine] at hs
  | skip =>
    simp only [stepLine, Option.some.injEq] at hs
    subst hs
    exact ⟨cn, ne, h1, h2, h3, h4, h5, h6, h7, h8, h9, h10⟩
  | hier hd =>
    simp only [stepLine, Option.some.injEq] at hs
    subst hs
    exact ⟨cn, ne, h1, h2, h3, h4, h5, h6, h7, h8, h9, h10⟩
  | node id labels props =>
    simp only [stepLine, findExisting, Option.some.injEq] at hs
    subst hs
    refine ⟨cn ++ [{ id := s.st.nextNode, labels := labels, col := nonNull (decKV false props),
                     row := (decKV false props).filter (fun kv => !kv.2.isScalar) }], ne,
      ?_, ?_, ?_, ?_, ?_, ?_, ?_, ?_, ?_, ?_⟩
    all_goals (try simp only [createNode, Bool.false_and, Bool.false_eq_true, ↓reduceIte])
    · rw [h1, List.append_assoc]
    · exact h2
    · exact h3
    · exact h4
    · simp [h5]
    · intro n hn
      simp only [List.mem_append, List.mem_singleton] at hn
      rcases hn with hn | hn
      · have := h6 n hn
        exact ⟨this.1, by omega⟩
      · subst hn
        exact ⟨h10, by simp⟩
    · rw [List.map_append, List.nodup_append]
      refine ⟨h7, by simp, ?_⟩
      intro a ha b hb
      simp only [List.map_cons, List.map_nil, List.mem_singleton] at hb
      subst hb
      simp only [List.mem_map] at ha
      obtain ⟨n, hn, rfl⟩ := ha
      have := (h6 n hn).2
      omega
    · intro e he
      simp only [List.map_append, List.mem_append]
      exact Or.inl (h8 e he)
    · intro p hp
      simp only [List.mem_cons] at hp
      simp only [List.map_append, List.mem_append, List.map_cons, List.map_nil, List.mem_singleton]
      rcases hp with hp | hp
      · subst hp; exact Or.inr rfl
      · exact Or.inl (h9 p hp)
    · omega
  | edge eid src tgt ty props =>
    simp only [stepLine] at hs
    cases ha : lookupNat src s.remap with
    | none => simp [ha] at hs
    | some a =>
      cases hb : lookupNat tgt s.remap with
      | none => simp [ha, hb] at hs
      | some b =>
        simp only [ha, hb, Option.some.injEq] at hs
        subst hs
        have hamem : a ∈ cn.map (·.id) := h9 (src, a) (lookupNat_mem ha)
        have hcont : s.created.contains a = true := by
          rw [h5]; simpa using hamem
        refine ⟨cn, ne ++ [{ id := s.st.nextEdge, src := a, tgt := b, ty := ty, props := decKV false props }],
          ?_, ?_, ?_, ?_, ?_, ?_, ?_, ?_, ?_, ?_⟩
        all_goals (try simp only [createEdge])
        · exact h1
        · rw [h2, List.append_assoc]
        · exact h3
        · have hmem : a ∈ s.created := by simpa using hcont
          simp [hmem, h4]
        · exact h5
        · exact h6
        · exact h7
        · intro e he
          simp only [List.mem_append, List.mem_singleton] at he
          rcases he with he | he
          · exact h8 e he
          · subst he; exact hamem
        · exact h9
        · exact h10

theorem ndinv_fold {st0 : St} (ls : List Line) : ∀ (s : Imp), NDInv st0 s →
    NDInv st0 (foldLines false true [] s ls).1 := by
  induction ls with
  | nil => intro s h; exact h
  | cons l r ih =>
    intro s h
    simp only [foldLines]
    cases hs : stepLine false true [] s l with
    | none => exact h
    | some s' => exact ih s' (ndinv_step h l hs)

/-- what C13 needs of the store before the import -/
structure StoreWF (st : St) : Prop where
  fresh : ∀ n ∈ st.nodes, n.id < st.nextNode
  closed : ∀ e ∈ st.edges, e.src ∈ nodeIds st ∧ e.tgt ∈ nodeIds st

theorem rollback_no_dedup {st0 : St} (hwf : StoreWF st0) {s : Imp} (h : NDInv st0 s) :
    logical (rollback s) = logical st0 := by
  obtain ⟨cn, ne, h1, h2, h3, h4, h5, h6, h7, h8, h9, h10⟩ := h
  have hroll : rollback s = deleteAll s.created s.st := by
    simp [rollback, deleteAll, h4]
  have hcontains : ∀ x, s.created.contains x = (cn.map (·.id)).contains x := by
    intro x; rw [h5]; simp
  have hold : ∀ n ∈ st0.nodes, (cn.map (·.id)).contains n.id = false := by
    intro n hn
    have hlt := hwf.fresh n hn
    rw [List.contains_eq_mem]
    simp only [decide_eq_false_iff_not, List.mem_map, not_exists, not_and]
    intro m hm heq
    have := (h6 m hm).1
    omega
  have hnodes : (rollback s).nodes = st0.nodes := by
    rw [hroll, deleteAll_nodes, h1, List.filter_append]
    have e1 : List.filter (fun m => !s.created.contains m.id) st0.nodes = st0.nodes := by
      rw [List.filter_eq_self]
      intro n hn
      rw [hcontains, hold n hn]; rfl
    have e2 : List.filter (fun m => !s.created.contains m.id) cn = [] := by
      rw [List.filter_eq_nil_iff]
      intro n hn
      rw [hcontains]
      have : n.id ∈ cn.map (·.id) := List.mem_map_of_mem hn
      simp [this]
    rw [e1, e2, List.append_nil]
  have hedges : (rollback s).edges = st0.edges := by
    rw [hroll, deleteAll_edges s.created s.st]
    · rw [h2, List.filter_append]
      have e1 : List.filter (fun e => !s.created.contains e.src && !s.created.contains e.tgt) st0.edges
          = st0.edges := by
        rw [List.filter_eq_self]
        intro e he
        obtain ⟨hs, ht⟩ := hwf.closed e he
        simp only [nodeIds, List.mem_map] at hs ht
        obtain ⟨n1, hn1, e1⟩ := hs
        obtain ⟨n2, hn2, e2⟩ := ht
        rw [hcontains, hcontains, ← e1, ← e2, hold n1 hn1, hold n2 hn2]; rfl
      have e2 : List.filter (fun e => !s.created.contains e.src && !s.created.contains e.tgt) ne = [] := by
        rw [List.filter_eq_nil_iff]
        intro e he
        have := h8 e he
        rw [hcontains]
        simp [this]
      rw [e1, e2, List.append_nil]
    · rw [h5]
      unfold List.Nodup at h7 ⊢
      rw [List.pairwise_reverse]
      exact h7.imp (fun h => fun e => h e.symm)
    · intro id hid
      rw [h5] at hid
      simp only [List.mem_reverse] at hid
      simp only [nodeIds, h1, List.map_append, List.mem_append]
      exact Or.inr hid
  have hhier : (rollback s).hier = st0.hier := by
    rw [hroll, deleteAll_hier, h3]
  unfold logical nodeIds
  rw [hnodes, hedges, hhier]

theorem ndinv_init (st0 : St) : NDInv st0 { st := st0, dedup := [] } :=
  ⟨[], [], by simp, by simp, rfl, rfl, rfl, by simp, by simp, by simp, by simp, Nat.le_refl _⟩

end SgModel.SnapJson
