import SgModel.Lemmas.Rdf
/-! C36 helper lemmas: N-Triples lines and documents. -/
namespace SgModel.Rdf

theorem renderSubj_head (s : Subj) (rest : Str) :
    ∃ c r, renderSubj s ++ rest = c :: r ∧ (c = '<' ∨ c = '_') := by
  cases s with
  | iri i => exact ⟨'<', i ++ ['>'] ++ rest, by simp [renderSubj, renderIri], Or.inl rfl⟩
  | bnode b => exact ⟨'_', ':' :: b ++ rest, by simp [renderSubj, renderBnode], Or.inr rfl⟩

theorem renderObj_head (o : Obj) (rest : Str) :
    ∃ c r, renderObj o ++ rest = c :: r ∧ (c = '<' ∨ c = '_' ∨ c = '"') := by
  cases o with
  | iri i => exact ⟨'<', i ++ ['>'] ++ rest, by simp [renderObj, renderIri], Or.inl rfl⟩
  | bnode b => exact ⟨'_', ':' :: b ++ rest, by simp [renderObj, renderBnode], Or.inr (Or.inl rfl)⟩
  | lit l =>
    have : ∃ q, renderRioLit (toRio l) ++ rest = '"' :: q := by
      cases toRio l <;> simp [renderRioLit, renderQuoted]
    obtain ⟨q, hq⟩ := this
    exact ⟨'"', q, by simpa [renderObj] using hq, Or.inr (Or.inr rfl)⟩

theorem skipWs_renderSubj (s : Subj) (rest : Str) :
    skipWs (renderSubj s ++ rest) = renderSubj s ++ rest := by
  obtain ⟨c, r, h, hc⟩ := renderSubj_head s rest
  rw [h]
  rcases hc with hc | hc <;> subst hc <;> exact skipWs_cons_of_ne _ _ (by decide) (by decide)

theorem skipWs_renderObj (o : Obj) (rest : Str) :
    skipWs (renderObj o ++ rest) = renderObj o ++ rest := by
  obtain ⟨c, r, h, hc⟩ := renderObj_head o rest
  rw [h]
  rcases hc with hc | hc | hc <;> subst hc <;> exact skipWs_cons_of_ne _ _ (by decide) (by decide)

theorem skipWs_renderIri (i : Str) (rest : Str) :
    skipWs (renderIri i ++ rest) = renderIri i ++ rest := by
  simp only [renderIri, List.cons_append]
  exact skipWs_cons_of_ne '<' _ (by decide) (by decide)

theorem isLineEnd_renderSubj (s : Subj) (rest : Str) : isLineEnd (renderSubj s ++ rest) = false := by
  obtain ⟨c, r, h, hc⟩ := renderSubj_head s rest
  rw [h]
  rcases hc with hc | hc <;> subst hc <;> rfl

theorem renderLine_eq (t : Triple) (rest : Str) :
    renderLine t ++ rest =
      renderSubj t.s ++ ' ' :: (renderIri t.p ++ ' ' :: (renderObj t.o ++ ' ' :: '.' :: '\n' :: rest)) := by
  simp [renderLine]

/-- one rendered line, followed by anything, is read back as exactly that triple -/
theorem parseLine_render (t : Triple) (rest : Str) (h : tripleOK t = true) :
    parseLine (renderLine t ++ rest) = some (some t, rest) := by
  simp only [tripleOK, Bool.and_eq_true] at h
  obtain ⟨⟨hs, hp⟩, ho⟩ := h
  obtain ⟨r', hobj, hr'⟩ :=
    parseObj_render t.o '.' ('\n' :: rest) ho (by decide) (by decide) (by decide) (by decide)
  rw [renderLine_eq]
  unfold parseLine
  simp only [skipWs_renderSubj, isLineEnd_renderSubj, parseSubj_render t.s _ hs, skipWs_space,
    skipWs_renderIri, parseIri_render t.p _ hp, skipWs_renderObj, hobj, hr']
  simp [skipWs, isLineEnd, skipUntilEol]

theorem parseDocFuel_step (n : Nat) (c : Char) (r : Str) (t : Triple) (rest : Str)
    (h : parseLine (c :: r) = some (some t, rest)) :
    parseDocFuel (n + 1) (c :: r) = (parseDocFuel n rest).map (t :: ·) := by
  rw [parseDocFuel]
  · rw [h]
    dsimp only
    cases parseDocFuel n rest <;> rfl
  · simp

theorem parseDocFuel_render (ts : List Triple) (h : ∀ t ∈ ts, tripleOK t = true) :
    ∀ fuel, ts.length < fuel → parseDocFuel fuel (renderDoc ts) = some ts := by
  induction ts with
  | nil =>
    intro fuel hf
    cases fuel with
    | zero => omega
    | succ n => simp [renderDoc, parseDocFuel]
  | cons t ts ih =>
    intro fuel hf
    cases fuel with
    | zero => omega
    | succ n =>
      have ht : tripleOK t = true := h t (List.mem_cons_self ..)
      have hts : ∀ t' ∈ ts, tripleOK t' = true := fun t' ht' => h t' (List.mem_cons_of_mem _ ht')
      have hn : ts.length < n := by simp only [List.length_cons] at hf; omega
      obtain ⟨c, r, hcr, _⟩ := renderSubj_head t.s
        (' ' :: (renderIri t.p ++ ' ' :: (renderObj t.o ++ ' ' :: '.' :: '\n' :: renderDoc ts)))
      have hline := parseLine_render t (renderDoc ts) ht
      simp only [renderDoc]
      rw [renderLine_eq] at hline ⊢
      rw [hcr] at hline ⊢
      rw [parseDocFuel_step n c r t _ hline, ih hts n hn]
      rfl

theorem renderLine_length_pos (t : Triple) : 0 < (renderLine t).length := by
  simp only [renderLine, List.length_append, List.length_cons]
  omega

theorem renderDoc_length (ts : List Triple) : ts.length ≤ (renderDoc ts).length := by
  induction ts with
  | nil => simp [renderDoc]
  | cons t ts ih =>
    have := renderLine_length_pos t
    simp only [renderDoc, List.length_cons, List.length_append]
    omega

end SgModel.Rdf
