import SgModel.Model.Column
/-! Helper lemmas for C30 (core Lean only): association lists, the dense band, `ColumnData`. -/
namespace SgModel.Column

variable {α : Type}

/-! ### association lists -/

def KeysNodup (m : List (Nat × α)) : Prop := (m.map (·.1)).Nodup

theorem alGet_nil (k : Nat) : alGet ([] : List (Nat × α)) k = none := rfl

theorem alGet_cons (e : Nat × α) (m : List (Nat × α)) (k : Nat) :
    alGet (e :: m) k = if e.1 = k then some e.2 else alGet m k := by
  unfold alGet
  rw [List.find?_cons]
  by_cases h : e.1 = k
  · simp [h]
  · have : (e.1 == k) = false := by simpa using h
    simp [this, h]

theorem alGet_alErase (m : List (Nat × α)) (k j : Nat) :
    alGet (alErase m k) j = if j = k then none else alGet m j := by
  induction m with
  | nil => simp [alErase, alGet]
  | cons e m ih =>
    unfold alErase at *
    rw [List.filter_cons]
    by_cases hek : e.1 = k
    · have : (e.1 != k) = false := by simp [hek]
      simp only [this, Bool.false_eq_true, if_false]
      rw [ih, alGet_cons]
      by_cases hj : j = k
      · simp [hj]
      · have : ¬ e.1 = j := by rw [hek]; exact fun h => hj h.symm
        simp [hj, this]
    · have : (e.1 != k) = true := by simp [hek]
      simp only [this, if_true]
      rw [alGet_cons, alGet_cons, ih]
      by_cases hej : e.1 = j
      · have : ¬ j = k := by rw [← hej]; exact hek
        simp [hej, this]
      · simp [hej]

theorem alGet_alSet (m : List (Nat × α)) (k : Nat) (v : α) (j : Nat) :
    alGet (alSet m k v) j = if j = k then some v else alGet m j := by
  unfold alSet
  rw [alGet_cons, alGet_alErase]
  by_cases h : j = k
  · simp [h]
  · have : ¬ k = j := fun e => h e.symm
    simp [h, this]

theorem alGet_eq_none_of_not_mem {m : List (Nat × α)} {k : Nat} (h : k ∉ m.map (·.1)) :
    alGet m k = none := by
  induction m with
  | nil => rfl
  | cons e m ih =>
    rw [alGet_cons]
    simp only [List.map_cons, List.mem_cons, not_or] at h
    have : ¬ e.1 = k := fun x => h.1 x.symm
    simp [this, ih h.2]

theorem alGet_isSome_iff {m : List (Nat × α)} {k : Nat} :
    (alGet m k).isSome = true ↔ k ∈ m.map (·.1) := by
  induction m with
  | nil => simp [alGet]
  | cons e m ih =>
    rw [alGet_cons]
    by_cases h : e.1 = k
    · simp [h]
    · have h' : ¬ k = e.1 := fun x => h x.symm
      simp [h, h', ih]

theorem keysNodup_alErase {m : List (Nat × α)} (h : KeysNodup m) (k : Nat) :
    KeysNodup (alErase m k) :=
  List.Nodup.sublist (List.Sublist.map _ List.filter_sublist) h

theorem not_mem_keys_alErase (m : List (Nat × α)) (k : Nat) : k ∉ (alErase m k).map (·.1) := by
  intro h
  rw [List.mem_map] at h
  obtain ⟨e, he, rfl⟩ := h
  unfold alErase at he
  rw [List.mem_filter] at he
  simp at he

theorem keysNodup_alSet {m : List (Nat × α)} (h : KeysNodup m) (k : Nat) (v : α) :
    KeysNodup (alSet m k v) := by
  unfold alSet KeysNodup
  rw [List.map_cons, List.nodup_cons]
  exact ⟨not_mem_keys_alErase m k, keysNodup_alErase h k⟩

theorem length_alErase_of_mem {m : List (Nat × α)} (h : KeysNodup m) {k : Nat}
    (hk : k ∈ m.map (·.1)) : (alErase m k).length + 1 = m.length := by
  induction m with
  | nil => simp at hk
  | cons e m ih =>
    unfold KeysNodup at h
    rw [List.map_cons, List.nodup_cons] at h
    unfold alErase
    rw [List.filter_cons]
    by_cases hek : e.1 = k
    · have hb : (e.1 != k) = false := by simp [hek]
      simp only [hb, List.length_cons]
      have : k ∉ m.map (·.1) := hek ▸ h.1
      have hall : m.filter (fun e => e.1 != k) = m := by
        rw [List.filter_eq_self]
        intro a ha
        have : a.1 ≠ k := fun x => this (x ▸ List.mem_map.mpr ⟨a, ha, rfl⟩)
        simpa using this
      simp [hall]
    · have hb : (e.1 != k) = true := by simp [hek]
      simp only [hb, if_true, List.length_cons]
      have hk' : k ∈ m.map (·.1) := by
        simp only [List.map_cons, List.mem_cons] at hk
        rcases hk with hk | hk
        · exact absurd hk.symm hek
        · exact hk
      have := ih h.2 hk'
      unfold alErase at this
      omega

theorem length_alErase_of_not_mem {m : List (Nat × α)} {k : Nat}
    (hk : k ∉ m.map (·.1)) : (alErase m k).length = m.length := by
  unfold alErase
  have : m.filter (fun e => e.1 != k) = m := by
    rw [List.filter_eq_self]
    intro a ha
    have : a.1 ≠ k := fun x => hk (x ▸ List.mem_map.mpr ⟨a, ha, rfl⟩)
    simpa using this
  rw [this]

/-! ### slots of the dense band -/

theorem slotGet_set_same {vs : List α} {ps : List Bool} {s : Nat} (v : α)
    (hs : s < vs.length) (hl : vs.length = ps.length) :
    slotGet (vs.set s v) (ps.set s true) s = some v := by
  have hps : s < ps.length := by omega
  simp [slotGet, hs, hps, List.getElem?_set_self]

theorem slotGet_set_other {vs : List α} {ps : List Bool} {s t : Nat} (v : α) (b : Bool)
    (hne : s ≠ t) : slotGet (vs.set s v) (ps.set s b) t = slotGet vs ps t := by
  unfold slotGet
  simp only [List.length_set, List.getD_eq_getElem?_getD]
  rw [List.getElem?_set_ne hne, List.getElem?_set_ne hne]

theorem slotGet_clear_same {vs : List α} {ps : List Bool} {s : Nat} (v : α)
    (hl : vs.length = ps.length) : slotGet (vs.set s v) (ps.set s false) s = none := by
  by_cases hs : s < vs.length
  · have hps : s < ps.length := by omega
    simp [slotGet, hps, List.getElem?_set_self]
  · simp [slotGet, hs]

theorem slotGet_of_ge {vs : List α} {ps : List Bool} {s : Nat} (h : vs.length ≤ s) :
    slotGet vs ps s = none := by
  have : ¬ s < vs.length := by omega
  simp [slotGet, this]

theorem slotGet_of_not_present {vs : List α} {ps : List Bool} {s : Nat}
    (h : ps.getD s false = false) : slotGet vs ps s = none := by
  simp only [List.getD_eq_getElem?_getD] at h
  simp [slotGet, h]

/-- the two pieces a `slotGet` is made of -/
theorem slotGet_eq {vs : List α} {ps : List Bool} {s : Nat} :
    slotGet vs ps s = if ps[s]?.getD false = true then vs[s]? else none := by
  unfold slotGet
  by_cases h : s < vs.length
  · simp [h]
  · have : vs[s]? = none := List.getElem?_eq_none (by omega)
    simp [h, this]

theorem slotGet_growTo (d : α) {vs : List α} {ps : List Bool} (n t : Nat)
    (hl : vs.length = ps.length) :
    slotGet (growTo d vs n) (growTo false ps n) t = slotGet vs ps t := by
  rw [slotGet_eq, slotGet_eq]
  unfold growTo
  by_cases ht : t < vs.length
  · rw [List.getElem?_append_left ht, List.getElem?_append_left (by omega)]
  · have h1 : (ps ++ List.replicate (n - ps.length) false)[t]?.getD false = false := by
      rw [List.getElem?_append_right (by omega), List.getElem?_replicate]
      split <;> rfl
    have h2 : ps[t]?.getD false = false := by
      rw [List.getElem?_eq_none (by omega)]; rfl
    simp [h1, h2]

theorem length_growTo {β : Type} (d : β) (l : List β) (n : Nat) (h : l.length ≤ n) :
    (growTo d l n).length = n := by
  unfold growTo; simp; omega

theorem slotGet_rebase (d : α) {vs : List α} {ps : List Bool} (k t : Nat)
    (hl : vs.length = ps.length) :
    slotGet (List.replicate k d ++ maskValues d vs ps) (List.replicate k false ++ ps) t
      = if t < k then none else slotGet vs ps (t - k) := by
  rw [slotGet_eq]
  by_cases ht : t < k
  · have : (List.replicate k false ++ ps)[t]?.getD false = false := by
      rw [List.getElem?_append_left (by simpa using ht), List.getElem?_replicate]
      simp [ht]
    simp [this, ht]
  · simp only [ht, if_false]
    rw [slotGet_eq]
    rw [List.getElem?_append_right (by simp; omega), List.getElem?_append_right (by simp; omega)]
    simp only [List.length_replicate]
    unfold maskValues
    rw [List.getElem?_zipWith]
    cases hp : ps[t - k]? with
    | none => simp
    | some b =>
      cases hv : vs[t - k]? with
      | none => simp
      | some x => cases b <;> simp

/-! ### the entries of a dense band (`for_each` / `demote_to_sparse`) -/

theorem keys_denseEntries_ge (b : Nat) (vs : List α) (ps : List Bool) :
    ∀ k ∈ (denseEntries b vs ps).map (·.1), b ≤ k := by
  induction vs generalizing b ps with
  | nil => intro k hk; simp [denseEntries] at hk
  | cons v vs ih =>
    cases ps with
    | nil => intro k hk; simp [denseEntries] at hk
    | cons p ps =>
      intro k hk
      simp only [denseEntries, List.map_append, List.mem_append] at hk
      rcases hk with hk | hk
      · cases p <;> simp at hk
        omega
      · have := ih (b + 1) ps k hk
        omega

theorem keysNodup_denseEntries (b : Nat) (vs : List α) (ps : List Bool) :
    KeysNodup (denseEntries b vs ps) := by
  induction vs generalizing b ps with
  | nil => simp [denseEntries, KeysNodup]
  | cons v vs ih =>
    cases ps with
    | nil => simp [denseEntries, KeysNodup]
    | cons p ps =>
      unfold KeysNodup
      simp only [denseEntries, List.map_append]
      cases p
      · simpa [KeysNodup] using ih (b + 1) ps
      · simp only [if_true, List.map_cons, List.map_nil, List.singleton_append, List.nodup_cons]
        refine ⟨?_, ih (b + 1) ps⟩
        intro hmem
        have := keys_denseEntries_ge (b + 1) vs ps b hmem
        omega

theorem alGet_denseEntries (b : Nat) (vs : List α) (ps : List Bool) (j : Nat) :
    alGet (denseEntries b vs ps) j = if b ≤ j then slotGet vs ps (j - b) else none := by
  induction vs generalizing b ps with
  | nil =>
    simp only [denseEntries, alGet_nil]
    split
    · rw [slotGet_of_ge (by simp)]
    · rfl
  | cons v vs ih =>
    cases ps with
    | nil =>
      simp only [denseEntries, alGet_nil]
      split
      · rw [slotGet_of_not_present (by simp)]
      · rfl
    | cons p ps =>
      simp only [denseEntries]
      by_cases hbj : b = j
      · subst hbj
        cases p
        · simp only [Bool.false_eq_true, if_false, List.nil_append]
          rw [alGet_eq_none_of_not_mem]
          · simp [slotGet]
          · intro hm
            have := keys_denseEntries_ge (b + 1) vs ps b hm
            omega
        · simp [alGet_cons, slotGet]
      · have hrest : alGet ((if p = true then [(b, v)] else []) ++ denseEntries (b + 1) vs ps) j
            = alGet (denseEntries (b + 1) vs ps) j := by
          cases p
          · simp
          · simp [alGet_cons, hbj]
        rw [hrest, ih]
        by_cases hle : b ≤ j
        · have h1 : b + 1 ≤ j := by omega
          simp only [h1, hle, if_true]
          have : j - b = (j - (b + 1)) + 1 := by omega
          rw [this, slotGet_eq, slotGet_eq]
          simp
        · have h1 : ¬ b + 1 ≤ j := by omega
          simp [h1, hle]

theorem length_denseEntries (b : Nat) (vs : List α) (ps : List Bool)
    (hl : vs.length = ps.length) : (denseEntries b vs ps).length = ps.count true := by
  induction vs generalizing b ps with
  | nil => cases ps <;> simp_all [denseEntries]
  | cons v vs ih =>
    cases ps with
    | nil => simp at hl
    | cons p ps =>
      simp only [denseEntries, List.length_append, List.count_cons]
      rw [ih (b + 1) ps (by simpa using hl)]
      cases p <;> simp <;> omega

/-! ### min / max key, `scatter`, `promote` -/

theorem minKey_le {m : List (Nat × α)} {mn : Nat} (h : minKey m = some mn) :
    ∀ k ∈ m.map (·.1), mn ≤ k := by
  induction m generalizing mn with
  | nil => simp [minKey] at h
  | cons e m ih =>
    intro k hk
    simp only [minKey] at h
    cases hm : minKey m with
    | none =>
      cases m with
      | nil => simp [hm] at h; simp at hk; omega
      | cons e' m' =>
        simp only [minKey] at hm
        cases h' : minKey m' <;> simp [h'] at hm
    | some m0 =>
      simp only [hm, Option.some.injEq] at h
      simp only [List.map_cons, List.mem_cons] at hk
      rcases hk with rfl | hk
      · split at h <;> omega
      · have := ih hm k hk
        split at h <;> omega

theorem le_maxKey {m : List (Nat × α)} {mx : Nat} (h : maxKey m = some mx) :
    ∀ k ∈ m.map (·.1), k ≤ mx := by
  induction m generalizing mx with
  | nil => simp [maxKey] at h
  | cons e m ih =>
    intro k hk
    simp only [maxKey] at h
    cases hm : maxKey m with
    | none =>
      cases m with
      | nil => simp [hm] at h; simp at hk; omega
      | cons e' m' =>
        simp only [maxKey] at hm
        cases h' : maxKey m' <;> simp [h'] at hm
    | some m0 =>
      simp only [hm, Option.some.injEq] at h
      simp only [List.map_cons, List.mem_cons] at hk
      rcases hk with rfl | hk
      · split at h <;> omega
      · have := ih hm k hk
        split at h <;> omega

theorem scatter_length (mn : Nat) (m : List (Nat × α)) (st : List α × List Bool) :
    (scatter mn m st).1.length = st.1.length ∧ (scatter mn m st).2.length = st.2.length := by
  induction m generalizing st with
  | nil => exact ⟨rfl, rfl⟩
  | cons e m ih =>
    have := ih (st.1.set (e.1 - mn) e.2, st.2.set (e.1 - mn) true)
    simp only [List.length_set] at this
    exact this

theorem scatter_get {mn : Nat} {m : List (Nat × α)} (hn : KeysNodup m)
    (st : List α × List Bool) (hl : st.1.length = st.2.length)
    (hr : ∀ k ∈ m.map (·.1), mn ≤ k ∧ k - mn < st.1.length) (t : Nat) :
    slotGet (scatter mn m st).1 (scatter mn m st).2 t
      = (match alGet m (mn + t) with | some v => some v | none => slotGet st.1 st.2 t) := by
  induction m generalizing st with
  | nil => rfl
  | cons e m ih =>
    unfold KeysNodup at hn
    rw [List.map_cons, List.nodup_cons] at hn
    have he := hr e.1 (by simp)
    have hr' : ∀ k ∈ m.map (·.1), mn ≤ k ∧ k - mn < (st.1.set (e.1 - mn) e.2).length := by
      intro k hk
      simpa using hr k (by simp only [List.map_cons, List.mem_cons]; exact Or.inr hk)
    have := ih hn.2 (st.1.set (e.1 - mn) e.2, st.2.set (e.1 - mn) true) (by simpa using hl) hr'
    show slotGet (scatter mn m _).1 (scatter mn m _).2 t = _
    rw [this, alGet_cons]
    by_cases hk : e.1 = mn + t
    · have hnone : alGet m (mn + t) = none := alGet_eq_none_of_not_mem (hk ▸ hn.1)
      have ht : e.1 - mn = t := by omega
      simp only [hnone, hk, if_true]
      rw [← hk, ht]
      exact slotGet_set_same _ (by omega) hl
    · simp only [hk, if_false]
      have hne : e.1 - mn ≠ t := by omega
      cases alGet m (mn + t) with
      | some v => rfl
      | none => exact slotGet_set_other _ _ hne

theorem scatter_count {mn : Nat} {m : List (Nat × α)} (hn : KeysNodup m)
    (st : List α × List Bool)
    (hr : ∀ k ∈ m.map (·.1), mn ≤ k ∧ k - mn < st.2.length ∧ st.2[k - mn]? = some false) :
    (scatter mn m st).2.count true = st.2.count true + m.length := by
  induction m generalizing st with
  | nil => rfl
  | cons e m ih =>
    unfold KeysNodup at hn
    rw [List.map_cons, List.nodup_cons] at hn
    have he := hr e.1 (by simp)
    have hr' : ∀ k ∈ m.map (·.1), mn ≤ k ∧ k - mn < (st.2.set (e.1 - mn) true).length
        ∧ (st.2.set (e.1 - mn) true)[k - mn]? = some false := by
      intro k hk
      have hk' := hr k (by simp only [List.map_cons, List.mem_cons]; exact Or.inr hk)
      have hne : e.1 ≠ k := fun x => hn.1 (x ▸ hk)
      refine ⟨hk'.1, by simpa using hk'.2.1, ?_⟩
      rw [List.getElem?_set_ne (by omega)]
      exact hk'.2.2
    have := ih hn.2 (st.1.set (e.1 - mn) e.2, st.2.set (e.1 - mn) true) hr'
    show (scatter mn m _).2.count true = _
    rw [this, List.count_set he.2.1]
    have hget : st.2[e.1 - mn] = false := by
      have := he.2.2
      rw [List.getElem?_eq_getElem he.2.1] at this
      exact Option.some.inj this
    simp [hget]
    omega

theorem minKey_isSome_of_ne_nil {m : List (Nat × α)} (h : m ≠ []) : ∃ mn, minKey m = some mn := by
  cases m with
  | nil => exact absurd rfl h
  | cons e m => simp only [minKey]; cases minKey m <;> simp

end SgModel.Column
