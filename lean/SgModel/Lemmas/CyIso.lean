import SgModel.Model.CyPlan
/-!
Relationship isomorphism: within one MATCH clause no relationship is used twice — an
invariant of every matching function (core Lean only).
-/
namespace SgModel.Cy

theorem stepFrom_nodup (g : Graph) (rp : RelPat) (np : NodePat) (s : MState) (cur : Nat)
    (h : s.used.Nodup) : ∀ x ∈ stepFrom g rp np s cur, x.1.used.Nodup := by
  intro x hx
  unfold stepFrom at hx
  obtain ⟨r, _, hr⟩ := List.mem_filterMap.mp hx
  by_cases hc : (s.used.contains r.id || !relOk rp r) = true
  · rw [if_pos hc] at hr; cases hr
  · rw [if_neg hc] at hr
    have hnot : r.id ∉ s.used := by
      intro hm
      apply hc
      simp [hm]
    cases h1 : relTarget rp.dir cur r with
    | none => simp [h1] at hr
    | some t =>
      cases h2 : g.node? t with
      | none => simp [h1, h2] at hr
      | some n =>
        cases h3 : bindVar s.row rp.var (.rel r.id) with
        | none => simp [h1, h2, h3] at hr
        | some row1 =>
          cases h4 : matchNode np row1 n with
          | none => simp [h1, h2, h3, h4] at hr
          | some row2 =>
            simp [h1, h2, h3, h4] at hr
            rw [← hr]
            exact List.nodup_cons.mpr ⟨hnot, h⟩

theorem walks_nodup (g : Graph) (rp : RelPat) (len cur : Nat) (used : List Nat) (h : used.Nodup) :
    ∀ x ∈ walks g rp len cur used, x.2.Nodup := by
  induction len generalizing cur used with
  | zero => intro x hx; simp [walks] at hx; rw [hx]; exact h
  | succ n ih =>
    intro x hx
    simp only [walks, List.mem_flatMap] at hx
    obtain ⟨r, _, hr⟩ := hx
    by_cases hc : (used.contains r.id || !relOk rp r) = true
    · rw [if_pos hc] at hr; cases hr
    · rw [if_neg hc] at hr
      have hnot : r.id ∉ used := by
        intro hm; apply hc; simp [hm]
      cases h1 : relTarget rp.dir cur r with
      | none => simp [h1] at hr
      | some t =>
        simp only [h1] at hr
        exact ih t (r.id :: used) (List.nodup_cons.mpr ⟨hnot, h⟩) x hr

theorem varLenEnds_nodup (g : Graph) (rp : RelPat) (lo : Nat) (hi : Option Nat) (cur : Nat)
    (used : List Nat) (h : used.Nodup) : ∀ x ∈ varLenEnds g rp lo hi cur used, x.2.Nodup := by
  intro x hx
  simp only [varLenEnds, List.mem_flatMap] at hx
  obtain ⟨len, _, hl⟩ := hx
  split at hl
  · cases hl
  · exact walks_nodup g rp len cur used h x hl

theorem stepVar_nodup (g : Graph) (de : Bool) (rp : RelPat) (np : NodePat) (lo : Nat)
    (hi : Option Nat) (s : MState) (cur : Nat) (h : s.used.Nodup) :
    ∀ x ∈ stepVar g de rp np lo hi s cur, x.1.used.Nodup := by
  intro x hx
  unfold stepVar at hx
  obtain ⟨e, he, hfe⟩ := List.mem_filterMap.mp hx
  have hused : e.2.Nodup := by
    cases de with
    | false =>
      simp only [Bool.false_eq_true, if_false] at he
      exact varLenEnds_nodup g rp lo hi cur s.used h e he
    | true =>
      simp only [if_true, List.mem_map] at he
      obtain ⟨t, _, ht⟩ := he
      rw [← ht]; exact h
  obtain ⟨t, u⟩ := e
  simp only at hfe
  cases h2 : g.node? t with
  | none => simp [h2] at hfe
  | some n =>
    cases h4 : matchNode np s.row n with
    | none => simp [h2, h4] at hfe
    | some row2 =>
      simp [h2, h4] at hfe
      rw [← hfe]; exact hused

theorem stepAny_nodup (g : Graph) (de : Bool) (rp : RelPat) (np : NodePat) (s : MState)
    (cur : Nat) (h : s.used.Nodup) : ∀ x ∈ stepAny g de rp np s cur, x.1.used.Nodup := by
  unfold stepAny
  split
  · exact stepFrom_nodup g rp np s cur h
  · exact stepVar_nodup g de rp np _ _ s cur h

theorem walkSteps_nodup (g : Graph) (de : Bool) (steps : List (RelPat × NodePat))
    (sc : MState × Nat) (h : sc.1.used.Nodup) :
    ∀ x ∈ walkSteps g de steps sc, x.1.used.Nodup := by
  induction steps generalizing sc with
  | nil => intro x hx; simp [walkSteps] at hx; rw [hx]; exact h
  | cons st rest ih =>
    obtain ⟨rp, np⟩ := st
    obtain ⟨s, cur⟩ := sc
    intro x hx
    simp only [walkSteps, List.mem_flatMap] at hx
    obtain ⟨y, hy, hxy⟩ := hx
    exact ih y (stepAny_nodup g de rp np s cur h y hy) x hxy

theorem matchPath_nodup (g : Graph) (de : Bool) (p : PathPat) (s : MState) (h : s.used.Nodup) :
    ∀ x ∈ matchPath g de p s, x.used.Nodup := by
  intro x hx
  simp only [matchPath, List.mem_map, List.mem_flatMap] at hx
  obtain ⟨y, ⟨n, _, hn⟩, hy⟩ := hx
  cases hm : matchNode p.start s.row n with
  | none => simp [hm] at hn
  | some row1 =>
    simp only [hm] at hn
    rw [← hy]
    exact walkSteps_nodup g de p.steps (⟨row1, s.used⟩, n.id) h y hn

theorem matchPats_nodup (g : Graph) (de : Bool) (ps : List PathPat) (s : MState)
    (h : s.used.Nodup) : ∀ x ∈ matchPats g de ps s, x.used.Nodup := by
  induction ps generalizing s with
  | nil => intro x hx; simp [matchPats] at hx; rw [hx]; exact h
  | cons p rest ih =>
    intro x hx
    simp only [matchPats, List.mem_flatMap] at hx
    obtain ⟨y, hy, hxy⟩ := hx
    exact ih y (matchPath_nodup g de p s h y hy) x hxy

end SgModel.Cy
