import SgModel.Model.OehMgr
namespace SgModel.Oeh

theorem lowbit_zero : lowbit 0 = 0 := by rw [lowbit]; simp

theorem lowbit_even (m : Nat) (h : 0 < m) : lowbit (2 * m) = 2 * lowbit m := by
  rw [lowbit]
  have h1 : ¬ (2 * m = 0) := by omega
  have h2 : ¬ (2 * m % 2 = 1) := by omega
  have h3 : 2 * m / 2 = m := by omega
  simp [h1, h3]

theorem lowbit_odd (m : Nat) : lowbit (2 * m + 1) = 1 := by
  rw [lowbit]
  have h1 : ¬ (2 * m + 1 = 0) := by omega
  have h2 : (2 * m + 1) % 2 = 1 := by omega
  simp [h2]

theorem even_or_odd' (n : Nat) : ∃ m, n = 2 * m ∨ n = 2 * m + 1 :=
  ⟨n / 2, by omega⟩

theorem lowbit_add_even (j : Nat) (h : 0 < j) : (j + lowbit j) % 2 = 0 := by
  rcases even_or_odd' j with ⟨m, hm | hm⟩
  · subst hm
    have hm0 : 0 < m := by omega
    rw [lowbit_even m hm0]; omega
  · subst hm
    rw [lowbit_odd]; omega

theorem cover_step : ∀ k j : Nat, 0 < j → j < k →
    ((k - lowbit k < j ∧ j ≤ k) ↔ (k - lowbit k < j + lowbit j ∧ j + lowbit j ≤ k)) := by
  intro k
  induction k using Nat.strongRecOn with
  | _ k ih =>
    intro j hj hjk
    rcases even_or_odd' k with ⟨k', hk | hk⟩
    · subst hk
      have hk0 : 0 < k' := by omega
      rw [lowbit_even k' hk0]
      have hle := lowbit_le k'
      rcases even_or_odd' j with ⟨j', hj' | hj'⟩
      · subst hj'
        have hj0 : 0 < j' := by omega
        rw [lowbit_even j' hj0]
        have := ih k' (by omega) j' hj0 (by omega)
        omega
      · subst hj'
        rw [lowbit_odd]
        omega
    · subst hk
      rw [lowbit_odd]
      have := lowbit_add_even j hj
      omega

/-! ### Fenwick tree: the invariant, prefix sums, point updates, build -/

/-- prefix sums of an abstract value vector -/
def psumF (v : Nat → Int) : Nat → Int
  | 0 => 0
  | k + 1 => psumF v k + v k

/-- every cell holds the sum of its responsibility range `(k - lowbit k, k]` (1-based) -/
def FwInv (t : List Int) (n : Nat) (v : Nat → Int) : Prop :=
  t.length = n + 1 ∧ ∀ k, 0 < k → k ≤ n → t.getD k 0 = psumF v k - psumF v (k - lowbit k)

theorem fwPrefixLoop_eq {t : List Int} {n : Nat} {v : Nat → Int} (h : FwInv t n v) :
    ∀ i, i ≤ n → fwPrefixLoop t i = psumF v i := by
  intro i
  induction i using Nat.strongRecOn with
  | _ i ih =>
    intro hi
    rw [fwPrefixLoop]
    split
    · next h0 => subst h0; rfl
    · next h0 =>
      have hp := lowbit_pos i (by omega)
      have hl := lowbit_le i
      rw [ih (i - lowbit i) (by omega) (by omega), h.2 i (by omega) hi]
      omega

theorem fwPrefix_eq {t : List Int} {n : Nat} {v : Nat → Int} (h : FwInv t n v) (i : Nat)
    (hi : i ≤ n) : fwPrefix t i = psumF v i := by
  unfold fwPrefix
  have : min i (t.length - 1) = i := by rw [h.1]; omega
  rw [this]
  exact fwPrefixLoop_eq h i hi

def bump (v : Nat → Int) (pos : Nat) (d : Int) : Nat → Int :=
  fun i => if i = pos then v i + d else v i

theorem psumF_bump (v : Nat → Int) (pos : Nat) (d : Int) :
    ∀ k, psumF (bump v pos d) k = psumF v k + (if pos < k then d else 0) := by
  intro k
  induction k with
  | zero => simp [psumF]
  | succ k ih =>
    simp only [psumF, ih, bump]
    by_cases h1 : k = pos
    · subst h1; simp; omega
    · by_cases h2 : pos < k
      · have : pos < k + 1 := by omega
        simp [h1, h2, this]; omega
      · have : ¬ pos < k + 1 := by omega
        simp [h1, h2, this]

theorem fwAddLoop_length (d : Int) : ∀ (f : Nat) (t : List Int) (j : Nat),
    (fwAddLoop f t j d).length = t.length := by
  intro f
  induction f with
  | zero => intro t j; rfl
  | succ f ih =>
    intro t j
    simp only [fwAddLoop]
    split
    · rw [ih]; simp
    · rfl

theorem fwAddLoop_get (d : Int) : ∀ (f : Nat) (t : List Int) (j : Nat), 0 < j →
    t.length ≤ f + j → ∀ k, 0 < k → k < t.length →
    (fwAddLoop f t j d).getD k 0
      = t.getD k 0 + (if k - lowbit k < j ∧ j ≤ k then d else 0) := by
  intro f
  induction f with
  | zero =>
    intro t j hj hf k hk hkl
    have : ¬ (k - lowbit k < j ∧ j ≤ k) := by omega
    simp [fwAddLoop, this]
  | succ f ih =>
    intro t j hj hf k hk hkl
    simp only [fwAddLoop]
    split
    · next hc =>
      have hp := lowbit_pos j hj
      rw [ih (t.set j (t.getD j 0 + d)) (j + lowbit j) (by omega) (by simp; omega) k hk
        (by simp; exact hkl)]
      by_cases hkj : k = j
      · subst hkj
        have hl := lowbit_le k
        have h1 : k - lowbit k < k ∧ k ≤ k := by omega
        have h2 : ¬ (k - lowbit k < k + lowbit k ∧ k + lowbit k ≤ k) := by omega
        simp [h1, h2, List.getD_eq_getElem?_getD, hkl]
      · have hne : (t.set j (t.getD j 0 + d)).getD k 0 = t.getD k 0 := by
          simp [List.getD_eq_getElem?_getD, Ne.symm hkj]
        rw [hne]
        by_cases hlt : k < j
        · have h1 : ¬ (k - lowbit k < j ∧ j ≤ k) := by omega
          have h2 : ¬ (k - lowbit k < j + lowbit j ∧ j + lowbit j ≤ k) := by omega
          simp [h1, h2]
        · have := cover_step k j hj (by omega)
          by_cases h1 : (k - lowbit k < j ∧ j ≤ k)
          · have h2 := this.mp h1
            simp [h1, h2]
          · have h2 : ¬ (k - lowbit k < j + lowbit j ∧ j + lowbit j ≤ k) := fun h => h1 (this.mpr h)
            simp [h1, h2]
    · next hc =>
      have : ¬ (k - lowbit k < j ∧ j ≤ k) := by omega
      simp [this]

/-- `Fenwick::add` keeps the invariant for the bumped vector -/
theorem fwAdd_inv {t : List Int} {n : Nat} {v : Nat → Int} (h : FwInv t n v) (pos : Nat)
    (d : Int) : FwInv (fwAdd t pos d) n (bump v pos d) := by
  refine ⟨by unfold fwAdd; rw [fwAddLoop_length]; exact h.1, ?_⟩
  intro k hk hkn
  unfold fwAdd
  rw [fwAddLoop_get d t.length t (pos + 1) (by omega) (by omega) k hk (by rw [h.1]; omega)]
  rw [h.2 k hk hkn, psumF_bump, psumF_bump]
  have hl := lowbit_le k
  have hp := lowbit_pos k hk
  by_cases c : k - lowbit k < pos + 1 ∧ pos + 1 ≤ k
  · have h1 : pos < k := by omega
    have h2 : ¬ pos < k - lowbit k := by omega
    simp [c, h1, h2]; omega
  · by_cases h1 : pos < k
    · have h2 : pos < k - lowbit k := by omega
      simp [c, h1, h2]; omega
    · have h2 : ¬ pos < k - lowbit k := by omega
      simp [c, h1, h2]

theorem psumF_zero : ∀ k, psumF (fun _ => 0) k = 0 := by
  intro k; induction k with
  | zero => rfl
  | succ k ih => simp [psumF, ih]

theorem fwInv_zero (n : Nat) : FwInv (List.replicate (n + 1) 0) n (fun _ => 0) := by
  refine ⟨by simp, ?_⟩
  intro k hk hkn
  have : k < n + 1 := by omega
  simp [psumF_zero, List.getD_eq_getElem?_getD, List.getElem?_replicate, this]

/-- the vector `fwBuildFrom` has accumulated: `base`, plus `vs` laid out from position `i` -/
def laid (base : Nat → Int) (i : Nat) (vs : List Int) : Nat → Int :=
  fun x => base x + (if i ≤ x then vs.getD (x - i) 0 else 0)

theorem fwBuildFrom_inv (n : Nat) : ∀ (vs : List Int) (i : Nat) (t : List Int) (base : Nat → Int),
    FwInv t n base → FwInv (fwBuildFrom vs i t) n (laid base i vs) := by
  intro vs
  induction vs with
  | nil =>
    intro i t base h
    have : laid base i [] = base := by funext x; simp [laid]
    rw [this]; exact h
  | cons a vs ih =>
    intro i t base h
    simp only [fwBuildFrom]
    have h1 := ih (i + 1) (fwAdd t i a) (bump base i a) (fwAdd_inv h i a)
    have : laid (bump base i a) (i + 1) vs = laid base i (a :: vs) := by
      funext x
      simp only [laid, bump]
      by_cases hx : x = i
      · subst hx
        have : ¬ x + 1 ≤ x := by omega
        simp [this]
      · by_cases hlt : i ≤ x
        · have h2 : i + 1 ≤ x := by omega
          have h3 : x - i = (x - (i + 1)) + 1 := by omega
          simp [hx, hlt, h2, h3]
        · have h2 : ¬ i + 1 ≤ x := by omega
          simp [hx, hlt, h2]
    rw [← this]; exact h1

theorem fwBuild_inv (vals : List Int) : FwInv (fwBuild vals) vals.length (fun x => vals.getD x 0) := by
  unfold fwBuild
  have := fwBuildFrom_inv vals.length vals 0 _ _ (fwInv_zero vals.length)
  have e : laid (fun _ => 0) 0 vals = (fun x => vals.getD x 0) := by
    funext x; simp [laid]
  rw [e] at this; exact this

end SgModel.Oeh

namespace SgModel.Oeh

/-! ### staleness -/

def NotRebuild : MOp → Prop
  | .rebuild => False
  | .drop => False
  | _ => True

def StaleInv (s : MState) : Prop := ∃ e, s.entry = some e ∧ e.stale = true

theorem staleInv_step (s : MState) (op : MOp) (h : StaleInv s) (hn : NotRebuild op) :
    StaleInv (mstep s op) := by
  obtain ⟨e, he, hs⟩ := h
  cases op with
  | addEdge a b ty =>
    refine ⟨if e.spec.types.contains ty then { e with stale := true } else e, ?_, ?_⟩
    · simp [mstep, mstepWith, markStale, he]
    · split <;> simp [hs]
  | delEdge a b ty =>
    simp only [mstep, mstepWith]
    split
    · refine ⟨if e.spec.types.contains ty then { e with stale := true } else e, ?_, ?_⟩
      · simp [markStale, he]
      · split <;> simp [hs]
    · exact ⟨e, he, hs⟩
  | setMeas v x =>
    simp only [mstep, mstepWith, applyMeasure, he, Option.map_some]
    refine ⟨_, rfl, ?_⟩
    split
    · split <;> simp [hs]
    · simp
  | removeMeas v =>
    simp only [mstep, mstepWith, applyMeasure, he, Option.map_some]
    refine ⟨_, rfl, ?_⟩
    split
    · split <;> simp [hs]
    · simp
  | create spec => exact ⟨e, by simp [mstep, mstepWith, he], hs⟩
  | rebuild => exact absurd hn (by simp [NotRebuild])
  | drop => exact absurd hn (by simp [NotRebuild])

theorem staleInv_foldl : ∀ (ops : List MOp) (s : MState), StaleInv s →
    (∀ op ∈ ops, NotRebuild op) → StaleInv (ops.foldl mstep s) := by
  intro ops
  induction ops with
  | nil => intro s h _; exact h
  | cons op ops ih =>
    intro s h hops
    exact ih (mstep s op) (staleInv_step s op h (hops op (by simp)))
      (fun o ho => hops o (by simp [ho]))

theorem staleInv_addEdge (s : MState) (e : MEntry) (a b ty : Nat) (he : s.entry = some e)
    (hc : e.spec.types.contains ty = true) : StaleInv (mstep s (.addEdge a b ty)) := by
  have hc' : ty ∈ e.spec.types := by simpa using hc
  exact ⟨{ e with stale := true }, by simp [mstep, mstepWith, markStale, he, hc'], rfl⟩

theorem staleInv_delEdge (s : MState) (e : MEntry) (a b ty : Nat) (he : s.entry = some e)
    (hc : e.spec.types.contains ty = true) (hx : s.g.edges.contains (a, b, ty) = true) :
    StaleInv (mstep s (.delEdge a b ty)) := by
  have hc' : ty ∈ e.spec.types := by simpa using hc
  have hx' : (a, b, ty) ∈ s.g.edges := by simpa using hx
  exact ⟨{ e with stale := true }, by simp [mstep, mstepWith, markStale, he, hc', hx'], rfl⟩

theorem usesIndex_of_staleInv (s : MState) (q : Query) (h : StaleInv s) : usesIndex s q = none := by
  obtain ⟨e, he, hs⟩ := h
  simp [usesIndex, usesIndexWith, he, MEntry.usable, hs]

theorem usesIndex_iff (s : MState) (q : Query) (ix : MIndex) :
    usesIndex s q = some ix ↔
      ∃ e, s.entry = some e ∧ e.stale = false ∧ e.built = some ix
        ∧ e.spec.types = [q.ty] ∧ q.pinnedIsTarget = !e.spec.reverse
        ∧ ix.nodes.contains q.root = true := by
  unfold usesIndex usesIndexWith
  cases hent : s.entry with
  | none => simp
  | some e =>
    obtain ⟨⟨types, rev⟩, built, stale⟩ := e
    simp only [Option.some.injEq, exists_eq_left', MEntry.usable]
    cases built with
    | none => simp
    | some ix' =>
      have hlen : types = [q.ty] ↔ (types.contains q.ty = true ∧ types.length = 1) := by
        constructor
        · intro h; subst h; simp
        · intro ⟨h1, h2⟩
          match types, h2 with
          | [x], _ => simp at h1; simp [h1]
      cases stale <;> cases rev <;> cases hp : q.pinnedIsTarget <;>
        by_cases ht : types = [q.ty] <;> by_cases hc : ix'.nodes.contains q.root = true <;>
        simp_all <;> (intro h; subst h; assumption)

end SgModel.Oeh
