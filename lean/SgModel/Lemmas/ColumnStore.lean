import SgModel.Lemmas.ColumnData
/-! The typed `Column` (spill to `Other`) and `ColumnStore` against the reference map
(C30; core Lean only). -/
namespace SgModel.Column

/-! ### typed column -/

theorem alGet_map_val {α β : Type} (f : α → β) (m : List (Nat × α)) (j : Nat) :
    alGet (m.map (fun e => (e.1, f e.2))) j = (alGet m j).map f := by
  induction m with
  | nil => rfl
  | cons e m ih =>
    rw [List.map_cons, alGet_cons, alGet_cons, ih]
    split <;> rfl

theorem keysNodup_map_val {α β : Type} (f : α → β) {m : List (Nat × α)} (h : KeysNodup m) :
    KeysNodup (m.map (fun e => (e.1, f e.2))) := by
  unfold KeysNodup at *
  rw [List.map_map]
  exact h

def Col.WF : Col → Prop
  | .int d => d.WF
  | .flt d => d.WF
  | .str d => d.WF
  | .bool d => d.WF
  | .other m => KeysNodup m

theorem Col.alGet_spill (c : Col) (j : Nat) : alGet c.spill j = c.lookup j := by
  cases c <;> simp only [Col.spill, Col.lookup, alGet_map_val, ColData.alGet_entries]

theorem Col.keysNodup_spill {c : Col} (h : c.WF) : KeysNodup c.spill := by
  cases c with
  | other m => exact h
  | int d => exact keysNodup_map_val _ (ColData.keysNodup_entries h)
  | flt d => exact keysNodup_map_val _ (ColData.keysNodup_entries h)
  | str d => exact keysNodup_map_val _ (ColData.keysNodup_entries h)
  | bool d => exact keysNodup_map_val _ (ColData.keysNodup_entries h)

theorem Col.length_spill {c : Col} (h : c.WF) : c.spill.length = c.len := by
  cases c with
  | other m => rfl
  | int d => simp only [Col.spill, Col.len, List.length_map, ColData.length_entries h]
  | flt d => simp only [Col.spill, Col.len, List.length_map, ColData.length_entries h]
  | str d => simp only [Col.spill, Col.len, List.length_map, ColData.length_entries h]
  | bool d => simp only [Col.spill, Col.len, List.length_map, ColData.length_entries h]

theorem lookup_spilled (c : Col) (i : Nat) (v : PV) (j : Nat) :
    (Col.other (alSet c.spill i v)).lookup j = if j = i then some v else c.lookup j := by
  simp only [Col.lookup, alGet_alSet, Col.alGet_spill]

theorem map_ite_some {α β : Type} (f : α → β) (p : Prop) [Decidable p] (v : α) (o : Option α) :
    (if p then some v else o).map f = if p then some (f v) else o.map f := by
  split <;> rfl

theorem Col.lookup_set (P : Policy) {c : Col} (h : c.WF) (i : Nat) (v : PV) (j : Nat) :
    (c.set P i v).lookup j = if j = i then some v else c.lookup j := by
  cases c with
  | other m => simp only [Col.set, Col.lookup, alGet_alSet]
  | int d =>
    cases v with
    | int x => simp only [Col.set, Col.lookup, ColData.get_set P _ _ h, map_ite_some]
    | _ => exact lookup_spilled _ i _ j
  | flt d =>
    cases v with
    | flt x => simp only [Col.set, Col.lookup, ColData.get_set P _ _ h, map_ite_some]
    | _ => exact lookup_spilled _ i _ j
  | str d =>
    cases v with
    | str x => simp only [Col.set, Col.lookup, ColData.get_set P _ _ h, map_ite_some]
    | _ => exact lookup_spilled _ i _ j
  | bool d =>
    cases v with
    | bool x => simp only [Col.set, Col.lookup, ColData.get_set P _ _ h, map_ite_some]
    | _ => exact lookup_spilled _ i _ j

theorem wf_spilled {c : Col} (h : c.WF) (i : Nat) (v : PV) :
    (Col.other (alSet c.spill i v)).WF :=
  keysNodup_alSet (Col.keysNodup_spill h) i v

theorem Col.wf_set (P : Policy) {c : Col} (h : c.WF) (i : Nat) (v : PV) : (c.set P i v).WF := by
  cases c with
  | other m => exact keysNodup_alSet h i v
  | int d =>
    cases v with
    | int x => exact ColData.wf_set P _ _ h i x
    | _ => exact wf_spilled h i _
  | flt d =>
    cases v with
    | flt x => exact ColData.wf_set P _ _ h i x
    | _ => exact wf_spilled h i _
  | str d =>
    cases v with
    | str x => exact ColData.wf_set P _ _ h i x
    | _ => exact wf_spilled h i _
  | bool d =>
    cases v with
    | bool x => exact ColData.wf_set P _ _ h i x
    | _ => exact wf_spilled h i _

theorem map_ite_none {α β : Type} (f : α → β) (p : Prop) [Decidable p] (o : Option α) :
    (if p then none else o).map f = if p then none else o.map f := by
  split <;> rfl

theorem Col.lookup_remove {c : Col} (h : c.WF) (i j : Nat) :
    (c.remove i).lookup j = if j = i then none else c.lookup j := by
  cases c with
  | other m => simp only [Col.remove, Col.lookup, alGet_alErase]
  | int d => simp only [Col.remove, Col.lookup, ColData.get_remove _ h, map_ite_none]
  | flt d => simp only [Col.remove, Col.lookup, ColData.get_remove _ h, map_ite_none]
  | str d => simp only [Col.remove, Col.lookup, ColData.get_remove _ h, map_ite_none]
  | bool d => simp only [Col.remove, Col.lookup, ColData.get_remove _ h, map_ite_none]

theorem Col.wf_remove {c : Col} (h : c.WF) (i : Nat) : (c.remove i).WF := by
  cases c with
  | other m => exact keysNodup_alErase h i
  | int d => exact ColData.wf_remove _ h i
  | flt d => exact ColData.wf_remove _ h i
  | str d => exact ColData.wf_remove _ h i
  | bool d => exact ColData.wf_remove _ h i

theorem Col.wf_forValue (v : PV) : (Col.forValue v).WF := by
  cases v <;> simp [Col.forValue, Col.WF, ColData.WF, KeysNodup]

theorem Col.lookup_forValue (v : PV) (j : Nat) : (Col.forValue v).lookup j = none := by
  cases v <;> rfl

/-! ### the store -/

def Store.WF (s : Store) : Prop := (s.map (·.1)).Nodup ∧ ∀ e ∈ s, e.2.WF

theorem findCol_none_iff {s : Store} {k : Nat} : findCol s k = none ↔ k ∉ s.map (·.1) := by
  induction s with
  | nil => simp [findCol]
  | cons e s ih =>
    obtain ⟨k', c⟩ := e
    simp only [findCol, List.map_cons, List.mem_cons, not_or]
    by_cases h : k' = k
    · simp [h]
    · have : ¬ k = k' := fun x => h x.symm
      simp [h, this, ih]

theorem findCol_mem {s : Store} {k : Nat} {c : Col} (h : findCol s k = some c) : (k, c) ∈ s := by
  induction s with
  | nil => simp [findCol] at h
  | cons e s ih =>
    obtain ⟨k', c'⟩ := e
    simp only [findCol] at h
    by_cases hk : k' = k
    · simp only [hk, beq_self_eq_true, if_true, Option.some.injEq] at h
      simp [hk, h]
    · have : (k' == k) = false := by simpa using hk
      simp only [this, Bool.false_eq_true, if_false] at h
      exact List.mem_cons_of_mem _ (ih h)

theorem findCol_of_mem {s : Store} (hn : (s.map (·.1)).Nodup) {k : Nat} {c : Col}
    (h : (k, c) ∈ s) : findCol s k = some c := by
  induction s with
  | nil => simp at h
  | cons e s ih =>
    obtain ⟨k', c'⟩ := e
    rw [List.map_cons, List.nodup_cons] at hn
    simp only [findCol]
    rcases List.mem_cons.mp h with heq | hmem
    · simp only [Prod.mk.injEq] at heq
      simp [heq.1, heq.2]
    · have : k' ≠ k := by
        intro x
        exact hn.1 (x ▸ List.mem_map.mpr ⟨(k, c), hmem, rfl⟩)
      have hb : (k' == k) = false := by simpa using this
      simp only [hb, Bool.false_eq_true, if_false]
      exact ih hn.2 hmem

theorem findCol_mapCol (f : Col → Col) (s : Store) (k k' : Nat) :
    findCol (mapCol f s k) k' = if k' = k then (findCol s k).map f else findCol s k' := by
  induction s with
  | nil => simp [mapCol, findCol]
  | cons e s ih =>
    obtain ⟨k0, c⟩ := e
    simp only [mapCol, findCol]
    by_cases h0 : k0 = k
    · subst h0
      simp only [beq_self_eq_true, if_true, findCol]
      by_cases hk : k' = k0
      · simp [hk]
      · have : (k0 == k') = false := by simpa using fun x => hk (Eq.symm x)
        simp [this, hk]
    · have hb : (k0 == k) = false := by simpa using h0
      simp only [hb, Bool.false_eq_true, if_false, findCol, ih]
      by_cases hk : k' = k
      · subst hk
        simp [hb]
      · simp only [hk, if_false]

theorem names_mapCol (f : Col → Col) (s : Store) (k : Nat) :
    (mapCol f s k).map (·.1) = s.map (·.1) := by
  induction s with
  | nil => rfl
  | cons e s ih =>
    obtain ⟨k0, c⟩ := e
    simp only [mapCol]
    split
    · rfl
    · simp [ih]

theorem mem_mapCol {f : Col → Col} {s : Store} {k : Nat} {e : Nat × Col}
    (h : e ∈ mapCol f s k) : e ∈ s ∨ ∃ c, (e.1, c) ∈ s ∧ e.2 = f c := by
  induction s with
  | nil => simp [mapCol] at h
  | cons e0 s ih =>
    obtain ⟨k0, c0⟩ := e0
    simp only [mapCol] at h
    split at h
    · rcases List.mem_cons.mp h with rfl | hm
      · exact Or.inr ⟨c0, by simp, rfl⟩
      · exact Or.inl (List.mem_cons_of_mem _ hm)
    · rcases List.mem_cons.mp h with rfl | hm
      · exact Or.inl (by simp)
      · rcases ih hm with h1 | ⟨c, hc, he⟩
        · exact Or.inl (List.mem_cons_of_mem _ h1)
        · exact Or.inr ⟨c, List.mem_cons_of_mem _ hc, he⟩

theorem findCol_append_new {s : Store} {k : Nat} (hnone : findCol s k = none) (c : Col) (k' : Nat) :
    findCol (s ++ [(k, c)]) k' = if k' = k then some c else findCol s k' := by
  induction s with
  | nil =>
    simp only [List.nil_append, findCol]
    by_cases h : k' = k
    · simp [h]
    · have : (k == k') = false := by simpa using fun x => h (Eq.symm x)
      simp [this, h]
  | cons e s ih =>
    obtain ⟨k0, c0⟩ := e
    simp only [findCol] at hnone
    by_cases h0 : k0 = k
    · simp [h0] at hnone
    · have hb : (k0 == k) = false := by simpa using h0
      simp only [hb, Bool.false_eq_true, if_false] at hnone
      simp only [List.cons_append, findCol, ih hnone]
      by_cases hk0 : k0 = k'
      · have : ¬ k' = k := by rw [← hk0]; exact h0
        simp [hk0, this]
      · have : (k0 == k') = false := by simpa using hk0
        simp [this]

theorem findCol_map_val (g : Col → Col) (s : Store) (k : Nat) :
    findCol (s.map (fun e => (e.1, g e.2))) k = (findCol s k).map g := by
  induction s with
  | nil => rfl
  | cons e s ih =>
    obtain ⟨k0, c0⟩ := e
    simp only [List.map_cons, findCol, ih]
    split <;> rfl

/-- what one operation does to the binding of every (row, key) -/
theorem Store.lookup_step (P : Policy) {s : Store} (h : s.WF) (op : Op) (r k : Nat) :
    Store.lookup (Store.step P s op) r k =
      match op with
      | .set r0 k0 v => if r = r0 ∧ k = k0 then some v else Store.lookup s r k
      | .remove r0 k0 => if r = r0 ∧ k = k0 then none else Store.lookup s r k
      | .clearRow r0 => if r = r0 then none else Store.lookup s r k := by
  cases op with
  | set r0 k0 v =>
    simp only [Store.step, Store.lookup]
    cases hf : findCol s k0 with
    | some c0 =>
      simp only [findCol_mapCol, hf, Option.map_some]
      by_cases hk : k = k0
      · subst hk
        simp only [if_true, and_true, hf]
        exact Col.lookup_set P (h.2 _ (findCol_mem hf)) r0 v r
      · simp [hk]
    | none =>
      simp only [findCol_append_new hf]
      by_cases hk : k = k0
      · subst hk
        simp only [if_true, and_true, hf]
        rw [Col.lookup_set P (Col.wf_forValue v), Col.lookup_forValue]
      · simp [hk]
  | remove r0 k0 =>
    simp only [Store.step, Store.lookup, findCol_mapCol]
    by_cases hk : k = k0
    · subst hk
      simp only [if_true, and_true]
      cases hf : findCol s k with
      | some c0 =>
        simp only [Option.map_some]
        exact Col.lookup_remove (h.2 _ (findCol_mem hf)) r0 r
      | none => simp
    · simp [hk]
  | clearRow r0 =>
    simp only [Store.step, Store.lookup]
    rw [findCol_map_val (fun c => c.remove r0)]
    cases hf : findCol s k with
    | some c0 =>
      simp only [Option.map_some]
      exact Col.lookup_remove (h.2 _ (findCol_mem hf)) r0 r
    | none => simp

theorem Store.wf_step (P : Policy) {s : Store} (h : s.WF) (op : Op) : (Store.step P s op).WF := by
  cases op with
  | set r0 k0 v =>
    simp only [Store.step]
    cases hf : findCol s k0 with
    | some c0 =>
      refine ⟨by rw [names_mapCol]; exact h.1, ?_⟩
      intro e he
      rcases mem_mapCol he with h1 | ⟨c, hc, hec⟩
      · exact h.2 e h1
      · rw [hec]; exact Col.wf_set P (h.2 _ hc) r0 v
    | none =>
      refine ⟨?_, ?_⟩
      · rw [List.map_append, List.nodup_append]
        refine ⟨h.1, by simp, ?_⟩
        intro a ha b hb
        simp only [List.map_cons, List.map_nil, List.mem_singleton] at hb
        subst hb
        intro heq; subst heq
        exact findCol_none_iff.mp hf ha
      · intro e he
        rcases List.mem_append.mp he with h1 | h1
        · exact h.2 e h1
        · simp only [List.mem_singleton] at h1
          subst h1
          exact Col.wf_set P (Col.wf_forValue v) r0 v
  | remove r0 k0 =>
    simp only [Store.step]
    refine ⟨by rw [names_mapCol]; exact h.1, ?_⟩
    intro e he
    rcases mem_mapCol he with h1 | ⟨c, hc, hec⟩
    · exact h.2 e h1
    · rw [hec]; exact Col.wf_remove (h.2 _ hc) r0
  | clearRow r0 =>
    simp only [Store.step]
    refine ⟨by rw [List.map_map]; exact h.1, ?_⟩
    intro e he
    rw [List.mem_map] at he
    obtain ⟨e0, he0, rfl⟩ := he
    exact Col.wf_remove (h.2 _ he0) r0

theorem Store.wf_nil : Store.WF [] := ⟨by simp, by simp⟩

theorem Store.wf_foldl (P : Policy) (ops : List Op) {s : Store} (h : s.WF) :
    (ops.foldl (Store.step P) s).WF := by
  induction ops generalizing s with
  | nil => exact h
  | cons o ops ih => exact ih (Store.wf_step P h o)

theorem Store.wf_run (P : Policy) (ops : List Op) : (Store.run P ops).WF :=
  Store.wf_foldl P ops Store.wf_nil

/-! ### the reference map -/

theorem RefMap.get_cons (e : (Nat × Nat) × PV) (m : RefMap) (r k : Nat) :
    RefMap.get (e :: m) r k = if e.1.1 = r ∧ e.1.2 = k then some e.2 else RefMap.get m r k := by
  unfold RefMap.get
  rw [List.find?_cons]
  by_cases h : e.1.1 = r ∧ e.1.2 = k
  · simp [h.1, h.2]
  · have : (e.1.1 == r && e.1.2 == k) = false := by
      simp only [Bool.and_eq_false_iff, beq_eq_false_iff_ne]
      by_cases h1 : e.1.1 = r
      · exact Or.inr (fun h2 => h ⟨h1, h2⟩)
      · exact Or.inl h1
    simp [this, h]

theorem RefMap.get_filter (p : Nat → Nat → Bool) (m : RefMap) (r k : Nat) :
    RefMap.get (m.filter (fun e => !(p e.1.1 e.1.2))) r k
      = if p r k then none else RefMap.get m r k := by
  induction m with
  | nil => simp [RefMap.get]
  | cons e m ih =>
    rw [List.filter_cons]
    by_cases hp : p e.1.1 e.1.2 = true
    · simp only [hp, Bool.not_true, Bool.false_eq_true, if_false, ih, RefMap.get_cons]
      by_cases he : e.1.1 = r ∧ e.1.2 = k
      · have : p r k = true := by rw [← he.1, ← he.2]; exact hp
        simp [this]
      · simp [he]
    · have hp' : p e.1.1 e.1.2 = false := by simpa using hp
      simp only [hp', Bool.not_false, if_true, RefMap.get_cons, ih]
      by_cases he : e.1.1 = r ∧ e.1.2 = k
      · have : p r k = false := by rw [← he.1, ← he.2]; exact hp'
        simp [this, he]
      · simp [he]

theorem RefMap.get_step (m : RefMap) (op : Op) (r k : Nat) :
    RefMap.get (RefMap.step m op) r k =
      match op with
      | .set r0 k0 v => if r = r0 ∧ k = k0 then some v else RefMap.get m r k
      | .remove r0 k0 => if r = r0 ∧ k = k0 then none else RefMap.get m r k
      | .clearRow r0 => if r = r0 then none else RefMap.get m r k := by
  cases op with
  | set r0 k0 v =>
    simp only [RefMap.step, RefMap.get_cons]
    rw [RefMap.get_filter (fun a b => a == r0 && b == k0)]
    by_cases h : r = r0 ∧ k = k0
    · simp [h.1, h.2]
    · have h' : ¬ (r0 = r ∧ k0 = k) := fun x => h ⟨x.1.symm, x.2.symm⟩
      have : (r == r0 && k == k0) = false := by
        simp only [Bool.and_eq_false_iff, beq_eq_false_iff_ne]
        by_cases h1 : r = r0
        · exact Or.inr (fun h2 => h ⟨h1, h2⟩)
        · exact Or.inl h1
      simp [h, h', this]
  | remove r0 k0 =>
    simp only [RefMap.step]
    rw [RefMap.get_filter (fun a b => a == r0 && b == k0)]
    by_cases h : r = r0 ∧ k = k0
    · simp [h.1, h.2]
    · have : (r == r0 && k == k0) = false := by
        simp only [Bool.and_eq_false_iff, beq_eq_false_iff_ne]
        by_cases h1 : r = r0
        · exact Or.inr (fun h2 => h ⟨h1, h2⟩)
        · exact Or.inl h1
      simp [h, this]
  | clearRow r0 =>
    simp only [RefMap.step]
    rw [RefMap.get_filter (fun a _ => a == r0)]
    by_cases h : r = r0
    · simp [h]
    · simp [h]

/-- refinement, step by step: equal bindings before ⇒ equal bindings after -/
theorem refines_foldl (P : Policy) (ops : List Op) {s : Store} {m : RefMap} (hw : s.WF)
    (h : ∀ r k, Store.lookup s r k = RefMap.get m r k) :
    ∀ r k, Store.lookup (ops.foldl (Store.step P) s) r k
      = RefMap.get (ops.foldl RefMap.step m) r k := by
  induction ops generalizing s m with
  | nil => exact h
  | cons o ops ih =>
    apply ih (Store.wf_step P hw o)
    intro r k
    rw [Store.lookup_step P hw, RefMap.get_step]
    cases o <;> simp only [h]

/-! ### keys -/

theorem Store.mem_keys {s : Store} (h : s.WF) (r k : Nat) :
    k ∈ Store.keys s r ↔ (Store.lookup s r k).isSome = true := by
  unfold Store.keys Store.lookup
  rw [List.mem_map]
  constructor
  · rintro ⟨e, he, rfl⟩
    rw [List.mem_filter] at he
    rw [findCol_of_mem h.1 (show (e.1, e.2) ∈ s from he.1)]
    exact he.2
  · intro hs
    cases hf : findCol s k with
    | none => simp [hf] at hs
    | some c =>
      simp only [hf] at hs
      exact ⟨(k, c), List.mem_filter.mpr ⟨findCol_mem hf, hs⟩, rfl⟩

theorem Store.nodup_keys {s : Store} (h : s.WF) (r : Nat) : (Store.keys s r).Nodup :=
  List.Nodup.sublist (List.Sublist.map _ List.filter_sublist) h.1

/-! ### for the specification theorem and the examples -/

theorem nodupB_of_nodup {l : List Nat} (h : l.Nodup) : nodupB l = true := by
  induction l with
  | nil => rfl
  | cons a t ih =>
    have ⟨h1, h2⟩ := List.nodup_cons.mp h
    simp only [nodupB, Bool.and_eq_true, Bool.not_eq_true', ih h2, and_true]
    simpa using h1

theorem zipAll_map {β γ : Type} (f : β → γ → Bool) (g : β → γ) (l : List β)
    (h : ∀ x ∈ l, f x (g x) = true) : zipAll f l (l.map g) = true := by
  induction l with
  | nil => rfl
  | cons a t ih =>
    simp only [List.map_cons, zipAll, Bool.and_eq_true]
    exact ⟨h a (by simp), ih (fun x hx => h x (List.mem_cons_of_mem _ hx))⟩

/-- promotes at 2 entries when at least half full; dense while span ≤ 2·entries -/
def tinyPolicy : Policy :=
  { denseSmaller := fun span entries _ => decide (span ≤ 2 * entries), gate := fun len => decide (2 ≤ len) }


end SgModel.Column
