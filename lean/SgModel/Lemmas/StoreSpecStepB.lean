import SgModel.Lemmas.StoreSpecStepA
/-!
Helper lemmas for the graph-store model (C06), part 17: `specStep` for label and node-property changes.
-/
namespace SgModel.Store

theorem specStep_addL {s : State} (hI : Inv s) (p : Probe) (n l : Nat)
    (hcov : ∀ m, getNode s m ≠ none → m ∈ p.ids)
    (hcov' : ∀ m, getNode (step s (.addL n l)).1 m ≠ none → m ∈ p.ids)
    (hpre : Pre s (.addL n l)) :
    specStep (obs s p) (.addL n l) (step s (.addL n l)).2 (obs (step s (.addL n l)).1 p) = true := by
  have hI' := inv_step hI (.addL n l)
  have hE := hI.toInvE
  show specStep (obs s p) (.addL n l) (addLabel s n l).2 (obs (addLabel s n l).1 p) = true
  have hE' : InvE (addLabel s n l).1 := hI'.toInvE
  simp only [specStep]
  rw [nid_contains s p hcov]
  revert hE'
  unfold addLabel
  cases hgn : getNode s n with
  | none =>
    intro _
    have hl : liveN s n = false := by simp [liveN, hgn]
    simp [hl, spec_same_refl p hE]
  | some r =>
    intro hE'
    have hl : liveN s n = true := by simp [liveN, hgn]
    obtain ⟨u1, u2⟩ := updNode_abs s n (fun r => { r with labels := setInsert r.labels l })
    simp only [hl, if_true, Bool.and_eq_true, beq_self_eq_true, true_and]
    refine spec_updNode p hE hE' n (fun r => { r with labels := setInsert r.labels l }) _ u1 u2 ?_
    intro r'
    rw [nodeEqv_iff]
    refine ⟨rfl, fun y => ?_, fun _ => Iff.rfl⟩
    show y ∈ setInsert r'.labels l ↔ y ∈ insLabel r'.labels l
    rw [mem_setInsert, mem_insLabel]

theorem specStep_rmL {s : State} (hI : Inv s) (p : Probe) (n l : Nat)
    (hcov : ∀ m, getNode s m ≠ none → m ∈ p.ids)
    (hcov' : ∀ m, getNode (step s (.rmL n l)).1 m ≠ none → m ∈ p.ids)
    (hpre : Pre s (.rmL n l)) :
    specStep (obs s p) (.rmL n l) (step s (.rmL n l)).2 (obs (step s (.rmL n l)).1 p) = true := by
  have hI' := inv_step hI (.rmL n l)
  have hE := hI.toInvE
  show specStep (obs s p) (.rmL n l) (removeLabel s n l).2 (obs (removeLabel s n l).1 p) = true
  have hE' : InvE (removeLabel s n l).1 := hI'.toInvE
  simp only [specStep]
  rw [nid_contains s p hcov]
  revert hE'
  unfold removeLabel
  cases hgn : getNode s n with
  | none =>
    intro _
    have hl : liveN s n = false := by simp [liveN, hgn]
    simp [hl, spec_same_refl p hE]
  | some r =>
    have hl : liveN s n = true := by simp [liveN, hgn]
    simp only [hl, if_true]
    by_cases hc : r.labels.contains l = true
    · simp only [hc, Bool.not_true, Bool.false_eq_true, if_false]
      intro hE'
      obtain ⟨u1, u2⟩ := updNode_abs s n (fun r => { r with labels := r.labels.filter (· != l) })
      simp only [Bool.and_eq_true, Bool.or_eq_true, beq_self_eq_true, true_or, true_and]
      exact spec_updNode p hE hE' n (fun r => { r with labels := r.labels.filter (· != l) }) _ u1 u2
        (fun r' => nodeEqv_refl _)
    · have hcf : r.labels.contains l = false := by simpa using hc
      simp only [hcf, Bool.not_false, if_true]
      intro _
      simp only [Bool.and_eq_true, Bool.or_eq_true, beq_self_eq_true, or_true, true_and]
      refine spec_updNode p hE hE n (fun r => { r with labels := r.labels.filter (· != l) }) _ ?_
        (fun _ => rfl) (fun r' => nodeEqv_refl _)
      intro m
      by_cases hm : m = n
      · subst hm
        simp only [if_true, hgn, Option.map_some, Option.some.injEq]
        have : r.labels.filter (· != l) = r.labels := by
          apply List.filter_eq_self.mpr
          intro y hy
          have hm : l ∉ r.labels := by simpa using hcf
          simp only [bne_iff_ne, ne_eq]
          intro hh; exact hm (hh ▸ hy)
        rw [this]
      · simp [hm]

theorem specStep_setNP {s : State} (hI : Inv s) (p : Probe) (n k v : Nat)
    (hcov : ∀ m, getNode s m ≠ none → m ∈ p.ids)
    (hcov' : ∀ m, getNode (step s (.setNP n k v)).1 m ≠ none → m ∈ p.ids)
    (hpre : Pre s (.setNP n k v)) :
    specStep (obs s p) (.setNP n k v) (step s (.setNP n k v)).2 (obs (step s (.setNP n k v)).1 p) = true := by
  have hI' := inv_step hI (.setNP n k v)
  have hE := hI.toInvE
  show specStep (obs s p) (.setNP n k v) (setNodeProp s n k v).2 (obs (setNodeProp s n k v).1 p) = true
  have hE' : InvE (setNodeProp s n k v).1 := hI'.toInvE
  simp only [specStep]
  rw [nid_contains s p hcov]
  revert hE'
  unfold setNodeProp
  cases hgn : getNode s n with
  | none =>
    intro _
    have hl : liveN s n = false := by simp [liveN, hgn]
    simp [hl]
  | some r =>
    intro hE'
    have hl : liveN s n = true := by simp [liveN, hgn]
    obtain ⟨u1, u2⟩ := updNode_abs s n (fun r => { r with props := assocSet r.props k v })
    simp only [hl, if_true, Bool.and_eq_true, beq_self_eq_true, true_and]
    refine spec_updNode p hE hE' n (fun r => { r with props := assocSet r.props k v }) _ u1 u2 ?_
    intro r'
    rw [nodeEqv_iff]
    refine ⟨rfl, fun _ => Iff.rfl, fun q => ?_⟩
    show q ∈ assocSet r'.props k v ↔ q ∈ setProp r'.props k v
    rw [mem_assocSet_iff, mem_setProp]

theorem specStep_rmNP {s : State} (hI : Inv s) (p : Probe) (n k : Nat)
    (hcov : ∀ m, getNode s m ≠ none → m ∈ p.ids)
    (hcov' : ∀ m, getNode (step s (.rmNP n k)).1 m ≠ none → m ∈ p.ids)
    (hpre : Pre s (.rmNP n k)) :
    specStep (obs s p) (.rmNP n k) (step s (.rmNP n k)).2 (obs (step s (.rmNP n k)).1 p) = true := by
  have hI' := inv_step hI (.rmNP n k)
  have hE := hI.toInvE
  show specStep (obs s p) (.rmNP n k) (removeNodeProp s n k).2 (obs (removeNodeProp s n k).1 p) = true
  have hE' : InvE (removeNodeProp s n k).1 := hI'.toInvE
  simp only [specStep]
  obtain ⟨u1, u2⟩ := updNode_abs s n (fun r => { r with props := assocErase r.props k })
  exact spec_updNode p hE hE' n (fun r => { r with props := assocErase r.props k }) _ u1 u2
    (fun r' => nodeEqv_refl _)

end SgModel.Store
