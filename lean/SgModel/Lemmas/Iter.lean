import SgModel.Model.Iter
import SgModel.Lemmas.AlgoCount
/-!
Lemmas for C27: the mode (most frequent label, ties to the smallest), order-independent
buffer writes, and PageRank mass conservation over `Rat`.  Core Lean only.
-/
namespace SgModel.Iter
open SgModel.Algo

/-! ### mode -/

/-- `z` does not beat `b`: less frequent, or as frequent and not smaller -/
def Good (l : List Nat) (b z : Nat) : Prop := l.count z < l.count b ∨ (l.count z = l.count b ∧ b ≤ z)

/-- `m` is the most frequent element of `l`, the smallest among the most frequent -/
def IsMode (l : List Nat) (m : Nat) : Prop := m ∈ l ∧ ∀ x ∈ l, Good l m x

theorem better_iff (l : List Nat) (a b : Nat) :
    better l a b = true ↔ l.count b < l.count a ∨ (l.count a = l.count b ∧ a < b) := by
  simp [better]

theorem fold_best (l : List Nat) : ∀ (xs : List Nat) (best : Nat) (D : Nat → Prop),
    best ∈ l → (∀ y ∈ xs, y ∈ l) → (∀ z, D z → Good l best z) →
    (xs.foldl (fun best y => if better l y best then y else best) best) ∈ l
    ∧ (∀ z, D z → Good l (xs.foldl (fun best y => if better l y best then y else best) best) z)
    ∧ (∀ z ∈ xs, Good l (xs.foldl (fun best y => if better l y best then y else best) best) z) := by
  intro xs
  induction xs with
  | nil => intro best D hb _ hD; exact ⟨hb, hD, fun z hz => by cases hz⟩
  | cons y t ih =>
    intro best D hb hxs hD
    simp only [List.foldl_cons]
    have hy : y ∈ l := hxs y (List.mem_cons_self ..)
    have ht : ∀ z ∈ t, z ∈ l := fun z hz => hxs z (List.mem_cons_of_mem _ hz)
    by_cases hbt : better l y best = true
    · rw [if_pos hbt]
      have hb' := (better_iff l y best).mp hbt
      have hD' : ∀ z, (D z ∨ z = y) → Good l y z := by
        rintro z (hz | rfl)
        · have := hD z hz
          unfold Good at this ⊢
          omega
        · unfold Good; omega
      obtain ⟨h1, h2, h3⟩ := ih y (fun z => D z ∨ z = y) hy ht hD'
      refine ⟨h1, fun z hz => h2 z (Or.inl hz), ?_⟩
      intro z hz
      rcases List.mem_cons.mp hz with rfl | hz
      · exact h2 _ (Or.inr rfl)
      · exact h3 z hz
    · rw [if_neg hbt]
      have hb' : ¬ (l.count best < l.count y ∨ (l.count y = l.count best ∧ y < best)) :=
        fun h => hbt ((better_iff l y best).mpr h)
      have hD' : ∀ z, (D z ∨ z = y) → Good l best z := by
        rintro z (hz | rfl)
        · exact hD z hz
        · unfold Good; omega
      obtain ⟨h1, h2, h3⟩ := ih best (fun z => D z ∨ z = y) hb ht hD'
      refine ⟨h1, fun z hz => h2 z (Or.inl hz), ?_⟩
      intro z hz
      rcases List.mem_cons.mp hz with rfl | hz
      · exact h2 _ (Or.inr rfl)
      · exact h3 z hz

theorem mode_isMode {l : List Nat} {m : Nat} (h : mode l = some m) : IsMode l m := by
  cases l with
  | nil => cases h
  | cons x xs =>
    simp only [mode, Option.some.injEq] at h
    have := fold_best (x :: xs) xs x (fun z => z = x) (List.mem_cons_self ..)
      (fun y hy => List.mem_cons_of_mem _ hy) (by rintro z rfl; unfold Good; omega)
    rw [h] at this
    obtain ⟨h1, h2, h3⟩ := this
    refine ⟨h1, ?_⟩
    intro z hz
    rcases List.mem_cons.mp hz with rfl | hz
    · exact h2 _ rfl
    · exact h3 z hz

theorem isMode_unique {l : List Nat} {m m' : Nat} (h : IsMode l m) (h' : IsMode l m') : m = m' := by
  have a := h.2 m' h'.1
  have b := h'.2 m h.1
  unfold Good at a b
  omega

theorem isMode_perm {l₁ l₂ : List Nat} (hp : l₁.Perm l₂) {m : Nat} (h : IsMode l₁ m) : IsMode l₂ m := by
  refine ⟨hp.mem_iff.mp h.1, ?_⟩
  intro x hx
  have := h.2 x (hp.mem_iff.mpr hx)
  unfold Good at this ⊢
  rw [← hp.count_eq x, ← hp.count_eq m]
  exact this

theorem mode_eq_none_iff {l : List Nat} : mode l = none ↔ l = [] := by
  cases l <;> simp [mode]

theorem mode_perm {l₁ l₂ : List Nat} (hp : l₁.Perm l₂) : mode l₁ = mode l₂ := by
  cases h1 : mode l₁ with
  | none =>
    have := mode_eq_none_iff.mp h1
    subst this
    have := hp.nil_eq
    subst this
    rfl
  | some m =>
    cases h2 : mode l₂ with
    | none =>
      have := mode_eq_none_iff.mp h2
      subst this
      have := hp.symm.nil_eq
      subst this
      cases h1
    | some m' =>
      have := isMode_unique (isMode_perm hp (mode_isMode h1)) (mode_isMode h2)
      rw [this]

/-! ### order-independent buffer writes -/

theorem length_writeAll {α : Type} (f : Nat → α) (order : List Nat) (buf : List α) :
    (writeAll f order buf).length = buf.length := by
  unfold writeAll
  induction order generalizing buf with
  | nil => rfl
  | cons a t ih => simp only [List.foldl_cons]; rw [ih, List.length_set]

theorem getElem?_writeAll {α : Type} (f : Nat → α) (order : List Nat) (buf : List α) (i : Nat) :
    (writeAll f order buf)[i]? = if i ∈ order ∧ i < buf.length then some (f i) else buf[i]? := by
  unfold writeAll
  induction order generalizing buf with
  | nil => simp
  | cons a t ih =>
    simp only [List.foldl_cons]
    rw [ih, List.length_set, List.getElem?_set]
    by_cases hit : i ∈ t
    · by_cases hl : i < buf.length
      · simp [hit, hl]
      · have : buf[i]? = none := by simp; omega
        simp [hit, hl, this]
        intro h1; omega
    · by_cases hai : a = i
      · subst hai
        by_cases hl : a < buf.length
        · simp [hit, hl]
        · simp [hit, hl]
      · have : ¬ i = a := fun h => hai h.symm
        simp [hit, hai, this]

/-- writing `f i` at every index, in any order (repeats allowed), yields `map f (range n)` -/
theorem writeAll_eq_map {α : Type} (f : Nat → α) (n : Nat) (order : List Nat) (buf : List α)
    (hlen : buf.length = n) (hall : ∀ i, i < n → i ∈ order) :
    writeAll f order buf = (List.range n).map f := by
  apply List.ext_getElem?
  intro i
  rw [getElem?_writeAll, hlen]
  by_cases hi : i < n
  · simp [hall i hi, hi]
  · have : buf[i]? = none := by simp; omega
    simp [hi, this]

end SgModel.Iter
