import SgModel.Lemmas.OehKahn
/-! The greedy chain decomposition on a DAG: every node lies on a chain, every chain is a
downward path (`chainsOkB`). -/
namespace SgModel.Oeh

theorem getD_set_bool (used : List Bool) (v x : Nat) :
    (used.set v true).getD x true = if x = v then true else used.getD x true := by
  by_cases hx : x = v
  · subst hx
    by_cases hl : x < used.length
    · simp [List.getD_eq_getElem?_getD, hl]
    · simp [List.getD_eq_getElem?_getD, List.set_eq_of_length_le (Nat.le_of_not_lt hl),
        List.getElem?_eq_none (Nat.le_of_not_lt hl)]
  · simp [List.getD_eq_getElem?_getD, hx, List.getElem?_set_ne (Ne.symm hx)]

/-- appending a child of the last element keeps a downward path -/
theorem pathOk_snoc (P : Poset) (v : Nat) : ∀ (l : List Nat), pathOkB P l = true →
    (∀ a, l.getLast? = some a → (v, a) ∈ P.edges) → pathOkB P (l ++ [v]) = true := by
  intro l
  induction l with
  | nil => intro _ _; rfl
  | cons a l ih =>
    intro hp hl
    cases l with
    | nil =>
      have := hl a (by simp)
      simp [pathOkB, this]
    | cons b r =>
      simp only [pathOkB, Bool.and_eq_true] at hp
      simp only [List.cons_append, pathOkB, Bool.and_eq_true]
      refine ⟨hp.1, ?_⟩
      have := ih hp.2 (by intro x hx; exact hl x (by simpa using hx))
      simpa using this

structure WalkSpec (P : Poset) (used : List Bool) (acc : List Nat) (v : Nat)
    (r : List Bool × List Nat) : Prop where
  len : r.1.length = used.length
  mono : ∀ x, used.getD x true = true → r.1.getD x true = true
  cover : ∀ x, r.1.getD x true = true → used.getD x true = true ∨ x ∈ r.2
  keep : ∀ x ∈ acc, x ∈ r.2
  path : pathOkB P acc.reverse = true → (∀ a, acc.head? = some a → (v, a) ∈ P.edges) →
    pathOkB P r.2 = true

theorem chainWalk_spec (P : Poset) : ∀ (f v : Nat) (used : List Bool) (acc : List Nat),
    WalkSpec P used acc v (chainWalk P f v used acc)
    ∧ (0 < f → (chainWalk P f v used acc).1.getD v true = true) := by
  intro f
  induction f with
  | zero =>
    intro v used acc
    refine ⟨⟨rfl, fun _ h => h, fun _ h => Or.inl h, fun x hx => by simpa [chainWalk] using hx,
      fun hp _ => hp⟩, fun h => by omega⟩
  | succ f ih =>
    intro v used acc
    simp only [chainWalk]
    by_cases hu : used.getD v true = true
    · rw [if_pos hu]
      refine ⟨⟨rfl, fun _ h => h, fun _ h => Or.inl h, fun x hx => by simpa using hx,
        fun hp _ => hp⟩, fun _ => hu⟩
    · rw [if_neg hu]
      have hstep : pathOkB P acc.reverse = true → (∀ a, acc.head? = some a → (v, a) ∈ P.edges) →
          pathOkB P (v :: acc).reverse = true := by
        intro hp hh
        rw [List.reverse_cons]
        exact pathOk_snoc P v _ hp (by intro a ha; exact hh a (by simpa using ha))
      cases hfind : (P.children v).find? (fun c => !((used.set v true).getD c true)) with
      | none =>
        refine ⟨⟨by simp, ?_, ?_, ?_, fun hp hh => hstep hp hh⟩, fun _ => by
          rw [getD_set_bool]; simp⟩
        · intro x hx; rw [getD_set_bool]; split
          · rfl
          · exact hx
        · intro x hx
          rw [getD_set_bool] at hx
          by_cases hxv : x = v
          · right; simp [hxv]
          · left; simpa [hxv] using hx
        · intro x hx; simp [hx]
      | some c =>
        obtain ⟨w, _⟩ := ih c (used.set v true) (v :: acc)
        have hcv : (c, v) ∈ P.edges := mem_children.mp (List.mem_of_find?_eq_some hfind)
        refine ⟨⟨by rw [w.len]; simp, ?_, ?_, ?_, ?_⟩, ?_⟩
        · intro x hx
          apply w.mono
          rw [getD_set_bool]; split
          · rfl
          · exact hx
        · intro x hx
          rcases w.cover x hx with h | h
          · rw [getD_set_bool] at h
            by_cases hxv : x = v
            · right; exact w.keep x (by simp [hxv])
            · left; simpa [hxv] using h
          · exact Or.inr h
        · intro x hx; exact w.keep x (by simp [hx])
        · intro hp hh
          exact w.path (hstep hp hh) (by intro a ha; simp at ha; subst ha; exact hcv)
        · intro _
          apply w.mono
          rw [getD_set_bool]; simp

/-- the state of the outer loop: every node flagged used lies on some chain so far, and every
chain so far is a downward path -/
structure DecInv (P : Poset) (st : List Bool × List (List Nat)) : Prop where
  cover : ∀ x, x < P.n → st.1.getD x true = true → ∃ ch ∈ st.2, x ∈ ch
  paths : ∀ ch ∈ st.2, pathOkB P ch = true

def decStep (P : Poset) (st : List Bool × List (List Nat)) (u : Nat) :
    List Bool × List (List Nat) :=
  if st.1.getD u true then st
  else
    let r := chainWalk P (P.n + 1) u st.1 []
    (r.1, st.2 ++ [r.2])

theorem decStep_spec (P : Poset) (st : List Bool × List (List Nat)) (u : Nat)
    (I : DecInv P st) :
    DecInv P (decStep P st u) ∧ (decStep P st u).1.getD u true = true
    ∧ (∀ x, st.1.getD x true = true → (decStep P st u).1.getD x true = true) := by
  unfold decStep
  by_cases hu : st.1.getD u true = true
  · rw [if_pos hu]
    exact ⟨I, hu, fun _ h => h⟩
  · rw [if_neg hu]
    obtain ⟨w, hw⟩ := chainWalk_spec P (P.n + 1) u st.1 []
    refine ⟨⟨?_, ?_⟩, hw (by omega), w.mono⟩
    · intro x hx hxu
      rcases w.cover x hxu with h | h
      · obtain ⟨ch, hch, hm⟩ := I.cover x hx h
        exact ⟨ch, by simp [hch], hm⟩
      · exact ⟨_, by simp, h⟩
    · intro ch hch
      rcases List.mem_append.mp hch with h | h
      · exact I.paths ch h
      · simp only [List.mem_singleton] at h
        rw [h]
        exact w.path rfl (by intro a ha; cases ha)

theorem decFold_spec (P : Poset) : ∀ (us : List Nat) (st : List Bool × List (List Nat)),
    DecInv P st →
    DecInv P (us.foldl (decStep P) st)
    ∧ (∀ u ∈ us, (us.foldl (decStep P) st).1.getD u true = true)
    ∧ (∀ x, st.1.getD x true = true → (us.foldl (decStep P) st).1.getD x true = true) := by
  intro us
  induction us with
  | nil => intro st I; exact ⟨I, fun _ h => (by cases h), fun _ h => h⟩
  | cons u us ih =>
    intro st I
    obtain ⟨s1, s2, s3⟩ := decStep_spec P st u I
    obtain ⟨i1, i2, i3⟩ := ih (decStep P st u) s1
    refine ⟨i1, ?_, fun x hx => i3 x (s3 x hx)⟩
    intro x hx
    rcases List.mem_cons.mp hx with e | e
    · subst e; exact i3 x s2
    · exact i2 x e

theorem decomposeChains_eq (P : Poset) :
    decomposeChains P = (P.topoDown.foldl (decStep P) (List.replicate P.n false, [])).2 := rfl

/-- **the chain decomposition is well-formed** on every DAG -/
theorem chains_ok {P : Poset} {h : Nat → Nat} (D : IsDag P h) :
    chainsOkB P (buildChain P) = true := by
  have ht := topoUp_ok D
  simp only [topoOkB, Bool.and_eq_true, List.all_eq_true, List.mem_range, decide_eq_true_eq,
    List.contains_iff_mem] at ht
  obtain ⟨⟨⟨_, hall⟩, _⟩, _⟩ := ht
  have init : DecInv P (List.replicate P.n false, []) := by
    refine ⟨?_, fun ch h => by cases h⟩
    intro x hx hu
    simp [List.getD_eq_getElem?_getD, List.getElem?_replicate, hx] at hu
  obtain ⟨f1, f2, _⟩ := decFold_spec P P.topoDown _ init
  have hcov : ∀ v, v < P.n → ∃ ch ∈ decomposeChains P, v ∈ ch := by
    intro v hv
    rw [decomposeChains_eq]
    apply f1.cover v hv
    exact f2 v (by simp [Poset.topoDown, hall v hv])
  have hpaths : ∀ ch ∈ decomposeChains P, pathOkB P ch = true := by
    rw [decomposeChains_eq]; exact f1.paths
  simp only [chainsOkB, Bool.and_eq_true, List.all_eq_true, List.mem_range, beq_iff_eq]
  refine ⟨?_, hpaths⟩
  intro v hv
  obtain ⟨ch, hch, hm⟩ := hcov v hv
  obtain ⟨i, hi, hget⟩ := List.getElem_of_mem hch
  -- `chain_of[v]` is the first chain that contains `v`, at `v`'s first position on it
  let g : Nat → Nat × Nat := fun v =>
    match (List.range (decomposeChains P).length).find?
        (fun c => ((decomposeChains P).getD c []).contains v) with
    | some c => (c, ((decomposeChains P).getD c []).idxOf v)
    | none => (0, 0)
  have hcoDef : (buildChain P).chainOf = (List.range P.n).map g := rfl
  have hco : (buildChain P).chainOf.getD v (0, 0) = g v := by
    rw [hcoDef]
    simp only [List.getD_eq_getElem?_getD, List.getElem?_map, List.getElem?_range hv,
      Option.map_some, Option.getD_some]
  have hchains : (buildChain P).chains = decomposeChains P := rfl
  rw [hco, hchains]
  simp only [g]
  cases hf : (List.range (decomposeChains P).length).find?
      (fun c => ((decomposeChains P).getD c []).contains v) with
  | none =>
    have := List.find?_eq_none.mp hf i (List.mem_range.mpr hi)
    simp [List.getD_eq_getElem?_getD, List.getElem?_eq_getElem hi, hget, hm] at this
  | some c =>
    have hc := List.find?_some hf
    simp only [List.contains_iff_mem] at hc
    simp only
    rw [List.getElem?_eq_getElem (List.idxOf_lt_length_of_mem hc), List.getElem_idxOf]

end SgModel.Oeh
