import SgModel.Model.Rdf
/-! C36 helper lemmas: XML escaping, `split_iri`, the white-space rule. -/
namespace SgModel.Rdf

theorem xmlUnescape_escape (v : Str) : xmlUnescape (xmlEscape v) = some v := by
  induction v with
  | nil => simp [xmlEscape, xmlUnescape]
  | cons c r ih =>
    simp only [xmlEscape, xmlEscChar]
    by_cases h1 : c = '<'
    · subst h1; rw [xmlUnescape.eq_def]; simp [ih]
    · by_cases h2 : c = '>'
      · subst h2; rw [xmlUnescape.eq_def]; simp [ih]
      · by_cases h3 : c = '&'
        · subst h3; rw [xmlUnescape.eq_def]; simp [ih]
        · by_cases h4 : c = '\''
          · subst h4; rw [xmlUnescape.eq_def]; simp [ih]
          · by_cases h5 : c = '"'
            · subst h5; rw [xmlUnescape.eq_def]; simp [ih]
            · rw [xmlUnescape.eq_def]; simp [h1, h2, h3, h4, h5, ih]

/-- escaping leaves white space alone and never produces white space from anything else -/
theorem xmlEscape_all_ws (v : Str) : (xmlEscape v).all isXmlWs = v.all isXmlWs := by
  induction v with
  | nil => rfl
  | cons c r ih =>
    simp only [xmlEscape, xmlEscChar, List.all_append, List.all_cons, ih]
    by_cases h1 : c = '<'
    · subst h1; simp [isXmlWs]
    · by_cases h2 : c = '>'
      · subst h2; simp [isXmlWs]
      · by_cases h3 : c = '&'
        · subst h3; simp [isXmlWs]
        · by_cases h4 : c = '\''
          · subst h4; simp [isXmlWs]
          · by_cases h5 : c = '"'
            · subst h5; simp [isXmlWs]
            · simp [h1, h2, h3, h4, h5]

theorem xmlReadText_escape (v : Str) :
    xmlReadText (xmlEscape v) = some (if v.all isXmlWs then [] else v) := by
  simp only [xmlReadText, xmlUnescape_escape, xmlEscape_all_ws]
  split <;> rfl

/-! ### `split_iri` -/

theorem takeWhile_append_dropWhile_rev (p : Char → Bool) (l : Str) :
    (l.reverse.dropWhile p).reverse ++ (l.reverse.takeWhile p).reverse = l := by
  rw [← List.reverse_append, List.takeWhile_append_dropWhile, List.reverse_reverse]

theorem splitIri_join (iri : Str) : (splitIri iri).1 ++ (splitIri iri).2 = iri := by
  unfold splitIri
  split
  · simp only
    split
    · simp
    · simp only [List.append_assoc, List.takeWhile_append_dropWhile]
      exact takeWhile_append_dropWhile_rev _ iri
  · simp

theorem mem_takeWhile_imp' {p : Char → Bool} {l : Str} {c : Char} (h : c ∈ l.takeWhile p) :
    p c = true := by
  induction l with
  | nil => simp at h
  | cons a t ih =>
    simp only [List.takeWhile_cons] at h
    split at h
    · rename_i hp
      rcases List.mem_cons.mp h with h | h
      · subst h; exact hp
      · exact ih h
    · simp at h

/-- every character of the candidate local part is a NameChar other than `:` -/
theorem tail_all_name (iri : Str) :
    ∀ c ∈ (iri.reverse.takeWhile (fun c => !isSplitStop c)).reverse,
      isNameChar c = true ∧ c ≠ ':' := by
  intro c hc
  rw [List.mem_reverse] at hc
  have := mem_takeWhile_imp' hc
  simp only [isSplitStop, Bool.not_or, Bool.not_not, Bool.and_eq_true, Bool.not_eq_eq_eq_not,
    Bool.not_true, beq_eq_false_iff_ne, ne_eq] at this
  exact this

theorem dropWhile_head (p : Char → Bool) (l : Str) (c : Char) (r : Str)
    (h : l.dropWhile p = c :: r) : p c = false := by
  induction l with
  | nil => simp at h
  | cons a t ih =>
    simp only [List.dropWhile_cons] at h
    split at h
    · exact ih h
    · rename_i hp
      cases h
      simpa using hp

theorem mem_dropWhile {p : Char → Bool} {l : Str} {c : Char} (h : c ∈ l.dropWhile p) : c ∈ l := by
  induction l with
  | nil => simp at h
  | cons a t ih =>
    simp only [List.dropWhile_cons] at h
    split at h
    · exact List.mem_cons_of_mem _ (ih h)
    · exact h

/-- the local part chosen by `split_iri` is empty or an NCName -/
theorem splitIri_local (iri : Str) :
    (splitIri iri).2 = [] ∨ isNcName (splitIri iri).2 = true := by
  unfold splitIri
  split
  · simp only
    split
    · exact Or.inl rfl
    · rename_i hne
      right
      generalize hl : List.dropWhile (fun c => !isLocalStart c)
        (List.takeWhile (fun c => !isSplitStop c) iri.reverse).reverse = loc at hne ⊢
      cases loc with
      | nil => simp at hne
      | cons c r =>
        have hhead := dropWhile_head _ _ c r hl
        have hall : ∀ d ∈ c :: r, isNameChar d = true ∧ d ≠ ':' := by
          intro d hd
          rw [← hl] at hd
          exact tail_all_name iri d (mem_dropWhile hd)
        simp only [Bool.not_eq_eq_eq_not, Bool.not_false, isLocalStart, Bool.and_eq_true,
          bne_iff_ne, ne_eq] at hhead
        simp only [isNcName, Bool.and_eq_true, List.all_eq_true, bne_iff_ne, ne_eq]
        refine ⟨⟨hhead.1, ?_⟩, ?_⟩
        · intro d hd
          exact (hall d (List.mem_cons_of_mem _ hd)).1
        · intro d hd
          exact (hall d hd).2
  · exact Or.inl rfl

theorem xmlReadText_ok (v : Str) (h : v = [] ∨ v.all isXmlWs = false) :
    xmlReadText (xmlEscape v) = some v := by
  rw [xmlReadText_escape]
  rcases h with h | h
  · subst h; rfl
  · simp [h]

theorem setEq_refl (a : List Triple) : setEq a a = true := by
  simp [setEq, subsetOf, List.all_eq_true]

theorem xmlTripleBack_id (t : Triple)
    (h : ∀ l, t.o = .lit l → litWsOnly l = false) : xmlTripleBack t = t := by
  obtain ⟨s, p, o⟩ := t
  cases o with
  | iri i => rfl
  | bnode b => rfl
  | lit l =>
    have hl := h l rfl
    simp only [litWsOnly, Bool.and_eq_false_iff, Bool.not_eq_false', List.isEmpty_iff] at hl
    have ht : xmlReadText (xmlEscape l.value) = some l.value :=
      xmlReadText_ok l.value (by
        rcases hl with hl | hl
        · exact Or.inl hl
        · exact Or.inr hl)
    simp only [xmlTripleBack, xmlLitBack, ht]
    cases l <;> rfl



/-- without `rdf:li` predicates the parser's view is the per-triple one -/
theorem xmlBackFrom_map (ts : List Triple) (h : ∀ t ∈ ts, t.p ≠ rdfLi) :
    ∀ (cur : Option Subj) (k : Nat), xmlBackFrom cur k ts = ts.map xmlTripleBack := by
  induction ts with
  | nil => intro cur k; rfl
  | cons t ts ih =>
    intro cur k
    have ht : t.p ≠ rdfLi := h t (List.mem_cons_self ..)
    have hts : ∀ t' ∈ ts, t'.p ≠ rdfLi := fun t' ht' => h t' (List.mem_cons_of_mem _ ht')
    simp only [xmlBackFrom, ht, if_false, List.map_cons, ih hts]

end SgModel.Rdf
