import SgModel.Model.Rdf
/-! Helper lemmas for C36 (core Lean only): every sub-parser of the N-Triples model reads
back what the corresponding formatter wrote, with an arbitrary continuation `rest`. -/
namespace SgModel.Rdf

@[simp] theorem consRes_some (c : Char) (v rest : Str) :
    consRes c (some (v, rest)) = some (c :: v, rest) := rfl

/-! ### string literals -/

theorem parseStrBody_escape (v rest : Str) :
    parseStrBody (escapeLit v ++ '"' :: rest) = some (v, rest) := by
  induction v with
  | nil => rw [parseStrBody.eq_def]; simp [escapeLit]
  | cons c r ih =>
    simp only [escapeLit, escChar]
    by_cases h1 : c = '\n'
    · subst h1
      rw [parseStrBody.eq_def]; simp [simpleEsc?, ih]
    · by_cases h2 : c = '\r'
      · subst h2
        rw [parseStrBody.eq_def]; simp [simpleEsc?, ih]
      · by_cases h3 : c = '"'
        · subst h3
          rw [parseStrBody.eq_def]; simp [simpleEsc?, ih]
        · by_cases h4 : c = '\\'
          · subst h4
            rw [parseStrBody.eq_def]; simp [simpleEsc?, ih]
          · rw [parseStrBody.eq_def]; simp [h1, h2, h3, h4, ih]

/-! ### small facts -/

theorem skipWs_cons_of_ne (c : Char) (r : Str) (h1 : c ≠ ' ') (h2 : c ≠ '\t') :
    skipWs (c :: r) = c :: r := by
  simp [skipWs, h1, h2]

theorem skipWs_space (r : Str) : skipWs (' ' :: r) = skipWs r := by
  simp [skipWs]

theorem toLower_of_langCharOK (c : Char) (h : langCharOK c = true) : c.toLower = c := by
  have hn : ¬ (c.val ≥ 'A'.val ∧ c.val ≤ 'Z'.val) := by
    intro ⟨h1, h2⟩
    have h1' : 65 ≤ c.toNat := UInt32.le_iff_toNat_le.mp h1
    have h2' : c.toNat ≤ 90 := UInt32.le_iff_toNat_le.mp h2
    simp only [langCharOK, inR, isDigit, Bool.or_eq_true, Bool.and_eq_true, decide_eq_true_eq,
      beq_iff_eq] at h
    rcases h with (h | h) | h
    · omega
    · omega
    · subst h; revert h1'; decide
  simp only [Char.toLower, dif_neg hn]

/-- the characters the IRI scanner treats specially are excluded by `iriCharOK` -/
theorem iriCharOK_ne {c : Char} (h : iriCharOK c = true) :
    c ≠ '>' ∧ c ≠ '\\' ∧ c ≠ '\n' ∧ c ≠ '\r' ∧ c ≠ '<' := by
  simp only [iriCharOK, Bool.and_eq_true, decide_eq_true_eq, bne_iff_ne, ne_eq] at h
  obtain ⟨⟨⟨⟨⟨⟨⟨⟨⟨h0, h1⟩, h2⟩, _⟩, _⟩, _⟩, _⟩, _⟩, _⟩, h9⟩ := h
  refine ⟨h2, h9, ?_, ?_, h1⟩
  · intro h; subst h; revert h0; decide
  · intro h; subst h; revert h0; decide

/-! ### IRIs -/

theorem parseIriBody_render (i rest : Str) (h : iriOK i = true) :
    parseIriBody (i ++ '>' :: rest) = some (i, rest) := by
  induction i with
  | nil => rw [parseIriBody.eq_def]; simp
  | cons c r ih =>
    simp only [iriOK, List.all_cons, Bool.and_eq_true] at h
    obtain ⟨hc, hr⟩ := h
    obtain ⟨h1, h2, h3, h4, _⟩ := iriCharOK_ne hc
    rw [List.cons_append, parseIriBody.eq_def]
    simp [h1, h2, h3, h4, ih (by simpa [iriOK] using hr)]

theorem parseIri_render (i rest : Str) (h : iriOK i = true) :
    parseIri (renderIri i ++ rest) = some (i, rest) := by
  have : renderIri i ++ rest = '<' :: (i ++ '>' :: rest) := by simp [renderIri]
  rw [this]
  simp only [parseIri, parseIriBody_render i rest h, h, if_true]

/-! ### blank-node labels -/

theorem bnodeRest_ok (l : Str) (x : Char) (rest : Str) (h : bnodeTailOK l = true)
    (hx : isPn x = false) (hx' : x ≠ '.') :
    bnodeRest (l ++ x :: rest) = some (l, x :: rest) := by
  induction l with
  | nil => rw [List.nil_append, bnodeRest.eq_def]; simp [hx, hx']
  | cons c r ih =>
    rw [bnodeTailOK.eq_def] at h
    simp only at h
    rw [List.cons_append, bnodeRest.eq_def]
    by_cases hc : c = '.'
    · simp only [hc, if_true, Bool.and_eq_true] at h
      obtain ⟨hd, hr⟩ := h
      cases r with
      | nil => simp at hd
      | cons d r' =>
        simp only at hd
        have := ih hr
        rw [List.cons_append] at this
        simp [hc, hd, this]
    · simp only [hc, if_false, Bool.and_eq_true] at h
      simp [hc, h.1, ih h.2]

theorem parseBnode_render (b : Str) (x : Char) (rest : Str) (h : bnodeOK b = true)
    (hx : isPn x = false) (hx' : x ≠ '.') :
    parseBnode (renderBnode b ++ x :: rest) = some (b, x :: rest) := by
  cases b with
  | nil => simp [bnodeOK] at h
  | cons c r =>
    simp only [bnodeOK, Bool.and_eq_true] at h
    simp only [renderBnode, List.cons_append, parseBnode, h.1, if_true,
      bnodeRest_ok r x rest h.2 hx hx', consRes_some]

/-! ### language tags -/

theorem langTake_ok (l : Str) (x : Char) (rest : Str) (h : l.all langCharOK = true)
    (hx : (inR x 0x61 0x7A || inR x 0x41 0x5A || isDigit x || x == '-') = false) :
    langTake (l ++ x :: rest) = (l, x :: rest) := by
  induction l with
  | nil => simp [langTake, hx]
  | cons c r ih =>
    simp only [List.all_cons, Bool.and_eq_true] at h
    obtain ⟨hc, hr⟩ := h
    have hcond : (inR c 0x61 0x7A || inR c 0x41 0x5A || isDigit c || c == '-') = true := by
      simp only [langCharOK, Bool.or_eq_true] at hc
      simp only [Bool.or_eq_true]
      rcases hc with (hc | hc) | hc
      · exact Or.inl (Or.inl (Or.inl hc))
      · exact Or.inl (Or.inr hc)
      · exact Or.inr hc
    simp [langTake, hcond, ih hr, toLower_of_langCharOK c hc]

theorem parseLang_ok (l : Str) (x : Char) (rest : Str) (h : langOK l = true)
    (hx : (inR x 0x61 0x7A || inR x 0x41 0x5A || isDigit x || x == '-') = false) :
    parseLang (l ++ x :: rest) = some (l, x :: rest) := by
  have hall : l.all langCharOK = true := by
    simp only [langOK, Bool.and_eq_true] at h; exact h.2
  simp only [parseLang, langTake_ok l x rest hall hx, h, if_true]

/-! ### term conversion (the repository's own logic) -/

theorem toLower_idem (c : Char) : c.toLower.toLower = c.toLower := by
  by_cases h : c.val ≥ 'A'.val ∧ c.val ≤ 'Z'.val
  · have h1 : 65 ≤ c.val.toNat := UInt32.le_iff_toNat_le.mp h.1
    have h2 : c.val.toNat ≤ 90 := UInt32.le_iff_toNat_le.mp h.2
    have hv : c.toLower.val = c.val + ('a'.val - 'A'.val) := by
      simp only [Char.toLower, dif_pos h]
    have hn : ¬ (c.toLower.val ≥ 'A'.val ∧ c.toLower.val ≤ 'Z'.val) := by
      intro ⟨_, h4⟩
      have h4' : c.toLower.val.toNat ≤ 90 := UInt32.le_iff_toNat_le.mp h4
      rw [hv, UInt32.toNat_add] at h4'
      have : ('a'.val - 'A'.val).toNat = 32 := by decide
      rw [this] at h4'
      omega
    conv => lhs; rw [Char.toLower]
    simp only [dif_neg hn]
  · have : c.toLower = c := by simp only [Char.toLower, dif_neg h]
    rw [this, this]

theorem mkLang_wf (v l : Str) : (mkLang v l).WF = true := by
  simp only [mkLang, Lit.WF, List.map_map, beq_iff_eq]
  apply List.map_congr_left
  intro c _
  exact toLower_idem c

theorem mkTyped_wf (v dt : Str) : (mkTyped v dt).WF = true := by
  unfold mkTyped
  split
  · rfl
  · rename_i h
    simp [Lit.WF, h]

theorem fromRio_toRio (l : Lit) (h : l.WF = true) : fromRio (toRio l) = l := by
  cases l with
  | simple v => simp [toRio, Lit.language, Lit.datatype, Lit.value, fromRio]
  | lang v lg =>
    simp only [Lit.WF, beq_iff_eq] at h
    simp [toRio, Lit.language, Lit.value, fromRio, mkLang, h]
  | typed v dt =>
    simp only [Lit.WF, bne_iff_ne, ne_eq] at h
    simp [toRio, Lit.language, Lit.datatype, Lit.value, fromRio, mkTyped, h]

def rioLitOK : RioLit → Bool
  | .simple _ => true
  | .lang _ l => langOK l
  | .typed _ dt => iriOK dt

theorem rioLitOK_toRio (l : Lit) (h : litOK l = true) : rioLitOK (toRio l) = true := by
  cases l with
  | simple v => simp [toRio, Lit.language, Lit.datatype, rioLitOK]
  | lang v lg =>
    simp only [litOK, Bool.and_eq_true] at h
    simp [toRio, Lit.language, rioLitOK, h.2]
  | typed v dt =>
    simp only [litOK, Lit.WF, Bool.and_eq_true, bne_iff_ne, ne_eq] at h
    simp [toRio, Lit.language, Lit.datatype, rioLitOK, h.1, h.2]

/-! ### literals, subjects, objects -/

theorem renderQuoted_append (v rest : Str) :
    renderQuoted v ++ rest = '"' :: (escapeLit v ++ '"' :: rest) := by
  simp [renderQuoted]

theorem parseLiteral_render (rl : RioLit) (x : Char) (rest : Str) (hok : rioLitOK rl = true)
    (h1 : x ≠ ' ') (h2 : x ≠ '\t') (h3 : x ≠ '@') (h4 : x ≠ '^') :
    ∃ r', parseLiteral (renderRioLit rl ++ ' ' :: x :: rest) = some (rl, r')
      ∧ skipWs r' = x :: rest := by
  cases rl with
  | simple v =>
    refine ⟨x :: rest, ?_, skipWs_cons_of_ne x rest h1 h2⟩
    simp only [renderRioLit, renderQuoted_append, parseLiteral, parseStrBody_escape,
      skipWs_space, skipWs_cons_of_ne x rest h1 h2]
    split <;> simp_all
  | lang v l =>
    refine ⟨' ' :: x :: rest, ?_, by rw [skipWs_space, skipWs_cons_of_ne x rest h1 h2]⟩
    have hl : parseLang (l ++ ' ' :: x :: rest) = some (l, ' ' :: x :: rest) :=
      parseLang_ok l ' ' (x :: rest) hok (by decide)
    simp only [renderRioLit, List.append_assoc, renderQuoted_append, List.cons_append,
      parseLiteral, parseStrBody_escape,
      skipWs_cons_of_ne '@' _ (by decide) (by decide), hl]
  | typed v dt =>
    refine ⟨' ' :: x :: rest, ?_, by rw [skipWs_space, skipWs_cons_of_ne x rest h1 h2]⟩
    have hi : parseIri (renderIri dt ++ ' ' :: x :: rest) = some (dt, ' ' :: x :: rest) :=
      parseIri_render dt _ hok
    have hs : skipWs (renderIri dt ++ ' ' :: x :: rest) = renderIri dt ++ ' ' :: x :: rest := by
      simp only [renderIri, List.cons_append]
      exact skipWs_cons_of_ne '<' _ (by decide) (by decide)
    simp only [renderRioLit, List.append_assoc, renderQuoted_append, List.cons_append,
      parseLiteral, parseStrBody_escape,
      skipWs_cons_of_ne '^' _ (by decide) (by decide), hs, hi]

theorem renderIri_cases (i rest : Str) (h : iriOK i = true) :
    ∃ c r, renderIri i ++ rest = '<' :: c :: r ∧ c ≠ '<' := by
  cases i with
  | nil => exact ⟨'>', rest, by simp [renderIri], by decide⟩
  | cons c r =>
    simp only [iriOK, List.all_cons, Bool.and_eq_true] at h
    exact ⟨c, r ++ '>' :: rest, by simp [renderIri], (iriCharOK_ne h.1).2.2.2.2⟩

theorem parseSubj_lt (c : Char) (r : Str) (h : c ≠ '<') :
    parseSubj ('<' :: c :: r) =
      (parseIri ('<' :: c :: r)).map (fun p => (Subj.iri p.1, p.2)) := by
  rw [parseSubj.eq_def]
  split
  · simp_all
  · rename_i heq
    cases heq
    cases parseIri ('<' :: c :: r) with
    | none => rfl
    | some p => rfl
  · simp_all
  · simp_all

theorem parseObj_lt (c : Char) (r : Str) (h : c ≠ '<') :
    parseObj ('<' :: c :: r) =
      (parseIri ('<' :: c :: r)).map (fun p => (Obj.iri p.1, p.2)) := by
  rw [parseObj.eq_def]
  split
  · simp_all
  · rename_i heq
    cases heq
    cases parseIri ('<' :: c :: r) with
    | none => rfl
    | some p => rfl
  · simp_all
  · simp_all
  · simp_all

theorem parseSubj_render (s : Subj) (rest : Str) (h : subjOK s = true) :
    parseSubj (renderSubj s ++ ' ' :: rest) = some (s, ' ' :: rest) := by
  cases s with
  | iri i =>
    obtain ⟨c, r, hcr, hc⟩ := renderIri_cases i (' ' :: rest) h
    have hp := parseIri_render i (' ' :: rest) h
    simp only [renderSubj]
    rw [hcr] at hp ⊢
    rw [parseSubj_lt c r hc, hp]; rfl
  | bnode b =>
    have hp := parseBnode_render b ' ' rest h (by decide) (by decide)
    simp only [renderSubj, renderBnode, List.cons_append] at hp ⊢
    rw [parseSubj.eq_def]
    simp only [hp]

theorem parseObj_render (o : Obj) (x : Char) (rest : Str) (h : objOK o = true)
    (h1 : x ≠ ' ') (h2 : x ≠ '\t') (h3 : x ≠ '@') (h4 : x ≠ '^') :
    ∃ r', parseObj (renderObj o ++ ' ' :: x :: rest) = some (o, r') ∧ skipWs r' = x :: rest := by
  cases o with
  | iri i =>
    refine ⟨' ' :: x :: rest, ?_, by rw [skipWs_space, skipWs_cons_of_ne x rest h1 h2]⟩
    obtain ⟨c, r, hcr, hc⟩ := renderIri_cases i (' ' :: x :: rest) h
    have hp := parseIri_render i (' ' :: x :: rest) h
    simp only [renderObj]
    rw [hcr] at hp ⊢
    rw [parseObj_lt c r hc, hp]; rfl
  | bnode b =>
    refine ⟨' ' :: x :: rest, ?_, by rw [skipWs_space, skipWs_cons_of_ne x rest h1 h2]⟩
    have hp := parseBnode_render b ' ' (x :: rest) h (by decide) (by decide)
    simp only [renderObj, renderBnode, List.cons_append] at hp ⊢
    rw [parseObj.eq_def]
    simp only [hp]
  | lit l =>
    simp only [objOK] at h
    obtain ⟨r', hp, hs⟩ := parseLiteral_render (toRio l) x rest (rioLitOK_toRio l h) h1 h2 h3 h4
    refine ⟨r', ?_, hs⟩
    have hwf : l.WF = true := by
      simp only [litOK, Bool.and_eq_true] at h; exact h.1
    have hq : ∃ q, renderRioLit (toRio l) ++ ' ' :: x :: rest = '"' :: q := by
      cases toRio l <;> simp [renderRioLit, renderQuoted]
    obtain ⟨q, hq⟩ := hq
    simp only [renderObj]
    rw [hq] at hp ⊢
    rw [parseObj.eq_def]
    simp only [hp, fromRio_toRio l hwf]

end SgModel.Rdf
