import SgModel.Lemmas.UniqRefine
/-!
Refinement for CREATE CONSTRAINT and multi-property CREATE; the step theorem for all
statements and its lifting to histories.
-/
namespace SgModel.Uniq

theorem any_lk (cons : List Cons) (l key : Nat) :
    cons.any (fun c => decide (c.label = l) && decide (c.key = key))
      = (cons.map (fun c => (c.label, c.key))).contains (l, key) := by
  induction cons with
  | nil => rfl
  | cons c rest ih =>
    have hb : (decide (c.label = l) && decide (c.key = key)) = ((l, key) == (c.label, c.key)) := by
      rw [Bool.eq_iff_iff]
      simp only [Bool.and_eq_true, decide_eq_true_eq, beq_iff_eq, Prod.mk.injEq]
      constructor <;> rintro ⟨a, b⟩ <;> exact ⟨a.symm, b.symm⟩
    simp only [List.any_cons, List.map_cons, List.contains_cons, ih, hb]

theorem refine_mkCons {s : State} (hi : Inv s) (l key : Nat) :
    (obs (step s (.mkCons l key)).1, (step s (.mkCons l key)).2) = sStep (obs s) (.mkCons l key) := by
  have hapL : sApply (obs s) (.mkCons l key)
      = { nodes := s.nodes.map toS,
          cons := if (lks s).contains (l, key) then lks s else lks s ++ [(l, key)], next := s.next } := rfl
  have hmem : (l, key) ∈ (if (lks s).contains (l, key) then lks s else lks s ++ [(l, key)]) := by
    split
    · rename_i h; simpa using h
    · simp
  simp only [step]
  cases hc : createConstraint s l key with
  | none =>
    have hd : hasDupVal (holdersOf s.nodes l key) = true := by
      unfold createConstraint at hc
      simp only at hc
      split at hc
      · assumption
      · simp at hc
    have hnu : ¬ UniqL s.nodes l key := by
      intro hu
      have := (hasDupVal_holdersOf hi.ids l key).mpr hu
      rw [this] at hd; exact absurd hd (by decide)
    have : ¬ sValid (sApply (obs s) (.mkCons l key)) = true := by
      rw [hapL, sValid_iff hi.ids]
      exact not_valid_of_dup ⟨(l, key), hmem, hnu⟩
    rw [sStep_invalid this]; rfl
  | some s' =>
    have hi' := inv_createConstraint hi hc
    have hobs : obs s' = sApply (obs s) (.mkCons l key) := by
      unfold createConstraint at hc
      simp only at hc
      split at hc
      · simp at hc
      · simp only [Option.some.injEq] at hc
        subst hc
        rw [hapL, obs_eq]
        simp only [lks]
        rw [lks_map_idx _ _ (by intro c; split <;> simp), any_lk]
        by_cases hcn : (s.cons.map (fun c => (c.label, c.key))).contains (l, key) = true
        · simp only [hcn, if_true]
        · simp only [hcn, Bool.false_eq_true, if_false, List.map_append, List.map_cons, List.map_nil]
    simp only
    rw [sStep_valid (by rw [← hobs]; exact sValid_obs hi'), hobs]

theorem mapNode_append_fresh (f : Node → Node) (l : List Node) (y : Node) (n : Nat)
    (h : ∀ x ∈ l, x.id ≠ n) (hy : y.id = n) : mapNode f (l ++ [y]) n = l ++ [f y] := by
  induction l with
  | nil => simp [mapNode, hy]
  | cons z rest ih =>
    have hz : ¬ z.id = n := h z List.mem_cons_self
    simp only [List.cons_append, mapNode, hz, if_false]
    rw [ih (fun x hx => h x (List.mem_cons_of_mem _ hx))]

theorem dropNode_append_fresh (l : List Node) (y : Node) (n : Nat)
    (h : ∀ x ∈ l, x.id ≠ n) (hy : y.id = n) : dropNode (l ++ [y]) n = l := by
  induction l with
  | nil => simp [dropNode, hy]
  | cons z rest ih =>
    have hz : ¬ z.id = n := h z List.mem_cons_self
    simp only [List.cons_append, dropNode, hz, if_false]
    rw [ih (fun x hx => h x (List.mem_cons_of_mem _ hx))]

theorem dropNode_absent {l : List Node} {n : Nat} (h : findNode l n = none) : dropNode l n = l := by
  induction l with
  | nil => rfl
  | cons z rest ih =>
    by_cases hz : z.id = n
    · simp [findNode, hz] at h
    · simp only [findNode, hz, if_false] at h
      simp [dropNode, hz, ih h]

theorem deleteNode_nodes (s : State) (n : Nat) : (deleteNode s n).nodes = dropNode s.nodes n := by
  unfold deleteNode
  cases hf : findNode s.nodes n with
  | none => simp [dropNode_absent hf]
  | some node => rfl

theorem deleteNode_lks (s : State) (n : Nat) : lks (deleteNode s n) = lks s := by
  unfold deleteNode
  cases hf : findNode s.nodes n with
  | none => rfl
  | some node =>
    simp only [lks]
    exact lks_map_idx _ _ (by intro c; split <;> simp)

theorem deleteNode_next (s : State) (n : Nat) : (deleteNode s n).next = s.next := by
  unfold deleteNode
  cases hf : findNode s.nodes n <;> rfl

def KeysDistinct (props : List (Nat × Option Val)) : Prop := props.Pairwise (fun a b => a.1 ≠ b.1)

theorem refine_create {s : State} (hi : Inv s) (labels : List Nat) (props : List (Nat × Option Val))
    (hk : KeysDistinct props) :
    (obs (step s (.create labels props)).1, (step s (.create labels props)).2)
      = sStep (obs s) (.create labels props) ∧ Inv (step s (.create labels props)).1 := by
  have hi1 := inv_createNode hi labels
  let node0 : Node := { id := s.next, labels := dedup labels, props := [] }
  have hfresh : ∀ x ∈ s.nodes, x.id ≠ s.next := fun x hx => Nat.ne_of_lt (hi.lt x hx)
  have hn0 : node0 ∈ (createNode s labels).nodes := by simp [createNode, node0]
  have hpost := setAllPartial_spec props hk (createNode s labels) hi1 node0 hn0
  have hput : putAll (createNode s labels).nodes s.next props
      = s.nodes ++ [{ node0 with props := foldProps [] props }] :=
    mapNode_append_fresh _ _ node0 _ hfresh rfl
  have hidp : IdsNodup (putAll (createNode s labels).nodes s.next props) :=
    idsNodup_mapNode (f := fun x => { x with props := foldProps x.props props }) (fun _ => rfl) _ hi1.ids
  have hap : sApply (obs s) (.create labels props)
      = { nodes := (putAll (createNode s labels).nodes s.next props).map toS, cons := lks s,
          next := s.next + 1 } := by
    rw [hput]
    simp only [sApply, obs_eq, List.map_append, List.map_cons, List.map_nil]
    rfl
  simp only [step]
  generalize hr : setAllPartial (createNode s labels) s.next props = r at hpost
  obtain ⟨s2, ok⟩ := r
  obtain ⟨p1, p2, p3, p4, p5, p6⟩ := hpost
  cases ok with
  | true =>
    simp only at p1 p2 p3 p5 ⊢
    have hobs : obs s2 = sApply (obs s) (.create labels props) := by
      rw [hap, obs_eq, p5 trivial, p3, p2]; rfl
    refine ⟨?_, p1⟩
    rw [sStep_valid (by rw [← hobs]; exact sValid_obs p1), hobs]
  | false =>
    simp only at p1 p2 p3 p4 p6 ⊢
    have hinv : ¬ sValid (sApply (obs s) (.create labels props)) = true := by
      rw [hap, sValid_iff hidp]
      exact not_valid_of_dup (p6 trivial)
    refine ⟨?_, inv_deleteNode p1 _⟩
    rw [sStep_invalid hinv]
    congr 1
    rw [obs_eq, deleteNode_nodes, deleteNode_lks, deleteNode_next, p4, p3, p2]
    have : dropNode (createNode s labels).nodes s.next = s.nodes :=
      dropNode_append_fresh _ node0 _ hfresh rfl
    show ({ nodes := (dropNode (createNode s labels).nodes s.next).map toS, cons := lks (createNode s labels),
            next := (createNode s labels).next } : Obs) = _
    rw [this]; rfl

/-! ### all statements, all histories -/

def Op.wf : Op → Prop
  | .create _ props => KeysDistinct props
  | _ => True

theorem inv_step {s : State} (hi : Inv s) (op : Op) (hw : op.wf) : Inv (step s op).1 := by
  cases op with
  | mkCons l key =>
    simp only [step]
    cases hc : createConstraint s l key with
    | none => exact hi
    | some s' => exact inv_createConstraint hi hc
  | create labels props => exact (refine_create hi labels props hw).2
  | set h key v =>
    simp only [step]
    rw [setProp_eq]
    cases hf : findNode s.nodes h with
    | none => exact hi
    | some node =>
      obtain ⟨hn, hid⟩ := findNode_some hf
      simp only
      by_cases hb : s.cons.any (fun c => watches c node key && blocked c v node.id) = true
      · simp only [hb, if_true]; exact hi
      · have hb' : s.cons.any (fun c => watches c node key && blocked c v node.id) = false := by simpa using hb
        simp only [hb', Bool.false_eq_true, if_false]
        exact inv_writeProp hi hn key v hb'
  | remove h key =>
    simp only [step, removeProp]
    cases hf : findNode s.nodes h with
    | none => exact hi
    | some node =>
      obtain ⟨hn, hid⟩ := findNode_some hf
      exact inv_writeProp hi hn key none (by simp [blocked])
  | delete h => exact inv_deleteNode hi h
  | addLabel h l =>
    simp only [step]
    cases hc : addLabel s h l with
    | none => exact hi
    | some s' => exact inv_addLabel hi hc
  | removeLabel h l => exact inv_removeLabel hi h l
  | noop t => exact hi

theorem refine_step {s : State} (hi : Inv s) (op : Op) (hw : op.wf) :
    (obs (step s op).1, (step s op).2) = sStep (obs s) op := by
  cases op with
  | mkCons l key => exact refine_mkCons hi l key
  | create labels props => exact (refine_create hi labels props hw).1
  | set h key v => exact refine_set hi h key v
  | remove h key => exact refine_remove hi h key
  | delete h => exact refine_delete hi h
  | addLabel h l => exact refine_addLabel hi h l
  | removeLabel h l => exact refine_removeLabel hi h l
  | noop t =>
    have hap : sApply (obs s) (.noop t) = obs s := rfl
    simp only [step]
    rw [sStep_valid (by rw [hap]; exact sValid_obs hi), hap]

/-! ### the initial population -/

theorem seedNodes_ids (pop : List Seed) (i : Nat) :
    IdsNodup (seedNodes i pop) ∧ ∀ x ∈ seedNodes i pop, i ≤ x.id ∧ x.id < i + pop.length := by
  induction pop generalizing i with
  | nil => simp [seedNodes, IdsNodup]
  | cons sd rest ih =>
    obtain ⟨h1, h2⟩ := ih (i + 1)
    constructor
    · simp only [seedNodes, IdsNodup, List.pairwise_cons]
      refine ⟨?_, h1⟩
      intro x hx
      have := (h2 x hx).1
      simp only [seedNode]; omega
    · intro x hx
      simp only [seedNodes, List.mem_cons] at hx
      rcases hx with rfl | hx
      · simp [seedNode]
      · have := h2 x hx
        simp only [List.length_cons]; omega

theorem inv_init (pop : List Seed) : Inv (init pop) := by
  obtain ⟨h1, h2⟩ := seedNodes_ids pop 0
  refine ⟨h1, ?_, ?_, ?_⟩
  · intro x hx; have := (h2 x hx).2; simpa [init] using this
  · intro c hc; simp [init] at hc
  · intro c hc; simp [init] at hc

theorem inv_runFrom {s : State} (hi : Inv s) (ops : List Op) (hw : ∀ op ∈ ops, op.wf) : Inv (runFrom s ops) := by
  induction ops generalizing s with
  | nil => exact hi
  | cons op rest ih =>
    simp only [runFrom, List.foldl_cons]
    exact ih (inv_step hi op (hw op List.mem_cons_self)) (fun o ho => hw o (List.mem_cons_of_mem _ ho))

theorem inv_run (pop : List Seed) (ops : List Op) (hw : ∀ op ∈ ops, op.wf) : Inv (run pop ops) :=
  inv_runFrom (inv_init pop) ops hw

end SgModel.Uniq
