import SgModel.Lemmas.IdxScanStep
/-!
Soundness of the index scan under the store invariant: the scan (with its residual filter)
is a duplicate-free enumeration of exactly the nodes the label scan + filter returns.
-/
namespace SgModel.IdxScan

theorem holds_functional {s : St} {l k : Nat} {v v' : Val} {id : Nat}
    (h : Holds s l k v id) (h' : Holds s l k v' id) : v = v' := by
  obtain ⟨n, hn, _, hv⟩ := h
  obtain ⟨n', hn', _, hv'⟩ := h'
  rw [hn] at hn'; cases hn'
  rw [hv] at hv'; exact Option.some.inj hv'

theorem nodup_map_snd {α β : Type} (l : List (α × β)) (hn : l.Nodup)
    (hf : ∀ a a' b, (a, b) ∈ l → (a', b) ∈ l → a = a') : (l.map (·.2)).Nodup := by
  induction l with
  | nil => simp
  | cons x rest ih =>
    obtain ⟨a, b⟩ := x
    simp only [List.nodup_cons] at hn
    simp only [List.map_cons, List.nodup_cons, List.mem_map]
    refine ⟨?_, ih hn.2 (fun a a' b h1 h2 => hf a a' b (List.mem_cons_of_mem _ h1) (List.mem_cons_of_mem _ h2))⟩
    rintro ⟨⟨a', b'⟩, hm, hb⟩
    simp only at hb; subst hb
    have := hf a a' b' List.mem_cons_self (List.mem_cons_of_mem _ hm)
    subst this
    exact hn.1 hm

theorem ids_nodup {s : St} {ix : Ix} (hok : IxOk s ix) : ((entries ix.tree).map (·.2)).Nodup :=
  nodup_map_snd _ (entries_nodup hok.1) (fun a a' b h1 h2 =>
    holds_functional ((hok.2 a b).mp h1) ((hok.2 a' b).mp h2))

theorem mem_range {s : St} {ix : Ix} (hok : IxOk s ix) (r : Bound × Bound) (id : Nat) :
    id ∈ range ix.tree r ↔ ∃ v, inRange r v = true ∧ Holds s ix.label ix.key v id := by
  simp only [range, List.mem_map, List.mem_filter]
  constructor
  · rintro ⟨⟨v, i⟩, ⟨he, hr⟩, rfl⟩
    exact ⟨v, hr, (hok.2 v i).mp he⟩
  · rintro ⟨v, hr, hh⟩
    exact ⟨(v, id), ⟨(hok.2 v id).mpr hh, hr⟩, rfl⟩

theorem range_nodup {s : St} {ix : Ix} (hok : IxOk s ix) (r : Bound × Bound) : (range ix.tree r).Nodup :=
  List.Nodup.sublist (List.Sublist.map _ List.filter_sublist) (ids_nodup hok)

def Disjoint (rs : List (Bound × Bound)) : Prop :=
  rs.Pairwise (fun r1 r2 => ∀ k, ¬(inRange r1 k = true ∧ inRange r2 k = true))

theorem scan_nodup {s : St} {ix : Ix} (hok : IxOk s ix) (rs : List (Bound × Bound)) (hd : Disjoint rs) :
    (rs.flatMap (range ix.tree)).Nodup := by
  induction rs with
  | nil => simp
  | cons r rest ih =>
    simp only [Disjoint, List.pairwise_cons] at hd
    rw [List.flatMap_cons, List.nodup_append]
    refine ⟨range_nodup hok r, ih hd.2, ?_⟩
    intro x hx y hy hxy
    subst hxy
    obtain ⟨v, hv, hh⟩ := (mem_range hok r x).mp hx
    obtain ⟨r', hr', hx'⟩ := List.mem_flatMap.mp hy
    obtain ⟨v', hv', hh'⟩ := (mem_range hok r' x).mp hx'
    have := holds_functional hh hh'
    subst this
    exact hd.1 r' hr' v ⟨hv, hv'⟩

theorem point_range (a k : Val) (h : inRange (.incl a, .incl a) k = true) : k = a := by
  simp only [inRange, aboveLo, belowHi, Bool.and_eq_true, Bool.not_eq_true'] at h
  rcases idxLt_total k a with h' | h' | h'
  · rw [h.1] at h'; cases h'
  · exact h'
  · rw [h.2] at h'; cases h'

theorem disjoint_two_points (a b : Val) (hab : a ≠ b) :
    Disjoint [(.incl a, .incl a), (.incl b, .incl b)] := by
  unfold Disjoint
  refine List.Pairwise.cons ?_ (List.Pairwise.cons (by simp) List.Pairwise.nil)
  intro r hr k hk
  simp only [List.mem_singleton] at hr
  subst hr
  exact hab ((point_range _ _ hk.1).symm.trans (point_range _ _ hk.2))

theorem disjoint_single (r : Bound × Bound) : Disjoint [r] := by
  unfold Disjoint; simp

theorem probeRanges_disjoint (op : CmpOp) (v : Val) : Disjoint (probeRanges op v) := by
  cases v <;> cases op <;> simp only [probeRanges] <;>
    first
      | exact disjoint_single _
      | exact List.Pairwise.nil
      | skip
  rename_i s
  split
  · exact disjoint_two_points _ _ (by simp)
  · split
    · exact disjoint_two_points _ _ (by simp)
    · exact disjoint_single _

theorem indexScan_nodup {s : St} {ix : Ix} (hok : IxOk s ix) (op : CmpOp) (v : Val) :
    (indexScan ix.tree op v).Nodup := scan_nodup hok _ (probeRanges_disjoint op v)

theorem mem_indexScan {s : St} {ix : Ix} (hok : IxOk s ix) (op : CmpOp) (v : Val) (id : Nat) :
    id ∈ indexScan ix.tree op v ↔
      ∃ r ∈ probeRanges op v, ∃ k, inRange r k = true ∧ Holds s ix.label ix.key k id := by
  simp only [indexScan, scanWith, List.mem_flatMap, mem_range hok]

theorem cmpCy_null (op : CmpOp) (v : Val) : cmpCy op .null v = false := by
  cases op <;> cases v <;> simp [cmpCy, coercedEq, cyLt, num]

theorem labelScan_nodup {s : St} (h : Inv s) (l : Nat) : (labelScan s l).Nodup :=
  List.Nodup.sublist (List.Sublist.map _ List.filter_sublist) h.1

theorem mem_labelScan {s : St} (h : Inv s) (l id : Nat) :
    id ∈ labelScan s l ↔ ∃ n, nodeAt s id = some n ∧ l ∈ n.labels := by
  simp only [labelScan, List.mem_map, List.mem_filter, List.contains_iff_mem]
  constructor
  · rintro ⟨n, ⟨hn, hl⟩, rfl⟩; exact ⟨n, nodeAt_of_mem h.1 hn, hl⟩
  · rintro ⟨n, hn, hl⟩; exact ⟨n, ⟨nodeAt_mem hn, hl⟩, nodeAt_some_id hn⟩

/-- a node passing `n.key <op> v` is a candidate of the index scan -/
theorem candidate_of_match {s : St} {ix : Ix} (hok : IxOk s ix) {n : Node} {id : Nat}
    (hn : nodeAt s id = some n) (hl : ix.label ∈ n.labels) (op : CmpOp) (v : Val)
    (hc : cmpCy op (propOf n ix.key) v = true) : id ∈ indexScan ix.tree op v := by
  rw [mem_indexScan hok]
  cases hv : lookup n.props ix.key with
  | none => simp [propOf, hv, cmpCy_null] at hc
  | some k =>
    simp only [propOf, hv, Option.getD_some] at hc
    obtain ⟨r, hr, hin⟩ := probe_superset op k v hc
    exact ⟨r, hr, k, hin, n, hn, hl, hv⟩

theorem label_of_candidate {s : St} {ix : Ix} (hok : IxOk s ix) {op : CmpOp} {v : Val} {id : Nat}
    (h : id ∈ indexScan ix.tree op v) : ∃ n, nodeAt s id = some n ∧ ix.label ∈ n.labels := by
  obtain ⟨_, _, _, _, n, hn, hl, _⟩ := (mem_indexScan hok op v id).mp h
  exact ⟨n, hn, hl⟩

theorem findIndexPred_spec {s : St} {l : Nat} {ps : List Pred} {ix : Ix} {op : CmpOp} {v : Val}
    (h : findIndexPred s l ps = some (ix, op, v)) :
    ix ∈ s.ixs ∧ ix.label = l ∧ Pred.cmp ix.key op v ∈ ps := by
  induction ps with
  | nil => simp [findIndexPred] at h
  | cons p rest ih =>
    cases p with
    | inl k vs =>
      simp only [findIndexPred] at h
      obtain ⟨a, b, c⟩ := ih h
      exact ⟨a, b, List.mem_cons_of_mem _ c⟩
    | cmp key op' v' =>
      simp only [findIndexPred] at h
      split at h
      · rename_i ix' hf
        simp only [Option.some.injEq, Prod.mk.injEq] at h
        obtain ⟨rfl, rfl, rfl⟩ := h
        have hm := List.mem_of_find?_eq_some hf
        have hp := List.find?_some hf
        simp only [Bool.and_eq_true, beq_iff_eq] at hp
        exact ⟨hm, hp.1, by rw [hp.2]; exact List.mem_cons_self⟩
      · obtain ⟨a, b, c⟩ := ih h
        exact ⟨a, b, List.mem_cons_of_mem _ c⟩

theorem planIds_perm_specIds {s : St} (h : Inv s) (l : Nat) (ps : List Pred) :
    (planIds s l ps).Perm (specIds s l ps) := by
  unfold planIds planIdsWith
  cases hf : findIndexPred s l ps with
  | none => exact List.Perm.refl _
  | some t =>
    obtain ⟨ix, op, v⟩ := t
    obtain ⟨hix, hl, hp⟩ := findIndexPred_spec hf
    have hok := h.2 ix hix
    simp only [if_true]
    rw [List.perm_ext_iff_of_nodup]
    · intro id
      simp only [List.mem_filter, specIds]
      constructor
      · rintro ⟨⟨hs, _⟩, hr⟩
        obtain ⟨n, hn, hln⟩ := label_of_candidate hok hs
        exact ⟨(mem_labelScan h l id).mpr ⟨n, hn, hl ▸ hln⟩, hr⟩
      · rintro ⟨hs, hr⟩
        obtain ⟨n, hn, hln⟩ := (mem_labelScan h l id).mp hs
        refine ⟨⟨?_, by simp [hn]⟩, hr⟩
        simp only [residual, hn, List.all_eq_true] at hr
        have := hr _ hp
        exact candidate_of_match hok hn (hl ▸ hln) op v this
    · exact List.Nodup.sublist (List.filter_sublist.trans List.filter_sublist) (indexScan_nodup hok op v)
    · exact List.Nodup.sublist List.filter_sublist (labelScan_nodup h l)

theorem rowsOf_perm (s : St) (q : Query) {a b : List Nat} (h : a.Perm b) :
    (rowsOf s q a).Perm (rowsOf s q b) := by
  unfold rowsOf
  split
  · split
    · exact h.map _
    · rw [h.length_eq]
  · exact h.flatMap_right _

end SgModel.IdxScan
