import SgModel.Lemmas.IdxScanInv
/-!
Every write operation of the C02 store model preserves the invariant `Inv`
(`Lemmas/IdxScanInv.lean`); hence every reachable state satisfies it.
-/
namespace SgModel.IdxScan

/-- node lookup after an id-preserving update of node `id` -/
theorem nodeAt_upd (s : St) (id id' : Nat) (f : Node → Node) (hf : ∀ n, (f n).id = n.id)
    (s' : St) (hs' : s'.nodes = updNode s id f) :
    nodeAt s' id' = (nodeAt s id').map (fun n => if n.id = id then f n else n) := by
  simp only [nodeAt, hs', updNode]; exact find_upd _ _ _ _ hf

theorem holds_upd {s s' : St} {id : Nat} {n : Node} (hn : nodeAt s id = some n)
    (f : Node → Node) (hf : ∀ m, (f m).id = m.id) (hs' : s'.nodes = updNode s id f)
    (l k : Nat) (v' : Val) (id' : Nat) :
    Holds s' l k v' id' ↔
      if id' = id then (l ∈ (f n).labels ∧ lookup (f n).props k = some v') else Holds s l k v' id' := by
  unfold Holds
  rw [nodeAt_upd s id id' f hf s' hs']
  by_cases h : id' = id
  · subst h
    simp [hn, nodeAt_some_id hn]
  · simp only [h, if_false]
    constructor
    · rintro ⟨m, hm, h1, h2⟩
      cases hm' : nodeAt s id' with
      | none => simp [hm'] at hm
      | some m0 =>
        have hid := nodeAt_some_id hm'
        simp [hm', hid, h] at hm
        subst hm; exact ⟨m0, rfl, h1, h2⟩
    · rintro ⟨m, hm, h1, h2⟩
      have hid := nodeAt_some_id hm
      exact ⟨m, by simp [hm, hid, h], h1, h2⟩

theorem ids_upd (s : St) (id : Nat) (f : Node → Node) (hf : ∀ n, (f n).id = n.id) :
    (updNode s id f).map (·.id) = s.nodes.map (·.id) := by
  simp only [updNode, List.map_map]
  apply List.map_congr_left
  intro n _
  simp only [Function.comp]
  split <;> simp [hf]

theorem inv_setProp {s : St} (h : Inv s) (id key : Nat) (v : Val) : Inv (step s (.setProp id key v)) := by
  simp only [step, stepG]
  cases hn : nodeAt s id with
  | none => exact h
  | some n =>
    simp only
    have hf : ∀ m : Node, ({ m with props := setKey m.props key v } : Node).id = m.id := fun _ => rfl
    refine ⟨by simpa [ids_upd s id _ hf] using h.1, ?_⟩
    intro ix' hix'
    simp only [updIx, List.mem_map] at hix'
    obtain ⟨ix, hix, rfl⟩ := hix'
    obtain ⟨hwf, hent⟩ := h.2 ix hix
    have hid := nodeAt_some_id hn
    by_cases hp : (ix.key == key && n.labels.contains ix.label) = true
    · simp only [hp, if_true]
      simp only [Bool.and_eq_true, beq_iff_eq, List.contains_iff_mem] at hp
      refine ⟨wf_insert (wf_removeAll hwf n key) v id, ?_⟩
      intro v' id'
      rw [holds_upd hn _ hf rfl]
      simp only [mem_entries_insert, entries_removeAll hwf.1, hent, lookup_setKey, hp.1, if_true]
      by_cases hi : id' = id
      · subst hi
        simp only [if_true, hp.2, true_and, Option.some.injEq]
        constructor
        · rintro (⟨rfl, _⟩ | ⟨⟨m, hm, _, hl⟩, hne⟩)
          · rfl
          · rw [hn] at hm; cases hm
            exact absurd ⟨hid.symm, hp.1 ▸ hl⟩ hne
        · intro hv; exact Or.inl ⟨hv.symm, trivial⟩
      · simp only [hi, if_false]
        constructor
        · rintro (⟨_, h'⟩ | ⟨h', _⟩)
          · exact h'.elim
          · exact hp.1 ▸ h'
        · intro h'; exact Or.inr ⟨hp.1 ▸ h', fun h'' => hi (h''.1.trans hid)⟩
    · have hp' : (ix.key == key && n.labels.contains ix.label) = false := by simpa using hp
      simp only [hp', Bool.false_eq_true, if_false]
      refine ⟨hwf, ?_⟩
      intro v' id'
      rw [holds_upd hn _ hf rfl, hent]
      by_cases hi : id' = id
      · subst hi
        simp only [if_true, lookup_setKey]
        simp only [Bool.and_eq_false_iff, beq_eq_false_iff_ne, ne_eq] at hp'
        constructor
        · rintro ⟨m, hm, hl, hv⟩
          rw [hn] at hm; cases hm
          rcases hp' with hk | hc
          · simp [hk, hl, hv]
          · simp [hl] at hc
        · rintro ⟨hl, hv⟩
          rcases hp' with hk | hc
          · simp [hk] at hv; exact ⟨n, hn, hl, hv⟩
          · simp [hl] at hc
      · simp [hi]


theorem holds_nodes_eq {s s' : St} (h : s'.nodes = s.nodes) (l k : Nat) (v : Val) (id : Nat) :
    Holds s' l k v id ↔ Holds s l k v id := by
  simp only [Holds, nodeAt, h]

theorem ixOk_nodes_eq {s s' : St} (h : s'.nodes = s.nodes) {ix : Ix} (hok : IxOk s ix) : IxOk s' ix :=
  ⟨hok.1, fun v id => by rw [holds_nodes_eq h]; exact hok.2 v id⟩

theorem inv_removeProp {s : St} (h : Inv s) (id key : Nat) : Inv (step s (.removeProp id key)) := by
  simp only [step, stepG]
  cases hn : nodeAt s id with
  | none => exact h
  | some n =>
    simp only [Bool.false_eq_true, if_false]
    have hf : ∀ m : Node, ({ m with props := eraseKey m.props key } : Node).id = m.id := fun _ => rfl
    refine ⟨by simpa [ids_upd s id _ hf] using h.1, ?_⟩
    intro ix' hix'
    simp only [updIx, List.mem_map] at hix'
    obtain ⟨ix, hix, rfl⟩ := hix'
    obtain ⟨hwf, hent⟩ := h.2 ix hix
    have hid := nodeAt_some_id hn
    by_cases hp : (ix.key == key && n.labels.contains ix.label) = true
    · simp only [hp, if_true]
      simp only [Bool.and_eq_true, beq_iff_eq, List.contains_iff_mem] at hp
      refine ⟨wf_removeAll hwf n key, ?_⟩
      intro v' id'
      rw [holds_upd hn _ hf rfl]
      simp only [entries_removeAll hwf.1, hent, lookup_eraseKey, hp.1, if_true]
      by_cases hi : id' = id
      · subst hi
        simp only [if_true]
        constructor
        · rintro ⟨⟨m, hm, _, hl⟩, hne⟩
          rw [hn] at hm; cases hm
          exact absurd ⟨hid.symm, hp.1 ▸ hl⟩ hne
        · rintro ⟨_, h'⟩; cases h'
      · simp only [hi, if_false]
        constructor
        · rintro ⟨h', _⟩; exact hp.1 ▸ h'
        · intro h'; exact ⟨hp.1 ▸ h', fun h'' => hi (h''.1.trans hid)⟩
    · have hp' : (ix.key == key && n.labels.contains ix.label) = false := by simpa using hp
      simp only [hp', Bool.false_eq_true, if_false]
      refine ⟨hwf, ?_⟩
      intro v' id'
      rw [holds_upd hn _ hf rfl, hent]
      by_cases hi : id' = id
      · subst hi
        simp only [if_true, lookup_eraseKey]
        simp only [Bool.and_eq_false_iff, beq_eq_false_iff_ne, ne_eq] at hp'
        constructor
        · rintro ⟨m, hm, hl, hv⟩
          rw [hn] at hm; cases hm
          rcases hp' with hk | hc
          · simp [hk, hl, hv]
          · simp [hl] at hc
        · rintro ⟨hl, hv⟩
          rcases hp' with hk | hc
          · simp [hk] at hv; exact ⟨n, hn, hl, hv⟩
          · simp [hl] at hc
      · simp [hi]

theorem inv_removeLabel {s : St} (h : Inv s) (id l : Nat) : Inv (step s (.removeLabel id l)) := by
  simp only [step, stepG]
  cases hn : nodeAt s id with
  | none => exact h
  | some n =>
    simp only [Bool.false_eq_true, if_false]
    have hf : ∀ m : Node, ({ m with labels := m.labels.filter (· != l) } : Node).id = m.id := fun _ => rfl
    refine ⟨by simpa [ids_upd s id _ hf] using h.1, ?_⟩
    intro ix' hix'
    simp only [List.mem_map] at hix'
    obtain ⟨ix, hix, rfl⟩ := hix'
    obtain ⟨hwf, hent⟩ := h.2 ix hix
    have hid := nodeAt_some_id hn
    by_cases hp : ix.label = l
    · simp only [hp, beq_self_eq_true, if_true]
      refine ⟨wf_removeAll hwf n ix.key, ?_⟩
      intro v' id'
      rw [holds_upd hn _ hf rfl]
      simp only [entries_removeAll hwf.1, hent]
      by_cases hi : id' = id
      · subst hi
        simp only [if_true, List.mem_filter, bne_self_eq_false, Bool.false_eq_true, and_false, false_and, iff_false]
        rintro ⟨⟨m, hm, _, hl⟩, hne⟩
        rw [hn] at hm; cases hm
        exact hne ⟨hid.symm, hl⟩
      · simp only [hi, if_false]
        constructor
        · rintro ⟨h', _⟩; exact hp ▸ h'
        · intro h'; exact ⟨hp ▸ h', fun h'' => hi (h''.1.trans hid)⟩
    · have hp' : (ix.label == l) = false := by simpa using hp
      simp only [hp', Bool.false_eq_true, if_false]
      refine ⟨hwf, ?_⟩
      intro v' id'
      rw [holds_upd hn _ hf rfl, hent]
      by_cases hi : id' = id
      · subst hi
        simp only [if_true, List.mem_filter, bne_iff_ne, ne_eq, hp, not_false_eq_true, and_true]
        constructor
        · rintro ⟨m, hm, hl, hv⟩
          rw [hn] at hm; cases hm
          exact ⟨hl, hv⟩
        · rintro ⟨hl, hv⟩; exact ⟨n, hn, hl, hv⟩
      · simp [hi]

theorem inv_addLabel {s : St} (h : Inv s) (id l : Nat) : Inv (step s (.addLabel id l)) := by
  simp only [step, stepG]
  cases hn : nodeAt s id with
  | none => exact h
  | some n =>
    simp only
    by_cases hc : n.labels.contains l = true
    · simp only [hc, if_true]; exact h
    · simp only [hc, Bool.false_eq_true, if_false]
      have hnl : l ∉ n.labels := by simpa using hc
      have hf : ∀ m : Node, ({ m with labels := l :: m.labels } : Node).id = m.id := fun _ => rfl
      refine ⟨by simpa [ids_upd s id _ hf] using h.1, ?_⟩
      intro ix' hix'
      simp only [List.mem_map] at hix'
      obtain ⟨ix, hix, rfl⟩ := hix'
      obtain ⟨hwf, hent⟩ := h.2 ix hix
      have hid := nodeAt_some_id hn
      by_cases hp : ix.label = l
      · simp only [hp, beq_self_eq_true, if_true]
        refine ⟨wf_insertAll hwf n ix.key, ?_⟩
        intro v' id'
        rw [holds_upd hn _ hf rfl]
        simp only [entries_insertAll, hent]
        by_cases hi : id' = id
        · subst hi
          simp only [if_true, List.mem_cons, true_or, true_and]
          constructor
          · rintro (⟨_, hl⟩ | ⟨m, hm, hl, _⟩)
            · exact hl
            · rw [hn] at hm; cases hm
              exact absurd (hp ▸ hl) hnl
          · intro hl; exact Or.inl ⟨hid.symm, hl⟩
        · simp only [hi, if_false]
          constructor
          · rintro (⟨h', _⟩ | h')
            · exact absurd (h'.trans hid) hi
            · exact hp ▸ h'
          · intro h'; exact Or.inr (hp ▸ h')
      · have hp' : (ix.label == l) = false := by simpa using hp
        simp only [hp', Bool.false_eq_true, if_false]
        refine ⟨hwf, ?_⟩
        intro v' id'
        rw [holds_upd hn _ hf rfl, hent]
        by_cases hi : id' = id
        · subst hi
          simp only [if_true, List.mem_cons, hp, false_or]
          constructor
          · rintro ⟨m, hm, hl, hv⟩
            rw [hn] at hm; cases hm
            exact ⟨hl, hv⟩
          · rintro ⟨hl, hv⟩; exact ⟨n, hn, hl, hv⟩
        · simp [hi]


theorem holds_delete {s s' : St} {id : Nat} (hs' : s'.nodes = s.nodes.filter (fun m => m.id != id))
    (l k : Nat) (v' : Val) (id' : Nat) :
    Holds s' l k v' id' ↔ id' ≠ id ∧ Holds s l k v' id' := by
  unfold Holds
  have : nodeAt s' id' = if id' = id then none else nodeAt s id' := by
    simp only [nodeAt, hs']; exact find_filter_ne s.nodes id id'
  rw [this]
  by_cases hi : id' = id <;> simp [hi]

theorem inv_delete {s : St} (h : Inv s) (id : Nat) : Inv (step s (.delete id)) := by
  simp only [step, stepG]
  cases hn : nodeAt s id with
  | none => exact h
  | some n =>
    simp only
    have hid := nodeAt_some_id hn
    refine ⟨List.Nodup.sublist (List.Sublist.map _ List.filter_sublist) h.1, ?_⟩
    intro ix' hix'
    simp only [List.mem_map] at hix'
    obtain ⟨ix, hix, rfl⟩ := hix'
    obtain ⟨hwf, hent⟩ := h.2 ix hix
    by_cases hp : n.labels.contains ix.label = true
    · simp only [hp, if_true]
      refine ⟨wf_removeAll hwf n ix.key, ?_⟩
      intro v' id'
      rw [holds_delete rfl]
      simp only [entries_removeAll hwf.1, hent]
      constructor
      · rintro ⟨hH, hne⟩
        refine ⟨?_, hH⟩
        rintro rfl
        obtain ⟨m, hm, _, hl⟩ := hH
        rw [hn] at hm; cases hm
        exact hne ⟨hid.symm, hl⟩
      · rintro ⟨hi, hH⟩
        exact ⟨hH, fun h'' => hi (h''.1.trans hid)⟩
    · simp only [hp, Bool.false_eq_true, if_false]
      refine ⟨hwf, ?_⟩
      intro v' id'
      rw [holds_delete rfl, hent]
      constructor
      · intro hH
        refine ⟨?_, hH⟩
        rintro rfl
        obtain ⟨m, hm, hl, _⟩ := hH
        rw [hn] at hm; cases hm
        exact hp (by simpa using hl)
      · exact fun h' => h'.2

theorem inv_create {s : St} (h : Inv s) (id : Nat) (labels : List Nat) : Inv (step s (.create id labels)) := by
  simp only [step, stepG]
  cases hn : nodeAt s id with
  | some n => exact h
  | none =>
    simp only
    refine ⟨?_, ?_⟩
    · simp only [List.map_cons, List.nodup_cons]
      exact ⟨nodeAt_none_not_mem hn, h.1⟩
    · intro ix hix
      obtain ⟨hwf, hent⟩ := h.2 ix hix
      refine ⟨hwf, ?_⟩
      intro v' id'
      rw [hent]
      unfold Holds
      simp only [nodeAt, List.find?_cons]
      by_cases hi : id = id'
      · subst hi
        have : nodeAt s id = none := hn
        simp only [nodeAt] at this
        simp [this, lookup]
      · have : ((id == id') = false) := by simpa using hi
        simp [this]

theorem nodeAt_of_mem {s : St} (hnd : (s.nodes.map (·.id)).Nodup) {n : Node} (hn : n ∈ s.nodes) :
    nodeAt s n.id = some n := by
  unfold nodeAt
  generalize s.nodes = l at hnd hn
  induction l with
  | nil => cases hn
  | cons a rest ih =>
    simp only [List.map_cons, List.nodup_cons] at hnd
    simp only [List.find?_cons]
    rcases List.mem_cons.mp hn with rfl | hr
    · simp
    · have : (a.id == n.id) = false := by
        simp only [beq_eq_false_iff_ne, ne_eq]
        intro he
        exact hnd.1 (he ▸ List.mem_map.mpr ⟨n, hr, rfl⟩)
      simp [this, ih hnd.2 hr]

theorem entries_backfill (ns : List Node) (k : Nat) (t0 : Index) (v' : Val) (i' : Nat) :
    (v', i') ∈ entries (ns.foldl (fun t n => insertAll n k t) t0) ↔
      (∃ n ∈ ns, i' = n.id ∧ lookup n.props k = some v') ∨ (v', i') ∈ entries t0 := by
  induction ns generalizing t0 with
  | nil => simp
  | cons a rest ih =>
    simp only [List.foldl_cons, ih, entries_insertAll, List.mem_cons]
    constructor
    · rintro (⟨n, hn, h1⟩ | h1 | h1)
      · exact Or.inl ⟨n, Or.inr hn, h1⟩
      · exact Or.inl ⟨a, Or.inl rfl, h1⟩
      · exact Or.inr h1
    · rintro (⟨n, (rfl | hn), h1⟩ | h1)
      · exact Or.inr (Or.inl h1)
      · exact Or.inl ⟨n, hn, h1⟩
      · exact Or.inr (Or.inr h1)

theorem wf_backfill (ns : List Node) (k : Nat) {t0 : Index} (h : WF t0) :
    WF (ns.foldl (fun t n => insertAll n k t) t0) := by
  induction ns generalizing t0 with
  | nil => exact h
  | cons a rest ih => exact ih (wf_insertAll h a k)

theorem inv_createIndex {s : St} (h : Inv s) (l k : Nat) : Inv (step s (.createIndex l k)) := by
  simp only [step, stepG]
  split
  · exact h
  · refine ⟨h.1, ?_⟩
    intro ix hix
    simp only [List.mem_cons] at hix
    rcases hix with rfl | hix
    · refine ⟨wf_backfill _ _ ⟨by simp [KeysSorted], by intro e he; cases he⟩, ?_⟩
      intro v' id'
      rw [entries_backfill]
      have hnil : (v', id') ∉ entries ([] : Index) := by simp [entries]
      simp only [hnil, or_false, List.mem_filter, List.contains_iff_mem]
      unfold Holds
      constructor
      · rintro ⟨n, ⟨hn, hl⟩, rfl, hv⟩
        exact ⟨n, nodeAt_of_mem h.1 hn, hl, hv⟩
      · rintro ⟨n, hn, hl, hv⟩
        exact ⟨n, ⟨nodeAt_mem hn, hl⟩, (nodeAt_some_id hn).symm, hv⟩
    · exact ixOk_nodes_eq rfl (h.2 ix hix)

theorem inv_step {s : St} (h : Inv s) (op : Op) : Inv (step s op) := by
  cases op with
  | create id labels => exact inv_create h id labels
  | setProp id key v => exact inv_setProp h id key v
  | removeProp id key => exact inv_removeProp h id key
  | delete id => exact inv_delete h id
  | addLabel id l => exact inv_addLabel h id l
  | removeLabel id l => exact inv_removeLabel h id l
  | createIndex l k => exact inv_createIndex h l k
  | dropIndex l k =>
    simp only [step, stepG]
    exact ⟨h.1, fun ix hix => ixOk_nodes_eq rfl (h.2 ix (List.mem_filter.mp hix).1)⟩
  | createEdge id src dst ty =>
    simp only [step, stepG]
    split
    · exact ⟨h.1, fun ix hix => ixOk_nodes_eq rfl (h.2 ix hix)⟩
    · exact h
  | deleteEdge id =>
    simp only [step, stepG]
    exact ⟨h.1, fun ix hix => ixOk_nodes_eq rfl (h.2 ix hix)⟩

theorem inv_foldl {s : St} (h : Inv s) (ops : List Op) : Inv (ops.foldl step s) := by
  induction ops generalizing s with
  | nil => exact h
  | cons op rest ih => exact ih (inv_step h op)

theorem inv_run (ops : List Op) : Inv (run ops) := inv_foldl inv_init ops

end SgModel.IdxScan
