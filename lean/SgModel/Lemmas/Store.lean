import SgModel.Model.Store
/-!
Helper lemmas for the graph-store model (C06), part 1: resizable arrays, rows, and the
invariant of one adjacency direction (`Tier`), independent of which direction it is.
-/
namespace SgModel.Store

/-! ### arrays -/

theorem getD_set_eq {α : Type} (l : List α) (n m : Nat) (v d : α) :
    (l.set n v).getD m d = if m = n ∧ n < l.length then v else l.getD m d := by
  simp only [List.getD_eq_getElem?_getD, List.getElem?_set]
  by_cases h : n = m
  · subst h
    by_cases hl : n < l.length
    · simp [hl]
    · simp [hl, List.getElem?_eq_none (Nat.le_of_not_lt hl)]
  · have : ¬ m = n := fun h' => h h'.symm
    simp [h, this]

theorem getD_setGrow {α : Type} (l : List α) (i j : Nat) (x d : α) :
    (setGrow l i x d).getD j d = if j = i then x else l.getD j d := by
  unfold setGrow
  by_cases hl : i < l.length
  · simp only [hl, if_true, getD_set_eq]
    by_cases h : j = i <;> simp [h, hl]
  · simp only [hl, if_false]
    have hle : l.length ≤ i := Nat.le_of_not_lt hl
    simp only [List.getD_eq_getElem?_getD, List.getElem?_append, List.length_append,
      List.length_replicate, List.getElem?_replicate]
    by_cases h : j = i
    · subst h
      have h1 : ¬ j < l.length + (j - l.length) := by omega
      have h2 : j - (l.length + (j - l.length)) = 0 := by omega
      simp [h1, h2]
    · by_cases hj : j < l.length
      · have h1 : j < l.length + (i - l.length) := by omega
        simp [h, hj, h1]
      · by_cases hji : j < i
        · have h1 : j < l.length + (i - l.length) := by omega
          have h2 : j - l.length < i - l.length := by omega
          simp [h, hj, h1, h2, List.getElem?_eq_none (Nat.le_of_not_lt hj)]
        · have h1 : ¬ j < l.length + (i - l.length) := by omega
          have h2 : ([x] : List α)[j - (l.length + (i - l.length))]? = none := by
            apply List.getElem?_eq_none; simp; omega
          simp [h, hj, h1, h2, List.getElem?_eq_none (Nat.le_of_not_lt hj)]

theorem insertAt_perm {α : Type} (l : List α) (p : Nat) (x : α) : (insertAt l p x).Perm (x :: l) := by
  unfold insertAt
  have h1 : (l.take p ++ x :: l.drop p).Perm (x :: (l.take p ++ l.drop p)) := List.perm_middle
  rw [List.take_append_drop] at h1
  exact h1

theorem insKey_perm (x : Nat × Nat) (r : Row) : (insKey x r).Perm (x :: r) := by
  induction r with
  | nil => exact List.Perm.refl _
  | cons y ys ih =>
    simp only [insKey]
    split
    · exact List.Perm.refl _
    · exact (List.Perm.cons y ih).trans (List.Perm.swap x y ys)

theorem sortRow_perm (r : Row) : (sortRow r).Perm r := by
  induction r with
  | nil => exact List.Perm.refl _
  | cons x xs ih => exact (insKey_perm x (sortRow xs)).trans (List.Perm.cons x ih)

theorem sumLen_nil {α : Type} : sumLen ([] : List (List α)) = 0 := rfl
theorem sumLen_cons {α : Type} (r : List α) (rs : List (List α)) :
    sumLen (r :: rs) = r.length + sumLen rs := by simp [sumLen]

/-- replacing one row changes the total length by the difference -/
theorem sumLen_set {α : Type} (rows : List (List α)) (n : Nat) (r : List α) :
    sumLen (rows.set n r) + (rows.getD n []).length
      = sumLen rows + (if n < rows.length then r.length else 0) := by
  induction rows generalizing n with
  | nil => simp [sumLen]
  | cons a as ih =>
    cases n with
    | zero => simp [sumLen_cons]; omega
    | succ k =>
      have := ih k
      simp only [List.set_cons_succ, sumLen_cons, List.getD_cons_succ, List.length_cons,
        Nat.add_lt_add_iff_right] at this ⊢
      omega

/-- sum of `f` over `0 … N-1` -/
def sumTo (N : Nat) (f : Nat → Nat) : Nat := ((List.range N).map f).sum

theorem sumTo_succ (N : Nat) (f : Nat → Nat) : sumTo (N + 1) f = sumTo N f + f N := by
  simp [sumTo, List.range_succ]

theorem sumTo_add (N : Nat) (f g : Nat → Nat) :
    sumTo N (fun n => f n + g n) = sumTo N f + sumTo N g := by
  induction N with
  | zero => rfl
  | succ k ih => simp only [sumTo_succ, ih]; omega

theorem sumTo_congr (N : Nat) (f g : Nat → Nat) (h : ∀ n, n < N → f n = g n) :
    sumTo N f = sumTo N g := by
  induction N with
  | zero => rfl
  | succ k ih =>
    simp only [sumTo_succ]
    rw [ih (fun n hn => h n (Nat.lt_succ_of_lt hn)), h k (Nat.lt_succ_self k)]

theorem sumTo_zero (N : Nat) : sumTo N (fun _ => 0) = 0 := by
  induction N with
  | zero => rfl
  | succ k ih => simp [sumTo_succ, ih]

/-- total length of the rows = sum of the row lengths over any index bound that covers them -/
theorem sumLen_eq_sumTo {α : Type} (rows : List (List α)) (N : Nat) (h : rows.length ≤ N) :
    sumLen rows = sumTo N (fun n => (rows.getD n []).length) := by
  induction rows generalizing N with
  | nil =>
    have : (fun n => (([] : List (List α)).getD n []).length) = fun _ => 0 := by funext n; simp
    rw [this, sumTo_zero]; rfl
  | cons a as ih =>
    cases N with
    | zero => simp at h
    | succ M =>
      have hM : as.length ≤ M := by simpa using h
      rw [sumLen_cons, ih M hM]
      -- shift the index
      have shift : ∀ (K : Nat) (g : Nat → Nat), sumTo (K + 1) g = g 0 + sumTo K (fun n => g (n + 1)) := by
        intro K g
        induction K with
        | zero => simp [sumTo]
        | succ k ihk => rw [sumTo_succ, ihk, sumTo_succ]; omega
      rw [shift]
      simp

/-- partition of a list by a bounded key -/
theorem sumTo_filter_length {α : Type} (l : List α) (f : α → Nat) (N : Nat)
    (h : ∀ x ∈ l, f x < N) :
    sumTo N (fun n => (l.filter (fun x => f x == n)).length) = l.length := by
  induction l with
  | nil => simp [sumTo_zero]
  | cons a as ih =>
    have ha : f a < N := h a (List.mem_cons_self ..)
    have has := ih (fun x hx => h x (List.mem_cons_of_mem _ hx))
    have hsplit : ∀ n, ((a :: as).filter (fun x => f x == n)).length
        = (if f a = n then 1 else 0) + (as.filter (fun x => f x == n)).length := by
      intro n
      by_cases hn : f a = n
      · simp [List.filter_cons, hn]; omega
      · simp [List.filter_cons, hn]
    rw [sumTo_congr N _ _ (fun n _ => hsplit n), sumTo_add, has]
    have hone : ∀ K, sumTo K (fun n => if f a = n then 1 else 0) = if f a < K then 1 else 0 := by
      intro K
      induction K with
      | zero => simp [sumTo]
      | succ k ihk =>
        rw [sumTo_succ, ihk]
        by_cases h1 : f a < k
        · have : ¬ f a = k := by omega
          simp [h1, this]; omega
        · by_cases h2 : f a = k
          · simp [h2]
          · have : ¬ f a < k + 1 := by omega
            simp [h1, h2, this]
    rw [hone, if_pos ha]; simp; omega

/-! ### rows of a tier -/

namespace Tier

theorem frozenRow_length (T : Tier) (n : Nat) :
    (T.frozenRow n).length = ((T.segs.map (fun seg => (seg.getD n []).length)).sum) := by
  unfold frozenRow
  induction T.segs with
  | nil => rfl
  | cons a as ih => simp [List.flatMap_cons, ih]

theorem row_ensure (T : Tier) (n m : Nat) : (T.ensure n).row m = T.row m := by
  unfold ensure
  split
  · rfl
  · simp only [row, frozenRow]
    congr 1
    simp only [List.getD_eq_getElem?_getD]
    by_cases hm : m < T.buf.length
    · rw [List.getElem?_append_left hm]
    · have hle := Nat.le_of_not_lt hm
      rw [List.getElem?_append_right hle, List.getElem?_eq_none hle]
      simp only [List.getElem?_replicate]
      split <;> rfl

theorem bufCount_ensure (T : Tier) (n : Nat) : (T.ensure n).bufCount = T.bufCount := by
  unfold ensure bufCount
  split
  · rfl
  · simp [sumLen]

theorem row_insertSorted_ne (T : Tier) (n x e m : Nat) (h : m ≠ n) :
    (T.insertSorted n x e).row m = T.row m := by
  simp only [insertSorted, row, frozenRow, getD_setGrow, h, if_false]

theorem row_insertSorted_perm (T : Tier) (n x e : Nat) :
    ((T.insertSorted n x e).row n).Perm ((x, e) :: T.row n) := by
  simp only [insertSorted, row, frozenRow, getD_setGrow, if_true]
  exact (List.Perm.append_left _ (insertAt_perm _ _ _)).trans List.perm_middle

theorem row_push_ne (T : Tier) (n x e m : Nat) (h : m ≠ n) : (T.push n x e).row m = T.row m := by
  simp only [push, row, frozenRow, getD_setGrow, h, if_false]

theorem row_push_perm (T : Tier) (n x e : Nat) :
    ((T.push n x e).row n).Perm ((x, e) :: T.row n) := by
  simp only [push, row, frozenRow, getD_setGrow, if_true]
  rw [← List.append_assoc]
  exact List.perm_append_singleton _ _

theorem frozenRow_remove (T : Tier) (n e m : Nat) :
    (T.remove n e).frozenRow m
      = if m = n then (T.frozenRow n).filter (fun p => p.2 != e) else T.frozenRow m := by
  simp only [remove, frozenRow]
  induction T.segs with
  | nil => simp
  | cons a as ih =>
    simp only [List.map_cons, List.flatMap_cons, ih, getD_set_eq]
    by_cases h : m = n
    · subst h
      simp only [true_and, if_true, List.filter_append]
      congr 1
      by_cases hl : m < a.length
      · simp [hl]
      · have : a.getD m [] = [] := by
          simp [List.getD_eq_getElem?_getD, List.getElem?_eq_none (Nat.le_of_not_lt hl)]
        simp [hl, this]
    · simp [h]

theorem row_remove (T : Tier) (n e m : Nat) :
    (T.remove n e).row m = if m = n then (T.row n).filter (fun p => p.2 != e) else T.row m := by
  unfold row
  rw [frozenRow_remove]
  have hb : (T.remove n e).buf.getD m []
      = if m = n then (T.buf.getD n []).filter (fun p => p.2 != e) else T.buf.getD m [] := by
    simp only [remove, getD_set_eq]
    by_cases h : m = n
    · subst h
      by_cases hl : m < T.buf.length
      · simp [hl]
      · have : T.buf.getD m [] = [] := by
          simp [List.getD_eq_getElem?_getD, List.getElem?_eq_none (Nat.le_of_not_lt hl)]
        simp [hl, this]
    · simp [h]
  rw [hb]
  by_cases h : m = n
  · subst h; simp [List.filter_append]
  · simp [h]

theorem row_compact_perm (T : Tier) (m : Nat) : ((T.compact).row m).Perm (T.row m) := by
  simp only [compact, row, frozenRow, List.flatMap_append, List.flatMap_cons, List.flatMap_nil,
    List.append_nil]
  have h1 : (T.buf.map sortRow).getD m [] = sortRow (T.buf.getD m []) := by
    simp only [List.getD_eq_getElem?_getD, List.getElem?_map]
    cases T.buf[m]? <;> simp [sortRow]
  have h2 : (T.buf.map (fun _ => ([] : Row))).getD m [] = [] := by
    simp only [List.getD_eq_getElem?_getD, List.getElem?_map]
    cases T.buf[m]? <;> simp
  rw [h1, h2, List.append_nil]
  exact List.Perm.append_left _ (sortRow_perm _)

end Tier

/-! ### the invariant of one adjacency direction

`key e = some (n, x)` says: relationship `e` is live and belongs in row `n` with neighbour
`x` (outgoing: `n` = source, `x` = target; incoming: the other way round). -/

structure TierInv (T : Tier) (key : Nat → Option (Nat × Nat)) : Prop where
  sound : ∀ n x e, (x, e) ∈ T.row n → key e = some (n, x)
  nodup : ∀ n, ((T.row n).map (·.2)).Nodup
  complete : ∀ e n x, key e = some (n, x) → (x, e) ∈ T.row n
  total_eq : T.total = (T.segs.map sumLen).sum

theorem TierInv.init (key : Nat → Option (Nat × Nat)) (h : ∀ e, key e = none) :
    TierInv {} key := by
  refine ⟨?_, ?_, ?_, rfl⟩
  · intro n x e hm; simp [Tier.row, Tier.frozenRow] at hm
  · intro n; simp [Tier.row, Tier.frozenRow]
  · intro e n x hk; rw [h e] at hk; cases hk

/-- an update that permutes every row and keeps the frozen part keeps the invariant -/
theorem TierInv.of_perm {T T' : Tier} {key : Nat → Option (Nat × Nat)} (h : TierInv T key)
    (hrow : ∀ m, (T'.row m).Perm (T.row m)) (htot : T'.total = (T'.segs.map sumLen).sum) :
    TierInv T' key := by
  refine ⟨?_, ?_, ?_, htot⟩
  · intro n x e hm; exact h.sound n x e ((hrow n).mem_iff.mp hm)
  · intro n; exact ((hrow n).map (·.2)).nodup_iff.mpr (h.nodup n)
  · intro e n x hk; exact (hrow n).mem_iff.mpr (h.complete e n x hk)

theorem TierInv.ensure {T : Tier} {key} (h : TierInv T key) (n : Nat) : TierInv (T.ensure n) key := by
  apply h.of_perm
  · intro m; rw [Tier.row_ensure]
  · have : (T.ensure n).segs = T.segs ∧ (T.ensure n).total = T.total := by
      unfold Tier.ensure; split <;> exact ⟨rfl, rfl⟩
    rw [this.1, this.2]; exact h.total_eq

theorem sumLen_map_sort (rows : List Row) : sumLen (rows.map sortRow) = sumLen rows := by
  induction rows with
  | nil => rfl
  | cons a as ih => simp only [List.map_cons, sumLen_cons, ih, (sortRow_perm a).length_eq]

theorem TierInv.compact {T : Tier} {key} (h : TierInv T key) : TierInv T.compact key := by
  apply h.of_perm (fun m => Tier.row_compact_perm T m)
  simp only [Tier.compact, List.map_append, List.sum_append, List.map_cons, List.map_nil,
    List.sum_cons, List.sum_nil, Nat.add_zero, sumLen_map_sort, h.total_eq]

/-- adding an entry for a relationship that was not live -/
theorem TierInv.add {T T' : Tier} {key : Nat → Option (Nat × Nat)} (h : TierInv T key)
    (n x e : Nat) (hfresh : key e = none)
    (hne : ∀ m, m ≠ n → T'.row m = T.row m)
    (hn : (T'.row n).Perm ((x, e) :: T.row n))
    (hseg : T'.segs = T.segs) (htot : T'.total = T.total) :
    TierInv T' (fun e' => if e' = e then some (n, x) else key e') := by
  have hnot : ∀ m y, (y, e) ∉ T.row m := by
    intro m y hm
    have := h.sound m y e hm
    rw [hfresh] at this; cases this
  refine ⟨?_, ?_, ?_, ?_⟩
  · intro m y e' hm
    by_cases hmn : m = n
    · subst hmn
      have := (hn.mem_iff).mp hm
      rcases List.mem_cons.mp this with heq | hold
      · cases heq; simp
      · have hk := h.sound m y e' hold
        have : e' ≠ e := by
          intro he; subst he; exact hnot m y hold
        simp [this, hk]
    · rw [hne m hmn] at hm
      have hk := h.sound m y e' hm
      have : e' ≠ e := by
        intro he; subst he; exact hnot m y hm
      simp [this, hk]
  · intro m
    by_cases hmn : m = n
    · subst hmn
      rw [(hn.map (·.2)).nodup_iff]
      simp only [List.map_cons, List.nodup_cons]
      refine ⟨?_, h.nodup m⟩
      intro hmem
      rcases List.mem_map.mp hmem with ⟨p, hp, hpe⟩
      have : p = (p.1, e) := by rw [← hpe]
      rw [this] at hp
      exact hnot m p.1 hp
    · rw [hne m hmn]; exact h.nodup m
  · intro e' m y hk
    by_cases he : e' = e
    · subst he
      simp only [if_true, Option.some.injEq, Prod.mk.injEq] at hk
      obtain ⟨h1, h2⟩ := hk
      subst h1; subst h2
      exact hn.mem_iff.mpr (List.mem_cons_self ..)
    · simp only [he, if_false] at hk
      have hold := h.complete e' m y hk
      by_cases hmn : m = n
      · subst hmn; exact hn.mem_iff.mpr (List.mem_cons_of_mem _ hold)
      · rw [hne m hmn]; exact hold
  · rw [hseg, htot]; exact h.total_eq

theorem TierInv.insertSorted {T : Tier} {key} (h : TierInv T key) (n x e : Nat) (hf : key e = none) :
    TierInv (T.insertSorted n x e) (fun e' => if e' = e then some (n, x) else key e') :=
  h.add n x e hf (fun m hm => Tier.row_insertSorted_ne T n x e m hm)
    (Tier.row_insertSorted_perm T n x e) rfl rfl

theorem TierInv.push {T : Tier} {key} (h : TierInv T key) (n x e : Nat) (hf : key e = none) :
    TierInv (T.push n x e) (fun e' => if e' = e then some (n, x) else key e') :=
  h.add n x e hf (fun m hm => Tier.row_push_ne T n x e m hm)
    (Tier.row_push_perm T n x e) rfl rfl

theorem filter_ne_length_add_countP (r : Row) (e : Nat) :
    (r.filter (fun p => p.2 != e)).length + r.countP (fun p => p.2 == e) = r.length := by
  induction r with
  | nil => rfl
  | cons a as ih =>
    by_cases h : a.2 = e <;> simp [List.filter_cons, List.countP_cons, h] <;> omega

theorem sum_map_set_filter (segs : List Seg) (n e : Nat) :
    ((segs.map (fun seg => seg.set n ((seg.getD n []).filter (fun p => p.2 != e)))).map sumLen).sum
      + ((segs.flatMap (fun seg => seg.getD n [])).countP (fun p => p.2 == e))
      = (segs.map sumLen).sum := by
  induction segs with
  | nil => rfl
  | cons a as ih =>
    simp only [List.map_cons, List.sum_cons, List.flatMap_cons, List.countP_append]
    have h1 := sumLen_set a n ((a.getD n []).filter (fun p => p.2 != e))
    have h2 := filter_ne_length_add_countP (a.getD n []) e
    by_cases hl : n < a.length
    · simp only [hl, if_true] at h1
      omega
    · have hr : a.getD n [] = [] := by
        simp [List.getD_eq_getElem?_getD, List.getElem?_eq_none (Nat.le_of_not_lt hl)]
      rw [hr] at h1 h2 ⊢
      simp only [hl, if_false, List.filter_nil, List.length_nil, List.countP_nil, Nat.add_zero] at h1 h2 ⊢
      omega

/-- removing a live relationship from its row -/
theorem TierInv.remove {T : Tier} {key : Nat → Option (Nat × Nat)} (h : TierInv T key)
    (n x e : Nat) (hk : key e = some (n, x)) :
    TierInv (T.remove n e) (fun e' => if e' = e then none else key e') := by
  refine ⟨?_, ?_, ?_, ?_⟩
  · intro m y e' hm
    rw [Tier.row_remove] at hm
    by_cases hmn : m = n
    · subst hmn
      simp only [if_true, List.mem_filter, bne_iff_ne, ne_eq] at hm
      simp [hm.2, h.sound m y e' hm.1]
    · simp only [hmn, if_false] at hm
      have hk' := h.sound m y e' hm
      have : e' ≠ e := by
        intro he; subst he
        rw [hk] at hk'
        simp only [Option.some.injEq, Prod.mk.injEq] at hk'
        exact hmn hk'.1.symm
      simp [this, hk']
  · intro m
    rw [Tier.row_remove]
    by_cases hmn : m = n
    · subst hmn
      simp only [if_true]
      exact (List.Nodup.sublist (List.Sublist.map _ List.filter_sublist) (h.nodup m))
    · simp only [hmn, if_false]; exact h.nodup m
  · intro e' m y hk'
    by_cases he : e' = e
    · simp [he] at hk'
    · simp only [he, if_false] at hk'
      have hold := h.complete e' m y hk'
      rw [Tier.row_remove]
      by_cases hmn : m = n
      · subst hmn
        simp only [if_true, List.mem_filter, bne_iff_ne, ne_eq]
        exact ⟨hold, he⟩
      · simp only [hmn, if_false]; exact hold
  · have := sum_map_set_filter T.segs n e
    simp only [Tier.remove, Tier.frozenRow]
    rw [h.total_eq]
    omega

/-- changing `key` on relationships that are not in any row and not live -/
theorem TierInv.congr {T : Tier} {key key' : Nat → Option (Nat × Nat)} (h : TierInv T key)
    (heq : ∀ e, key' e = key e) : TierInv T key' := by
  have : key' = key := funext heq
  rw [this]; exact h

/-! ### counting: frozen total + buffer = number of live relationships -/

theorem mem_le_sum (l : List Nat) (x : Nat) (h : x ∈ l) : x ≤ l.sum := by
  induction l with
  | nil => cases h
  | cons a as ih =>
    rcases List.mem_cons.mp h with rfl | h'
    · simp
    · have := ih h'; simp; omega

theorem segs_sum_eq (segs : List Seg) (N : Nat) (hs : ∀ seg ∈ segs, seg.length ≤ N) :
    (segs.map sumLen).sum = sumTo N (fun n => (segs.map (fun seg => (seg.getD n []).length)).sum) := by
  induction segs with
  | nil => simp [sumTo_zero]
  | cons a as ih =>
    simp only [List.map_cons, List.sum_cons]
    rw [sumTo_add, ← sumLen_eq_sumTo a N (hs a (List.mem_cons_self ..)),
      ih (fun seg hseg => hs seg (List.mem_cons_of_mem _ hseg))]

theorem Tier.count_eq_sumTo (T : Tier) (N : Nat) (hb : T.buf.length ≤ N)
    (hs : ∀ seg ∈ T.segs, seg.length ≤ N) :
    (T.segs.map sumLen).sum + T.bufCount = sumTo N (fun n => (T.row n).length) := by
  have hrow : ∀ n, (T.row n).length
      = (T.segs.map (fun seg => (seg.getD n []).length)).sum + (T.buf.getD n []).length := by
    intro n; simp [Tier.row, Tier.frozenRow_length]
  rw [sumTo_congr N _ _ (fun n _ => hrow n), sumTo_add]
  unfold Tier.bufCount
  rw [← sumLen_eq_sumTo T.buf N hb]
  congr 1
  exact segs_sum_eq T.segs N hs

/-- a bound on every row index that can be non-empty -/
def Tier.width (T : Tier) : Nat := T.buf.length + (T.segs.map List.length).sum

theorem Tier.row_nil_of_width (T : Tier) (n : Nat) (h : T.width ≤ n) : T.row n = [] := by
  have hb : T.buf.length ≤ n := by unfold Tier.width at h; omega
  have hsegs : ∀ seg ∈ T.segs, seg.length ≤ n := by
    intro seg hseg
    have : seg.length ≤ (T.segs.map List.length).sum :=
      mem_le_sum _ _ (List.mem_map_of_mem hseg)
    unfold Tier.width at h; omega
  simp only [Tier.row, Tier.frozenRow, List.append_eq_nil_iff, List.flatMap_eq_nil_iff]
  refine ⟨fun seg hseg => ?_, ?_⟩
  · simp [List.getD_eq_getElem?_getD, List.getElem?_eq_none (hsegs seg hseg)]
  · simp [List.getD_eq_getElem?_getD, List.getElem?_eq_none hb]

theorem TierInv.count {T : Tier} {key : Nat → Option (Nat × Nat)} (h : TierInv T key)
    (ids : List Nat) (hnd : ids.Nodup) (hids : ∀ e, e ∈ ids ↔ (key e).isSome) :
    T.total + T.bufCount = ids.length := by
  let N := T.width
  let rowOf : Nat → Nat := fun e => match key e with | some (n, _) => n | none => 0
  have hb : T.buf.length ≤ N := by show _ ≤ T.width; unfold Tier.width; omega
  have hs : ∀ seg ∈ T.segs, seg.length ≤ N := by
    intro seg hseg
    have : seg.length ≤ (T.segs.map List.length).sum :=
      mem_le_sum _ _ (List.mem_map_of_mem hseg)
    show _ ≤ T.width; unfold Tier.width; omega
  rw [h.total_eq, Tier.count_eq_sumTo T N hb hs]
  have hrow : ∀ n, (T.row n).length = (ids.filter (fun e => rowOf e == n)).length := by
    intro n
    have hp : ((T.row n).map (·.2)).Perm (ids.filter (fun e => rowOf e == n)) := by
      rw [List.perm_ext_iff_of_nodup (h.nodup n) (hnd.filter _)]
      intro e
      simp only [List.mem_map, List.mem_filter, beq_iff_eq]
      constructor
      · rintro ⟨p, hp, rfl⟩
        have hk := h.sound n p.1 p.2 hp
        refine ⟨(hids p.2).mpr (by simp [hk]), ?_⟩
        show (match key p.2 with | some (n, _) => n | none => 0) = n
        rw [hk]
      · rintro ⟨hmem, hr⟩
        have hsome := (hids e).mp hmem
        cases hke : key e with
        | none => simp [hke] at hsome
        | some q =>
          obtain ⟨m, y⟩ := q
          have : m = n := by
            have : rowOf e = m := by show (match key e with | some (n, _) => n | none => 0) = m; rw [hke]
            omega
          subst this
          exact ⟨(y, e), h.complete e m y hke, rfl⟩
    have := hp.length_eq
    simpa using this
  rw [sumTo_congr N _ _ (fun n _ => hrow n)]
  apply sumTo_filter_length
  intro e he
  have hsome := (hids e).mp he
  cases hke : key e with
  | none => simp [hke] at hsome
  | some q =>
    obtain ⟨m, y⟩ := q
    show (match key e with | some (n, _) => n | none => 0) < T.width
    rw [hke]
    have hm := h.complete e m y hke
    apply Nat.lt_of_not_le
    intro hle
    rw [Tier.row_nil_of_width T m hle] at hm
    cases hm

end SgModel.Store
