import SgModel.Lemmas.UniqInv2
/-!
Constraint creation, the executable duplicate check versus its logical form, and the
multi-property CREATE loop (continuation of `UniqInv2.lean`).
-/
namespace SgModel.Uniq

/-! ### `hasDupVal` versus `UniqL` -/

theorem hasDupVal_false_iff (hs : List (Val × Nat)) :
    hasDupVal hs = false ↔ hs.Pairwise (fun a b => a.1 ≠ b.1) := by
  induction hs with
  | nil => simp [hasDupVal]
  | cons e rest ih =>
    obtain ⟨v, n⟩ := e
    simp only [hasDupVal, Bool.or_eq_false_iff, List.any_eq_false, decide_eq_true_eq, ih,
      List.pairwise_cons]
    constructor
    · rintro ⟨h1, h2⟩; exact ⟨fun b hb e => h1 b hb e.symm, h2⟩
    · rintro ⟨h1, h2⟩; exact ⟨fun b hb e => h1 b hb e.symm, h2⟩

theorem pw_fst_iff {hs : List (Val × Nat)} (hnd : hs.Pairwise (fun a b => a.2 ≠ b.2)) :
    hs.Pairwise (fun a b => a.1 ≠ b.1) ↔ ∀ a ∈ hs, ∀ b ∈ hs, a.1 = b.1 → a.2 = b.2 := by
  induction hs with
  | nil => simp
  | cons e rest ih =>
    simp only [List.pairwise_cons] at hnd ⊢
    rw [ih hnd.2]
    constructor
    · rintro ⟨h1, h2⟩ a ha b hb hab
      simp only [List.mem_cons] at ha hb
      rcases ha with rfl | ha <;> rcases hb with rfl | hb
      · rfl
      · exact absurd hab (h1 b hb)
      · exact absurd hab.symm (h1 a ha)
      · exact h2 a ha b hb hab
    · intro h
      refine ⟨fun b hb hab => hnd.1 b hb (h e (List.mem_cons_self) b (List.mem_cons_of_mem _ hb) hab), ?_⟩
      intro a ha b hb hab
      exact h a (List.mem_cons_of_mem _ ha) b (List.mem_cons_of_mem _ hb) hab

theorem mem_holdersOf {nodes : List Node} {l key : Nat} {w : Val} {m : Nat} :
    (w, m) ∈ holdersOf nodes l key ↔ Holds nodes l key w m := by
  simp only [holdersOf, List.mem_filterMap, Holds]
  constructor
  · rintro ⟨x, hx, h⟩
    by_cases hl : l ∈ x.labels
    · simp [hl, Option.map_eq_some_iff] at h
      obtain ⟨v, hv, rfl, rfl⟩ := h
      exact ⟨x, hx, rfl, hl, hv⟩
    · simp [hl] at h
  · rintro ⟨x, hx, rfl, hl, hv⟩
    exact ⟨x, hx, by simp [hl, hv]⟩

theorem holdersOf_ids {nodes : List Node} (hi : IdsNodup nodes) (l key : Nat) :
    (holdersOf nodes l key).Pairwise (fun a b => a.2 ≠ b.2) := by
  unfold holdersOf
  refine List.Pairwise.filterMap _ ?_ hi
  intro a a' hne b hb b' hb'
  by_cases h1 : l ∈ a.labels <;> by_cases h2 : l ∈ a'.labels
  · simp [h1, Option.map_eq_some_iff] at hb
    simp [h2, Option.map_eq_some_iff] at hb'
    obtain ⟨_, _, rfl⟩ := hb
    obtain ⟨_, _, rfl⟩ := hb'
    exact hne
  · simp [h2] at hb'
  · simp [h1] at hb
  · simp [h1] at hb

theorem hasDupVal_holdersOf {nodes : List Node} (hi : IdsNodup nodes) (l key : Nat) :
    hasDupVal (holdersOf nodes l key) = false ↔ UniqL nodes l key := by
  rw [hasDupVal_false_iff, pw_fst_iff (holdersOf_ids hi l key), uniqL_iff_holds]
  constructor
  · intro h v m m' hm hm'
    exact h (v, m) (mem_holdersOf.mpr hm) (v, m') (mem_holdersOf.mpr hm') rfl
  · rintro h ⟨v, m⟩ ha ⟨v', m'⟩ hb hab
    simp only at hab; subst hab
    exact h v m m' (mem_holdersOf.mp ha) (mem_holdersOf.mp hb)

/-! ### constraint creation -/

theorem mem_foldl_ins (hs : List (Val × Nat)) (idx : Index) (e : Val × Nat) :
    e ∈ hs.foldl (fun i e => ins i (some e.1) e.2) idx ↔ e ∈ idx ∨ e ∈ hs := by
  induction hs generalizing idx with
  | nil => simp
  | cons h rest ih =>
    simp only [List.foldl_cons, ih, mem_ins, Option.some.injEq, List.mem_cons]
    constructor
    · rintro ((h1 | ⟨h1, h2⟩) | h1)
      · exact Or.inl h1
      · exact Or.inr (Or.inl (Prod.ext h1.symm h2))
      · exact Or.inr (Or.inr h1)
    · rintro (h1 | rfl | h1)
      · exact Or.inl (Or.inl h1)
      · exact Or.inl (Or.inr ⟨rfl, rfl⟩)
      · exact Or.inr h1

theorem inv_createConstraint {s s' : State} (hi : Inv s) {l key : Nat}
    (h : createConstraint s l key = some s') : Inv s' := by
  unfold createConstraint at h
  simp only at h
  split at h
  · simp at h
  · rename_i hd
    have hd' : hasDupVal (holdersOf s.nodes l key) = false := by simpa using hd
    have hU := (hasDupVal_holdersOf hi.ids l key).mp hd'
    simp only [Option.some.injEq] at h
    subst h
    refine ⟨hi.ids, hi.lt, ?_, ?_⟩
    · intro c' hc' w m
      simp only [List.mem_map] at hc'
      obtain ⟨c, hc, rfl⟩ := hc'
      have hc0 : (c ∈ s.cons) ∨ (c = { label := l, key := key, idx := [] }) := by
        split at hc
        · exact Or.inl hc
        · simp only [List.mem_append, List.mem_singleton] at hc; exact hc
      by_cases hm : (decide (c.label = l) && decide (c.key = key)) = true
      · simp only [hm, if_true]
        simp only [Bool.and_eq_true, decide_eq_true_eq] at hm
        rw [mem_foldl_ins, mem_holdersOf, hm.1, hm.2]
        rcases hc0 with hc0 | rfl
        · have := hi.exact c hc0 w m
          rw [hm.1, hm.2] at this
          rw [this]; simp
        · simp
      · simp only [hm, if_false]
        rcases hc0 with hc0 | rfl
        · exact hi.exact c hc0 w m
        · simp at hm
    · intro c' hc'
      simp only [List.mem_map] at hc'
      obtain ⟨c, hc, hcc⟩ := hc'
      have hlk : c'.label = c.label ∧ c'.key = c.key := by
        rw [← hcc]; split <;> simp
      rw [hlk.1, hlk.2]
      have hc0 : (c ∈ s.cons) ∨ (c = { label := l, key := key, idx := [] }) := by
        split at hc
        · exact Or.inl hc
        · simp only [List.mem_append, List.mem_singleton] at hc; exact hc
      rcases hc0 with hc0 | rfl
      · exact hi.uniq c hc0
      · exact hU

/-! ### the property loop of CREATE -/

def lks (s : State) : List (Nat × Nat) := s.cons.map (fun c => (c.label, c.key))

def foldProps (p : Props) (props : List (Nat × Option Val)) : Props :=
  props.foldl (fun p kv => pput p kv.1 kv.2) p

/-- the node list after writing all of `props` to node `n` unconditionally -/
def putAll (nodes : List Node) (n : Nat) (props : List (Nat × Option Val)) : List Node :=
  mapNode (fun x => { x with props := foldProps x.props props }) nodes n

theorem pget_foldProps_other (p : Props) (props : List (Nat × Option Val)) (k : Nat)
    (hk : ∀ kv ∈ props, kv.1 ≠ k) : pget (foldProps p props) k = pget p k := by
  induction props generalizing p with
  | nil => rfl
  | cons kv rest ih =>
    simp only [foldProps, List.foldl_cons]
    have := ih (pput p kv.1 kv.2) (fun x hx => hk x (List.mem_cons_of_mem _ hx))
    simp only [foldProps] at this
    rw [this, pget_pput]
    simp [hk kv List.mem_cons_self]

theorem mapNode_mapNode (f g : Node → Node) (hf : ∀ x, (f x).id = x.id) (l : List Node) (n : Nat) :
    mapNode g (mapNode f l n) n = mapNode (fun x => g (f x)) l n := by
  induction l with
  | nil => rfl
  | cons z rest ih =>
    by_cases hz : z.id = n
    · simp [mapNode, hz, hf]
    · simp [mapNode, hz, ih]

theorem dropNode_mapNode (f : Node → Node) (hf : ∀ x, (f x).id = x.id) (l : List Node) (n : Nat) :
    dropNode (mapNode f l n) n = dropNode l n := by
  induction l with
  | nil => rfl
  | cons z rest ih =>
    by_cases hz : z.id = n
    · simp [mapNode, dropNode, hz, hf]
    · simp [mapNode, dropNode, hz, ih]

theorem lks_writeProp (s : State) (node : Node) (key : Nat) (v : Option Val) :
    lks (writeProp s node key v) = lks s := by
  simp only [lks, writeProp, List.map_map]
  apply List.map_congr_left
  intro c _
  simp only [Function.comp]
  split <;> rfl

theorem setProp_eq (s : State) (n key : Nat) (v : Option Val) :
    setProp s n key v = match findNode s.nodes n with
      | none => some s
      | some node =>
        if s.cons.any (fun c => watches c node key && blocked c v node.id) then none
        else some (writeProp s node key v) := by
  unfold setProp
  cases hf : findNode s.nodes n with
  | none => rfl
  | some node =>
    have := (findNode_some hf).2
    subst this
    rfl

theorem mapNode_id' (f : Node → Node) (hf : ∀ x, f x = x) (l : List Node) (n : Nat) : mapNode f l n = l := by
  induction l with
  | nil => rfl
  | cons z rest ih => by_cases hz : z.id = n <;> simp [mapNode, hz, hf, ih]

/-- postcondition of the property loop -/
def SetAllPost (s : State) (node : Node) (props : List (Nat × Option Val)) (r : State × Bool) : Prop :=
  Inv r.1 ∧ r.1.next = s.next ∧ lks r.1 = lks s
  ∧ dropNode r.1.nodes node.id = dropNode s.nodes node.id
  ∧ (r.2 = true → r.1.nodes = putAll s.nodes node.id props)
  ∧ (r.2 = false → ∃ lk ∈ lks s, ¬ UniqL (putAll s.nodes node.id props) lk.1 lk.2)

/-- What the property loop does on a live node `n`, keys pairwise distinct:
either everything was written, or the loop stopped and the unconditional write of *all*
properties has a duplicate. -/
theorem setAllPartial_spec (props : List (Nat × Option Val))
    (hk : props.Pairwise (fun a b => a.1 ≠ b.1)) :
    ∀ (s : State), Inv s → ∀ node ∈ s.nodes,
      SetAllPost s node props (setAllPartial s node.id props) := by
  induction props with
  | nil =>
    intro s hi node hn
    refine ⟨hi, rfl, rfl, rfl, ?_, ?_⟩
    · intro _
      show s.nodes = putAll s.nodes node.id []
      exact (mapNode_id' _ (fun _ => rfl) _ _).symm
    · intro h; simp [setAllPartial] at h
  | cons kv rest ih =>
    obtain ⟨k, v⟩ := kv
    intro s hi node hn
    simp only [List.pairwise_cons] at hk
    have hfind := findNode_of_mem hi.ids hn
    have hr : setAllPartial s node.id ((k, v) :: rest) =
        if s.cons.any (fun c => watches c node k && blocked c v node.id) = true then (s, false)
        else setAllPartial (writeProp s node k v) node.id rest := by
      simp only [setAllPartial]
      rw [setProp_eq, hfind]
      by_cases hb : s.cons.any (fun c => watches c node k && blocked c v node.id) = true
      · simp only [hb, if_true]
      · simp [hb]
    rw [hr]
    by_cases hb : s.cons.any (fun c => watches c node k && blocked c v node.id) = true
    · -- refused here
      rw [if_pos hb]
      refine ⟨hi, rfl, rfl, rfl, fun h => by simp at h, ?_⟩
      intro _
      obtain ⟨c, hc, hwb⟩ := List.any_eq_true.mp hb
      simp only [Bool.and_eq_true] at hwb
      obtain ⟨hw, hbl⟩ := hwb
      simp only [watches, Bool.and_eq_true, decide_eq_true_eq, contains_iff] at hw
      obtain ⟨w, hv, m, hne, hh⟩ := (blocked_iff hi hc v node.id).mp hbl
      refine ⟨(c.label, c.key), by simp only [lks, List.mem_map]; exact ⟨c, hc, rfl⟩, ?_⟩
      rw [uniqL_iff_holds]
      intro hu
      have hfp : pget (foldProps node.props ((k, v) :: rest)) c.key = some w := by
        simp only [foldProps, List.foldl_cons]
        have := pget_foldProps_other (pput node.props k v) rest c.key
          (fun x hx => by rw [hw.1]; exact (hk.1 x hx).symm)
        simp only [foldProps] at this
        rw [this, pget_pput]; simp [hw.1, hv]
      have h1 : Holds (putAll s.nodes node.id ((k, v) :: rest)) c.label c.key w node.id := by
        unfold putAll; rw [holds_mapNode hi.ids hn _ rfl]; simp [hw.2, hfp]
      have h2 : Holds (putAll s.nodes node.id ((k, v) :: rest)) c.label c.key w m := by
        unfold putAll; rw [holds_mapNode hi.ids hn _ rfl]; simp [hne, hh]
      exact hne (hu w m node.id h2 h1)
    · rw [if_neg hb]
      have hb' : s.cons.any (fun c => watches c node k && blocked c v node.id) = false := by simpa using hb
      have hi' := inv_writeProp hi hn k v hb'
      have hn' : ({ node with props := pput node.props k v } : Node) ∈ (writeProp s node k v).nodes :=
        (inv_writeProp_nodes hi hn k v).mpr (Or.inl rfl)
      obtain ⟨r1, r2, r3, r4, r5, r6⟩ := ih hk.2 (writeProp s node k v) hi' _ hn'
      have hput : putAll (writeProp s node k v).nodes node.id rest = putAll s.nodes node.id ((k, v) :: rest) :=
        mapNode_mapNode (fun x => { x with props := pput x.props k v })
          (fun x => { x with props := foldProps x.props rest }) (fun _ => rfl) s.nodes node.id
      refine ⟨r1, r2, by rw [r3, lks_writeProp], ?_, ?_, ?_⟩
      · rw [r4]
        exact dropNode_mapNode (fun x => { x with props := pput x.props k v }) (fun _ => rfl) s.nodes node.id
      · intro h; rw [r5 h]; exact hput
      · intro h
        obtain ⟨lk, hlk, hnu⟩ := r6 h
        rw [lks_writeProp] at hlk
        rw [hput] at hnu
        exact ⟨lk, hlk, hnu⟩

end SgModel.Uniq
