import SgModel.Model.Resp
/-!
Helper lemmas for the RESP model (C20, C21, C22): decimal numerals, `readLine`, UTF-8
validity under `sanit`, the decoder on encoded values and on their strict prefixes.
Core Lean only.
-/
namespace SgModel.Resp

/-! ### digits -/

theorem digit_cases (P : Nat → Prop) (h0 : P 0) (h1 : P 1) (h2 : P 2) (h3 : P 3) (h4 : P 4)
    (h5 : P 5) (h6 : P 6) (h7 : P 7) (h8 : P 8) (h9 : P 9) : ∀ k, k < 10 → P k := by
  intro k hk
  match k, hk with
  | 0, _ => exact h0 | 1, _ => exact h1 | 2, _ => exact h2 | 3, _ => exact h3 | 4, _ => exact h4
  | 5, _ => exact h5 | 6, _ => exact h6 | 7, _ => exact h7 | 8, _ => exact h8 | 9, _ => exact h9
  | k + 10, h => omega

theorem digitOf_spec (n : Nat) :
    isDigit (digitOf n) = true ∧ (digitOf n).toNat - 48 = n % 10 := by
  have hk : n % 10 < 10 := Nat.mod_lt _ (by decide)
  unfold digitOf
  revert hk
  generalize n % 10 = k
  intro hk
  revert k
  apply digit_cases <;> decide

theorem isDigit_digitOf (n : Nat) : isDigit (digitOf n) = true := (digitOf_spec n).1
theorem digitOf_val (n : Nat) : (digitOf n).toNat - 48 = n % 10 := (digitOf_spec n).2

/-- every byte of a decimal numeral is a digit -/
theorem natToDec_digits (n : Nat) : ∀ c ∈ natToDec n, isDigit c = true := by
  induction n using Nat.strongRecOn with
  | _ n ih =>
    rw [natToDec]
    split
    · intro c hc
      simp only [List.mem_singleton] at hc
      rw [hc]; exact isDigit_digitOf n
    · intro c hc
      simp only [List.mem_append, List.mem_singleton] at hc
      rcases hc with h | h
      · exact ih (n / 10) (by omega) c h
      · rw [h]; exact isDigit_digitOf n

theorem natToDec_ne_nil (n : Nat) : natToDec n ≠ [] := by
  rw [natToDec]
  split
  · simp
  · simp

theorem parseDigits_append (acc : Nat) (ds : Bytes) (d : UInt8) (hd : isDigit d = true) :
    ∀ acc' , parseDigits acc ds = some acc' →
      parseDigits acc (ds ++ [d]) = some (acc' * 10 + (d.toNat - 48)) := by
  induction ds generalizing acc with
  | nil =>
    intro acc' h
    simp only [parseDigits] at h
    cases h
    simp [parseDigits, hd]
  | cons c cs ih =>
    intro acc' h
    simp only [parseDigits, List.cons_append] at h ⊢
    split at h
    · rename_i hc
      simp only [hc, if_true]
      exact ih _ _ h
    · cases h

theorem parseDigits_natToDec (n : Nat) : parseDigits 0 (natToDec n) = some n := by
  induction n using Nat.strongRecOn with
  | _ n ih =>
    rw [natToDec]
    split
    · rename_i h
      simp only [parseDigits, isDigit_digitOf, if_true, digitOf_val]
      congr 1; omega
    · rename_i h
      have := parseDigits_append 0 (natToDec (n / 10)) (digitOf n) (isDigit_digitOf n) (n / 10)
        (ih (n / 10) (by omega))
      rw [this, digitOf_val]
      congr 1; omega

theorem parseNat_natToDec (n : Nat) : parseNat (natToDec n) = some n := by
  have h := parseDigits_natToDec n
  cases hd : natToDec n with
  | nil => exact absurd hd (natToDec_ne_nil n)
  | cons c cs => rw [hd] at h; simpa [parseNat] using h

theorem isDigit_ne {c : UInt8} (h : isDigit c = true) :
    c ≠ 45 ∧ c ≠ 43 ∧ c ≠ CR ∧ c ≠ LF := by
  simp only [isDigit, Bool.and_eq_true, decide_eq_true_eq] at h
  have h1 : 48 ≤ c.toNat := by simpa using UInt8.le_iff_toNat_le.mp h.1
  refine ⟨?_, ?_, ?_, ?_⟩ <;> (intro e; rw [e] at h1; revert h1; decide)

theorem natToDec_head (n : Nat) : ∃ c cs, natToDec n = c :: cs ∧ isDigit c = true := by
  cases hd : natToDec n with
  | nil => exact absurd hd (natToDec_ne_nil n)
  | cons c cs =>
    refine ⟨c, cs, rfl, ?_⟩
    apply natToDec_digits n; rw [hd]; simp

theorem parseUsize_natToDec (n : Nat) (h : n < 2 ^ 64) : parseUsize (natToDec n) = some n := by
  obtain ⟨c, cs, hd, hc⟩ := natToDec_head n
  have hp := parseNat_natToDec n
  rw [hd] at hp ⊢
  simp only [parseUsize, (isDigit_ne hc).2.1, if_false, hp, h, if_true]

theorem parseI64_natToDec (n : Nat) (h : n < 2 ^ 63) : parseI64 (natToDec n) = some (n : Int) := by
  obtain ⟨c, cs, hd, hc⟩ := natToDec_head n
  have hp := parseNat_natToDec n
  rw [hd] at hp ⊢
  simp only [parseI64, (isDigit_ne hc).1, (isDigit_ne hc).2.1, if_false, hp, h, if_true]

theorem parseI64_intToDec (i : Int) (h1 : -(2 ^ 63 : Int) ≤ i) (h2 : i < 2 ^ 63) :
    parseI64 (intToDec i) = some i := by
  unfold intToDec
  split
  · rename_i hneg
    have hp := parseNat_natToDec i.natAbs
    have hle : i.natAbs ≤ 2 ^ 63 := by omega
    simp only [parseI64, if_true, hp, hle]
    congr 1; omega
  · rename_i hpos
    have := parseI64_natToDec i.toNat (by omega)
    rw [this]; congr 1; omega

theorem natToDec_noCR (n : Nat) : ∀ c ∈ natToDec n, c ≠ CR :=
  fun c hc => (isDigit_ne (natToDec_digits n c hc)).2.2.1

theorem intToDec_noCR (i : Int) : ∀ c ∈ intToDec i, c ≠ CR := by
  unfold intToDec
  split
  · intro c hc
    simp only [List.mem_cons] at hc
    rcases hc with h | h
    · rw [h]; decide
    · exact natToDec_noCR _ c h
  · exact natToDec_noCR _

/-! ### readLine -/

theorem readLine_noCR (q : Bytes) (h : ∀ c ∈ q, c ≠ CR) : readLine q = none := by
  induction q with
  | nil => rfl
  | cons a t ih =>
    cases t with
    | nil => rfl
    | cons b r =>
      have ha : a ≠ CR := h a (by simp)
      have := ih (fun c hc => h c (List.mem_cons_of_mem _ hc))
      simp [readLine, ha, this]

theorem readLine_noCR_CR (q : Bytes) (h : ∀ c ∈ q, c ≠ CR) : readLine (q ++ [CR]) = none := by
  induction q with
  | nil => rfl
  | cons a t ih =>
    have ha : a ≠ CR := h a (by simp)
    have iht := ih (fun c hc => h c (List.mem_cons_of_mem _ hc))
    cases t with
    | nil => simp [readLine, ha]
    | cons b r =>
      simp only [List.cons_append] at iht ⊢
      simp [readLine, ha, iht]

theorem readLine_append (l rest : Bytes) (h : ∀ c ∈ l, c ≠ CR) :
    readLine (l ++ CR :: LF :: rest) = some (l, rest) := by
  induction l with
  | nil => simp [readLine]
  | cons a t ih =>
    have ha : a ≠ CR := h a (by simp)
    have iht := ih (fun c hc => h c (List.mem_cons_of_mem _ hc))
    cases t with
    | nil =>
      simp [readLine, ha]
    | cons b r =>
      simp only [List.cons_append] at iht ⊢
      simp [readLine, ha, iht]

/-- a strict prefix of `l ++ CRLF` (with `l` free of CR) holds no complete line -/
theorem readLine_strict_prefix (l p t : Bytes) (h : ∀ c ∈ l, c ≠ CR) (ht : t ≠ [])
    (he : p ++ t = l ++ [CR, LF]) : readLine p = none := by
  rcases List.append_eq_append_iff.mp he with ⟨a', h1, h2⟩ | ⟨c', h1, h2⟩
  · -- l = p ++ a'
    apply readLine_noCR
    intro c hc; exact h c (by rw [h1]; simp [hc])
  · -- p = l ++ c', [CR, LF] = c' ++ t
    cases c' with
    | nil => rw [h1]; simp; exact readLine_noCR l h
    | cons x xs =>
      cases xs with
      | nil =>
        simp only [List.cons_append, List.nil_append, List.cons.injEq] at h2
        rw [h1, h2.1.symm]; exact readLine_noCR_CR l h
      | cons y ys =>
        simp only [List.cons_append, List.cons.injEq] at h2
        have : ys ++ t = [] := h2.2.2.symm
        simp at this
        exact absurd this.2 ht

theorem readLine_some {b l r : Bytes} (h : readLine b = some (l, r)) :
    b = l ++ CR :: LF :: r := by
  induction b generalizing l r with
  | nil => simp [readLine] at h
  | cons a t ih =>
    cases t with
    | nil => simp [readLine] at h
    | cons c u =>
      simp only [readLine] at h
      split at h
      · rename_i hc
        simp only [Option.some.injEq, Prod.mk.injEq] at h
        rw [← h.1, ← h.2, hc.1, hc.2]; rfl
      · split at h
        · rename_i l' r' hrec
          simp only [Option.some.injEq, Prod.mk.injEq] at h
          obtain ⟨h1, h2⟩ := h
          subst h1 h2
          rw [ih hrec]; rfl
        · cases h

theorem readLine_length {b l r : Bytes} (h : readLine b = some (l, r)) :
    b.length = l.length + 2 + r.length := by
  rw [readLine_some h]; simp; omega

/-! ### UTF-8 validity is insensitive to `sanit` -/

theorem utf8Step_sanit (st : U8St) (b : UInt8) : utf8Step st (sanit b) = utf8Step st b := by
  unfold sanit
  split
  · rename_i h
    rcases h with h | h <;> (rw [h]; cases st <;> decide)
  · rfl

theorem utf8Run_sanit (st : U8St) (s : Bytes) : utf8Run st (s.map sanit) = utf8Run st s := by
  induction s generalizing st with
  | nil => rfl
  | cons b bs ih =>
    simp only [List.map, utf8Run, utf8Step_sanit]
    split
    · exact ih _
    · rfl

theorem validUtf8_sanit (s : Bytes) : validUtf8 (s.map sanit) = validUtf8 s := by
  simp [validUtf8, utf8Run_sanit]

theorem sanit_noCR (s : Bytes) : ∀ c ∈ s.map sanit, c ≠ CR := by
  intro c hc
  simp only [List.mem_map] at hc
  obtain ⟨b, _, hb⟩ := hc
  rw [← hb]; unfold sanit
  split
  · decide
  · rename_i h; intro e; exact h (Or.inl e)

theorem sanit_id_of_noCRLF (s : Bytes) (h : noCRLF s = true) : s.map sanit = s := by
  induction s with
  | nil => rfl
  | cons b bs ih =>
    simp only [noCRLF, List.all_cons, Bool.and_eq_true, bne_iff_ne, ne_eq] at h
    have hb : sanit b = b := by
      unfold sanit; split
      · rename_i hh; rcases hh with hh | hh
        · exact absurd hh h.1.1
        · exact absurd hh h.1.2
      · rfl
    simp only [List.map, hb]
    congr 1
    exact ih (by simpa [noCRLF] using h.2)

end SgModel.Resp
