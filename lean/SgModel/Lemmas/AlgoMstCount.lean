import SgModel.Lemmas.AlgoCount
/-!
Lemmas for the MST minimality theorem of C26, part 1: list counting and "a connected graph on
m nodes has at least m − 1 edges" (by growing a tree).  Core Lean only.
-/
namespace SgModel.Algo

/-! ### counting in lists -/

theorem length_le_of_nodup_subset : ∀ {l s : List Nat}, l.Nodup → (∀ x ∈ l, x ∈ s) → l.length ≤ s.length := by
  intro l
  induction l with
  | nil => intro s _ _; exact Nat.zero_le _
  | cons a t ih =>
    intro s hnd hsub
    have hnd' := List.nodup_cons.mp hnd
    have ha : a ∈ s := hsub a (List.mem_cons_self ..)
    have hsub' : ∀ x ∈ t, x ∈ s.erase a := by
      intro x hx
      have hne : x ≠ a := fun h => hnd'.1 (h ▸ hx)
      exact (List.mem_erase_of_ne hne).mpr (hsub x (List.mem_cons_of_mem _ hx))
    have := ih hnd'.2 hsub'
    rw [List.length_erase_of_mem ha] at this
    have hpos : 0 < s.length := List.length_pos_of_mem ha
    simp only [List.length_cons]; omega

theorem sum_erase (f : Edge → Nat) : ∀ {s : List Edge} {a : Edge}, a ∈ s →
    (s.map f).sum = f a + ((s.erase a).map f).sum := by
  intro s
  induction s with
  | nil => intro a h; cases h
  | cons b t ih =>
    intro a h
    rw [List.erase_cons]
    by_cases hb : b = a
    · subst hb; simp
    · have hb' : (b == a) = false := by simp [hb]
      rw [hb']
      have hat : a ∈ t := by
        rcases List.mem_cons.mp h with h | h
        · exact absurd h.symm hb
        · exact h
      simp only [Bool.false_eq_true, if_false, List.map_cons, List.sum_cons, ih hat]
      omega

theorem sum_le_of_nodup_subset (f : Edge → Nat) : ∀ {l s : List Edge}, l.Nodup → (∀ x ∈ l, x ∈ s) →
    (l.map f).sum ≤ (s.map f).sum := by
  intro l
  induction l with
  | nil => intro s _ _; simp
  | cons a t ih =>
    intro s hnd hsub
    have hnd' := List.nodup_cons.mp hnd
    have ha : a ∈ s := hsub a (List.mem_cons_self ..)
    have hsub' : ∀ x ∈ t, x ∈ s.erase a := by
      intro x hx
      have hne : x ≠ a := fun h => hnd'.1 (h ▸ hx)
      exact (List.mem_erase_of_ne hne).mpr (hsub x (List.mem_cons_of_mem _ hx))
    have := ih hnd'.2 hsub'
    rw [sum_erase f ha]
    simp only [List.map_cons, List.sum_cons]; omega

/-- de-duplication of an edge list -/
def dedupE : List Edge → List Edge
  | [] => []
  | x :: xs => if x ∈ xs then dedupE xs else x :: dedupE xs

theorem mem_dedupE {l : List Edge} {x : Edge} : x ∈ dedupE l ↔ x ∈ l := by
  induction l with
  | nil => simp [dedupE]
  | cons a t ih =>
    rw [dedupE]
    split
    · rename_i h
      rw [ih]; constructor
      · exact List.mem_cons_of_mem _
      · intro hx; rcases List.mem_cons.mp hx with rfl | hx
        · exact h
        · exact hx
    · simp [List.mem_cons, ih]

theorem length_dedupE_le (l : List Edge) : (dedupE l).length ≤ l.length := by
  induction l with
  | nil => simp [dedupE]
  | cons a t ih =>
    rw [dedupE]; split <;> simp only [List.length_cons] <;> omega

theorem nodup_of_length_dedupE : ∀ (l : List Edge), l.length ≤ (dedupE l).length → l.Nodup := by
  intro l
  induction l with
  | nil => intro _; exact List.nodup_nil
  | cons a t ih =>
    intro h
    rw [dedupE] at h
    split at h
    · have := length_dedupE_le t
      simp only [List.length_cons] at h; omega
    · rename_i hat
      simp only [List.length_cons] at h
      exact List.nodup_cons.mpr ⟨hat, ih (by omega)⟩

/-! ### a connected graph on m nodes has at least m − 1 edges -/

/-- sets of nodes obtained from `{r}` by repeatedly adding the far end of an edge -/
inductive Grow (F : Pairs) (r : Nat) : List Nat → Prop
  | base : Grow F r [r]
  | step {S : List Nat} {u v : Nat} : Grow F r S → (u, v) ∈ sym F → u ∈ S → v ∉ S → Grow F r (v :: S)

/-- entries of `F` with both ends inside `S` -/
def internal (F : Pairs) (S : List Nat) : Nat :=
  F.countP (fun p => decide (p.1 ∈ S) && decide (p.2 ∈ S))

theorem grow_root {F : Pairs} {r : Nat} {S : List Nat} (h : Grow F r S) : r ∈ S := by
  induction h with
  | base => exact List.mem_singleton.mpr rfl
  | step _ _ _ _ ih => exact List.mem_cons_of_mem _ ih

theorem grow_bound {F : Pairs} {r : Nat} {S : List Nat} (h : Grow F r S) :
    S.Nodup ∧ S.length ≤ internal F S + 1 := by
  induction h with
  | base => exact ⟨by simp, by simp⟩
  | @step S u v _ he hu hv ih =>
    refine ⟨List.nodup_cons.mpr ⟨hv, ih.1⟩, ?_⟩
    have hlt : internal F S < internal F (v :: S) := by
      unfold internal
      have hw : (u, v) ∈ F ∨ (v, u) ∈ F := mem_sym.mp he
      rcases hw with hw | hw
      · apply countP_lt_of_witness _ _ F _ (u, v) hw
        · simp [hu]
        · simp [hv]
        · intro x _ hq
          simp only [Bool.and_eq_true, decide_eq_true_eq] at hq ⊢
          exact ⟨List.mem_cons_of_mem _ hq.1, List.mem_cons_of_mem _ hq.2⟩
      · apply countP_lt_of_witness _ _ F _ (v, u) hw
        · simp [hu]
        · simp [hv]
        · intro x _ hq
          simp only [Bool.and_eq_true, decide_eq_true_eq] at hq ⊢
          exact ⟨List.mem_cons_of_mem _ hq.1, List.mem_cons_of_mem _ hq.2⟩
    simp only [List.length_cons]; omega

theorem grow_extend {F : Pairs} {r : Nat} {S : List Nat} (hS : Grow F r S) {x : Nat}
    (hx : Reach (sym F) r x) : ∃ S', Grow F r S' ∧ (∀ y ∈ S, y ∈ S') ∧ x ∈ S' := by
  induction hx with
  | refl => exact ⟨S, hS, fun _ h => h, grow_root hS⟩
  | @step y z _ he ih =>
    obtain ⟨S', hS', hsub, hy⟩ := ih
    by_cases hz : z ∈ S'
    · exact ⟨S', hS', hsub, hz⟩
    · exact ⟨z :: S', Grow.step hS' he hy hz, fun a ha => List.mem_cons_of_mem _ (hsub a ha),
        List.mem_cons_self ..⟩

theorem grow_cover {F : Pairs} {r : Nat} : ∀ (L : List Nat), (∀ x ∈ L, Reach (sym F) r x) →
    ∃ S, Grow F r S ∧ ∀ x ∈ L, x ∈ S := by
  intro L
  induction L with
  | nil => intro _; exact ⟨[r], Grow.base, fun _ h => by cases h⟩
  | cons a t ih =>
    intro h
    obtain ⟨S, hS, hsub⟩ := ih (fun x hx => h x (List.mem_cons_of_mem _ hx))
    obtain ⟨S', hS', hsub', ha⟩ := grow_extend hS (h a (List.mem_cons_self ..))
    refine ⟨S', hS', ?_⟩
    intro x hx
    rcases List.mem_cons.mp hx with rfl | hx
    · exact ha
    · exact hsub' x (hsub x hx)

/-- `m` distinct nodes that are all connected to `r` by the edges `F` need `m ≤ |F| + 1` -/
theorem count_le_edges {F : Pairs} {r : Nat} {L : List Nat} (hnd : L.Nodup)
    (h : ∀ x ∈ L, Reach (sym F) r x) : L.length ≤ F.length + 1 := by
  obtain ⟨S, hS, hsub⟩ := grow_cover L h
  have h1 := length_le_of_nodup_subset hnd hsub
  have h2 := (grow_bound hS).2
  have h3 : internal F S ≤ F.length := List.countP_le_length
  omega

end SgModel.Algo
