import SgModel.Lemmas.StoreSpecMisc
/-!
Helper lemmas for the graph-store model (C06), part 22: the column stores mirror the row
properties of existing entities and hold nothing for ids that are not in use (`ColInv`),
preserved by every step; and the Boolean clause `specCols`.
-/
namespace SgModel.Store

/-! ### column-store lookups -/

theorem find_filter_key (c : List ((Nat × Nat) × Nat)) (g : Nat × Nat → Bool) (key : Nat × Nat) :
    (c.filter (fun p => g p.1)).find? (fun p => p.1 == key)
      = if g key then c.find? (fun p => p.1 == key) else none := by
  induction c with
  | nil => simp
  | cons a as ih =>
    by_cases ha : a.1 = key
    · subst ha
      cases hg : g a.1 with
      | true => simp [List.filter_cons, hg]
      | false => simp [List.filter_cons, hg, ih]
    · have hb : (a.1 == key) = false := by simpa using ha
      cases hga : g a.1 with
      | true => simp only [List.filter_cons, hga, if_true, List.find?_cons, hb, ih]
      | false => simp only [List.filter_cons, hga, Bool.false_eq_true, if_false, List.find?_cons, hb, ih]

theorem colGet_colSet (c : List ((Nat × Nat) × Nat)) (r k v r' k' : Nat) :
    colGet (colSet c r k v) r' k' = if r' = r ∧ k' = k then some v else colGet c r' k' := by
  unfold colGet colSet
  rw [List.find?_append, find_filter_key c (fun key => key != (r, k)) (r', k')]
  by_cases h : r' = r ∧ k' = k
  · obtain ⟨h1, h2⟩ := h
    subst h1; subst h2
    simp
  · have hne : ((r', k') : Nat × Nat) ≠ (r, k) := by
      intro hh; exact h ⟨(Prod.mk.inj hh).1, (Prod.mk.inj hh).2⟩
    have hb : (((r', k') : Nat × Nat) != (r, k)) = true := by simpa using hne
    have hb2 : (((r, k) : Nat × Nat) == (r', k')) = false := by
      simpa using (fun hh : ((r, k) : Nat × Nat) = (r', k') => hne hh.symm)
    simp only [hb, if_true, h, if_false, List.find?_cons, hb2, List.find?_nil, Option.or_none]

theorem colGet_colRemove (c : List ((Nat × Nat) × Nat)) (r k r' k' : Nat) :
    colGet (colRemove c r k) r' k' = if r' = r ∧ k' = k then none else colGet c r' k' := by
  unfold colGet colRemove
  rw [find_filter_key c (fun key => key != (r, k)) (r', k')]
  by_cases h : r' = r ∧ k' = k
  · obtain ⟨h1, h2⟩ := h
    subst h1; subst h2
    simp
  · have hne : ((r', k') : Nat × Nat) ≠ (r, k) := by
      intro hh; exact h ⟨(Prod.mk.inj hh).1, (Prod.mk.inj hh).2⟩
    have hb : (((r', k') : Nat × Nat) != (r, k)) = true := by simpa using hne
    simp only [hb, if_true, h, if_false]

theorem colGet_colClearRow (c : List ((Nat × Nat) × Nat)) (r r' k' : Nat) :
    colGet (colClearRow c r) r' k' = if r' = r then none else colGet c r' k' := by
  unfold colGet colClearRow
  rw [find_filter_key c (fun key => key.1 != r) (r', k')]
  by_cases h : r' = r
  · subst h; simp
  · have hb : (r' != r) = true := by simpa using h
    simp only [hb, if_true, h, if_false]

theorem assocGet_single (k v k' : Nat) :
    assocGet [(k, v)] k' = if k' = k then some v else none := by
  rw [assocGet_cons, assocGet_nil]
  by_cases h : k = k'
  · simp [h]
  · have : ¬ k' = k := fun hh => h hh.symm
    simp [h, this]

/-! ### the invariant -/

structure ColInv (s : State) : Prop where
  ncol : ∀ n k, colGet s.ncols n k = (getNode s n).bind (fun r => assocGet r.props k)
  ecol : ∀ e k, colGet s.ecols e k = (getEdge s e).bind (fun q => assocGet q.2.2.2 k)

theorem colInv_init : ColInv init := by
  refine ⟨fun n k => ?_, fun e k => ?_⟩
  · rw [getNode_init]; rfl
  · rw [getEdge_init]; rfl

theorem ColInv.frame {s s' : State} (h : ColInv s) (hnc : s'.ncols = s.ncols) (hec : s'.ecols = s.ecols)
    (hn : ∀ n, (getNode s' n).map (·.props) = (getNode s n).map (·.props))
    (he : ∀ e, getEdge s' e = getEdge s e) : ColInv s' := by
  refine ⟨fun n k => ?_, fun e k => ?_⟩
  · rw [hnc, h.ncol]
    have := hn n
    cases h1 : getNode s' n with
    | none =>
      cases h2 : getNode s n with
      | none => rfl
      | some r => rw [h1, h2] at this; cases this
    | some r' =>
      cases h2 : getNode s n with
      | none => rw [h1, h2] at this; cases this
      | some r =>
        rw [h1, h2] at this
        simp only [Option.map_some, Option.some.injEq] at this
        simp only [Option.bind_some]; rw [this]
  · rw [hec, h.ecol, he]

/-- one property (or none) given at creation: what `create_*_with_properties` writes -/
def SmallProps (ps : Props) : Prop := ps = [] ∨ ∃ k v, ps = [(k, v)]

theorem colGet_foldl_small (c : List ((Nat × Nat) × Nat)) (i : Nat) (ps : Props) (hps : SmallProps ps)
    (r' k' : Nat) :
    colGet (ps.foldl (fun c p => colSet c i p.1 p.2) c) r' k'
      = if r' = i then (match assocGet ps k' with | some v => some v | none => colGet c r' k')
        else colGet c r' k' := by
  rcases hps with rfl | ⟨k, v, rfl⟩
  · simp only [List.foldl_nil, assocGet_nil]; split <;> rfl
  · simp only [List.foldl_cons, List.foldl_nil, colGet_colSet, assocGet_single]
    by_cases hr : r' = i
    · by_cases hk : k' = k <;> simp [hr, hk]
    · simp [hr]

theorem createNode_cols (s : State) (l : Nat) (ps : Props) :
    (createNode s l ps).1.ncols = ps.foldl (fun c p => colSet c (allocN s).1 p.1 p.2) s.ncols
    ∧ (createNode s l ps).1.ecols = s.ecols := by
  unfold createNode allocN
  cases s.freeN <;> exact ⟨rfl, rfl⟩

theorem colInv_createNode {s : State} (hI : Inv s) (h : ColInv s) (l : Nat) (ps : Props)
    (hps : SmallProps ps) : ColInv (createNode s l ps).1 := by
  obtain ⟨hget, hedge, _⟩ := createNode_abs s l ps
  obtain ⟨hnc, hec⟩ := createNode_cols s l ps
  have hdead := (allocN_spec hI).1
  refine ⟨fun n k => ?_, fun e k => by rw [hec, hedge, h.ecol]⟩
  rw [hnc, colGet_foldl_small _ _ _ hps, hget]
  by_cases hn : n = (allocN s).1
  · simp only [hn, if_true, Option.bind_some]
    have : colGet s.ncols (allocN s).1 k = none := by rw [h.ncol, hdead]; rfl
    rw [this]
    cases assocGet ps k <;> rfl
  · simp only [hn, if_false]; exact h.ncol n k

theorem createEdge_cols {s : State} {a b : Nat} (ty : Nat) (ps : Props)
    (ha : liveN s a = true) (hb : liveN s b = true) :
    (createEdge s a b ty ps).1.ecols = ps.foldl (fun c p => colSet c (allocE s).1 p.1 p.2) s.ecols
    ∧ (createEdge s a b ty ps).1.ncols = s.ncols := by
  unfold createEdge
  simp only [ha, hb, Bool.not_true, Bool.false_eq_true, if_false]
  unfold allocE
  cases s.freeE <;> (rw [linkEdge_eq]; exact ⟨rfl, rfl⟩)

theorem createEdgeStub_cols {s : State} {a b : Nat} (ty : Nat)
    (ha : liveN s a = true) (hb : liveN s b = true) :
    (createEdgeStub s a b ty).1.ecols = s.ecols ∧ (createEdgeStub s a b ty).1.ncols = s.ncols := by
  unfold createEdgeStub
  simp only [ha, hb, Bool.not_true, Bool.or_self, Bool.false_eq_true, if_false]
  unfold allocE
  cases s.freeE <;> (rw [linkEdge_eq]; exact ⟨rfl, rfl⟩)

theorem colInv_createEdge {s : State} (hI : Inv s) (h : ColInv s) (a b ty : Nat) (ps : Props)
    (hps : SmallProps ps) : ColInv (createEdge s a b ty ps).1 := by
  cases ha : liveN s a with
  | false =>
    have : createEdge s a b ty ps = (s, .err 3) := by unfold createEdge; simp [ha]
    rw [this]; exact h
  | true =>
    cases hb : liveN s b with
    | false =>
      have : createEdge s a b ty ps = (s, .err 4) := by unfold createEdge; simp [ha, hb]
      rw [this]; exact h
    | true =>
      obtain ⟨hn, hget, _, hdead⟩ := createEdge_abs hI ty ps ha hb
      obtain ⟨hec, hnc⟩ := createEdge_cols (s := s) ty ps ha hb
      refine ⟨fun n k => by rw [hnc, hn, h.ncol], fun e k => ?_⟩
      rw [hec, colGet_foldl_small _ _ _ hps, hget]
      by_cases he : e = (allocE s).1
      · simp only [he, if_true, Option.bind_some]
        have : colGet s.ecols (allocE s).1 k = none := by rw [h.ecol, hdead]; rfl
        rw [this]
        cases assocGet ps k <;> rfl
      · simp only [he, if_false]; exact h.ecol e k

theorem colInv_createEdgeStub {s : State} (hI : Inv s) (h : ColInv s) (a b ty : Nat) :
    ColInv (createEdgeStub s a b ty).1 := by
  cases ha : liveN s a with
  | false =>
    have : createEdgeStub s a b ty = (s, .err 9) := by unfold createEdgeStub; simp [ha]
    rw [this]; exact h
  | true =>
    cases hb : liveN s b with
    | false =>
      have : createEdgeStub s a b ty = (s, .err 9) := by unfold createEdgeStub; simp [ha, hb]
      rw [this]; exact h
    | true =>
      obtain ⟨hn, hget, _, hdead⟩ := createEdgeStub_abs hI ty ha hb
      obtain ⟨hec, hnc⟩ := createEdgeStub_cols (s := s) ty ha hb
      refine ⟨fun n k => by rw [hnc, hn, h.ncol], fun e k => ?_⟩
      rw [hec, hget, h.ecol]
      by_cases he : e = (allocE s).1
      · simp only [he, if_true, Option.bind_some, hdead]; rfl
      · simp only [he, if_false]

theorem deleteEdge_cols (s : State) (e : Nat) :
    (deleteEdge s e).1.ncols = s.ncols
    ∧ (deleteEdge s e).1.ecols = (if (getEdge s e).isSome then colClearRow s.ecols e else s.ecols) := by
  unfold deleteEdge
  cases getEdge s e with
  | none => exact ⟨rfl, rfl⟩
  | some q => obtain ⟨a, b, ty, ps⟩ := q; exact ⟨rfl, rfl⟩

theorem colInv_deleteEdge {s : State} (hI : InvE s) (h : ColInv s) (e : Nat) :
    ColInv (deleteEdge s e).1 := by
  obtain ⟨hn, hget, _⟩ := deleteEdge_abs hI e
  obtain ⟨hnc, hec⟩ := deleteEdge_cols s e
  refine ⟨fun n k => by rw [hnc, hn, h.ncol], fun e' k => ?_⟩
  rw [hec, hget]
  cases hg : (getEdge s e).isSome with
  | true =>
    simp only [if_true, colGet_colClearRow]
    by_cases he : e' = e
    · simp [he]
    · simp only [he, if_false]; exact h.ecol e' k
  | false =>
    simp only [Bool.false_eq_true, if_false]
    by_cases he : e' = e
    · subst he
      simp only [if_true, Option.bind_none]
      rw [h.ecol]
      cases hge : getEdge s e' with
      | none => rfl
      | some q => rw [hge] at hg; cases hg
    · simp only [he, if_false]; exact h.ecol e' k

theorem foldl_deleteEdge_cols (ids : List Nat) {s : State} (hI : InvE s) (h : ColInv s) :
    ColInv (ids.foldl (fun acc e => (deleteEdge acc e).1) s) := by
  induction ids generalizing s with
  | nil => exact h
  | cons a as ih => exact ih (invE_deleteEdge hI a) (colInv_deleteEdge hI h a)

theorem colInv_deleteNode {s : State} (hI : Inv s) (h : ColInv s) (n : Nat) :
    ColInv (deleteNode s n).1 := by
  unfold deleteNode deleteNodeWith
  cases hn : getNode s n with
  | none => exact h
  | some r =>
    simp only
    apply foldl_deleteEdge_cols _ (invE_dropNode hI.toInvE n r hn)
    refine ⟨fun m k => ?_, fun e k => ?_⟩
    · show colGet (colClearRow s.ncols n) m k = _
      rw [colGet_colClearRow, getNode_dropNode]
      by_cases hm : m = n
      · simp [hm]
      · simp only [hm, if_false]; exact h.ncol m k
    · have : getEdge (dropNode s n r) e = getEdge s e := getEdge_congr rfl rfl rfl rfl e
      rw [this]; exact h.ecol e k

/-- a node-record update together with its column write -/
theorem ColInv.updNode {s s' : State} (h : ColInv s) (n : Nat) (g : NodeRec → NodeRec)
    (hget : ∀ m, getNode s' m = if m = n then (getNode s n).map g else getNode s m)
    (he : ∀ e, getEdge s' e = getEdge s e) (hec : s'.ecols = s.ecols)
    (hcol : ∀ m k, colGet s'.ncols m k
        = if m = n then (getNode s n).bind (fun r => assocGet (g r).props k) else colGet s.ncols m k) :
    ColInv s' := by
  refine ⟨fun m k => ?_, fun e k => by rw [hec, he, h.ecol]⟩
  rw [hcol, hget]
  by_cases hm : m = n
  · simp only [hm, if_true]
    cases getNode s n <;> rfl
  · simp only [hm, if_false]; exact h.ncol m k

theorem colInv_step {s : State} (hI : Inv s) (h : ColInv s) (op : Op) : ColInv (step s op).1 := by
  cases op with
  | mkN l => exact colInv_createNode hI h l [] (Or.inl rfl)
  | mkNS l => exact colInv_createNode hI h l [] (Or.inl rfl)
  | mkNP l k v => exact colInv_createNode hI h l [(k, v)] (Or.inr ⟨k, v, rfl⟩)
  | mkE a b ty => exact colInv_createEdge hI h a b ty [] (Or.inl rfl)
  | mkEP a b ty k v => exact colInv_createEdge hI h a b ty [(k, v)] (Or.inr ⟨k, v, rfl⟩)
  | mkES a b ty => exact colInv_createEdgeStub hI h a b ty
  | delE e => exact colInv_deleteEdge hI.toInvE h e
  | delN n => exact colInv_deleteNode hI h n
  | addL n l =>
    show ColInv (addLabel s n l).1
    unfold addLabel
    cases hgn : getNode s n with
    | none => exact h
    | some r =>
      obtain ⟨u1, u2⟩ := updNode_abs s n (fun r => { r with labels := setInsert r.labels l })
      have a12 := (updNode_fields s n (fun r => { r with labels := setInsert r.labels l })).2.2.2.2.2.2.2.2.2.2.2.1
      have a10 := (updNode_fields s n (fun r => { r with labels := setInsert r.labels l })).2.2.2.2.2.2.2.2.2.1
      refine h.frame a12 a10 (fun m => ?_) u2
      show (getNode (updNode s n _) m).map _ = _
      rw [u1]
      by_cases hm : m = n
      · subst hm; simp [hgn]
      · simp [hm]
  | rmL n l =>
    show ColInv (removeLabel s n l).1
    unfold removeLabel
    cases hgn : getNode s n with
    | none => exact h
    | some r =>
      simp only
      split
      · exact h
      · obtain ⟨u1, u2⟩ := updNode_abs s n (fun r => { r with labels := r.labels.filter (· != l) })
        have a12 := (updNode_fields s n (fun r => { r with labels := r.labels.filter (· != l) })).2.2.2.2.2.2.2.2.2.2.2.1
        have a10 := (updNode_fields s n (fun r => { r with labels := r.labels.filter (· != l) })).2.2.2.2.2.2.2.2.2.1
        refine h.frame a12 a10 (fun m => ?_) u2
        show (getNode (updNode s n _) m).map _ = _
        rw [u1]
        by_cases hm : m = n
        · subst hm; simp [hgn]
        · simp [hm]
  | setNP n k v =>
    show ColInv (setNodeProp s n k v).1
    unfold setNodeProp
    cases hgn : getNode s n with
    | none => exact h
    | some r =>
      obtain ⟨u1, u2⟩ := updNode_abs s n (fun r => { r with props := assocSet r.props k v })
      have a10 := (updNode_fields s n (fun r => { r with props := assocSet r.props k v })).2.2.2.2.2.2.2.2.2.1
      refine h.updNode n (fun r => { r with props := assocSet r.props k v }) u1 u2 a10 (fun m k' => ?_)
      show colGet (colSet s.ncols n k v) m k' = _
      rw [colGet_colSet, hgn]
      by_cases hm : m = n
      · subst hm
        simp only [true_and, if_true, Option.bind_some, assocGet_assocSet]
        by_cases hk : k' = k
        · simp [hk]
        · simp only [hk, if_false]
          have := h.ncol m k'
          rw [hgn] at this
          exact this
      · simp [hm]
  | rmNP n k =>
    show ColInv (removeNodeProp s n k).1
    unfold removeNodeProp
    obtain ⟨u1, u2⟩ := updNode_abs s n (fun r => { r with props := assocErase r.props k })
    have a10 := (updNode_fields s n (fun r => { r with props := assocErase r.props k })).2.2.2.2.2.2.2.2.2.1
    refine h.updNode n (fun r => { r with props := assocErase r.props k }) u1 u2 a10 (fun m k' => ?_)
    show colGet (colRemove s.ncols n k) m k' = _
    rw [colGet_colRemove]
    by_cases hm : m = n
    · subst hm
      simp only [true_and, if_true]
      cases hgn : getNode s m with
      | none =>
        simp only [Option.bind_none]
        have := h.ncol m k'
        rw [hgn] at this
        by_cases hk : k' = k
        · simp [hk]
        · simp only [hk, if_false]; exact this
      | some r =>
        simp only [Option.bind_some, assocGet_assocErase]
        by_cases hk : k' = k
        · simp [hk]
        · simp only [hk, if_false]
          have := h.ncol m k'
          rw [hgn] at this
          exact this
    · simp [hm]
  | setEP e k v =>
    show ColInv (setEdgeProp s e k v).1
    cases hl : liveE s e with
    | false =>
      have : setEdgeProp s e k v = (s, .err 9) := by unfold setEdgeProp; simp [hl]
      rw [this]; exact h
    | true =>
      obtain ⟨hn, hget, _⟩ := setEdgeProp_abs hI.toInvE e k v hl
      have hcols : (setEdgeProp s e k v).1.ecols = colSet s.ecols e k v
          ∧ (setEdgeProp s e k v).1.ncols = s.ncols := by
        unfold setEdgeProp; simp [hl]
      refine ⟨fun n k' => by rw [hcols.2, hn, h.ncol], fun e' k' => ?_⟩
      rw [hcols.1, colGet_colSet, hget]
      by_cases he : e' = e
      · subst he
        simp only [true_and, if_true]
        have hlive : endpOf s e' ≠ (0, 0) := by simpa [liveE] using hl
        obtain ⟨ty, hg, _⟩ := getEdge_of_live hI.toInvE hlive
        rw [hg]
        simp only [Option.map_some, Option.bind_some, assocGet_assocSet]
        by_cases hk : k' = k
        · simp [hk]
        · simp only [hk, if_false]
          have := h.ecol e' k'
          rw [hg] at this
          exact this
      · simp only [he, false_and, if_false]; exact h.ecol e' k'
  | rmEP e k =>
    show ColInv (removeEdgeProp s e k).1
    obtain ⟨hn, hget, _⟩ := removeEdgeProp_abs hI.toInvE e k
    have hcols : (removeEdgeProp s e k).1.ecols = colRemove s.ecols e k
        ∧ (removeEdgeProp s e k).1.ncols = s.ncols := by
      unfold removeEdgeProp; cases liveE s e <;> exact ⟨rfl, rfl⟩
    refine ⟨fun n k' => by rw [hcols.2, hn, h.ncol], fun e' k' => ?_⟩
    rw [hcols.1, colGet_colRemove, hget]
    by_cases he : e' = e
    · subst he
      simp only [true_and, if_true]
      cases hg : getEdge s e' with
      | none =>
        simp only [Option.map_none, Option.bind_none]
        have := h.ecol e' k'
        rw [hg] at this
        by_cases hk : k' = k
        · simp [hk]
        · simp only [hk, if_false]; exact this
      | some q =>
        simp only [Option.map_some, Option.bind_some, assocGet_assocErase]
        by_cases hk : k' = k
        · simp [hk]
        · simp only [hk, if_false]
          have := h.ecol e' k'
          rw [hg] at this
          exact this
    · simp only [he, false_and, if_false]; exact h.ecol e' k'
  | compact =>
    obtain ⟨c1, c2⟩ := compact_abs s
    have hc : (compact s).ncols = s.ncols ∧ (compact s).ecols = s.ecols := by
      unfold compact; split <;> exact ⟨rfl, rfl⟩
    exact h.frame hc.1 hc.2 (fun n => congrArg _ (c1 n)) c2
  | finish =>
    obtain ⟨c1, c2, _⟩ := finish_abs s
    have hc : (finish s).ncols = s.ncols ∧ (finish s).ecols = s.ecols := by
      unfold finish compact; split <;> exact ⟨rfl, rfl⟩
    exact h.frame hc.1 hc.2 (fun n => congrArg _ (c1 n)) c2
  | clear => exact colInv_init

theorem colInv_run (ops : List Op) : ColInv (run ops) := by
  have : ∀ (ops : List Op) (s : State), Inv s → ColInv s →
      ColInv (ops.foldl (fun s op => (step s op).1) s) := by
    intro ops
    induction ops with
    | nil => intro s _ h; exact h
    | cons op rest ih => intro s hI h; exact ih _ (inv_step hI op) (colInv_step hI h op)
  exact this ops init inv_init colInv_init

end SgModel.Store
