import SgModel.Lemmas.Oeh
/-! Nested-set encoding on forests: pre-order blocks, interval containment = reachability. -/
namespace SgModel.Oeh

theorem mem_children {P : Poset} {c v : Nat} : c ∈ P.children v ↔ (c, v) ∈ P.edges := by
  simp only [Poset.children, List.mem_map, List.mem_filter, beq_iff_eq]
  constructor
  · rintro ⟨⟨a, b⟩, ⟨h1, h2⟩, h3⟩
    simp only at h2 h3; subst h2; subst h3; exact h1
  · intro h; exact ⟨(c, v), ⟨h, rfl⟩, rfl⟩

theorem mem_parents {P : Poset} {c p : Nat} : p ∈ P.parents c ↔ (c, p) ∈ P.edges := by
  simp only [Poset.parents, List.mem_map, List.mem_filter, beq_iff_eq]
  constructor
  · rintro ⟨⟨a, b⟩, ⟨h1, h2⟩, h3⟩
    simp only at h2 h3; subst h2; subst h3; exact h1
  · intro h; exact ⟨(c, p), ⟨h, rfl⟩, rfl⟩

/-- acyclicity, witnessed by a height function that strictly grows from child to parent and
stays below `n` on the nodes -/
structure Acyclic (P : Poset) (h : Nat → Nat) : Prop where
  inRange : ∀ e ∈ P.edges, e.1 < P.n ∧ e.2 < P.n
  hEdge : ∀ e ∈ P.edges, h e.1 < h e.2
  hBound : ∀ v, v < P.n → h v < P.n

/-- a forest: acyclic and every node has at most one parent -/
structure IsForest (P : Poset) (h : Nat → Nat) : Prop extends Acyclic P h where
  onePar : ∀ i, (P.parents i).length ≤ 1
  edgesNodup : P.edges.Nodup

theorem reach_refl (P : Poset) (f x : Nat) : reach P f x x = true := by
  cases f <;> simp [reach]

theorem reach_succ_iff (P : Poset) (f x y : Nat) :
    reach P (f + 1) x y = true ↔ x = y ∨ ∃ p, (x, p) ∈ P.edges ∧ reach P f p y = true := by
  simp only [reach, Bool.or_eq_true, beq_iff_eq, List.any_eq_true]
  constructor
  · rintro (h | ⟨p, hp, hr⟩)
    · exact Or.inl h
    · exact Or.inr ⟨p, mem_parents.mp hp, hr⟩
  · rintro (h | ⟨p, hp, hr⟩)
    · exact Or.inl h
    · exact Or.inr ⟨p, mem_parents.mpr hp, hr⟩

/-- append a last covering step -/
theorem reach_snoc (P : Poset) : ∀ (g x c y : Nat), reach P g x c = true → (c, y) ∈ P.edges →
    reach P (g + 1) x y = true := by
  intro g
  induction g with
  | zero =>
    intro x c y h hy
    simp only [reach, beq_iff_eq] at h; subst h
    exact (reach_succ_iff P 0 x y).mpr (Or.inr ⟨y, hy, reach_refl P 0 y⟩)
  | succ g ih =>
    intro x c y h hy
    rcases (reach_succ_iff P g x c).mp h with h | ⟨p, hp, hr⟩
    · subst h
      exact (reach_succ_iff P (g + 1) x y).mpr (Or.inr ⟨y, hy, reach_refl P _ y⟩)
    · exact (reach_succ_iff P (g + 1) x y).mpr (Or.inr ⟨p, hp, ih p c y hr hy⟩)

theorem mem_pre_succ (P : Poset) (f x y : Nat) :
    x ∈ pre P (f + 1) y ↔ x = y ∨ ∃ c, (c, y) ∈ P.edges ∧ x ∈ pre P f c := by
  simp only [pre, List.mem_cons, List.mem_flatMap]
  constructor
  · rintro (h | ⟨c, hc, hx⟩)
    · exact Or.inl h
    · exact Or.inr ⟨c, mem_children.mp hc, hx⟩
  · rintro (h | ⟨c, hc, hx⟩)
    · exact Or.inl h
    · exact Or.inr ⟨c, mem_children.mpr hc, hx⟩

/-- everything the DFS lists under `y` is below `y` -/
theorem reach_of_mem_pre (P : Poset) : ∀ (f x y : Nat), x ∈ pre P f y → reach P f x y = true := by
  intro f
  induction f with
  | zero => intro x y h; simp [pre] at h
  | succ f ih =>
    intro x y h
    rcases (mem_pre_succ P f x y).mp h with h | ⟨c, hc, hx⟩
    · subst h; exact reach_refl P _ x
    · exact reach_snoc P f x c y (ih x c hx) hc

theorem height_le_of_mem_pre {P : Poset} {h : Nat → Nat} (A : Acyclic P h) :
    ∀ (f x y : Nat), x ∈ pre P f y → h x ≤ h y := by
  intro f
  induction f with
  | zero => intro x y hx; simp [pre] at hx
  | succ f ih =>
    intro x y hx
    rcases (mem_pre_succ P f x y).mp hx with e | ⟨c, hc, hx⟩
    · subst e; exact Nat.le_refl _
    · have := ih x c hx
      have := A.hEdge (c, y) hc
      simp only at this; omega

theorem self_mem_pre (P : Poset) (f y : Nat) : y ∈ pre P (f + 1) y := by simp [pre]

/-- the DFS listing is closed under taking children, given enough fuel -/
theorem pre_child_closed {P : Poset} {h : Nat → Nat} (A : Acyclic P h) :
    ∀ (g x p y : Nat), h y < g → p ∈ pre P g y → (x, p) ∈ P.edges → x ∈ pre P g y := by
  intro g
  induction g with
  | zero => intro x p y hy; omega
  | succ g ih =>
    intro x p y hy hp hx
    rcases (mem_pre_succ P g p y).mp hp with e | ⟨c, hc, hpc⟩
    · subst e
      have hxh := A.hEdge (x, p) hx
      simp only at hxh
      refine (mem_pre_succ P g x p).mpr (Or.inr ⟨x, hx, ?_⟩)
      obtain ⟨g', rfl⟩ : ∃ g', g = g' + 1 := ⟨g - 1, by omega⟩
      exact self_mem_pre P g' x
    · have hch := A.hEdge (c, y) hc
      simp only at hch
      exact (mem_pre_succ P g x y).mpr (Or.inr ⟨c, hc, ih x p c (by omega) hpc hx⟩)

/-- everything below `y` is listed by the DFS from `y`, given enough fuel -/
theorem mem_pre_of_reach {P : Poset} {h : Nat → Nat} (A : Acyclic P h) :
    ∀ (f x y g : Nat), h y < g → reach P f x y = true → x ∈ pre P g y := by
  intro f
  induction f with
  | zero =>
    intro x y g hg hr
    simp only [reach, beq_iff_eq] at hr; subst hr
    obtain ⟨g', rfl⟩ : ∃ g', g = g' + 1 := ⟨g - 1, by omega⟩
    exact self_mem_pre P g' x
  | succ f ih =>
    intro x y g hg hr
    rcases (reach_succ_iff P f x y).mp hr with e | ⟨p, hp, hr⟩
    · subst e
      obtain ⟨g', rfl⟩ : ∃ g', g = g' + 1 := ⟨g - 1, by omega⟩
      exact self_mem_pre P g' x
    · exact pre_child_closed A g x p y hg (ih p y g hg hr) hp

/-- `x` is listed under `y` by the DFS (fuel `n`) iff `x ⊑ y` (fuel `n`) -/
theorem mem_pre_iff_reach {P : Poset} {h : Nat → Nat} (A : Acyclic P h) (x y : Nat)
    (hy : y < P.n) : x ∈ pre P P.n y ↔ reach P P.n x y = true :=
  ⟨reach_of_mem_pre P P.n x y, mem_pre_of_reach A P.n x y P.n (A.hBound y hy)⟩


theorem reach_mono_succ (P : Poset) : ∀ (f a b : Nat), reach P f a b = true → reach P (f + 1) a b = true := by
  intro f
  induction f with
  | zero => intro a b hr; simp only [reach, beq_iff_eq] at hr; subst hr; exact reach_refl P _ _
  | succ f ih =>
    intro a b hr
    rcases (reach_succ_iff P f a b).mp hr with e | ⟨p, hp, hr⟩
    · subst e; exact reach_refl P _ _
    · exact (reach_succ_iff P (f + 1) a b).mpr (Or.inr ⟨p, hp, ih p b hr⟩)

/-! ### fuel stability and block structure -/

theorem flatMap_congr' {α β : Type} {l : List α} {f g : α → List β} (h : ∀ a ∈ l, f a = g a) :
    l.flatMap f = l.flatMap g := by
  induction l with
  | nil => rfl
  | cons a l ih =>
    simp only [List.flatMap_cons]
    rw [h a (by simp), ih (fun b hb => h b (by simp [hb]))]

theorem pre_fuel_stable {P : Poset} {h : Nat → Nat} (A : Acyclic P h) :
    ∀ (f1 f2 v : Nat), h v < f1 → h v < f2 → pre P f1 v = pre P f2 v := by
  intro f1
  induction f1 with
  | zero => intro f2 v h1; omega
  | succ f1 ih =>
    intro f2 v h1 h2
    obtain ⟨f2', rfl⟩ : ∃ g', f2 = g' + 1 := ⟨f2 - 1, by omega⟩
    simp only [pre]
    congr 1
    apply flatMap_congr'
    intro c hc
    have := A.hEdge (c, v) (mem_children.mp hc)
    simp only at this
    exact ih f2' c (by omega) (by omega)

/-- the listing of a descendant is a contiguous block of the listing of its ancestor -/
theorem pre_block {P : Poset} {h : Nat → Nat} (A : Acyclic P h) :
    ∀ (g x y : Nat), h y < g → x ∈ pre P g y → ∃ L R, pre P g y = L ++ pre P g x ++ R := by
  intro g
  induction g with
  | zero => intro x y hy; omega
  | succ g ih =>
    intro x y hy hx
    rcases (mem_pre_succ P g x y).mp hx with e | ⟨c, hc, hxc⟩
    · subst e; exact ⟨[], [], by simp⟩
    · have hch := A.hEdge (c, y) hc
      simp only at hch
      obtain ⟨L, R, hLR⟩ := ih x c (by omega) hxc
      have hxh := height_le_of_mem_pre A g x c hxc
      have hst : pre P g x = pre P (g + 1) x := pre_fuel_stable A g (g + 1) x (by omega) (by omega)
      obtain ⟨s, t, hst'⟩ := List.append_of_mem (mem_children.mpr hc)
      refine ⟨y :: s.flatMap (pre P g) ++ L, R ++ t.flatMap (pre P g), ?_⟩
      simp only [pre]
      rw [hst', List.flatMap_append, List.flatMap_cons, hLR, hst]
      simp [pre, List.append_assoc]

/-! ### forests: unique parents, chains of ancestors, duplicate-free listings -/

theorem parent_unique {P : Poset} {h : Nat → Nat} (F : IsForest P h) {x p p' : Nat}
    (h1 : (x, p) ∈ P.edges) (h2 : (x, p') ∈ P.edges) : p = p' := by
  have m1 := mem_parents.mpr h1
  have m2 := mem_parents.mpr h2
  have hl := F.onePar x
  match hps : P.parents x, hl with
  | [], _ => rw [hps] at m1; simp at m1
  | [a], _ =>
    rw [hps] at m1 m2
    simp only [List.mem_singleton] at m1 m2
    rw [m1, m2]
  | _ :: _ :: _, hl => simp at hl

theorem height_of_reach {P : Poset} {h : Nat → Nat} (A : Acyclic P h) :
    ∀ (f a b : Nat), reach P f a b = true → a = b ∨ h a < h b := by
  intro f
  induction f with
  | zero => intro a b hr; simp only [reach, beq_iff_eq] at hr; exact Or.inl hr
  | succ f ih =>
    intro a b hr
    rcases (reach_succ_iff P f a b).mp hr with e | ⟨p, hp, hr⟩
    · exact Or.inl e
    · have := A.hEdge (a, p) hp
      simp only at this
      rcases ih p b hr with e | hlt
      · subst e; exact Or.inr this
      · exact Or.inr (by omega)

/-- in a forest the ancestors of a node form a chain -/
theorem ancestors_chain {P : Poset} {h : Nat → Nat} (F : IsForest P h) :
    ∀ (f g x a b : Nat), reach P f x a = true → reach P g x b = true →
      reach P g a b = true ∨ reach P f b a = true := by
  intro f
  induction f with
  | zero =>
    intro g x a b ha hb
    simp only [reach, beq_iff_eq] at ha; subst ha
    exact Or.inl hb
  | succ f ih =>
    intro g x a b ha hb
    rcases (reach_succ_iff P f x a).mp ha with e | ⟨p, hp, hra⟩
    · subst e; exact Or.inl hb
    · cases g with
      | zero =>
        simp only [reach, beq_iff_eq] at hb; subst hb
        exact Or.inr ha
      | succ g =>
        rcases (reach_succ_iff P g x b).mp hb with e | ⟨p', hp', hrb⟩
        · subst e; exact Or.inr ha
        · have := parent_unique F hp hp'
          subst this
          rcases ih g p a b hra hrb with h1 | h1
          · left
            exact reach_mono_succ P _ _ _ h1
          · right
            exact reach_mono_succ P _ _ _ h1

/-- two children of `y` that are both above `x` coincide -/
theorem child_above_unique {P : Poset} {h : Nat → Nat} (F : IsForest P h) {f g x c1 c2 y : Nat}
    (h1 : reach P f x c1 = true) (h2 : reach P g x c2 = true)
    (e1 : (c1, y) ∈ P.edges) (e2 : (c2, y) ∈ P.edges) : c1 = c2 := by
  have hh1 := F.hEdge (c1, y) e1
  have hh2 := F.hEdge (c2, y) e2
  simp only at hh1 hh2
  have key : ∀ (k a b : Nat), (a, y) ∈ P.edges → h b < h y → reach P k a b = true → a = b := by
    intro k a b ea hb hr
    cases k with
    | zero => simp only [reach, beq_iff_eq] at hr; exact hr
    | succ k =>
      rcases (reach_succ_iff P k a b).mp hr with e | ⟨p, hp, hr⟩
      · exact e
      · have := parent_unique F hp ea
        subst this
        rcases height_of_reach F.toAcyclic k p b hr with e | hlt
        · subst e; omega
        · omega
  rcases ancestors_chain F f g x c1 c2 h1 h2 with hr | hr
  · exact key g c1 c2 e1 hh2 hr
  · exact (key f c2 c1 e2 hh1 hr).symm

theorem nodup_children_aux (v : Nat) : ∀ (es : List (Nat × Nat)), es.Nodup →
    ((es.filter (fun e => e.2 == v)).map (·.1)).Nodup := by
  intro es
  induction es with
  | nil => intro _; simp
  | cons e es ih =>
    intro hnd
    rw [List.nodup_cons] at hnd
    by_cases he : e.2 = v
    · have : (e.2 == v) = true := by simp [he]
      simp only [List.filter_cons, this, if_true, List.map_cons, List.nodup_cons]
      refine ⟨?_, ih hnd.2⟩
      intro hmem
      simp only [List.mem_map, List.mem_filter, beq_iff_eq] at hmem
      obtain ⟨⟨a, b⟩, ⟨hin, hb⟩, ha⟩ := hmem
      simp only at hb ha
      apply hnd.1
      have : e = (a, b) := by
        cases e with
        | mk e1 e2 => simp only at he ha; subst he; subst ha; rw [hb]
      rw [this]; exact hin
    · have : (e.2 == v) = false := by simp [he]
      simp only [List.filter_cons, this]
      exact ih hnd.2

theorem nodup_children {P : Poset} {h : Nat → Nat} (F : IsForest P h) (v : Nat) :
    (P.children v).Nodup := nodup_children_aux v P.edges F.edgesNodup

theorem nodup_pre {P : Poset} {h : Nat → Nat} (F : IsForest P h) :
    ∀ (g y : Nat), h y < g → (pre P g y).Nodup := by
  intro g
  induction g with
  | zero => intro y hy; omega
  | succ g ih =>
    intro y hy
    simp only [pre, List.nodup_cons]
    constructor
    · intro hmem
      simp only [List.mem_flatMap] at hmem
      obtain ⟨c, hc, hyc⟩ := hmem
      have h1 := height_le_of_mem_pre F.toAcyclic g y c hyc
      have h2 := F.hEdge (c, y) (mem_children.mp hc)
      simp only at h2; omega
    · unfold List.Nodup
      rw [List.pairwise_flatMap]
      constructor
      · intro c hc
        have h2 := F.hEdge (c, y) (mem_children.mp hc)
        simp only at h2
        exact ih c (by omega)
      · refine List.Pairwise.imp_of_mem ?_ (nodup_children F y)
        intro c1 c2 hc1 hc2 hne x hx1 x' hx2 heq
        subst heq
        exact hne (child_above_unique F (reach_of_mem_pre P g x c1 hx1)
          (reach_of_mem_pre P g x c2 hx2) (mem_children.mp hc1) (mem_children.mp hc2))

theorem mem_roots {P : Poset} {r : Nat} : r ∈ P.roots ↔ r < P.n ∧ P.parents r = [] := by
  simp [Poset.roots, List.mem_filter, List.isEmpty_iff]

theorem nodup_order {P : Poset} {h : Nat → Nat} (F : IsForest P h) : (order P).Nodup := by
  unfold order List.Nodup
  rw [List.pairwise_flatMap]
  constructor
  · intro r hr
    exact nodup_pre F P.n r (F.hBound r (mem_roots.mp hr).1)
  · have hnd : P.roots.Nodup := List.Pairwise.filter _ List.nodup_range
    refine List.Pairwise.imp_of_mem ?_ hnd
    intro r1 r2 hr1 hr2 hne x hx1 x' hx2 heq
    subst heq
    have key : ∀ (k a b : Nat), P.parents a = [] → reach P k a b = true → a = b := by
      intro k a b hpa hr
      cases k with
      | zero => simp only [reach, beq_iff_eq] at hr; exact hr
      | succ k =>
        rcases (reach_succ_iff P k a b).mp hr with e | ⟨p, hp, _⟩
        · exact e
        · have := mem_parents.mpr hp; rw [hpa] at this; simp at this
    rcases ancestors_chain F P.n P.n x r1 r2 (reach_of_mem_pre P _ x r1 hx1)
      (reach_of_mem_pre P _ x r2 hx2) with hr | hr
    · exact hne (key _ r1 r2 (mem_roots.mp hr1).2 hr)
    · exact hne (key _ r2 r1 (mem_roots.mp hr2).2 hr).symm

/-- every node sits under some root -/
theorem exists_root {P : Poset} {h : Nat → Nat} (A : Acyclic P h) :
    ∀ (k y : Nat), P.n - h y ≤ k → y < P.n → ∃ r f, r ∈ P.roots ∧ reach P f y r = true := by
  intro k
  induction k with
  | zero =>
    intro y hk hy
    have := A.hBound y hy; omega
  | succ k ih =>
    intro y hk hy
    cases hp : P.parents y with
    | nil => exact ⟨y, 0, mem_roots.mpr ⟨hy, hp⟩, reach_refl P 0 y⟩
    | cons p ps =>
      have hpe : (y, p) ∈ P.edges := mem_parents.mp (by rw [hp]; simp)
      have hh := A.hEdge (y, p) hpe
      have hr := (A.inRange (y, p) hpe).2
      simp only at hh hr
      obtain ⟨r, f, hr1, hr2⟩ := ih p (by omega) hr
      exact ⟨r, f + 1, hr1, (reach_succ_iff P f y r).mpr (Or.inr ⟨p, hpe, hr2⟩)⟩

/-- every node's listing is a contiguous block of the rank table -/
theorem order_block {P : Poset} {h : Nat → Nat} (A : Acyclic P h) (y : Nat) (hy : y < P.n) :
    ∃ L R, order P = L ++ pre P P.n y ++ R := by
  obtain ⟨r, f, hr, hreach⟩ := exists_root A (P.n - h y) y (Nat.le_refl _) hy
  have hrn := (mem_roots.mp hr).1
  have hmem := mem_pre_of_reach A f y r P.n (A.hBound r hrn) hreach
  obtain ⟨L, R, hLR⟩ := pre_block A P.n y r (A.hBound r hrn) hmem
  obtain ⟨s, t, hst⟩ := List.append_of_mem hr
  refine ⟨s.flatMap (pre P P.n) ++ L, R ++ t.flatMap (pre P P.n), ?_⟩
  unfold order
  rw [hst, List.flatMap_append, List.flatMap_cons, hLR]
  simp [List.append_assoc]

/-! ### the labels -/

theorem tinOf_eq (P : Poset) (y : Nat) (hy : y < P.n) :
    (buildNested P).tinOf y = (order P).idxOf y := by
  simp [buildNested, Nested.tinOf, List.getD_eq_getElem?_getD, List.getElem?_map,
    List.getElem?_range, hy]

theorem toutOf_eq (P : Poset) (y : Nat) (hy : y < P.n) :
    (buildNested P).toutOf y = (order P).idxOf y + (pre P P.n y).length - 1 := by
  simp [buildNested, Nested.toutOf, subtreeSize, List.getD_eq_getElem?_getD, List.getElem?_map,
    List.getElem?_range, hy]

theorem pre_head (P : Poset) (y : Nat) (hy : y < P.n) :
    ∃ tl, pre P P.n y = y :: tl := by
  obtain ⟨k, hk⟩ : ∃ k, P.n = k + 1 := ⟨P.n - 1, by omega⟩
  rw [hk]; exact ⟨_, rfl⟩

theorem idxOf_block {l L B R : List Nat} {y : Nat} (h : l = L ++ (y :: B) ++ R) (nd : l.Nodup) :
    l.idxOf y = L.length := by
  subst h
  have hnot : y ∉ L := by
    intro hm
    rw [List.append_assoc, List.nodup_append] at nd
    exact nd.2.2 y hm y (by simp) rfl
  rw [List.append_assoc, List.idxOf_append]
  simp [hnot]

/-- position and extent of `y`'s block in the rank table -/
theorem block_labels {P : Poset} {h : Nat → Nat} (F : IsForest P h) (y : Nat) (hy : y < P.n) :
    ∃ L R, order P = L ++ pre P P.n y ++ R ∧ (buildNested P).tinOf y = L.length
      ∧ (buildNested P).toutOf y + 1 = L.length + (pre P P.n y).length := by
  obtain ⟨L, R, hLR⟩ := order_block F.toAcyclic y hy
  obtain ⟨tl, htl⟩ := pre_head P y hy
  have hidx : (order P).idxOf y = L.length := by
    rw [htl] at hLR
    exact idxOf_block hLR (nodup_order F)
  refine ⟨L, R, hLR, by rw [tinOf_eq P y hy, hidx], ?_⟩
  rw [toutOf_eq P y hy, hidx, htl]
  simp; omega

/-- any decomposition of the rank table around `x`'s block pins `tin x` -/
theorem tin_of_decomp {P : Poset} {h : Nat → Nat} (F : IsForest P h) (x : Nat) (hx : x < P.n)
    {L R : List Nat} (hd : order P = L ++ pre P P.n x ++ R) :
    (buildNested P).tinOf x = L.length := by
  obtain ⟨tl, htl⟩ := pre_head P x hx
  rw [htl] at hd
  rw [tinOf_eq P x hx]
  exact idxOf_block hd (nodup_order F)

theorem mem_pre_lt {P : Poset} {h : Nat → Nat} (A : Acyclic P h) :
    ∀ (f x y : Nat), y < P.n → x ∈ pre P f y → x < P.n := by
  intro f
  induction f with
  | zero => intro x y _ hx; simp [pre] at hx
  | succ f ih =>
    intro x y hy hx
    rcases (mem_pre_succ P f x y).mp hx with e | ⟨c, hc, hxc⟩
    · subst e; exact hy
    · exact ih x c (A.inRange (c, y) hc).1 hxc

/-- `descendants(y)` read off the rank table is exactly the DFS listing of `y` -/
theorem nested_descendants_eq_pre {P : Poset} {h : Nat → Nat} (F : IsForest P h) (y : Nat)
    (hy : y < P.n) : (buildNested P).descendants y = pre P P.n y := by
  obtain ⟨L, R, hLR, htin, htout⟩ := block_labels F y hy
  unfold Nested.descendants
  have hinv : (buildNested P).inv = order P := rfl
  rw [hinv, hLR, htin]
  have : (buildNested P).toutOf y + 1 - L.length = (pre P P.n y).length := by omega
  rw [this, List.append_assoc, List.drop_left, List.take_left]

/-- interval containment is membership in the listing -/
theorem nested_subsumes_iff_mem {P : Poset} {h : Nat → Nat} (F : IsForest P h) (x y : Nat)
    (hx : x < P.n) (hy : y < P.n) :
    (buildNested P).subsumes x y = true ↔ x ∈ pre P P.n y := by
  obtain ⟨L, R, hLR, htin, htout⟩ := block_labels F y hy
  obtain ⟨Lx, Rx, hLRx, htinx, htoutx⟩ := block_labels F x hx
  obtain ⟨tlx, htlx⟩ := pre_head P x hx
  simp only [Nested.subsumes, Bool.and_eq_true, decide_eq_true_eq]
  constructor
  · rintro ⟨h1, h2⟩
    -- x is the element of the rank table at position tin x, which lies inside y's block
    have hpos : 0 < (pre P P.n x).length := by rw [htlx]; simp
    have hlt : (buildNested P).tinOf x < L.length + (pre P P.n y).length := by omega
    have hge : L.length ≤ (buildNested P).tinOf x := by omega
    have hxget : (order P)[(buildNested P).tinOf x]? = some x := by
      rw [hLRx, htinx, List.append_assoc, List.getElem?_append_right (Nat.le_refl _), htlx]
      simp
    rw [hLR, List.append_assoc, List.getElem?_append_right hge,
      List.getElem?_append_left (by omega)] at hxget
    exact List.mem_of_getElem? hxget
  · intro hmem
    obtain ⟨A, B, hAB⟩ := pre_block F.toAcyclic P.n x y (F.hBound y hy) hmem
    have hd : order P = (L ++ A) ++ pre P P.n x ++ (B ++ R) := by
      rw [hLR, hAB]; simp [List.append_assoc]
    have htx := tin_of_decomp F x hx hd
    have hlen : (pre P P.n y).length = A.length + (pre P P.n x).length + B.length := by
      rw [hAB]; simp [List.length_append]; omega
    rw [List.length_append] at htx
    constructor <;> omega

end SgModel.Oeh
