import SgModel.Model.IdxScan
/-!
Helper lemmas for C02 (`IdxScan`): the key order is a strict total order (via the embedding
`ikey`), the probe ranges contain every matching key, the B-tree insert/remove keep the map
well formed and have the expected entries.  Core Lean only.
-/
namespace SgModel.IdxScan


theorem lexLt_irrefl : ∀ a, lexLt a a = false
  | [] => rfl
  | x :: xs => by simp [lexLt, lexLt_irrefl xs]

theorem lexLt_trans : ∀ a b c, lexLt a b = true → lexLt b c = true → lexLt a c = true
  | [], [], _, h, _ => by simp [lexLt] at h
  | [], _ :: _, [], _, h => by simp [lexLt] at h
  | [], _ :: _, _ :: _, _, _ => by simp [lexLt]
  | _ :: _, [], _, h, _ => by simp [lexLt] at h
  | _ :: _, _ :: _, [], _, h => by simp [lexLt] at h
  | x :: xs, y :: ys, z :: zs, h1, h2 => by
    simp only [lexLt, Bool.or_eq_true, Bool.and_eq_true, decide_eq_true_eq] at h1 h2 ⊢
    rcases h1 with h1 | ⟨e1, h1⟩ <;> rcases h2 with h2 | ⟨e2, h2⟩
    · left; omega
    · left; omega
    · left; omega
    · right; exact ⟨by omega, lexLt_trans xs ys zs h1 h2⟩

theorem lexLt_total : ∀ a b, lexLt a b = true ∨ a = b ∨ lexLt b a = true
  | [], [] => by simp
  | [], _ :: _ => by simp [lexLt]
  | _ :: _, [] => by simp [lexLt]
  | x :: xs, y :: ys => by
    simp only [lexLt, Bool.or_eq_true, Bool.and_eq_true, decide_eq_true_eq, List.cons.injEq]
    rcases Int.lt_trichotomy x y with h | h | h
    · left; left; exact h
    · rcases lexLt_total xs ys with h' | h' | h'
      · left; right; exact ⟨h, h'⟩
      · right; left; exact ⟨h, h'⟩
      · right; right; right; exact ⟨h.symm, h'⟩
    · right; right; left; exact h

theorem lexLt_asymm (a b : List Int) (h : lexLt a b = true) : lexLt b a = false := by
  cases hb : lexLt b a with
  | false => rfl
  | true => have := lexLt_trans a b a h hb; rw [lexLt_irrefl] at this; cases this

theorem ikey_inj : ∀ a b, ikey a = ikey b → a = b := by
  intro a b h
  cases a <;> cases b <;> simp [ikey] at h <;> try (first | rfl | omega)
  all_goals (try (subst h; rfl))
  all_goals (try (split at h <;> split at h <;> simp_all))
  all_goals (try (congr 1; omega))

theorem idxLt_irrefl (a : Val) : idxLt a a = false := lexLt_irrefl _
theorem idxLt_trans {a b c : Val} : idxLt a b = true → idxLt b c = true → idxLt a c = true :=
  lexLt_trans _ _ _
theorem idxLt_asymm {a b : Val} (h : idxLt a b = true) : idxLt b a = false := lexLt_asymm _ _ h
theorem idxLt_total (a b : Val) : idxLt a b = true ∨ a = b ∨ idxLt b a = true := by
  rcases lexLt_total (ikey a) (ikey b) with h | h | h
  · exact Or.inl h
  · exact Or.inr (Or.inl (ikey_inj _ _ h))
  · exact Or.inr (Or.inr h)

/-! ### the probe ranges are a superset of the matches -/

theorem probe_superset_eq_str (s : List Int) (k : Val) (h : coercedEq k (.str s) = true) :
    ∃ r ∈ probeRanges .eq (.str s), inRange r k = true := by
  cases k with
  | str a =>
    simp [coercedEq] at h; subst h
    exact ⟨_, List.mem_cons_self, by simp [inRange, aboveLo, belowHi, idxLt_irrefl]⟩
  | bool b =>
    simp only [coercedEq] at h
    by_cases ht : lowerStr s = strTrue
    · simp [ht] at h; subst h
      exact ⟨(.incl (.bool true), .incl (.bool true)), by simp [probeRanges, ht],
        by simp [inRange, aboveLo, belowHi, idxLt_irrefl]⟩
    · by_cases hf : lowerStr s = strFalse
      · simp [ht, hf] at h; subst h
        exact ⟨(.incl (.bool false), .incl (.bool false)), by simp [probeRanges, hf, show strFalse ≠ strTrue by decide],
          by simp [inRange, aboveLo, belowHi, idxLt_irrefl]⟩
      · simp [ht, hf] at h
  | _ => simp [coercedEq] at h

theorem probe_superset (op : CmpOp) (k v : Val) (h : cmpCy op k v = true) :
    ∃ r ∈ probeRanges op v, inRange r k = true := by
  by_cases hs : ∃ s, op = .eq ∧ v = .str s
  · obtain ⟨s, rfl, rfl⟩ := hs
    exact probe_superset_eq_str s k h
  · cases op <;> cases v <;> cases k <;>
      simp [cmpCy, coercedEq, cyLt, num, probeRanges, inRange, aboveLo, belowHi, idxLt, ikey, lexLt] at h hs ⊢
    all_goals first
      | omega
      | exact lexLt_asymm _ _ h
      | (rcases h with h | ⟨_, h⟩
         · exact lexLt_asymm _ _ h
         · exact h)
      | (rcases h with h | ⟨h, _⟩
         · exact lexLt_asymm _ _ h
         · exact h)
      | (rename_i a b; cases a <;> cases b <;> simp_all <;> done)

/-! ### the B-tree map -/

def KeysSorted (t : Index) : Prop := (t.map (·.1)).Pairwise (fun a b => idxLt a b = true)
def BucketsNodup (t : Index) : Prop := ∀ e ∈ t, e.2.Nodup
def WF (t : Index) : Prop := KeysSorted t ∧ BucketsNodup t

theorem mem_entries {t : Index} {v : Val} {id : Nat} :
    (v, id) ∈ entries t ↔ ∃ b, (v, b) ∈ t ∧ id ∈ b := by
  simp only [entries, List.mem_flatMap, List.mem_map, Prod.mk.injEq]
  constructor
  · rintro ⟨⟨k, b⟩, he, x, hx, rfl, rfl⟩; exact ⟨b, he, hx⟩
  · rintro ⟨b, he, hx⟩; exact ⟨(v, b), he, id, hx, rfl, rfl⟩

theorem entries_cons (k : Val) (b : List Nat) (t : Index) :
    entries ((k, b) :: t) = b.map (fun id => (k, id)) ++ entries t := by
  simp [entries]

theorem mem_entries_insert (t : Index) (v : Val) (i : Nat) (v' : Val) (i' : Nat) :
    (v', i') ∈ entries (insert t v i) ↔ (v' = v ∧ i' = i) ∨ (v', i') ∈ entries t := by
  induction t with
  | nil => simp [insert, entries]
  | cons e rest ih =>
    obtain ⟨k, b⟩ := e
    simp only [insert]
    split
    · simp [entries_cons]
    · split
      · rename_i h1 h2; subst h2
        simp only [entries_cons, List.mem_append, List.mem_map, Prod.mk.injEq]
        by_cases hm : i ∈ b
        · simp only [hm, if_true]
          constructor
          · intro h; exact Or.inr h
          · rintro (⟨rfl, rfl⟩ | h)
            · exact Or.inl ⟨i', hm, rfl, rfl⟩
            · exact h
        · simp only [hm, if_false, List.mem_cons]
          constructor
          · rintro (⟨x, (rfl | hx), rfl, rfl⟩ | h)
            · exact Or.inl ⟨rfl, rfl⟩
            · exact Or.inr (Or.inl ⟨_, hx, rfl, rfl⟩)
            · exact Or.inr (Or.inr h)
          · rintro (⟨rfl, rfl⟩ | ⟨x, hx, rfl, rfl⟩ | h)
            · exact Or.inl ⟨_, Or.inl rfl, rfl, rfl⟩
            · exact Or.inl ⟨_, Or.inr hx, rfl, rfl⟩
            · exact Or.inr h
      · simp only [entries_cons, List.mem_append, ih]
        constructor
        · rintro (h | h | h)
          · exact Or.inr (Or.inl h)
          · exact Or.inl h
          · exact Or.inr (Or.inr h)
        · rintro (h | h | h)
          · exact Or.inr (Or.inl h)
          · exact Or.inl h
          · exact Or.inr (Or.inr h)

theorem keys_insert (t : Index) (v : Val) (i : Nat) :
    ∀ k ∈ (insert t v i).map (·.1), k = v ∨ k ∈ t.map (·.1) := by
  induction t with
  | nil => simp [insert]
  | cons e rest ih =>
    obtain ⟨k0, b⟩ := e
    simp only [insert]
    split
    · intro k hk; simp at hk ⊢; exact hk
    · split
      · intro k hk; simp at hk ⊢; exact Or.inr hk
      · intro k hk
        simp only [List.map_cons, List.mem_cons] at hk ⊢
        rcases hk with rfl | hk
        · exact Or.inr (Or.inl rfl)
        · rcases ih k hk with h | h
          · exact Or.inl h
          · exact Or.inr (Or.inr h)

theorem keysSorted_insert {t : Index} (h : KeysSorted t) (v : Val) (i : Nat) :
    KeysSorted (insert t v i) := by
  induction t with
  | nil => simp [insert, KeysSorted]
  | cons e rest ih =>
    obtain ⟨k0, b⟩ := e
    simp only [KeysSorted, List.map_cons, List.pairwise_cons] at h
    simp only [insert]
    split
    · rename_i hlt
      simp only [KeysSorted, List.map_cons, List.pairwise_cons, List.mem_cons]
      refine ⟨?_, h⟩
      rintro k (rfl | hk)
      · exact hlt
      · exact idxLt_trans hlt (h.1 k hk)
    · split
      · simp only [KeysSorted, List.map_cons, List.pairwise_cons]; exact h
      · rename_i h1 h2
        have hgt : idxLt k0 v = true := by
          rcases idxLt_total v k0 with h' | h' | h'
          · exact absurd h' h1
          · exact absurd h' h2
          · exact h'
        simp only [KeysSorted, List.map_cons, List.pairwise_cons]
        refine ⟨?_, ih h.2⟩
        intro k hk
        rcases keys_insert rest v i k hk with rfl | hk'
        · exact hgt
        · exact h.1 k hk'

theorem bucketsNodup_insert {t : Index} (h : BucketsNodup t) (v : Val) (i : Nat) :
    BucketsNodup (insert t v i) := by
  induction t with
  | nil => intro e he; simp [insert] at he; subst he; simp
  | cons e rest ih =>
    obtain ⟨k0, b⟩ := e
    have hb : b.Nodup := h (k0, b) List.mem_cons_self
    have hr : BucketsNodup rest := fun e he => h e (List.mem_cons_of_mem _ he)
    simp only [insert]
    split
    · intro e he
      simp only [List.mem_cons] at he
      rcases he with rfl | rfl | he
      · simp
      · exact hb
      · exact hr e he
    · split
      · intro e he
        simp only [List.mem_cons] at he
        rcases he with rfl | he
        · by_cases hm : i ∈ b
          · simp [hm, hb]
          · simp [hm, hb]
        · exact hr e he
      · intro e he
        simp only [List.mem_cons] at he
        rcases he with rfl | he
        · exact hb
        · exact ih hr e he

theorem wf_insert {t : Index} (h : WF t) (v : Val) (i : Nat) : WF (insert t v i) :=
  ⟨keysSorted_insert h.1 v i, bucketsNodup_insert h.2 v i⟩

theorem remove_keys_sublist (t : Index) (v : Val) (i : Nat) :
    ((remove t v i).map (·.1)).Sublist (t.map (·.1)) := by
  induction t with
  | nil => simp [remove]
  | cons e rest ih =>
    obtain ⟨k0, b⟩ := e
    simp only [remove]
    split
    · split
      · simp
      · simp
    · simp [ih]

theorem bucketsNodup_remove {t : Index} (h : BucketsNodup t) (v : Val) (i : Nat) :
    BucketsNodup (remove t v i) := by
  induction t with
  | nil => intro e he; simp [remove] at he
  | cons e0 rest ih =>
    obtain ⟨k0, b⟩ := e0
    have hb : b.Nodup := h (k0, b) List.mem_cons_self
    have hr : BucketsNodup rest := fun e he => h e (List.mem_cons_of_mem _ he)
    simp only [remove]
    split
    · split
      · exact hr
      · intro e he
        simp only [List.mem_cons] at he
        rcases he with rfl | he
        · exact List.Nodup.sublist List.filter_sublist hb
        · exact hr e he
    · intro e he
      simp only [List.mem_cons] at he
      rcases he with rfl | he
      · exact hb
      · exact ih hr e he

theorem wf_remove {t : Index} (h : WF t) (v : Val) (i : Nat) : WF (remove t v i) :=
  ⟨List.Pairwise.sublist (remove_keys_sublist t v i) h.1, bucketsNodup_remove h.2 v i⟩

theorem mem_entries_remove {t : Index} (h : KeysSorted t) (v : Val) (i : Nat) (v' : Val) (i' : Nat) :
    (v', i') ∈ entries (remove t v i) ↔ (v', i') ∈ entries t ∧ ¬(v' = v ∧ i' = i) := by
  induction t with
  | nil => simp [remove, entries]
  | cons e rest ih =>
    obtain ⟨k0, b⟩ := e
    simp only [KeysSorted, List.map_cons, List.pairwise_cons] at h
    have hrest : ∀ x, (k0, x) ∉ entries rest := by
      intro x hx
      obtain ⟨b', hb', _⟩ := mem_entries.mp hx
      have := h.1 k0 (List.mem_map.mpr ⟨(k0, b'), hb', rfl⟩)
      rw [idxLt_irrefl] at this; cases this
    simp only [remove]
    split
    · rename_i hv; subst hv
      have key : (v', i') ∈ (b.filter (· != i)).map (fun id => (v, id)) ++ entries rest ↔
          (v', i') ∈ entries ((v, b) :: rest) ∧ ¬(v' = v ∧ i' = i) := by
        simp only [entries_cons, List.mem_append, List.mem_map, List.mem_filter, Prod.mk.injEq,
          bne_iff_ne, ne_eq]
        constructor
        · rintro (⟨x, ⟨hx, hne⟩, rfl, rfl⟩ | hr)
          · exact ⟨Or.inl ⟨_, hx, rfl, rfl⟩, fun h => hne h.2⟩
          · refine ⟨Or.inr hr, ?_⟩
            rintro ⟨rfl, rfl⟩; exact hrest _ hr
        · rintro ⟨(⟨x, hx, rfl, rfl⟩ | hr), hne⟩
          · exact Or.inl ⟨_, ⟨hx, fun h => hne ⟨rfl, h⟩⟩, rfl, rfl⟩
          · exact Or.inr hr
      split
      · rename_i hemp
        rw [← key]
        have : b.filter (· != i) = [] := by simpa using hemp
        simp [this]
      · rw [← key, entries_cons]
    · rename_i hv
      simp only [entries_cons, List.mem_append, ih h.2, List.mem_map, Prod.mk.injEq]
      constructor
      · rintro (⟨x, hx, rfl, rfl⟩ | ⟨hr, hne⟩)
        · exact ⟨Or.inl ⟨_, hx, rfl, rfl⟩, fun h => hv h.1.symm⟩
        · exact ⟨Or.inr hr, hne⟩
      · rintro ⟨(⟨x, hx, rfl, rfl⟩ | hr), hne⟩
        · exact Or.inl ⟨_, hx, rfl, rfl⟩
        · exact Or.inr ⟨hr, hne⟩

theorem entries_nodup {t : Index} (h : WF t) : (entries t).Nodup := by
  induction t with
  | nil => simp [entries]
  | cons e rest ih =>
    obtain ⟨k0, b⟩ := e
    have hs := h.1
    simp only [KeysSorted, List.map_cons, List.pairwise_cons] at hs
    have hb : b.Nodup := h.2 (k0, b) List.mem_cons_self
    have hr : WF rest := ⟨hs.2, fun e he => h.2 e (List.mem_cons_of_mem _ he)⟩
    rw [entries_cons, List.nodup_append]
    refine ⟨?_, ih hr, ?_⟩
    · exact List.Pairwise.map (fun id => (k0, id)) (fun a b h => by simpa using h) hb
    · intro x hx y hy hxy
      subst hxy
      simp only [List.mem_map] at hx
      obtain ⟨i, _, rfl⟩ := hx
      obtain ⟨b', hb', _⟩ := mem_entries.mp hy
      have := hs.1 k0 (List.mem_map.mpr ⟨(k0, b'), hb', rfl⟩)
      rw [idxLt_irrefl] at this; cases this

end SgModel.IdxScan
