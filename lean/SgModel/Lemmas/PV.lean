import SgModel.Model.PV
/-!
Helper lemmas for C10: the comparison helpers are lawful, lexicographic lifting, the numeric
block (Integer/Float under an abstract monotone NaN-free conversion), and the mutual
inductions over `PV`/`PVs`/`PVm`.
-/
namespace SgModel.PV

/-! ## a comparator is *lawful* when `eq` is identity, swapping mirrors, and `lt` is transitive -/

structure Lawful {α : Type} (c : α → α → Ordering) : Prop where
  eq_iff : ∀ a b, c a b = .eq ↔ a = b
  swap : ∀ a b, c b a = (c a b).swap
  trans : ∀ a b d, c a b = .lt → c b d = .lt → c a d = .lt

theorem Lawful.refl {α : Type} {c : α → α → Ordering} (h : Lawful c) (a : α) : c a a = .eq :=
  (h.eq_iff a a).2 rfl

/-- split every `if`, then close by linear arithmetic -/
macro "ord_arith" : tactic =>
  `(tactic| ((repeat' split) <;> first | omega | (simp at * <;> omega) | simp_all))

theorem cmpNat_lawful : Lawful cmpNat where
  eq_iff a b := by unfold cmpNat; ord_arith
  swap a b := by unfold cmpNat; ord_arith
  trans a b d := by unfold cmpNat; ord_arith

theorem cmpInt_lawful : Lawful cmpInt where
  eq_iff a b := by unfold cmpInt; ord_arith
  swap a b := by unfold cmpInt; ord_arith
  trans a b d := by unfold cmpInt; ord_arith

theorem cmpBool_lawful : Lawful cmpBool where
  eq_iff a b := by cases a <;> cases b <;> decide
  swap a b := by cases a <;> cases b <;> decide
  trans a b d := by cases a <;> cases b <;> cases d <;> decide

theorem then_eq_eq {a b : Ordering} : a.then b = .eq ↔ a = .eq ∧ b = .eq := by
  cases a <;> cases b <;> decide

theorem then_eq_lt {a b : Ordering} : a.then b = .lt ↔ a = .lt ∨ (a = .eq ∧ b = .lt) := by
  cases a <;> cases b <;> decide

theorem then_swap {a b : Ordering} : (a.then b).swap = a.swap.then b.swap := by
  cases a <;> cases b <;> decide

/-- lexicographic lifting -/
theorem cmpLex_lawful {α : Type} {c : α → α → Ordering} (h : Lawful c) : Lawful (cmpLex c) where
  eq_iff a := by
    induction a with
    | nil => intro b; cases b <;> simp [cmpLex]
    | cons x xs ih =>
      intro b
      cases b with
      | nil => simp [cmpLex]
      | cons y ys => simp [cmpLex, h.eq_iff, ih]
  swap a := by
    induction a with
    | nil => intro b; cases b <;> simp [cmpLex, Ordering.swap]
    | cons x xs ih =>
      intro b
      cases b with
      | nil => simp [cmpLex, Ordering.swap]
      | cons y ys => simp only [cmpLex, then_swap, h.swap x y, ih]
  trans a := by
    induction a with
    | nil =>
      intro b d h1 h2
      cases b <;> cases d <;> simp_all [cmpLex]
    | cons x xs ih =>
      intro b d h1 h2
      cases b with
      | nil => simp [cmpLex] at h1
      | cons y ys =>
        cases d with
        | nil => simp [cmpLex] at h2
        | cons z zs =>
          simp only [cmpLex, then_eq_lt] at h1 h2 ⊢
          rcases h1 with h1 | ⟨e1, h1⟩ <;> rcases h2 with h2 | ⟨e2, h2⟩
          · exact Or.inl (h.trans _ _ _ h1 h2)
          · rw [(h.eq_iff _ _).1 e2] at h1; exact Or.inl h1
          · rw [← (h.eq_iff _ _).1 e1] at h2; exact Or.inl h2
          · rw [(h.eq_iff _ _).1 e1, (h.eq_iff _ _).1 e2]
            exact Or.inr ⟨h.refl z, ih _ _ h1 h2⟩

namespace F64

theorem totalKey_inj {x y : Nat} : totalKey x = totalKey y ↔ x = y := by
  unfold totalKey; ord_arith

theorem totalCmp_lawful : Lawful totalCmp where
  eq_iff a b := by unfold totalCmp; rw [cmpInt_lawful.eq_iff, totalKey_inj]
  swap a b := by unfold totalCmp; exact cmpInt_lawful.swap _ _
  trans a b d := by unfold totalCmp; exact cmpInt_lawful.trans _ _ _

end F64

theorem cmpDur_eq_iff (m1 d1 s1 n1 m2 d2 s2 n2 : Int) :
    cmpDur m1 d1 s1 n1 m2 d2 s2 n2 = .eq ↔ (m1 = m2 ∧ d1 = d2 ∧ s1 = s2 ∧ n1 = n2) := by
  simp only [cmpDur, then_eq_eq, cmpInt_lawful.eq_iff]

theorem cmpDur_swap (m1 d1 s1 n1 m2 d2 s2 n2 : Int) :
    cmpDur m2 d2 s2 n2 m1 d1 s1 n1 = (cmpDur m1 d1 s1 n1 m2 d2 s2 n2).swap := by
  simp only [cmpDur, then_swap, cmpInt_lawful.swap m1 m2, cmpInt_lawful.swap d1 d2,
    cmpInt_lawful.swap s1 s2, cmpInt_lawful.swap n1 n2]

theorem cmpInt_lt_iff (a b : Int) : cmpInt a b = .lt ↔ a < b := by unfold cmpInt; ord_arith
theorem cmpNat_lt_iff (a b : Nat) : cmpNat a b = .lt ↔ a < b := by unfold cmpNat; ord_arith
theorem cmpNat_gt_iff (a b : Nat) : cmpNat a b = .gt ↔ b < a := by unfold cmpNat; ord_arith

theorem cmpDur_trans (m1 d1 s1 n1 m2 d2 s2 n2 m3 d3 s3 n3 : Int)
    (h1 : cmpDur m1 d1 s1 n1 m2 d2 s2 n2 = .lt) (h2 : cmpDur m2 d2 s2 n2 m3 d3 s3 n3 = .lt) :
    cmpDur m1 d1 s1 n1 m3 d3 s3 n3 = .lt := by
  simp only [cmpDur, then_eq_lt, cmpInt_lawful.eq_iff, cmpInt_lt_iff] at h1 h2 ⊢
  omega

/-! ## the numeric block: Integer / Float under a monotone, NaN-free conversion -/

section Num
open F64

structure CastOK (cast : Int → Nat) : Prop where
  mono : ∀ i j, i ≤ j → F64.ieeeKey (cast i) ≤ F64.ieeeKey (cast j)
  noNaN : ∀ i, F64.isNaN (cast i) = false

/-- `Integer(a) < Float(f)` in arithmetic terms -/
theorem cmpIF_lt_iff {cast : Int → Nat} (h : CastOK cast) (a : Int) (f : Nat) :
    cmpIF cast a f = .lt ↔
      (isNaN f = false ∧ ieeeKey (cast a) ≤ ieeeKey f) ∨ (isNaN f = true ∧ isNeg f = false) := by
  unfold cmpIF partialCmp
  rw [h.noNaN a]
  cases hf : isNaN f <;> cases hg : isNeg f <;> simp [cmpInt] <;> ord_arith

theorem cmpFI_lt_iff {cast : Int → Nat} (h : CastOK cast) (f : Nat) (b : Int) :
    cmpFI cast f b = .lt ↔
      (isNaN f = false ∧ ieeeKey f < ieeeKey (cast b)) ∨ (isNaN f = true ∧ isNeg f = true) := by
  unfold cmpFI partialCmp
  rw [h.noNaN b]
  cases hf : isNaN f <;> cases hg : isNeg f <;> simp [cmpInt] <;> ord_arith

theorem cmpFI_swap {cast : Int → Nat} (h : CastOK cast) (a : Int) (f : Nat) :
    cmpFI cast f a = (cmpIF cast a f).swap := by
  unfold cmpFI cmpIF partialCmp
  rw [h.noNaN a]
  cases hf : isNaN f <;> cases hg : isNeg f <;> simp [cmpInt] <;> ord_arith

theorem cmpIF_ne_eq {cast : Int → Nat} (a : Int) (f : Nat) : cmpIF cast a f ≠ .eq := by
  unfold cmpIF
  split
  · rename_i o _; cases o <;> simp [Ordering.then]
  · split <;> simp

theorem totalCmp_lt_iff (f g : Nat) : totalCmp f g = .lt ↔ totalKey f < totalKey g := by
  unfold totalCmp; exact cmpInt_lt_iff _ _

theorem key_spec (x : Nat) :
    ((x < 0x8000000000000000 ∧ totalKey x = x) ∨
      (0x8000000000000000 ≤ x ∧ totalKey x = 0x7FFFFFFFFFFFFFFF - (x : Int))) ∧
    ((x = 0x8000000000000000 ∧ ieeeKey x = 0) ∨ (x ≠ 0x8000000000000000 ∧ ieeeKey x = totalKey x)) := by
  unfold ieeeKey totalKey; ord_arith

/-- arithmetic over the keys of the three bit patterns `x y z` (as atoms, with their case specs) -/
syntax "num_arith" term:max term:max term:max : tactic
macro_rules
  | `(tactic| num_arith $x $y $z) =>
    `(tactic| (have kx := key_spec $x; have ky := key_spec $y; have kz := key_spec $z
               simp only [isNaN, isNeg, decide_eq_true_eq, decide_eq_false_iff_not] at *
               generalize totalKey $x = tx at *; generalize ieeeKey $x = ix at *
               generalize totalKey $y = ty at *; generalize ieeeKey $y = iy at *
               generalize totalKey $z = tz at *; generalize ieeeKey $z = iz at *
               omega))

theorem num_IIF {cast : Int → Nat} (h : CastOK cast) (a b : Int) (f : Nat)
    (h1 : cmpInt a b = .lt) (h2 : cmpIF cast b f = .lt) : cmpIF cast a f = .lt := by
  rw [cmpInt_lt_iff] at h1
  rw [cmpIF_lt_iff h] at h2 ⊢
  have hm := h.mono a b (by omega)
  have na := h.noNaN a
  have nb := h.noNaN b
  generalize cast a = ca at *
  generalize cast b = cb at *
  num_arith ca cb f

theorem num_IFI {cast : Int → Nat} (h : CastOK cast) (a : Int) (f : Nat) (c : Int)
    (h1 : cmpIF cast a f = .lt) (h2 : cmpFI cast f c = .lt) : cmpInt a c = .lt := by
  rw [cmpInt_lt_iff]
  rw [cmpIF_lt_iff h] at h1
  rw [cmpFI_lt_iff h] at h2
  apply Decidable.byContradiction
  intro hn
  have hm := h.mono c a (by omega)
  have na := h.noNaN a
  have nc := h.noNaN c
  generalize cast a = ca at *
  generalize cast c = cc at *
  num_arith ca cc f

theorem num_IFF {cast : Int → Nat} (h : CastOK cast) (a : Int) (f g : Nat)
    (h1 : cmpIF cast a f = .lt) (h2 : totalCmp f g = .lt) : cmpIF cast a g = .lt := by
  rw [totalCmp_lt_iff] at h2
  rw [cmpIF_lt_iff h] at h1 ⊢
  have na := h.noNaN a
  generalize cast a = ca at *
  num_arith ca f g

theorem num_FII {cast : Int → Nat} (h : CastOK cast) (f : Nat) (b c : Int)
    (h1 : cmpFI cast f b = .lt) (h2 : cmpInt b c = .lt) : cmpFI cast f c = .lt := by
  rw [cmpInt_lt_iff] at h2
  rw [cmpFI_lt_iff h] at h1 ⊢
  have hm := h.mono b c (by omega)
  have nb := h.noNaN b
  have nc := h.noNaN c
  generalize cast b = cb at *
  generalize cast c = cc at *
  num_arith cb cc f

theorem num_FIF {cast : Int → Nat} (h : CastOK cast) (f : Nat) (b : Int) (g : Nat)
    (h1 : cmpFI cast f b = .lt) (h2 : cmpIF cast b g = .lt) : totalCmp f g = .lt := by
  rw [totalCmp_lt_iff]
  rw [cmpFI_lt_iff h] at h1
  rw [cmpIF_lt_iff h] at h2
  have nb := h.noNaN b
  generalize cast b = cb at *
  num_arith cb f g

theorem num_FFI {cast : Int → Nat} (h : CastOK cast) (f g : Nat) (c : Int)
    (h1 : totalCmp f g = .lt) (h2 : cmpFI cast g c = .lt) : cmpFI cast f c = .lt := by
  rw [totalCmp_lt_iff] at h1
  rw [cmpFI_lt_iff h] at h2 ⊢
  have nc := h.noNaN c
  generalize cast c = cc at *
  num_arith cc f g

theorem cmpFI_ne_eq {cast : Int → Nat} (f : Nat) (a : Int) : cmpFI cast f a ≠ .eq := by
  unfold cmpFI
  split
  · rename_i o _; cases o <;> simp [Ordering.then]
  · split <;> simp

end Num


/-! ## the mutual inductions over `PV` / `PVs` / `PVm` -/

/-- what the order laws need from the two mixed-number arms -/
structure NumOK (nif : Int → Nat → Ordering) (nfi : Nat → Int → Ordering) : Prop where
  if_ne : ∀ a f, nif a f ≠ .eq
  fi_ne : ∀ f a, nfi f a ≠ .eq
  swap : ∀ a f, nfi f a = (nif a f).swap
  iif : ∀ a b f, cmpInt a b = .lt → nif b f = .lt → nif a f = .lt
  ifi : ∀ a f c, nif a f = .lt → nfi f c = .lt → cmpInt a c = .lt
  iff' : ∀ a f g, nif a f = .lt → F64.totalCmp f g = .lt → nif a g = .lt
  fii : ∀ f b c, nfi f b = .lt → cmpInt b c = .lt → nfi f c = .lt
  fif : ∀ f b g, nfi f b = .lt → nif b g = .lt → F64.totalCmp f g = .lt
  ffi : ∀ f g c, F64.totalCmp f g = .lt → nfi g c = .lt → nfi f c = .lt

theorem numOK_of_castOK {cast : Int → Nat} (h : CastOK cast) : NumOK (cmpIF cast) (cmpFI cast) where
  if_ne := cmpIF_ne_eq
  fi_ne := cmpFI_ne_eq
  swap := cmpFI_swap h
  iif := num_IIF h
  ifi := num_IFI h
  iff' := num_IFF h
  fii := num_FII h
  fif := num_FIF h
  ffi := num_FFI h

section
variable {nif : Int → Nat → Ordering} {nfi : Nat → Int → Ordering}

mutual
theorem cmpG_eq_iff (h : NumOK nif nfi) : ∀ a b : PV, cmpG nif nfi a b = .eq ↔ a = b
  | .str x, b => by cases b <;> simp [cmpG, bucket, cmpNat, (cmpLex_lawful cmpNat_lawful).eq_iff]
  | .int x, b => by cases b <;> simp [cmpG, bucket, cmpNat, cmpInt_lawful.eq_iff, h.if_ne]
  | .flt x, b => by cases b <;> simp [cmpG, bucket, cmpNat, F64.totalCmp_lawful.eq_iff, h.fi_ne]
  | .bool x, b => by cases b <;> simp [cmpG, bucket, cmpNat, cmpBool_lawful.eq_iff]
  | .dt x, b => by cases b <;> simp [cmpG, bucket, cmpNat, cmpInt_lawful.eq_iff]
  | .arr xs, b => by cases b <;> simp [cmpG, bucket, cmpNat, cmpArrG_eq_iff h xs]
  | .map m, b => by
    cases b with
    | map n =>
      simp only [cmpG, then_eq_eq, (cmpLex_lawful (cmpLex_lawful cmpNat_lawful)).eq_iff,
        cmpValsG_eq_iff h m n, PV.map.injEq]
    | _ => simp [cmpG, bucket, cmpNat]
  | .vec x, b => by cases b <;> simp [cmpG, bucket, cmpNat, (cmpLex_lawful cmpNat_lawful).eq_iff]
  | .dur m1 d1 s1 n1, b => by cases b <;> simp [cmpG, bucket, cmpNat, cmpDur_eq_iff]
  | .null, b => by cases b <;> simp [cmpG, bucket, cmpNat]
theorem cmpArrG_eq_iff (h : NumOK nif nfi) : ∀ xs ys : PVs, cmpArrG nif nfi xs ys = .eq ↔ xs = ys
  | .nil, ys => by cases ys <;> simp [cmpArrG]
  | .cons x xs, ys => by
    cases ys with
    | nil => simp [cmpArrG]
    | cons y ys => simp [cmpArrG, cmpG_eq_iff h x y, cmpArrG_eq_iff h xs ys]
theorem cmpValsG_eq_iff (h : NumOK nif nfi) :
    ∀ m n : PVm, (m.keys = n.keys ∧ cmpValsG nif nfi m n = .eq) ↔ m = n
  | .nil, n => by cases n <;> simp [cmpValsG, PVm.keys]
  | .cons k v m, n => by
    cases n with
    | nil => simp [PVm.keys]
    | cons l w n =>
      simp only [PVm.keys, List.cons.injEq, cmpValsG, then_eq_eq, cmpG_eq_iff h v w, PVm.cons.injEq,
        ← cmpValsG_eq_iff h m n]
      constructor
      · rintro ⟨⟨a, b⟩, c, d⟩; exact ⟨a, c, b, d⟩
      · rintro ⟨a, c, b, d⟩; exact ⟨⟨a, b⟩, c, d⟩
end

section
variable {nif : Int → Nat → Ordering} {nfi : Nat → Int → Ordering}

theorem cmpG_bucket (nif nfi) (a b : PV) (h : bucket a ≠ bucket b) :
    cmpG nif nfi a b = cmpNat (bucket a) (bucket b) := by
  cases a <;> cases b <;> first | (exfalso; exact h rfl) | simp [cmpG]

theorem swap_swap' {a b : Ordering} (h : a = b.swap) : b = a.swap := by
  cases a <;> cases b <;> simp_all [Ordering.swap]

mutual
theorem cmpG_swap (h : NumOK nif nfi) : ∀ a b : PV, cmpG nif nfi b a = (cmpG nif nfi a b).swap
  | .str x, b => by
    cases b with
    | str y => simpa [cmpG] using (cmpLex_lawful cmpNat_lawful).swap x y
    | _ => simp [cmpG, bucket, cmpNat, Ordering.swap]
  | .int x, b => by
    cases b with
    | int y => simpa [cmpG] using cmpInt_lawful.swap x y
    | flt y => simpa [cmpG] using h.swap x y
    | _ => simp [cmpG, bucket, cmpNat, Ordering.swap]
  | .flt x, b => by
    cases b with
    | flt y => simpa [cmpG] using F64.totalCmp_lawful.swap x y
    | int y => simpa [cmpG] using swap_swap' (h.swap y x)
    | _ => simp [cmpG, bucket, cmpNat, Ordering.swap]
  | .bool x, b => by
    cases b with
    | bool y => simpa [cmpG] using cmpBool_lawful.swap x y
    | _ => simp [cmpG, bucket, cmpNat, Ordering.swap]
  | .dt x, b => by
    cases b with
    | dt y => simpa [cmpG] using cmpInt_lawful.swap x y
    | _ => simp [cmpG, bucket, cmpNat, Ordering.swap]
  | .arr xs, b => by
    cases b with
    | arr ys => simpa [cmpG] using cmpArrG_swap h xs ys
    | _ => simp [cmpG, bucket, cmpNat, Ordering.swap]
  | .map m, b => by
    cases b with
    | map n =>
      simp only [cmpG, then_swap, cmpValsG_swap h m n,
        (cmpLex_lawful (cmpLex_lawful cmpNat_lawful)).swap m.keys n.keys]
    | _ => simp [cmpG, bucket, cmpNat, Ordering.swap]
  | .vec x, b => by
    cases b with
    | vec y => simpa [cmpG] using (cmpLex_lawful cmpNat_lawful).swap x y
    | _ => simp [cmpG, bucket, cmpNat, Ordering.swap]
  | .dur m1 d1 s1 n1, b => by
    cases b with
    | dur m2 d2 s2 n2 => simpa [cmpG] using cmpDur_swap m1 d1 s1 n1 m2 d2 s2 n2
    | _ => simp [cmpG, bucket, cmpNat, Ordering.swap]
  | .null, b => by cases b <;> simp [cmpG, bucket, cmpNat, Ordering.swap]
theorem cmpArrG_swap (h : NumOK nif nfi) :
    ∀ xs ys : PVs, cmpArrG nif nfi ys xs = (cmpArrG nif nfi xs ys).swap
  | .nil, ys => by cases ys <;> simp [cmpArrG, Ordering.swap]
  | .cons x xs, ys => by
    cases ys with
    | nil => simp [cmpArrG, Ordering.swap]
    | cons y ys => simp only [cmpArrG, then_swap, cmpG_swap h x y, cmpArrG_swap h xs ys]
theorem cmpValsG_swap (h : NumOK nif nfi) :
    ∀ m n : PVm, cmpValsG nif nfi n m = (cmpValsG nif nfi m n).swap
  | .nil, n => by cases n <;> simp [cmpValsG, Ordering.swap]
  | .cons k v m, n => by
    cases n with
    | nil => simp [cmpValsG, Ordering.swap]
    | cons l w n => simp only [cmpValsG, then_swap, cmpG_swap h v w, cmpValsG_swap h m n]
end

theorem cmpG_lt_bucket {a b : PV} (h1 : cmpG nif nfi a b = .lt) : bucket a ≤ bucket b := by
  apply Decidable.byContradiction
  intro hn
  rw [cmpG_bucket _ _ _ _ (by omega), cmpNat_lt_iff] at h1
  omega

theorem lex_step {o1 o2 o3 r1 r2 r3 : Ordering}
    (tll : o1 = .lt → o2 = .lt → o3 = .lt)
    (tle : o1 = .lt → o2 = .eq → o3 = .lt)
    (tel : o1 = .eq → o2 = .lt → o3 = .lt)
    (tee : o1 = .eq → o2 = .eq → o3 = .eq)
    (tr : r1 = .lt → r2 = .lt → r3 = .lt)
    (h1 : o1.then r1 = .lt) (h2 : o2.then r2 = .lt) : o3.then r3 = .lt := by
  rw [then_eq_lt] at h1 h2 ⊢
  rcases h1 with h1 | ⟨e1, h1⟩ <;> rcases h2 with h2 | ⟨e2, h2⟩
  · exact Or.inl (tll h1 h2)
  · exact Or.inl (tle h1 e2)
  · exact Or.inl (tel e1 h2)
  · exact Or.inr ⟨tee e1 e2, tr h1 h2⟩

/-- transitivity of a comparator at one triple, given that `eq` is identity at that triple -/
theorem lex_step' {α : Type} {c : α → α → Ordering} {x y z : α} {r1 r2 r3 : Ordering}
    (e12 : c x y = .eq ↔ x = y) (e23 : c y z = .eq ↔ y = z) (ezz : c z z = .eq)
    (t : c x y = .lt → c y z = .lt → c x z = .lt)
    (tr : r1 = .lt → r2 = .lt → r3 = .lt)
    (h1 : (c x y).then r1 = .lt) (h2 : (c y z).then r2 = .lt) : (c x z).then r3 = .lt := by
  refine lex_step t ?_ ?_ ?_ tr h1 h2
  · intro a b; rw [← e23.1 b]; exact a
  · intro a b; rw [e12.1 a]; exact b
  · intro a b; rw [e12.1 a, e23.1 b]; exact ezz

mutual
theorem cmpG_trans (h : NumOK nif nfi) :
    ∀ a b c : PV, cmpG nif nfi a b = .lt → cmpG nif nfi b c = .lt → cmpG nif nfi a c = .lt
  | a, b, c, h1, h2 => by
    have b1 := cmpG_lt_bucket h1
    have b2 := cmpG_lt_bucket h2
    by_cases hb : bucket a < bucket c
    · rw [cmpG_bucket _ _ _ _ (by omega), cmpNat_lt_iff]; exact hb
    · have e1 : bucket b = bucket a := by omega
      have e2 : bucket c = bucket a := by omega
      match a with
      | .str x =>
        cases b <;> simp [bucket] at e1
        cases c <;> simp [bucket] at e2
        simp only [cmpG] at h1 h2 ⊢
        exact (cmpLex_lawful cmpNat_lawful).trans _ _ _ h1 h2
      | .int x =>
        cases b <;> simp [bucket] at e1 <;> cases c <;> simp [bucket] at e2 <;>
          simp only [cmpG] at h1 h2 ⊢
        · exact cmpInt_lawful.trans _ _ _ h1 h2
        · exact h.iif _ _ _ h1 h2
        · exact h.ifi _ _ _ h1 h2
        · exact h.iff' _ _ _ h1 h2
      | .flt x =>
        cases b <;> simp [bucket] at e1 <;> cases c <;> simp [bucket] at e2 <;>
          simp only [cmpG] at h1 h2 ⊢
        · exact h.fii _ _ _ h1 h2
        · exact h.fif _ _ _ h1 h2
        · exact h.ffi _ _ _ h1 h2
        · exact F64.totalCmp_lawful.trans _ _ _ h1 h2
      | .bool x =>
        cases b <;> simp [bucket] at e1
        cases c <;> simp [bucket] at e2
        simp only [cmpG] at h1 h2 ⊢
        exact cmpBool_lawful.trans _ _ _ h1 h2
      | .dt x =>
        cases b <;> simp [bucket] at e1
        cases c <;> simp [bucket] at e2
        simp only [cmpG] at h1 h2 ⊢
        exact cmpInt_lawful.trans _ _ _ h1 h2
      | .arr xs =>
        cases b <;> simp [bucket] at e1
        cases c <;> simp [bucket] at e2
        simp only [cmpG] at h1 h2 ⊢
        exact cmpArrG_trans h xs _ _ h1 h2
      | .map m =>
        cases b <;> simp [bucket] at e1
        cases c <;> simp [bucket] at e2
        rename_i n p
        simp only [cmpG] at h1 h2 ⊢
        have LK := cmpLex_lawful (cmpLex_lawful cmpNat_lawful)
        exact lex_step' (LK.eq_iff _ _) (LK.eq_iff _ _) (LK.refl _) (LK.trans _ _ _)
          (cmpValsG_trans h m n p) h1 h2
      | .vec x =>
        cases b <;> simp [bucket] at e1
        cases c <;> simp [bucket] at e2
        simp only [cmpG] at h1 h2 ⊢
        exact (cmpLex_lawful cmpNat_lawful).trans _ _ _ h1 h2
      | .dur m1 d1 s1 n1 =>
        cases b <;> simp [bucket] at e1
        cases c <;> simp [bucket] at e2
        simp only [cmpG] at h1 h2 ⊢
        exact cmpDur_trans _ _ _ _ _ _ _ _ _ _ _ _ h1 h2
      | .null =>
        cases b <;> simp [bucket] at e1
        simp [cmpG] at h1
theorem cmpArrG_trans (h : NumOK nif nfi) :
    ∀ xs ys zs : PVs, cmpArrG nif nfi xs ys = .lt → cmpArrG nif nfi ys zs = .lt →
      cmpArrG nif nfi xs zs = .lt
  | .nil, ys, zs, h1, h2 => by
    cases ys <;> cases zs <;> simp_all [cmpArrG]
  | .cons x xs, ys, zs, h1, h2 => by
    cases ys with
    | nil => simp [cmpArrG] at h1
    | cons y ys =>
      cases zs with
      | nil => simp [cmpArrG] at h2
      | cons z zs =>
        simp only [cmpArrG] at h1 h2 ⊢
        exact lex_step' (cmpG_eq_iff h x y) (cmpG_eq_iff h y z) ((cmpG_eq_iff h z z).2 rfl)
          (cmpG_trans h x y z) (cmpArrG_trans h xs ys zs) h1 h2
theorem cmpValsG_trans (h : NumOK nif nfi) :
    ∀ m n p : PVm, cmpValsG nif nfi m n = .lt → cmpValsG nif nfi n p = .lt →
      cmpValsG nif nfi m p = .lt
  | .nil, n, p, h1, h2 => by simp [cmpValsG] at h1
  | .cons k v m, n, p, h1, h2 => by
    cases n with
    | nil => simp [cmpValsG] at h1
    | cons l w n =>
      cases p with
      | nil => simp [cmpValsG] at h2
      | cons j u p =>
        simp only [cmpValsG] at h1 h2 ⊢
        exact lex_step' (cmpG_eq_iff h v w) (cmpG_eq_iff h w u) ((cmpG_eq_iff h u u).2 rfl)
          (cmpG_trans h v w u) (cmpValsG_trans h m n p) h1 h2
end

end

end

/-! ## derived `==` versus bit identity -/

theorem F64.ieeeEq_iff (x y : Nat) :
    F64.ieeeEq x y = true ↔ (F64.isNaN x = false ∧ F64.normZero x = F64.normZero y) := by
  simp only [F64.ieeeEq, F64.isNaN, F64.isZero, F64.normZero, Bool.and_eq_true, Bool.not_eq_true',
    Bool.or_eq_true, beq_iff_eq, decide_eq_false_iff_not]
  ord_arith

theorem F32.ieeeEq_iff (x y : Nat) :
    F32.ieeeEq x y = true ↔ (F32.isNaN x = false ∧ F32.normZero x = F32.normZero y) := by
  simp only [F32.ieeeEq, F32.isNaN, F32.isZero, F32.normZero, Bool.and_eq_true, Bool.not_eq_true',
    Bool.or_eq_true, beq_iff_eq, decide_eq_false_iff_not]
  ord_arith

theorem lanesEq_iff : ∀ a b : List Nat,
    lanesEq a b = true ↔ ((a.all fun x => !F32.isNaN x) = true ∧ a.map F32.normZero = b.map F32.normZero)
  | [], b => by cases b <;> simp [lanesEq]
  | x :: xs, b => by
    cases b with
    | nil => simp [lanesEq]
    | cons y ys =>
      simp only [lanesEq, Bool.and_eq_true, F32.ieeeEq_iff, lanesEq_iff xs ys, List.all_cons,
        Bool.not_eq_true', List.map_cons, List.cons.injEq]
      constructor
      · rintro ⟨⟨a, b⟩, c, d⟩; exact ⟨⟨a, c⟩, b, d⟩
      · rintro ⟨⟨a, c⟩, b, d⟩; exact ⟨⟨a, b⟩, c, d⟩

mutual
theorem beq_iff : ∀ a b : PV, beq a b = true ↔ (noNaN a = true ∧ normZero a = normZero b)
  | .str x, b => by cases b <;> simp [beq, noNaN, normZero]
  | .int x, b => by cases b <;> simp [beq, noNaN, normZero]
  | .flt x, b => by cases b <;> simp [beq, noNaN, normZero, F64.ieeeEq_iff]
  | .bool x, b => by cases b <;> simp [beq, noNaN, normZero]
  | .dt x, b => by cases b <;> simp [beq, noNaN, normZero]
  | .arr xs, b => by cases b <;> simp [beq, noNaN, normZero, beqArr_iff xs]
  | .map m, b => by cases b <;> simp [beq, noNaN, normZero, beqMap_iff m]
  | .vec x, b => by cases b <;> simp [beq, noNaN, normZero, lanesEq_iff]
  | .dur m1 d1 s1 n1, b => by cases b <;> simp [beq, noNaN, normZero, and_assoc]
  | .null, b => by cases b <;> simp [beq, noNaN, normZero]
theorem beqArr_iff : ∀ a b : PVs, beqArr a b = true ↔ (noNaNArr a = true ∧ normZeroArr a = normZeroArr b)
  | .nil, b => by cases b <;> simp [beqArr, noNaNArr, normZeroArr]
  | .cons x xs, b => by
    cases b with
    | nil => simp [beqArr, normZeroArr]
    | cons y ys =>
      simp only [beqArr, Bool.and_eq_true, beq_iff x y, beqArr_iff xs ys, noNaNArr, normZeroArr,
        PVs.cons.injEq]
      constructor
      · rintro ⟨⟨a, b⟩, c, d⟩; exact ⟨⟨a, c⟩, b, d⟩
      · rintro ⟨⟨a, c⟩, b, d⟩; exact ⟨⟨a, b⟩, c, d⟩
theorem beqMap_iff : ∀ a b : PVm, beqMap a b = true ↔ (noNaNMap a = true ∧ normZeroMap a = normZeroMap b)
  | .nil, b => by cases b <;> simp [beqMap, noNaNMap, normZeroMap]
  | .cons k v m, b => by
    cases b with
    | nil => simp [beqMap, normZeroMap]
    | cons l w n =>
      simp only [beqMap, Bool.and_eq_true, beq_iff v w, beqMap_iff m n, noNaNMap, normZeroMap,
        PVm.cons.injEq, beq_iff_eq]
      constructor
      · rintro ⟨⟨e, a, b⟩, c, d⟩; exact ⟨⟨a, c⟩, e, b, d⟩
      · rintro ⟨⟨a, c⟩, e, b, d⟩; exact ⟨⟨e, a, b⟩, c, d⟩
end

mutual
theorem same_iff : ∀ a b : PV, same a b = true ↔ a = b
  | .str x, b => by cases b <;> simp [same]
  | .int x, b => by cases b <;> simp [same]
  | .flt x, b => by cases b <;> simp [same]
  | .bool x, b => by cases b <;> simp [same]
  | .dt x, b => by cases b <;> simp [same]
  | .arr xs, b => by cases b <;> simp [same, sameArr_iff xs]
  | .map m, b => by cases b <;> simp [same, sameMap_iff m]
  | .vec x, b => by cases b <;> simp [same]
  | .dur m1 d1 s1 n1, b => by cases b <;> simp [same, and_assoc]
  | .null, b => by cases b <;> simp [same]
theorem sameArr_iff : ∀ a b : PVs, sameArr a b = true ↔ a = b
  | .nil, b => by cases b <;> simp [sameArr]
  | .cons x xs, b => by
    cases b with
    | nil => simp [sameArr]
    | cons y ys => simp [sameArr, same_iff x y, sameArr_iff xs ys]
theorem sameMap_iff : ∀ a b : PVm, sameMap a b = true ↔ a = b
  | .nil, b => by cases b <;> simp [sameMap]
  | .cons k v m, b => by
    cases b with
    | nil => simp [sameMap]
    | cons l w n => simp [sameMap, same_iff v w, sameMap_iff m n, and_assoc]
end

end SgModel.PV
