import SgModel.Model.PV
/-!
Helper lemmas for C10: the comparison helpers are lawful, lexicographic lifting, the numeric
block (Integer/Float under an abstract monotone NaN-free conversion), and the mutual
inductions over `PV`/`PVs`/`PVm`.
-/
namespace SgModel.PV

/-! ## a comparator is *lawful* when `eq` is identity, swapping mirrors, and `lt` is transitive -/

structure Lawful {α : Type} (c : α → α → Ordering) : Prop where
  eq_iff : ∀ a b, c a b = .eq ↔ a = b
  swap : ∀ a b, c b a = (c a b).swap
  trans : ∀ a b d, c a b = .lt → c b d = .lt → c a d = .lt

theorem Lawful.refl {α : Type} {c : α → α → Ordering} (h : Lawful c) (a : α) : c a a = .eq :=
  (h.eq_iff a a).2 rfl

/-- split every `if`, then close by linear arithmetic -/
macro "ord_arith" : tactic =>
  `(tactic| ((repeat' split) <;> first | omega | (simp at * <;> omega) | simp_all))

theorem cmpNat_lawful : Lawful cmpNat where
  eq_iff a b := by unfold cmpNat; ord_arith
  swap a b := by unfold cmpNat; ord_arith
  trans a b d := by unfold cmpNat; ord_arith

theorem cmpInt_lawful : Lawful cmpInt where
  eq_iff a b := by unfold cmpInt; ord_arith
  swap a b := by unfold cmpInt; ord_arith
  trans a b d := by unfold cmpInt; ord_arith

theorem cmpBool_lawful : Lawful cmpBool where
  eq_iff a b := by cases a <;> cases b <;> decide
  swap a b := by cases a <;> cases b <;> decide
  trans a b d := by cases a <;> cases b <;> cases d <;> decide

theorem then_eq_eq {a b : Ordering} : a.then b = .eq ↔ a = .eq ∧ b = .eq := by
  cases a <;> cases b <;> decide

theorem then_eq_lt {a b : Ordering} : a.then b = .lt ↔ a = .lt ∨ (a = .eq ∧ b = .lt) := by
  cases a <;> cases b <;> decide

theorem then_swap {a b : Ordering} : (a.then b).swap = a.swap.then b.swap := by
  cases a <;> cases b <;> decide

/-- lexicographic lifting -/
theorem cmpLex_lawful {α : Type} {c : α → α → Ordering} (h : Lawful c) : Lawful (cmpLex c) where
  eq_iff a := by
    induction a with
    | nil => intro b; cases b <;> simp [cmpLex]
    | cons x xs ih =>
      intro b
      cases b with
      | nil => simp [cmpLex]
      | cons y ys => simp [cmpLex, h.eq_iff, ih]
  swap a := by
    induction a with
    | nil => intro b; cases b <;> simp [cmpLex, Ordering.swap]
    | cons x xs ih =>
      intro b
      cases b with
      | nil => simp [cmpLex, Ordering.swap]
      | cons y ys => simp only [cmpLex, then_swap, h.swap x y, ih]
  trans a := by
    induction a with
    | nil =>
      intro b d h1 h2
      cases b <;> cases d <;> simp_all [cmpLex]
    | cons x xs ih =>
      intro b d h1 h2
      cases b with
      | nil => simp [cmpLex] at h1
      | cons y ys =>
        cases d with
        | nil => simp [cmpLex] at h2
        | cons z zs =>
          simp only [cmpLex, then_eq_lt] at h1 h2 ⊢
          rcases h1 with h1 | ⟨e1, h1⟩ <;> rcases h2 with h2 | ⟨e2, h2⟩
          · exact Or.inl (h.trans _ _ _ h1 h2)
          · rw [(h.eq_iff _ _).1 e2] at h1; exact Or.inl h1
          · rw [← (h.eq_iff _ _).1 e1] at h2; exact Or.inl h2
          · rw [(h.eq_iff _ _).1 e1, (h.eq_iff _ _).1 e2]
            exact Or.inr ⟨h.refl z, ih _ _ h1 h2⟩

namespace F64

theorem totalKey_inj {x y : Nat} : totalKey x = totalKey y ↔ x = y := by
  unfold totalKey; ord_arith

theorem totalCmp_lawful : Lawful totalCmp where
  eq_iff a b := by unfold totalCmp; rw [cmpInt_lawful.eq_iff, totalKey_inj]
  swap a b := by unfold totalCmp; exact cmpInt_lawful.swap _ _
  trans a b d := by unfold totalCmp; exact cmpInt_lawful.trans _ _ _

end F64

theorem cmpDur_eq_iff (m1 d1 s1 n1 m2 d2 s2 n2 : Int) :
    cmpDur m1 d1 s1 n1 m2 d2 s2 n2 = .eq ↔ (m1 = m2 ∧ d1 = d2 ∧ s1 = s2 ∧ n1 = n2) := by
  simp only [cmpDur, then_eq_eq, cmpInt_lawful.eq_iff]

theorem cmpDur_swap (m1 d1 s1 n1 m2 d2 s2 n2 : Int) :
    cmpDur m2 d2 s2 n2 m1 d1 s1 n1 = (cmpDur m1 d1 s1 n1 m2 d2 s2 n2).swap := by
  simp only [cmpDur, then_swap, cmpInt_lawful.swap m1 m2, cmpInt_lawful.swap d1 d2,
    cmpInt_lawful.swap s1 s2, cmpInt_lawful.swap n1 n2]

theorem cmpInt_lt_iff (a b : Int) : cmpInt a b = .lt ↔ a < b := by unfold cmpInt; ord_arith
theorem cmpNat_lt_iff (a b : Nat) : cmpNat a b = .lt ↔ a < b := by unfold cmpNat; ord_arith
theorem cmpNat_gt_iff (a b : Nat) : cmpNat a b = .gt ↔ b < a := by unfold cmpNat; ord_arith

theorem cmpDur_trans (m1 d1 s1 n1 m2 d2 s2 n2 m3 d3 s3 n3 : Int)
    (h1 : cmpDur m1 d1 s1 n1 m2 d2 s2 n2 = .lt) (h2 : cmpDur m2 d2 s2 n2 m3 d3 s3 n3 = .lt) :
    cmpDur m1 d1 s1 n1 m3 d3 s3 n3 = .lt := by
  simp only [cmpDur, then_eq_lt, cmpInt_lawful.eq_iff, cmpInt_lt_iff] at h1 h2 ⊢
  omega
