import SgModel.Model.Store
/-!
Helper lemmas for the graph-store model (C06), part 10: the transcription of Rust's
`slice::binary_search_by` (`bsLoop` / `bsearch`) on a list sorted in non-decreasing order:
where it lands, when it reports a hit, and that it always reports a hit when the key is there.
-/
namespace SgModel.Store

abbrev SortedN (a : List Nat) : Prop := a.Pairwise (· ≤ ·)

theorem getD_eq_getElem (a : List Nat) (i : Nat) (h : i < a.length) : a.getD i 0 = a[i] := by
  simp [List.getD_eq_getElem?_getD, h]

theorem sortedN_le {a : List Nat} (hs : SortedN a) {i j : Nat} (hij : i ≤ j) (hj : j < a.length) :
    a.getD i 0 ≤ a.getD j 0 := by
  have hi : i < a.length := Nat.lt_of_le_of_lt hij hj
  rw [getD_eq_getElem a i hi, getD_eq_getElem a j hj]
  rcases Nat.lt_or_eq_of_le hij with hlt | heq
  · exact List.pairwise_iff_getElem.mp hs i j hi hj hlt
  · subst heq; exact Nat.le_refl _

/-- the loop invariant of the search, carried to its exit -/
theorem bsLoop_spec (a : List Nat) (k : Nat) (hs : SortedN a) :
    ∀ (fuel size base : Nat), size ≤ fuel → 1 ≤ size → base + size ≤ a.length →
      (∀ i, i < base → a.getD i 0 ≤ k) → (0 < base → a.getD base 0 ≤ k) →
      (∀ i, base + size ≤ i → i < a.length → k < a.getD i 0) →
      bsLoop a k fuel size base < a.length
      ∧ (∀ i, i < bsLoop a k fuel size base → a.getD i 0 ≤ k)
      ∧ (0 < bsLoop a k fuel size base → a.getD (bsLoop a k fuel size base) 0 ≤ k)
      ∧ (∀ i, bsLoop a k fuel size base < i → i < a.length → k < a.getD i 0) := by
  intro fuel
  induction fuel with
  | zero => intro size base h1 h2; omega
  | succ f ih =>
    intro size base hf h1 hb hA hA2 hB
    unfold bsLoop
    by_cases hsz : 1 < size
    · simp only [hsz, if_true]
      have hhalf : 1 ≤ size / 2 := by omega
      have hmid : base + size / 2 < a.length := by omega
      by_cases hk : k < a.getD (base + size / 2) 0
      · simp only [hk, if_true]
        apply ih (size - size / 2) base (by omega) (by omega) (by omega) hA hA2
        intro i hi hil
        have : base + size / 2 ≤ i := by omega
        exact Nat.lt_of_lt_of_le hk (sortedN_le hs this hil)
      · simp only [hk, if_false]
        have hle : a.getD (base + size / 2) 0 ≤ k := Nat.le_of_not_lt hk
        apply ih (size - size / 2) (base + size / 2) (by omega) (by omega) (by omega)
        · intro i hi
          exact Nat.le_trans (sortedN_le hs (Nat.le_of_lt hi) hmid) hle
        · intro _; exact hle
        · intro i hi hil
          exact hB i (by omega) hil
    · simp only [hsz, if_false]
      have : size = 1 := by omega
      subst this
      exact ⟨by omega, hA, hA2, fun i hi hil => hB i (by omega) hil⟩

/-- where the search lands (both outcomes): everything before is `≤ k`, everything from there
on is `≥ k` — so inserting there keeps the list sorted -/
theorem bsearch_pos {a : List Nat} (hs : SortedN a) (k : Nat) :
    (bsearch a k).2 ≤ a.length
    ∧ (∀ i, i < (bsearch a k).2 → a.getD i 0 ≤ k)
    ∧ (∀ i, (bsearch a k).2 ≤ i → i < a.length → k ≤ a.getD i 0) := by
  unfold bsearch
  by_cases h0 : a.length = 0
  · simp only [h0, if_true]
    exact ⟨Nat.le_refl _, fun i hi => absurd hi (Nat.not_lt_zero _), fun i _ hil => by omega⟩
  · simp only [h0, if_false]
    obtain ⟨hb, hA, hA2, hB⟩ := bsLoop_spec a k hs a.length a.length 0 (Nat.le_refl _) (by omega)
      (by omega) (fun i hi => absurd hi (Nat.not_lt_zero _)) (fun h => absurd h (Nat.lt_irrefl _))
      (fun i hi hil => by omega)
    generalize bsLoop a k a.length a.length 0 = b at hb hA hA2 hB
    by_cases hx : a.getD b 0 = k
    · simp only [hx, if_true]
      refine ⟨Nat.le_of_lt hb, hA, fun i hi hil => ?_⟩
      rcases Nat.lt_or_eq_of_le hi with hlt | heq
      · exact Nat.le_of_lt (hB i hlt hil)
      · rw [← heq, hx]; exact Nat.le_refl _
    · simp only [hx, if_false]
      by_cases hlt : a.getD b 0 < k
      · simp only [hlt, if_true]
        refine ⟨hb, fun i hi => ?_, fun i hi hil => Nat.le_of_lt (hB i hi hil)⟩
        rcases Nat.lt_or_eq_of_le (Nat.le_of_lt_succ hi) with h1 | h1
        · exact hA i h1
        · rw [h1]; exact Nat.le_of_lt hlt
      · simp only [hlt, if_false, Nat.add_zero]
        have hgt : k < a.getD b 0 := by omega
        refine ⟨Nat.le_of_lt hb, hA, fun i hi hil => ?_⟩
        rcases Nat.lt_or_eq_of_le hi with h1 | h1
        · exact Nat.le_of_lt (hB i h1 hil)
        · rw [← h1]; exact Nat.le_of_lt hgt

/-- a reported hit is a hit -/
theorem bsearch_found {a : List Nat} (k : Nat) (h : (bsearch a k).1 = true) :
    (bsearch a k).2 < a.length ∧ a.getD (bsearch a k).2 0 = k := by
  unfold bsearch at h ⊢
  by_cases h0 : a.length = 0
  · simp [h0] at h
  · simp only [h0, if_false] at h ⊢
    by_cases hx : a.getD (bsLoop a k a.length a.length 0) 0 = k
    · rw [if_pos hx]
      show bsLoop a k a.length a.length 0 < a.length ∧ a.getD (bsLoop a k a.length a.length 0) 0 = k
      refine ⟨?_, hx⟩
      apply Nat.lt_of_not_le
      intro hle
      -- out of range would read the default 0 … but then the loop result is still < length:
      -- use the general bound instead
      have : a.getD (bsLoop a k a.length a.length 0) 0 = 0 := by
        simp [List.getD_eq_getElem?_getD, List.getElem?_eq_none hle]
      -- bound of the loop result without sortedness
      have hb : ∀ (fuel size base : Nat), 1 ≤ size → base + size ≤ a.length →
          bsLoop a k fuel size base < a.length := by
        intro fuel
        induction fuel with
        | zero => intro size base h1 h2; unfold bsLoop; omega
        | succ f ih =>
          intro size base h1 h2
          unfold bsLoop
          by_cases hsz : 1 < size
          · simp only [hsz, if_true]
            split
            · exact ih _ _ (by omega) (by omega)
            · exact ih _ _ (by omega) (by omega)
          · simp only [hsz, if_false]; omega
      exact absurd (hb a.length a.length 0 (by omega) (by omega)) (Nat.not_lt.mpr hle)
    · rw [if_neg hx] at h; exact absurd h (by simp)

/-- if the key is in a sorted list the search reports a hit -/
theorem bsearch_mem {a : List Nat} (hs : SortedN a) (k : Nat) (hm : k ∈ a) :
    (bsearch a k).1 = true := by
  obtain ⟨j, hj, hjk⟩ := List.mem_iff_getElem.mp hm
  have hjd : a.getD j 0 = k := by rw [getD_eq_getElem a j hj]; exact hjk
  unfold bsearch
  have h0 : ¬ a.length = 0 := by omega
  simp only [h0, if_false]
  obtain ⟨hb, hA, hA2, hB⟩ := bsLoop_spec a k hs a.length a.length 0 (Nat.le_refl _) (by omega)
    (by omega) (fun i hi => absurd hi (Nat.not_lt_zero _)) (fun h => absurd h (Nat.lt_irrefl _))
    (fun i hi hil => by omega)
  generalize bsLoop a k a.length a.length 0 = b at hb hA hA2 hB
  have hjb : j ≤ b := by
    apply Nat.le_of_not_lt
    intro hlt
    have := hB j hlt hj
    omega
  have hxb : a.getD b 0 = k := by
    rcases Nat.lt_or_eq_of_le hjb with hlt | heq
    · have h1 : k ≤ a.getD b 0 := by rw [← hjd]; exact sortedN_le hs hjb hb
      have h2 : a.getD b 0 ≤ k := hA2 (by omega)
      omega
    · rw [← heq]; exact hjd
  rw [if_pos hxb]

end SgModel.Store
