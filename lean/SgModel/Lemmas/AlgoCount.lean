import SgModel.Lemmas.Algo
/-!
Counting lemmas for C26: sums over de-duplicated neighbour lists versus sums over `range n`
(triangles, local clustering coefficient), and well-formedness of built views.  Core Lean only.
-/
namespace SgModel.Algo

/-! ### nsum -/

theorem nsum_nil (f : Nat → Nat) : nsum [] f = 0 := rfl
theorem nsum_cons (a : Nat) (l : List Nat) (f : Nat → Nat) : nsum (a :: l) f = f a + nsum l f := by
  simp [nsum]
theorem nsum_append (l₁ l₂ : List Nat) (f : Nat → Nat) : nsum (l₁ ++ l₂) f = nsum l₁ f + nsum l₂ f := by
  induction l₁ with
  | nil => simp [nsum]
  | cons a t ih => rw [List.cons_append, nsum_cons, nsum_cons, ih]; omega
theorem nsum_add (l : List Nat) (f g : Nat → Nat) : nsum l (fun x => f x + g x) = nsum l f + nsum l g := by
  induction l with
  | nil => rfl
  | cons a t ih => rw [nsum_cons, nsum_cons, nsum_cons, ih]; omega
theorem nsum_congr {l : List Nat} {f g : Nat → Nat} (h : ∀ x ∈ l, f x = g x) : nsum l f = nsum l g := by
  induction l with
  | nil => rfl
  | cons a t ih =>
    rw [nsum_cons, nsum_cons, h a (List.mem_cons_self ..), ih (fun x hx => h x (List.mem_cons_of_mem _ hx))]
theorem nsum_zero {l : List Nat} {f : Nat → Nat} (h : ∀ x ∈ l, f x = 0) : nsum l f = 0 := by
  induction l with
  | nil => rfl
  | cons a t ih =>
    rw [nsum_cons, h a (List.mem_cons_self ..), ih (fun x hx => h x (List.mem_cons_of_mem _ hx))]

theorem nsum_single (n a c : Nat) :
    nsum (List.range n) (fun x => if x = a then c else 0) = if a < n then c else 0 := by
  induction n with
  | zero => simp [nsum]
  | succ n ih =>
    rw [List.range_succ, nsum_append, ih, nsum_cons, nsum_nil]
    by_cases h1 : a < n
    · have : n ≠ a := by omega
      simp [h1, this]; omega
    · by_cases h2 : n = a
      · subst h2; simp
      · have : ¬ a < n + 1 := by omega
        simp [h1, h2, this]

/-- a sum over a duplicate-free list of indices `< n` is a sum over `range n` with a membership guard -/
theorem nsum_nodup_range {n : Nat} {l : List Nat} (hnd : l.Nodup) (hlt : ∀ x ∈ l, x < n) (f : Nat → Nat) :
    nsum l f = nsum (List.range n) (fun x => if x ∈ l then f x else 0) := by
  induction l with
  | nil => simp only [List.not_mem_nil, if_false]; rw [nsum_zero (fun _ _ => rfl)]; rfl
  | cons a t ih =>
    have hnd' := (List.nodup_cons.mp hnd)
    have hsplit : ∀ x, (if x ∈ a :: t then f x else 0)
        = (if x = a then f a else 0) + (if x ∈ t then f x else 0) := by
      intro x
      by_cases h1 : x = a
      · subst h1; simp [hnd'.1]
      · simp [h1]
    rw [nsum_cons, ih hnd'.2 (fun x hx => hlt x (List.mem_cons_of_mem _ hx)),
      nsum_congr (fun x _ => hsplit x), nsum_add, nsum_single, if_pos (hlt a (List.mem_cons_self ..))]

/-! ### dedup -/

theorem mem_dedup {l : List Nat} {x : Nat} : x ∈ dedup l ↔ x ∈ l := by
  induction l with
  | nil => simp [dedup]
  | cons a t ih =>
    rw [dedup]
    split
    · rename_i h
      rw [ih]; constructor
      · exact List.mem_cons_of_mem _
      · intro hx; rcases List.mem_cons.mp hx with rfl | hx
        · exact h
        · exact hx
    · simp [List.mem_cons, ih]

theorem nodup_dedup (l : List Nat) : (dedup l).Nodup := by
  induction l with
  | nil => simp [dedup]
  | cons a t ih =>
    rw [dedup]
    split
    · exact ih
    · rename_i h
      exact List.nodup_cons.mpr ⟨fun hm => h (mem_dedup.mp hm), ih⟩

/-! ### well-formed views -/

def WellFormed (vw : View) : Prop :=
  (∀ u, u < vw.n → ∀ v ∈ vw.succ u, v < vw.n)
  ∧ (∀ u, u < vw.n → ∀ v ∈ vw.pred u, v < vw.n)
  ∧ (∀ u v, u < vw.n → v < vw.n → (vw.pred v).count u = (vw.succ u).count v)

theorem wellFormed_of_B {vw : View} (h : wellFormedB vw = true) : WellFormed vw := by
  simp only [wellFormedB, Bool.and_eq_true, List.all_eq_true, List.mem_range, decide_eq_true_eq,
    beq_iff_eq] at h
  obtain ⟨⟨_, h2⟩, h3⟩ := h
  exact ⟨fun u hu v hv => (h2 u hu).1 v hv, fun u hu v hv => (h2 u hu).2 v hv,
    fun u v hu hv => h3 u hu v hv⟩

theorem mem_pred_iff {vw : View} (hw : WellFormed vw) {u x : Nat} (hu : u < vw.n) :
    x ∈ vw.pred u ↔ x < vw.n ∧ u ∈ vw.succ x := by
  constructor
  · intro h
    have hx := hw.2.1 u hu x h
    refine ⟨hx, ?_⟩
    have := hw.2.2 x u hx hu
    have hc : 0 < (vw.pred u).count x := List.count_pos_iff.mpr h
    exact List.count_pos_iff.mp (by omega)
  · rintro ⟨hx, h⟩
    have := hw.2.2 x u hx hu
    have hc : 0 < (vw.succ x).count u := List.count_pos_iff.mpr h
    exact List.count_pos_iff.mp (by omega)

theorem adj_comm (vw : View) (a b : Nat) : adj vw a b = adj vw b a := by
  simp only [adj]; exact Bool.or_comm _ _

theorem mem_nbrs_iff {vw : View} (hw : WellFormed vw) {u x : Nat} (hu : u < vw.n) :
    x ∈ nbrs vw u ↔ x < vw.n ∧ adj vw u x = true := by
  simp only [nbrs, mem_dedup, List.mem_append, adj, Bool.or_eq_true, decide_eq_true_eq]
  constructor
  · rintro (h | h)
    · exact ⟨hw.1 u hu x h, Or.inl h⟩
    · have := (mem_pred_iff hw hu).mp h
      exact ⟨this.1, Or.inr this.2⟩
  · rintro ⟨hx, h | h⟩
    · exact Or.inl h
    · exact Or.inr ((mem_pred_iff hw hu).mpr ⟨hx, h⟩)

theorem nodup_nbrs (vw : View) (u : Nat) : (nbrs vw u).Nodup := nodup_dedup _

theorem nbrs_lt {vw : View} (hw : WellFormed vw) {u : Nat} (hu : u < vw.n) : ∀ x ∈ nbrs vw u, x < vw.n :=
  fun _ hx => ((mem_nbrs_iff hw hu).mp hx).1

/-! ### triangles -/

theorem triangles_impl_eq_def {vw : View} (hw : WellFormed vw) : trianglesImpl vw = trianglesDef vw := by
  unfold trianglesImpl trianglesDef
  apply nsum_congr
  intro u hu
  have hu := List.mem_range.mp hu
  rw [nsum_nodup_range (nodup_nbrs vw u) (nbrs_lt hw hu)]
  apply nsum_congr
  intro v hv
  have hv := List.mem_range.mp hv
  by_cases hvu : v ∈ nbrs vw u
  · have hadj := ((mem_nbrs_iff hw hu).mp hvu).2
    rw [if_pos hvu]
    by_cases hlt : u < v
    · rw [if_pos hlt, nsum_nodup_range (nodup_nbrs vw v) (nbrs_lt hw hv)]
      apply nsum_congr
      intro w hwr
      have hwn := List.mem_range.mp hwr
      simp only [mem_nbrs_iff hw hv, mem_nbrs_iff hw hu, hwn, true_and, hlt, hadj]
      by_cases h1 : adj vw v w = true <;> by_cases h2 : v < w <;> by_cases h3 : adj vw u w = true <;> simp [h1, h2, h3]
    · rw [if_neg hlt]
      symm; apply nsum_zero
      intro w _
      simp [hlt]
  · rw [if_neg hvu]
    symm; apply nsum_zero
    intro w _
    have : ¬ (adj vw u v = true) := fun h => hvu ((mem_nbrs_iff hw hu).mpr ⟨hv, h⟩)
    simp [this]

/-! ### local clustering coefficient -/

theorem mem_nbrsNoSelf_iff {vw : View} (hw : WellFormed vw) {u x : Nat} (hu : u < vw.n) :
    x ∈ nbrsNoSelf vw u ↔ x < vw.n ∧ x ≠ u ∧ adj vw u x = true := by
  simp only [nbrsNoSelf, List.mem_filter, decide_eq_true_eq, mem_nbrs_iff hw hu]
  constructor
  · rintro ⟨⟨a, b⟩, c⟩; exact ⟨a, c, b⟩
  · rintro ⟨a, c, b⟩; exact ⟨⟨a, b⟩, c⟩

theorem nodup_nbrsNoSelf (vw : View) (u : Nat) : (nbrsNoSelf vw u).Nodup :=
  List.Nodup.sublist List.filter_sublist (nodup_dedup _)

theorem countP_eq_nsum (p : Nat → Bool) (l : List Nat) : l.countP p = nsum l (fun x => if p x then 1 else 0) := by
  induction l with
  | nil => rfl
  | cons a t ih =>
    rw [List.countP_cons, nsum_cons, ih]
    cases p a <;> simp <;> omega

/-- position pairs `i < j` of a duplicate-free list, for a symmetric relation, are the value pairs `a < b` -/
theorem pairsCount_eq (R : Nat → Nat → Bool) (l : List Nat) (hnd : l.Nodup)
    (hsym : ∀ a ∈ l, ∀ b ∈ l, R a b = R b a) :
    pairsCount R l = nsum l (fun a => nsum l (fun b => if a < b ∧ R a b = true then 1 else 0)) := by
  induction l with
  | nil => rfl
  | cons x t ih =>
    have hnd' := List.nodup_cons.mp hnd
    have ih' := ih hnd'.2 (fun a ha b hb => hsym a (List.mem_cons_of_mem _ ha) b (List.mem_cons_of_mem _ hb))
    rw [pairsCount, ih', nsum_cons, nsum_cons]
    have hxx : (if x < x ∧ R x x = true then 1 else 0) = 0 := by simp
    rw [hxx]
    have hrest : nsum t (fun a => nsum (x :: t) (fun b => if a < b ∧ R a b = true then 1 else 0))
        = nsum t (fun a => (if a < x ∧ R a x = true then 1 else 0))
          + nsum t (fun a => nsum t (fun b => if a < b ∧ R a b = true then 1 else 0)) := by
      rw [← nsum_add]; apply nsum_congr; intro a _; rw [nsum_cons]
    rw [hrest, countP_eq_nsum]
    have hfirst : nsum t (fun b => if R x b then 1 else 0)
        = nsum t (fun b => if x < b ∧ R x b = true then 1 else 0)
          + nsum t (fun a => if a < x ∧ R a x = true then 1 else 0) := by
      rw [← nsum_add]; apply nsum_congr
      intro b hb
      have hne : b ≠ x := fun h => hnd'.1 (h ▸ hb)
      have hs := hsym x (List.mem_cons_self ..) b (List.mem_cons_of_mem _ hb)
      rw [← hs]
      by_cases h1 : x < b
      · have : ¬ b < x := by omega
        cases hR : R x b <;> simp [h1, this]
      · have : b < x := by omega
        cases hR : R x b <;> simp [h1, this]
    rw [hfirst]; omega

theorem lcc_num_eq_def {vw : View} (hw : WellFormed vw) {u : Nat} (hu : u < vw.n) :
    pairsCount (fun a b => decide (b ∈ nbrsNoSelf vw a)) (nbrsNoSelf vw u) = lccDefNum vw u := by
  have hlt : ∀ x ∈ nbrsNoSelf vw u, x < vw.n := fun x hx => ((mem_nbrsNoSelf_iff hw hu).mp hx).1
  rw [pairsCount_eq _ _ (nodup_nbrsNoSelf vw u)]
  · unfold lccDefNum
    rw [nsum_nodup_range (nodup_nbrsNoSelf vw u) hlt]
    apply nsum_congr
    intro a ha
    have han := List.mem_range.mp ha
    by_cases hau : a ∈ nbrsNoSelf vw u
    · rw [if_pos hau, nsum_nodup_range (nodup_nbrsNoSelf vw u) hlt]
      apply nsum_congr
      intro b hb
      have hbn := List.mem_range.mp hb
      have ha' := (mem_nbrsNoSelf_iff hw hu).mp hau
      simp only [mem_nbrsNoSelf_iff hw hu, mem_nbrsNoSelf_iff hw han, hbn, true_and, decide_eq_true_eq,
        ha'.2.1, ha'.2.2, ne_eq, not_false_eq_true]
      by_cases h1 : a < b
      · have : b ≠ a := by omega
        by_cases h2 : b = u <;> by_cases h3 : adj vw u b = true <;> by_cases h4 : adj vw a b = true <;>
          simp [h1, h2, h3, h4, this]
      · simp [h1]
    · rw [if_neg hau]
      symm; apply nsum_zero
      intro b _
      have : ¬ (a ≠ u ∧ adj vw u a = true) := fun h => hau ((mem_nbrsNoSelf_iff hw hu).mpr ⟨han, h.1, h.2⟩)
      by_cases h2 : a = u
      · simp [h2]
      · have : ¬ adj vw u a = true := fun h => this ⟨h2, h⟩
        simp [this]
  · intro a ha b hb
    have han := hlt a ha
    have hbn := hlt b hb
    have e1 : decide (b ∈ nbrsNoSelf vw a) = decide (b < vw.n ∧ b ≠ a ∧ adj vw a b = true) := by
      rw [decide_eq_decide]; exact mem_nbrsNoSelf_iff hw han
    have e2 : decide (a ∈ nbrsNoSelf vw b) = decide (a < vw.n ∧ a ≠ b ∧ adj vw b a = true) := by
      rw [decide_eq_decide]; exact mem_nbrsNoSelf_iff hw hbn
    show decide (b ∈ nbrsNoSelf vw a) = decide (a ∈ nbrsNoSelf vw b)
    rw [e1, e2, decide_eq_decide, adj_comm vw b a]
    constructor
    · rintro ⟨_, h2, h3⟩; exact ⟨han, fun h => h2 h.symm, h3⟩
    · rintro ⟨_, h2, h3⟩; exact ⟨hbn, fun h => h2 h.symm, h3⟩

theorem lcc_deg_eq_def {vw : View} (hw : WellFormed vw) {u : Nat} (hu : u < vw.n) :
    (nbrsNoSelf vw u).length = degDef vw u := by
  have hlt : ∀ x ∈ nbrsNoSelf vw u, x < vw.n := fun x hx => ((mem_nbrsNoSelf_iff hw hu).mp hx).1
  have h1 : (nbrsNoSelf vw u).length = nsum (nbrsNoSelf vw u) (fun _ => 1) := by
    generalize nbrsNoSelf vw u = l
    induction l with
    | nil => rfl
    | cons a t ih => rw [List.length_cons, nsum_cons, ← ih]; omega
  rw [h1, nsum_nodup_range (nodup_nbrsNoSelf vw u) hlt]
  unfold degDef
  apply nsum_congr
  intro a ha
  have han := List.mem_range.mp ha
  simp only [mem_nbrsNoSelf_iff hw hu, han, true_and]

end SgModel.Algo
