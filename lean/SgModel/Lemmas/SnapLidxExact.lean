import SgModel.Lemmas.SnapLidxUndo
/-!
`LidxExact`: the label index lists, under every label, exactly the ids of the nodes carrying
it (extensionally), and is well formed.  Kept by every step of an import, by `undo1` and by
`deleteNode`; implies the executable `lidxOk`.
-/
namespace SgModel.SnapJson

def Has (ns : List NodeS) (l : Str) (x : Nat) : Prop := ∃ n ∈ ns, n.id = x ∧ l ∈ n.labels

structure LidxExact (st : St) : Prop where
  ext : ∀ l x, x ∈ lk l st.lidx ↔ Has st.nodes l x
  wf : IxWF st.lidx

theorem ite_id (b : Bool) (a n : NodeS) (h : a.id = n.id) : (if b then a else n).id = n.id := by
  cases b <;> simp [h]

theorem exact_of_same {st st' : St} (h : LidxExact st) (hix : st'.lidx = st.lidx)
    (hhas : ∀ l x, Has st'.nodes l x ↔ Has st.nodes l x) : LidxExact st' :=
  ⟨fun l x => by rw [hix, hhas]; exact h.ext l x, by rw [hix]; exact h.wf⟩

theorem has_map (g : NodeS → NodeS) (hid : ∀ n, (g n).id = n.id) (hl : ∀ n, (g n).labels = n.labels)
    (ns : List NodeS) (l : Str) (x : Nat) : Has (ns.map g) l x ↔ Has ns l x := by
  unfold Has
  constructor
  · rintro ⟨n', hn', h1, h2⟩
    obtain ⟨n, hn, rfl⟩ := List.mem_map.mp hn'
    exact ⟨n, hn, by rw [← hid]; exact h1, by rw [← hl]; exact h2⟩
  · rintro ⟨n, hn, h1, h2⟩
    exact ⟨g n, List.mem_map_of_mem hn, by rw [hid]; exact h1, by rw [hl]; exact h2⟩

theorem exact_updNode_keepLabels {st : St} (h : LidxExact st) (id : Nat) (f : NodeS → NodeS)
    (hid : ∀ n, (f n).id = n.id) (hl : ∀ n, (f n).labels = n.labels) : LidxExact (updNode id f st) := by
  refine exact_of_same h (rfl : (updNode id f st).lidx = st.lidx) ?_
  intro l x
  simp only [updNode]
  apply has_map
  · intro n; by_cases q : (n.id == id) = true <;> simp [q, hid]
  · intro n; by_cases q : (n.id == id) = true <;> simp [q, hl]

/-! ### `undo1` -/

theorem exact_undo1 {st : St} (h : LidxExact st) (u : Undo) : LidxExact (undo1 st u) := by
  cases u with
  | col id k => exact exact_updNode_keepLabels h id _ (fun _ => rfl) (fun _ => rfl)
  | row id k => exact exact_updNode_keepLabels h id _ (fun _ => rfl) (fun _ => rfl)
  | edge e =>
    exact exact_of_same (st' := undo1 st (Undo.edge e)) h rfl (fun _ _ => Iff.rfl)
  | label id l' =>
    refine ⟨?_, ixwf_remove l' id h.wf⟩
    intro l x
    show x ∈ lk l (lidxRemove l' id st.lidx) ↔ Has (st.nodes.map _) l x
    rw [mem_lk_remove l l' id x h.wf, h.ext]
    unfold Has
    constructor
    · rintro ⟨⟨n, hn, h1, h2⟩, hne⟩
      refine ⟨_, List.mem_map_of_mem hn, ?_, ?_⟩
      · exact (ite_id (n.id == id) { n with labels := n.labels.filter (fun x => !(x == l')) } n rfl).trans h1
      · by_cases q : (n.id == id) = true
        · have hq : n.id = id := by simpa using q
          simp only [q, ↓reduceIte, List.mem_filter, h2, true_and, Bool.not_eq_true',
            beq_eq_false_iff_ne, ne_eq]
          intro e; exact hne ⟨e, by rw [← h1, hq]⟩
        · have q' : (n.id == id) = false := by simpa using q
          simp [q', h2]
    · rintro ⟨n', hn', h1, h2⟩
      obtain ⟨n, hn, rfl⟩ := List.mem_map.mp hn'
      by_cases q : (n.id == id) = true
      · have hq : n.id = id := by simpa using q
        simp only [q, ↓reduceIte, List.mem_filter, Bool.not_eq_true', beq_eq_false_iff_ne, ne_eq] at h1 h2
        refine ⟨⟨n, hn, h1, h2.1⟩, ?_⟩
        rintro ⟨e, _⟩; exact h2.2 e
      · have q' : (n.id == id) = false := by simpa using q
        simp only [q', Bool.false_eq_true, ↓reduceIte] at h1 h2
        refine ⟨⟨n, hn, h1, h2⟩, ?_⟩
        rintro ⟨_, e⟩
        have : n.id ≠ id := by simpa using q'
        exact this (h1.trans e)

theorem exact_foldl_undo1 (j : List Undo) : ∀ {st : St}, LidxExact st → LidxExact (j.foldl undo1 st) := by
  induction j with
  | nil => intro st h; exact h
  | cons u r ih => intro st h; exact ih (exact_undo1 h u)

/-! ### `deleteNode` -/

theorem ixwf_foldRemove (k : Nat) (ls : List Str) : ∀ {ix : Ix}, IxWF ix →
    IxWF (ls.foldl (fun ix l => lidxRemove l k ix) ix) := by
  induction ls with
  | nil => intro ix h; exact h
  | cons a r ih => intro ix h; exact ih (ixwf_remove a k h)

theorem mem_lk_foldRemove (l : Str) (k x : Nat) (ls : List Str) : ∀ {ix : Ix}, IxWF ix →
    (x ∈ lk l (ls.foldl (fun ix l' => lidxRemove l' k ix) ix) ↔ (x ∈ lk l ix ∧ ¬ (l ∈ ls ∧ x = k))) := by
  induction ls with
  | nil => intro ix _; simp
  | cons a r ih =>
    intro ix h
    simp only [List.foldl_cons]
    rw [ih (ixwf_remove a k h), mem_lk_remove l a k x h]
    simp only [List.mem_cons]
    constructor
    · rintro ⟨⟨p, q⟩, r'⟩
      refine ⟨p, ?_⟩
      rintro ⟨e | e, e2⟩
      · exact q ⟨e, e2⟩
      · exact r' ⟨e, e2⟩
    · rintro ⟨p, q⟩
      exact ⟨⟨p, fun ⟨e, e2⟩ => q ⟨Or.inl e, e2⟩⟩, fun ⟨e, e2⟩ => q ⟨Or.inr e, e2⟩⟩

theorem exact_deleteNode {st : St} (h : LidxExact st) (hnd : (nodeIds st).Nodup) (id : Nat) :
    LidxExact (deleteNode id st) := by
  unfold deleteNode
  cases hg : getNode id st with
  | none => exact h
  | some n =>
    have huniq := unique_of_getNode hnd hg
    refine ⟨?_, ixwf_foldRemove id n.labels h.wf⟩
    intro l x
    show x ∈ lk l (n.labels.foldl (fun ix l => lidxRemove l id ix) st.lidx)
      ↔ Has (st.nodes.filter (fun m => !(m.id == id))) l x
    rw [mem_lk_foldRemove l id x n.labels h.wf, h.ext]
    unfold Has
    constructor
    · rintro ⟨⟨m, hm, h1, h2⟩, hne⟩
      refine ⟨m, List.mem_filter.mpr ⟨hm, ?_⟩, h1, h2⟩
      simp only [Bool.not_eq_true', beq_eq_false_iff_ne, ne_eq]
      intro e
      have := huniq m hm e
      subst this
      exact hne ⟨h2, h1.symm.trans e⟩
    · rintro ⟨m, hm, h1, h2⟩
      obtain ⟨hm1, hm2⟩ := List.mem_filter.mp hm
      refine ⟨⟨m, hm1, h1, h2⟩, ?_⟩
      rintro ⟨_, e⟩
      simp only [Bool.not_eq_true', beq_eq_false_iff_ne, ne_eq] at hm2
      exact hm2 (h1.trans e)

theorem nodup_deleteNode {st : St} (hnd : (nodeIds st).Nodup) (id : Nat) :
    (nodeIds (deleteNode id st)).Nodup := by
  unfold nodeIds
  rw [deleteNode_nodes]
  exact List.Nodup.sublist (List.Sublist.map _ List.filter_sublist) hnd

theorem exact_deleteAll (ids : List Nat) : ∀ {st : St}, LidxExact st → (nodeIds st).Nodup →
    LidxExact (deleteAll ids st) := by
  induction ids with
  | nil => intro st h _; exact h
  | cons a r ih =>
    intro st h hnd
    simp only [deleteAll, List.foldl_cons] at ih ⊢
    exact ih (exact_deleteNode h hnd a) (nodup_deleteNode hnd a)

theorem exact_rollback {s : Imp} (h : LidxExact s.st) (hnd : (nodeIds s.st).Nodup) :
    LidxExact (rollback s) := by
  have hJ : (nodeIds (s.journal.foldl undo1 s.st)).Nodup := by
    unfold nodeIds; rw [foldl_undo1_nodes, foldl_undoN_ids]; exact hnd
  exact exact_deleteAll s.created (exact_foldl_undo1 s.journal h) hJ

end SgModel.SnapJson
