import SgModel.Lemmas.StoreSpecGen
/-!
Helper lemmas for the graph-store model (C06), part 15: every step of the model satisfies the
step relation `specStep` of the executable specification (the logical graph after the step is
the logical graph before it transformed as the API contract says).
-/
namespace SgModel.Store

/-- the API preconditions the model relies on (the harness never leaves them) -/
def Pre (s : State) : Op → Prop
  | .mkES a b _ => liveN s a = true ∧ liveN s b = true
  | _ => True

/-! ### set-level facts about the list operations the specification uses -/

theorem mem_insLabel (ls : List Nat) (l y : Nat) : y ∈ insLabel ls l ↔ y = l ∨ y ∈ ls := by
  unfold insLabel
  by_cases hc : ls.contains l = true
  · have hm : l ∈ ls := by simpa using hc
    simp only [hc, if_true]
    constructor
    · exact Or.inr
    · rintro (rfl | h) <;> assumption
  · simp only [hc]
    simp only [Bool.false_eq_true, if_false, List.mem_append, List.mem_cons, List.mem_filter,
      decide_eq_true_eq]
    have hm : l ∉ ls := by simpa using hc
    constructor
    · rintro (⟨h, _⟩ | rfl | ⟨h, _⟩)
      · exact Or.inr h
      · exact Or.inl rfl
      · exact Or.inr h
    · rintro (rfl | h)
      · exact Or.inr (Or.inl rfl)
      · have hne : y ≠ l := fun hh => hm (hh ▸ h)
        rcases Nat.lt_or_gt_of_ne hne with hlt | hgt
        · exact Or.inl ⟨h, hlt⟩
        · exact Or.inr (Or.inr ⟨h, hgt⟩)

theorem mem_setProp (ps : Props) (k v : Nat) (q : Nat × Nat) :
    q ∈ setProp ps k v ↔ q = (k, v) ∨ (q ∈ ps ∧ q.1 ≠ k) := by
  unfold setProp
  simp only [List.mem_append, List.mem_cons, List.mem_filter, decide_eq_true_eq, bne_iff_ne, ne_eq]
  constructor
  · rintro (⟨⟨h, hk⟩, _⟩ | rfl | ⟨⟨h, hk⟩, _⟩)
    · exact Or.inr ⟨h, hk⟩
    · exact Or.inl rfl
    · exact Or.inr ⟨h, hk⟩
  · rintro (rfl | ⟨h, hk⟩)
    · exact Or.inr (Or.inl rfl)
    · rcases Nat.lt_or_gt_of_ne hk with hlt | hgt
      · exact Or.inl ⟨⟨h, hk⟩, hlt⟩
      · exact Or.inr (Or.inr ⟨⟨h, hk⟩, hgt⟩)

theorem mem_assocSet_iff (m : Props) (k v : Nat) (q : Nat × Nat) :
    q ∈ assocSet m k v ↔ q = (k, v) ∨ (q ∈ m ∧ q.1 ≠ k) := by
  unfold assocSet
  cases ha : m.any (fun p => p.1 == k) with
  | true =>
    simp only [if_true, List.mem_map]
    obtain ⟨p0, hp0, hk0⟩ := List.any_eq_true.mp ha
    simp only [beq_iff_eq] at hk0
    constructor
    · rintro ⟨p, hp, rfl⟩
      by_cases hk : p.1 = k
      · left; simp [hk]
      · right
        have : (p.1 == k) = false := by simpa using hk
        simp only [this, Bool.false_eq_true, if_false]
        exact ⟨hp, hk⟩
    · rintro (rfl | ⟨hq, hk⟩)
      · exact ⟨p0, hp0, by simp [hk0]⟩
      · refine ⟨q, hq, ?_⟩
        have : (q.1 == k) = false := by simpa using hk
        simp [this]
  | false =>
    simp only [Bool.false_eq_true, if_false, List.mem_append, List.mem_singleton]
    have hno : ∀ p ∈ m, p.1 ≠ k := by
      intro p hp hk
      have : m.any (fun p => p.1 == k) = true := List.any_eq_true.mpr ⟨p, hp, by simpa using hk⟩
      rw [ha] at this; cases this
    constructor
    · rintro (h | h)
      · exact Or.inr ⟨h, hno q h⟩
      · exact Or.inl h
    · rintro (h | ⟨h, _⟩)
      · exact Or.inr h
      · exact Or.inl h

/-! ### the components of `specStep` -/

theorem spec_same {s s' : State} (p : Probe) (h : InvE s) (h' : InvE s')
    (hn : ∀ n, getNode s' n = getNode s n) (he : ∀ e, getEdge s' e = getEdge s e) :
    specSame (obs s p) (obs s' p) = true := by
  simp only [specSame, Bool.and_eq_true]
  exact ⟨nodes_same p hn, edges_same h h' he⟩

theorem spec_same_refl {s : State} (p : Probe) (h : InvE s) : specSame (obs s p) (obs s p) = true :=
  spec_same p h h (fun _ => rfl) (fun _ => rfl)

theorem spec_newNode {s : State} (hI : Inv s) (p : Probe) (l : Nat) (ps : Props)
    (hcov : ∀ n, getNode s n ≠ none → n ∈ p.ids)
    (hcov' : ∀ n, getNode (createNode s l ps).1 n ≠ none → n ∈ p.ids) :
    specNewNode (obs s p) (createNode s l ps).2 (obs (createNode s l ps).1 p) l ps = true := by
  obtain ⟨hget, hedge, hret⟩ := createNode_abs s l ps
  have hI' := inv_createNode hI l ps
  have hdead := (allocN_spec hI).1
  rw [hret]
  simp only [specNewNode, Bool.and_eq_true, Bool.not_eq_true']
  refine ⟨⟨?_, ?_⟩, ?_⟩
  · rw [nid_contains s p hcov]; simp [liveN, hdead]
  · exact nodes_add p _ { labels := [l], props := ps } hget hdead
      (hcov' _ (by rw [hget]; simp))
  · exact edges_same hI.toInvE hI'.toInvE hedge

theorem spec_newEdge {s : State} (hI : Inv s) (p : Probe) (a b ty : Nat) (ps : Props)
    (hcov : ∀ n, getNode s n ≠ none → n ∈ p.ids) :
    specNewEdge (obs s p) (createEdge s a b ty ps).2 (obs (createEdge s a b ty ps).1 p) a b ty ps
      = true := by
  unfold specNewEdge
  rw [nid_contains s p hcov, nid_contains s p hcov]
  cases ha : liveN s a with
  | false =>
    have : createEdge s a b ty ps = (s, .err 3) := by unfold createEdge; simp [ha]
    rw [this]
    simp [spec_same_refl p hI.toInvE]
  | true =>
    cases hb : liveN s b with
    | false =>
      have : createEdge s a b ty ps = (s, .err 4) := by unfold createEdge; simp [ha, hb]
      rw [this]
      simp [spec_same_refl p hI.toInvE]
    | true =>
      obtain ⟨hn, hget, hret, hdead⟩ := createEdge_abs hI ty ps ha hb
      have hI' := inv_createEdge hI a b ty ps
      rw [hret]
      simp only [Bool.not_true, Bool.false_eq_true, if_false, Bool.and_eq_true, Bool.not_eq_true']
      refine ⟨⟨?_, nodes_same p hn⟩, ?_⟩
      · rw [obs_edges_eq, eid_contains hI.toInvE, hdead]; rfl
      · exact edges_add hI.toInvE hI'.toInvE _ a b ty ps hget hdead

theorem spec_newEdgeStub {s : State} (hI : Inv s) (p : Probe) (a b ty : Nat)
    (hcov : ∀ n, getNode s n ≠ none → n ∈ p.ids)
    (ha : liveN s a = true) (hb : liveN s b = true) :
    specNewEdge (obs s p) (createEdgeStub s a b ty).2 (obs (createEdgeStub s a b ty).1 p) a b ty []
      = true := by
  unfold specNewEdge
  rw [nid_contains s p hcov, nid_contains s p hcov, ha, hb]
  obtain ⟨hn, hget, hret, hdead⟩ := createEdgeStub_abs hI ty ha hb
  have hI' := inv_createEdgeStub hI a b ty
  rw [hret]
  simp only [Bool.not_true, Bool.false_eq_true, if_false, Bool.and_eq_true, Bool.not_eq_true']
  refine ⟨⟨?_, nodes_same p hn⟩, ?_⟩
  · rw [obs_edges_eq, eid_contains hI.toInvE, hdead]; rfl
  · exact edges_add hI.toInvE hI'.toInvE _ a b ty [] hget hdead

theorem spec_updNode {s s' : State} (p : Probe) (h : InvE s) (h' : InvE s') (n : Nat)
    (g : NodeRec → NodeRec) (f : NodeObs → NodeObs)
    (hget : ∀ m, getNode s' m = if m = n then (getNode s n).map g else getNode s m)
    (he : ∀ e, getEdge s' e = getEdge s e)
    (hf : ∀ r : NodeRec, nodeEqv (n, (g r).labels, (g r).props) (f (n, r.labels, r.props)) = true) :
    specUpdNode (obs s p) (obs s' p) n f = true := by
  simp only [specUpdNode, Bool.and_eq_true]
  exact ⟨nodes_upd p n g f hget hf, edges_same h h' he⟩

theorem spec_updEdge {s s' : State} (p : Probe) (h : InvE s) (h' : InvE s') (e : Nat)
    (g : Nat × Nat × Nat × Props → Nat × Nat × Nat × Props) (f : EdgeObs → EdgeObs)
    (hn : ∀ n, getNode s' n = getNode s n)
    (hget : ∀ e', getEdge s' e' = if e' = e then (getEdge s e).map g else getEdge s e')
    (hf : ∀ q : Nat × Nat × Nat × Props,
      edgeEqv (e, (g q).1, (g q).2.1, (g q).2.2.1, (g q).2.2.2) (f (e, q.1, q.2.1, q.2.2.1, q.2.2.2)) = true) :
    specUpdEdge (obs s p) (obs s' p) e f = true := by
  simp only [specUpdEdge, Bool.and_eq_true]
  exact ⟨nodes_same p hn, edges_upd h h' e g f hget hf⟩

end SgModel.Store
