import SgModel.Lemmas.Wal
/-! C15 — the writer state machine preserves the directory invariant; what replay returns on a
valid directory; damaged frames; record tracking over histories; the history specification
on the model's own observations; helpers of the property theorems.  Core Lean only. -/
namespace SgModel.Wal

/-! ### the writer preserves the invariant -/

structure Inv (dec : Dec) (s : State) : Prop where
  ok : DirOK dec (dir s) s.seq
  whole : ∀ f, s.cur = some f → ∃ rs, (∀ r ∈ rs, WFRec dec r) ∧ f.data = frames rs

theorem torn_nil : Torn [] := Or.inl rfl

theorem inv_init (dec : Dec) : Inv dec {} := ⟨dirOK_nil _ _, by simp⟩

theorem inv_append {dec : Dec} {s : State} {e : Bytes} (h : Inv dec s)
    (he : WFRec dec ⟨s.seq + 1, e⟩) : Inv dec (append s e) := by
  cases hc : s.cur with
  | none =>
    have hdir : dir s = s.closed := by simp [dir, hc]
    have hd : (⟨s.seq + 1, frame ⟨s.seq + 1, e⟩⟩ : File).data = frames [⟨s.seq + 1, e⟩] ++ [] := by
      simp [frames]
    have hw : ∀ r ∈ [(⟨s.seq + 1, e⟩ : Rec)], WFRec dec r := by simp [he]
    have hr := recsOf_eq hw torn_nil hd
    refine ⟨?_, ?_⟩
    · simp only [append, hc, dir, Option.toList, List.nil_append]
      have hok := h.ok; rw [hdir] at hok
      refine dirOK_snoc hok (Nat.le_succ _) ⟨⟨_, _, hw, torn_nil, hd⟩, Nat.le_refl _, ?_, ?_⟩ ?_
      · simp [seqsOf, hr]
      · simp [seqsOf, hr]
      · intro g hg
        have := hok.1 g hg
        exact ⟨by have := this.2.1; simp; omega, fun q hq => by have := (this.2.2.2 q hq).2; simp; omega⟩
    · intro f hf
      simp only [append, hc] at hf
      simp at hf; subst hf
      exact ⟨[⟨s.seq + 1, e⟩], hw, by simp [frames]⟩
  | some f =>
    have hdir : dir s = s.closed ++ [f] := by simp [dir, hc]
    obtain ⟨rs, hw, hd⟩ := h.whole f hc
    have hok := h.ok; rw [hdir] at hok
    obtain ⟨hpre, hbef, hfok⟩ := dirOK_init hok
    have hrf : recsOf dec f = rs := recsOf_eq hw torn_nil (by simpa using hd)
    have hw' : ∀ r ∈ rs ++ [(⟨s.seq + 1, e⟩ : Rec)], WFRec dec r := by
      intro r hr; rcases List.mem_append.mp hr with hr | hr
      · exact hw r hr
      · simp at hr; subst hr; exact he
    have hd' : ({ f with data := f.data ++ frame ⟨s.seq + 1, e⟩ } : File).data
        = frames (rs ++ [⟨s.seq + 1, e⟩]) ++ [] := by
      simp [frames_append, frames, hd]
    have hr' := recsOf_eq hw' torn_nil hd'
    refine ⟨?_, ?_⟩
    · simp only [append, hc, dir, Option.toList]
      refine dirOK_snoc hpre (Nat.le_succ _) ⟨⟨_, _, hw', torn_nil, hd'⟩, ?_, ?_, ?_⟩ ?_
      · have := hfok.2.1; simp; omega
      · simp only [seqsOf, hr', List.map_append, List.map_cons, List.map_nil]
        rw [List.pairwise_append]
        refine ⟨by have := hfok.2.2.1; simpa [seqsOf, hrf] using this, List.pairwise_singleton _ _, ?_⟩
        intro a ha b hb
        simp at hb; subst hb
        have := (hfok.2.2.2 a (by simpa [seqsOf, hrf] using ha)).2; omega
      · intro q hq
        simp only [seqsOf, hr', List.map_append, List.map_cons, List.map_nil, List.mem_append,
          List.mem_singleton] at hq
        rcases hq with hq | hq
        · have := hfok.2.2.2 q (by simpa [seqsOf, hrf] using hq); simp; omega
        · subst hq; have := hfok.2.1; simp; omega
      · intro g hg; exact hbef g hg
    · intro f' hf'
      simp only [append, hc] at hf'
      simp at hf'; subst hf'
      exact ⟨_, hw', by simpa using hd'⟩

theorem inv_flush {dec : Dec} {s : State} (h : Inv dec s) : Inv dec (flush s) := by
  unfold flush; cases hc : s.cur with
  | none => simpa [hc] using h
  | some f => exact ⟨by simpa [dir, hc] using h.ok, fun f' hf' => h.whole f' (by rw [hc]; simpa using hf')⟩

theorem dir_close (s : State) : dir (close s) = dir s := by simp [dir, close]

/-- reopening needs only the directory part (the open file may end in a torn record) -/
theorem inv_reopen {dec : Dec} {s : State} (h : DirOK dec (dir s) s.seq) :
    Inv dec (reopen Mode.fixed dec s) ∧ (reopen Mode.fixed dec s).seq ≤ s.seq := by
  have hd : dir (reopen Mode.fixed dec s) = dir s := by simp [reopen, dir, close]
  have hc : (close s).closed = dir s := by simp [dir, close]
  have := dirOK_findLatest h
  refine ⟨⟨?_, by simp [reopen, close]⟩, ?_⟩
  · rw [hd]; simpa [reopen, hc] using this.1
  · simpa [reopen, hc] using this.2

theorem inv_crash {dec : Dec} {s : State} (k : Nat) (h : Inv dec s) :
    Inv dec (crash Mode.fixed dec s k) ∧ (crash Mode.fixed dec s k).seq ≤ s.seq := by
  unfold crash
  cases hc : s.cur with
  | none => exact inv_reopen h.ok
  | some f =>
    simp only
    have hdir : dir s = s.closed ++ [f] := by simp [dir, hc]
    obtain ⟨rs, hw, hd⟩ := h.whole f hc
    have hok := h.ok; rw [hdir] at hok
    obtain ⟨hpre, hbef, hfok⟩ := dirOK_init hok
    have hrf : recsOf dec f = rs := recsOf_eq hw torn_nil (by simpa using hd)
    generalize max s.flushed (min k f.data.length) = k'
    have hw' : ∀ r ∈ rs.take (fitCount rs k'), WFRec dec r := fun r hr => hw r (List.mem_of_mem_take hr)
    have hd' : ({ f with data := f.data.take k' } : File).data
        = frames (rs.take (fitCount rs k')) ++ (cutRecs rs k').2 := by
      simp only [hd, take_frames, cutRecs_fst]
    have ht := cutRecs_torn rs k' (fun r hr => (hw r hr).2.1)
    have hr' := recsOf_eq hw' ht hd'
    have hsub : ∀ q ∈ seqsOf dec { f with data := f.data.take k' }, q ∈ seqsOf dec f := by
      intro q hq
      simp only [seqsOf, hr', hrf, List.mem_map] at hq ⊢
      obtain ⟨r, hr, rfl⟩ := hq
      exact ⟨r, List.mem_of_mem_take hr, rfl⟩
    apply inv_reopen
    simp only [dir, Option.toList]
    refine dirOK_snoc hpre (Nat.le_refl _) ⟨⟨_, _, hw', ht, hd'⟩, hfok.2.1, ?_, ?_⟩ hbef
    · have := hfok.2.2.1
      simp only [seqsOf, hr', hrf] at this ⊢
      rw [List.map_take]
      exact List.Pairwise.sublist (List.take_sublist _ _) this
    · intro q hq; exact hfok.2.2.2 q (hsub q hq)

theorem inv_close {dec : Dec} {s : State} (h : Inv dec s) : Inv dec (close s) :=
  ⟨by rw [dir_close]; simpa [close] using h.ok, by simp [close]⟩

/-- entries handed to `append`: frame length fits `u32`, bincode reads them back exactly -/
def WFEntry (dec : Dec) (e : Bytes) : Prop :=
  e.length + 12 < 256 ^ 4 ∧ ∀ rest, dec (e ++ rest) = some e.length

theorem flush_seq (s : State) : (flush s).seq = s.seq := by unfold flush; split <;> rfl

theorem append_seq (s : State) (e : Bytes) : (append s e).seq = s.seq + 1 := by simp [append]

theorem inv_step {dec : Dec} {s : State} {n : Nat} (op : Op) (h : Inv dec s) (hn : s.seq ≤ n)
    (hN : n + 1 < 256 ^ 8) (he : ∀ e ∈ opEntries [op], WFEntry dec e) :
    Inv dec (step Mode.fixed dec s op) ∧ (step Mode.fixed dec s op).seq ≤ n + 1 := by
  cases op with
  | append e =>
    have hwe := he e (by simp [opEntries])
    exact ⟨inv_append h ⟨by show s.seq + 1 < 256 ^ 8; omega, hwe.1, hwe.2⟩, by simp [step, append_seq]; omega⟩
  | flush => exact ⟨inv_flush h, by simp only [step, flush_seq]; omega⟩
  | checkpoint e =>
    have hwe := he e (by simp [opEntries])
    refine ⟨inv_close (inv_flush (inv_append h ⟨by show s.seq + 1 < 256 ^ 8; omega, hwe.1, hwe.2⟩)), ?_⟩
    have : (close (flush (append s e))).seq = s.seq + 1 := by
      show (flush (append s e)).seq = s.seq + 1
      rw [flush_seq, append_seq]
    simp only [step, this]; omega
  | reopen => have := inv_reopen (dec := dec) h.ok; exact ⟨this.1, by simp only [step]; omega⟩
  | crash k => have := inv_crash (dec := dec) k h; exact ⟨this.1, by simp only [step]; omega⟩
  | setSync b => exact ⟨⟨by simpa [step, dir] using h.ok, fun f hf => h.whole f (by simpa [step] using hf)⟩,
      by simp [step]; omega⟩

theorem opEntries_cons (op : Op) (ops : List Op) :
    opEntries (op :: ops) = opEntries [op] ++ opEntries ops := by
  cases op <;> simp [opEntries]

theorem inv_foldl {dec : Dec} : ∀ (ops : List Op) (s : State) (n : Nat), Inv dec s → s.seq ≤ n →
    n + ops.length < 256 ^ 8 → (∀ e ∈ opEntries ops, WFEntry dec e) →
    Inv dec (ops.foldl (step Mode.fixed dec) s) ∧ (ops.foldl (step Mode.fixed dec) s).seq ≤ n + ops.length
  | [], s, n, h, hn, _, _ => ⟨h, by simpa using hn⟩
  | op :: ops, s, n, h, hn, hN, he => by
    rw [opEntries_cons] at he
    have h1 := inv_step op h hn (by simp at hN; omega) (fun e he' => he e (List.mem_append_left _ he'))
    have := inv_foldl ops _ (n + 1) h1.1 h1.2 (by simp at hN; omega)
      (fun e he' => he e (List.mem_append_right _ he'))
    simp only [List.foldl_cons, List.length_cons]
    exact ⟨this.1, by have := this.2; omega⟩

theorem inv_run {dec : Dec} (ops : List Op) (hN : ops.length < 256 ^ 8)
    (he : ∀ e ∈ opEntries ops, WFEntry dec e) : Inv dec (run Mode.fixed dec ops) :=
  (inv_foldl ops {} 0 (inv_init dec) (Nat.le_refl _) (by simpa using hN) he).1

/-! ### what replay returns on a directory satisfying the invariant -/

theorem replayDir_good {m : Mode} (hm : m.tornIsEnd = true) {dec : Dec} : ∀ (fs : List File),
    (∀ f ∈ fs, Good dec f) →
    replayDir m dec (fs.map (·.data)) = ((fs.map (recsOf dec)).flatten, .ok)
  | [], _ => by simp [replayDir]
  | f :: fs, h => by
    simp only [List.map_cons, replayDir, replay_good hm (h f (by simp)), if_true,
      replayDir_good hm fs (fun g hg => h g (by simp [hg])), List.flatten_cons]

theorem seqs_sorted {dec : Dec} : ∀ (fs : List File) (B : Nat), DirOK dec fs B →
    (((fs.map (recsOf dec)).flatten).map (·.seq)).Pairwise (· < ·)
  | [], _, _ => by simp
  | f :: fs, B, h => by
    have hp := h.2; rw [List.pairwise_cons] at hp
    have ih := seqs_sorted fs B ⟨fun g hg => h.1 g (by simp [hg]), hp.2⟩
    simp only [List.map_cons, List.flatten_cons, List.map_append]
    rw [List.pairwise_append]
    refine ⟨(h.1 f (by simp)).2.2.1, ih, ?_⟩
    intro a ha b hb
    simp only [List.mem_map, List.mem_flatten] at hb
    obtain ⟨r, ⟨l, ⟨g, hg, rfl⟩, hr⟩, rfl⟩ := hb
    have h1 := (hp.1 g hg).2 a ha
    have h2 := ((h.1 g (by simp [hg])).2.2.2 r.seq (by simp only [seqsOf, List.mem_map]; exact ⟨r, hr, rfl⟩)).1
    omega

theorem seqs_le {dec : Dec} {fs : List File} {B : Nat} (h : DirOK dec fs B) :
    ∀ r ∈ (fs.map (recsOf dec)).flatten, r.seq ≤ B := by
  intro r hr
  simp only [List.mem_flatten, List.mem_map] at hr
  obtain ⟨l, ⟨g, hg, rfl⟩, hr⟩ := hr
  exact ((h.1 g hg).2.2.2 r.seq (by simp only [seqsOf, List.mem_map]; exact ⟨r, hr, rfl⟩)).2

/-! ### a damaged record is reported -/

theorem fromLE_inj : ∀ (l1 l2 : Bytes), l1.length = l2.length → fromLE l1 = fromLE l2 → l1 = l2
  | [], [], _, _ => rfl
  | [], _ :: _, h, _ => by simp at h
  | _ :: _, [], h, _ => by simp at h
  | a :: l1, b :: l2, hl, h => by
    simp only [fromLE] at h
    have ha := a.toNat_lt; have hb := b.toNat_lt
    have h1 : a.toNat = b.toNat := by omega
    have h2 : fromLE l1 = fromLE l2 := by omega
    rw [UInt8.toNat_inj.mp h1, fromLE_inj l1 l2 (by simpa using hl) h2]

theorem xorAll_flip (a c : Bytes) (b m : UInt8) (hm : m ≠ 0) :
    xorAll (a ++ (b ^^^ m) :: c) ≠ xorAll (a ++ b :: c) := by
  intro h
  simp only [xorAll_append, xorAll] at h
  rw [UInt8.xor_right_inj, UInt8.xor_left_inj] at h
  have : b ^^^ (b ^^^ m) = b ^^^ b := by rw [h]
  rw [← UInt8.xor_assoc, UInt8.xor_self, UInt8.zero_xor] at this
  exact hm this

theorem cksum_flip (a c : Bytes) (b m : UInt8) (hm : m ≠ 0) :
    cksum (a ++ b :: c) ≠ cksum (a ++ (b ^^^ m) :: c) := by
  intro h
  simp only [cksum] at h
  exact xorAll_flip a c b m hm (UInt8.toNat_inj.mp h).symm

/-- A frame-shaped chunk (length prefix consistent with the entry) whose stored checksum
bytes do not decode to the XOR of its entry bytes stops the replay with an error, whatever
the bincode decoder makes of the entry bytes — provided records must fill their frame. -/
theorem replayFile_badck {m : Mode} (hm : m.exactSize = true) (dec : Dec) (q : Nat) (e ckb post : Bytes)
    (fuel : Nat) (hL : e.length + 12 < 256 ^ 4) (hc4 : ckb.length = 4) (hne : fromLE ckb ≠ cksum e) :
    ∃ err, err ≠ End.ok ∧
      replayFile m dec (fuel + 1) (le 4 (e.length + 12) ++ (le 8 q ++ (e ++ ckb)) ++ post) = ([], err) := by
  have hbl : (le 8 q ++ (e ++ ckb)).length = e.length + 12 := by simp [le_length, hc4]; omega
  have ht : (le 4 (e.length + 12) ++ (le 8 q ++ (e ++ ckb)) ++ post).take 4 = le 4 (e.length + 12) := by
    simp only [List.append_assoc]; exact List.take_left' (le_length 4 _)
  have hd : (le 4 (e.length + 12) ++ (le 8 q ++ (e ++ ckb)) ++ post).drop 4
      = (le 8 q ++ (e ++ ckb)) ++ post := by
    simp only [List.append_assoc]; exact List.drop_left' (le_length 4 _)
  rw [replayFile]
  simp only [ht, hd, fromLE_le 4 _ hL]
  rw [if_neg (by simp [le_length]), if_neg (by rw [List.length_append, hbl]; omega), List.take_left' hbl]
  unfold parseBody
  rw [if_neg (by omega), List.drop_left' (le_length 8 q)]
  cases hdec : dec (e ++ ckb) with
  | none => exact ⟨.ser, by simp, rfl⟩
  | some n =>
    dsimp only
    by_cases hshort : (le 8 q ++ (e ++ ckb)).length < 8 + n + 4
    · rw [if_pos hshort]; exact ⟨.ser, by simp, rfl⟩
    · rw [if_neg hshort]
      dsimp only
      by_cases hsz : 8 + n + 4 = e.length + 12
      · have hn : n = e.length := by omega
        subst hn
        have h1 : (e ++ ckb).take e.length = e := List.take_left' rfl
        have h2 : ((le 8 q ++ (e ++ ckb)).drop (8 + e.length)).take 4 = ckb := by
          rw [← List.drop_drop, List.drop_left' (le_length 8 q), List.drop_left' rfl,
            List.take_of_length_le (by omega)]
        rw [h1, h2, if_pos (by simp [hne.symm])]
        exact ⟨_, by simp, rfl⟩
      · rw [if_pos (by simp [hm]; exact Or.inl (by omega))]
        exact ⟨_, by simp, rfl⟩

/-- the same, after any number of intact records -/
theorem replayFile_frames_then {m : Mode} {dec : Dec} (rs : List Rec) (hw : ∀ r ∈ rs, WFRec dec r)
    (fuel : Nat) (rest : Bytes) :
    replayFile m dec (rs.length + fuel) (frames rs ++ rest)
      = (rs ++ (replayFile m dec fuel rest).1, (replayFile m dec fuel rest).2) := by
  induction rs with
  | nil => simp [frames]
  | cons r rs ih =>
    have : (r :: rs).length + fuel = (rs.length + fuel) + 1 := by simp; omega
    rw [this]
    simp only [frames, List.append_assoc]
    rw [replayFile_frame (hw r (by simp)), ih (fun x hx => hw x (by simp [hx]))]
    simp

/-! ### what each operation does to the records on disk -/

/-- all records of the directory, in replay order -/
def allRecs (dec : Dec) (s : State) : List Rec := ((dir s).map (recsOf dec)).flatten

theorem allRecs_append {dec : Dec} {s : State} {e : Bytes} (h : Inv dec s)
    (he : WFRec dec ⟨s.seq + 1, e⟩) : allRecs dec (append s e) = allRecs dec s ++ [⟨s.seq + 1, e⟩] := by
  cases hc : s.cur with
  | none =>
    have hd : (⟨s.seq + 1, frame ⟨s.seq + 1, e⟩⟩ : File).data = frames [⟨s.seq + 1, e⟩] ++ [] := by
      simp [frames]
    have hw : ∀ r ∈ [(⟨s.seq + 1, e⟩ : Rec)], WFRec dec r := by simp [he]
    have hr := recsOf_eq hw torn_nil hd
    simp only [allRecs, append, hc, dir, Option.toList, List.nil_append, List.map_append, List.map_cons,
      List.map_nil, List.flatten_append, List.flatten_cons, List.flatten_nil, List.append_nil, hr]
  | some f =>
    obtain ⟨rs, hw, hd⟩ := h.whole f hc
    have hrf : recsOf dec f = rs := recsOf_eq hw torn_nil (by simpa using hd)
    have hw' : ∀ r ∈ rs ++ [(⟨s.seq + 1, e⟩ : Rec)], WFRec dec r := by
      intro r hr; rcases List.mem_append.mp hr with hr | hr
      · exact hw r hr
      · simp at hr; subst hr; exact he
    have hd' : ({ f with data := f.data ++ frame ⟨s.seq + 1, e⟩ } : File).data
        = frames (rs ++ [⟨s.seq + 1, e⟩]) ++ [] := by
      simp [frames_append, frames, hd]
    have hr' := recsOf_eq hw' torn_nil hd'
    simp only [allRecs, append, hc, dir, Option.toList, List.map_append, List.map_cons,
      List.map_nil, List.flatten_append, List.flatten_cons, List.flatten_nil, List.append_nil, hr', hrf,
      List.append_assoc]

theorem allRecs_flush (dec : Dec) (s : State) : allRecs dec (flush s) = allRecs dec s := by
  unfold flush; split <;> simp_all [allRecs, dir]

theorem allRecs_close (dec : Dec) (s : State) : allRecs dec (close s) = allRecs dec s := by
  simp [allRecs, dir_close]

theorem allRecs_reopen (dec : Dec) (m : Mode) (s : State) : allRecs dec (reopen m dec s) = allRecs dec s := by
  simp [allRecs, reopen, dir, close]

/-- a crash keeps a prefix of the records (it cuts the file that is being written, which is
the last one in replay order) -/
theorem allRecs_crash {dec : Dec} {s : State} (k : Nat) (h : Inv dec s) :
    allRecs dec (crash Mode.fixed dec s k) <+: allRecs dec s := by
  unfold crash
  cases hc : s.cur with
  | none => simp only; rw [allRecs_reopen]; exact List.prefix_refl _
  | some f =>
    simp only
    obtain ⟨rs, hw, hd⟩ := h.whole f hc
    have hrf : recsOf dec f = rs := recsOf_eq hw torn_nil (by simpa using hd)
    generalize max s.flushed (min k f.data.length) = k'
    have hw' : ∀ r ∈ rs.take (fitCount rs k'), WFRec dec r := fun r hr => hw r (List.mem_of_mem_take hr)
    have hd' : ({ f with data := f.data.take k' } : File).data
        = frames (rs.take (fitCount rs k')) ++ (cutRecs rs k').2 := by
      simp only [hd, take_frames, cutRecs_fst]
    have ht := cutRecs_torn rs k' (fun r hr => (hw r hr).2.1)
    have hr' := recsOf_eq hw' ht hd'
    rw [allRecs_reopen]
    simp only [allRecs, dir, hc, Option.toList, List.map_append, List.map_cons, List.map_nil,
      List.flatten_append, List.flatten_cons, List.flatten_nil, List.append_nil, hr', hrf]
    exact (List.prefix_append_right_inj _).mpr (List.take_prefix _ _)

def noCrash : List Op → Bool
  | [] => true
  | .crash _ :: _ => false
  | _ :: ops => noCrash ops

theorem allRecs_step {dec : Dec} {s : State} (op : Op) (h : Inv dec s)
    (hw : ∀ e ∈ opEntries [op], WFRec dec ⟨s.seq + 1, e⟩) :
    List.Sublist ((allRecs dec (step Mode.fixed dec s op)).map (·.entry))
        ((allRecs dec s).map (·.entry) ++ opEntries [op])
    ∧ (noCrash [op] = true → (allRecs dec (step Mode.fixed dec s op)).map (·.entry)
        = (allRecs dec s).map (·.entry) ++ opEntries [op]) := by
  cases op with
  | append e =>
    have := allRecs_append h (hw e (by simp [opEntries]))
    simp only [step, this, opEntries, List.map_append, List.map_cons, List.map_nil]
    exact ⟨List.Sublist.refl _, fun _ => trivial⟩
  | checkpoint e =>
    have := allRecs_append h (hw e (by simp [opEntries]))
    simp only [step, allRecs_close, allRecs_flush, this, opEntries, List.map_append, List.map_cons,
      List.map_nil]
    exact ⟨List.Sublist.refl _, fun _ => trivial⟩
  | flush => simp [step, allRecs_flush, opEntries]
  | reopen => simp [step, allRecs_reopen, opEntries]
  | setSync b => simp [step, allRecs, dir, opEntries]
  | crash k =>
    simp only [step, opEntries, List.append_nil, noCrash]
    exact ⟨(List.IsPrefix.sublist (allRecs_crash k h)).map _, by simp⟩

theorem noCrash_cons (op : Op) (ops : List Op) :
    noCrash (op :: ops) = (noCrash [op] && noCrash ops) := by
  cases op <;> simp [noCrash]

theorem allRecs_foldl {dec : Dec} : ∀ (ops : List Op) (s : State) (n : Nat), Inv dec s → s.seq ≤ n →
    n + ops.length < 256 ^ 8 → (∀ e ∈ opEntries ops, WFEntry dec e) →
    List.Sublist ((allRecs dec (ops.foldl (step Mode.fixed dec) s)).map (·.entry))
        ((allRecs dec s).map (·.entry) ++ opEntries ops)
    ∧ (noCrash ops = true → (allRecs dec (ops.foldl (step Mode.fixed dec) s)).map (·.entry)
        = (allRecs dec s).map (·.entry) ++ opEntries ops)
  | [], s, n, _, _, _, _ => by simp [opEntries]
  | op :: ops, s, n, h, hn, hN, he => by
    rw [opEntries_cons] at he ⊢
    have hN' : n + 1 + ops.length < 256 ^ 8 := by simp at hN; omega
    have h1 := inv_step op h hn (by omega) (fun e he' => he e (List.mem_append_left _ he'))
    have hs := allRecs_step op h (fun e he' =>
      ⟨by show s.seq + 1 < 256 ^ 8; omega, (he e (List.mem_append_left _ he')).1,
        (he e (List.mem_append_left _ he')).2⟩)
    have ih := allRecs_foldl ops _ (n + 1) h1.1 h1.2 hN' (fun e he' => he e (List.mem_append_right _ he'))
    simp only [List.foldl_cons]
    refine ⟨?_, ?_⟩
    · have := List.Sublist.trans ih.1 (List.Sublist.append_right hs.1 (opEntries ops))
      simpa [List.append_assoc] using this
    · intro hnc
      rw [noCrash_cons, Bool.and_eq_true] at hnc
      rw [ih.2 hnc.2, hs.2 hnc.1, List.append_assoc]

/-! ### the history specification on the model's own observations -/

/-- the records a history appends, under the sequence the model assigns at that moment -/
def appRecs (m : Mode) (dec : Dec) : State → List Op → List Rec
  | _, [] => []
  | s, op :: ops => (opEntries [op]).map (fun e => ⟨s.seq + 1, e⟩) ++ appRecs m dec (step m dec s op) ops

theorem step_seq_append (m : Mode) (dec : Dec) (s : State) (e : Bytes) :
    (step m dec s (.append e)).seq = s.seq + 1 ∧ (step m dec s (.checkpoint e)).seq = s.seq + 1 := by
  constructor
  · simp [step, append_seq]
  · show (flush (append s e)).seq = s.seq + 1
    rw [flush_seq, append_seq]

theorem appended_trace (m : Mode) (dec : Dec) : ∀ (ops : List Op) (s : State),
    appended ops (traceObs m dec s ops) = appRecs m dec s ops
  | [], _ => rfl
  | op :: ops, s => by
    have ih := appended_trace m dec ops (step m dec s op)
    cases op <;>
      simp [appended, traceObs, appRecs, opEntries, ih, (step_seq_append m dec s _).1,
        (step_seq_append m dec s _).2]

theorem appRecs_entries (m : Mode) (dec : Dec) : ∀ (ops : List Op) (s : State),
    (appRecs m dec s ops).map (·.entry) = opEntries ops
  | [], _ => rfl
  | op :: ops, s => by
    rw [opEntries_cons]
    simp [appRecs, appRecs_entries m dec ops, List.map_map, Function.comp_def]

theorem allRecs_step_rec {dec : Dec} {s : State} (op : Op) (h : Inv dec s)
    (hw : ∀ e ∈ opEntries [op], WFRec dec ⟨s.seq + 1, e⟩) :
    List.Sublist (allRecs dec (step Mode.fixed dec s op))
      (allRecs dec s ++ (opEntries [op]).map (fun e => ⟨s.seq + 1, e⟩)) := by
  cases op with
  | append e =>
    have := allRecs_append h (hw e (by simp [opEntries]))
    simp [step, this, opEntries]
  | checkpoint e =>
    have := allRecs_append h (hw e (by simp [opEntries]))
    simp [step, allRecs_close, allRecs_flush, this, opEntries]
  | flush => simp [step, allRecs_flush, opEntries]
  | reopen => simp [step, allRecs_reopen, opEntries]
  | setSync b => simp [step, allRecs, dir, opEntries]
  | crash k =>
    simp only [step, opEntries, List.map_nil, List.append_nil]
    exact List.IsPrefix.sublist (allRecs_crash k h)

theorem allRecs_foldl_rec {dec : Dec} : ∀ (ops : List Op) (s : State) (n : Nat), Inv dec s → s.seq ≤ n →
    n + ops.length < 256 ^ 8 → (∀ e ∈ opEntries ops, WFEntry dec e) →
    List.Sublist (allRecs dec (ops.foldl (step Mode.fixed dec) s))
      (allRecs dec s ++ appRecs Mode.fixed dec s ops)
  | [], s, n, _, _, _, _ => by simp [appRecs]
  | op :: ops, s, n, h, hn, hN, he => by
    rw [opEntries_cons] at he
    have hN' : n + 1 + ops.length < 256 ^ 8 := by simp at hN; omega
    have h1 := inv_step op h hn (by omega) (fun e he' => he e (List.mem_append_left _ he'))
    have hs := allRecs_step_rec op h (fun e he' =>
      ⟨by show s.seq + 1 < 256 ^ 8; omega, (he e (List.mem_append_left _ he')).1,
        (he e (List.mem_append_left _ he')).2⟩)
    have ih := allRecs_foldl_rec ops _ (n + 1) h1.1 h1.2 hN' (fun e he' => he e (List.mem_append_right _ he'))
    simp only [List.foldl_cons, appRecs]
    have := List.Sublist.trans ih (List.Sublist.append_right hs _)
    simpa [List.append_assoc] using this

theorem isSubseq_of_sublist : ∀ {a b : List Bytes}, List.Sublist a b → isSubseq a b = true
  | _, _, .slnil => by simp [isSubseq]
  | a, _ :: _, .cons x h => by
    cases a with
    | nil => simp [isSubseq]
    | cons y ys =>
      simp only [isSubseq]
      split
      · rename_i heq
        have : y = x := by simpa using heq
        subst this
        exact isSubseq_of_sublist ((List.sublist_cons_self _ _).trans h)
      · exact isSubseq_of_sublist h
  | _ :: _, _ :: _, .cons_cons x h => by
    simp only [isSubseq, beq_self_eq_true, if_true]
    exact isSubseq_of_sublist h

/-- filtering the appended records by "was delivered" gives back exactly the delivered
records, because entries are pairwise distinct -/
theorem filter_of_sublist : ∀ {l app : List Rec}, List.Sublist l app → (app.map (·.entry)).Nodup →
    app.filter (fun r => (l.map (·.entry)).contains r.entry) = l
  | _, _, .slnil, _ => rfl
  | l, _ :: app, .cons a h, hnd => by
    rw [List.map_cons, List.nodup_cons] at hnd
    have hna : (l.map (·.entry)).contains a.entry = false := by
      rw [Bool.eq_false_iff]; intro hc
      rw [List.contains_iff_mem] at hc
      exact hnd.1 ((h.map _).subset hc)
    rw [List.filter_cons, hna]; simp only [Bool.false_eq_true, if_false]
    exact filter_of_sublist h hnd.2
  | _ :: l, _ :: app, .cons_cons a h, hnd => by
    rw [List.map_cons, List.nodup_cons] at hnd
    rw [List.filter_cons]
    simp only [List.map_cons, List.contains_cons, beq_self_eq_true, Bool.true_or, if_true]
    congr 1
    rw [← filter_of_sublist h hnd.2]
    apply List.filter_congr
    intro r hr
    have : (r.entry == a.entry) = false := by
      rw [beq_eq_false_iff_ne]; intro heq
      exact hnd.1 (heq ▸ List.mem_map.mpr ⟨r, hr, rfl⟩)
    have h2 := filter_of_sublist h hnd.2
    simp only [this, Bool.false_or]
    rw [h2]

theorem traceObs_ok (m : Mode) (dec : Dec) : ∀ (ops : List Op) (s : State),
    ops.length = (traceObs m dec s ops).length ∧
    (List.zip ops (traceObs m dec s ops)).all (fun (op, (ret, cur)) =>
      match op with
      | .append _ => ret == some cur
      | _ => ret == none) = true
  | [], _ => by simp [traceObs]
  | op :: ops, s => by
    have ih := traceObs_ok m dec ops (step m dec s op)
    refine ⟨by simp [traceObs, ih.1], ?_⟩
    simp only [traceObs, List.zip_cons_cons, List.all_cons, ih.2, Bool.and_true]
    cases op <;> simp

/-! ### helpers of the property theorems (numbering of appended records, replay after an intact prefix, Bool/Prop bridges, toy decoders of the concrete witnesses) -/

/-- records `q+1, q+2, …` for the entries `es` — what consecutive `append`s write -/
def number (q : Nat) : List Bytes → List Rec
  | [] => []
  | e :: es => ⟨q + 1, e⟩ :: number (q + 1) es

theorem number_entries : ∀ (q : Nat) (es : List Bytes), (number q es).map (·.entry) = es
  | _, [] => rfl
  | q, e :: es => by simp [number, number_entries (q + 1) es]

theorem number_seqs : ∀ (q : Nat) (es : List Bytes),
    (number q es).map (·.seq) = (List.range es.length).map (fun i => q + 1 + i)
  | _, [] => rfl
  | q, e :: es => by
    simp only [number, List.map_cons, List.length_cons, List.range_succ_eq_map, number_seqs (q + 1) es,
      List.map_map]
    simp only [List.cons.injEq, Nat.add_zero, true_and]
    apply List.map_congr_left; intro i _; simp; omega

theorem foldl_append_cur : ∀ (es : List Bytes) (s : State) (f : File), s.cur = some f →
    (es.foldl append s).cur = some ⟨f.name, f.data ++ frames (number s.seq es)⟩
      ∧ (es.foldl append s).closed = s.closed ∧ (es.foldl append s).seq = s.seq + es.length
  | [], s, f, h => by simp [number, frames, h]
  | e :: es, s, f, h => by
    have h1 : (append s e).cur = some ⟨f.name, f.data ++ frame ⟨s.seq + 1, e⟩⟩ := by simp [append, h]
    have := foldl_append_cur es (append s e) _ h1
    simp only [List.foldl_cons, number, frames, append_seq] at this ⊢
    refine ⟨by rw [this.1]; simp, by rw [this.2.1]; simp [append], by rw [this.2.2]; simp; omega⟩

theorem replayDir_allRecs {dec : Dec} {s : State} (h : Inv dec s) :
    replayDir Mode.fixed dec (image s) = (allRecs dec s, End.ok) :=
  replayDir_good (m := Mode.fixed) rfl (dir s) (fun f hf => (h.ok.1 f hf).1)

theorem replay_pre_then {dec : Dec} (pre : List Rec) (hw : ∀ r ∈ pre, WFRec dec r) (rest : Bytes)
    (P : List Rec × End → Prop)
    (h : ∀ fuel, P (pre ++ (replayFile Mode.fixed dec (fuel + 1) rest).1,
        (replayFile Mode.fixed dec (fuel + 1) rest).2)) :
    P (replay Mode.fixed dec (frames pre ++ rest)) := by
  have hlen := frames_length_ge pre
  have : (frames pre ++ rest).length + 1 = pre.length + (((frames pre ++ rest).length - pre.length) + 1) := by
    simp only [List.length_append]; omega
  unfold replay
  rw [this, replayFile_frames_then pre hw]
  exact h _

theorem strictIncr_iff : ∀ (l : List Nat), strictIncr l = true ↔ l.Pairwise (· < ·)
  | [] => by simp [strictIncr]
  | [a] => by simp [strictIncr]
  | a :: b :: rest => by
    have ih := strictIncr_iff (b :: rest)
    simp only [strictIncr, Bool.and_eq_true, decide_eq_true_eq, ih, List.pairwise_cons]
    constructor
    · rintro ⟨hab, h1, h2⟩
      refine ⟨fun x hx => ?_, h1, h2⟩
      rcases List.mem_cons.mp hx with rfl | hx
      · exact hab
      · exact Nat.lt_trans hab (h1 x hx)
    · rintro ⟨h0, h1, h2⟩
      exact ⟨h0 b (by simp), h1, h2⟩

theorem delivered_zero (rs : List Rec) : delivered 0 rs = rs := by
  simp [delivered]

/-- toy decoders for the concrete witnesses: every entry is one byte / is length-prefixed -/
def dec1 : Dec := fun _ => some 1
def decLen : Dec := fun b =>
  match b with
  | [] => none
  | n :: rest => if n.toNat ≤ rest.length then some (n.toNat + 1) else none

end SgModel.Wal
