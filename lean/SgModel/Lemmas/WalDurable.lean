import SgModel.Lemmas.WalWriter
/-! C15 — durability bookkeeping: the `durability` marking of the executable specification
against the writer's `flushed` counter (core Lean only). -/
namespace SgModel.Wal

/-- `e` is replayed from the directory as it is now -/
def Live (dec : Dec) (s : State) (e : Bytes) : Prop := e ∈ (allRecs dec s).map (·.entry)

/-- `e` is replayed whatever number of bytes of the open file survive a crash now -/
def Safe (dec : Dec) (s : State) (e : Bytes) : Prop :=
  ∀ k, e ∈ (allRecs dec (crash Mode.fixed dec s k)).map (·.entry)

/-- everything written to the open file has been flushed -/
def FullyFlushed (s : State) : Prop := ∀ f, s.cur = some f → s.flushed = f.data.length

theorem safe_live {dec : Dec} {s : State} {e : Bytes} (h : Inv dec s) (hs : Safe dec s e) :
    Live dec s e :=
  ((List.IsPrefix.sublist (allRecs_crash 0 h)).map _).subset (hs 0)

theorem crash_eq_reopen (m : Mode) (dec : Dec) {s : State} (k : Nat) (h : FullyFlushed s) :
    crash m dec s k = reopen m dec s := by
  unfold crash
  cases hc : s.cur with
  | none => rfl
  | some f =>
    have hf := h f hc
    have hk : max s.flushed (min k f.data.length) = f.data.length := by omega
    simp only [hk, List.take_length]
    congr 1
    cases s; simp_all

theorem live_safe {dec : Dec} {s : State} {e : Bytes} (hf : FullyFlushed s) (h : Live dec s e) :
    Safe dec s e := by
  intro k
  rw [crash_eq_reopen Mode.fixed dec k hf, allRecs_reopen]; exact h

theorem ff_flush (s : State) : FullyFlushed (flush s) := by
  unfold flush; cases hc : s.cur with
  | none => intro f hf; simp [hc] at hf
  | some g => intro f hf; simp at hf; subst hf; rfl

theorem ff_close (s : State) : FullyFlushed (close s) := by intro f hf; simp [close] at hf
theorem ff_reopen (m : Mode) (dec : Dec) (s : State) : FullyFlushed (reopen m dec s) := by
  intro f hf; simp [reopen, close] at hf
theorem ff_crash (m : Mode) (dec : Dec) (s : State) (k : Nat) : FullyFlushed (crash m dec s k) := by
  unfold crash; cases s.cur <;> exact ff_reopen _ _ _
theorem ff_append_sync {s : State} (e : Bytes) (hs : s.sync = true) : FullyFlushed (append s e) := by
  intro f hf
  simp only [append, hs, if_true] at hf ⊢
  simp at hf; rw [← hf]

theorem live_append {dec : Dec} {s : State} {e : Bytes} (h : Inv dec s)
    (he : WFRec dec ⟨s.seq + 1, e⟩) :
    Live dec (append s e) e ∧ ∀ x, Live dec s x → Live dec (append s e) x := by
  simp only [Live, allRecs_append h he, List.map_append, List.mem_append, List.map_cons, List.map_nil,
    List.mem_singleton]
  exact ⟨Or.inr trivial, fun x hx => Or.inl hx⟩

theorem fitCount_mono : ∀ (rs : List Rec) {k k' : Nat}, k ≤ k' → fitCount rs k ≤ fitCount rs k'
  | [], _, _, _ => by simp [fitCount]
  | r :: rs, k, k', h => by
    simp only [fitCount]
    by_cases h1 : r.entry.length + 16 ≤ k
    · rw [if_pos h1, if_pos (by omega)]
      have := fitCount_mono rs (k := k - (r.entry.length + 16)) (k' := k' - (r.entry.length + 16)) (by omega)
      omega
    · rw [if_neg h1]; omega

theorem fitCount_append_le : ∀ (rs t : List Rec) (k : Nat), fitCount rs k ≤ fitCount (rs ++ t) k
  | [], _, _ => by simp [fitCount]
  | r :: rs, t, k => by
    simp only [fitCount, List.cons_append]
    split
    · have := fitCount_append_le rs t (k - (r.entry.length + 16)); omega
    · omega

/-- what a crash leaves, explicitly -/
theorem allRecs_crash_eq {dec : Dec} {s : State} (k : Nat) (h : Inv dec s) {f : File}
    (hc : s.cur = some f) :
    allRecs dec (crash Mode.fixed dec s k)
      = (s.closed.map (recsOf dec)).flatten
        ++ (recsOf dec f).take (fitCount (recsOf dec f) (max s.flushed (min k f.data.length))) := by
  unfold crash
  rw [hc]
  simp only
  obtain ⟨rs, hw, hd⟩ := h.whole f hc
  have hrf : recsOf dec f = rs := recsOf_eq hw torn_nil (by simpa using hd)
  generalize max s.flushed (min k f.data.length) = k'
  have hw' : ∀ r ∈ rs.take (fitCount rs k'), WFRec dec r := fun r hr => hw r (List.mem_of_mem_take hr)
  have hd' : ({ f with data := f.data.take k' } : File).data
      = frames (rs.take (fitCount rs k')) ++ (cutRecs rs k').2 := by
    simp only [hd, take_frames, cutRecs_fst]
  have ht := cutRecs_torn rs k' (fun r hr => (hw r hr).2.1)
  have hr' := recsOf_eq hw' ht hd'
  rw [allRecs_reopen]
  simp only [allRecs, dir, Option.toList, List.map_append, List.map_cons, List.map_nil,
    List.flatten_append, List.flatten_cons, List.flatten_nil, List.append_nil, hr', hrf]

theorem mem_take_mono {α : Type} {l : List α} {x : α} {n n' : Nat} (h : n ≤ n') (hx : x ∈ l.take n) :
    x ∈ l.take n' := by
  have : l.take n = (l.take n').take n := by rw [List.take_take, Nat.min_eq_left h]
  rw [this] at hx; exact List.mem_of_mem_take hx

/-- an `append` outside sync mode keeps what was safe safe -/
theorem safe_append {dec : Dec} {s : State} {e x : Bytes} (h : Inv dec s)
    (he : WFRec dec ⟨s.seq + 1, e⟩) (hsync : s.sync = false) (hx : Safe dec s x) :
    Safe dec (append s e) x := by
  intro k
  have hinv' := inv_append h he
  cases hc : s.cur with
  | none =>
    have hlive := safe_live h hx
    have hc' : (append s e).cur = some ⟨s.seq + 1, frame ⟨s.seq + 1, e⟩⟩ := by simp [append, hc]
    rw [allRecs_crash_eq k hinv' hc']
    have hcl : (append s e).closed = s.closed := by simp [append]
    have hall : allRecs dec s = (s.closed.map (recsOf dec)).flatten := by simp [allRecs, dir, hc]
    rw [hcl, List.map_append, List.mem_append]
    left; rw [← hall]; exact hlive
  | some f =>
    obtain ⟨rs, hw, hd⟩ := h.whole f hc
    have hrf : recsOf dec f = rs := recsOf_eq hw torn_nil (by simpa using hd)
    have hc' : (append s e).cur = some { f with data := f.data ++ frame ⟨s.seq + 1, e⟩ } := by
      simp [append, hc]
    have hw' : ∀ r ∈ rs ++ [(⟨s.seq + 1, e⟩ : Rec)], WFRec dec r := by
      intro r hr; rcases List.mem_append.mp hr with hr | hr
      · exact hw r hr
      · simp at hr; subst hr; exact he
    have hd' : ({ f with data := f.data ++ frame ⟨s.seq + 1, e⟩ } : File).data
        = frames (rs ++ [⟨s.seq + 1, e⟩]) ++ [] := by
      simp [frames_append, frames, hd]
    have hr' := recsOf_eq hw' torn_nil hd'
    have hfl : (append s e).flushed = s.flushed := by simp [append, hsync, hc]
    have hcl : (append s e).closed = s.closed := by simp [append]
    have h0 := hx k
    rw [allRecs_crash_eq k h hc, hrf] at h0
    rw [allRecs_crash_eq k hinv' hc', hr', hfl, hcl]
    rw [List.map_append, List.mem_append] at h0 ⊢
    rcases h0 with h0 | h0
    · exact Or.inl h0
    · right
      rw [List.mem_map] at h0 ⊢
      obtain ⟨y, hy, rfl⟩ := h0
      refine ⟨y, ?_, rfl⟩
      have hlen : f.data.length ≤ ({ f with data := f.data ++ frame ⟨s.seq + 1, e⟩ } : File).data.length := by
        simp
      have hn : fitCount rs (max s.flushed (min k f.data.length))
          ≤ fitCount (rs ++ [⟨s.seq + 1, e⟩])
              (max s.flushed (min k ({ f with data := f.data ++ frame ⟨s.seq + 1, e⟩ } : File).data.length)) :=
        Nat.le_trans (fitCount_mono rs (by omega)) (fitCount_append_le rs _ _)
      have := mem_take_mono hn hy
      rw [List.take_append]
      exact List.mem_append_left _ this

theorem allRecs_setSync (dec : Dec) (s : State) (b : Bool) :
    allRecs dec { s with sync := b } = allRecs dec s := rfl

theorem allRecs_crash_setSync (m : Mode) (dec : Dec) (s : State) (b : Bool) (k : Nat) :
    allRecs dec (crash m dec { s with sync := b } k) = allRecs dec (crash m dec s k) := by
  unfold crash
  cases hc : s.cur <;> simp [allRecs, reopen, close, dir, hc]

/-- one step of the induction behind `specDurable` -/
theorem durability_live {dec : Dec} : ∀ (ops : List Op) (s : State) (n : Nat)
    (done pend : List (Bytes × Bool)),
    Inv dec s → s.seq ≤ n → n + ops.length < 256 ^ 8 → (∀ e ∈ opEntries ops, WFEntry dec e) →
    (∀ p ∈ done, p.2 = true → Safe dec s p.1) → (∀ p ∈ pend, Live dec s p.1) →
    (∀ p ∈ pend, p.2 = false) →
    ∀ q ∈ durability ops s.sync done pend, q.2 = true →
      Live dec (ops.foldl (step Mode.fixed dec) s) q.1
  | [], s, _, done, pend, h, _, _, _, hd, hp, _ => by
    intro q hq hq2
    simp only [durability, List.mem_reverse, List.mem_append, List.mem_map] at hq
    rcases hq with ⟨p, hp', rfl⟩ | hq
    · exact hp p hp'
    · exact safe_live h (hd q hq hq2)
  | op :: ops, s, n, done, pend, h, hn, hN, he, hd, hp, hpf => by
    rw [opEntries_cons] at he
    have hN' : n + 1 + ops.length < 256 ^ 8 := by simp at hN; omega
    have h1 := inv_step op h hn (by omega) (fun e he' => he e (List.mem_append_left _ he'))
    have ih := durability_live (dec := dec) ops (step Mode.fixed dec s op) (n + 1)
    have he2 : ∀ e ∈ opEntries ops, WFEntry dec e := fun e he' => he e (List.mem_append_right _ he')
    -- after a settling step everything live is safe
    have settle : ∀ (s' : State), FullyFlushed s' → (∀ x, Live dec s x → Live dec s' x) →
        ∀ p ∈ pend.map (fun p => (p.1, true)) ++ done, p.2 = true → Safe dec s' p.1 := by
      intro s' hff hl p hp' hp2
      apply live_safe hff
      rcases List.mem_append.mp hp' with hp' | hp'
      · simp only [List.mem_map] at hp'
        obtain ⟨p0, hp0, rfl⟩ := hp'
        exact hl _ (hp p0 hp0)
      · exact hl _ (safe_live h (hd p hp' hp2))
    simp only [List.foldl_cons]
    cases op with
    | append e =>
      have hwe := he e (by simp [opEntries])
      have hwr : WFRec dec ⟨s.seq + 1, e⟩ := ⟨by show s.seq + 1 < 256 ^ 8; omega, hwe.1, hwe.2⟩
      have hla := live_append h hwr
      have hsy : (step Mode.fixed dec s (.append e)).sync = s.sync := by simp [step, append]
      by_cases hs : s.sync = true
      · simp only [durability, hs, if_true]
        have := ih ((e, true) :: (pend.map (fun p => (p.1, true)) ++ done)) [] h1.1 h1.2 hN' he2
          (by
            intro p hp' hp2
            rcases List.mem_cons.mp hp' with rfl | hp'
            · exact live_safe (ff_append_sync e hs) hla.1
            · exact settle _ (ff_append_sync e hs) hla.2 p hp' hp2)
          (by simp) (by simp)
        rw [hsy, hs] at this; exact this
      · have hs' : s.sync = false := by simpa using hs
        simp only [durability, hs', Bool.false_eq_true, if_false]
        have := ih done ((e, false) :: pend) h1.1 h1.2 hN' he2
          (fun p hp' hp2 => safe_append h hwr hs' (hd p hp' hp2))
          (by
            intro p hp'
            rcases List.mem_cons.mp hp' with rfl | hp'
            · exact hla.1
            · exact hla.2 _ (hp p hp'))
          (by
            intro p hp'
            rcases List.mem_cons.mp hp' with rfl | hp'
            · rfl
            · exact hpf p hp')
        rw [hsy, hs'] at this; exact this
    | checkpoint e =>
      have hwe := he e (by simp [opEntries])
      have hwr : WFRec dec ⟨s.seq + 1, e⟩ := ⟨by show s.seq + 1 < 256 ^ 8; omega, hwe.1, hwe.2⟩
      have hla := live_append h hwr
      have hall : ∀ x, Live dec (append s e) x → Live dec (step Mode.fixed dec s (.checkpoint e)) x := by
        intro x hx
        show x ∈ (allRecs dec (close (flush (append s e)))).map (·.entry)
        rw [allRecs_close, allRecs_flush]; exact hx
      have hsy : (step Mode.fixed dec s (.checkpoint e)).sync = s.sync := by
        simp only [step, close, flush]; split <;> simp [append]
      simp only [durability]
      have := ih ((e, true) :: (pend.map (fun p => (p.1, true)) ++ done)) [] h1.1 h1.2 hN' he2
        (by
          intro p hp' hp2
          rcases List.mem_cons.mp hp' with rfl | hp'
          · exact live_safe (ff_close _) (hall _ hla.1)
          · exact settle _ (ff_close _) (fun x hx => hall x (hla.2 x hx)) p hp' hp2)
        (by simp) (by simp)
      rw [hsy] at this; exact this
    | flush =>
      have hsy : (step Mode.fixed dec s .flush).sync = s.sync := by
        simp only [step, flush]; split <;> rfl
      simp only [durability]
      have := ih (pend.map (fun p => (p.1, true)) ++ done) [] h1.1 h1.2 hN' he2
        (settle _ (ff_flush s) (fun x hx => by simp only [Live, step, allRecs_flush]; exact hx))
        (by simp) (by simp)
      rw [hsy] at this; exact this
    | reopen =>
      have hsy : (step Mode.fixed dec s .reopen).sync = false := by simp [step, reopen]
      simp only [durability]
      have := ih (pend.map (fun p => (p.1, true)) ++ done) [] h1.1 h1.2 hN' he2
        (settle _ (ff_reopen _ _ s) (fun x hx => by simp only [Live, step, allRecs_reopen]; exact hx))
        (by simp) (by simp)
      rw [hsy] at this; exact this
    | crash k =>
      have hsy : (step Mode.fixed dec s (.crash k)).sync = false := by
        simp only [step, crash]; split <;> simp [reopen]
      simp only [durability]
      have := ih (pend ++ done) [] h1.1 h1.2 hN' he2
        (by
          intro p hp' hp2
          apply live_safe (ff_crash _ _ s k)
          rcases List.mem_append.mp hp' with hp' | hp'
          · have := hpf p hp'; rw [this] at hp2; exact absurd hp2 (by simp)
          · exact hd p hp' hp2 k)
        (by simp) (by simp)
      rw [hsy] at this; exact this
    | setSync b =>
      simp only [durability]
      exact ih done pend h1.1 h1.2 hN' he2
        (fun p hp' hp2 k => by
          have := hd p hp' hp2 k
          simp only [step]; rw [allRecs_crash_setSync]; exact this)
        (fun p hp' => hp p hp') hpf

/-- the `from` sweep the model observes on a directory satisfying the invariant -/
theorem observe_runs {dec : Dec} {s : State} (h : Inv dec s) (top : Nat) :
    (observe Mode.fixed dec (dir s) top).runs
      = ((allRecs dec s).map (·.entry), End.ok, lastSeq 0 (allRecs dec s))
        :: ((List.range top).map Nat.succ).map (fun frm =>
          ((delivered frm (allRecs dec s)).map (·.entry), End.ok, lastSeq frm (allRecs dec s))) := by
  have hp' : replayDir Mode.fixed dec ((dir s).map (·.data)) = (allRecs dec s, End.ok) :=
    replayDir_allRecs h
  simp only [observe, hp', List.range_succ_eq_map, List.map_cons, delivered_zero, if_true]

end SgModel.Wal
