import SgModel.Model.Persist
/-! The ordered map of the Persist model: well-formedness (strictly increasing keys) and the
length lemmas the usage-counter invariants of C18 rest on (core Lean only). -/
namespace SgModel.Persist

/-- keys strictly increasing (so: no key twice) -/
def Sorted {α : Type} (m : List (Nat × α)) : Prop := m.Pairwise (fun a b => a.1 < b.1)

theorem sorted_nil {α : Type} : Sorted ([] : List (Nat × α)) := List.Pairwise.nil

theorem has_nil {α : Type} (k : Nat) : has ([] : List (Nat × α)) k = false := rfl

theorem has_cons {α : Type} (k' : Nat) (v' : α) (rest : List (Nat × α)) (k : Nat) :
    has ((k', v') :: rest) k = (decide (k' = k) || has rest k) := by
  unfold has
  by_cases h : k' = k <;> simp [get, h]

theorem has_false_of_lt {α : Type} (m : List (Nat × α)) (k : Nat) (h : ∀ p ∈ m, k < p.1) :
    has m k = false := by
  induction m with
  | nil => rfl
  | cons p rest ih =>
    obtain ⟨k', v'⟩ := p
    rw [has_cons]
    have h1 : k < k' := h (k', v') List.mem_cons_self
    have h2 := ih (fun p hp => h p (List.mem_cons_of_mem _ hp))
    have : ¬ k' = k := by omega
    simp [this, h2]

theorem has_length_pos {α : Type} (m : List (Nat × α)) (k : Nat) (h : has m k = true) : 0 < m.length := by
  cases m with
  | nil => simp [has_nil] at h
  | cons p rest => simp

theorem sorted_put {α : Type} (m : List (Nat × α)) (k : Nat) (v : α) (h : Sorted m) :
    Sorted (put m k v) ∧ ∀ p ∈ put m k v, p.1 = k ∨ p ∈ m := by
  induction m with
  | nil => simp [put, Sorted]
  | cons p rest ih =>
    obtain ⟨k', v'⟩ := p
    have hp := List.pairwise_cons.mp h
    have ih' := ih hp.2
    unfold put
    by_cases h1 : k < k'
    · simp only [h1, if_true]
      refine ⟨List.pairwise_cons.mpr ⟨?_, h⟩, ?_⟩
      · intro q hq
        rcases List.mem_cons.mp hq with hq | hq
        · subst hq; exact h1
        · exact Nat.lt_trans h1 (hp.1 q hq)
      · intro q hq
        rcases List.mem_cons.mp hq with hq | hq
        · subst hq; exact Or.inl rfl
        · exact Or.inr hq
    · by_cases h2 : k = k'
      · subst h2
        simp only [Nat.lt_irrefl, if_false, if_true]
        refine ⟨List.pairwise_cons.mpr ⟨hp.1, hp.2⟩, ?_⟩
        intro q hq
        rcases List.mem_cons.mp hq with hq | hq
        · subst hq; exact Or.inl rfl
        · exact Or.inr (List.mem_cons_of_mem _ hq)
      · simp only [h1, h2, if_false]
        refine ⟨List.pairwise_cons.mpr ⟨?_, ih'.1⟩, ?_⟩
        · intro q hq
          rcases ih'.2 q hq with hq | hq
          · rw [hq]; show k' < k; omega
          · exact hp.1 q hq
        · intro q hq
          rcases List.mem_cons.mp hq with hq | hq
          · subst hq; exact Or.inr List.mem_cons_self
          · rcases ih'.2 q hq with hq | hq
            · exact Or.inl hq
            · exact Or.inr (List.mem_cons_of_mem _ hq)

theorem sorted_del {α : Type} (m : List (Nat × α)) (k : Nat) (h : Sorted m) : Sorted (del m k) :=
  List.Pairwise.filter _ h

theorem del_of_not_has {α : Type} (m : List (Nat × α)) (k : Nat) (h : has m k = false) : del m k = m := by
  induction m with
  | nil => rfl
  | cons p rest ih =>
    obtain ⟨k', v'⟩ := p
    rw [has_cons] at h
    simp only [Bool.or_eq_false_iff, decide_eq_false_iff_not] at h
    have : (k' != k) = true := by simp [h.1]
    simp only [del, List.filter_cons, this, if_true]
    congr 1
    exact ih h.2

theorem length_put {α : Type} (m : List (Nat × α)) (k : Nat) (v : α) (h : Sorted m) :
    (put m k v).length = if has m k then m.length else m.length + 1 := by
  induction m with
  | nil => simp [put, has_nil]
  | cons p rest ih =>
    obtain ⟨k', v'⟩ := p
    have hp := List.pairwise_cons.mp h
    unfold put
    by_cases h1 : k < k'
    · have hf : has ((k', v') :: rest) k = false := by
        apply has_false_of_lt
        intro q hq
        rcases List.mem_cons.mp hq with hq | hq
        · subst hq; exact h1
        · exact Nat.lt_trans h1 (hp.1 q hq)
      simp [h1, hf]
    · by_cases h2 : k = k'
      · subst h2
        simp [has_cons]
      · have hne : ¬ k' = k := fun e => h2 e.symm
        simp only [h1, h2, if_false, List.length_cons, has_cons, hne, decide_false, Bool.false_or]
        rw [ih hp.2]
        split <;> rfl

theorem length_del {α : Type} (m : List (Nat × α)) (k : Nat) (h : Sorted m) :
    (del m k).length = if has m k then m.length - 1 else m.length := by
  induction m with
  | nil => simp [del, has_nil]
  | cons p rest ih =>
    obtain ⟨k', v'⟩ := p
    have hp := List.pairwise_cons.mp h
    by_cases h2 : k' = k
    · subst h2
      have hf : has rest k' = false := has_false_of_lt rest k' hp.1
      have : del ((k', v') :: rest) k' = del rest k' := by simp [del]
      rw [this, del_of_not_has rest k' hf]
      simp [has_cons]
    · have hb : (k' != k) = true := by simp [h2]
      have : del ((k', v') :: rest) k = (k', v') :: del rest k := by
        simp only [del, List.filter_cons, hb, if_true]
      rw [this, has_cons]
      simp only [h2, decide_false, Bool.false_or, List.length_cons]
      rw [ih hp.2]
      by_cases hh : has rest k = true
      · have := has_length_pos rest k hh
        simp only [hh, if_true]; omega
      · simp [hh]

theorem has_put {α : Type} (m : List (Nat × α)) (k j : Nat) (v : α) :
    has (put m k v) j = (decide (j = k) || has m j) := by
  unfold has
  by_cases h : j = k
  · subst h; simp [get_put_self_aux]
  · simp [h, get_put_other_aux m k j v h]
where
  get_put_self_aux {α : Type} (m : List (Nat × α)) (k : Nat) (v : α) : get (put m k v) k = some v := by
    induction m with
    | nil => simp [put, get]
    | cons p rest ih =>
      obtain ⟨k', v'⟩ := p
      unfold put
      by_cases h1 : k < k'
      · simp [h1, get]
      · by_cases h2 : k = k'
        · simp [h2, get]
        · have : ¬ k' = k := fun h => h2 h.symm
          simp [h1, h2, get, this, ih]
  get_put_other_aux {α : Type} (m : List (Nat × α)) (k j : Nat) (v : α) (h : j ≠ k) :
      get (put m k v) j = get m j := by
    induction m with
    | nil =>
      have : ¬ k = j := fun e => h e.symm
      simp [put, get, this]
    | cons p rest ih =>
      obtain ⟨k', v'⟩ := p
      have hkj : ¬ k = j := fun e => h e.symm
      unfold put
      by_cases h1 : k < k'
      · simp [h1, get, hkj]
      · by_cases h2 : k = k'
        · subst h2; simp [get, hkj]
        · simp [h1, h2, get, ih]

theorem has_del_imp {α : Type} (m : List (Nat × α)) (k j : Nat) (h : has (del m k) j = true) :
    has m j = true := by
  induction m with
  | nil => simpa [del] using h
  | cons p rest ih =>
    obtain ⟨k', v'⟩ := p
    rw [has_cons]
    by_cases hb : k' = k
    · have : del ((k', v') :: rest) k = del rest k := by simp [del, hb]
      rw [this] at h
      simp [ih h]
    · have hb' : (k' != k) = true := by simp [hb]
      have : del ((k', v') :: rest) k = (k', v') :: del rest k := by
        simp only [del, List.filter_cons, hb', if_true]
      rw [this, has_cons] at h
      simp only [Bool.or_eq_true, decide_eq_true_eq] at h ⊢
      rcases h with h | h
      · exact Or.inl h
      · exact Or.inr (ih h)

theorem has_iff_mem_keys {α : Type} (m : List (Nat × α)) (k : Nat) :
    has m k = true ↔ k ∈ m.map (·.1) := by
  induction m with
  | nil => simp [has_nil]
  | cons p rest ih =>
    obtain ⟨k', v'⟩ := p
    rw [has_cons]
    simp only [Bool.or_eq_true, decide_eq_true_eq, List.map_cons, List.mem_cons, ih]
    constructor
    · rintro (h | h)
      · exact Or.inl h.symm
      · exact Or.inr h
    · rintro (h | h)
      · exact Or.inl h.symm
      · exact Or.inr h

end SgModel.Persist
