import SgModel.Lemmas.StoreSpecStepB
/-!
Helper lemmas for the graph-store model (C06), part 18: `specStep` for relationship properties, compaction, bulk-load finish, clear; and for every step.
-/
namespace SgModel.Store

theorem specStep_setEP {s : State} (hI : Inv s) (p : Probe) (e k v : Nat)
    (hcov : ∀ m, getNode s m ≠ none → m ∈ p.ids)
    (hcov' : ∀ m, getNode (step s (.setEP e k v)).1 m ≠ none → m ∈ p.ids)
    (hpre : Pre s (.setEP e k v)) :
    specStep (obs s p) (.setEP e k v) (step s (.setEP e k v)).2 (obs (step s (.setEP e k v)).1 p) = true := by
  have hI' := inv_step hI (.setEP e k v)
  have hE := hI.toInvE
  show specStep (obs s p) (.setEP e k v) (setEdgeProp s e k v).2 (obs (setEdgeProp s e k v).1 p) = true
  have hE' : InvE (setEdgeProp s e k v).1 := hI'.toInvE
  simp only [specStep]
  rw [obs_edges_eq, eid_contains hE]
  cases hl : liveE s e with
  | false =>
    have hdead : endpOf s e = (0, 0) := by simpa [liveE] using hl
    simp [getEdge_none_of_dead hdead]
  | true =>
    have hlive : endpOf s e ≠ (0, 0) := by simpa [liveE] using hl
    obtain ⟨ty, hg, _⟩ := getEdge_of_live hE hlive
    obtain ⟨hn, hget, hret⟩ := setEdgeProp_abs hE e k v hl
    rw [hret, hg]
    simp only [Option.isSome_some, if_true, Bool.and_eq_true, beq_self_eq_true, true_and]
    refine spec_updEdge p hE hE' e (fun q => (q.1, q.2.1, q.2.2.1, assocSet q.2.2.2 k v)) _ hn
      hget ?_
    intro q
    rw [edgeEqv_iff]
    refine ⟨rfl, rfl, rfl, rfl, fun x => ?_⟩
    show x ∈ assocSet q.2.2.2 k v ↔ x ∈ setProp q.2.2.2 k v
    rw [mem_assocSet_iff, mem_setProp]

theorem specStep_rmEP {s : State} (hI : Inv s) (p : Probe) (e k : Nat)
    (hcov : ∀ m, getNode s m ≠ none → m ∈ p.ids)
    (hcov' : ∀ m, getNode (step s (.rmEP e k)).1 m ≠ none → m ∈ p.ids)
    (hpre : Pre s (.rmEP e k)) :
    specStep (obs s p) (.rmEP e k) (step s (.rmEP e k)).2 (obs (step s (.rmEP e k)).1 p) = true := by
  have hI' := inv_step hI (.rmEP e k)
  have hE := hI.toInvE
  show specStep (obs s p) (.rmEP e k) (removeEdgeProp s e k).2 (obs (removeEdgeProp s e k).1 p) = true
  have hE' : InvE (removeEdgeProp s e k).1 := hI'.toInvE
  simp only [specStep]
  obtain ⟨hn, hget, _⟩ := removeEdgeProp_abs hE e k
  exact spec_updEdge p hE hE' e (fun q => (q.1, q.2.1, q.2.2.1, assocErase q.2.2.2 k)) _ hn hget
    (fun q => edgeEqv_refl _)

theorem specStep_compact {s : State} (hI : Inv s) (p : Probe)
    (hcov : ∀ m, getNode s m ≠ none → m ∈ p.ids)
    (hcov' : ∀ m, getNode (step s .compact).1 m ≠ none → m ∈ p.ids)
    (hpre : Pre s .compact) :
    specStep (obs s p) .compact (step s .compact).2 (obs (step s .compact).1 p) = true := by
  have hI' := inv_step hI .compact
  have hE := hI.toInvE
  show specStep (obs s p) .compact .ok (obs (compact s) p) = true
  have hE' : InvE (compact s) := hI'.toInvE
  obtain ⟨c1, c2⟩ := compact_abs s
  simp only [specStep, beq_self_eq_true, Bool.true_and]
  exact spec_same p hE hE' c1 c2

theorem specStep_finish {s : State} (hI : Inv s) (p : Probe)
    (hcov : ∀ m, getNode s m ≠ none → m ∈ p.ids)
    (hcov' : ∀ m, getNode (step s .finish).1 m ≠ none → m ∈ p.ids)
    (hpre : Pre s .finish) :
    specStep (obs s p) .finish (step s .finish).2 (obs (step s .finish).1 p) = true := by
  have hI' := inv_step hI .finish
  have hE := hI.toInvE
  show specStep (obs s p) .finish .ok (obs (finish s) p) = true
  have hE' : InvE (finish s) := hI'.toInvE
  obtain ⟨c1, c2, c3⟩ := finish_abs s
  simp only [specStep, beq_self_eq_true, Bool.true_and, Bool.and_eq_true, Bool.not_eq_true']
  exact ⟨spec_same p hE hE' c1 c2, c3⟩

theorem specStep_clear {s : State} (hI : Inv s) (p : Probe)
    (hcov : ∀ m, getNode s m ≠ none → m ∈ p.ids)
    (hcov' : ∀ m, getNode (step s .clear).1 m ≠ none → m ∈ p.ids)
    (hpre : Pre s .clear) :
    specStep (obs s p) .clear (step s .clear).2 (obs (step s .clear).1 p) = true := by
  have hI' := inv_step hI .clear
  have hE := hI.toInvE
  show specStep (obs s p) .clear .ok (obs init p) = true
  simp only [specStep, beq_self_eq_true, Bool.true_and, Bool.and_eq_true, List.isEmpty_iff]
  refine ⟨?_, ?_⟩
  · show p.ids.filterMap _ = []
    apply List.filterMap_eq_nil_iff.mpr
    intro n _
    simp [getNode_init]
  · rfl

/-- every step of the model satisfies the step relation of the executable specification -/
theorem specStep_holds {s : State} (hI : Inv s) (p : Probe) (op : Op)
    (hcov : ∀ m, getNode s m ≠ none → m ∈ p.ids)
    (hcov' : ∀ m, getNode (step s op).1 m ≠ none → m ∈ p.ids)
    (hpre : Pre s op) :
    specStep (obs s p) op (step s op).2 (obs (step s op).1 p) = true := by
  cases op with
  | mkN l => exact specStep_mkN hI p l hcov hcov' hpre
  | mkNS l => exact specStep_mkNS hI p l hcov hcov' hpre
  | mkNP l k v => exact specStep_mkNP hI p l k v hcov hcov' hpre
  | mkE a b ty => exact specStep_mkE hI p a b ty hcov hcov' hpre
  | mkEP a b ty k v => exact specStep_mkEP hI p a b ty k v hcov hcov' hpre
  | mkES a b ty => exact specStep_mkES hI p a b ty hcov hcov' hpre
  | delE e => exact specStep_delE hI p e hcov hcov' hpre
  | delN n => exact specStep_delN hI p n hcov hcov' hpre
  | addL n l => exact specStep_addL hI p n l hcov hcov' hpre
  | rmL n l => exact specStep_rmL hI p n l hcov hcov' hpre
  | setNP n k v => exact specStep_setNP hI p n k v hcov hcov' hpre
  | rmNP n k => exact specStep_rmNP hI p n k hcov hcov' hpre
  | setEP e k v => exact specStep_setEP hI p e k v hcov hcov' hpre
  | rmEP e k => exact specStep_rmEP hI p e k hcov hcov' hpre
  | compact => exact specStep_compact hI p hcov hcov' hpre
  | finish => exact specStep_finish hI p hcov hcov' hpre
  | clear => exact specStep_clear hI p hcov hcov' hpre

end SgModel.Store
