import SgModel.Lemmas.Mvcc
/-!
Read lemmas for C07: "newest version ≤ v" against copy-on-write, append, and the bound
`version ≤ current_version`.
-/
namespace SgModel.Mvcc

theorem chainAt_append_gt (c : List NodeV) (x : NodeV) (v : Nat) (h : v < x.version) :
    chainAt (c ++ [x]) v = chainAt c v := by
  unfold chainAt
  rw [List.reverse_append, List.reverse_singleton, List.singleton_append, List.find?_cons]
  have : decide (x.version ≤ v) = false := by simp; omega
  rw [this]

theorem split_last {α : Type} {c : List α} {last : α} (h : c.getLast? = some last) :
    c = c.dropLast ++ [last] := by
  obtain ⟨ys, hys⟩ := List.getLast?_eq_some_iff.mp h
  rw [hys]; simp

/-- copy-on-write never changes a read below the current version -/
theorem chainAt_cow (c : List NodeV) (cur v : Nat) (f : NodeV → NodeV)
    (hf : ∀ x, (f x).version = x.version) (hb : ∀ x ∈ c, x.version ≤ cur) (hv : v < cur) :
    chainAt (cow c cur f) v = chainAt c v := by
  unfold cow
  cases hl : c.getLast? with
  | none => rfl
  | some last =>
    simp only
    split
    · exact chainAt_append_gt c _ v (by rw [hf]; exact hv)
    · rename_i hnlt
      have hle := hb last (List.mem_of_getLast? hl)
      have heq : last.version = cur := by omega
      have hc := split_last hl
      rw [chainAt_append_gt _ _ v (by rw [hf, heq]; exact hv)]
      conv => rhs; rw [hc]
      rw [chainAt_append_gt _ _ v (by rw [heq]; exact hv)]

/-- at or above the current version the read is the newest version -/
theorem chainAt_ge (c : List NodeV) (cur v : Nat) (hb : ∀ x ∈ c, x.version ≤ cur) (hv : cur ≤ v) :
    chainAt c v = c.getLast? := by
  unfold chainAt
  cases hl : c.getLast? with
  | none =>
    have : c = [] := by simpa using hl
    rw [this]; rfl
  | some last =>
    have hc := split_last hl
    rw [hc, List.reverse_append, List.reverse_singleton, List.singleton_append, List.find?_cons]
    have hle := hb last (List.mem_of_getLast? hl)
    have : decide (last.version ≤ v) = true := by simp; omega
    rw [this]

theorem upd_same {α : Type} (f : Nat → α) (i : Nat) (x : α) : upd f i x i = x := by simp [upd]
theorem upd_other {α : Type} (f : Nat → α) (i j : Nat) (x : α) (h : j ≠ i) : upd f i x j = f j := by
  simp [upd, h]

/-- the relationship log read below the current version ignores an entry stamped `cur` -/
theorem setEdge_read (e : EdgeRec) (cur v k : Nat) (val : Int) (hv : v < cur)
    (hex : ∃ x ∈ e.log, x.version ≤ v) :
    edgeAt (setEdge e cur k val) cur v = edgeAt e cur v := by
  have hfind : ∀ (l : List ELog) (x : ELog), v < x.version →
      (l ++ [x]).reverse.find? (fun y => decide (y.version ≤ v)) = l.reverse.find? (fun y => decide (y.version ≤ v)) := by
    intro l x hx
    rw [List.reverse_append, List.reverse_singleton, List.singleton_append, List.find?_cons]
    have : decide (x.version ≤ v) = false := by simp; omega
    rw [this]
  have hsome : ∃ ent, e.log.reverse.find? (fun y => decide (y.version ≤ v)) = some ent := by
    obtain ⟨x, hx, hxv⟩ := hex
    have : (e.log.reverse.find? (fun y => decide (y.version ≤ v))).isSome := by
      rw [List.find?_isSome]; exact ⟨x, List.mem_reverse.mpr hx, by simpa using hxv⟩
    exact Option.isSome_iff_exists.mp this
  obtain ⟨ent, hent⟩ := hsome
  have key : (setEdge e cur k val).log.reverse.find? (fun y => decide (y.version ≤ v)) = some ent := by
    unfold setEdge
    simp only
    cases hl : e.log.getLast? with
    | none => simp only; rw [hfind _ _ (by simpa using hv)]; exact hent
    | some last =>
      simp only
      split
      · rename_i heq
        have hc := split_last hl
        rw [hfind _ _ (by simp only; omega)]
        rw [hc, hfind _ _ (by omega)] at hent
        exact hent
      · rw [hfind _ _ (by simpa using hv)]; exact hent
  have hlive : (setEdge e cur k val).live = e.live := rfl
  unfold edgeAt
  rw [hlive, key, hent]
  have hd : decide (v < cur) = true := by simpa using hv
  simp only [hd, Bool.or_true, if_true]

end SgModel.Mvcc
