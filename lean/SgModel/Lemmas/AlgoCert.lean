import SgModel.Lemmas.Algo
/-!
Certificate lemmas for C26: potentials (shortest paths) and weak duality (max-flow / min-cut).
Core Lean only.
-/
namespace SgModel.Algo

/-! ### potentials -/

/-- Prop form of the edge part of `potentialOk` -/
def FeasiblePot (E : List Edge) (d : Dist) : Prop :=
  ∀ e ∈ E, ∀ du, dget d e.1 = some du → ∃ dv, dget d e.2.1 = some dv ∧ dv ≤ du + e.2.2

theorem potentialOk_iff {E : List Edge} {s : Nat} {d : Dist} :
    potentialOk E s d = true ↔ dget d s = some 0 ∧ FeasiblePot E d := by
  simp only [potentialOk, Bool.and_eq_true, beq_iff_eq, List.all_eq_true, FeasiblePot]
  constructor
  · rintro ⟨h0, h⟩
    refine ⟨h0, ?_⟩
    intro e he du hdu
    have := h e he
    rw [hdu] at this
    cases hv : dget d e.2.1 with
    | none => simp [hv] at this
    | some dv => simp [hv] at this; exact ⟨dv, rfl, this⟩
  · rintro ⟨h0, h⟩
    refine ⟨h0, ?_⟩
    intro e he
    cases hu : dget d e.1 with
    | none => rfl
    | some du =>
      obtain ⟨dv, hdv, hle⟩ := h e he du hu
      simp [hdv, hle]

/-- telescoping: along any walk the potential grows by at most the cost -/
theorem potential_walk {E : List Edge} {d : Dist} (hf : FeasiblePot E d) {u t c : Nat} {p : List Nat}
    (hw : Walk E u t p c) : ∀ du, dget d u = some du → ∃ dt, dget d t = some dt ∧ dt ≤ du + c := by
  induction hw with
  | nil u => intro du h; exact ⟨du, h, by omega⟩
  | cons he _ ih =>
    intro du h
    obtain ⟨dv, hdv, hle⟩ := hf _ he du h
    obtain ⟨dt, hdt, hle'⟩ := ih dv hdv
    exact ⟨dt, hdt, by simp at hle; omega⟩

theorem minW_mem_aux {u v : Nat} (E : List Edge) (acc : Option Nat) (w : Nat) :
    E.foldl (fun acc e => if e.1 = u ∧ e.2.1 = v then
      (match acc with | none => some e.2.2 | some a => some (min a e.2.2)) else acc) acc = some w →
    acc = some w ∨ (u, v, w) ∈ E := by
  induction E generalizing acc with
  | nil => intro h; exact Or.inl h
  | cons e t ih =>
    intro h
    simp only [List.foldl_cons] at h
    rcases ih _ h with h' | h'
    · split at h'
      · rename_i hc
        obtain ⟨h1, h2⟩ := hc
        cases acc with
        | none =>
          simp at h'
          right; apply List.mem_cons.mpr; left
          rw [← h', ← h1, ← h2]
        | some a =>
          simp at h'
          by_cases hle : a ≤ e.2.2
          · left; rw [← h', Nat.min_eq_left hle]
          · right; apply List.mem_cons.mpr; left
            rw [← h', Nat.min_eq_right (by omega), ← h1, ← h2]
      · exact Or.inl h'
    · exact Or.inr (List.mem_cons_of_mem _ h')

theorem minW_mem {E : List Edge} {u v w : Nat} (h : minW E u v = some w) : (u, v, w) ∈ E := by
  rcases minW_mem_aux E none w h with h | h
  · cases h
  · exact h

/-- an accepted node list is a real walk with the stated cost -/
theorem walkCost_walk {E : List Edge} : ∀ (p : List Nat) (c : Nat), walkCost E p = some c →
    ∃ u t, p.head? = some u ∧ p.getLast? = some t ∧ Walk E u t p c := by
  intro p
  induction p with
  | nil => intro c h; simp [walkCost] at h
  | cons u rest ih =>
    intro c h
    cases rest with
    | nil =>
      simp only [walkCost, Option.some.injEq] at h
      subst h
      exact ⟨u, u, rfl, rfl, Walk.nil u⟩
    | cons v rest' =>
      simp only [walkCost] at h
      cases hm : minW E u v with
      | none => simp [hm] at h
      | some w =>
        cases hc : walkCost E (v :: rest') with
        | none => simp [hm, hc] at h
        | some c' =>
          simp only [hm, hc, Option.some.injEq] at h
          subst h
          obtain ⟨u', t, hh, hl, hw⟩ := ih c' hc
          simp only [List.head?_cons, Option.some.injEq] at hh
          subst hh
          refine ⟨u, t, rfl, ?_, Walk.cons (minW_mem hm) hw⟩
          rw [List.getLast?_cons_cons]; exact hl

/-! ### flows -/

def isum (l : List Nat) (g : Nat → Int) : Int := (l.map g).sum

theorem isum_nil (g : Nat → Int) : isum [] g = 0 := rfl
theorem isum_cons (a : Nat) (l : List Nat) (g : Nat → Int) : isum (a :: l) g = g a + isum l g := by
  simp [isum]
theorem isum_append (l₁ l₂ : List Nat) (g : Nat → Int) : isum (l₁ ++ l₂) g = isum l₁ g + isum l₂ g := by
  induction l₁ with
  | nil => simp [isum]
  | cons a t ih => rw [List.cons_append, isum_cons, isum_cons, ih]; omega

theorem isum_add (l : List Nat) (g h : Nat → Int) : isum l (fun x => g x + h x) = isum l g + isum l h := by
  induction l with
  | nil => simp [isum]
  | cons a t ih => rw [isum_cons, isum_cons, isum_cons, ih]; omega

theorem isum_congr {l : List Nat} {g h : Nat → Int} (hgh : ∀ x ∈ l, g x = h x) : isum l g = isum l h := by
  induction l with
  | nil => rfl
  | cons a t ih =>
    rw [isum_cons, isum_cons, hgh a (List.mem_cons_self ..), ih (fun x hx => hgh x (List.mem_cons_of_mem _ hx))]

theorem isum_zero (l : List Nat) : isum l (fun _ => 0) = 0 := by
  induction l with
  | nil => rfl
  | cons a t ih => rw [isum_cons, ih]; rfl

theorem isum_single (n a : Nat) (c : Int) :
    isum (List.range n) (fun x => if x = a then c else 0) = if a < n then c else 0 := by
  induction n with
  | zero => simp [isum]
  | succ n ih =>
    rw [List.range_succ, isum_append, ih, isum_cons, isum_nil]
    by_cases h1 : a < n
    · have : n ≠ a := by omega
      simp [h1, this]; omega
    · by_cases h2 : n = a
      · subst h2; simp
      · have : ¬ a < n + 1 := by omega
        simp [h1, h2, this]

/-- net flow out of `x` -/
def net (L : List FEdge) (x : Nat) : Int := (outflow L x : Int) - (inflow L x : Int)

def FeasibleFlow (n : Nat) (L : List FEdge) (s t : Nat) : Prop :=
  (∀ e ∈ L, e.f ≤ e.c ∧ e.u < n ∧ e.v < n)
  ∧ ∀ x, x < n → x ≠ s → x ≠ t → outflow L x = inflow L x

theorem net_cons (e : FEdge) (L : List FEdge) (x : Nat) :
    net (e :: L) x = ((if e.u = x then (e.f : Int) else 0) - (if e.v = x then (e.f : Int) else 0)) + net L x := by
  simp only [net, outflow, inflow, List.map_cons, List.sum_cons]
  split <;> split <;> simp <;> omega

/-- summing the net flow over the nodes of `S` counts each edge by the side(s) it touches -/
theorem cut_identity (n : Nat) (S : List Nat) (L : List FEdge) (hwf : ∀ e ∈ L, e.u < n ∧ e.v < n) :
    isum (List.range n) (fun x => if x ∈ S then net L x else 0)
      = (L.map (fun e => (if e.u ∈ S then (e.f : Int) else 0) - (if e.v ∈ S then (e.f : Int) else 0))).sum := by
  induction L with
  | nil =>
    have : ∀ x, net [] x = 0 := by intro x; simp [net, outflow, inflow]
    simp only [this, ite_self, List.map_nil, List.sum_nil]
    exact isum_zero _
  | cons e L ih =>
    have hwf' : ∀ e ∈ L, e.u < n ∧ e.v < n := fun x hx => hwf x (List.mem_cons_of_mem _ hx)
    have ⟨hu, hv⟩ := hwf e (List.mem_cons_self ..)
    rw [List.map_cons, List.sum_cons, ← ih hwf']
    have hsplit : ∀ x, (if x ∈ S then net (e :: L) x else 0)
        = ((if x = e.u then (if e.u ∈ S then (e.f : Int) else 0) else 0)
            + (if x = e.v then (if e.v ∈ S then -(e.f : Int) else 0) else 0))
          + (if x ∈ S then net L x else 0) := by
      intro x
      rw [net_cons]
      by_cases hxS : x ∈ S
      · by_cases h1 : e.u = x <;> by_cases h2 : e.v = x
        all_goals (first | subst h1 | skip)
        all_goals (first | subst h2 | skip)
        all_goals simp_all <;> omega
      · have h1 : ¬ (x = e.u ∧ e.u ∈ S) := by rintro ⟨rfl, h⟩; exact hxS h
        have h2 : ¬ (x = e.v ∧ e.v ∈ S) := by rintro ⟨rfl, h⟩; exact hxS h
        by_cases h1' : x = e.u <;> by_cases h2' : x = e.v <;> simp_all
    rw [isum_congr (fun x _ => hsplit x), isum_add, isum_add, isum_single, isum_single]
    simp only [hu, hv, if_true]
    split <;> split <;> omega

theorem sum_le_sum {α : Type} (l : List α) (g h : α → Int) (hgh : ∀ x ∈ l, g x ≤ h x) :
    (l.map g).sum ≤ (l.map h).sum := by
  induction l with
  | nil => simp
  | cons a t ih =>
    simp only [List.map_cons, List.sum_cons]
    have := hgh a (List.mem_cons_self ..)
    have := ih (fun x hx => hgh x (List.mem_cons_of_mem _ hx))
    omega

theorem cutCap_cast (L : List FEdge) (S : List Nat) :
    ((cutCap L S : Nat) : Int) = (L.map (fun e => if e.u ∈ S ∧ e.v ∉ S then (e.c : Int) else 0)).sum := by
  unfold cutCap
  induction L with
  | nil => simp
  | cons e t ih =>
    simp only [List.map_cons, List.sum_cons, Int.natCast_add, ih]
    split <;> simp

theorem cutCap_netw {L L' : List FEdge} (h : netw L' = netw L) (S : List Nat) : cutCap L' S = cutCap L S := by
  have key : ∀ M : List FEdge, cutCap M S = ((netw M).map (fun e => if e.1 ∈ S ∧ e.2.1 ∉ S then e.2.2 else 0)).sum := by
    intro M; simp [cutCap, netw, List.map_map, Function.comp_def]
  rw [key, key, h]

/-- **weak duality**: the value of any feasible flow is at most the capacity of any s-t cut -/
theorem flow_le_cut {n : Nat} {L : List FEdge} {s t : Nat} (hf : FeasibleFlow n L s t)
    {S : List Nat} (hs : s ∈ S) (ht : t ∉ S) (hsn : s < n) :
    net L s ≤ (cutCap L S : Int) := by
  obtain ⟨hcap, hcons⟩ := hf
  have hid := cut_identity n S L (fun e he => (hcap e he).2)
  have hleft : isum (List.range n) (fun x => if x ∈ S then net L x else 0)
      = isum (List.range n) (fun x => if x = s then net L s else 0) := by
    apply isum_congr
    intro x hx
    have hxn := List.mem_range.mp hx
    by_cases hxs : x = s
    · subst hxs; simp [hs]
    · by_cases hxS : x ∈ S
      · have hxt : x ≠ t := by rintro rfl; exact ht hxS
        have := hcons x hxn hxs hxt
        simp [hxS, hxs, net, this]
      · simp [hxS, hxs]
  rw [hleft, isum_single, if_pos hsn] at hid
  rw [hid, cutCap_cast]
  apply sum_le_sum
  intro e he
  have := (hcap e he).1
  split <;> split <;> split <;> simp_all <;> omega

theorem feasibleB_iff {n : Nat} {L : List FEdge} {s t : Nat} :
    feasibleB n L s t = true ↔ FeasibleFlow n L s t := by
  simp only [feasibleB, Bool.and_eq_true, List.all_eq_true, decide_eq_true_eq, Bool.or_eq_true,
    beq_iff_eq, List.mem_range, FeasibleFlow]
  constructor
  · rintro ⟨h1, h2⟩
    refine ⟨fun e he => ⟨(h1 e he).1.1, (h1 e he).1.2, (h1 e he).2⟩, ?_⟩
    intro x hx hs ht
    rcases h2 x hx with (h | h) | h
    · exact absurd h hs
    · exact absurd h ht
    · exact h
  · rintro ⟨h1, h2⟩
    refine ⟨fun e he => ⟨⟨(h1 e he).1, (h1 e he).2.1⟩, (h1 e he).2.2⟩, ?_⟩
    intro x hx
    by_cases hs : x = s
    · exact Or.inl (Or.inl hs)
    · by_cases ht : x = t
      · exact Or.inl (Or.inr ht)
      · exact Or.inr (h2 x hx hs ht)

end SgModel.Algo
