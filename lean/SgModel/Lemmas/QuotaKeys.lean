import SgModel.Lemmas.Quota
/-! C18, "a refused creation leaves nothing behind" on observations: every stored node was
accepted — the invariant `Keys` and its preservation (core Lean only). -/
namespace SgModel.Quota
open SgModel.Persist

def isCreate (id : Nat) : Call → Bool
  | .op (.createNode i ..) => i == id
  | _ => false

/-- node `id` has an accepted creation: a completed call that returned `Ok`, or a call in
progress that has already written it (and can no longer fail) -/
def Acc (sys : Sys) (id : Nat) : Prop :=
  (∃ (i : Nat) (th : Thread) (x : Call × Res),
      sys.threads[i]? = some th ∧ x ∈ th.done ∧ isCreate id x.1 = true ∧ x.2 = .ok)
  ∨ (∃ (i : Nat) (th : Thread) (op : Call) (rest : List Call),
      sys.threads[i]? = some th ∧ th.prog = op :: rest ∧ isCreate id op = true
        ∧ (th.pc = some .count ∨ th.pc = some .ret))

def Keys (sys : Sys) : Prop := ∀ id, has sys.shared.kv.nodes id = true → Acc sys id

theorem has_apply_nodes (kv : KV) (op : Op) (id : Nat) (h : has (kv.apply op).nodes id = true) :
    has kv.nodes id = true ∨ isCreate id (.op op) = true := by
  cases op with
  | createNode i ls ps =>
    simp only [KV.apply, has_put, Bool.or_eq_true, decide_eq_true_eq] at h
    rcases h with h | h
    · exact Or.inr (by simp [isCreate, h])
    · exact Or.inl h
  | createEdge i a b ty ps => exact Or.inl h
  | deleteNode i => exact Or.inl (has_del_imp _ _ _ h)
  | deleteEdge i => exact Or.inl h
  | updateNode i ps =>
    simp only [KV.apply] at h
    cases hg : get kv.nodes i with
    | none => simp only [hg] at h; exact Or.inl h
    | some v =>
      simp only [hg, has_put, Bool.or_eq_true, decide_eq_true_eq] at h
      rcases h with h | h
      · subst h; exact Or.inl (has_of_get _ _ _ hg)
      · exact Or.inl h
  | updateEdge i ps =>
    simp only [KV.apply] at h
    cases hg : get kv.edges i with
    | none => simp only [hg] at h; exact Or.inl h
    | some v => simp only [hg] at h; exact Or.inl h

/-- F1: the store gains node `id` only in the `store` step of a creation of `id` -/
theorem micro_nodes (cfg : Cfg) (hreg : cfg.registered = true) (c : Call) (pc : Pc) (s s' : State)
    (l l' : Local) (r : Except Err Pc) (h : callMicro fixed cfg c pc s l = (s', l', r)) (id : Nat)
    (hh : has s'.kv.nodes id = true) :
    has s.kv.nodes id = true ∨ (pc = .store ∧ isCreate id c = true) := by
  cases c with
  | op op =>
    simp only [callMicro_op, fixed_micro] at h
    cases pc with
    | lock => rw [micro_lock] at h; simp only [Prod.mk.injEq] at h; rw [← h.1] at hh; exact Or.inl hh
    | check =>
      rw [micro_check] at h
      cases hq : quotaOf cfg op s <;> simp only [hq, Prod.mk.injEq] at h <;> (rw [← h.1] at hh; exact Or.inl hh)
    | log => rw [micro_log] at h; simp only [Prod.mk.injEq] at h; rw [← h.1] at hh; exact Or.inl hh
    | store =>
      rw [micro_store] at h; simp only [Prod.mk.injEq] at h; rw [← h.1] at hh
      rcases has_apply_nodes s.kv op id hh with h1 | h1
      · exact Or.inl h1
      · exact Or.inr ⟨rfl, h1⟩
    | count =>
      rw [micro_count cfg hreg] at h; simp only [Prod.mk.injEq] at h; rw [← h.1, counted_kv] at hh
      exact Or.inl hh
    | ret => rw [micro_ret] at h; simp only [Prod.mk.injEq] at h; rw [← h.1] at hh; exact Or.inl hh
    | scan => simp only [micro, Prod.mk.injEq] at h; rw [← h.1] at hh; exact Or.inl hh
    | done => simp only [micro, Prod.mk.injEq] at h; rw [← h.1] at hh; exact Or.inl hh
  | recover =>
    simp only [callMicro_recover, fixed_recMicro] at h
    have hkv : s'.kv = s.kv := by
      cases pc <;> simp only [recMicro, Prod.mk.injEq] at h
      all_goals first
        | (rw [← h.1])
        | (split at h <;> simp only [Prod.mk.injEq] at h <;> rw [← h.1])
    rw [hkv] at hh; exact Or.inl hh

/-- F2/F3: from `count` the call goes to `ret`, from `ret` it returns `Ok`, and the `store`
step of a creation goes to `count` — none of them can fail -/
theorem micro_next (cfg : Cfg) (hreg : cfg.registered = true) (c : Call) (pc : Pc) (s s' : State)
    (l l' : Local) (r : Except Err Pc) (h : callMicro fixed cfg c pc s l = (s', l', r)) :
    (pc = .count → r = .ok .ret) ∧ (pc = .ret → r = .ok .done)
    ∧ (pc = .store → ∀ id, isCreate id c = true → r = .ok .count) := by
  cases c with
  | op op =>
    simp only [callMicro_op, fixed_micro] at h
    refine ⟨?_, ?_, ?_⟩
    · intro hp; subst hp; rw [micro_count cfg hreg] at h; simp only [Prod.mk.injEq] at h; exact h.2.2.symm
    · intro hp; subst hp; rw [micro_ret] at h; simp only [Prod.mk.injEq] at h; exact h.2.2.symm
    · intro hp id hc; subst hp
      have hk : op.kind = .create := by cases op <;> simp [isCreate] at hc <;> rfl
      rw [micro_store] at h; simp only [Prod.mk.injEq, hk] at h; exact h.2.2.symm
  | recover =>
    simp only [callMicro_recover, fixed_recMicro] at h
    refine ⟨?_, ?_, ?_⟩
    · intro hp; subst hp; rw [recMicro_count cfg hreg] at h; simp only [Prod.mk.injEq] at h; exact h.2.2.symm
    · intro hp; subst hp; rw [recMicro_ret] at h; simp only [Prod.mk.injEq] at h; exact h.2.2.symm
    · intro _ id hc; simp [isCreate] at hc

theorem acc_finish (sys : Sys) (t : Nat) (th : Thread) (op : Call) (rest : List Call) (s' : State)
    (lk : Option Nat) (r : Res) (id : Nat) (hth : sys.threads[t]? = some th) (hprog : th.prog = op :: rest)
    (hr : (th.pc = some .count ∨ th.pc = some .ret) → r = .ok)
    (h : Acc sys id) : Acc (finish sys t th op rest s' lk r) id := by
  have hlt := lt_of_getElem? hth
  rcases h with ⟨i, thi, x, hi, hx, hc, hok⟩ | ⟨i, thi, op', rest', hi, hp, hc, hpc⟩
  · by_cases hit : i = t
    · subst hit
      rw [hth] at hi; simp only [Option.some.injEq] at hi; subst hi
      exact Or.inl ⟨i, ({ prog := rest, done := th.done ++ [(op, r)] } : Thread), x, by simp only [finish, List.getElem?_set_self hlt],
        List.mem_append_left _ hx, hc, hok⟩
    · have hne : t ≠ i := fun e => hit e.symm
      exact Or.inl ⟨i, thi, x, by simp only [finish, List.getElem?_set_ne hne]; exact hi, hx, hc, hok⟩
  · by_cases hit : i = t
    · subst hit
      rw [hth] at hi; simp only [Option.some.injEq] at hi; subst hi
      rw [hprog] at hp; simp only [List.cons.injEq] at hp
      obtain ⟨hop, _⟩ := hp; subst hop
      exact Or.inl ⟨i, ({ prog := rest, done := th.done ++ [(op, r)] } : Thread), (op, r), by simp only [finish, List.getElem?_set_self hlt],
        List.mem_append_right _ (List.mem_singleton.mpr rfl), hc, hr hpc⟩
    · have hne : t ≠ i := fun e => hit e.symm
      exact Or.inr ⟨i, thi, op', rest', by simp only [finish, List.getElem?_set_ne hne]; exact hi, hp, hc, hpc⟩

theorem acc_cont (sys : Sys) (t : Nat) (th : Thread) (op : Call) (rest : List Call) (s' : State)
    (lk : Option Nat) (pc' : Pc) (l' : Local) (id : Nat) (hth : sys.threads[t]? = some th)
    (hprog : th.prog = op :: rest)
    (hr : (th.pc = some .count ∨ th.pc = some .ret) → (pc' = .count ∨ pc' = .ret))
    (h : Acc sys id) : Acc (cont sys t th op rest s' lk pc' l') id := by
  have hlt := lt_of_getElem? hth
  rcases h with ⟨i, thi, x, hi, hx, hc, hok⟩ | ⟨i, thi, op', rest', hi, hp, hc, hpc⟩
  · by_cases hit : i = t
    · subst hit
      rw [hth] at hi; simp only [Option.some.injEq] at hi; subst hi
      exact Or.inl ⟨i, ({ prog := op :: rest, pc := some pc', loc := l', done := th.done } : Thread), x, by simp only [cont, List.getElem?_set_self hlt], hx, hc, hok⟩
    · have hne : t ≠ i := fun e => hit e.symm
      exact Or.inl ⟨i, thi, x, by simp only [cont, List.getElem?_set_ne hne]; exact hi, hx, hc, hok⟩
  · by_cases hit : i = t
    · subst hit
      rw [hth] at hi; simp only [Option.some.injEq] at hi; subst hi
      rw [hprog] at hp; simp only [List.cons.injEq] at hp
      obtain ⟨hop, _⟩ := hp; subst hop
      refine Or.inr ⟨i, ({ prog := op :: rest, pc := some pc', loc := l', done := th.done } : Thread), op, rest, by simp only [cont, List.getElem?_set_self hlt], rfl, hc, ?_⟩
      rcases hr hpc with h1 | h1 <;> simp [h1]
    · have hne : t ≠ i := fun e => hit e.symm
      exact Or.inr ⟨i, thi, op', rest', by simp only [cont, List.getElem?_set_ne hne]; exact hi, hp, hc, hpc⟩

theorem acc_cont_new (sys : Sys) (t : Nat) (th : Thread) (op : Call) (rest : List Call) (s' : State)
    (lk : Option Nat) (l' : Local) (id : Nat) (hth : sys.threads[t]? = some th)
    (hc : isCreate id op = true) : Acc (cont sys t th op rest s' lk .count l') id :=
  Or.inr ⟨t, ({ prog := op :: rest, pc := some .count, loc := l', done := th.done } : Thread), op, rest,
    by simp only [cont, List.getElem?_set_self (lt_of_getElem? hth)], rfl, hc, Or.inl rfl⟩

theorem pc_of_getD (th : Thread) (d p : Pc) (h : th.pc = some p) : th.pc.getD d = p := by simp [h]

/-- **every micro-step of every thread preserves `Keys`** -/
theorem step_keys (cfg : Cfg) (hreg : cfg.registered = true) (sys : Sys) (t : Nat) (h : Keys sys) :
    Keys (stepThread fixed cfg sys t) := by
  cases hth : sys.threads[t]? with
  | none => simp [stepThread, hth]; exact h
  | some th =>
    cases hprog : th.prog with
    | nil => simp [stepThread, hth, hprog]; exact h
    | cons op rest =>
      by_cases hen : th.pc.getD (callStart fixed op) = .lock ∧ sys.lock ≠ none
      · rw [stepThread_disabled fixed cfg sys t th op rest hth hprog hen]; exact h
      · rw [stepThread_eq fixed cfg sys t th op rest hth hprog hen]
        rcases hmic : callMicro fixed cfg op (th.pc.getD (callStart fixed op)) sys.shared th.loc with ⟨s', l', r⟩
        have hmic' : callMicro fixed cfg op (th.pc.getD (callStart fixed op)) sys.shared th.loc = (s', l', r) := hmic
        have hnext := micro_next cfg hreg op _ _ _ _ _ _ hmic'
        -- what `th.pc ∈ {count, ret}` says about the step
        have hcr : (th.pc = some .count ∨ th.pc = some .ret) →
            (r = .ok .ret ∨ r = .ok .done) := by
          rintro (hp | hp)
          · exact Or.inl (hnext.1 (pc_of_getD th _ _ hp))
          · exact Or.inr (hnext.2.1 (pc_of_getD th _ _ hp))
        cases r with
        | error e =>
          simp only
          intro id hid
          simp only [finish] at hid
          rcases micro_nodes cfg hreg op _ _ _ _ _ _ hmic' id hid with h1 | ⟨hp, hc⟩
          · exact acc_finish sys t th op rest s' _ _ id hth hprog
              (fun hpc => by rcases hcr hpc with h2 | h2 <;> simp at h2) (h id h1)
          · have := hnext.2.2 hp id hc; simp at this
        | ok pc' =>
          simp only
          split
          · intro id hid
            simp only [finish] at hid
            rcases micro_nodes cfg hreg op _ _ _ _ _ _ hmic' id hid with h1 | ⟨hp, hc⟩
            · exact acc_finish sys t th op rest s' _ _ id hth hprog (fun _ => rfl) (h id h1)
            · rename_i hd
              have := hnext.2.2 hp id hc
              simp only [Except.ok.injEq] at this
              rw [this] at hd; simp at hd
          · rename_i hd
            intro id hid
            simp only [cont] at hid
            rcases micro_nodes cfg hreg op _ _ _ _ _ _ hmic' id hid with h1 | ⟨hp, hc⟩
            · refine acc_cont sys t th op rest s' _ pc' l' id hth hprog ?_ (h id h1)
              intro hpc
              rcases hcr hpc with h2 | h2
              · simp only [Except.ok.injEq] at h2; exact Or.inr h2
              · simp only [Except.ok.injEq] at h2; exact absurd h2 hd
            · have := hnext.2.2 hp id hc
              simp only [Except.ok.injEq] at this
              subst this
              exact acc_cont_new sys t th op rest s' _ l' id hth hc

theorem run_keys (cfg : Cfg) (hreg : cfg.registered = true) (sched : List Nat) (sys : Sys)
    (h : Keys sys) : Keys (run fixed cfg sys sched) := by
  induction sched generalizing sys with
  | nil => exact h
  | cons t rest ih => exact ih _ (step_keys cfg hreg sys t h)

theorem drain_keys (cfg : Cfg) (hreg : cfg.registered = true) (fuel : Nat) (sys : Sys)
    (h : Keys sys) : Keys (drain fixed cfg fuel sys) := by
  induction fuel generalizing sys with
  | zero => exact h
  | succ n ih =>
    unfold drain
    split
    · exact ih _ (step_keys cfg hreg sys _ h)
    · exact h

theorem init_keys (progs : List (List Call)) : Keys (init progs) := by
  intro id h
  simp [init, has_nil] at h

theorem le_sum_of_mem (l : List Nat) (a : Nat) (h : a ∈ l) : a ≤ l.sum := by
  induction l with
  | nil => simp at h
  | cons b rest ih =>
    rcases List.mem_cons.mp h with h | h
    · subst h; simp
    · have := ih h; simp only [List.sum_cons]; omega

theorem zip_fst_snd {α β : Type} (l : List (α × β)) : (l.map (·.1)).zip (l.map (·.2)) = l := by
  rw [List.zip_map']; simp

/-- at the end (every thread finished) every stored node has an accepted creation among the
calls, as counted on the observations -/
theorem accepted_of_keys (progs : List (List Call)) (sys : Sys) (hs : Shape progs sys) (hk : Keys sys)
    (hfin : ∀ th ∈ sys.threads, th.prog = []) (id : Nat) (hid : id ∈ sys.shared.kv.nodes.map (·.1)) :
    0 < acceptedCreates progs (sys.threads.map (fun th => th.done.map (·.2))) id := by
  have hacc := hk id ((has_iff_mem_keys _ _).mpr hid)
  rcases hacc with ⟨i, th, x, hi, hx, hc, hok⟩ | ⟨i, th, op, rest, hi, hp, _, _⟩
  · have hp := hs.2 i th hi
    rw [hfin th (List.mem_of_getElem? hi), List.append_nil] at hp
    -- the i-th summand counts `x`
    have hmem : ((th.done.filter (fun x =>
          (match x.1 with | .op (.createNode i ..) => i == id | _ => false) && x.2.isOk)).length)
        ∈ ((progs.zip (sys.threads.map (fun th => th.done.map (·.2)))).map (fun pr =>
            ((pr.1.zip pr.2).filter (fun x =>
              (match x.1 with | .op (.createNode i ..) => i == id | _ => false) && x.2.isOk)).length)) := by
      rw [List.mem_map]
      refine ⟨(th.done.map (·.1), th.done.map (·.2)), ?_, by simp only [zip_fst_snd]⟩
      rw [List.mem_iff_getElem?]
      refine ⟨i, ?_⟩
      rw [List.getElem?_zip_eq_some]
      exact ⟨hp, by simp [List.getElem?_map, hi]⟩
    have hpos : 0 < (th.done.filter (fun x =>
          (match x.1 with | .op (.createNode i ..) => i == id | _ => false) && x.2.isOk)).length := by
      apply List.length_pos_of_mem (a := x)
      rw [List.mem_filter]
      refine ⟨hx, ?_⟩
      obtain ⟨xo, xr⟩ := x
      simp only at hok hc
      subst hok
      cases xo <;> simp [isCreate] at hc ⊢
      exact ⟨hc, rfl⟩
    have := le_sum_of_mem _ _ hmem
    unfold acceptedCreates
    exact Nat.lt_of_lt_of_le hpos this
  · rw [hfin th (List.mem_of_getElem? hi)] at hp; simp at hp

end SgModel.Quota
