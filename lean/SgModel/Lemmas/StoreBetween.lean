import SgModel.Lemmas.StoreSorted
/-!
Helper lemmas for the graph-store model (C06), part 12: `search_adjacency_slice` on a row
sorted by neighbour id finds exactly the run a filter finds; hence the binary-search code path
of `edges_between` (one search per frozen segment + one in the write buffer) equals the filter
formulation `edgesBetweenF`.
-/
namespace SgModel.Store

/-- the per-entry decision of `search_adjacency_slice` -/
def sliceG (s : State) (src tgt : Nat) (ty : Option Nat) (p : Nat × Nat) : Option Nat :=
  match getEdge s p.2 with
  | some (a, b, t, _) =>
    if a == src && b == tgt && (match ty with | some want => t == want | none => true)
    then some p.2 else none
  | none => match ty with
    | some want => if edgeTypeOf s p.2 == some want then some p.2 else none
    | none => some p.2

theorem walkBack_spec (keys : List Nat) (k : Nat) (p : Nat) :
    walkBack keys k p ≤ p
    ∧ (∀ i, walkBack keys k p ≤ i → i < p → keys.getD i 0 = k)
    ∧ (walkBack keys k p = 0 ∨ keys.getD (walkBack keys k p - 1) 0 ≠ k) := by
  induction p with
  | zero => exact ⟨Nat.le_refl _, fun i _ h => absurd h (Nat.not_lt_zero _), Or.inl rfl⟩
  | succ q ih =>
    unfold walkBack
    by_cases hq : keys.getD q 0 = k
    · simp only [hq, if_true]
      obtain ⟨h1, h2, h3⟩ := ih
      refine ⟨Nat.le_succ_of_le h1, fun i hi hlt => ?_, h3⟩
      rcases Nat.lt_or_eq_of_le (Nat.le_of_lt_succ hlt) with h | h
      · exact h2 i hi h
      · rw [h]; exact hq
    · simp only [hq, if_false]
      exact ⟨Nat.le_refl _, fun i hi hlt => by omega, Or.inr (by simpa using hq)⟩

/-- in a sorted row whose entries are all `≥ key`, the leading run of `key` is all of them -/
theorem takeWhile_eq_filter_sorted (l : Row) (key : Nat) (hs : SortedK l)
    (hge : ∀ p ∈ l, key ≤ p.1) :
    l.takeWhile (fun p => p.1 == key) = l.filter (fun p => p.1 == key) := by
  induction l with
  | nil => rfl
  | cons a as ih =>
    obtain ⟨ha, has⟩ := List.pairwise_cons.mp hs
    by_cases hk : a.1 = key
    · have hb : (a.1 == key) = true := by simpa using hk
      rw [List.takeWhile_cons, List.filter_cons, hb]
      simp only [if_true]
      rw [ih has (fun p hp => hge p (List.mem_cons_of_mem _ hp))]
    · have hb : (a.1 == key) = false := by simpa using hk
      rw [List.takeWhile_cons, List.filter_cons, hb]
      simp only [Bool.false_eq_true, if_false]
      symm
      apply List.filter_eq_nil_iff.mpr
      intro p hp
      have h1 := ha p hp
      have h2 := hge a (List.mem_cons_self ..)
      have : key < p.1 := by omega
      simp only [beq_iff_eq]; omega

/-- on a sorted row the binary search + walk-back + scan of `search_adjacency_slice` selects
exactly the entries whose neighbour is `key` -/
theorem searchSlice_sorted (s : State) (entries : Row) (key src tgt : Nat) (ty : Option Nat)
    (hs : SortedK entries) :
    searchSlice s entries key src tgt ty
      = (entries.filter (fun p => p.1 == key)).filterMap (sliceG s src tgt ty) := by
  have hks := sortedK_keys hs
  unfold searchSlice
  simp only
  cases hb : bsearch (entries.map (·.1)) key with
  | mk found pos =>
    cases found with
    | false =>
      simp only
      have hnot : key ∉ entries.map (·.1) := by
        intro hm
        have := bsearch_mem hks key hm
        rw [hb] at this; cases this
      have : entries.filter (fun p => p.1 == key) = [] := by
        apply List.filter_eq_nil_iff.mpr
        intro p hp hpk
        simp only [beq_iff_eq] at hpk
        exact hnot (List.mem_map.mpr ⟨p, hp, hpk⟩)
      rw [this]; rfl
    | true =>
      simp only
      have hf := bsearch_found (a := entries.map (·.1)) key (by rw [hb])
      rw [hb] at hf
      simp only [List.length_map] at hf
      obtain ⟨hpos, hkey⟩ := hf
      obtain ⟨w1, w2, w3⟩ := walkBack_spec (entries.map (·.1)) key pos
      generalize walkBack (entries.map (·.1)) key pos = st at w1 w2 w3
      -- entries before `st` are below the key, entries from `st` on are at or above it
      have hbefore : ∀ p ∈ entries.take st, p.1 ≠ key := by
        intro p hp
        obtain ⟨i, hi, hip⟩ := List.mem_iff_getElem.mp hp
        rw [List.length_take] at hi
        rw [List.getElem_take] at hip
        rcases w3 with h0 | hne
        · omega
        · have hle1 : (entries.map (·.1)).getD i 0 ≤ (entries.map (·.1)).getD (st - 1) 0 :=
            sortedN_le hks (by omega) (by simp; omega)
          have hle2 : (entries.map (·.1)).getD (st - 1) 0 ≤ (entries.map (·.1)).getD pos 0 :=
            sortedN_le hks (by omega) (by simp; omega)
          rw [keys_getD entries i (by omega), hip] at hle1
          omega
      have hafter : ∀ p ∈ entries.drop st, key ≤ p.1 := by
        intro p hp
        obtain ⟨j, hj, hjp⟩ := List.mem_iff_getElem.mp hp
        rw [List.length_drop] at hj
        rw [List.getElem_drop] at hjp
        have hk : key ≤ (entries.map (·.1)).getD (st + j) 0 := by
          by_cases hlt : st + j < pos
          · rw [w2 (st + j) (by omega) hlt]; exact Nat.le_refl _
          · rw [← hkey]; exact sortedN_le hks (by omega) (by simp; omega)
        rw [keys_getD entries (st + j) (by omega), hjp] at hk
        exact hk
      have hsd : SortedK (entries.drop st) := List.Pairwise.sublist (List.drop_sublist _ _) hs
      rw [takeWhile_eq_filter_sorted _ key hsd hafter]
      have hsplit : entries.filter (fun p => p.1 == key)
          = (entries.take st).filter (fun p => p.1 == key) ++ (entries.drop st).filter (fun p => p.1 == key) := by
        rw [← List.filter_append, List.take_append_drop]
      have hnil : (entries.take st).filter (fun p => p.1 == key) = [] := by
        apply List.filter_eq_nil_iff.mpr
        intro p hp hpk
        simp only [beq_iff_eq] at hpk
        exact hbefore p hp hpk
      rw [hsplit, hnil, List.nil_append]
      rfl

/-- filtering by neighbour and then deciding per entry, vs. the combined filter of the
specification, on rows whose entries resolve as the invariant says -/
theorem filterMap_sliceG_eq (s : State) (l : Row) (src tgt : Nat) (ty : Option Nat)
    (hres : ∀ p ∈ l, ∃ t ps, getEdge s p.2 = some (src, p.1, t, ps)) :
    (l.filter (fun p => p.1 == tgt)).filterMap (sliceG s src tgt ty)
      = (l.filter (fun p => p.1 == tgt &&
          match getEdge s p.2 with
          | some (_, _, t, _) => (match ty with | some want => t == want | none => true)
          | none => false)).map (·.2) := by
  induction l with
  | nil => rfl
  | cons a as ih =>
    have iha := ih (fun p hp => hres p (List.mem_cons_of_mem _ hp))
    obtain ⟨t, ps, hg⟩ := hres a (List.mem_cons_self ..)
    by_cases hk : a.1 = tgt
    · have hb : (a.1 == tgt) = true := by simpa using hk
      rw [List.filter_cons, hb]
      simp only [if_true]
      rw [List.filterMap_cons, List.filter_cons]
      simp only [sliceG, hg, hb, beq_self_eq_true, Bool.true_and]
      cases hc : (match ty with | some want => t == want | none => true) with
      | true => simp only [if_true, List.map_cons]; rw [← iha]
      | false => simp only [Bool.false_eq_true, if_false]; rw [← iha]
    · have hb : (a.1 == tgt) = false := by simpa using hk
      rw [List.filter_cons, hb, List.filter_cons]
      simp only [Bool.false_eq_true, if_false, hb, Bool.false_and]
      exact iha

theorem flatMap_filter_filterMap {α β γ : Type} (segs : List α) (f : α → List β) (p : β → Bool)
    (g : β → Option γ) :
    segs.flatMap (fun seg => ((f seg).filter p).filterMap g)
      = ((segs.flatMap f).filter p).filterMap g := by
  induction segs with
  | nil => rfl
  | cons a as ih => simp [List.flatMap_cons, List.filter_append, List.filterMap_append, ih]

theorem flatMap_congr' {α β : Type} (l : List α) (f g : α → List β) (h : ∀ x ∈ l, f x = g x) :
    l.flatMap f = l.flatMap g := by
  induction l with
  | nil => rfl
  | cons a as ih =>
    rw [List.flatMap_cons, List.flatMap_cons, h a (List.mem_cons_self ..),
      ih (fun x hx => h x (List.mem_cons_of_mem _ hx))]

/-- the binary-search code path of `edges_between` equals the filter formulation, whenever the
invariant holds, the tiers are sorted and no stub is pending -/
theorem edgesBetween_eq_filter {s : State} (hI : Inv s) (hS : SortInv s)
    (hp : s.stubPending = false) (src tgt : Nat) (ty : Option Nat) :
    edgesBetween s src tgt ty = edgesBetweenF s src tgt ty := by
  unfold edgesBetween edgesBetweenF
  have hsegs : s.outT.segs.flatMap (fun seg => searchSlice s (seg.getD src []) tgt src tgt ty)
      = s.outT.segs.flatMap (fun seg =>
          ((seg.getD src []).filter (fun p => p.1 == tgt)).filterMap (sliceG s src tgt ty)) := by
    apply flatMap_congr'
    intro seg hseg
    exact searchSlice_sorted s _ tgt src tgt ty (hS.out.segs seg hseg src)
  rw [hsegs, searchSlice_sorted s _ tgt src tgt ty (hS.out.buf hp src),
    flatMap_filter_filterMap, ← List.filterMap_append, ← List.filter_append]
  show ((s.outT.row src).filter _).filterMap _ = _
  apply filterMap_sliceG_eq
  intro p hp'
  have hk := keyOut_some.mp (hI.out.sound src p.1 p.2 hp')
  obtain ⟨t, hg, _⟩ := getEdge_of_live hI.toInvE hk.2
  rw [hk.1] at hg
  exact ⟨t, _, hg⟩

end SgModel.Store
