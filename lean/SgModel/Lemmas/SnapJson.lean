import SgModel.Model.SnapJson
/-!
Helper lemmas for the snapshot model (C12, C13): the value codec round trip, the line
codec, list/association-list facts, and the import folds.
-/
namespace SgModel.SnapJson

/-! ### association lists -/

theorem lookup_encKV (k : Str) (kvs : List (Str × PV)) :
    lookup k (encKV false kvs) = (lookup k kvs).map (enc false) := by
  induction kvs with
  | nil => rfl
  | cons kv r ih =>
    obtain ⟨k', v⟩ := kv
    simp only [encKV, lookup]
    split <;> simp_all

theorem enc_eq_str {v : PV} {t : Str} (h : enc false v = .str t) : v = .str t := by
  cases v <;> simp [enc, encFlt] at h
  · split at h <;> simp at h
  · rw [h]

/-! ### floats -/

theorem nonFiniteOfName_name {b : Nat} (hn : nonFinite b = true) (hok : fltOk b = true) :
    nonFiniteOfName (nonFiniteName b) = some b := by
  simp only [fltOk, hn, Bool.not_true, Bool.false_or, Bool.or_eq_true, beq_iff_eq] at hok
  rcases hok with (h | h) | h <;> subst h <;> decide

theorem elemToF_encFlt {b : Nat} (hok : fltOk b = true) :
    elemToF false (encFlt false b) = some b := by
  unfold encFlt
  by_cases hn : nonFinite b = true
  · have := nonFiniteOfName_name hn hok
    simp [hn, elemToF, taggedFloat, lookup, kType, kValue, tFloat, this]
  · simp [hn, elemToF]

theorem filterMap_encFlt (l : List Nat) (h : l.all fltOk = true) :
    (l.map (encFlt false)).filterMap (elemToF false) = l := by
  induction l with
  | nil => rfl
  | cons b r ih =>
    simp only [List.all_cons, Bool.and_eq_true] at h
    simp [elemToF_encFlt h.1, ih h.2]

theorem wrapI32_id {i : Int} (h1 : -2147483648 ≤ i) (h2 : i < 2147483648) : wrapI32 i = i := by
  unfold wrapI32; omega

theorem tagged_encKV_none {kvs : List (Str × PV)} (h : taggedKey kvs = false) :
    tagged false (encKV false kvs) = none := by
  unfold tagged
  rw [lookup_encKV]
  unfold taggedKey at h
  cases hl : lookup kType kvs with
  | none => simp
  | some v =>
    simp only [Option.map_some]
    cases he : enc false v with
    | str t =>
      have hv := enc_eq_str he
      subst hv
      simp only [hl, isTag, Bool.or_eq_false_iff] at h
      obtain ⟨⟨⟨h1, h2⟩, h3⟩, h4⟩ := h
      simp [h1, h2, h3, h4]
    | _ => simp

/-! ### the value codec round trip -/
mutual
theorem dec_enc : ∀ (v : PV), snapOk v = true → dec false (enc false v) = v
  | .null, _ => rfl
  | .bool _, _ => rfl
  | .int _, _ => rfl
  | .str _, _ => by simp [enc, dec]
  | .flt b, h => by
      simp only [snapOk] at h
      simp only [enc, encFlt]
      by_cases hn : nonFinite b = true
      · have := nonFiniteOfName_name hn h
        simp [hn, dec, tagged, lookup, kType, kValue, tFloat, tDateTime, tVector, tDuration, this]
      · simp [hn, dec]
  | .dt ms, _ => by
      simp [enc, dec, tagged, lookup, kType, kValue, tDateTime]
  | .vec l, h => by
      simp only [snapOk] at h
      simp [enc, dec, tagged, lookup, kType, kValue, tDateTime, tVector, filterMap_encFlt l h]
  | .dur mo d s ns, h => by
      simp only [snapOk, Bool.and_eq_true, decide_eq_true_eq] at h
      simp [enc, dec, tagged, lookup, getI64, kType, tDateTime, tVector, tDuration, kMonths,
        kDays, kSeconds, kNanos, wrapI32_id h.1 h.2]
  | .arr l, h => by
      simp only [snapOk] at h
      simp [enc, dec, decL_encL l h]
  | .map kvs, h => by
      simp only [snapOk, Bool.and_eq_true, Bool.not_eq_true'] at h
      simp [enc, dec, tagged_encKV_none h.1, decKV_encKV kvs h.2]
theorem decL_encL : ∀ (l : List PV), snapOkL l = true → decL false (encL false l) = l
  | [], _ => rfl
  | v :: r, h => by
      simp only [snapOkL, Bool.and_eq_true] at h
      simp [encL, decL, dec_enc v h.1, decL_encL r h.2]
theorem decKV_encKV : ∀ (kvs : List (Str × PV)), snapOkKV kvs = true →
    decKV false (encKV false kvs) = kvs
  | [], _ => rfl
  | (k, v) :: r, h => by
      simp only [snapOkKV, Bool.and_eq_true] at h
      simp [encKV, decKV, dec_enc v h.1, decKV_encKV r h.2]
end

end SgModel.SnapJson
