import SgModel.Model.CyW
/-!
Helper lemmas for the Cypher write fragment (C04 / C05 / C35).
-/
namespace SgModel.CyW

/-! ### property maps -/

theorem pget_pinsert_same (ps : Props) (k : Nat) (v : V) : pget (pinsert ps k v) k = v := by
  induction ps with
  | nil => simp [pinsert, pget]
  | cons kv ps ih =>
    obtain ⟨k', v'⟩ := kv
    simp only [pinsert]
    split
    · simp [pget]
    · split
      · simp [pget]
      · rename_i h1 h2
        simp only [pget]
        rw [if_neg (fun h => h2 h.symm)]
        exact ih

theorem pget_pinsert_other (ps : Props) (k j : Nat) (v : V) (h : k ≠ j) :
    pget (pinsert ps k v) j = pget ps j := by
  induction ps with
  | nil => simp [pinsert, pget, h]
  | cons kv ps ih =>
    obtain ⟨k', v'⟩ := kv
    simp only [pinsert]
    split
    · simp [pget, h]
    · split
      · rename_i h1 h2
        subst h2
        simp [pget, h]
      · simp only [pget]
        split
        · rfl
        · exact ih

theorem pget_perase_same (ps : Props) (k : Nat) : pget (perase ps k) k = .null := by
  induction ps with
  | nil => simp [perase, pget]
  | cons kv ps ih =>
    obtain ⟨k', v'⟩ := kv
    simp only [perase]
    split
    · exact ih
    · rename_i h
      simp only [pget, if_neg h]
      exact ih

theorem pget_perase_other (ps : Props) (k j : Nat) (h : k ≠ j) :
    pget (perase ps k) j = pget ps j := by
  induction ps with
  | nil => simp [perase, pget]
  | cons kv ps ih =>
    obtain ⟨k', v'⟩ := kv
    simp only [perase]
    split
    · rename_i h1
      subst h1
      simp only [pget, if_neg h]
      exact ih
    · simp only [pget]
      split
      · rfl
      · exact ih

/-- set-then-read on a property map (a null value reads back as null: the key is gone) -/
theorem pget_pset_same (ps : Props) (k : Nat) (v : V) : pget (pset ps k v) k = v := by
  unfold pset
  split
  · rename_i h; rw [h]; exact pget_perase_same ps k
  · exact pget_pinsert_same ps k v

theorem pget_pset_other (ps : Props) (k j : Nat) (v : V) (h : k ≠ j) :
    pget (pset ps k v) j = pget ps j := by
  unfold pset
  split
  · exact pget_perase_other ps k j h
  · exact pget_pinsert_other ps k j v h

/-! ### fresh identifiers -/

theorem foldl_max_ge (ids : List Nat) (m : Nat) :
    m ≤ ids.foldl (fun m i => max m (i + 1)) m := by
  induction ids generalizing m with
  | nil => exact Nat.le_refl _
  | cons i ids ih =>
    simp only [List.foldl]
    exact Nat.le_trans (Nat.le_max_left _ _) (ih _)

theorem lt_foldl_max (ids : List Nat) (m : Nat) :
    ∀ i ∈ ids, i < ids.foldl (fun m i => max m (i + 1)) m := by
  induction ids generalizing m with
  | nil => intro i hi; cases hi
  | cons j ids ih =>
    intro i hi
    simp only [List.foldl]
    rcases List.mem_cons.mp hi with h | h
    · subst h
      exact Nat.lt_of_lt_of_le (Nat.lt_of_lt_of_le (Nat.lt_succ_self _) (Nat.le_max_right _ _))
        (foldl_max_ge ids _)
    · exact ih _ i h

theorem lt_freshId (ids : List Nat) : ∀ i ∈ ids, i < freshId ids := lt_foldl_max ids 0

theorem freshId_not_mem (ids : List Nat) : freshId ids ∉ ids :=
  fun h => Nat.lt_irrefl _ (lt_freshId ids _ h)

/-! ### folds in `Except` -/

theorem foldR_inv {σ α : Type} (P : σ → Prop) (f : σ → α → R σ)
    (hf : ∀ s x s', P s → f s x = .ok s' → P s') :
    ∀ (xs : List α) (s s' : σ), P s → foldR f s xs = .ok s' → P s' := by
  intro xs
  induction xs with
  | nil =>
    intro s s' hs h
    simp only [foldR] at h
    cases h; exact hs
  | cons x xs ih =>
    intro s s' hs h
    simp only [foldR] at h
    cases hfx : f s x with
    | error e => rw [hfx] at h; cases h
    | ok s1 =>
      rw [hfx] at h
      exact ih s1 s' (hf s x s1 hs hfx) h


/-! ### nodes and relationships under the primitive updates -/

theorem node?_mapNode (g : G) (id : Nat) (f : Node → Node) :
    (g.mapNode id f).node? id = (g.node? id).map (fun n => { f n with id := n.id }) := by
  unfold G.mapNode G.node?
  simp only
  induction g.nodes with
  | nil => rfl
  | cons n ns ih =>
    simp only [List.map, List.find?]
    by_cases h : n.id = id
    · simp [h]
    · simp [h, ih]

theorem rel?_mapRel (g : G) (id : Nat) (f : Rel → Rel) :
    (g.mapRel id f).rel? id
      = (g.rel? id).map (fun r => { f r with id := r.id, src := r.src, tgt := r.tgt }) := by
  unfold G.mapRel G.rel?
  simp only
  induction g.rels with
  | nil => rfl
  | cons n ns ih =>
    simp only [List.map, List.find?]
    by_cases h : n.id = id
    · simp [h]
    · simp [h, ih]

/-- well-formedness as a proposition -/
structure WF (g : G) : Prop where
  nodeIds : (g.nodes.map (·.id)).Nodup
  relIds : (g.rels.map (·.id)).Nodup
  ends : ∀ r ∈ g.rels, g.hasNode r.src = true ∧ g.hasNode r.tgt = true

theorem wf_iff (g : G) : g.wf = true ↔ WF g := by
  unfold G.wf
  simp only [Bool.and_eq_true, decide_eq_true_eq, List.all_eq_true]
  constructor
  · rintro ⟨⟨h1, h2⟩, h3⟩; exact ⟨h1, h2, h3⟩
  · rintro ⟨h1, h2, h3⟩; exact ⟨⟨h1, h2⟩, h3⟩

theorem hasNode_iff (g : G) (id : Nat) : g.hasNode id = true ↔ id ∈ g.nodes.map (·.id) := by
  unfold G.hasNode
  simp only [List.any_eq_true, decide_eq_true_eq, List.mem_map]

theorem freshN_not_hasNode (g : G) : g.hasNode g.freshN = false := by
  cases h : g.hasNode g.freshN with
  | false => rfl
  | true => exact absurd ((hasNode_iff g _).mp h) (freshId_not_mem _)

theorem wf_empty : WF G.empty := ⟨List.nodup_nil, List.nodup_nil, fun _ h => by cases h⟩

theorem wf_addNode (g : G) (ls : List Nat) (ps : Props) (h : WF g) : WF (g.addNode ls ps).1 := by
  refine ⟨?_, h.relIds, ?_⟩
  · show ((g.nodes ++ [(⟨g.freshN, ls, ps⟩ : Node)]).map Node.id).Nodup
    rw [List.map_append, List.nodup_append]
    refine ⟨h.nodeIds, by simp, ?_⟩
    intro a ha b hb
    simp only [List.map_cons, List.map_nil, List.mem_singleton] at hb
    subst hb
    intro hab
    subst hab
    exact freshId_not_mem _ ha
  · intro r hr
    have := h.ends r hr
    simp only [hasNode_iff] at this ⊢
    show r.src ∈ (g.nodes ++ [(⟨g.freshN, ls, ps⟩ : Node)]).map Node.id ∧ r.tgt ∈ (g.nodes ++ [(⟨g.freshN, ls, ps⟩ : Node)]).map Node.id
    simp only [List.map_append, List.mem_append]
    exact ⟨Or.inl this.1, Or.inl this.2⟩

theorem hasNode_addNode (g : G) (ls : List Nat) (ps : Props) (id : Nat) (h : g.hasNode id = true) :
    (g.addNode ls ps).1.hasNode id = true := by
  rw [hasNode_iff] at h ⊢
  show id ∈ (g.nodes ++ [(⟨g.freshN, ls, ps⟩ : Node)]).map Node.id
  simp only [List.map_append, List.mem_append]
  exact Or.inl h

theorem hasNode_addNode_new (g : G) (ls : List Nat) (ps : Props) :
    (g.addNode ls ps).1.hasNode (g.addNode ls ps).2 = true := by
  rw [hasNode_iff]
  show g.freshN ∈ (g.nodes ++ [(⟨g.freshN, ls, ps⟩ : Node)]).map Node.id
  simp

theorem wf_addRel (g g' : G) (a b ty id : Nat) (ps : Props) (h : WF g)
    (he : g.addRel a b ty ps = .ok (g', id)) : WF g' := by
  unfold G.addRel at he
  split at he
  · rename_i hc
    simp only [Bool.and_eq_true] at hc
    cases he
    refine ⟨h.nodeIds, ?_, ?_⟩
    · show ((g.rels ++ [(⟨g.freshR, a, b, ty, ps⟩ : Rel)]).map Rel.id).Nodup
      rw [List.map_append, List.nodup_append]
      refine ⟨h.relIds, by simp, ?_⟩
      intro x hx y hy
      simp only [List.map_cons, List.map_nil, List.mem_singleton] at hy
      subst hy
      intro hxy
      subst hxy
      exact freshId_not_mem _ hx
    · intro r hr
      have hr' : r ∈ g.rels ++ [(⟨g.freshR, a, b, ty, ps⟩ : Rel)] := hr
      rcases List.mem_append.mp hr' with h1 | h1
      · exact h.ends r h1
      · simp only [List.mem_singleton] at h1
        subst h1
        exact hc
  · cases he

theorem nodes_addRel (g g' : G) (a b ty id : Nat) (ps : Props)
    (he : g.addRel a b ty ps = .ok (g', id)) : g'.nodes = g.nodes := by
  unfold G.addRel at he
  split at he
  · cases he; rfl
  · cases he

theorem mapNode_ids (g : G) (id : Nat) (f : Node → Node) :
    (g.mapNode id f).nodes.map (·.id) = g.nodes.map (·.id) := by
  unfold G.mapNode
  simp only [List.map_map]
  apply List.map_congr_left
  intro n _
  simp only [Function.comp]
  split <;> rfl

theorem hasNode_mapNode (g : G) (id : Nat) (f : Node → Node) (x : Nat) :
    (g.mapNode id f).hasNode x = g.hasNode x := by
  have h1 := hasNode_iff (g.mapNode id f) x
  have h2 := hasNode_iff g x
  rw [mapNode_ids] at h1
  have h3 : (g.mapNode id f).hasNode x = true ↔ g.hasNode x = true := h1.trans h2.symm
  cases ha : (g.mapNode id f).hasNode x <;> cases hb : g.hasNode x <;> simp_all

theorem wf_mapNode (g : G) (id : Nat) (f : Node → Node) (h : WF g) : WF (g.mapNode id f) := by
  refine ⟨by rw [mapNode_ids]; exact h.nodeIds, h.relIds, ?_⟩
  intro r hr
  simp only [hasNode_mapNode]
  exact h.ends r hr

theorem wf_mapRel (g : G) (id : Nat) (f : Rel → Rel) (h : WF g) : WF (g.mapRel id f) := by
  refine ⟨h.nodeIds, ?_, ?_⟩
  · have : (g.mapRel id f).rels.map (·.id) = g.rels.map (·.id) := by
      unfold G.mapRel
      simp only [List.map_map]
      apply List.map_congr_left
      intro n _
      simp only [Function.comp]
      split <;> rfl
    rw [this]; exact h.relIds
  · intro r hr
    have hr' : r ∈ g.rels.map (fun r => if r.id = id then { f r with id := r.id, src := r.src, tgt := r.tgt } else r) := hr
    obtain ⟨r0, hr0, he⟩ := List.mem_map.mp hr'
    have := h.ends r0 hr0
    have hs : r.src = r0.src ∧ r.tgt = r0.tgt := by
      subst he; split <;> exact ⟨rfl, rfl⟩
    rw [hs.1, hs.2]
    exact this

theorem wf_delRel (g : G) (id : Nat) (h : WF g) : WF (g.delRel id) := by
  refine ⟨h.nodeIds, ?_, ?_⟩
  · show ((g.rels.filter (·.id ≠ id)).map (·.id)).Nodup
    exact (List.filter_sublist.map _).nodup h.relIds
  · intro r hr
    have hr' : r ∈ g.rels.filter (·.id ≠ id) := hr
    exact h.ends r (List.mem_filter.mp hr').1

theorem wf_delNode (g g' : G) (detach : Bool) (id : Nat) (h : WF g)
    (he : g.delNode detach id = .ok g') : WF g' := by
  unfold G.delNode at he
  split at he
  · cases he; exact h
  · split at he
    · cases he
    · cases he
      refine ⟨?_, ?_, ?_⟩
      · exact (List.filter_sublist.map _).nodup h.nodeIds
      · exact (List.filter_sublist.map _).nodup h.relIds
      · intro r hr
        simp only [List.mem_filter, Rel.touches, Bool.not_eq_true', Bool.or_eq_false_iff,
          decide_eq_false_iff_not] at hr
        obtain ⟨hr1, hs, ht⟩ := hr
        have := h.ends r hr1
        simp only [hasNode_iff, List.mem_map] at this ⊢
        obtain ⟨⟨n1, hn1, e1⟩, ⟨n2, hn2, e2⟩⟩ := this
        refine ⟨⟨n1, ?_, e1⟩, ⟨n2, ?_, e2⟩⟩
        · simp only [List.mem_filter, ne_eq, decide_not, Bool.not_eq_true', decide_eq_false_iff_not]
          exact ⟨hn1, by rw [e1]; exact hs⟩
        · simp only [List.mem_filter, ne_eq, decide_not, Bool.not_eq_true', decide_eq_false_iff_not]
          exact ⟨hn2, by rw [e2]; exact ht⟩

theorem bagEq_refl {α : Type} [DecidableEq α] (l : List α) : bagEq l l = true := by
  simp [bagEq]


/-! ### well-formedness through the per-row write functions -/

theorem bind_ok {α β : Type} {x : R α} {f : α → R β} {b : β} (h : (x >>= f) = .ok b) :
    ∃ a, x = .ok a ∧ f a = .ok b := by
  cases x with
  | error e => cases h
  | ok a => exact ⟨a, rfl, h⟩

/-- what a node-deletion primitive must guarantee for the lifting lemmas -/
def DelOK (del : G → Bool → Nat → R G) : Prop :=
  ∀ g d id g', WF g → del g d id = .ok g' → WF g'

theorem delOK_delNode : DelOK G.delNode := fun g d id g' h he => wf_delNode g g' d id h he

theorem wf_createNode (g g' : G) (ps : Props) (row row' : Row) (p : NPat) (id : Nat) (h : WF g)
    (he : createNode g ps row p = .ok (g', row', id)) : WF g' := by
  unfold createNode at he
  split at he
  · cases he; exact h
  · cases he
  · obtain ⟨props, _, he⟩ := bind_ok he
    cases he
    exact wf_addNode g _ _ h

theorem wf_createPath (g0 : G) (ps : Props) (row0 : Row) (acc acc' : G × Row) (p : CPath)
    (h : WF acc.1) (he : createPath g0 ps row0 acc p = .ok acc') : WF acc'.1 := by
  unfold createPath at he
  obtain ⟨⟨g1, row1, a⟩, h1, he⟩ := bind_ok he
  have w1 := wf_createNode _ _ _ _ _ _ _ h h1
  dsimp only at he
  split at he
  · cases he; exact w1
  · obtain ⟨⟨g2, row2, b⟩, h2, he⟩ := bind_ok he
    have w2 := wf_createNode _ _ _ _ _ _ _ w1 h2
    dsimp only at he
    obtain ⟨rp, _, he⟩ := bind_ok he
    split at he
    · obtain ⟨⟨g3, rid⟩, h3, he⟩ := bind_ok he
      cases he
      exact wf_addRel _ _ _ _ _ _ _ w2 h3
    · obtain ⟨⟨g3, rid⟩, h3, he⟩ := bind_ok he
      cases he
      exact wf_addRel _ _ _ _ _ _ _ w2 h3

theorem wf_applySetV (g g' : G) (sv : SetV) (h : WF g) (he : applySetV g sv = .ok g') : WF g' := by
  unfold applySetV at he
  split at he <;>
    first
    | (cases he; exact wf_mapNode _ _ _ h)
    | (cases he; exact wf_mapRel _ _ _ h)
    | (cases he; exact h)
    | cases he

theorem wf_applySet (g g' : G) (ps : Props) (row : Row) (items : List SetItem) (h : WF g)
    (he : applySet g ps row items = .ok g') : WF g' := by
  unfold applySet at he
  obtain ⟨vs, _, he⟩ := bind_ok he
  exact foldR_inv WF applySetV (fun s x s' hs hx => wf_applySetV s s' x hs hx) vs g g' h he

theorem wf_applyRem (row : Row) (g g' : G) (it : RemItem) (h : WF g)
    (he : applyRem row g it = .ok g') : WF g' := by
  unfold applyRem at he
  split at he <;> split at he <;>
    first
    | (cases he; exact wf_mapNode _ _ _ h)
    | (cases he; exact wf_mapRel _ _ _ h)
    | (cases he; exact h)
    | cases he

theorem wf_applyDel (del : G → Bool → Nat → R G) (hd : DelOK del) (detach : Bool) (row : Row)
    (g g' : G) (x : Nat) (h : WF g) (he : applyDel del detach row g x = .ok g') : WF g' := by
  unfold applyDel at he
  split at he
  · exact hd _ _ _ _ h he
  · cases he; exact wf_delRel _ _ h
  · cases he; exact h
  · cases he
  · cases he

theorem wf_applyMerge (g : G) (ps : Props) (row : Row) (p : NPat) (oc om : List SetItem)
    (out : G × Row) (h : WF g) (he : applyMerge g ps row p oc om = .ok out) : WF out.1 := by
  unfold applyMerge at he
  obtain ⟨req, _, he⟩ := bind_ok he
  split at he
  · cases he
  · split at he
    · obtain ⟨g1, h1, he⟩ := bind_ok he
      cases he
      exact wf_applySet _ _ _ _ _ h h1
    · dsimp only at he
      obtain ⟨g1, h1, he⟩ := bind_ok he
      cases he
      exact wf_applySet _ _ _ _ _ (wf_addNode g _ _ h) h1

theorem wf_applyMergeRel (g : G) (ps : Props) (row : Row) (a : NPat) (ty : Nat) (b : NPat)
    (out : G × Row) (h : WF g) (he : applyMergeRel g ps row a ty b = .ok out) : WF out.1 := by
  unfold applyMergeRel at he
  obtain ⟨ra, _, he⟩ := bind_ok he
  obtain ⟨rb, _, he⟩ := bind_ok he
  split at he
  · cases he
  · dsimp only at he
    split at he
    · cases he; exact h
    · obtain ⟨⟨g3, rid⟩, h3, he⟩ := bind_ok he
      cases he
      exact wf_addRel _ _ _ _ _ _ _ (wf_addNode _ _ _ (wf_addNode g _ _ h)) h3

theorem wf_applyWrite (del : G → Bool → Nat → R G) (hd : DelOK del) (ps : Props) (c : Clause)
    (g : G) (row : Row) (out : G × Row) (h : WF g)
    (he : applyWrite del ps c g row = .ok out) : WF out.1 := by
  unfold applyWrite at he
  split at he
  · exact foldR_inv (fun (a : G × Row) => WF a.1) (createPath g ps row)
      (fun s x s' hs hx => wf_createPath g ps row s s' x hs hx) _ (g, row) out h he
  · exact wf_applyMerge _ _ _ _ _ _ _ h he
  · exact wf_applyMergeRel _ _ _ _ _ _ _ h he
  · obtain ⟨g1, h1, he⟩ := bind_ok he
    cases he
    exact wf_applySet _ _ _ _ _ h h1
  · obtain ⟨g1, h1, he⟩ := bind_ok he
    cases he
    exact foldR_inv WF (applyRem row) (fun s x s' hs hx => wf_applyRem row s s' x hs hx) _ g g1 h h1
  · obtain ⟨g1, h1, he⟩ := bind_ok he
    cases he
    exact foldR_inv WF (applyDel del _ row)
      (fun s x s' hs hx => wf_applyDel del hd _ row s s' x hs hx) _ g g1 h h1
  · cases he; exact h

theorem wf_execClause (del : G → Bool → Nat → R G) (hd : DelOK del) (ps : Props) (c : Clause)
    (st st' : G × List Row) (h : WF st.1) (he : execClause del ps c st = .ok st') : WF st'.1 := by
  obtain ⟨g, rows⟩ := st
  unfold execClause at he
  dsimp only at he
  split at he
  · obtain ⟨⟨g1, out⟩, h1, he⟩ := bind_ok he
    cases he
    refine foldR_inv (fun (a : G × List Row) => WF a.1) _ ?_ rows (g, []) (g1, out) h h1
    intro s x s' hs hx
    obtain ⟨⟨g2, row2⟩, h2, hx⟩ := bind_ok hx
    cases hx
    exact wf_applyWrite del hd ps c _ _ _ hs h2
  · obtain ⟨outs, _, he⟩ := bind_ok he
    cases he
    exact h

/-- a reading clause returns the graph it was given -/
theorem execClause_read (del : G → Bool → Nat → R G) (ps : Props) (c : Clause)
    (st st' : G × List Row) (hc : c.isWrite = false) (he : execClause del ps c st = .ok st') :
    st'.1 = st.1 := by
  obtain ⟨g, rows⟩ := st
  unfold execClause at he
  dsimp only at he
  rw [if_neg (by simp [hc])] at he
  obtain ⟨outs, _, he⟩ := bind_ok he
  cases he
  rfl


/-! ### MERGE -/

theorem mem_linsert (ls : List Nat) (l x : Nat) : x ∈ linsert ls l ↔ x = l ∨ x ∈ ls := by
  induction ls with
  | nil => simp [linsert]
  | cons a as ih =>
    simp only [linsert]
    split
    · simp
    · split
      · rename_i h1 h2; subst h2; simp
      · simp only [List.mem_cons, ih]
        constructor
        · rintro (h | h | h) <;> simp [h]
        · rintro (h | h | h) <;> simp [h]

theorem mem_linsertAll (acc ls : List Nat) (x : Nat) : x ∈ linsertAll acc ls ↔ x ∈ acc ∨ x ∈ ls := by
  induction ls generalizing acc with
  | nil => simp [linsertAll]
  | cons l more ih =>
    simp only [linsertAll, ih, mem_linsert, List.mem_cons]
    constructor
    · rintro ((h | h) | h) <;> simp [h]
    · rintro (h | h | h) <;> simp [h]

theorem hasLabels_new (id : Nat) (ls : List Nat) (props : Props) :
    hasLabels ⟨id, linsertAll [] ls, props⟩ ls = true := by
  simp only [hasLabels, List.all_eq_true, List.contains_iff_mem]
  intro l hl
  exact (mem_linsertAll [] ls l).mpr (Or.inr hl)

theorem pget_psetAll_not_mem (ps req : Props) (k : Nat) (h : k ∉ req.map (·.1)) :
    pget (psetAll ps req) k = pget ps k := by
  induction req generalizing ps with
  | nil => rfl
  | cons kv rest ih =>
    obtain ⟨k', v'⟩ := kv
    simp only [List.map_cons, List.mem_cons, not_or] at h
    simp only [psetAll]
    rw [ih _ h.2]
    exact pget_pset_other ps k' k v' (fun e => h.1 e.symm)

theorem hasProps_psetAll (ps req : Props) (hn : (req.map (·.1)).Nodup)
    (hnull : ∀ kv ∈ req, kv.2 ≠ .null) : hasProps (psetAll ps req) req = true := by
  induction req generalizing ps with
  | nil => rfl
  | cons kv rest ih =>
    obtain ⟨k, v⟩ := kv
    simp only [List.map_cons, List.nodup_cons] at hn
    have hv : v ≠ .null := hnull (k, v) (List.mem_cons_self ..)
    have hrest := ih (pset ps k v) hn.2 (fun kv h => hnull kv (List.mem_cons_of_mem _ h))
    simp only [hasProps, List.all_cons, psetAll, Bool.and_eq_true, decide_eq_true_eq]
    have hk : pget (psetAll (pset ps k v) rest) k = v := by
      rw [pget_psetAll_not_mem _ _ _ hn.1]
      exact pget_pset_same ps k v
    exact ⟨⟨by simpa using hv, decide_eq_true hk⟩, hrest⟩

/-- a MERGE request that can be satisfied by the node it creates -/
def GoodReq (req : Props) : Prop := (req.map (·.1)).Nodup ∧ ∀ kv ∈ req, kv.2 ≠ .null

/-- graph effect of one MERGE of a node pattern (labels, evaluated properties) -/
def mergeReq (g : G) (ls : List Nat) (req : Props) : G :=
  match g.nodes.find? (fun n => nodeMatches n ls req) with
  | some _ => g
  | none => (g.addNode (linsertAll [] ls) (psetAll [] req)).1

def mergeAll (g : G) (reqs : List (List Nat × Props)) : G :=
  reqs.foldl (fun g r => mergeReq g r.1 r.2) g

def HasMatch (g : G) (ls : List Nat) (req : Props) : Prop :=
  ∃ n ∈ g.nodes, nodeMatches n ls req = true

theorem mergeReq_matched (g : G) (ls : List Nat) (req : Props) (h : HasMatch g ls req) :
    mergeReq g ls req = g := by
  unfold mergeReq
  split
  · rfl
  · rename_i hnone
    obtain ⟨n, hn, hm⟩ := h
    have := List.find?_eq_none.mp hnone n hn
    exact absurd hm this

theorem mergeReq_mono (g : G) (ls ls' : List Nat) (req req' : Props) (h : HasMatch g ls' req') :
    HasMatch (mergeReq g ls req) ls' req' := by
  unfold mergeReq
  split
  · exact h
  · obtain ⟨n, hn, hm⟩ := h
    exact ⟨n, List.mem_append.mpr (Or.inl hn), hm⟩

theorem mergeReq_has_match (g : G) (ls : List Nat) (req : Props) (hg : GoodReq req) :
    HasMatch (mergeReq g ls req) ls req := by
  unfold mergeReq
  split
  · rename_i n hsome
    exact ⟨n, List.mem_of_find?_eq_some hsome, List.find?_some (p := fun n => nodeMatches n ls req) hsome⟩
  · refine ⟨⟨g.freshN, linsertAll [] ls, psetAll [] req⟩, List.mem_append.mpr (Or.inr (List.mem_singleton.mpr rfl)), ?_⟩
    simp only [nodeMatches, Bool.and_eq_true]
    exact ⟨hasLabels_new _ _ _, hasProps_psetAll [] req hg.1 hg.2⟩

theorem mergeAll_mono (g : G) (reqs : List (List Nat × Props)) (ls : List Nat) (req : Props)
    (h : HasMatch g ls req) : HasMatch (mergeAll g reqs) ls req := by
  induction reqs generalizing g with
  | nil => exact h
  | cons r rs ih => exact ih _ (mergeReq_mono g r.1 ls r.2 req h)

theorem mergeAll_fixed (g : G) (reqs : List (List Nat × Props))
    (h : ∀ r ∈ reqs, HasMatch g r.1 r.2) : mergeAll g reqs = g := by
  induction reqs with
  | nil => rfl
  | cons r rs ih =>
    show mergeAll (mergeReq g r.1 r.2) rs = g
    rw [mergeReq_matched g r.1 r.2 (h r (List.mem_cons_self ..))]
    exact ih (fun r' hr' => h r' (List.mem_cons_of_mem _ hr'))

theorem mergeAll_all_matched (g : G) (reqs : List (List Nat × Props))
    (hg : ∀ r ∈ reqs, GoodReq r.2) : ∀ r ∈ reqs, HasMatch (mergeAll g reqs) r.1 r.2 := by
  induction reqs generalizing g with
  | nil => intro r hr; cases hr
  | cons r0 rs ih =>
    intro r hr
    show HasMatch (mergeAll (mergeReq g r0.1 r0.2) rs) r.1 r.2
    rcases List.mem_cons.mp hr with h | h
    · subst h
      exact mergeAll_mono _ rs _ _ (mergeReq_has_match g r.1 r.2 (hg r (List.mem_cons_self ..)))
    · exact ih _ (fun r' hr' => hg r' (List.mem_cons_of_mem _ hr')) r h

/-- the graph component of `applyMerge` without ON CREATE / ON MATCH items is `mergeReq` -/
theorem applyMerge_graph (g : G) (ps : Props) (row : Row) (p : NPat) (req : Props)
    (he : evalProps g ps row p.props = .ok req) (hnn : ∀ kv ∈ req, kv.2 ≠ .null) :
    ∃ row', applyMerge g ps row p [] [] = .ok (mergeReq g p.labels req, row') := by
  have hany : (req.any fun kv => decide (kv.2 = V.null)) = false := by
    rw [List.any_eq_false]
    intro kv hkv
    simpa using hnn kv hkv
  unfold applyMerge mergeReq
  rw [he]
  simp only [bind, Except.bind, hany]
  cases hf : g.nodes.find? (fun n => nodeMatches n p.labels req) with
  | some n => exact ⟨_, rfl⟩
  | none => exact ⟨_, rfl⟩

end SgModel.CyW
