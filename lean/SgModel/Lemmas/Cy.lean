import SgModel.Model.CyPlan
/-!
Helper lemmas for `Props/C01.lean` (core Lean only).
-/
namespace SgModel.Cy

/-! ### insertion sort -/

theorem insertBy_perm {α : Type} (le : α → α → Bool) (x : α) (l : List α) :
    (insertBy le x l).Perm (x :: l) := by
  induction l with
  | nil => exact List.Perm.refl _
  | cons y ys ih =>
    simp only [insertBy]
    split
    · exact List.Perm.refl _
    · exact (List.Perm.cons y ih).trans (List.Perm.swap x y ys)

theorem sortBy_perm {α : Type} (le : α → α → Bool) (l : List α) : (sortBy le l).Perm l := by
  induction l with
  | nil => exact List.Perm.refl _
  | cons x xs ih =>
    simp only [sortBy]
    exact (insertBy_perm le x _).trans (List.Perm.cons x ih)

theorem insertBy_length {α : Type} (le : α → α → Bool) (x : α) (l : List α) :
    (insertBy le x l).length = l.length + 1 := (insertBy_perm le x l).length_eq

/-- inserting into a prefix and cutting back is inserting and cutting back -/
theorem insertBy_take {α : Type} (le : α → α → Bool) (x : α) (k : Nat) (l : List α) :
    (insertBy le x (l.take k)).take k = (insertBy le x l).take k := by
  induction l generalizing k with
  | nil => simp
  | cons y ys ih =>
    cases k with
    | zero => simp
    | succ k =>
      simp only [List.take_succ_cons, insertBy]
      split
      · simp only [List.take_succ_cons]
        congr 1
        cases k with
        | zero => simp
        | succ k => simp [List.take_take]
      · simp only [List.take_succ_cons]
        rw [ih]

/-! ### window -/

theorem window_sublist {α : Type} (s l : Option Nat) (xs : List α) :
    (window s l xs).Sublist xs := by
  unfold window
  cases l with
  | none => exact List.drop_sublist _ _
  | some k => exact (List.take_sublist _ _).trans (List.drop_sublist _ _)

/-! ### de-duplication -/

theorem mem_dedupVals {l : List Val} {x : Val} : x ∈ dedupVals l ↔ x ∈ l := by
  induction l with
  | nil => simp [dedupVals]
  | cons y ys ih =>
    simp only [dedupVals, List.mem_cons, List.mem_filter, ih, bne_iff_ne, ne_eq]
    constructor
    · rintro (h | ⟨h, _⟩)
      · exact Or.inl h
      · exact Or.inr h
    · intro h
      by_cases hxy : x = y
      · exact Or.inl hxy
      · rcases h with h | h
        · exact Or.inl h
        · exact Or.inr ⟨h, hxy⟩

theorem nodup_dedupVals (l : List Val) : (dedupVals l).Nodup := by
  induction l with
  | nil => simp [dedupVals]
  | cons y ys ih =>
    simp only [dedupVals, List.nodup_cons, List.mem_filter, bne_iff_ne, ne_eq, not_and,
      Decidable.not_not]
    exact ⟨fun _ => trivial, ih.filter _⟩

theorem dedupVals_of_nodup {l : List Val} (h : l.Nodup) : dedupVals l = l := by
  induction l with
  | nil => rfl
  | cons y ys ih =>
    have hn := List.nodup_cons.mp h
    simp only [dedupVals, ih hn.2]
    congr 1
    rw [List.filter_eq_self]
    intro a ha
    simp only [bne_iff_ne, ne_eq]
    intro hay
    exact hn.1 (hay ▸ ha)

/-! ### variable length: distinct end nodes -/

theorem dedupNat_filter (p : Nat → Bool) (l : List Nat) :
    dedupNat (l.filter p) = (dedupNat l).filter p := by
  induction l with
  | nil => rfl
  | cons x xs ih =>
    by_cases hp : p x = true
    · simp only [List.filter_cons, hp, if_true, dedupNat, ih, List.filter_filter]
      congr 1
      apply List.filter_congr
      intro a _
      exact Bool.and_comm _ _
    · have hp' : p x = false := by simpa using hp
      simp only [List.filter_cons, hp', Bool.false_eq_true, if_false, dedupNat,
        List.filter_filter]
      rw [ih]
      apply List.filter_congr
      intro a _
      by_cases ha : a = x
      · subst ha; simp [hp']
      · simp [ha]

/-- is end node `t` accepted by the node pattern after the variable-length step -/
def endOk (g : Graph) (np : NodePat) (row : Row) (t : Nat) : Bool :=
  match g.node? t with
  | none => false
  | some n => (matchNode np row n).isSome

/-- the per-end function of `stepVar` -/
def endStep (g : Graph) (np : NodePat) (row : Row) (x : Nat × List Nat) : Option (MState × Nat) :=
  match g.node? x.1 with
  | none => none
  | some n =>
    match matchNode np row n with
    | none => none
    | some row2 => some (⟨row2, x.2⟩, x.1)

theorem endStep_snd (g : Graph) (np : NodePat) (row : Row) (x : Nat × List Nat) :
    (endStep g np row x).map (·.2) = if endOk g np row x.1 then some x.1 else none := by
  unfold endStep endOk
  cases g.node? x.1 with
  | none => rfl
  | some n => cases h : matchNode np row n <;> simp [h]

theorem filterMap_map_eq_filter {α β : Type} (F : α → Option β) (snd : β → Nat) (fst : α → Nat)
    (q : Nat → Bool) (h : ∀ x, (F x).map snd = if q (fst x) then some (fst x) else none)
    (l : List α) : (l.filterMap F).map snd = (l.map fst).filter q := by
  induction l with
  | nil => rfl
  | cons x xs ih =>
    have hx := h x
    simp only [List.filterMap_cons, List.map_cons, List.filter_cons]
    cases hF : F x with
    | none =>
      rw [hF] at hx
      by_cases hq : q (fst x) = true
      · simp [hq] at hx
      · simp only [hq, if_false]; exact ih
    | some y =>
      rw [hF] at hx
      by_cases hq : q (fst x) = true
      · simp only [hq, if_true, Option.map_some, Option.some.injEq] at hx
        simp only [hq, if_true, List.map_cons, hx, ih]
      · simp [hq] at hx

/-! ### small helpers used by the property file -/

theorem canonRow_noop (cc : List Bool) (vs : List Val) (h : cc.all (!·) = true) :
    canonRow cc vs = vs := by
  induction cc generalizing vs with
  | nil => cases vs <;> simp [canonRow]
  | cons c cs ih =>
    simp only [List.all_cons, Bool.and_eq_true, Bool.not_eq_true'] at h
    cases vs with
    | nil => simp [canonRow]
    | cons v vs' =>
      have hc : c = false := h.1
      subst hc
      cases v <;> simp [canonRow, ih vs' h.2]

theorem length_filterMap_eq_countP {α β : Type} (f : α → Option β) (l : List α) :
    (l.filterMap f).length = l.countP (fun x => (f x).isSome) := by
  induction l with
  | nil => rfl
  | cons x xs ih =>
    simp only [List.filterMap_cons, List.countP_cons]
    cases h : f x <;> simp [ih]

end SgModel.Cy
