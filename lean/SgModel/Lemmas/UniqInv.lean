import SgModel.Lemmas.Uniq
/-!
The invariant of the unique-constraint bookkeeping and its preservation by the store
functions; for every *checked* write also the two directions of
"refused ⇔ the unconditional write has a duplicate".
-/
namespace SgModel.Uniq

/-- node `n` is live, carries `l` and holds `v` at `key` -/
def Holds (nodes : List Node) (l key : Nat) (v : Val) (n : Nat) : Prop :=
  ∃ x ∈ nodes, x.id = n ∧ l ∈ x.labels ∧ pget x.props key = some v

/-- no two live nodes carrying `l` hold equal values at `key` -/
def UniqL (nodes : List Node) (l key : Nat) : Prop :=
  ∀ a ∈ nodes, ∀ b ∈ nodes, l ∈ a.labels → l ∈ b.labels →
    ∀ v, pget a.props key = some v → pget b.props key = some v → a.id = b.id

structure Inv (s : State) : Prop where
  ids : IdsNodup s.nodes
  lt : ∀ x ∈ s.nodes, x.id < s.next
  exact : ∀ c ∈ s.cons, ∀ v n, (v, n) ∈ c.idx ↔ Holds s.nodes c.label c.key v n
  uniq : ∀ c ∈ s.cons, UniqL s.nodes c.label c.key

theorem mem_unique {l : List Node} (hl : IdsNodup l) {x y : Node} (hx : x ∈ l) (hy : y ∈ l)
    (h : x.id = y.id) : x = y := by
  have h1 := findNode_of_mem hl hx
  have h2 := findNode_of_mem hl hy
  rw [h] at h1; rw [h1] at h2; exact Option.some.inj h2

theorem holder_of_mem {idx : Index} {v : Val} {n : Nat} (h : (v, n) ∈ idx) : ∃ m, holder idx v = some m := by
  cases hh : holder idx v with
  | some m => exact ⟨m, rfl⟩
  | none => exact absurd h (holder_none hh n)

theorem contains_iff {l : List Nat} {x : Nat} : l.contains x = true ↔ x ∈ l := by simp

/-- a watching constraint blocks the write iff another live node holds the value -/
theorem blocked_iff {s : State} (hi : Inv s) {c : Cons} (hc : c ∈ s.cons) (v : Option Val) (n : Nat) :
    blocked c v n = true ↔ ∃ w, v = some w ∧ ∃ m, m ≠ n ∧ Holds s.nodes c.label c.key w m := by
  cases v with
  | none => simp [blocked]
  | some w =>
    simp only [blocked, Option.some.injEq, exists_eq_left']
    cases hh : holder c.idx w with
    | none =>
      simp only [Bool.false_eq_true, false_iff, not_exists, not_and]
      intro m _ hm
      exact holder_none hh m ((hi.exact c hc w m).mpr hm)
    | some h =>
      simp only [ne_eq, decide_not, Bool.not_eq_eq_eq_not, Bool.not_true, decide_eq_false_iff_not]
      have hm := (hi.exact c hc w h).mp (holder_some hh)
      constructor
      · intro hne; exact ⟨h, hne, hm⟩
      · rintro ⟨m, hne, hm'⟩
        obtain ⟨x, hx, hxi, hxl, hxv⟩ := hm
        obtain ⟨y, hy, hyi, hyl, hyv⟩ := hm'
        have := hi.uniq c hc x hx y hy hxl hyl w hxv hyv
        omega

/-! ### property writes -/

theorem inv_writeProp_nodes {s : State} (hi : Inv s) {node : Node} (hn : node ∈ s.nodes) (key : Nat) (v : Option Val)
    {y : Node} :
    y ∈ (writeProp s node key v).nodes ↔
      y = { node with props := pput node.props key v } ∨ (y ∈ s.nodes ∧ y.id ≠ node.id) := by
  simp only [writeProp]
  rw [mem_mapNode hi.ids]
  constructor
  · rintro (⟨x, hx, hxn, rfl⟩ | h)
    · have := mem_unique hi.ids hx hn hxn; subst this; exact Or.inl rfl
    · exact Or.inr h
  · rintro (rfl | h)
    · exact Or.inl ⟨node, hn, rfl, rfl⟩
    · exact Or.inr h

/-- `Holds` after a property write -/
theorem holds_writeProp {s : State} (hi : Inv s) {node : Node} (hn : node ∈ s.nodes) (key : Nat) (v : Option Val)
    (l k : Nat) (w : Val) (m : Nat) :
    Holds (writeProp s node key v).nodes l k w m ↔
      if m = node.id then l ∈ node.labels ∧ (if key = k then v = some w else pget node.props k = some w)
      else Holds s.nodes l k w m := by
  unfold Holds
  by_cases hm : m = node.id
  · simp only [hm, if_true]
    constructor
    · rintro ⟨x, hx, hxi, hxl, hxv⟩
      rcases (inv_writeProp_nodes hi hn key v).mp hx with rfl | ⟨_, hne⟩
      · simp only [pget_pput] at hxv
        refine ⟨hxl, ?_⟩
        by_cases hk : key = k <;> simp_all
      · exact absurd hxi hne
    · rintro ⟨hl, hv⟩
      refine ⟨{ node with props := pput node.props key v }, (inv_writeProp_nodes hi hn key v).mpr (Or.inl rfl), rfl, hl, ?_⟩
      simp only [pget_pput]
      by_cases hk : key = k <;> simp_all
  · simp only [hm, if_false]
    constructor
    · rintro ⟨x, hx, hxi, hxl, hxv⟩
      rcases (inv_writeProp_nodes hi hn key v).mp hx with rfl | ⟨hx', _⟩
      · exact absurd hxi.symm hm
      · exact ⟨x, hx', hxi, hxl, hxv⟩
    · rintro ⟨x, hx, hxi, hxl, hxv⟩
      exact ⟨x, (inv_writeProp_nodes hi hn key v).mpr (Or.inr ⟨hx, by omega⟩), hxi, hxl, hxv⟩

theorem uniqL_iff_holds (nodes : List Node) (l key : Nat) :
    UniqL nodes l key ↔ ∀ v m m', Holds nodes l key v m → Holds nodes l key v m' → m = m' := by
  constructor
  · rintro h v m m' ⟨x, hx, rfl, hxl, hxv⟩ ⟨y, hy, rfl, hyl, hyv⟩
    exact h x hx y hy hxl hyl v hxv hyv
  · intro h a ha b hb hal hbl v hav hbv
    exact h v a.id b.id ⟨a, ha, rfl, hal, hav⟩ ⟨b, hb, rfl, hbl, hbv⟩

/-- the unchecked write keeps everything except possibly uniqueness -/
theorem inv_writeProp_pre {s : State} (hi : Inv s) {node : Node} (hn : node ∈ s.nodes) (key : Nat) (v : Option Val) :
    IdsNodup (writeProp s node key v).nodes
    ∧ (∀ x ∈ (writeProp s node key v).nodes, x.id < (writeProp s node key v).next)
    ∧ (∀ c ∈ (writeProp s node key v).cons, ∀ w m,
        (w, m) ∈ c.idx ↔ Holds (writeProp s node key v).nodes c.label c.key w m) := by
  refine ⟨?_, ?_, ?_⟩
  · simp only [writeProp]
    exact idsNodup_mapNode (f := fun x => { x with props := pput x.props key v }) (fun _ => rfl) _ hi.ids
  · intro x hx
    rcases (inv_writeProp_nodes hi hn key v).mp hx with rfl | ⟨hx', _⟩
    · exact hi.lt node hn
    · exact hi.lt x hx'
  · intro c' hc' w m
    simp only [writeProp, List.mem_map] at hc'
    obtain ⟨c, hc, rfl⟩ := hc'
    have hex := hi.exact c hc
    by_cases hw : watches c node key = true
    · simp only [hw, if_true]
      simp only [watches, Bool.and_eq_true, decide_eq_true_eq, contains_iff] at hw
      obtain ⟨hk, hl⟩ := hw
      rw [holds_writeProp hi hn, mem_ins, mem_rem, hex]
      by_cases hm : m = node.id
      · subst hm
        simp only [if_true, hl, true_and, hk, and_true]
        constructor
        · rintro (⟨⟨x, hx, hxi, _, hxv⟩, hne⟩ | h)
          · have := mem_unique hi.ids hx hn hxi; subst this
            exact absurd hxv (by simpa [hk] using hne)
          · exact h
        · intro h; exact Or.inr h
      · simp only [hm, if_false, and_false, or_false, not_false_eq_true, and_true]
    · have hw' : watches c node key = false := by simpa using hw
      simp only [hw', Bool.false_eq_true, if_false]
      rw [hex, holds_writeProp hi hn]
      by_cases hm : m = node.id
      · subst hm
        simp only [if_true]
        simp only [watches, Bool.and_eq_false_iff, decide_eq_false_iff_not] at hw'
        constructor
        · rintro ⟨x, hx, hxi, hxl, hxv⟩
          have := mem_unique hi.ids hx hn hxi; subst this
          refine ⟨hxl, ?_⟩
          rcases hw' with h | h
          · have : ¬ key = c.key := fun e => h e.symm
            simp [this, hxv]
          · exact absurd (contains_iff.mpr hxl) (by rw [h]; decide)
        · rintro ⟨hl, hv⟩
          rcases hw' with h | h
          · have : ¬ key = c.key := fun e => h e.symm
            simp only [this, if_false] at hv
            exact ⟨node, hn, rfl, hl, hv⟩
          · exact absurd (contains_iff.mpr hl) (by rw [h]; decide)
      · simp only [hm, if_false]

/-- a property write that no watching constraint blocks keeps the invariant -/
theorem inv_writeProp {s : State} (hi : Inv s) {node : Node} (hn : node ∈ s.nodes) (key : Nat) (v : Option Val)
    (hb : s.cons.any (fun c => watches c node key && blocked c v node.id) = false) :
    Inv (writeProp s node key v) := by
  obtain ⟨h1, h2, h3⟩ := inv_writeProp_pre hi hn key v
  refine ⟨h1, h2, h3, ?_⟩
  intro c' hc'
  have hc'' := hc'
  simp only [writeProp, List.mem_map] at hc''
  obtain ⟨c, hc, hcc⟩ := hc''
  have hlk : c'.label = c.label ∧ c'.key = c.key := by
    rw [← hcc]; split <;> simp
  rw [hlk.1, hlk.2, uniqL_iff_holds]
  intro w m m' hm hm'
  rw [holds_writeProp hi hn] at hm hm'
  have hu := (uniqL_iff_holds _ _ _).mp (hi.uniq c hc)
  have hnb : ∀ m, m ≠ node.id → c.label ∈ node.labels → key = c.key → v = some w →
      Holds s.nodes c.label c.key w m → False := by
    intro m hne hl hk hv hh
    have : (watches c node key && blocked c v node.id) = true := by
      simp only [Bool.and_eq_true]
      refine ⟨by simp [watches, hk, hl], ?_⟩
      exact (blocked_iff hi hc v node.id).mpr ⟨w, hv, m, hne, hh⟩
    have h2 := List.any_eq_false.mp hb c hc
    simp [this] at h2
  by_cases h1 : m = node.id <;> by_cases h2 : m' = node.id
  · omega
  · simp only [h1, if_true, h2, if_false] at hm hm'
    by_cases hk : key = c.key
    · simp only [hk, if_true] at hm
      exact (hnb m' h2 hm.1 hk hm.2 hm').elim
    · simp only [hk, if_false] at hm
      exact hu w m m' ⟨node, hn, h1.symm, hm.1, hm.2⟩ hm'
  · simp only [h1, if_false, h2, if_true] at hm hm'
    by_cases hk : key = c.key
    · simp only [hk, if_true] at hm'
      exact (hnb m h1 hm'.1 hk hm'.2 hm).elim
    · simp only [hk, if_false] at hm'
      exact hu w m m' hm ⟨node, hn, h2.symm, hm'.1, hm'.2⟩
  · simp only [h1, h2, if_false] at hm hm'
    exact hu w m m' hm hm'

/-- conversely: if a watching constraint blocks, the unconditional write has a duplicate -/
theorem dup_of_blocked_writeProp {s : State} (hi : Inv s) {node : Node} (hn : node ∈ s.nodes) (key : Nat)
    (v : Option Val)
    (hb : s.cons.any (fun c => watches c node key && blocked c v node.id) = true) :
    ∃ c ∈ s.cons, ¬ UniqL (writeProp s node key v).nodes c.label c.key := by
  obtain ⟨c, hc, hwb⟩ := List.any_eq_true.mp hb
  simp only [Bool.and_eq_true] at hwb
  obtain ⟨hw, hbl⟩ := hwb
  simp only [watches, Bool.and_eq_true, decide_eq_true_eq, contains_iff] at hw
  obtain ⟨w, hv, m, hne, hh⟩ := (blocked_iff hi hc v node.id).mp hbl
  refine ⟨c, hc, ?_⟩
  rw [uniqL_iff_holds]
  intro hu
  have h1 : Holds (writeProp s node key v).nodes c.label c.key w node.id := by
    rw [holds_writeProp hi hn]; simp [hw.1, hw.2, hv]
  have h2 : Holds (writeProp s node key v).nodes c.label c.key w m := by
    rw [holds_writeProp hi hn]; simp [hne, hh]
  exact hne (hu w m node.id h2 h1)

end SgModel.Uniq
