import SgModel.Lemmas.RespCodec
/-!
Every strict prefix of an encoded value makes the repaired decoder ask for more data
(`decodeD_prefix`).  Core Lean only.
-/
namespace SgModel.Resp

def Res.needsMore (r : Res) : Prop := r.out = .none ∨ r.out = .incomplete

theorem hdr_split (b : UInt8) (l body p t : Bytes)
    (he : p ++ t = b :: (l ++ CR :: LF :: body)) (ht : t ≠ []) :
    (∃ t', t' ≠ [] ∧ p ++ t' = (b :: l) ++ [CR, LF])
    ∨ (∃ q, p = b :: (l ++ CR :: LF :: q) ∧ q ++ t = body) := by
  have he' : p ++ t = ((b :: l) ++ [CR, LF]) ++ body := by
    rw [he]; simp
  rcases List.append_eq_append_iff.mp he' with ⟨a', h1, h2⟩ | ⟨c', h1, h2⟩
  · cases a' with
    | nil =>
      right
      refine ⟨[], ?_, ?_⟩
      · simp at h1; rw [← h1]
      · simpa using h2
    | cons x xs =>
      left
      exact ⟨x :: xs, by simp, h1.symm⟩
  · right
    refine ⟨c', ?_, h2.symm⟩
    rw [h1]; simp

theorem decodeD_nil (d : Nat) : decodeD d [] = ⟨.none, [], 0, 0⟩ := by
  cases d <;> rfl

/-- no complete header line and the type byte is not `*`: `Ok(None)` -/
theorem decodeD_noLine_ne42 (d : Nat) (b : UInt8) (bs : Bytes) (hb : b ≠ 42)
    (h : readLine (b :: bs) = none) : (decodeD d (b :: bs)).out = .none := by
  by_cases h43 : b = 43
  · subst h43; rw [decodeD_43]; simp [statusLine, h]
  by_cases h45 : b = 45
  · subst h45; rw [decodeD_45]; simp [statusLine, h]
  by_cases h58 : b = 58
  · subst h58; rw [decodeD_58]; simp [decodeInt, h]
  by_cases h36 : b = 36
  · subst h36; rw [decodeD_36]; simp [decodeBulk, h]
  by_cases h95 : b = 95
  · subst h95; rw [decodeD_95]; simp [decodeNull, h]
  have : isTypeByte b = false := by simp [isTypeByte, h43, h45, h58, h36, hb, h95]
  rw [decodeD_inline d b bs this]; simp [decodeInline, h]

/-- a strict prefix of `b :: l ++ CRLF` with `b` a type byte other than `*` -/
theorem decodeD_line_prefix (d : Nat) (b : UInt8) (l p t : Bytes) (hb : b ≠ 42) (hbc : b ≠ CR)
    (hl : ∀ c ∈ l, c ≠ CR) (ht : t ≠ []) (he : p ++ t = (b :: l) ++ [CR, LF]) :
    (decodeD d p).out = .none := by
  have hr := readLine_strict_prefix (b :: l) p t (by
    intro c hc; simp only [List.mem_cons] at hc
    rcases hc with h | h
    · rw [h]; exact hbc
    · exact hl c h) ht he
  cases p with
  | nil => rw [decodeD_nil]
  | cons x xs =>
    have : x = b := by simp at he; exact he.1
    subst this
    exact decodeD_noLine_ne42 d x xs hb hr

theorem decodeBulk_short (n : Nat) (q : Bytes) (hn : n < 2 ^ 63) (hq : q.length < n + 2) :
    (decodeBulk (36 :: (natToDec n ++ CR :: LF :: q))).out = .incomplete := by
  have h := readLine_append (36 :: natToDec n) q (by
    intro c hc; simp only [List.mem_cons] at hc
    rcases hc with h | h
    · rw [h]; decide
    · exact natToDec_noCR _ c h)
  simp only [List.cons_append] at h
  have hp := parseI64_natToDec n hn
  have h1 : ((n : Int) = -1) = False := by simp
  have h2 : ((n : Int) < 0) = False := by simp
  simp only [decodeBulk, h, List.tail_cons, hp, h1, h2, if_false, Int.toNat_natCast, hq, if_true]

theorem encodeList_nil_of_append {q t : Bytes} {vs : List RV} (he : q ++ t = encodeList vs)
    (hvs : vs = []) : t = [] := by
  subst hvs; simp [encodeList] at he; exact he.2

theorem elems_prefix (dec : Bytes → Res) (push : Nat) (vs : List RV) :
    ∀ (q t : Bytes), t ≠ [] → q ++ t = encodeList vs →
    (∀ v ∈ vs, ∀ r, (dec (encode v ++ r)).out = .val (sanitize v) ∧ (dec (encode v ++ r)).rest = r) →
    (∀ v ∈ vs, ∀ p' t', t' ≠ [] → p' ++ t' = encode v → (dec p').needsMore) →
    (elems dec push vs.length q).out = .incomplete := by
  induction vs with
  | nil =>
    intro q t ht he _ _
    simp [encodeList] at he
    exact absurd he.2 ht
  | cons v vs ih =>
    intro q t ht he hdec hpre
    simp only [encodeList] at he
    have hdec' := fun w hw => hdec w (List.mem_cons_of_mem _ hw)
    have hpre' := fun w hw => hpre w (List.mem_cons_of_mem _ hw)
    -- either q stops inside `encode v`, or it covers it
    have key : (∃ a', a' ≠ [] ∧ q ++ a' = encode v)
        ∨ (∃ c', q = encode v ++ c' ∧ c' ++ t = encodeList vs) := by
      rcases List.append_eq_append_iff.mp he with ⟨a', h1, h2⟩ | ⟨c', h1, h2⟩
      · cases a' with
        | nil => right; exact ⟨[], by simpa using h1.symm, by simpa using h2⟩
        | cons x xs => left; exact ⟨x :: xs, by simp, h1.symm⟩
      · right; exact ⟨c', h1, h2.symm⟩
    rcases key with ⟨a', ha, hq⟩ | ⟨c', hq, hc⟩
    · have hm := hpre v (by simp) q a' ha hq
      simp only [List.length_cons, elems]
      rcases hm with hm | hm <;> simp [hm]
    · have hv := hdec v (by simp) c'
      have hrec := ih c' t ht hc hdec' hpre'
      simp only [List.length_cons, elems, hq, hv.1, hv.2, hrec]

theorem decodeD_prefix : ∀ (d : Nat) (v : RV), v.depth ≤ d → v.sound = true →
    ∀ p t, t ≠ [] → p ++ t = encode v → (decodeD d p).needsMore := by
  intro d
  induction d with
  | zero =>
    intro v hd hs p t ht he
    cases v with
    | array vs => simp only [RV.depth] at hd; omega
    | simple s =>
      left; exact decodeD_line_prefix 0 43 (s.map sanit) p t (by decide) (by decide) (sanit_noCR s) ht
        (by simpa [encode] using he)
    | error s =>
      left; exact decodeD_line_prefix 0 45 (s.map sanit) p t (by decide) (by decide) (sanit_noCR s) ht
        (by simpa [encode] using he)
    | int i =>
      left; exact decodeD_line_prefix 0 58 (intToDec i) p t (by decide) (by decide) (intToDec_noCR i) ht
        (by simpa [encode] using he)
    | null =>
      left; exact decodeD_line_prefix 0 95 [] p t (by decide) (by decide) (by simp) ht
        (by simpa [encode] using he)
    | bulk b =>
      cases b with
      | none =>
        left; exact decodeD_line_prefix 0 36 [45, 49] p t (by decide) (by decide) (by decide) ht
          (by simpa [encode] using he)
      | some dd =>
        simp only [RV.sound, decide_eq_true_eq] at hs
        have he' : p ++ t = 36 :: (natToDec dd.length ++ CR :: LF :: (dd ++ [CR, LF])) := by
          simpa [encode] using he
        rcases hdr_split 36 (natToDec dd.length) (dd ++ [CR, LF]) p t he' ht with
          ⟨t', ht', hp⟩ | ⟨q, hp, hq⟩
        · left; exact decodeD_line_prefix 0 36 _ p t' (by decide) (by decide) (natToDec_noCR _) ht' hp
        · right
          rw [hp, decodeD_36]
          apply decodeBulk_short _ _ hs
          have : q.length + t.length = dd.length + 2 := by
            have := congrArg List.length hq; simpa using this
          have : 0 < t.length := List.length_pos_iff.mpr ht
          omega
  | succ d ih =>
    intro v hd hs p t ht he
    cases v with
    | array vs =>
      simp only [RV.sound, Bool.and_eq_true, decide_eq_true_eq] at hs
      simp only [RV.depth] at hd
      have he' : p ++ t = 42 :: (natToDec vs.length ++ CR :: LF :: encodeList vs) := by
        simpa [encode] using he
      rcases hdr_split 42 (natToDec vs.length) (encodeList vs) p t he' ht with
        ⟨t', ht', hp⟩ | ⟨q, hp, hq⟩
      · left
        have hr := readLine_strict_prefix (42 :: natToDec vs.length) p t' (by
          intro c hc; simp only [List.mem_cons] at hc
          rcases hc with h | h
          · rw [h]; decide
          · exact natToDec_noCR _ c h) ht' hp
        cases p with
        | nil => rw [decodeD_nil]
        | cons x xs =>
          have : x = 42 := by simp at hp; exact hp.1
          subst this
          rw [decodeD_42_noLine d xs hr]
      · right
        have hline := readLine_append (42 :: natToDec vs.length) q (by
          intro c hc; simp only [List.mem_cons] at hc
          rcases hc with h | h
          · rw [h]; decide
          · exact natToDec_noCR _ c h)
        simp only [List.cons_append] at hline
        have hel := elems_prefix (decodeD d) PUSH_COST vs q t ht hq
          (fun v hv r => decodeD_encode d v (by have := depth_le_of_mem hv; omega)
            (sound_of_mem hs.2 hv) r)
          (fun v hv p' t' ht' he' => ih v (by have := depth_le_of_mem hv; omega)
            (sound_of_mem hs.2 hv) p' t' ht' he')
        rw [hp, decodeD_42_succ d _ _ _ vs.length hline
          (by simpa using parseUsize_natToDec vs.length hs.1)]
        simp only [hel, arrOut]
    | simple s =>
      left; exact decodeD_line_prefix _ 43 (s.map sanit) p t (by decide) (by decide) (sanit_noCR s) ht
        (by simpa [encode] using he)
    | error s =>
      left; exact decodeD_line_prefix _ 45 (s.map sanit) p t (by decide) (by decide) (sanit_noCR s) ht
        (by simpa [encode] using he)
    | int i =>
      left; exact decodeD_line_prefix _ 58 (intToDec i) p t (by decide) (by decide) (intToDec_noCR i) ht
        (by simpa [encode] using he)
    | null =>
      left; exact decodeD_line_prefix _ 95 [] p t (by decide) (by decide) (by simp) ht
        (by simpa [encode] using he)
    | bulk b =>
      cases b with
      | none =>
        left; exact decodeD_line_prefix _ 36 [45, 49] p t (by decide) (by decide) (by decide) ht
          (by simpa [encode] using he)
      | some dd =>
        simp only [RV.sound, decide_eq_true_eq] at hs
        have he' : p ++ t = 36 :: (natToDec dd.length ++ CR :: LF :: (dd ++ [CR, LF])) := by
          simpa [encode] using he
        rcases hdr_split 36 (natToDec dd.length) (dd ++ [CR, LF]) p t he' ht with
          ⟨t', ht', hp⟩ | ⟨q, hp, hq⟩
        · left; exact decodeD_line_prefix _ 36 _ p t' (by decide) (by decide) (natToDec_noCR _) ht' hp
        · right
          rw [hp, decodeD_36]
          apply decodeBulk_short _ _ hs
          have : q.length + t.length = dd.length + 2 := by
            have := congrArg List.length hq; simpa using this
          have : 0 < t.length := List.length_pos_iff.mpr ht
          omega

end SgModel.Resp
