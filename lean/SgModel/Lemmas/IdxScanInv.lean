import SgModel.Lemmas.IdxScan
/-!
The store invariant of C02: node ids are unique and every property index holds exactly the
(value, node) pairs of the live nodes that carry its label and its key.  Frame lemmas for
node lookup under the write operations.
-/
namespace SgModel.IdxScan

/-! ### association-list properties -/

theorem lookup_filter_ne (ps : List (Nat × Val)) (k k' : Nat) :
    lookup (ps.filter (fun p => p.1 != k)) k' = if k' = k then none else lookup ps k' := by
  induction ps with
  | nil => simp [lookup]
  | cons p rest ih =>
    obtain ⟨k0, v0⟩ := p
    by_cases h0 : k0 = k
    · subst h0
      simp only [List.filter, bne_self_eq_false, ih, lookup]
      by_cases hk : k' = k0
      · simp [hk]
      · have : ¬ k0 = k' := fun h => hk h.symm
        simp [hk, this]
    · have : (k0 != k) = true := by simpa using h0
      simp only [List.filter, this, lookup, ih]
      by_cases hk : k' = k
      · subst hk; simp [h0]
      · simp [hk]

theorem lookup_setKey (ps : List (Nat × Val)) (k k' : Nat) (v : Val) :
    lookup (setKey ps k v) k' = if k' = k then some v else lookup ps k' := by
  simp only [setKey, lookup, lookup_filter_ne]
  by_cases h : k' = k
  · subst h; simp
  · have : ¬ k = k' := fun h' => h h'.symm
    simp [h, this]

theorem lookup_eraseKey (ps : List (Nat × Val)) (k k' : Nat) :
    lookup (eraseKey ps k) k' = if k' = k then none else lookup ps k' := lookup_filter_ne ps k k'

/-! ### node lookup -/

theorem nodeAt_some_id {s : St} {id : Nat} {n : Node} (h : nodeAt s id = some n) : n.id = id := by
  have := List.find?_some h
  simpa using this

theorem nodeAt_mem {s : St} {id : Nat} {n : Node} (h : nodeAt s id = some n) : n ∈ s.nodes :=
  List.mem_of_find?_eq_some h

theorem find_upd (l : List Node) (id id' : Nat) (f : Node → Node) (hf : ∀ n, (f n).id = n.id) :
    (l.map (fun n => if n.id = id then f n else n)).find? (fun n => n.id == id') =
      (l.find? (fun n => n.id == id')).map (fun n => if n.id = id then f n else n) := by
  induction l with
  | nil => rfl
  | cons a rest ih =>
    simp only [List.map_cons, List.find?_cons]
    have : ((if a.id = id then f a else a).id == id') = (a.id == id') := by
      split <;> simp [hf]
    rw [this]
    cases a.id == id' <;> simp [ih]

theorem find_filter_ne (l : List Node) (id id' : Nat) :
    (l.filter (fun n => n.id != id)).find? (fun n => n.id == id') =
      if id' = id then none else l.find? (fun n => n.id == id') := by
  induction l with
  | nil => simp
  | cons a rest ih =>
    by_cases ha : a.id = id
    · have : (a.id != id) = false := by simp [ha]
      simp only [List.filter, this, ih, List.find?_cons]
      by_cases h : id' = id
      · simp [h]
      · have : (a.id == id') = false := by simp [ha]; exact fun h' => h h'.symm
        simp [h, this]
    · have : (a.id != id) = true := by simpa using ha
      simp only [List.filter, this, List.find?_cons, ih]
      by_cases h : id' = id
      · subst h
        have : (a.id == id') = false := by simpa using ha
        simp [this]
      · simp [h]

theorem nodeAt_none_not_mem {s : St} {id : Nat} (h : nodeAt s id = none) : id ∉ s.nodes.map (·.id) := by
  intro hm
  obtain ⟨n, hn, rfl⟩ := List.mem_map.mp hm
  have := List.find?_eq_none.mp h n hn
  simp at this

/-! ### the invariant -/

def Holds (s : St) (l k : Nat) (v : Val) (id : Nat) : Prop :=
  ∃ n, nodeAt s id = some n ∧ l ∈ n.labels ∧ lookup n.props k = some v

def IxOk (s : St) (ix : Ix) : Prop :=
  WF ix.tree ∧ ∀ v id, (v, id) ∈ entries ix.tree ↔ Holds s ix.label ix.key v id

def Inv (s : St) : Prop :=
  (s.nodes.map (·.id)).Nodup ∧ ∀ ix ∈ s.ixs, IxOk s ix

theorem entries_removeAll {t : Index} (hs : KeysSorted t) (n : Node) (key : Nat) (v' : Val) (i' : Nat) :
    (v', i') ∈ entries (removeAll n key t) ↔
      (v', i') ∈ entries t ∧ ¬(i' = n.id ∧ lookup n.props key = some v') := by
  unfold removeAll
  cases h : lookup n.props key with
  | none => simp
  | some o =>
    simp only [mem_entries_remove hs, Option.some.injEq]
    constructor
    · rintro ⟨h1, h2⟩; exact ⟨h1, fun ⟨a, b⟩ => h2 ⟨b.symm, a⟩⟩
    · rintro ⟨h1, h2⟩; exact ⟨h1, fun ⟨a, b⟩ => h2 ⟨b, a.symm⟩⟩

theorem entries_insertAll (t : Index) (n : Node) (key : Nat) (v' : Val) (i' : Nat) :
    (v', i') ∈ entries (insertAll n key t) ↔
      (i' = n.id ∧ lookup n.props key = some v') ∨ (v', i') ∈ entries t := by
  unfold insertAll
  cases h : lookup n.props key with
  | none => simp
  | some o =>
    simp only [mem_entries_insert, Option.some.injEq]
    constructor
    · rintro (⟨a, b⟩ | h1)
      · exact Or.inl ⟨b, a.symm⟩
      · exact Or.inr h1
    · rintro (⟨a, b⟩ | h1)
      · exact Or.inl ⟨b.symm, a⟩
      · exact Or.inr h1

theorem wf_removeAll {t : Index} (h : WF t) (n : Node) (key : Nat) : WF (removeAll n key t) := by
  unfold removeAll; split
  · exact wf_remove h _ _
  · exact h

theorem wf_insertAll {t : Index} (h : WF t) (n : Node) (key : Nat) : WF (insertAll n key t) := by
  unfold insertAll; split
  · exact wf_insert h _ _
  · exact h

theorem inv_init : Inv {} := by
  refine ⟨by simp, ?_⟩
  intro ix h; simp at h

end SgModel.IdxScan
