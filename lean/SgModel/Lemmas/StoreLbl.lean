import SgModel.Lemmas.StoreIdx
/-!
Helper lemmas for the graph-store model (C06), part 8: the label index invariant (I5) is
preserved by every step.
-/
namespace SgModel.Store

theorem getNode_updNode_eq (s : State) (n m : Nat) (f : NodeRec → NodeRec) :
    getNode (updNode s n f) m = if m = n then (getNode s n).map f else getNode s m := by
  unfold updNode
  cases hg : getNode s n with
  | none =>
    by_cases hm : m = n
    · subst hm; simp [hg]
    · simp [hm]
  | some r =>
    show (s.nodes.set n (some (f r))).getD m none = _
    rw [getD_set_eq]
    by_cases hm : m = n
    · subst hm
      have hl : m < s.nodes.length := by
        apply Nat.lt_of_not_le
        intro hle
        simp [getNode, List.getD_eq_getElem?_getD, List.getElem?_eq_none hle] at hg
      simp [hl]
    · simp [hm, getNode]

theorem updNode_labelIdx (s : State) (n : Nat) (f : NodeRec → NodeRec) :
    (updNode s n f).labelIdx = s.labelIdx := (updNode_fields s n f).2.2.2.2.2.2.2.2.2.2.2.2

/-- node records change but every node keeps its label set -/
theorem LblInv.same_labels {s s' : State} (h : LblInv s) (hl : s'.labelIdx = s.labelIdx)
    (hn : ∀ n, (getNode s' n).map (·.labels) = (getNode s n).map (·.labels)) : LblInv s' := by
  refine ⟨fun l n => ?_, fun l => by rw [hl]; exact h.nodup l⟩
  rw [hl, h.exact l n]
  have := hn n
  constructor
  · rintro ⟨r, hr, hm⟩
    rw [hr] at this
    cases hg : getNode s' n with
    | none => rw [hg] at this; cases this
    | some r' =>
      rw [hg] at this
      simp only [Option.map_some, Option.some.injEq] at this
      exact ⟨r', rfl, by rw [this]; exact hm⟩
  · rintro ⟨r', hr', hm⟩
    rw [hr'] at this
    cases hg : getNode s n with
    | none => rw [hg] at this; cases this
    | some r =>
      rw [hg] at this
      simp only [Option.map_some, Option.some.injEq] at this
      exact ⟨r, rfl, by rw [← this]; exact hm⟩

theorem lblInv_setNodeProp {s : State} (h : LblInv s) (n k v : Nat) :
    LblInv (setNodeProp s n k v).1 := by
  unfold setNodeProp
  cases hg : getNode s n with
  | none => exact h
  | some r =>
    refine h.same_labels (updNode_labelIdx s n _) (fun m => ?_)
    show (getNode (updNode s n _) m).map _ = _
    rw [getNode_updNode_eq]
    by_cases hm : m = n
    · subst hm; simp [hg]
    · simp [hm]

theorem lblInv_removeNodeProp {s : State} (h : LblInv s) (n k : Nat) :
    LblInv (removeNodeProp s n k).1 := by
  unfold removeNodeProp
  refine h.same_labels (updNode_labelIdx s n _) (fun m => ?_)
  show (getNode (updNode s n _) m).map _ = _
  rw [getNode_updNode_eq]
  by_cases hm : m = n
  · subst hm; cases getNode s m <;> simp
  · simp [hm]

theorem lblInv_addLabel {s : State} (h : LblInv s) (n l : Nat) : LblInv (addLabel s n l).1 := by
  unfold addLabel
  cases hg : getNode s n with
  | none => exact h
  | some r =>
    have hgn : ∀ m, getNode ({ updNode s n (fun r => { r with labels := setInsert r.labels l }) with
        labelIdx := idxInsert s.labelIdx l n } : State) m
        = if m = n then some { r with labels := setInsert r.labels l } else getNode s m := by
      intro m
      show getNode (updNode s n _) m = _
      rw [getNode_updNode_eq, hg]; rfl
    refine ⟨fun l' m => ?_, fun l' => ?_⟩
    · show m ∈ idxGet (idxInsert s.labelIdx l n) l' ↔ _
      rw [idxGet_idxInsert, hgn]
      by_cases hl : l' = l
      · subst hl
        simp only [if_true, mem_setInsert]
        by_cases hm : m = n
        · subst hm
          simp [mem_setInsert]
        · simp only [hm, false_or, if_false]
          exact h.exact l' m
      · simp only [hl, if_false]
        by_cases hm : m = n
        · subst hm
          simp only [if_true, Option.some.injEq, exists_eq_left', mem_setInsert, hl, false_or]
          rw [h.exact l' m, hg]
          simp
        · simp only [hm, if_false]
          exact h.exact l' m
    · show (idxGet (idxInsert s.labelIdx l n) l').Nodup
      rw [idxGet_idxInsert]
      split
      · exact nodup_setInsert _ _ (h.nodup l)
      · exact h.nodup l'

theorem lblInv_removeLabel {s : State} (h : LblInv s) (n l : Nat) :
    LblInv (removeLabel s n l).1 := by
  unfold removeLabel
  cases hg : getNode s n with
  | none => exact h
  | some r =>
    simp only
    split
    · exact h
    · -- the index after the removal (erasing an emptied key changes no lookup)
      have hidx : ∀ l', idxGet (if ((assocGet (idxRemove s.labelIdx l n) l).getD []).isEmpty
            then assocErase (idxRemove s.labelIdx l n) l else idxRemove s.labelIdx l n) l'
          = if l' = l then (idxGet s.labelIdx l).filter (· != n) else idxGet s.labelIdx l' := by
        intro l'
        split
        · rename_i hemp
          have : idxGet (idxRemove s.labelIdx l n) l = [] := by
            simpa [idxGet, List.isEmpty_iff] using hemp
          rw [idxGet_assocErase_empty _ _ _ this, idxGet_idxRemove]
        · rw [idxGet_idxRemove]
      have hgn : ∀ m, getNode (updNode s n (fun r => { r with labels := r.labels.filter (· != l) })) m
          = if m = n then some { r with labels := r.labels.filter (· != l) } else getNode s m := by
        intro m; rw [getNode_updNode_eq, hg]; rfl
      refine ⟨fun l' m => ?_, fun l' => ?_⟩
      · show m ∈ idxGet (if _ then _ else _) l' ↔ ∃ r', getNode (updNode s n _) m = some r' ∧ _
        rw [hidx, hgn]
        by_cases hl : l' = l
        · subst hl
          simp only [if_true, List.mem_filter, bne_iff_ne, ne_eq]
          by_cases hm : m = n
          · subst hm; simp
          · simp only [hm, not_false_eq_true, and_true, if_false]
            exact h.exact l' m
        · simp only [hl, if_false]
          by_cases hm : m = n
          · subst hm
            simp only [if_true, Option.some.injEq, exists_eq_left', List.mem_filter, bne_iff_ne,
              ne_eq, hl, not_false_eq_true, and_true]
            rw [h.exact l' m, hg]; simp
          · simp only [hm, if_false]
            exact h.exact l' m
      · show (idxGet (if _ then _ else _) l').Nodup
        rw [hidx]
        split
        · exact (h.nodup l).filter _
        · exact h.nodup l'

theorem createNode_labelIdx (s : State) (l : Nat) (ps : Props) :
    (createNode s l ps).1.labelIdx = idxInsert s.labelIdx l (allocN s).1 := by
  unfold createNode allocN
  cases s.freeN <;> rfl

theorem lblInv_createNode {s : State} (hI : Inv s) (h : LblInv s) (l : Nat) (ps : Props) :
    LblInv (createNode s l ps).1 := by
  obtain ⟨hg, _, _⟩ := createNode_reads s l ps
  have hdead := (allocN_spec hI).1
  have hnot : ∀ l', (allocN s).1 ∉ idxGet s.labelIdx l' := by
    intro l' hm
    obtain ⟨r, hr, _⟩ := (h.exact l' _).mp hm
    rw [hdead] at hr; cases hr
  refine ⟨fun l' m => ?_, fun l' => ?_⟩
  · rw [createNode_labelIdx, idxGet_idxInsert, hg]
    by_cases hl : l' = l
    · subst hl
      simp only [if_true, mem_setInsert]
      by_cases hm : m = (allocN s).1
      · simp [hm]
      · simp only [hm, false_or, if_false]; exact h.exact l' m
    · simp only [hl, if_false]
      by_cases hm : m = (allocN s).1
      · subst hm
        simp only [if_true, Option.some.injEq, exists_eq_left', List.mem_singleton, hl, iff_false]
        exact hnot l'
      · simp only [hm, if_false]; exact h.exact l' m
  · rw [createNode_labelIdx, idxGet_idxInsert]
    split
    · exact nodup_setInsert _ _ (h.nodup l)
    · exact h.nodup l'

/-! relationship-side writes leave labels alone -/

theorem deleteEdge_lbl (s : State) (e : Nat) :
    (deleteEdge s e).1.labelIdx = s.labelIdx ∧ (deleteEdge s e).1.nodes = s.nodes := by
  unfold deleteEdge
  cases getEdge s e with
  | none => exact ⟨rfl, rfl⟩
  | some q => obtain ⟨a, b, ty, ps⟩ := q; exact ⟨rfl, rfl⟩

theorem foldl_deleteEdge_lbl (ids : List Nat) (s : State) :
    (ids.foldl (fun acc e => (deleteEdge acc e).1) s).labelIdx = s.labelIdx
    ∧ (ids.foldl (fun acc e => (deleteEdge acc e).1) s).nodes = s.nodes := by
  induction ids generalizing s with
  | nil => exact ⟨rfl, rfl⟩
  | cons a as ih =>
    obtain ⟨h1, h2⟩ := ih (deleteEdge s a).1
    obtain ⟨d1, d2⟩ := deleteEdge_lbl s a
    exact ⟨by rw [List.foldl_cons, h1, d1], by rw [List.foldl_cons, h2, d2]⟩

theorem createEdge_lbl (s : State) (a b ty : Nat) (ps : Props) :
    (createEdge s a b ty ps).1.labelIdx = s.labelIdx ∧ (createEdge s a b ty ps).1.nodes = s.nodes := by
  unfold createEdge
  split
  · exact ⟨rfl, rfl⟩
  · split
    · exact ⟨rfl, rfl⟩
    · unfold allocE
      cases s.freeE <;> simp [linkEdge_eq]

theorem createEdgeStub_lbl (s : State) (a b ty : Nat) :
    (createEdgeStub s a b ty).1.labelIdx = s.labelIdx ∧ (createEdgeStub s a b ty).1.nodes = s.nodes := by
  unfold createEdgeStub
  split
  · exact ⟨rfl, rfl⟩
  · unfold allocE
    cases s.freeE <;> simp [linkEdge_eq]

theorem compact_lbl (s : State) :
    (compact s).labelIdx = s.labelIdx ∧ (compact s).nodes = s.nodes := by
  unfold compact; split <;> exact ⟨rfl, rfl⟩

/-- removing a node from the set of each of its labels -/
theorem idxGet_foldl_idxRemove (ls : List Nat) (m : List (Nat × List Nat)) (n l' x : Nat) :
    x ∈ idxGet (ls.foldl (fun m l => idxRemove m l n) m) l'
      ↔ x ∈ idxGet m l' ∧ ¬ (x = n ∧ l' ∈ ls) := by
  induction ls generalizing m with
  | nil => simp
  | cons a as ih =>
    rw [List.foldl_cons, ih, idxGet_idxRemove]
    by_cases hl : l' = a
    · subst hl
      simp only [if_true, List.mem_filter, bne_iff_ne, ne_eq, List.mem_cons, true_or, and_true]
      constructor
      · rintro ⟨⟨h1, h2⟩, _⟩; exact ⟨h1, h2⟩
      · rintro ⟨h1, h2⟩; exact ⟨⟨h1, h2⟩, fun hh => h2 hh.1⟩
    · simp only [hl, if_false, List.mem_cons, false_or]

theorem nodup_foldl_idxRemove (ls : List Nat) (m : List (Nat × List Nat)) (n l' : Nat)
    (h : ∀ l, (idxGet m l).Nodup) : (idxGet (ls.foldl (fun m l => idxRemove m l n) m) l').Nodup := by
  induction ls generalizing m with
  | nil => exact h l'
  | cons a as ih =>
    rw [List.foldl_cons]
    apply ih
    intro l
    rw [idxGet_idxRemove]
    split
    · exact (h a).filter _
    · exact h l

theorem lblInv_deleteNode {s : State} (h : LblInv s) (n : Nat) : LblInv (deleteNode s n).1 := by
  unfold deleteNode deleteNodeWith
  cases hn : getNode s n with
  | none => exact h
  | some r =>
    simp only
    obtain ⟨f1, f2⟩ := foldl_deleteEdge_lbl
      ((s.outT.row n).map (·.2) ++ (s.inT.row n).map (·.2)) (dropNode s n r)
    have hd : LblInv (dropNode s n r) := by
      refine ⟨fun l' m => ?_, fun l' => nodup_foldl_idxRemove _ _ _ _ h.nodup⟩
      show m ∈ idxGet (r.labels.foldl _ s.labelIdx) l' ↔ _
      rw [idxGet_foldl_idxRemove, getNode_dropNode, h.exact l' m]
      by_cases hm : m = n
      · subst hm
        simp only [if_true]
        constructor
        · rintro ⟨⟨r', hr', hl'⟩, hnot⟩
          exfalso
          apply hnot
          rw [hn] at hr'
          simp only [Option.some.injEq] at hr'
          first
            | exact ⟨rfl, by rw [hr']; exact hl'⟩
            | exact ⟨True.intro, by rw [hr']; exact hl'⟩
            | (rw [hr']; exact hl')
        · rintro ⟨r', hr', _⟩; cases hr'
      · simp [hm]
    exact hd.frame f1 f2

theorem lblInv_step {s : State} (hI : Inv s) (h : LblInv s) (op : Op) : LblInv (step s op).1 := by
  cases op with
  | mkN l => exact lblInv_createNode hI h l []
  | mkNP l k v => exact lblInv_createNode hI h l [(k, v)]
  | mkNS l => exact lblInv_createNode hI h l []
  | mkE a b ty => exact h.frame (createEdge_lbl s a b ty []).1 (createEdge_lbl s a b ty []).2
  | mkEP a b ty k v => exact h.frame (createEdge_lbl s a b ty _).1 (createEdge_lbl s a b ty _).2
  | mkES a b ty => exact h.frame (createEdgeStub_lbl s a b ty).1 (createEdgeStub_lbl s a b ty).2
  | delE e => exact h.frame (deleteEdge_lbl s e).1 (deleteEdge_lbl s e).2
  | delN n => exact lblInv_deleteNode h n
  | addL n l => exact lblInv_addLabel h n l
  | rmL n l => exact lblInv_removeLabel h n l
  | setNP n k v => exact lblInv_setNodeProp h n k v
  | rmNP n k => exact lblInv_removeNodeProp h n k
  | setEP e k v =>
    show LblInv (setEdgeProp s e k v).1
    unfold setEdgeProp; split <;> exact h.frame rfl rfl
  | rmEP e k =>
    show LblInv (removeEdgeProp s e k).1
    unfold removeEdgeProp; split <;> exact h.frame rfl rfl
  | compact => exact h.frame (compact_lbl s).1 (compact_lbl s).2
  | finish =>
    show LblInv (finish s)
    exact h.frame (compact_lbl s).1 (compact_lbl s).2
  | clear => exact lblInv_init

theorem lblInv_run (ops : List Op) : LblInv (run ops) := by
  have : ∀ (ops : List Op) (s : State), Inv s → LblInv s →
      LblInv (ops.foldl (fun s op => (step s op).1) s) := by
    intro ops
    induction ops with
    | nil => intro s _ h; exact h
    | cons op rest ih => intro s hI h; exact ih _ (inv_step hI op) (lblInv_step hI h op)
  exact this ops init inv_init lblInv_init

end SgModel.Store
