import SgModel.Lemmas.RespPrefix
/-!
The connection loop on a stream of frames delivered in arbitrary chunks (`feedAll_frames`).
Core Lean only.
-/
namespace SgModel.Resp

/-- `bs` is read by the top-level decoder as exactly the value `v`, whatever follows it, and
every strict prefix of `bs` leaves the buffer untouched and asks for more -/
def Framed (bs : Bytes) (v : RV) : Prop :=
  bs ≠ []
  ∧ (∀ rest, (decode (bs ++ rest)).out = .val v ∧ (decode (bs ++ rest)).rest = rest)
  ∧ (∀ p t, t ≠ [] → p ++ t = bs → (decode p).out = .more ∧ (decode p).rest = p)

theorem decode_of_val {buf : Bytes} {v : RV} {r : Bytes}
    (h1 : (decodeD MAX_DEPTH buf).out = .val v) (h2 : (decodeD MAX_DEPTH buf).rest = r) :
    (decode buf).out = .val v ∧ (decode buf).rest = r := by
  simp [decode, h1, h2]

theorem decode_of_needsMore {buf : Bytes} (h : (decodeD MAX_DEPTH buf).needsMore) :
    (decode buf).out = .more ∧ (decode buf).rest = buf := by
  rcases h with h | h <;> simp [decode, h]

mutual
theorem sanitize_id : ∀ v : RV, v.clean = true → sanitize v = v
  | .simple s, h => by simp only [RV.clean] at h; simp [sanitize, sanit_id_of_noCRLF s h]
  | .error s, h => by simp only [RV.clean] at h; simp [sanitize, sanit_id_of_noCRLF s h]
  | .int _, _ => rfl
  | .bulk _, _ => rfl
  | .null, _ => rfl
  | .array vs, h => by
    simp only [RV.clean] at h
    simp [sanitize, sanitizeList_id vs h]
theorem sanitizeList_id : ∀ vs : List RV, RV.cleanList vs = true → sanitizeList vs = vs
  | [], _ => rfl
  | v :: vs, h => by
    simp only [RV.cleanList, Bool.and_eq_true] at h
    simp [sanitizeList, sanitize_id v h.1, sanitizeList_id vs h.2]
end

theorem encode_ne_nil (v : RV) : encode v ≠ [] := by
  cases v with
  | bulk b => cases b <;> simp [encode]
  | _ => simp [encode]

theorem framed_resp (v : RV) (h : v.wf = true) : Framed (encode v) v := by
  simp only [RV.wf, Bool.and_eq_true, decide_eq_true_eq] at h
  obtain ⟨⟨hs, hc⟩, hd⟩ := h
  refine ⟨encode_ne_nil v, ?_, ?_⟩
  · intro rest
    have := decodeD_encode MAX_DEPTH v hd hs rest
    rw [sanitize_id v hc] at this
    exact decode_of_val this.1 this.2
  · intro p t ht he
    exact decode_of_needsMore (decodeD_prefix MAX_DEPTH v hd hs p t ht he)

theorem framed_inline (l : Bytes) (h : (Frame.inline l).wf = true) :
    Framed (Frame.inline l).bytes (Frame.inline l).value := by
  simp only [Frame.wf, Bool.and_eq_true, List.all_eq_true, bne_iff_ne, ne_eq] at h
  obtain ⟨⟨⟨h1, h2⟩, h3⟩, h4⟩ := h
  cases l with
  | nil => simp at h1
  | cons b bs =>
    simp only [Bool.not_eq_true'] at h1
    have hb42 : b ≠ 42 := by
      intro e; rw [e] at h1; revert h1; decide
    refine ⟨by simp [Frame.bytes], ?_, ?_⟩
    · intro rest
      have hline := readLine_append (b :: bs) rest h2
      simp only [List.cons_append] at hline
      apply decode_of_val (v := (Frame.inline (b :: bs)).value) (r := rest)
      · simp only [Frame.bytes, List.cons_append, List.append_assoc, List.nil_append]
        rw [decodeD_inline _ b _ h1]
        simp only [decodeInline, hline, h3, if_true, Frame.value]
        split at h4
        · rename_i t ts heq; simp [heq]
        · cases h4
      · simp only [Frame.bytes, List.cons_append, List.append_assoc, List.nil_append]
        rw [decodeD_inline _ b _ h1]
        simp only [decodeInline, hline, h3, if_true]
        split at h4
        · rename_i t ts heq; simp [heq]
        · cases h4
    · intro p t ht he
      apply decode_of_needsMore
      left
      have hr := readLine_strict_prefix (b :: bs) p t h2 ht (by simpa [Frame.bytes] using he)
      cases p with
      | nil => rw [decodeD_nil]
      | cons x xs =>
        have : x = b := by simp [Frame.bytes] at he; exact he.1
        subst this
        exact decodeD_noLine_ne42 _ x xs hb42 hr

/-! ### the stream of a list of framed items -/

abbrev Item := Bytes × RV

def stream (gs : List Item) : Bytes := (gs.map (·.1)).flatten

def evs (gs : List Item) : List Event := gs.map (fun g => Event.cmd g.2)

/-- what may be left in the connection buffer: nothing, or a strict prefix of the next frame -/
def Pending (buf : Bytes) (gs : List Item) : Prop :=
  buf = [] ∨ ∃ g gs' t', gs = g :: gs' ∧ t' ≠ [] ∧ buf ++ t' = g.1

theorem drain_stream (gs : List Item) (hf : ∀ g ∈ gs, Framed g.1 g.2) :
    ∀ (fuel : Nat) (y t : Bytes), y.length < fuel → y ++ t = stream gs →
    ∃ m p, drainWith decode fuel y = (evs (gs.take m), p)
      ∧ p ++ t = stream (gs.drop m) ∧ Pending p (gs.drop m) := by
  induction gs with
  | nil =>
    intro fuel y t hfu he
    simp [stream] at he
    obtain ⟨hy, ht⟩ := he
    subst hy
    cases fuel with
    | zero => omega
    | succ f =>
      refine ⟨0, [], ?_, by simp [stream, ht], Or.inl rfl⟩
      have : (decode []).out = .more ∧ (decode []).rest = [] :=
        decode_of_needsMore (Or.inl (by rw [decodeD_nil]))
      simp [drainWith, this.1, this.2, evs]
  | cons g gs ih =>
    intro fuel y t hfu he
    have hg := hf g (by simp)
    obtain ⟨hne, hval, hpre⟩ := hg
    have he' : y ++ t = g.1 ++ stream gs := by simpa [stream] using he
    cases fuel with
    | zero => omega
    | succ f =>
      have key : (∃ a', a' ≠ [] ∧ y ++ a' = g.1) ∨ (∃ c', y = g.1 ++ c' ∧ c' ++ t = stream gs) := by
        rcases List.append_eq_append_iff.mp he' with ⟨a', h1, h2⟩ | ⟨c', h1, h2⟩
        · cases a' with
          | nil => right; exact ⟨[], by simpa using h1.symm, by simpa using h2⟩
          | cons x xs => left; exact ⟨x :: xs, by simp, h1.symm⟩
        · right; exact ⟨c', h1, h2.symm⟩
      rcases key with ⟨a', ha, hq⟩ | ⟨c', hq, hc⟩
      · have hm := hpre y a' ha hq
        refine ⟨0, y, ?_, by simpa using he, Or.inr ⟨g, gs, a', rfl, ha, hq⟩⟩
        simp [drainWith, hm.1, hm.2, evs]
      · have hv := hval c'
        have hlen : c'.length < f := by
          have : 0 < g.1.length := List.length_pos_iff.mpr hne
          have : y.length = g.1.length + c'.length := by rw [hq]; simp
          omega
        obtain ⟨m, p, h1, h2, h3⟩ := ih (fun x hx => hf x (List.mem_cons_of_mem _ hx)) f c' t hlen hc
        refine ⟨m + 1, p, ?_, by simpa using h2, by simpa using h3⟩
        simp only [drainWith, hq, hv.1, hv.2, h1, evs, List.take_succ_cons, List.map_cons]

theorem stream_nil_of_framed (gs : List Item) (hf : ∀ g ∈ gs, Framed g.1 g.2)
    (h : stream gs = []) : gs = [] := by
  cases gs with
  | nil => rfl
  | cons g gs =>
    have := (hf g (by simp)).1
    simp [stream] at h
    exact absurd h.1 this

theorem feedAll_inv (fs : List Item) (hf : ∀ g ∈ fs, Framed g.1 g.2) :
    ∀ (cs : List Bytes) (c : Conn) (k : Nat) (t : Bytes),
      c.buf ++ (cs.flatten ++ t) = stream (fs.drop k) → c.out = evs (fs.take k) →
      Pending c.buf (fs.drop k) →
      ∃ k', (cs.foldl feed c).out = evs (fs.take k')
        ∧ (cs.foldl feed c).buf ++ t = stream (fs.drop k')
        ∧ Pending (cs.foldl feed c).buf (fs.drop k') := by
  intro cs
  induction cs with
  | nil =>
    intro c k t he ho hp
    exact ⟨k, ho, by simpa using he, hp⟩
  | cons ch cs ih =>
    intro c k t he ho hp
    have hfd : ∀ g ∈ fs.drop k, Framed g.1 g.2 := fun g hg => hf g (List.mem_of_mem_drop hg)
    have he' : (c.buf ++ ch) ++ (cs.flatten ++ t) = stream (fs.drop k) := by
      simpa [List.append_assoc] using he
    obtain ⟨m, p, h1, h2, h3⟩ :=
      drain_stream (fs.drop k) hfd ((c.buf ++ ch).length + 1) (c.buf ++ ch) (cs.flatten ++ t)
        (by omega) he'
    have hfeed : feed c ch = { buf := p, out := c.out ++ evs ((fs.drop k).take m) } := by
      simp only [feed, drain, h1]
    simp only [List.foldl_cons, hfeed]
    apply ih _ (k + m) t
    · simpa [List.drop_drop, Nat.add_comm] using h2
    · simp only [ho, evs, ← List.map_append]
      congr 1
      rw [List.take_add]
    · simpa [List.drop_drop, Nat.add_comm] using h3

/-- Any chunking of the concatenated frames: the loop hands exactly the frames' values to
the handler, in order, each once, and ends with an empty buffer. -/
theorem feedAll_items (fs : List Item) (hf : ∀ g ∈ fs, Framed g.1 g.2) (cs : List Bytes)
    (hcs : cs.flatten = stream fs) :
    (feedAll cs).out = evs fs ∧ (feedAll cs).buf = [] := by
  obtain ⟨k', h1, h2, h3⟩ := feedAll_inv fs hf cs {} 0 [] (by simpa using hcs) (by simp [evs])
    (Or.inl rfl)
  have hfd : ∀ g ∈ fs.drop k', Framed g.1 g.2 := fun g hg => hf g (List.mem_of_mem_drop hg)
  simp only [List.append_nil] at h2
  have hbuf : (List.foldl feed {} cs).buf = [] ∧ fs.drop k' = [] := by
    rcases h3 with h3 | ⟨g, gs', t', hg, ht', hb⟩
    · rw [h3] at h2
      exact ⟨h3, stream_nil_of_framed _ hfd h2.symm⟩
    · exfalso
      rw [hg] at h2
      simp only [stream, List.map_cons, List.flatten_cons] at h2
      have l1 := congrArg List.length h2
      have l2 := congrArg List.length hb
      simp only [List.length_append] at l1 l2
      have : 0 < t'.length := List.length_pos_iff.mpr ht'
      omega
  refine ⟨?_, hbuf.1⟩
  have : fs.take k' = fs := by
    have := List.take_append_drop k' fs
    rw [hbuf.2] at this; simpa using this
  simp only [feedAll]
  rw [h1, this]

theorem frame_framed (f : Frame) (h : f.wf = true) : Framed f.bytes f.value := by
  cases f with
  | resp v => exact framed_resp v h
  | inline l => exact framed_inline l h


mutual
theorem sanitize_clean : ∀ v : RV, (sanitize v).clean = true
  | .simple s => by
    simp only [sanitize, RV.clean, noCRLF, List.all_map, List.all_eq_true]
    intro b _
    simp only [Function.comp, sanit]
    split <;> simp_all [CR, LF]
  | .error s => by
    simp only [sanitize, RV.clean, noCRLF, List.all_map, List.all_eq_true]
    intro b _
    simp only [Function.comp, sanit]
    split <;> simp_all [CR, LF]
  | .int _ => rfl
  | .bulk _ => rfl
  | .null => rfl
  | .array vs => by simp only [sanitize, RV.clean]; exact sanitizeList_clean vs
theorem sanitizeList_clean : ∀ vs : List RV, RV.cleanList (sanitizeList vs) = true
  | [] => rfl
  | v :: vs => by
    simp only [sanitizeList, RV.cleanList, Bool.and_eq_true]
    exact ⟨sanitize_clean v, sanitizeList_clean vs⟩
end


/-! ### the forwarding proxy on a remote node that writes one reply frame -/

theorem relayFrom_framed (bs : Bytes) (v : RV) (hf : Framed bs v) (extra : Bytes) :
    ∀ (cs : List Bytes) (buf : Bytes), (∃ t, t ≠ [] ∧ buf ++ t = bs) →
      buf ++ cs.flatten = bs ++ extra → relayFrom buf cs = some bs := by
  obtain ⟨hne, hval, hpre⟩ := hf
  intro cs
  induction cs with
  | nil =>
    intro buf ⟨t, ht, hb⟩ he
    exfalso
    simp only [List.flatten_nil, List.append_nil] at he
    have l1 := congrArg List.length hb
    have l2 := congrArg List.length he
    simp only [List.length_append] at l1 l2
    have : 0 < t.length := List.length_pos_iff.mpr ht
    omega
  | cons c cs ih =>
    intro buf hb he
    have he' : (buf ++ c) ++ cs.flatten = bs ++ extra := by simpa [List.append_assoc] using he
    have key : (∃ a', a' ≠ [] ∧ (buf ++ c) ++ a' = bs) ∨ (∃ c', buf ++ c = bs ++ c') := by
      rcases List.append_eq_append_iff.mp he' with ⟨a', h1, _⟩ | ⟨c', h1, _⟩
      · cases a' with
        | nil => right; exact ⟨[], by simpa using h1.symm⟩
        | cons x xs => left; exact ⟨x :: xs, by simp, h1.symm⟩
      · right; exact ⟨c', h1⟩
    rcases key with ⟨a', ha, hq⟩ | ⟨c', hq⟩
    · have hm := hpre (buf ++ c) a' ha hq
      simp only [relayFrom, hm.1]
      exact ih (buf ++ c) ⟨a', ha, hq⟩ he'
    · have hv := hval c'
      rw [← hq] at hv
      simp only [relayFrom, hv.1, hv.2]
      rw [hq]
      simp

theorem relay_framed (bs : Bytes) (v : RV) (hf : Framed bs v) (extra : Bytes) (cs : List Bytes)
    (hcs : cs.flatten = bs ++ extra) : relay cs = some bs := by
  have hne := hf.1
  exact relayFrom_framed bs v hf extra cs [] ⟨bs, hne, by simp⟩ (by simpa using hcs)

end SgModel.Resp
