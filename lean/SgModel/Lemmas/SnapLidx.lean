import SgModel.Lemmas.SnapGraph
/-!
The label index stays exact (`lidxOk`) when the importer creates nodes: every label of every
node is indexed and every index entry points at a node that carries the label.
-/
namespace SgModel.SnapJson

structure LidxInv (st : St) : Prop where
  complete : ∀ n ∈ st.nodes, ∀ l ∈ n.labels, n.id ∈ (lookup l st.lidx).getD []
  sound : ∀ e ∈ st.lidx, ∀ id ∈ e.2, ∃ n, getNode id st = some n ∧ e.1 ∈ n.labels
  fresh : ∀ n ∈ st.nodes, n.id < st.nextNode

theorem mem_lookup_lidxInsert (l l' : Str) (k x : Nat) (ix : List (Str × List Nat)) :
    x ∈ (lookup l (lidxInsert l' k ix)).getD [] ↔
      (x ∈ (lookup l ix).getD [] ∨ (l = l' ∧ x = k)) := by
  induction ix with
  | nil =>
    simp only [lidxInsert, lookup]
    by_cases h : l' = l
    · subst h; simp
    · have : ¬ l = l' := fun e => h e.symm
      simp [h, this]
  | cons e r ih =>
    obtain ⟨l0, ids⟩ := e
    simp only [lidxInsert]
    by_cases h0 : l0 = l'
    · subst h0
      simp only [beq_self_eq_true, ↓reduceIte, lookup]
      by_cases h1 : l0 = l
      · subst h1
        simp only [beq_self_eq_true, ↓reduceIte, Option.getD_some, true_and]
        by_cases hc : ids.contains k = true
        · simp only [hc, ↓reduceIte]
          constructor
          · exact Or.inl
          · rintro (h | h)
            · exact h
            · subst h; simpa using hc
        · have hk : k ∉ ids := by simpa using hc
          simp [hk]
      · have : ¬ l = l0 := fun e => h1 e.symm
        simp [h1, this]
    · have hb : (l0 == l') = false := by simp [h0]
      simp only [hb, Bool.false_eq_true, ↓reduceIte, lookup]
      by_cases h1 : l0 = l
      · subst h1
        have : ¬ l0 = l' := h0
        simp [this]
      · simp [h1, ih]

theorem mem_lookup_foldInsert (l : Str) (k x : Nat) (ls : List Str) : ∀ (ix : List (Str × List Nat)),
    x ∈ (lookup l (ls.foldl (fun ix l' => lidxInsert l' k ix) ix)).getD [] ↔
      (x ∈ (lookup l ix).getD [] ∨ (l ∈ ls ∧ x = k)) := by
  induction ls with
  | nil => intro ix; simp
  | cons a r ih =>
    intro ix
    simp only [List.foldl_cons, ih, mem_lookup_lidxInsert, List.mem_cons]
    constructor
    · rintro ((h | ⟨h1, h2⟩) | ⟨h1, h2⟩)
      · exact Or.inl h
      · exact Or.inr ⟨Or.inl h1, h2⟩
      · exact Or.inr ⟨Or.inr h1, h2⟩
    · rintro (h | ⟨h1 | h1, h2⟩)
      · exact Or.inl (Or.inl h)
      · exact Or.inl (Or.inr ⟨h1, h2⟩)
      · exact Or.inr ⟨h1, h2⟩

theorem entry_lidxInsert (l' : Str) (k : Nat) (ix : List (Str × List Nat)) :
    ∀ e ∈ lidxInsert l' k ix, ∀ x ∈ e.2,
      (∃ e0 ∈ ix, e0.1 = e.1 ∧ x ∈ e0.2) ∨ (e.1 = l' ∧ x = k) := by
  induction ix with
  | nil =>
    intro e he x hx
    simp only [lidxInsert, List.mem_singleton] at he
    subst he
    simp only [List.mem_singleton] at hx
    exact Or.inr ⟨rfl, hx⟩
  | cons e0 r ih =>
    obtain ⟨l0, ids⟩ := e0
    intro e he x hx
    simp only [lidxInsert] at he
    by_cases h0 : l0 = l'
    · subst h0
      simp only [beq_self_eq_true, ↓reduceIte, List.mem_cons] at he
      rcases he with he | he
      · subst he
        by_cases hc : ids.contains k = true
        · simp only [hc, ↓reduceIte] at hx
          exact Or.inl ⟨(l0, ids), List.mem_cons_self, rfl, hx⟩
        · simp only [hc, Bool.false_eq_true, ↓reduceIte, List.mem_append, List.mem_singleton] at hx
          rcases hx with hx | hx
          · exact Or.inl ⟨(l0, ids), List.mem_cons_self, rfl, hx⟩
          · exact Or.inr ⟨rfl, hx⟩
      · exact Or.inl ⟨e, List.mem_cons_of_mem _ he, rfl, hx⟩
    · have hb : (l0 == l') = false := by simp [h0]
      simp only [hb, Bool.false_eq_true, ↓reduceIte, List.mem_cons] at he
      rcases he with he | he
      · subst he
        exact Or.inl ⟨(l0, ids), List.mem_cons_self, rfl, hx⟩
      · rcases ih e he x hx with ⟨e1, h1, h2, h3⟩ | h
        · exact Or.inl ⟨e1, List.mem_cons_of_mem _ h1, h2, h3⟩
        · exact Or.inr h

theorem entry_foldInsert (k : Nat) (ls : List Str) : ∀ (ix : List (Str × List Nat)),
    ∀ e ∈ ls.foldl (fun ix l' => lidxInsert l' k ix) ix, ∀ x ∈ e.2,
      (∃ e0 ∈ ix, e0.1 = e.1 ∧ x ∈ e0.2) ∨ (e.1 ∈ ls ∧ x = k) := by
  induction ls with
  | nil => intro ix e he x hx; exact Or.inl ⟨e, he, rfl, hx⟩
  | cons a r ih =>
    intro ix e he x hx
    simp only [List.foldl_cons] at he
    rcases ih _ e he x hx with ⟨e1, h1, h2, h3⟩ | ⟨h1, h2⟩
    · rcases entry_lidxInsert a k ix e1 h1 x h3 with ⟨e2, g1, g2, g3⟩ | ⟨g1, g2⟩
      · exact Or.inl ⟨e2, g1, g2.trans h2, g3⟩
      · exact Or.inr ⟨by rw [← h2, g1]; exact List.mem_cons_self, g2⟩
    · exact Or.inr ⟨List.mem_cons_of_mem _ h1, h2⟩

theorem getNode_append_old {st : St} {n' : NodeS} {id : Nat} {n : NodeS}
    (h : getNode id st = some n) :
    getNode id { st with nodes := st.nodes ++ [n'] } = some n := by
  unfold getNode at *
  simp only [List.find?_append, h, Option.some_or]

theorem getNode_none_of_fresh {st : St} {id : Nat} (h : ∀ n ∈ st.nodes, n.id < id) :
    getNode id st = none := by
  unfold getNode
  rw [List.find?_eq_none]
  intro n hn
  have := h n hn
  simp only [beq_iff_eq]
  omega

theorem lidxInv_createNode (labels : List Str) (props : List (Str × PV)) {st : St}
    (h : LidxInv st) : LidxInv (createNode false labels props st).1 := by
  have hnone : getNode st.nextNode st = none := getNode_none_of_fresh h.fresh
  constructor
  · intro n hn l hl
    simp only [createNode, Bool.false_and, Bool.false_eq_true, ↓reduceIte] at hn ⊢
    rw [mem_lookup_foldInsert]
    simp only [List.mem_append, List.mem_singleton] at hn
    rcases hn with hn | hn
    · exact Or.inl (h.complete n hn l hl)
    · subst hn
      exact Or.inr ⟨hl, rfl⟩
  · intro e he id hid
    simp only [createNode, Bool.false_and, Bool.false_eq_true, ↓reduceIte] at he ⊢
    rcases entry_foldInsert st.nextNode labels st.lidx e he id hid with ⟨e0, h0, h1, h2⟩ | ⟨h1, h2⟩
    · obtain ⟨n, g1, g2⟩ := h.sound e0 h0 id h2
      refine ⟨n, ?_, by rw [← h1]; exact g2⟩
      unfold getNode at g1 ⊢
      simp only [List.find?_append, g1, Option.some_or]
    · subst h2
      refine ⟨{ id := st.nextNode, labels := labels, col := nonNull props,
                row := props.filter (fun kv => !kv.2.isScalar) }, ?_, h1⟩
      unfold getNode at hnone ⊢
      simp only [List.find?_append, hnone, Option.none_or, List.find?_cons, beq_self_eq_true]
  · intro n hn
    simp only [createNode, List.mem_append, List.mem_singleton] at hn ⊢
    rcases hn with hn | hn
    · have := h.fresh n hn; omega
    · subst hn; simp

theorem lidxOk_of_inv {st : St} (h : LidxInv st) : lidxOk st = true := by
  unfold lidxOk
  simp only [Bool.and_eq_true, List.all_eq_true, List.contains_iff_mem]
  constructor
  · intro n hn l hl
    exact h.complete n hn l hl
  · intro e he id hid
    obtain ⟨n, g1, g2⟩ := h.sound e he id hid
    simp [g1, g2]

theorem lidxInv_empty : LidxInv {} := by
  constructor <;> simp

end SgModel.SnapJson
