import SgModel.Lemmas.SnapLidx
import SgModel.Lemmas.SnapJsonUndoStep
/-!
C13, label-index clause of the failure half.  The index is compared **extensionally**
(`lk l ix` = the ids listed under `l`, as a set), because an entry that was emptied and
re-created moves to the end of the list; together with "labels are keys at most once" and
"an id is listed at most once" (true of the real `HashMap<Label, HashSet<NodeId>>`) this is
exactly `lidxOk`.  `LidxExact` holds of every intermediate store of an import and is kept by
every `undo1` and every `deleteNode`, hence holds of the rolled-back store.
-/
namespace SgModel.SnapJson

abbrev Ix := List (Str × List Nat)

/-- the ids listed under `l` -/
def lk (l : Str) (ix : Ix) : List Nat := (lookup l ix).getD []

/-- labels are keys at most once; an id is listed at most once per label -/
structure IxWF (ix : Ix) : Prop where
  keys : (ix.map (·.1)).Nodup
  ents : ∀ e ∈ ix, e.2.Nodup

theorem lookup_none_of_not_key {l : Str} {ix : Ix} (h : l ∉ ix.map (·.1)) : lookup l ix = none := by
  induction ix with
  | nil => rfl
  | cons e r ih =>
    obtain ⟨l0, ids⟩ := e
    simp only [List.map_cons, List.mem_cons, not_or] at h
    have : (l0 == l) = false := by
      simp only [beq_eq_false_iff_ne, ne_eq]; exact fun q => h.1 q.symm
    simp only [lookup, this, Bool.false_eq_true, ↓reduceIte]
    exact ih h.2

theorem lidxInsert_keys (l : Str) (k : Nat) (ix : Ix) :
    ∀ x, x ∈ (lidxInsert l k ix).map (·.1) ↔ (x ∈ ix.map (·.1) ∨ x = l) := by
  induction ix with
  | nil => intro x; simp [lidxInsert]
  | cons e r ih =>
    obtain ⟨l0, ids⟩ := e
    intro x
    simp only [lidxInsert]
    by_cases h0 : l0 = l
    · subst h0
      simp only [beq_self_eq_true, ↓reduceIte, List.map_cons, List.mem_cons]
      constructor
      · exact Or.inl
      · rintro (q | q)
        · exact q
        · exact Or.inl q
    · have hb : (l0 == l) = false := by simp [h0]
      simp only [hb, Bool.false_eq_true, ↓reduceIte, List.map_cons, List.mem_cons, ih]
      constructor
      · rintro (q | q | q)
        · exact Or.inl (Or.inl q)
        · exact Or.inl (Or.inr q)
        · exact Or.inr q
      · rintro ((q | q) | q)
        · exact Or.inl q
        · exact Or.inr (Or.inl q)
        · exact Or.inr (Or.inr q)

theorem ixwf_insert (l : Str) (k : Nat) {ix : Ix} (h : IxWF ix) : IxWF (lidxInsert l k ix) := by
  obtain ⟨hk, he⟩ := h
  induction ix with
  | nil =>
    exact ⟨by simp [lidxInsert], by intro e he; simp only [lidxInsert, List.mem_singleton] at he; subst he; simp⟩
  | cons e r ih =>
    obtain ⟨l0, ids⟩ := e
    simp only [List.map_cons, List.nodup_cons] at hk
    have her : ∀ e ∈ r, e.2.Nodup := fun e h => he e (List.mem_cons_of_mem _ h)
    have hids : ids.Nodup := he (l0, ids) List.mem_cons_self
    simp only [lidxInsert]
    by_cases h0 : l0 = l
    · subst h0
      simp only [beq_self_eq_true, ↓reduceIte]
      refine ⟨by simp only [List.map_cons, List.nodup_cons]; exact hk, ?_⟩
      intro e hm
      rcases List.mem_cons.mp hm with q | q
      · subst q
        by_cases hc : ids.contains k = true
        · simp only [hc, ↓reduceIte]; exact hids
        · have hc' : ids.contains k = false := by simpa using hc
          simp only [hc', Bool.false_eq_true, ↓reduceIte]
          rw [List.nodup_append]
          refine ⟨hids, by simp, ?_⟩
          intro a ha b hb
          simp only [List.mem_singleton] at hb
          subst hb
          intro q; subst q
          simp [List.contains_iff_mem, ha] at hc'
      · exact her e q
    · have hb : (l0 == l) = false := by simp [h0]
      simp only [hb, Bool.false_eq_true, ↓reduceIte]
      have ih' := ih hk.2 her
      refine ⟨?_, ?_⟩
      · simp only [List.map_cons, List.nodup_cons]
        refine ⟨?_, ih'.keys⟩
        intro q
        rcases (lidxInsert_keys l k r l0).mp q with q | q
        · exact hk.1 q
        · exact h0 q
      · intro e hm
        rcases List.mem_cons.mp hm with q | q
        · subst q; exact hids
        · exact ih'.ents e q

theorem lidxRemove_keys_sub (l : Str) (k : Nat) (ix : Ix) :
    ∀ x, x ∈ (lidxRemove l k ix).map (·.1) → x ∈ ix.map (·.1) := by
  induction ix with
  | nil => intro x h; exact h
  | cons e r ih =>
    obtain ⟨l0, ids⟩ := e
    intro x hx
    simp only [lidxRemove] at hx
    by_cases h0 : (l0 == l) = true
    · simp only [h0, ↓reduceIte] at hx
      by_cases hem : (ids.erase k).isEmpty = true
      · simp only [hem, ↓reduceIte] at hx
        exact List.mem_cons_of_mem _ hx
      · have hem' : (ids.erase k).isEmpty = false := by simpa using hem
        simp only [hem', Bool.false_eq_true, ↓reduceIte, List.map_cons, List.mem_cons] at hx
        simp only [List.map_cons, List.mem_cons]
        exact hx
    · have hb : (l0 == l) = false := by simpa using h0
      simp only [hb, Bool.false_eq_true, ↓reduceIte, List.map_cons, List.mem_cons] at hx
      simp only [List.map_cons, List.mem_cons]
      rcases hx with q | q
      · exact Or.inl q
      · exact Or.inr (ih x q)

theorem ixwf_remove (l : Str) (k : Nat) {ix : Ix} (h : IxWF ix) : IxWF (lidxRemove l k ix) := by
  obtain ⟨hk, he⟩ := h
  induction ix with
  | nil => exact ⟨by simp [lidxRemove], by intro e he; simp [lidxRemove] at he⟩
  | cons e r ih =>
    obtain ⟨l0, ids⟩ := e
    simp only [List.map_cons, List.nodup_cons] at hk
    have her : ∀ e ∈ r, e.2.Nodup := fun e h => he e (List.mem_cons_of_mem _ h)
    have hids : ids.Nodup := he (l0, ids) List.mem_cons_self
    simp only [lidxRemove]
    by_cases h0 : (l0 == l) = true
    · simp only [h0, ↓reduceIte]
      by_cases hem : (ids.erase k).isEmpty = true
      · simp only [hem, ↓reduceIte]; exact ⟨hk.2, her⟩
      · have hem' : (ids.erase k).isEmpty = false := by simpa using hem
        simp only [hem', Bool.false_eq_true, ↓reduceIte]
        refine ⟨by simp only [List.map_cons, List.nodup_cons]; exact hk, ?_⟩
        intro e hm
        rcases List.mem_cons.mp hm with q | q
        · subst q; exact hids.erase k
        · exact her e q
    · have hb : (l0 == l) = false := by simpa using h0
      simp only [hb, Bool.false_eq_true, ↓reduceIte]
      have ih' := ih hk.2 her
      refine ⟨?_, ?_⟩
      · simp only [List.map_cons, List.nodup_cons]
        exact ⟨fun q => hk.1 (lidxRemove_keys_sub l k r l0 q), ih'.keys⟩
      · intro e hm
        rcases List.mem_cons.mp hm with q | q
        · subst q; exact hids
        · exact ih'.ents e q

theorem mem_lk_insert (l l' : Str) (k x : Nat) (ix : Ix) :
    x ∈ lk l (lidxInsert l' k ix) ↔ (x ∈ lk l ix ∨ (l = l' ∧ x = k)) :=
  mem_lookup_lidxInsert l l' k x ix

theorem mem_lk_remove (l l' : Str) (k x : Nat) {ix : Ix} (h : IxWF ix) :
    x ∈ lk l (lidxRemove l' k ix) ↔ (x ∈ lk l ix ∧ ¬ (l = l' ∧ x = k)) := by
  obtain ⟨hk, he⟩ := h
  induction ix with
  | nil => simp [lk, lidxRemove, lookup]
  | cons e r ih =>
    obtain ⟨l0, ids⟩ := e
    simp only [List.map_cons, List.nodup_cons] at hk
    have her : ∀ e ∈ r, e.2.Nodup := fun e h => he e (List.mem_cons_of_mem _ h)
    have hids : ids.Nodup := he (l0, ids) List.mem_cons_self
    simp only [lidxRemove]
    by_cases h0 : l0 = l'
    · subst h0
      simp only [beq_self_eq_true, ↓reduceIte]
      by_cases h1 : l0 = l
      · subst h1
        have hnone : lookup l0 r = none := lookup_none_of_not_key hk.1
        by_cases hem : (ids.erase k).isEmpty = true
        · simp only [hem, ↓reduceIte, lk, hnone, Option.getD_none, List.not_mem_nil, lookup,
            beq_self_eq_true, Option.getD_some, true_and, false_iff, not_and, Classical.not_not]
          intro hx
          by_cases hxk : x = k
          · exact hxk
          · exfalso
            have : x ∈ ids.erase k := (hids.mem_erase_iff).mpr ⟨hxk, hx⟩
            have he0 : ids.erase k = [] := by simpa using hem
            rw [he0] at this; simp at this
        · have hem' : (ids.erase k).isEmpty = false := by simpa using hem
          simp only [hem', Bool.false_eq_true, ↓reduceIte, lk, lookup, beq_self_eq_true,
            Option.getD_some, true_and]
          rw [hids.mem_erase_iff]
          exact ⟨fun ⟨a, b⟩ => ⟨b, a⟩, fun ⟨a, b⟩ => ⟨b, a⟩⟩
      · have hb : (l0 == l) = false := by simp [h1]
        have hne : ¬ l = l0 := fun q => h1 q.symm
        by_cases hem : (ids.erase k).isEmpty = true
        · simp [hem, lk, lookup, hb, hne]
        · have hem' : (ids.erase k).isEmpty = false := by simpa using hem
          simp [hem', lk, lookup, hb, hne]
    · have hb0 : (l0 == l') = false := by simp [h0]
      simp only [hb0, Bool.false_eq_true, ↓reduceIte]
      by_cases h1 : l0 = l
      · subst h1
        have : ¬ l0 = l' := h0
        simp [lk, lookup, this]
      · have hb : (l0 == l) = false := by simp [h1]
        have := ih hk.2 her
        simpa [lk, lookup, hb] using this

end SgModel.SnapJson
