import SgModel.Lemmas.TenantKVMap
/-! Helper lemmas for C17, part 3 (core Lean only): the storage invariant, the refinement of
the reference map by the two column families, and exactness of scans / reads / listing. -/
namespace SgModel.TenantKV

def Op.ident : Op → Nat
  | .putNode _ i _ => i | .delNode _ i => i | .putEdge _ i _ => i | .delEdge _ i => i

/-- the reference map of a history: the writes under accepted tenant names -/
def refRun (ops : List Op) : Ref := ops.foldl (fun m op => m.step op (accepts op.tenant)) []

/-! ### invariant of one column family -/

def KVInv (kind : Nat) (m : KV) : Prop :=
  Sorted m ∧ ∀ e ∈ m, ∃ t id, accepts t = true ∧ idOk id ∧ e.1 = mkKey kind t id ∧ e.2.id = id

theorem kvInv_nil (kind : Nat) : KVInv kind [] := ⟨sorted_nil, by simp⟩

theorem kvInv_put {kind : Nat} {m : KV} (h : KVInv kind m) {t : Bytes} {id : Nat}
    (ht : accepts t = true) (hi : idOk id) (tag : Nat) :
    KVInv kind (kvPut m (mkKey kind t id) ⟨id, tag⟩) := by
  refine ⟨sorted_kvPut h.1 _ _, ?_⟩
  intro e he
  rcases mem_kvPut he with rfl | he
  · exact ⟨t, id, ht, hi, rfl, rfl⟩
  · exact h.2 e he

theorem kvInv_del {kind : Nat} {m : KV} (h : KVInv kind m) (k : Bytes) : KVInv kind (kvDel m k) :=
  ⟨sorted_kvDel h.1 k, fun e he => h.2 e (mem_kvDel he)⟩

/-! ### the reference map -/

theorem Ref.get_cons (e : (Nat × Bytes × Nat) × Nat) (m : Ref) (kind : Nat) (t : Bytes) (id : Nat) :
    Ref.get (e :: m) kind t id = if e.1 = (kind, t, id) then some e.2 else Ref.get m kind t id := by
  unfold Ref.get
  rw [List.find?_cons]
  by_cases h : e.1 = (kind, t, id)
  · simp [h]
  · have : (e.1 == (kind, t, id)) = false := by simpa using h
    simp [this, h]

theorem Ref.get_erase (m : Ref) (k0 : Nat) (t0 : Bytes) (i0 : Nat) (kind : Nat) (t : Bytes) (id : Nat) :
    Ref.get (m.erase k0 t0 i0) kind t id
      = if (kind, t, id) = (k0, t0, i0) then none else Ref.get m kind t id := by
  induction m with
  | nil => simp [Ref.erase, Ref.get]
  | cons e m ih =>
    unfold Ref.erase at *
    rw [List.filter_cons]
    by_cases he : e.1 = (k0, t0, i0)
    · have : (!(e.1 == (k0, t0, i0))) = false := by simp [he]
      simp only [this, Bool.false_eq_true, if_false, ih, Ref.get_cons]
      by_cases h : (kind, t, id) = (k0, t0, i0)
      · simp [h]
      · have : ¬ e.1 = (kind, t, id) := by rw [he]; exact fun x => h x.symm
        simp [h, this]
    · have : (!(e.1 == (k0, t0, i0))) = true := by simp [he]
      simp only [this, if_true, Ref.get_cons, ih]
      by_cases h1 : e.1 = (kind, t, id)
      · have : ¬ (kind, t, id) = (k0, t0, i0) := by rw [← h1]; exact he
        simp [h1, this]
      · simp [h1]

theorem Ref.get_put (m : Ref) (k0 : Nat) (t0 : Bytes) (i0 g : Nat) (kind : Nat) (t : Bytes) (id : Nat) :
    Ref.get (((k0, t0, i0), g) :: m.erase k0 t0 i0) kind t id
      = if (kind, t, id) = (k0, t0, i0) then some g else Ref.get m kind t id := by
  rw [Ref.get_cons, Ref.get_erase]
  by_cases h : (kind, t, id) = (k0, t0, i0)
  · simp [h]
  · have : ¬ (k0, t0, i0) = (kind, t, id) := fun x => h x.symm
    simp [h, this]

/-- every entry of the reference map is under an accepted tenant, a representable id, and
one of the two kinds -/
def RefInv (r : Ref) : Prop :=
  ∀ e ∈ r, accepts e.1.2.1 = true ∧ idOk e.1.2.2 ∧ (e.1.1 = chN ∨ e.1.1 = chE)

theorem refInv_erase {r : Ref} (h : RefInv r) (k : Nat) (t : Bytes) (i : Nat) : RefInv (r.erase k t i) :=
  fun e he => h e (List.mem_filter.mp he).1


def RefNodup (r : Ref) : Prop := (r.map (·.1)).Nodup

theorem refNodup_erase {r : Ref} (h : RefNodup r) (k : Nat) (t : Bytes) (i : Nat) :
    RefNodup (r.erase k t i) :=
  List.Nodup.sublist (List.Sublist.map _ List.filter_sublist) h

theorem refNodup_put {r : Ref} (h : RefNodup r) (k : Nat) (t : Bytes) (i g : Nat) :
    RefNodup (((k, t, i), g) :: r.erase k t i) := by
  unfold RefNodup
  rw [List.map_cons, List.nodup_cons]
  refine ⟨?_, refNodup_erase h k t i⟩
  intro hm
  rw [List.mem_map] at hm
  obtain ⟨e, he, heq⟩ := hm
  unfold Ref.erase at he
  rw [List.mem_filter] at he
  simp only at heq
  simp [heq] at he

theorem Ref.get_of_mem {r : Ref} (h : RefNodup r) {e : (Nat × Bytes × Nat) × Nat} (he : e ∈ r) :
    r.get e.1.1 e.1.2.1 e.1.2.2 = some e.2 := by
  induction r with
  | nil => simp at he
  | cons a r ih =>
    unfold RefNodup at h
    rw [List.map_cons, List.nodup_cons] at h
    rw [Ref.get_cons]
    rcases List.mem_cons.mp he with rfl | hm
    · simp
    · have : ¬ a.1 = (e.1.1, e.1.2.1, e.1.2.2) := by
        intro x
        exact h.1 (x ▸ List.mem_map.mpr ⟨e, hm, rfl⟩)
      simp only [this, if_false]
      exact ih h.2 hm

/-! ### agreement of a column family with the reference map -/

def Agree (kind : Nat) (m : KV) (r : Ref) : Prop :=
  ∀ t id, accepts t = true → idOk id →
    kvGet m (mkKey kind t id) = (r.get kind t id).map (fun tag => (⟨id, tag⟩ : Val))

theorem mkKey_eq_iff {kind : Nat} {t t' : Bytes} {i i' : Nat} (hi : idOk i) (hi' : idOk i') :
    mkKey kind t' i' = mkKey kind t i ↔ (kind, t', i') = (kind, t, i) := by
  constructor
  · intro h
    have := mkKey_inj hi' hi h
    rw [this.1, this.2]
  · intro h
    simp only [Prod.mk.injEq, true_and] at h
    rw [h.1, h.2]

theorem agree_put {kind : Nat} {m : KV} {r : Ref} (h : Agree kind m r) {t : Bytes} {id : Nat}
    (hi : idOk id) (tag : Nat) :
    Agree kind (kvPut m (mkKey kind t id) ⟨id, tag⟩) (((kind, t, id), tag) :: r.erase kind t id) := by
  intro t' id' ht' hi'
  rw [kvGet_kvPut, Ref.get_put]
  by_cases hk : mkKey kind t' id' = mkKey kind t id
  · have := (mkKey_eq_iff hi hi').mp hk
    simp only [hk, this, if_true, Option.map_some]
    simp only [Prod.mk.injEq, true_and] at this
    rw [this.2]
  · have : ¬ (kind, t', id') = (kind, t, id) := fun x => hk ((mkKey_eq_iff hi hi').mpr x)
    simp only [hk, this, if_false]
    exact h t' id' ht' hi'

theorem agree_del {kind : Nat} {m : KV} {r : Ref} (h : Agree kind m r) {t : Bytes} {id : Nat}
    (hi : idOk id) : Agree kind (kvDel m (mkKey kind t id)) (r.erase kind t id) := by
  intro t' id' ht' hi'
  rw [kvGet_kvDel, Ref.get_erase]
  by_cases hk : mkKey kind t' id' = mkKey kind t id
  · have := (mkKey_eq_iff hi hi').mp hk
    simp [hk, this]
  · have : ¬ (kind, t', id') = (kind, t, id) := fun x => hk ((mkKey_eq_iff hi hi').mpr x)
    simp only [hk, this, if_false]
    exact h t' id' ht' hi'

/-- a write of the other kind does not disturb the agreement -/
theorem agree_other_put {kind k0 : Nat} (hne : kind ≠ k0) {m : KV} {r : Ref} (h : Agree kind m r)
    (t0 : Bytes) (i0 g : Nat) : Agree kind m (((k0, t0, i0), g) :: r.erase k0 t0 i0) := by
  intro t id ht hi
  rw [Ref.get_put]
  have : ¬ (kind, t, id) = (k0, t0, i0) := by
    intro x; simp only [Prod.mk.injEq] at x; exact hne x.1
  simp only [this, if_false]
  exact h t id ht hi

theorem agree_other_del {kind k0 : Nat} (hne : kind ≠ k0) {m : KV} {r : Ref} (h : Agree kind m r)
    (t0 : Bytes) (i0 : Nat) : Agree kind m (r.erase k0 t0 i0) := by
  intro t id ht hi
  rw [Ref.get_erase]
  have : ¬ (kind, t, id) = (k0, t0, i0) := by
    intro x; simp only [Prod.mk.injEq] at x; exact hne x.1
  simp only [this, if_false]
  exact h t id ht hi

/-! ### the whole store -/

structure Good (s : State) (r : Ref) : Prop where
  invN : KVInv chN s.nodes
  invE : KVInv chE s.edges
  agrN : Agree chN s.nodes r
  agrE : Agree chE s.edges r
  refI : RefInv r
  refN : RefNodup r

theorem chN_ne_chE : chN ≠ chE := by decide

theorem good_init : Good {} [] :=
  ⟨kvInv_nil _, kvInv_nil _, fun _ _ _ _ => rfl, fun _ _ _ _ => rfl, by intro e he; simp at he,
    by simp [RefNodup]⟩

theorem good_step {s : State} {r : Ref} (h : Good s r) (op : Op) (hop : idOk op.ident) :
    Good (step s op) (r.step op (accepts op.tenant)) := by
  unfold step stepWith Ref.step
  cases hacc : accepts op.tenant with
  | false => simpa using h
  | true =>
    simp only [if_true]
    cases op with
    | putNode t id tag =>
      simp only [Op.tenant] at hacc
      simp only [Op.ident] at hop
      exact ⟨kvInv_put h.invN hacc hop tag, h.invE, agree_put h.agrN hop tag,
        agree_other_put (Ne.symm chN_ne_chE) h.agrE t id tag, by
          intro e he
          rcases List.mem_cons.mp he with rfl | he
          · exact ⟨hacc, hop, Or.inl rfl⟩
          · exact refInv_erase h.refI _ _ _ e he, refNodup_put h.refN _ _ _ _⟩
    | delNode t id =>
      simp only [Op.ident] at hop
      exact ⟨kvInv_del h.invN _, h.invE, agree_del h.agrN hop,
        agree_other_del (Ne.symm chN_ne_chE) h.agrE t id, refInv_erase h.refI _ _ _,
        refNodup_erase h.refN _ _ _⟩
    | putEdge t id tag =>
      simp only [Op.tenant] at hacc
      simp only [Op.ident] at hop
      exact ⟨h.invN, kvInv_put h.invE hacc hop tag, agree_other_put chN_ne_chE h.agrN t id tag,
        agree_put h.agrE hop tag, by
          intro e he
          rcases List.mem_cons.mp he with rfl | he
          · exact ⟨hacc, hop, Or.inr rfl⟩
          · exact refInv_erase h.refI _ _ _ e he, refNodup_put h.refN _ _ _ _⟩
    | delEdge t id =>
      simp only [Op.ident] at hop
      exact ⟨h.invN, kvInv_del h.invE _, agree_other_del chN_ne_chE h.agrN t id,
        agree_del h.agrE hop, refInv_erase h.refI _ _ _, refNodup_erase h.refN _ _ _⟩

theorem good_foldl (ops : List Op) (hops : ∀ op ∈ ops, idOk op.ident) {s : State} {r : Ref}
    (h : Good s r) :
    Good (ops.foldl step s) (ops.foldl (fun m op => m.step op (accepts op.tenant)) r) := by
  induction ops generalizing s r with
  | nil => exact h
  | cons o ops ih =>
    exact ih (fun op hm => hops op (List.mem_cons_of_mem _ hm))
      (good_step h o (hops o List.mem_cons_self))

theorem good_run (ops : List Op) (hops : ∀ op ∈ ops, idOk op.ident) : Good (run ops) (refRun ops) :=
  good_foldl ops hops good_init

/-! ### exactness of one column family's scan -/

theorem mem_scan_iff {kind : Nat} {m : KV} {r : Ref} (hinv : KVInv kind m) (hagr : Agree kind m r)
    {t : Bytes} (ht : accepts t = true) (v : Val) :
    v ∈ scanKV m (scanPrefix t) ↔ idOk v.id ∧ r.get kind t v.id = some v.tag := by
  rw [mem_scanKV hinv.1]
  have htc := (accepts_iff.mp ht).2
  constructor
  · rintro ⟨k, hp, hg⟩
    have hm := (mem_iff_kvGet hinv.1 k v).mpr hg
    obtain ⟨t', id', ht', hi', hk, hid⟩ := hinv.2 (k, v) hm
    simp only at hk hid
    rw [hk] at hp hg
    have htt : t = t' := prefix_sep htc (accepts_iff.mp ht').2 hp
    subst htt
    rw [hagr t id' ht hi'] at hg
    rw [hid]
    refine ⟨hi', ?_⟩
    cases hr : r.get kind t id' with
    | none => rw [hr] at hg; simp at hg
    | some tag =>
      rw [hr] at hg
      simp only [Option.map_some, Option.some.injEq] at hg
      rw [← hg]
  · rintro ⟨hi, hr⟩
    refine ⟨mkKey kind t v.id, hasPrefix_own kind t v.id, ?_⟩
    rw [hagr t v.id ht hi, hr]
    rfl

theorem nodupIds_of_pairwise {l : List Val} (h : l.Pairwise (fun a b => a.id ≠ b.id)) :
    nodupIds l = true := by
  induction l with
  | nil => rfl
  | cons a l ih =>
    have ⟨h1, h2⟩ := List.pairwise_cons.mp h
    simp only [nodupIds, Bool.and_eq_true, List.all_eq_true, bne_iff_ne, ne_eq]
    exact ⟨fun w hw => fun e => h1 w hw e.symm, ih h2⟩

theorem nodupIds_scan {kind : Nat} {m : KV} (hinv : KVInv kind m) {t : Bytes}
    (ht : accepts t = true) : nodupIds (scanKV m (scanPrefix t)) = true := by
  apply nodupIds_of_pairwise
  unfold scanKV
  rw [scan_eq_filter hinv.1, List.pairwise_map]
  have hs : (m.filter (fun e => hasPrefix (scanPrefix t) e.1)).Pairwise
      (fun a b => bytesLt a.1 b.1 = true) := List.Pairwise.filter _ hinv.1
  refine List.Pairwise.imp_of_mem ?_ hs
  intro a b ha hb hlt hid
  rw [List.mem_filter] at ha hb
  obtain ⟨ta, ia, hta, _, hka, hida⟩ := hinv.2 a ha.1
  obtain ⟨tb, ib, htb, _, hkb, hidb⟩ := hinv.2 b hb.1
  have htc := (accepts_iff.mp ht).2
  have h1 : t = ta := prefix_sep htc (accepts_iff.mp hta).2 (hka ▸ ha.2)
  have h2 : t = tb := prefix_sep htc (accepts_iff.mp htb).2 (hkb ▸ hb.2)
  have : a.1 = b.1 := by rw [hka, hkb, ← h1, ← h2, ← hida, ← hidb, hid]
  rw [this, bytesLt_irrefl] at hlt
  exact absurd hlt (by simp)

theorem mem_ofTenant {r : Ref} {kind : Nat} {t : Bytes} {v : Val} (h : v ∈ r.ofTenant kind t) :
    ∃ e ∈ r, e.1 = (kind, t, v.id) ∧ e.2 = v.tag := by
  unfold Ref.ofTenant at h
  rw [List.mem_map] at h
  obtain ⟨e, he, rfl⟩ := h
  rw [List.mem_filter] at he
  simp only [Bool.and_eq_true, beq_iff_eq] at he
  refine ⟨e, he.1, ?_, rfl⟩
  obtain ⟨⟨k, t', i⟩, g⟩ := e
  simp only at he
  simp [he.2.1, he.2.2]

end SgModel.TenantKV
