import SgModel.Lemmas.SnapFSCrash
import SgModel.Lemmas.SnapFSChain_empty
import SgModel.Lemmas.SnapFSChain_c1
import SgModel.Lemmas.SnapFSChain_c2
import SgModel.Lemmas.SnapFSChain_c3
/-!
C14 helper: crash, restart, persist again, crash again — from every reachable committed shape,
for all crash points (unbounded `k1`, `k2` reduce to `≤ 8`).
-/
namespace SgModel.SnapFS

theorem chain_shape_bounded {l : Restored} {fs : FS} (h : Shape l fs) (b1 b2 k1 k2 : Nat)
    (h1 : k1 ≤ 8) (h2 : k2 ≤ 8) :
    restoreProcess (run ((persistSteps false b2).take k2) (run ((persistSteps false b1).take k1) fs))
      = restoreProcess (run ((persistSteps false b1).take k1) fs)
    ∨ restoreProcess (run ((persistSteps false b2).take k2) (run ((persistSteps false b1).take k1) fs))
      = .ok b2 := by
  rcases h with ⟨_, rfl⟩ | ⟨a, _, rfl | rfl | rfl⟩
  · exact chain_empty b1 b2 k1 k2 h1 h2
  · exact chain_c1 a b1 b2 k1 k2 h1 h2
  · exact chain_c2 a b1 b2 k1 k2 h1 h2
  · exact chain_c3 a b1 b2 k1 k2 h1 h2

theorem chain_shape {l : Restored} {fs : FS} (h : Shape l fs) (b1 b2 k1 k2 : Nat) :
    restoreProcess (run ((persistSteps false b2).take k2) (run ((persistSteps false b1).take k1) fs))
      = restoreProcess (run ((persistSteps false b1).take k1) fs)
    ∨ restoreProcess (run ((persistSteps false b2).take k2) (run ((persistSteps false b1).take k1) fs))
      = .ok b2 := by
  have key : ∀ k1 k2, k1 ≤ 8 → k2 ≤ 8 → _ := fun k1 k2 => chain_shape_bounded h b1 b2 k1 k2
  by_cases h1 : k1 ≤ 8 <;> by_cases h2 : k2 ≤ 8
  · exact key k1 k2 h1 h2
  · rw [take_steps_ge b2 k2 (by omega)]; exact key k1 8 h1 (Nat.le_refl 8)
  · rw [take_steps_ge b1 k1 (by omega)]; exact key 8 k2 (Nat.le_refl 8) h2
  · rw [take_steps_ge b1 k1 (by omega), take_steps_ge b2 k2 (by omega)]
    exact key 8 8 (Nat.le_refl 8) (Nat.le_refl 8)

end SgModel.SnapFS
