import SgModel.Lemmas.MvccRel
/-!
`get_edge_at_version` in reachable states: exact characterisation and its consequences.
-/
namespace SgModel.Mvcc

/-- what `get_edge_at_version(e, v)` amounts to in a reachable state: the newest logged snapshot
`≤ v`, else (no snapshot that old) the **current** property map stamped version 1 -/
def edgeAtSpec (e : EdgeRec) (v : Nat) : Option (Nat × Props) :=
  if !e.live then none else
  match e.log.reverse.find? (fun x => decide (x.version ≤ v)) with
  | some x => some (x.version, x.props)
  | none => if v < 1 then none else some (1, e.props)

theorem find_rev_all {α : Type} (p : α → Bool) (l : List α) (h : ∀ y ∈ l, p y = true) :
    l.reverse.find? p = l.getLast? := by
  cases hl : l.getLast? with
  | none =>
    have : l = [] := by simpa using hl
    rw [this]; rfl
  | some last =>
    rw [split_last hl, List.reverse_append, List.reverse_singleton, List.singleton_append, List.find?_cons,
      h last (List.mem_of_getLast? hl)]

theorem edgeAt_eq_spec (e : EdgeRec) (cur v : Nat)
    (hsync : ∀ l, e.log.getLast? = some l → l.props = e.props) : edgeAt e cur v = edgeAtSpec e v := by
  unfold edgeAt edgeAtSpec
  cases hlive : e.live
  · rfl
  · simp only [Bool.not_true, Bool.false_eq_true, if_false]
    cases hf : e.log.reverse.find? (fun x => decide (x.version ≤ v)) with
    | none => rfl
    | some x =>
      have hxv : x.version ≤ v := by simpa using List.find?_some hf
      simp only
      by_cases hc : ((e.log.find? (fun x => decide (v < x.version))).isSome || decide (v < cur)) = true
      · rw [if_pos hc]
        simp only
        rw [if_neg (by omega)]
      · rw [if_neg hc]
        simp only
        rw [if_neg (by omega)]
        -- no entry newer than `v`: the entry found is the newest one, which carries the live map
        have hnone : e.log.find? (fun x => decide (v < x.version)) = none := by
          cases h : e.log.find? (fun x => decide (v < x.version)) with
          | none => rfl
          | some y => simp [h] at hc
        have hall : ∀ y ∈ e.log, decide (y.version ≤ v) = true := by
          intro y hy
          have := List.find?_eq_none.mp hnone y hy
          simp only [decide_eq_true_eq] at this ⊢
          omega
        rw [find_rev_all _ _ hall] at hf
        rw [hsync x hf]

theorem getEdgeAt_eq_spec (s : State) (r : RelInv s) (e v : Nat) :
    getEdgeAt s e v = edgeAtSpec (s.edges e) v :=
  edgeAt_eq_spec _ _ _ (r.sync e)

/-- reads at a version no log entry exceeds return the current property map -/
theorem edgeAtSpec_unmodified_since (e : EdgeRec) (v : Nat) (hlive : e.live = true) (hv : 1 ≤ v)
    (hsync : ∀ l, e.log.getLast? = some l → l.props = e.props)
    (hall : ∀ x ∈ e.log, x.version ≤ v) :
    ∃ ver, edgeAtSpec e v = some (ver, e.props) := by
  unfold edgeAtSpec
  simp only [hlive, Bool.not_true, Bool.false_eq_true, if_false]
  rw [find_rev_all _ _ (by intro y hy; simpa using hall y hy)]
  cases hl : e.log.getLast? with
  | none => exact ⟨1, by simp only; rw [if_neg (by omega)]⟩
  | some l => exact ⟨l.version, by simp only; rw [hsync l hl]⟩

/-- … and that value does not depend on `v` -/
theorem edgeAtSpec_unmodified_since_eq (e : EdgeRec) (v v' : Nat) (hv : 1 ≤ v) (hv' : 1 ≤ v')
    (hall : ∀ x ∈ e.log, x.version ≤ v) (hall' : ∀ x ∈ e.log, x.version ≤ v') :
    edgeAtSpec e v = edgeAtSpec e v' := by
  unfold edgeAtSpec
  rw [find_rev_all _ _ (by intro y hy; simpa using hall y hy),
      find_rev_all _ _ (by intro y hy; simpa using hall' y hy)]
  have h1 : ¬ v < 1 := by omega
  have h2 : ¬ v' < 1 := by omega
  cases e.log.getLast? with
  | none => simp only [h1, h2, if_false]
  | some l => rfl

/-! ### `set_edge_property` against reads below the current version -/

theorem setEdge_find (e : EdgeRec) (cur v k : Nat) (val : Int) (hv : v < cur) :
    (setEdge e cur k val).log.reverse.find? (fun y => decide (y.version ≤ v))
      = e.log.reverse.find? (fun y => decide (y.version ≤ v)) := by
  have hfind : ∀ (l : List ELog) (x : ELog), v < x.version →
      (l ++ [x]).reverse.find? (fun y => decide (y.version ≤ v)) = l.reverse.find? (fun y => decide (y.version ≤ v)) := by
    intro l x hx
    rw [List.reverse_append, List.reverse_singleton, List.singleton_append, List.find?_cons]
    have : decide (x.version ≤ v) = false := by simp; omega
    rw [this]
  unfold setEdge
  simp only
  cases hl : e.log.getLast? with
  | none => simp only; exact hfind _ _ (by simpa using hv)
  | some last =>
    simp only
    split
    · rename_i heq
      rw [hfind _ _ (by simp only; omega)]
      conv => rhs; rw [split_last hl]
      rw [hfind _ _ (by omega)]
    · exact hfind _ _ (by simpa using hv)

/-! ### which operations leave a relationship's record alone -/

/-- operations that delete relationship `e` (endpoints `a`, `b`) or collect garbage -/
def touchesRel (e a b : Nat) : Op → Bool
  | .deleteEdge e' => e' == e
  | .deleteNode n => n == a || n == b
  | .txn (.gc _) => true
  | _ => false

def writesRel (e : Nat) : Op → Bool
  | .setEdgeProp e' _ _ => e' == e
  | _ => false

theorem killEdge_other (s : State) (e e' : Nat) (h : e ≠ e') : (killEdge s e').edges e = s.edges e := by
  unfold killEdge
  split
  · exact upd_other _ _ _ _ h
  · rfl

theorem killEdges_other (l : List Nat) (s : State) (e : Nat) (h : e ∉ l) :
    (l.foldl killEdge s).edges e = s.edges e := by
  induction l generalizing s with
  | nil => rfl
  | cons e' l ih =>
    simp only [List.foldl_cons]
    rw [ih (killEdge s e') (fun hm => h (List.mem_cons_of_mem _ hm))]
    exact killEdge_other s e e' (fun heq => h (heq ▸ List.mem_cons_self))

theorem popId_dead {s : State} (r : RelInv s) : (s.edges (popId s.freeEdges s.nextEdge).1).live = false := by
  cases hfree : s.freeEdges with
  | nil => exact r.beyondDead _ (Nat.le_refl _)
  | cons f rest => exact r.freeDead f (by rw [hfree]; exact List.mem_cons_self)

/-- every operation that neither deletes nor writes relationship `e` leaves its record —
endpoints, property map and version log — untouched; in particular a creation never reuses the
id of a live relationship and the cascade of `delete_node` only reaches incident relationships -/
theorem step_edges_frame (lg : Bool) (s : State) (r : RelInv s) (op : Op) (e : Nat)
    (hlive : (s.edges e).live = true)
    (hop : touchesRel e (s.edges e).src (s.edges e).tgt op = false) (hw : writesRel e op = false) :
    (stepG lg s op).1.edges e = s.edges e := by
  cases op with
  | createNode l => rfl
  | setProp n k v => simp only [stepG]; split <;> rfl
  | removeProp n k => rfl
  | addLabel n l => simp only [stepG]; split <;> rfl
  | removeLabel n l =>
    simp only [stepG]; split
    · rfl
    · split <;> rfl
  | deleteNode n =>
    simp only [touchesRel, Bool.or_eq_false_iff, beq_eq_false_iff_ne, ne_eq] at hop
    simp only [stepG]; split
    · rfl
    · rw [killEdges_other]
      intro hm
      simp only [incident, List.mem_append, List.mem_filter, List.mem_range, Bool.and_eq_true, beq_iff_eq] at hm
      rcases hm with ⟨_, _, h⟩ | ⟨_, _, h⟩
      · exact hop.1 h.symm
      · exact hop.2 h.symm
  | createEdge a b props =>
    simp only [stepG]; split
    · rfl
    · split
      · rfl
      · have hne : e ≠ (popId s.freeEdges s.nextEdge).1 := by
          intro h
          have := popId_dead r
          rw [← h, hlive] at this; cases this
        exact upd_other _ _ _ _ hne
  | setEdgeProp e' k v =>
    simp only [writesRel, beq_eq_false_iff_ne, ne_eq] at hw
    simp only [stepG]; split
    · rfl
    · exact upd_other _ _ _ _ (fun h => hw h.symm)
  | deleteEdge e' =>
    simp only [touchesRel, beq_eq_false_iff_ne, ne_eq] at hop
    simp only [stepG]; split
    · rfl
    · exact killEdge_other s e e' (fun h => hop h.symm)
  | txn top =>
    cases top with
    | gc w => simp [touchesRel] at hop
    | _ => rfl

theorem step_edges_write (lg : Bool) (s : State) (e k : Nat) (val : Int) (hlive : (s.edges e).live = true) :
    (stepG lg s (.setEdgeProp e k val)).1.edges e = setEdge (s.edges e) s.cur k val := by
  simp only [stepG, hlive, Bool.not_true, Bool.false_eq_true, if_false]
  exact upd_same _ _ _

/-! ### state-level statements -/

theorem rel_read_anchored (s : State) (r : RelInv s) (e v : Nat) (ent : ELog)
    (hlive : (s.edges e).live = true)
    (hf : (s.edges e).log.reverse.find? (fun x => decide (x.version ≤ v)) = some ent) :
    getEdgeAt s e v = some (ent.version, ent.props) := by
  rw [getEdgeAt_eq_spec s r]
  unfold edgeAtSpec
  simp only [hlive, Bool.not_true, Bool.false_eq_true, if_false, hf]

theorem rel_read_unanchored (s : State) (r : RelInv s) (e v : Nat)
    (hlive : (s.edges e).live = true) (hv : 1 ≤ v)
    (hnone : ∀ x ∈ (s.edges e).log, v < x.version) :
    getEdgeAt s e v = some (1, (s.edges e).props) := by
  rw [getEdgeAt_eq_spec s r]
  unfold edgeAtSpec
  have hf : (s.edges e).log.reverse.find? (fun x => decide (x.version ≤ v)) = none := by
    rw [List.find?_eq_none]
    intro x hx
    have := hnone x (List.mem_reverse.mp hx)
    simp only [decide_eq_true_eq]; omega
  have h1 : ¬ v < 1 := by omega
  simp only [hlive, Bool.not_true, Bool.false_eq_true, if_false, hf, h1]

theorem rel_unmodified_since (s : State) (hinv : Inv s) (r : RelInv s) (e v : Nat)
    (hlive : (s.edges e).live = true) (hv : 1 ≤ v)
    (hall : ∀ x ∈ (s.edges e).log, x.version ≤ v) :
    getEdgeAt s e v = getEdge s e ∧ ∃ ver, getEdge s e = some (ver, (s.edges e).props) := by
  unfold getEdge
  rw [getEdgeAt_eq_spec s r, getEdgeAt_eq_spec s r]
  refine ⟨edgeAtSpec_unmodified_since_eq _ _ _ hv r.curPos hall (hinv.logs e).2, ?_⟩
  exact edgeAtSpec_unmodified_since _ _ hlive r.curPos (r.sync e) (hinv.logs e).2

theorem edgeAtSpec_setEdge (rec : EdgeRec) (cur v k : Nat) (val : Int) (hv : v < cur)
    (hanch : ∃ x ∈ rec.log, x.version ≤ v) :
    edgeAtSpec (setEdge rec cur k val) v = edgeAtSpec rec v := by
  unfold edgeAtSpec
  rw [setEdge_live, setEdge_find rec cur v k val hv]
  obtain ⟨x, hx, hxv⟩ := hanch
  have : (rec.log.reverse.find? (fun y => decide (y.version ≤ v))).isSome := by
    rw [List.find?_isSome]; exact ⟨x, List.mem_reverse.mpr hx, by simpa using hxv⟩
  obtain ⟨ent, hent⟩ := Option.isSome_iff_exists.mp this
  rw [hent]

/-- one step: every operation that does not delete relationship `e` leaves its read at `v`
unchanged — at *every* `v` when the operation is not a property write to `e`, and at every
anchored `v` below the current version when it is -/
theorem rel_step_stable (lg : Bool) (s : State) (r : RelInv s) (op : Op) (e v : Nat)
    (hlive : (s.edges e).live = true)
    (hop : touchesRel e (s.edges e).src (s.edges e).tgt op = false)
    (hanch : writesRel e op = true → v < s.cur ∧ ∃ x ∈ (s.edges e).log, x.version ≤ v) :
    getEdgeAt (stepG lg s op).1 e v = getEdgeAt s e v := by
  rw [getEdgeAt_eq_spec _ (relInv_step lg r op), getEdgeAt_eq_spec s r]
  cases hw : writesRel e op
  · rw [step_edges_frame lg s r op e hlive hop hw]
  · obtain ⟨hv, ha⟩ := hanch hw
    cases op with
    | setEdgeProp e' k val =>
      simp only [writesRel, beq_iff_eq] at hw
      subst hw
      rw [step_edges_write lg s e' k val hlive]
      exact edgeAtSpec_setEdge _ _ _ _ _ hv ha
    | _ => simp [writesRel] at hw

theorem cur_le_step (lg : Bool) (s : State) (op : Op) : s.cur ≤ (stepG lg s op).1.cur := by
  cases op with
  | txn top =>
    have hle : s.cur ≤ (Txn.step s.txn top).1.core.cur := Txn.shape_cur_le (Txn.step_shape s.txn top)
    cases top <;> exact hle
  | deleteNode n =>
    simp only [stepG]
    split
    · exact Nat.le_refl _
    · show s.cur ≤ (List.foldl killEdge _ (incident s n)).txn.core.cur
      rw [(killEdges_props _ _).1]; exact Nat.le_refl _
  | deleteEdge e =>
    simp only [stepG]
    split
    · exact Nat.le_refl _
    · show s.cur ≤ (killEdge s e).txn.core.cur
      rw [(killEdge_props _ _).1]; exact Nat.le_refl _
  | createNode l => exact Nat.le_refl _
  | setProp n k v => simp only [stepG]; split <;> exact Nat.le_refl _
  | removeProp n k => exact Nat.le_refl _
  | addLabel n l => simp only [stepG]; split <;> exact Nat.le_refl _
  | removeLabel n l =>
    simp only [stepG]
    split
    · exact Nat.le_refl _
    · split <;> exact Nat.le_refl _
  | createEdge a b p =>
    simp only [stepG]
    split
    · exact Nat.le_refl _
    · split <;> exact Nat.le_refl _
  | setEdgeProp e k v => simp only [stepG]; split <;> exact Nat.le_refl _

/-- what is carried along a history: the relationship stays live with the same endpoints and the
same newest snapshot `≤ v`, and `v` stays below the current version -/
structure Anchored (s : State) (e a b v : Nat) (ent : ELog) : Prop where
  live : (s.edges e).live = true
  src : (s.edges e).src = a
  tgt : (s.edges e).tgt = b
  find : (s.edges e).log.reverse.find? (fun x => decide (x.version ≤ v)) = some ent
  lt : v < s.cur

theorem anchored_step (lg : Bool) {s : State} (r : RelInv s) {e a b v : Nat} {ent : ELog}
    (h : Anchored s e a b v ent) (op : Op) (hop : touchesRel e a b op = false) :
    Anchored (stepG lg s op).1 e a b v ent := by
  have hop' : touchesRel e (s.edges e).src (s.edges e).tgt op = false := by rw [h.src, h.tgt]; exact hop
  have hlt : v < (stepG lg s op).1.cur := Nat.lt_of_lt_of_le h.lt (cur_le_step lg s op)
  cases hw : writesRel e op
  · have := step_edges_frame lg s r op e h.live hop' hw
    exact ⟨by rw [this]; exact h.live, by rw [this]; exact h.src, by rw [this]; exact h.tgt,
           by rw [this]; exact h.find, hlt⟩
  · cases op with
    | setEdgeProp e' k val =>
      simp only [writesRel, beq_iff_eq] at hw
      subst hw
      have := step_edges_write lg s e' k val h.live
      refine ⟨by rw [this]; exact h.live, by rw [this]; exact h.src, by rw [this]; exact h.tgt, ?_, hlt⟩
      rw [this, setEdge_find _ _ _ _ _ h.lt]; exact h.find
    | _ => simp [writesRel] at hw

theorem anchored_foldl (lg : Bool) {e a b v : Nat} {ent : ELog} (post : List Op)
    (hpost : ∀ op ∈ post, touchesRel e a b op = false) :
    ∀ {s : State}, RelInv s → Anchored s e a b v ent →
      Anchored (post.foldl (fun s op => (stepG lg s op).1) s) e a b v ent
        ∧ RelInv (post.foldl (fun s op => (stepG lg s op).1) s) := by
  induction post with
  | nil => intro s r h; exact ⟨h, r⟩
  | cons op post ih =>
    intro s r h
    simp only [List.foldl_cons]
    exact ih (fun o ho => hpost o (List.mem_cons_of_mem _ ho)) (relInv_step lg r op)
      (anchored_step lg r h op (hpost op List.mem_cons_self))

end SgModel.Mvcc
