import SgModel.Lemmas.Iter
/-!
PageRank mass conservation over `Rat` (core Lean's rationals): finite sums, the double
counting `Σ_v Σ_{u ∈ pred v} g u = Σ_u outdeg u · g u` on a well-formed view, and the
resulting `Σ PR' = (1 − d) + d·(…)`.
-/
namespace SgModel.Iter
open SgModel.Algo

theorem rsum_nil (f : Nat → Rat) : rsum [] f = 0 := rfl
theorem rsum_cons (a : Nat) (l : List Nat) (f : Nat → Rat) : rsum (a :: l) f = f a + rsum l f := by
  simp [rsum]
theorem rsum_append (l₁ l₂ : List Nat) (f : Nat → Rat) : rsum (l₁ ++ l₂) f = rsum l₁ f + rsum l₂ f := by
  induction l₁ with
  | nil => simp [rsum, Rat.zero_add, Rat.add_zero]
  | cons a t ih => rw [List.cons_append, rsum_cons, rsum_cons, ih]; grind
theorem rsum_add (l : List Nat) (f g : Nat → Rat) : rsum l (fun x => f x + g x) = rsum l f + rsum l g := by
  induction l with
  | nil => simp [rsum, Rat.zero_add, Rat.add_zero]
  | cons a t ih => rw [rsum_cons, rsum_cons, rsum_cons, ih]; grind
theorem rsum_congr {l : List Nat} {f g : Nat → Rat} (h : ∀ x ∈ l, f x = g x) : rsum l f = rsum l g := by
  induction l with
  | nil => rfl
  | cons a t ih =>
    rw [rsum_cons, rsum_cons, h a (List.mem_cons_self ..), ih (fun x hx => h x (List.mem_cons_of_mem _ hx))]
theorem rsum_zero {l : List Nat} {f : Nat → Rat} (h : ∀ x ∈ l, f x = 0) : rsum l f = 0 := by
  induction l with
  | nil => rfl
  | cons a t ih =>
    rw [rsum_cons, h a (List.mem_cons_self ..), ih (fun x hx => h x (List.mem_cons_of_mem _ hx))]; grind
theorem rsum_mul_left (c : Rat) (l : List Nat) (f : Nat → Rat) : rsum l (fun x => c * f x) = c * rsum l f := by
  induction l with
  | nil => simp [rsum, Rat.zero_add, Rat.add_zero]
  | cons a t ih => rw [rsum_cons, rsum_cons, ih]; grind
theorem rsum_const (c : Rat) (l : List Nat) : rsum l (fun _ => c) = (l.length : Rat) * c := by
  induction l with
  | nil => simp [rsum, Rat.zero_add, Rat.add_zero]
  | cons a t ih => rw [rsum_cons, ih, List.length_cons]; grind
theorem rsum_nonneg {l : List Nat} {f : Nat → Rat} (h : ∀ x ∈ l, 0 ≤ f x) : 0 ≤ rsum l f := by
  induction l with
  | nil => exact Rat.le_refl
  | cons a t ih =>
    rw [rsum_cons]
    exact Rat.add_nonneg (h a (List.mem_cons_self ..)) (ih (fun x hx => h x (List.mem_cons_of_mem _ hx)))
theorem rsum_le {l : List Nat} {f g : Nat → Rat} (h : ∀ x ∈ l, f x ≤ g x) : rsum l f ≤ rsum l g := by
  induction l with
  | nil => exact Rat.le_refl
  | cons a t ih =>
    rw [rsum_cons, rsum_cons]
    have h1 := h a (List.mem_cons_self ..)
    have h2 := ih (fun x hx => h x (List.mem_cons_of_mem _ hx))
    grind

theorem rsum_single (n a : Nat) (c : Rat) :
    rsum (List.range n) (fun x => if x = a then c else 0) = if a < n then c else 0 := by
  induction n with
  | zero => simp [rsum]
  | succ n ih =>
    rw [List.range_succ, rsum_append, ih, rsum_cons, rsum_nil]
    by_cases h1 : a < n
    · have : n ≠ a := by omega
      have h3 : a < n + 1 := by omega
      simp [h1, this, h3, Rat.zero_add, Rat.add_zero]
    · by_cases h2 : n = a
      · subst h2; simp [Rat.zero_add, Rat.add_zero]
      · have : ¬ a < n + 1 := by omega
        simp [h1, h2, this, Rat.zero_add, Rat.add_zero]

theorem rsum_comm (l₁ l₂ : List Nat) (f : Nat → Nat → Rat) :
    rsum l₁ (fun a => rsum l₂ (fun b => f a b)) = rsum l₂ (fun b => rsum l₁ (fun a => f a b)) := by
  induction l₁ with
  | nil => simp only [rsum_nil]; rw [rsum_zero (fun _ _ => rfl)]
  | cons x t ih =>
    rw [rsum_cons, ih]
    have : ∀ b, rsum (x :: t) (fun a => f a b) = f x b + rsum t (fun a => f a b) := fun b => rsum_cons _ _ _
    rw [rsum_congr (fun b _ => this b), rsum_add]

/-- a sum over a list of indices `< n`, regrouped by value with multiplicities -/
theorem rsum_count {n : Nat} {l : List Nat} (hlt : ∀ x ∈ l, x < n) (g : Nat → Rat) :
    rsum l g = rsum (List.range n) (fun u => (l.count u : Rat) * g u) := by
  induction l with
  | nil =>
    rw [rsum_nil, rsum_zero]
    intro x _; simp
  | cons a t ih =>
    have ha := hlt a (List.mem_cons_self ..)
    rw [rsum_cons, ih (fun x hx => hlt x (List.mem_cons_of_mem _ hx))]
    have hsplit : ∀ u, ((List.count u (a :: t) : Nat) : Rat) * g u
        = (if u = a then g a else 0) + ((List.count u t : Nat) : Rat) * g u := by
      intro u
      rw [List.count_cons]
      by_cases h : u = a
      · subst h; simp; grind
      · have : ¬ a = u := fun h' => h h'.symm
        simp [h, this, Rat.zero_add]
    rw [rsum_congr (fun u _ => hsplit u), rsum_add, rsum_single, if_pos ha]

/-! ### PageRank -/

/-- total mass of a score vector over the nodes of the view -/
def vsum (vw : View) (s : List Rat) : Rat := rsum (List.range vw.n) (sget s)

theorem outDeg_eq (vw : View) (u : Nat) : vw.outDeg u = (vw.succ u).length := by
  simp [View.outDeg, View.succ]

/-- double counting: the mass received along in-edges is the mass sent along out-edges -/
theorem sum_incoming {vw : View} (hw : WellFormed vw) (s : List Rat) :
    rsum (List.range vw.n) (incoming vw s)
      = rsum (List.range vw.n) (fun u => if vw.outDeg u = 0 then 0 else sget s u) := by
  let g : Nat → Rat := fun u => if vw.outDeg u = 0 then 0 else sget s u / (vw.outDeg u : Rat)
  have h1 : rsum (List.range vw.n) (incoming vw s)
      = rsum (List.range vw.n) (fun v => rsum (List.range vw.n) (fun u => ((vw.pred v).count u : Rat) * g u)) := by
    apply rsum_congr
    intro v hv
    exact rsum_count (hw.2.1 v (List.mem_range.mp hv)) g
  rw [h1, rsum_comm]
  apply rsum_congr
  intro u hu
  have hu' := List.mem_range.mp hu
  have h2 : rsum (List.range vw.n) (fun v => ((vw.pred v).count u : Rat) * g u)
      = rsum (List.range vw.n) (fun v => g u * (((vw.succ u).count v : Nat) : Rat) * 1) := by
    apply rsum_congr
    intro v hv
    rw [hw.2.2 u v hu' (List.mem_range.mp hv)]
    grind
  have h3 : rsum (List.range vw.n) (fun v => g u * (((vw.succ u).count v : Nat) : Rat) * 1)
      = g u * rsum (List.range vw.n) (fun v => (((vw.succ u).count v : Nat) : Rat) * 1) := by
    rw [← rsum_mul_left]
    apply rsum_congr; intro v _; grind
  rw [h2, h3, ← rsum_count (hw.1 u hu') (fun _ => (1 : Rat)), rsum_const, ← outDeg_eq]
  show g u * (((vw.outDeg u : Nat) : Rat) * 1) = _
  by_cases hz : vw.outDeg u = 0
  · simp [g, hz]
  · have : ((vw.outDeg u : Nat) : Rat) ≠ 0 := by
      have : (0 : Rat) < ((vw.outDeg u : Nat) : Rat) := Rat.natCast_pos.mpr (by omega)
      grind
    simp only [g, hz, if_false]
    grind

theorem sget_prStep {vw : View} {cfg : PrConfig} {s : List Rat} {v : Nat} (hv : v < vw.n) :
    sget (prStep vw cfg s) v = prNext vw cfg s v := by
  simp [sget, prStep, prNext, List.getD_eq_getElem?_getD, List.getElem?_map, List.getElem?_range hv]

theorem length_prStep (vw : View) (cfg : PrConfig) (s : List Rat) : (prStep vw cfg s).length = vw.n := by
  simp [prStep]

/-- the mass after one round: `(1 − d) + d·(non-dangling mass + redistributed dangling mass)` -/
theorem vsum_prStep {vw : View} (hw : WellFormed vw) (hn : vw.n ≠ 0) (cfg : PrConfig) (s : List Rat) :
    vsum vw (prStep vw cfg s)
      = (1 - cfg.d) + cfg.d * (rsum (List.range vw.n) (fun u => if vw.outDeg u = 0 then 0 else sget s u)
          + (if cfg.dangling then danglingMass vw s else 0)) := by
  have hnr : (vw.n : Rat) ≠ 0 := by
    have : (0 : Rat) < (vw.n : Rat) := Rat.natCast_pos.mpr (by omega)
    grind
  unfold vsum
  rw [rsum_congr (fun v hv => sget_prStep (List.mem_range.mp hv))]
  have hform : ∀ v, prNext vw cfg s v
      = (1 - cfg.d) / (vw.n : Rat) + (cfg.d * incoming vw s v
          + cfg.d * (if cfg.dangling then danglingMass vw s / (vw.n : Rat) else 0)) := by
    intro v; simp only [prNext, prNextD]; grind
  rw [rsum_congr (fun v _ => hform v), rsum_add, rsum_add, rsum_const, rsum_const, rsum_mul_left,
    sum_incoming hw, List.length_range]
  cases cfg.dangling <;> simp <;> grind

theorem mass_split (vw : View) (s : List Rat) :
    rsum (List.range vw.n) (fun u => if vw.outDeg u = 0 then 0 else sget s u) + danglingMass vw s
      = vsum vw s := by
  unfold danglingMass vsum
  rw [← rsum_add]
  apply rsum_congr
  intro u _
  by_cases h : vw.outDeg u = 0 <;> simp [h, Rat.zero_add, Rat.add_zero]

theorem sget_prInit {vw : View} {i : Nat} (hi : i < vw.n) : sget (prInit vw) i = 1 / (vw.n : Rat) := by
  simp [sget, prInit, List.getD_eq_getElem?_getD, List.getElem?_replicate, hi]

theorem vsum_prInit {vw : View} (hn : vw.n ≠ 0) : vsum vw (prInit vw) = 1 := by
  have hnr : (vw.n : Rat) ≠ 0 := by
    have : (0 : Rat) < (vw.n : Rat) := Rat.natCast_pos.mpr (by omega)
    grind
  unfold vsum
  rw [rsum_congr (fun i hi => sget_prInit (List.mem_range.mp hi)), rsum_const, List.length_range]
  grind

/-- any property of score vectors that holds initially and is preserved by a round holds
for the result of the whole loop (whatever the early exit does) -/
theorem prLoop_invariant (vw : View) (cfg : PrConfig) (P : List Rat → Prop)
    (hstep : ∀ s, P s → P (prStep vw cfg s)) : ∀ (k : Nat) (s : List Rat), P s → P (prLoop vw cfg k s) := by
  intro k
  induction k with
  | zero => intro s h; exact h
  | succ k ih =>
    intro s h
    simp only [prLoop]
    split
    · exact hstep s h
    · exact ih _ (hstep s h)

theorem div_nonneg' {a b : Rat} (ha : 0 ≤ a) (hb : 0 < b) : 0 ≤ a / b := by
  rw [Rat.div_def]
  exact Rat.mul_nonneg ha (Rat.le_of_lt (Rat.inv_pos.mpr hb))

theorem prNext_nonneg {vw : View} (hn : vw.n ≠ 0) (cfg : PrConfig) (hd0 : 0 ≤ cfg.d) (hd1 : cfg.d ≤ 1)
    (s : List Rat) (hs : ∀ i, 0 ≤ sget s i) (v : Nat) : 0 ≤ prNext vw cfg s v := by
  have hnpos : (0 : Rat) < (vw.n : Rat) := Rat.natCast_pos.mpr (by omega)
  have h1 : 0 ≤ (1 - cfg.d) / (vw.n : Rat) := div_nonneg' (by grind) hnpos
  have h2 : 0 ≤ incoming vw s v := by
    apply rsum_nonneg
    intro u _
    by_cases hz : vw.outDeg u = 0
    · simp [hz] <;> exact Rat.le_refl
    · simp only [hz, if_false]
      exact div_nonneg' (hs u) (Rat.natCast_pos.mpr (by omega))
  have h3 : 0 ≤ danglingMass vw s := by
    apply rsum_nonneg
    intro u _
    by_cases hz : vw.outDeg u = 0
    · simp [hz] <;> exact hs u
    · simp [hz] <;> exact Rat.le_refl
  have h4 : 0 ≤ (if cfg.dangling then danglingMass vw s / (vw.n : Rat) else 0) := by
    split
    · exact div_nonneg' h3 hnpos
    · exact Rat.le_refl
  simp only [prNext, prNextD]
  exact Rat.add_nonneg h1 (Rat.mul_nonneg hd0 (Rat.add_nonneg h2 h4))

end SgModel.Iter
