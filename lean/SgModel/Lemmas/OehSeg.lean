import SgModel.Model.Oeh
/-! Segment tree over a commutative monoid: the bottom-up range query returns the fold of the
leaves in the range; `build` and `set` establish / preserve the node recurrence. -/
namespace SgModel.Oeh

/-- commutative monoid laws of `RollupOp::combine` (MIN, MAX; identity `Null`) -/
structure CMon (f : RV → RV → RV) : Prop where
  assoc : ∀ a b c, f (f a b) c = f a (f b c)
  comm : ∀ a b, f a b = f b a
  idl : ∀ a, f .null a = a

theorem CMon.idr {f : RV → RV → RV} (M : CMon f) (a : RV) : f a .null = a := by
  rw [M.comm, M.idl]

theorem cmon_min : CMon Op.min.combine where
  assoc := by
    intro a b c
    cases a <;> cases b <;> cases c <;> simp only [Op.combine] <;> try rfl
    rename_i x y z
    congr 1; (repeat' split) <;> omega
  comm := by
    intro a b
    cases a <;> cases b <;> simp only [Op.combine] <;> try rfl
    rename_i x y
    congr 1; split <;> split <;> omega
  idl := by intro a; cases a <;> rfl

theorem cmon_max : CMon Op.max.combine where
  assoc := by
    intro a b c
    cases a <;> cases b <;> cases c <;> simp only [Op.combine] <;> try rfl
    rename_i x y z
    congr 1; (repeat' split) <;> omega
  comm := by
    intro a b
    cases a <;> cases b <;> simp only [Op.combine] <;> try rfl
    rename_i x y
    congr 1; split <;> split <;> omega
  idl := by intro a; cases a <;> rfl

/-- fold of `g l, g (l+1), …, g (l+c-1)` -/
def segS (f : RV → RV → RV) (g : Nat → RV) : Nat → Nat → RV
  | _, 0 => .null
  | l, c + 1 => f (g l) (segS f g (l + 1) c)

theorem segS_congr {f : RV → RV → RV} {g g' : Nat → RV} : ∀ (c l : Nat),
    (∀ i, l ≤ i → i < l + c → g i = g' i) → segS f g l c = segS f g' l c := by
  intro c
  induction c with
  | zero => intro l _; rfl
  | succ c ih =>
    intro l h
    simp only [segS]
    rw [h l (Nat.le_refl _) (by omega), ih (l + 1) (fun i h1 h2 => h i (by omega) (by omega))]

theorem segS_snoc {f : RV → RV → RV} (M : CMon f) (g : Nat → RV) : ∀ (c l : Nat),
    segS f g l (c + 1) = f (segS f g l c) (g (l + c)) := by
  intro c
  induction c with
  | zero => intro l; simp only [segS, M.idr, M.idl, Nat.add_zero]
  | succ c ih =>
    intro l
    rw [segS, ih (l + 1), ← M.assoc]
    have : l + 1 + c = l + (c + 1) := by omega
    rw [this]
    rfl

theorem segS_halve {f : RV → RV → RV} (M : CMon f) (g : Nat → RV) : ∀ (c a : Nat),
    segS f g (2 * a) (2 * c) = segS f (fun j => f (g (2 * j)) (g (2 * j + 1))) a c := by
  intro c
  induction c with
  | zero => intro a; rfl
  | succ c ih =>
    intro a
    have h1 : 2 * (c + 1) = (2 * c + 1) + 1 := by omega
    rw [h1]
    simp only [segS]
    have h2 : 2 * a + 1 + 1 = 2 * (a + 1) := by omega
    rw [h2, ih (a + 1), M.assoc]

/-- the node recurrence `tree[j] = combine(tree[2j], tree[2j+1])` on `1 ≤ j < size` -/
def SegRec (f : RV → RV → RV) (t : List RV) (size : Nat) : Prop :=
  ∀ j, 1 ≤ j → j < size → t.getD j .null = f (t.getD (2 * j) .null) (t.getD (2 * j + 1) .null)

/-- the bottom-up loop folds exactly the cells `[l, r)` of the current level into `acc` -/
theorem segRangeLoop_eq (op : Op) (M : CMon op.combine) (t : List RV) (size : Nat)
    (hrec : SegRec op.combine t size) :
    ∀ (fuel l r : Nat) (acc : RV), 1 ≤ l → l ≤ r → r ≤ 2 * size → r ≤ fuel →
      segRangeLoop op t fuel l r acc
        = op.combine acc (segS op.combine (fun i => t.getD i .null) l (r - l)) := by
  intro fuel
  induction fuel with
  | zero =>
    intro l r acc hl hlr _ hf
    have : r - l = 0 := by omega
    simp [segRangeLoop, this, segS, M.idr]
  | succ fuel ih =>
    intro l r acc hl hlr hr hf
    simp only [segRangeLoop]
    by_cases hlt : l < r
    · simp only [hlt, if_true]
      generalize hg : (fun i => t.getD i RV.null) = g
      have hgi : ∀ i, t.getD i .null = g i := fun i => by rw [← hg]
      -- the halving step, for even bounds
      have halve : ∀ (a b : Nat) (acc' : RV), 1 ≤ a → a ≤ b → b ≤ size → b ≤ fuel →
          segRangeLoop op t fuel a b acc'
            = op.combine acc' (segS op.combine g (2 * a) (2 * b - 2 * a)) := by
        intro a b acc' ha hab hb hbf
        rw [ih a b acc' ha hab (by omega) hbf, hg]
        have : 2 * b - 2 * a = 2 * (b - a) := by omega
        rw [this, segS_halve M g (b - a) a]
        congr 1
        apply segS_congr
        intro j hj1 hj2
        have := hrec j (by omega) (by omega)
        rw [hgi, hgi, hgi] at this
        exact this
      rcases Nat.mod_two_eq_zero_or_one l with hl2 | hl2 <;>
        rcases Nat.mod_two_eq_zero_or_one r with hr2 | hr2
      · -- l even, r even
        have e1 : ¬ l % 2 = 1 := by omega
        have e2 : ¬ r % 2 = 1 := by omega
        simp only [e1, e2, if_false]
        rw [halve (l / 2) (r / 2) acc (by omega) (by omega) (by omega) (by omega)]
        have a1 : 2 * (l / 2) = l := by omega
        have a2 : 2 * (r / 2) = r := by omega
        rw [a1, a2]
      · -- l even, r odd
        have e1 : ¬ l % 2 = 1 := by omega
        simp only [e1, hr2, if_false, if_true]
        rw [halve (l / 2) ((r - 1) / 2) _ (by omega) (by omega) (by omega) (by omega)]
        have a1 : 2 * (l / 2) = l := by omega
        have a2 : 2 * ((r - 1) / 2) = r - 1 := by omega
        rw [a1, a2, hgi]
        have a3 : r - l = (r - 1 - l) + 1 := by omega
        rw [a3, segS_snoc M g (r - 1 - l) l]
        have a4 : l + (r - 1 - l) = r - 1 := by omega
        rw [a4, M.assoc, M.comm (g (r - 1)), ]
      · -- l odd, r even
        have e2 : ¬ r % 2 = 1 := by omega
        simp only [hl2, e2, if_false, if_true]
        rw [halve ((l + 1) / 2) (r / 2) _ (by omega) (by omega) (by omega) (by omega)]
        have a1 : 2 * ((l + 1) / 2) = l + 1 := by omega
        have a2 : 2 * (r / 2) = r := by omega
        rw [a1, a2, hgi]
        have a3 : r - l = (r - (l + 1)) + 1 := by omega
        rw [a3, segS, M.assoc]
      · -- l odd, r odd
        simp only [hl2, hr2, if_true]
        rw [halve ((l + 1) / 2) ((r - 1) / 2) _ (by omega) (by omega) (by omega) (by omega)]
        have a1 : 2 * ((l + 1) / 2) = l + 1 := by omega
        have a2 : 2 * ((r - 1) / 2) = r - 1 := by omega
        rw [a1, a2, hgi, hgi]
        have a3 : r - l = ((r - 1 - (l + 1)) + 1) + 1 := by omega
        rw [a3, segS, segS_snoc M g (r - 1 - (l + 1)) (l + 1)]
        have a4 : l + 1 + (r - 1 - (l + 1)) = r - 1 := by omega
        rw [a4]
        -- acc ⊕ g l ⊕ g (r-1) ⊕ S = acc ⊕ (g l ⊕ (S ⊕ g (r-1)))
        rw [M.assoc, M.assoc, M.comm (g (r - 1))]
    · have : r - l = 0 := by omega
      simp [hlt, this, segS, M.idr]

theorem segS_shift (f : RV → RV → RV) (g : Nat → RV) (k : Nat) : ∀ (c l : Nat),
    segS f g (k + l) c = segS f (fun j => g (k + j)) l c := by
  intro c
  induction c with
  | zero => intro l; rfl
  | succ c ih =>
    intro l
    simp only [segS]
    have : k + l + 1 = k + (l + 1) := by omega
    rw [this, ih (l + 1)]

/-! ### the invariant of a segment tree -/

structure SegInv (s : Seg) (leaf : Nat → RV) : Prop where
  len : s.tree.length = 2 * s.size
  pos : 1 ≤ s.size
  nle : s.n ≤ s.size
  hrec : SegRec s.op.combine s.tree s.size
  leaves : ∀ j, j < s.size → s.tree.getD (s.size + j) .null = leaf j

/-- `SegmentTree::range(lo, hi)` = fold of the leaves `lo ..= hi` -/
theorem seg_range_eq {s : Seg} {leaf : Nat → RV} (M : CMon s.op.combine) (I : SegInv s leaf)
    (hid : s.op.identity = .null) (lo hi : Nat) (hlo : lo ≤ hi) (hhi : hi < s.n) :
    s.range lo hi = segS s.op.combine leaf lo (hi - lo + 1) := by
  unfold Seg.range
  have hn := I.nle
  have c1 : ¬ (hi < lo ∨ s.n ≤ lo) := by omega
  have c2 : min hi (s.n - 1) = hi := by omega
  simp only [c1, if_false, c2, hid]
  rw [segRangeLoop_eq s.op M s.tree s.size I.hrec (2 * s.size + 1) (lo + s.size)
    (hi + s.size + 1) .null (by have := I.pos; omega) (by omega) (by omega) (by omega), M.idl]
  have e1 : hi + s.size + 1 - (lo + s.size) = hi - lo + 1 := by omega
  have e2 : lo + s.size = s.size + lo := by omega
  rw [e1, e2, segS_shift]
  apply segS_congr
  intro i h1 h2
  exact I.leaves i (by omega)

/-! ### build -/

theorem getD_set_ne (t : List RV) (k i : Nat) (v : RV) (h : k ≠ i) :
    (t.set k v).getD i .null = t.getD i .null := by
  simp [List.getD_eq_getElem?_getD, List.getElem?_set_ne h]

theorem getD_set_self (t : List RV) (k : Nat) (v : RV) (h : k < t.length) :
    (t.set k v).getD k .null = v := by
  simp [List.getD_eq_getElem?_getD, h]

def RecAt (f : RV → RV → RV) (t : List RV) (j : Nat) : Prop :=
  t.getD j .null = f (t.getD (2 * j) .null) (t.getD (2 * j + 1) .null)

/-- setting cell `k ≥ 1` from its children makes the recurrence hold at `k` and keeps it at
every node that does not have `k` as a child -/
theorem recAt_after_set (f : RV → RV → RV) (t : List RV) (k : Nat) (hk : 1 ≤ k)
    (hlen : k < t.length) :
    let t1 := t.set k (f (t.getD (2 * k) .null) (t.getD (2 * k + 1) .null))
    RecAt f t1 k ∧ ∀ j, j ≠ k → 2 * j ≠ k → 2 * j + 1 ≠ k → RecAt f t j → RecAt f t1 j := by
  intro t1
  constructor
  · unfold RecAt
    rw [getD_set_self t k _ hlen, getD_set_ne t k (2 * k) _ (by omega),
      getD_set_ne t k (2 * k + 1) _ (by omega)]
  · intro j h1 h2 h3 hr
    unfold RecAt
    rw [getD_set_ne t k j _ (Ne.symm h1), getD_set_ne t k (2 * j) _ (Ne.symm h2),
      getD_set_ne t k (2 * j + 1) _ (Ne.symm h3)]
    exact hr

theorem segFill_spec (op : Op) (size : Nat) : ∀ (m : Nat) (t : List RV), m ≤ size →
    size ≤ t.length → (∀ j, m ≤ j → j < size → RecAt op.combine t j) →
    (segFill op m t).length = t.length
    ∧ (∀ i, size ≤ i → (segFill op m t).getD i .null = t.getD i .null)
    ∧ (∀ j, 1 ≤ j → j < size → RecAt op.combine (segFill op m t) j) := by
  intro m
  induction m with
  | zero => intro t _ _ h; exact ⟨rfl, fun _ _ => rfl, fun j _ hj => h j (by omega) hj⟩
  | succ k ih =>
    intro t hm hlen h
    simp only [segFill]
    by_cases hk : k = 0
    · have e : (if k = 0 then t else segFill op k
          (t.set k (op.combine (t.getD (2 * k) .null) (t.getD (2 * k + 1) .null)))) = t := by
        simp [hk]
      rw [e]
      exact ⟨rfl, fun _ _ => rfl, fun j h1 hj => h j (by omega) hj⟩
    · simp only [hk, if_false]
      have hset := recAt_after_set op.combine t k (by omega) (by omega)
      obtain ⟨ih1, ih2, ih3⟩ := ih (t.set k _) (by omega) (by simp; omega) (by
        intro j hj1 hj2
        by_cases hjk : j = k
        · subst hjk; exact hset.1
        · exact hset.2 j hjk (by omega) (by omega) (h j (by omega) hj2))
      refine ⟨by rw [ih1]; simp, ?_, ih3⟩
      intro i hi
      rw [ih2 i hi, getD_set_ne t k i _ (by omega)]

theorem nextPow2Loop_ge (n : Nat) : ∀ (f p : Nat), 1 ≤ p → n ≤ p * 2 ^ f →
    n ≤ nextPow2Loop f p n ∧ 1 ≤ nextPow2Loop f p n := by
  intro f
  induction f with
  | zero => intro p hp h; simp only [nextPow2Loop]; omega
  | succ f ih =>
    intro p hp h
    simp only [nextPow2Loop]
    split
    · omega
    · have e : p * 2 ^ (f + 1) = 2 * p * 2 ^ f := by rw [Nat.pow_succ]; ac_rfl
      exact ih (2 * p) (by omega) (by rw [← e]; exact h)

theorem nextPow2_ge (n : Nat) : n ≤ nextPow2 n ∧ 1 ≤ nextPow2 n := by
  unfold nextPow2
  exact nextPow2Loop_ge n n 1 (Nat.le_refl _) (by have := @Nat.lt_two_pow_self n; omega)

/-- `SegmentTree::build` establishes the invariant for the leaf vector `vals` -/
theorem seg_build_inv (vals : List RV) (op : Op) (hid : op.identity = .null) :
    SegInv (Seg.build vals op) (fun j => vals.getD j .null) ∧ (Seg.build vals op).op = op
    ∧ (Seg.build vals op).n = vals.length := by
  have hp := nextPow2_ge (max vals.length 1)
  let size := nextPow2 (max vals.length 1)
  have hn : vals.length ≤ size := by omega
  have h1 : 1 ≤ size := hp.2
  let t0 := List.replicate size op.identity ++ vals ++ List.replicate (size - vals.length) op.identity
  have ht0 : t0.length = 2 * size := by simp [t0]; omega
  have spec := segFill_spec op size size t0 (Nat.le_refl _) (by omega) (fun j h1 h2 => by omega)
  refine ⟨⟨?_, h1, hn, spec.2.2, ?_⟩, rfl, rfl⟩
  · show (segFill op size t0).length = 2 * size
    rw [spec.1, ht0]
  · intro j hj
    have hj' : j < size := hj
    show (segFill op size t0).getD (size + j) .null = vals.getD j .null
    rw [spec.2.1 (size + j) (by omega)]
    simp only [t0, List.getD_eq_getElem?_getD, List.append_assoc]
    rw [List.getElem?_append_right (by simp)]
    simp only [List.length_replicate, Nat.add_sub_cancel_left]
    by_cases hjn : j < vals.length
    · rw [List.getElem?_append_left hjn]
    · rw [List.getElem?_append_right (by omega), List.getElem?_replicate]
      have : j - vals.length < size - vals.length := by omega
      simp [this, hid, List.getElem?_eq_none (Nat.le_of_not_lt hjn)]

end SgModel.Oeh
