import SgModel.Lemmas.SnapLidxImport
/-!
`LidxExact` implies the executable `lidxOk`; the failure half of C13 with the label index.
-/
namespace SgModel.SnapJson

/-! ### `LidxExact` implies the executable `lidxOk` -/

theorem lookup_of_mem_nodup {ix : Ix} (hk : (ix.map (·.1)).Nodup) {e : Str × List Nat} (he : e ∈ ix) :
    lookup e.1 ix = some e.2 := by
  induction ix with
  | nil => simp at he
  | cons a r ih =>
    obtain ⟨l0, ids⟩ := a
    simp only [List.map_cons, List.nodup_cons] at hk
    rcases List.mem_cons.mp he with q | q
    · subst q; simp [lookup]
    · have hne : l0 ≠ e.1 := fun c => hk.1 (c ▸ List.mem_map_of_mem q)
      have : (l0 == e.1) = false := by simp [hne]
      simp only [lookup, this, Bool.false_eq_true, ↓reduceIte]
      exact ih hk.2 q

theorem getNode_of_mem_nodup {st : St} (hnd : (nodeIds st).Nodup) {m : NodeS} (hm : m ∈ st.nodes) :
    getNode m.id st = some m := by
  obtain ⟨n, hn⟩ := getNode_isSome_of_mem (st := st) (id := m.id) (List.mem_map_of_mem hm)
  rw [hn, unique_of_getNode hnd hn m hm rfl]

theorem lidxOk_of_exact {st : St} (h : LidxExact st) (hnd : (nodeIds st).Nodup) : lidxOk st = true := by
  unfold lidxOk
  simp only [Bool.and_eq_true, List.all_eq_true, List.contains_iff_mem]
  constructor
  · intro n hn l hl
    exact (h.ext l n.id).mpr ⟨n, hn, rfl, hl⟩
  · intro e he id hid
    have hlk : id ∈ lk e.1 st.lidx := by
      unfold lk; rw [lookup_of_mem_nodup h.wf.keys he]; exact hid
    obtain ⟨m, hm, h1, h2⟩ := (h.ext e.1 id).mp hlk
    have := getNode_of_mem_nodup hnd hm
    rw [h1] at this
    simp [this, h2]

/-! ### the failure half of C13, label index included -/

theorem failed_import_lidx (ks hdr : List Str) (st : St) (lines : List Line) (hwf : StoreWF2 st)
    (hix : LidxExact st) (hfail : (importLines false true ks hdr st lines).2 = none) :
    LidxExact (importLines false true ks hdr st lines).1
    ∧ lidxOk (importLines false true ks hdr st lines).1 = true := by
  have hnodes := (failed_import_restores ks hdr st lines hwf hfail).1
  have hex := exact_fold (jr := true) ks lines
    { st := st, dedup := if ks.isEmpty then [] else prepopulate ks hdr st } hix
  have hinv := uinv_fold (st0 := st) ks lines
    { st := st, dedup := if ks.isEmpty then [] else prepopulate ks hdr st } (uinv_init hwf _)
  have hexact : LidxExact (importLines false true ks hdr st lines).1 := by
    unfold importLines at hfail ⊢
    simp only at hfail ⊢
    cases hf : foldLines false true ks
        { st := st, dedup := if ks.isEmpty then [] else prepopulate ks hdr st } lines with
    | mk s ok =>
      rw [hf] at hinv hfail hex
      cases ok with
      | true => exact absurd hfail (by intro h; cases h)
      | false => exact exact_rollback hex hinv.nd
  refine ⟨hexact, lidxOk_of_exact hexact ?_⟩
  unfold nodeIds; rw [hnodes]; exact hwf.nd

theorem failed_import_spec (ks hdr : List Str) (st : St) (lines : List Line) (hwf : StoreWF2 st)
    (hix : LidxExact st) (hfail : (importLines false true ks hdr st lines).2 = none) :
    specImport ks hdr st lines false (importLines false true ks hdr st lines).1 = true := by
  obtain ⟨a, b, c⟩ := failed_import_restores ks hdr st lines hwf hfail
  have hl : logical (importLines false true ks hdr st lines).1 = logical st := by
    unfold logical nodeIds; rw [a, b, c]
  have hi := (failed_import_lidx ks hdr st lines hwf hix hfail).2
  simp only [specImport, Bool.false_eq_true, ↓reduceIte, hl, lgEqv_refl, hi, Bool.and_self]

end SgModel.SnapJson
