import SgModel.Lemmas.WalFlipTail
/-! C15 — every file of a reachable directory is whole records followed by nothing or by a proper
prefix of the frame of an *appended* record, all satisfying the prefix-free decoder contract.
(The invariant `Inv` only remembers the frame-length bound of the tail's record.)  Core Lean only. -/
namespace SgModel.Wal

def PFFile (dec : Dec) (f : File) : Prop :=
  (∀ r ∈ recsOf dec f, PFRec dec r) ∧ ∃ t, f.data = frames (recsOf dec f) ++ t ∧ TailPF dec t

def PFDir (dec : Dec) (s : State) : Prop := ∀ f ∈ dir s, PFFile dec f

/-- entries handed to `append`, prefix-free form of the contract -/
def PFEntry (dec : Dec) (e : Bytes) : Prop :=
  WFEntry dec e ∧ ∀ m, m < e.length → dec (e.take m) = none

theorem cutRecs_tailPF {dec : Dec} : ∀ (rs : List Rec) (k : Nat), (∀ r ∈ rs, PFRec dec r) →
    TailPF dec (cutRecs rs k).2
  | [], _, _ => Or.inl (by simp [cutRecs])
  | r :: rs, k, h => by
    simp only [cutRecs]
    split
    · exact cutRecs_tailPF rs _ (fun x hx => h x (by simp [hx]))
    · rename_i hk
      exact Or.inr ⟨r, k, h r (by simp), by rw [frame_length]; omega, rfl⟩

theorem pfdir_append {dec : Dec} {s : State} {e : Bytes} (h : Inv dec s) (hp : PFDir dec s)
    (he : PFRec dec ⟨s.seq + 1, e⟩) : PFDir dec (append s e) := by
  cases hc : s.cur with
  | none =>
    have hd : (⟨s.seq + 1, frame ⟨s.seq + 1, e⟩⟩ : File).data = frames [⟨s.seq + 1, e⟩] ++ [] := by
      simp [frames]
    have hw : ∀ r ∈ [(⟨s.seq + 1, e⟩ : Rec)], WFRec dec r := by simp [he.1]
    have hr := recsOf_eq hw torn_nil hd
    intro f hf
    simp only [append, hc, dir, Option.toList, List.nil_append, List.mem_append, List.mem_singleton] at hf
    rcases hf with hf | rfl
    · exact hp f (by simp [dir, hc, hf])
    · exact ⟨by rw [hr]; simp [he], [], by rw [hr]; exact hd, Or.inl rfl⟩
  | some f0 =>
    obtain ⟨rs, hw, hd⟩ := h.whole f0 hc
    have hrf : recsOf dec f0 = rs := recsOf_eq hw torn_nil (by simpa using hd)
    have hf0 : f0 ∈ dir s := by simp [dir, hc]
    have hw' : ∀ r ∈ rs ++ [(⟨s.seq + 1, e⟩ : Rec)], WFRec dec r := by
      intro r hr; rcases List.mem_append.mp hr with hr | hr
      · exact hw r hr
      · simp at hr; subst hr; exact he.1
    have hd' : ({ f0 with data := f0.data ++ frame ⟨s.seq + 1, e⟩ } : File).data
        = frames (rs ++ [⟨s.seq + 1, e⟩]) ++ [] := by
      simp [frames_append, frames, hd]
    have hr' := recsOf_eq hw' torn_nil hd'
    intro f hf
    simp only [append, hc, dir, Option.toList, List.mem_append, List.mem_singleton] at hf
    rcases hf with hf | rfl
    · exact hp f (by simp [dir, hf])
    · refine ⟨?_, [], by rw [hr']; exact hd', Or.inl rfl⟩
      rw [hr']
      intro r hr
      rcases List.mem_append.mp hr with hr | hr
      · exact (hp f0 hf0).1 r (by rw [hrf]; exact hr)
      · simp at hr; subst hr; exact he

theorem dir_flush (s : State) : dir (flush s) = dir s := by
  unfold flush; split <;> simp_all [dir]

theorem dir_reopen (m : Mode) (dec : Dec) (s : State) : dir (reopen m dec s) = dir s := by
  simp [reopen, dir, close]

theorem pfdir_crash {dec : Dec} {s : State} (k : Nat) (h : Inv dec s) (hp : PFDir dec s) :
    PFDir dec (crash Mode.fixed dec s k) := by
  unfold crash
  cases hc : s.cur with
  | none => intro f hf; rw [dir_reopen] at hf; exact hp f hf
  | some f0 =>
    simp only
    obtain ⟨rs, hw, hd⟩ := h.whole f0 hc
    have hrf : recsOf dec f0 = rs := recsOf_eq hw torn_nil (by simpa using hd)
    have hf0 : f0 ∈ dir s := by simp [dir, hc]
    have hpf : ∀ r ∈ rs, PFRec dec r := fun r hr => (hp f0 hf0).1 r (by rw [hrf]; exact hr)
    generalize max s.flushed (min k f0.data.length) = k'
    have hw' : ∀ r ∈ rs.take (fitCount rs k'), WFRec dec r := fun r hr => hw r (List.mem_of_mem_take hr)
    have hd' : ({ f0 with data := f0.data.take k' } : File).data
        = frames (rs.take (fitCount rs k')) ++ (cutRecs rs k').2 := by
      simp only [hd, take_frames, cutRecs_fst]
    have ht := cutRecs_torn rs k' (fun r hr => (hw r hr).2.1)
    have hr' := recsOf_eq hw' ht hd'
    intro f hf
    rw [dir_reopen] at hf
    simp only [dir, Option.toList, List.mem_append, List.mem_singleton] at hf
    rcases hf with hf | rfl
    · exact hp f (by simp [dir, hf])
    · exact ⟨by rw [hr']; exact fun r hr => hpf r (List.mem_of_mem_take hr),
        _, by rw [hr']; exact hd', cutRecs_tailPF rs k' hpf⟩

theorem pfdir_step {dec : Dec} {s : State} {n : Nat} (op : Op) (h : Inv dec s) (hp : PFDir dec s)
    (hn : s.seq ≤ n) (hN : n + 1 < 256 ^ 8) (he : ∀ e ∈ opEntries [op], PFEntry dec e) :
    PFDir dec (step Mode.fixed dec s op) := by
  cases op with
  | append e =>
    have hwe := he e (by simp [opEntries])
    exact pfdir_append h hp ⟨⟨by show s.seq + 1 < 256 ^ 8; omega, hwe.1.1, hwe.1.2⟩, hwe.2⟩
  | checkpoint e =>
    have hwe := he e (by simp [opEntries])
    have := pfdir_append h hp ⟨⟨by show s.seq + 1 < 256 ^ 8; omega, hwe.1.1, hwe.1.2⟩, hwe.2⟩
    intro f hf
    simp only [step, dir_close, dir_flush] at hf
    exact this f hf
  | flush => intro f hf; simp only [step, dir_flush] at hf; exact hp f hf
  | reopen => intro f hf; simp only [step, dir_reopen] at hf; exact hp f hf
  | crash k => exact pfdir_crash k h hp
  | setSync b => intro f hf; exact hp f (by simpa [step, dir] using hf)

theorem pfdir_foldl {dec : Dec} : ∀ (ops : List Op) (s : State) (n : Nat), Inv dec s → PFDir dec s →
    s.seq ≤ n → n + ops.length < 256 ^ 8 → (∀ e ∈ opEntries ops, PFEntry dec e) →
    PFDir dec (ops.foldl (step Mode.fixed dec) s)
  | [], _, _, _, hp, _, _, _ => hp
  | op :: ops, s, n, h, hp, hn, hN, he => by
    rw [opEntries_cons] at he
    have hN' : n + 1 + ops.length < 256 ^ 8 := by simp at hN; omega
    have h1 := inv_step op h hn (by omega) (fun e he' => (he e (List.mem_append_left _ he')).1)
    have hp1 := pfdir_step op h hp hn (by omega) (fun e he' => he e (List.mem_append_left _ he'))
    exact pfdir_foldl ops _ (n + 1) h1.1 hp1 h1.2 hN' (fun e he' => he e (List.mem_append_right _ he'))

theorem pfdir_run {dec : Dec} (ops : List Op) (hN : ops.length < 256 ^ 8)
    (he : ∀ e ∈ opEntries ops, PFEntry dec e) : PFDir dec (run Mode.fixed dec ops) :=
  pfdir_foldl ops {} 0 (inv_init dec) (by intro f hf; simp [dir] at hf) (Nat.le_refl _)
    (by simpa using hN) he

end SgModel.Wal
