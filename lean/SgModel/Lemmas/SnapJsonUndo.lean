import SgModel.Lemmas.SnapRollback
/-!
C13, failure half **with dedup keys**: the undo journal of the merge path really undoes every
merge it recorded, so a failed import gives back the original logical graph.

`undoN` / `undoE` are the node part and the relationship part of `undo1`.  The invariant
(`UInv`) says: undoing the journal on the *pre-existing* nodes (ids below the original
allocation counter) yields the original node list; the nodes at or above the counter are
exactly the created ones; every added relationship has a created endpoint or a journal entry.
-/
namespace SgModel.SnapJson

/-! ### projections of `undo1` -/

def undoN (ns : List NodeS) : Undo → List NodeS
  | .col id k => ns.map (fun n => if n.id == id then { n with col := eraseKV k n.col } else n)
  | .row id k => ns.map (fun n => if n.id == id then { n with row := eraseKV k n.row } else n)
  | .label id l =>
      ns.map (fun n => if n.id == id then { n with labels := n.labels.filter (fun x => !(x == l)) } else n)
  | .edge _ => ns

def undoE (es : List EdgeS) : Undo → List EdgeS
  | .edge eid => es.filter (fun e => !(e.id == eid))
  | _ => es

theorem undo1_nodes (st : St) (u : Undo) : (undo1 st u).nodes = undoN st.nodes u := by
  cases u <;> rfl

theorem undo1_edges (st : St) (u : Undo) : (undo1 st u).edges = undoE st.edges u := by
  cases u <;> rfl

theorem undo1_hier (st : St) (u : Undo) : (undo1 st u).hier = st.hier := by
  cases u <;> rfl

theorem foldl_undo1_nodes (j : List Undo) : ∀ (st : St),
    (j.foldl undo1 st).nodes = j.foldl undoN st.nodes := by
  induction j with
  | nil => intro st; rfl
  | cons u r ih => intro st; simp only [List.foldl_cons, ih, undo1_nodes]

theorem foldl_undo1_edges (j : List Undo) : ∀ (st : St),
    (j.foldl undo1 st).edges = j.foldl undoE st.edges := by
  induction j with
  | nil => intro st; rfl
  | cons u r ih => intro st; simp only [List.foldl_cons, ih, undo1_edges]

theorem foldl_undo1_hier (j : List Undo) : ∀ (st : St), (j.foldl undo1 st).hier = st.hier := by
  induction j with
  | nil => intro st; rfl
  | cons u r ih => intro st; simp only [List.foldl_cons, ih, undo1_hier]

/-- "pre-existing": the id is below the allocation counter the import started from -/
def isPre (N0 : Nat) (n : NodeS) : Bool := decide (n.id < N0)

theorem filter_map_keepId (N0 : Nat) (g : NodeS → NodeS) (hg : ∀ n, (g n).id = n.id) (ns : List NodeS) :
    (ns.map g).filter (isPre N0) = (ns.filter (isPre N0)).map g := by
  induction ns with
  | nil => rfl
  | cons n r ih =>
    simp only [List.map_cons, List.filter_cons, isPre, hg]
    by_cases h : n.id < N0
    · simp only [h, decide_true, ↓reduceIte, List.map_cons, List.cons.injEq, true_and]
      exact ih
    · simp only [h, decide_false, Bool.false_eq_true, ↓reduceIte]
      exact ih

theorem map_keepId_ids (g : NodeS → NodeS) (hg : ∀ n, (g n).id = n.id) (ns : List NodeS) :
    (ns.map g).map (·.id) = ns.map (·.id) := by
  rw [List.map_map]; congr 1; funext n; exact hg n

/-- every `undoN` is an id-preserving map -/
theorem undoN_eq_map (u : Undo) : ∃ g : NodeS → NodeS, (∀ n, (g n).id = n.id) ∧ ∀ ns, undoN ns u = ns.map g := by
  cases u with
  | col id k =>
    refine ⟨fun n => if n.id == id then { n with col := eraseKV k n.col } else n, ?_, fun _ => rfl⟩
    intro n; by_cases h : (n.id == id) = true <;> simp [h]
  | row id k =>
    refine ⟨fun n => if n.id == id then { n with row := eraseKV k n.row } else n, ?_, fun _ => rfl⟩
    intro n; by_cases h : (n.id == id) = true <;> simp [h]
  | label id l =>
    refine ⟨fun n => if n.id == id then { n with labels := n.labels.filter (fun x => !(x == l)) } else n,
      ?_, fun _ => rfl⟩
    intro n; by_cases h : (n.id == id) = true <;> simp [h]
  | edge e => exact ⟨id, fun _ => rfl, fun ns => by simp [undoN]⟩

theorem undoN_filter (N0 : Nat) (ns : List NodeS) (u : Undo) :
    (undoN ns u).filter (isPre N0) = undoN (ns.filter (isPre N0)) u := by
  obtain ⟨g, hg, he⟩ := undoN_eq_map u
  rw [he, he, filter_map_keepId N0 g hg]

theorem undoN_ids (ns : List NodeS) (u : Undo) : (undoN ns u).map (·.id) = ns.map (·.id) := by
  obtain ⟨g, hg, he⟩ := undoN_eq_map u
  rw [he, map_keepId_ids g hg]

theorem foldl_undoN_filter (N0 : Nat) (j : List Undo) : ∀ (ns : List NodeS),
    (j.foldl undoN ns).filter (isPre N0) = j.foldl undoN (ns.filter (isPre N0)) := by
  induction j with
  | nil => intro ns; rfl
  | cons u r ih => intro ns; simp only [List.foldl_cons, ih, undoN_filter]

theorem foldl_undoN_ids (j : List Undo) : ∀ (ns : List NodeS),
    (j.foldl undoN ns).map (·.id) = ns.map (·.id) := by
  induction j with
  | nil => intro ns; rfl
  | cons u r ih => intro ns; simp only [List.foldl_cons, ih, undoN_ids]

/-! ### list facts -/

theorem eraseKV_append_new (k : Str) (v : PV) (l : List (Str × PV))
    (h : (keys l).contains k = false) : eraseKV k (l ++ [(k, v)]) = l := by
  unfold eraseKV
  rw [List.filter_append]
  have h1 : List.filter (fun kv => !(kv.1 == k)) l = l := by
    rw [List.filter_eq_self]
    intro kv hkv
    have : kv.1 ≠ k := by
      intro e
      have : k ∈ keys l := by rw [← e]; exact List.mem_map_of_mem hkv
      simp [List.contains_iff_mem, this] at h
    simp [this]
  rw [h1]
  simp

theorem filter_append_new (l : Str) (ls : List Str) (h : ls.contains l = false) :
    (ls ++ [l]).filter (fun x => !(x == l)) = ls := by
  rw [List.filter_append]
  have h1 : List.filter (fun x => !(x == l)) ls = ls := by
    rw [List.filter_eq_self]
    intro x hx
    have : x ≠ l := by
      intro e; subst e
      simp [List.contains_iff_mem, hx] at h
    simp [this]
  rw [h1]; simp

theorem unique_of_find (id : Nat) (n : NodeS) : ∀ (ns : List NodeS), (ns.map (·.id)).Nodup →
    ns.find? (fun m => m.id == id) = some n → ∀ m ∈ ns, m.id = id → m = n := by
  intro ns
  induction ns with
  | nil => intro _ hg; simp at hg
  | cons a r ih =>
    intro hnd hg m hm hid
    simp only [List.map_cons, List.nodup_cons] at hnd
    simp only [List.find?_cons] at hg
    by_cases ha : (a.id == id) = true
    · simp only [ha, Option.some.injEq] at hg
      subst hg
      simp only [List.mem_cons] at hm
      rcases hm with hm | hm
      · exact hm
      · exfalso
        apply hnd.1
        have : a.id = id := by simpa using ha
        rw [this, ← hid]
        exact List.mem_map_of_mem hm
    · have ha' : (a.id == id) = false := by simpa using ha
      simp only [ha'] at hg
      simp only [List.mem_cons] at hm
      rcases hm with hm | hm
      · subst hm; simp [hid] at ha
      · exact ih hnd.2 hg m hm hid

theorem unique_of_getNode {st : St} {id : Nat} {n : NodeS} (hnd : (nodeIds st).Nodup)
    (hg : getNode id st = some n) : ∀ m ∈ st.nodes, m.id = id → m = n :=
  unique_of_find id n st.nodes hnd hg

/-! ### "the new journal entries undo the new modifications" -/

/-- from `(st, j)` to `(st', j')`: the journal grew by entries whose undo takes the node list
back, none of them a relationship entry; relationships, hierarchies and counters untouched -/
def Undoes (st : St) (j : List Undo) (st' : St) (j' : List Undo) : Prop :=
  ∃ new, j' = new ++ j ∧ new.foldl undoN st'.nodes = st.nodes ∧ (∀ u ∈ new, ∀ e, u ≠ Undo.edge e)
    ∧ st'.edges = st.edges ∧ st'.hier = st.hier ∧ st'.nextNode = st.nextNode
    ∧ st'.nextEdge = st.nextEdge

theorem Undoes.refl (st : St) (j : List Undo) : Undoes st j st j :=
  ⟨[], rfl, rfl, by simp, rfl, rfl, rfl, rfl⟩

theorem Undoes.trans {st st1 st2 : St} {j j1 j2 : List Undo} (h1 : Undoes st j st1 j1)
    (h2 : Undoes st1 j1 st2 j2) : Undoes st j st2 j2 := by
  obtain ⟨n1, a1, b1, c1, d1, e1, f1, g1⟩ := h1
  obtain ⟨n2, a2, b2, c2, d2, e2, f2, g2⟩ := h2
  refine ⟨n2 ++ n1, ?_, ?_, ?_, d2.trans d1, e2.trans e1, f2.trans f1, g2.trans g1⟩
  · rw [a2, a1, List.append_assoc]
  · rw [List.foldl_append, b2, b1]
  · intro u hu
    rcases List.mem_append.mp hu with h | h
    · exact c2 u h
    · exact c1 u h

theorem Undoes.ids {st st' : St} {j j' : List Undo} (h : Undoes st j st' j') : nodeIds st' = nodeIds st := by
  obtain ⟨n, _, b, _⟩ := h
  unfold nodeIds
  rw [← b, foldl_undoN_ids]

/-- only nodes, relationships, hierarchies and counters matter -/
theorem Undoes.congr {st st' st'' : St} {j j' : List Undo} (h : Undoes st j st' j')
    (hn : st''.nodes = st'.nodes) (he : st''.edges = st'.edges) (hh : st''.hier = st'.hier)
    (h1 : st''.nextNode = st'.nextNode) (h2 : st''.nextEdge = st'.nextEdge) : Undoes st j st'' j' := by
  obtain ⟨n, a, b, c, d, e, f, g⟩ := h
  exact ⟨n, a, by rw [hn]; exact b, c, he.trans d, hh.trans e, h1.trans f, h2.trans g⟩

theorem undoes_upd (st : St) (j : List Undo) (id : Nat) (f g : NodeS → NodeS) (u : Undo)
    (hu : ∀ ns, undoN ns u = ns.map (fun n => if n.id == id then g n else n))
    (hne : ∀ e, u ≠ Undo.edge e) (hfid : ∀ m, (f m).id = m.id)
    (hgf : ∀ m ∈ st.nodes, m.id = id → g (f m) = m) :
    Undoes st j (updNode id f st) (u :: j) := by
  refine ⟨[u], rfl, ?_, ?_, rfl, rfl, rfl, rfl⟩
  · simp only [List.foldl_cons, List.foldl_nil, hu, updNode, List.map_map]
    have hmap : List.map ((fun n => if n.id == id then g n else n) ∘ fun n => if n.id == id then f n else n)
        st.nodes = List.map (fun x => x) st.nodes := by
      apply List.map_congr_left
      intro m hm
      simp only [Function.comp]
      by_cases h : (m.id == id) = true
      · have hid : m.id = id := by simpa using h
        simp only [h, ↓reduceIte, hfid]
        exact hgf m hm hid
      · have h' : (m.id == id) = false := by simpa using h
        simp [h']
    rw [hmap]; simp
  · intro v hv e
    simp only [List.mem_singleton] at hv
    subst hv; exact hne e

theorem mem_updNode {st : St} {id : Nat} {f : NodeS → NodeS} {m : NodeS} (hm : m ∈ (updNode id f st).nodes) :
    ∃ m' ∈ st.nodes, m = if m'.id == id then f m' else m' := by
  simp only [updNode, List.mem_map] at hm
  obtain ⟨m', h1, h2⟩ := hm
  exact ⟨m', h1, h2.symm⟩

theorem undoes_mergeProp (id : Nat) (st : St) (j : List Undo) (kv : Str × PV)
    (hnd : (nodeIds st).Nodup) :
    Undoes st j (mergeProp true id (st, j) kv).1 (mergeProp true id (st, j) kv).2 := by
  unfold mergeProp
  cases hg : getNode id st with
  | none => exact Undoes.refl st j
  | some n =>
    have huniq := unique_of_getNode hnd hg
    simp only [Bool.true_and]
    -- the two atomic updates
    have hcol : (!(keys n.col).contains kv.1 && !kv.2.isNull) = true →
        Undoes st j (updNode id (fun m => { m with col := m.col ++ [kv] }) st) (Undo.col id kv.1 :: j) := by
      intro hc
      refine undoes_upd st j id (fun m => { m with col := m.col ++ [kv] })
        (fun m => { m with col := eraseKV kv.1 m.col }) (Undo.col id kv.1) (fun _ => rfl)
        (fun e => by simp) (fun _ => rfl) ?_
      intro m hm hid
      have := huniq m hm hid
      subst this
      have habs : (keys m.col).contains kv.1 = false := by
        simp only [Bool.and_eq_true, Bool.not_eq_true'] at hc; exact hc.1
      show { m with col := eraseKV kv.1 (m.col ++ [(kv.1, kv.2)]) } = m
      rw [eraseKV_append_new kv.1 kv.2 m.col habs]
    have hrow : ∀ (st1 : St) (j1 : List Undo),
        (∀ m ∈ st1.nodes, m.id = id → m.row = n.row) →
        (!kv.2.isScalar && !(keys n.row).contains kv.1) = true →
        Undoes st1 j1 (updNode id (fun m => { m with row := m.row ++ [kv] }) st1) (Undo.row id kv.1 :: j1) := by
      intro st1 j1 hrows hr
      refine undoes_upd st1 j1 id (fun m => { m with row := m.row ++ [kv] })
        (fun m => { m with row := eraseKV kv.1 m.row }) (Undo.row id kv.1) (fun _ => rfl)
        (fun e => by simp) (fun _ => rfl) ?_
      intro m hm hid
      have habs : (keys m.row).contains kv.1 = false := by
        rw [hrows m hm hid]
        simp only [Bool.and_eq_true, Bool.not_eq_true'] at hr; exact hr.2
      show { m with row := eraseKV kv.1 (m.row ++ [(kv.1, kv.2)]) } = m
      rw [eraseKV_append_new kv.1 kv.2 m.row habs]
    by_cases hc : (!(keys n.col).contains kv.1 && !kv.2.isNull) = true
    · by_cases hr : (!kv.2.isScalar && !(keys n.row).contains kv.1) = true
      · simp only [hc, hr, ↓reduceIte]
        refine (hcol hc).trans (hrow _ _ ?_ hr)
        intro m hm hid
        obtain ⟨m', hm', rfl⟩ := mem_updNode hm
        by_cases h : (m'.id == id) = true
        · have : m'.id = id := by simpa using h
          have := huniq m' hm' this
          subst this
          simp [h]
        · have h' : (m'.id == id) = false := by simpa using h
          simp only [h', Bool.false_eq_true, ↓reduceIte] at hid ⊢
          rw [huniq m' hm' hid]
      · have hr' : (!kv.2.isScalar && !(keys n.row).contains kv.1) = false := by simpa using hr
        simp only [hc, hr', ↓reduceIte, Bool.false_eq_true]
        exact hcol hc
    · have hc' : (!(keys n.col).contains kv.1 && !kv.2.isNull) = false := by simpa using hc
      by_cases hr : (!kv.2.isScalar && !(keys n.row).contains kv.1) = true
      · simp only [hc', hr, ↓reduceIte, Bool.false_eq_true]
        exact hrow st j (fun m hm hid => by rw [huniq m hm hid]) hr
      · have hr' : (!kv.2.isScalar && !(keys n.row).contains kv.1) = false := by simpa using hr
        simp only [hc', hr', ↓reduceIte, Bool.false_eq_true]
        exact Undoes.refl st j

theorem undoes_mergeLabel (id : Nat) (st : St) (j : List Undo) (l : Str) (hnd : (nodeIds st).Nodup) :
    Undoes st j (mergeLabel false true id (st, j) l).1 (mergeLabel false true id (st, j) l).2 := by
  unfold mergeLabel
  cases hg : getNode id st with
  | none => exact Undoes.refl st j
  | some n =>
    have huniq := unique_of_getNode hnd hg
    by_cases hc : n.labels.contains l = true
    · simp only [hc, ↓reduceIte]; exact Undoes.refl st j
    · have hc' : n.labels.contains l = false := by simpa using hc
      simp only [hc', Bool.false_eq_true, ↓reduceIte]
      have h := undoes_upd st j id (fun m => { m with labels := m.labels ++ [l] })
        (fun m => { m with labels := m.labels.filter (fun x => !(x == l)) }) (Undo.label id l)
        (fun _ => rfl) (fun e => by simp) (fun _ => rfl)
        (by
          intro m hm hid
          have := huniq m hm hid
          subst this
          show { m with labels := (m.labels ++ [l]).filter (fun x => !(x == l)) } = m
          rw [filter_append_new l m.labels hc'])
      exact h.congr rfl rfl rfl rfl rfl

theorem undoes_foldl_mergeProp (id : Nat) (pvs : List (Str × PV)) : ∀ (st : St) (j : List Undo),
    (nodeIds st).Nodup →
    Undoes st j (pvs.foldl (mergeProp true id) (st, j)).1 (pvs.foldl (mergeProp true id) (st, j)).2 := by
  induction pvs with
  | nil => intro st j _; exact Undoes.refl st j
  | cons kv r ih =>
    intro st j hnd
    simp only [List.foldl_cons]
    obtain ⟨st1, j1, e1⟩ : ∃ st1 j1, mergeProp true id (st, j) kv = (st1, j1) := ⟨_, _, rfl⟩
    have h1 := undoes_mergeProp id st j kv hnd
    rw [e1] at h1 ⊢
    have hnd1 : (nodeIds st1).Nodup := by rw [h1.ids]; exact hnd
    exact h1.trans (ih st1 j1 hnd1)

theorem undoes_foldl_mergeLabel (id : Nat) (ls : List Str) : ∀ (st : St) (j : List Undo),
    (nodeIds st).Nodup →
    Undoes st j (ls.foldl (mergeLabel false true id) (st, j)).1
      (ls.foldl (mergeLabel false true id) (st, j)).2 := by
  induction ls with
  | nil => intro st j _; exact Undoes.refl st j
  | cons l r ih =>
    intro st j hnd
    simp only [List.foldl_cons]
    obtain ⟨st1, j1, e1⟩ : ∃ st1 j1, mergeLabel false true id (st, j) l = (st1, j1) := ⟨_, _, rfl⟩
    have h1 := undoes_mergeLabel id st j l hnd
    rw [e1] at h1 ⊢
    have hnd1 : (nodeIds st1).Nodup := by rw [h1.ids]; exact hnd
    exact h1.trans (ih st1 j1 hnd1)

/-! ### merges that are not journalled: into a node this import created (id ≥ N0) -/

/-- the pre-existing part of the node list, the ids, relationships, hierarchies and counters
are the same -/
def SameAbove (N0 : Nat) (st st' : St) : Prop :=
  st'.nodes.filter (isPre N0) = st.nodes.filter (isPre N0) ∧ nodeIds st' = nodeIds st
    ∧ st'.edges = st.edges ∧ st'.hier = st.hier ∧ st'.nextNode = st.nextNode
    ∧ st'.nextEdge = st.nextEdge

theorem SameAbove.refl (N0 : Nat) (st : St) : SameAbove N0 st st := ⟨rfl, rfl, rfl, rfl, rfl, rfl⟩

theorem SameAbove.trans {N0 : Nat} {a b c : St} (h1 : SameAbove N0 a b) (h2 : SameAbove N0 b c) :
    SameAbove N0 a c :=
  ⟨h2.1.trans h1.1, h2.2.1.trans h1.2.1, h2.2.2.1.trans h1.2.2.1, h2.2.2.2.1.trans h1.2.2.2.1,
    h2.2.2.2.2.1.trans h1.2.2.2.2.1, h2.2.2.2.2.2.trans h1.2.2.2.2.2⟩

theorem sameAbove_updNode (N0 id : Nat) (h : N0 ≤ id) (f : NodeS → NodeS) (hf : ∀ m, (f m).id = m.id)
    (st : St) : SameAbove N0 st (updNode id f st) := by
  have hg : ∀ n : NodeS, (if n.id == id then f n else n).id = n.id := by
    intro n; by_cases hn : (n.id == id) = true <;> simp [hn, hf]
  refine ⟨?_, ?_, rfl, rfl, rfl, rfl⟩
  · simp only [updNode]
    rw [filter_map_keepId N0 _ hg]
    have : List.map (fun n => if n.id == id then f n else n) (st.nodes.filter (isPre N0))
        = List.map (fun x => x) (st.nodes.filter (isPre N0)) := by
      apply List.map_congr_left
      intro m hm
      have hlt : m.id < N0 := by
        have := (List.mem_filter.mp hm).2
        simpa [isPre] using this
      have : (m.id == id) = false := by
        simp only [beq_eq_false_iff_ne, ne_eq]; omega
      simp [this]
    rw [this]; simp
  · simp only [nodeIds, updNode]
    exact map_keepId_ids _ hg st.nodes

theorem sameAbove_mergeProp (N0 id : Nat) (h : N0 ≤ id) (st : St) (j : List Undo) (kv : Str × PV) :
    SameAbove N0 st (mergeProp false id (st, j) kv).1 ∧ (mergeProp false id (st, j) kv).2 = j := by
  unfold mergeProp
  cases getNode id st with
  | none => exact ⟨SameAbove.refl N0 st, rfl⟩
  | some n =>
    simp only [Bool.false_and, Bool.false_eq_true, ↓reduceIte, and_true]
    have a1 : ∀ (b : Bool) (s0 : St), SameAbove N0 s0
        (if b then updNode id (fun m => { m with col := m.col ++ [kv] }) s0 else s0) := by
      intro b s0; cases b
      · exact SameAbove.refl N0 s0
      · simp only [↓reduceIte]
        exact sameAbove_updNode N0 id h (fun m => { m with col := m.col ++ [kv] }) (fun _ => rfl) s0
    have a2 : ∀ (b : Bool) (s0 : St), SameAbove N0 s0
        (if b then updNode id (fun m => { m with row := m.row ++ [kv] }) s0 else s0) := by
      intro b s0; cases b
      · exact SameAbove.refl N0 s0
      · simp only [↓reduceIte]
        exact sameAbove_updNode N0 id h (fun m => { m with row := m.row ++ [kv] }) (fun _ => rfl) s0
    exact (a1 _ st).trans (a2 _ _)

theorem sameAbove_mergeLabel (N0 id : Nat) (h : N0 ≤ id) (st : St) (j : List Undo) (l : Str) :
    SameAbove N0 st (mergeLabel false false id (st, j) l).1 ∧ (mergeLabel false false id (st, j) l).2 = j := by
  unfold mergeLabel
  cases getNode id st with
  | none => exact ⟨SameAbove.refl N0 st, rfl⟩
  | some n =>
    by_cases hc : n.labels.contains l = true
    · simp only [hc, ↓reduceIte, and_true]; exact SameAbove.refl N0 st
    · have hc' : n.labels.contains l = false := by simpa using hc
      simp only [hc', Bool.false_eq_true, ↓reduceIte, and_true]
      have := sameAbove_updNode N0 id h (fun m => { m with labels := m.labels ++ [l] }) (fun _ => rfl) st
      exact ⟨this.1, this.2.1, rfl, rfl, rfl, rfl⟩

theorem sameAbove_foldl_mergeProp (N0 id : Nat) (h : N0 ≤ id) (pvs : List (Str × PV)) :
    ∀ (st : St) (j : List Undo),
      SameAbove N0 st (pvs.foldl (mergeProp false id) (st, j)).1
        ∧ (pvs.foldl (mergeProp false id) (st, j)).2 = j := by
  induction pvs with
  | nil => intro st j; exact ⟨SameAbove.refl N0 st, rfl⟩
  | cons kv r ih =>
    intro st j
    simp only [List.foldl_cons]
    obtain ⟨st1, j1, e1⟩ : ∃ st1 j1, mergeProp false id (st, j) kv = (st1, j1) := ⟨_, _, rfl⟩
    have h1 := sameAbove_mergeProp N0 id h st j kv
    rw [e1] at h1 ⊢
    simp only at h1
    obtain ⟨ha, hb⟩ := h1
    subst hb
    have h2 := ih st1 j1
    exact ⟨ha.trans h2.1, h2.2⟩

theorem sameAbove_foldl_mergeLabel (N0 id : Nat) (h : N0 ≤ id) (ls : List Str) :
    ∀ (st : St) (j : List Undo),
      SameAbove N0 st (ls.foldl (mergeLabel false false id) (st, j)).1
        ∧ (ls.foldl (mergeLabel false false id) (st, j)).2 = j := by
  induction ls with
  | nil => intro st j; exact ⟨SameAbove.refl N0 st, rfl⟩
  | cons l r ih =>
    intro st j
    simp only [List.foldl_cons]
    obtain ⟨st1, j1, e1⟩ : ∃ st1 j1, mergeLabel false false id (st, j) l = (st1, j1) := ⟨_, _, rfl⟩
    have h1 := sameAbove_mergeLabel N0 id h st j l
    rw [e1] at h1 ⊢
    simp only at h1
    obtain ⟨ha, hb⟩ := h1
    subst hb
    have h2 := ih st1 j1
    exact ⟨ha.trans h2.1, h2.2⟩

/-! ### relationship entries of the journal -/

def jEdge (j : List Undo) (eid : Nat) : Bool :=
  j.any (fun u => match u with | .edge x => x == eid | _ => false)

theorem jEdge_iff (j : List Undo) (eid : Nat) : jEdge j eid = true ↔ Undo.edge eid ∈ j := by
  unfold jEdge
  rw [List.any_eq_true]
  constructor
  · rintro ⟨u, hu, h⟩
    cases u with
    | edge x =>
      have : x = eid := by simpa using h
      subst this; exact hu
    | col _ _ => simp at h
    | row _ _ => simp at h
    | label _ _ => simp at h
  · intro h
    exact ⟨Undo.edge eid, h, by simp⟩

theorem foldl_undoE (j : List Undo) : ∀ (es : List EdgeS),
    j.foldl undoE es = es.filter (fun e => !(jEdge j e.id)) := by
  induction j with
  | nil =>
    intro es
    simp only [List.foldl_nil, jEdge, List.any_nil, Bool.not_false]
    exact (List.filter_eq_self.mpr (fun _ _ => rfl)).symm
  | cons u r ih =>
    intro es
    simp only [List.foldl_cons, ih]
    cases u with
    | edge x =>
      simp only [undoE, List.filter_filter]
      apply List.filter_congr
      intro e _
      have h1 : jEdge (Undo.edge x :: r) e.id = ((x == e.id) || jEdge r e.id) := by
        simp only [jEdge, List.any_cons]
      have h2 : (e.id == x) = (x == e.id) := BEq.comm
      rw [h1, h2]
      cases (x == e.id) <;> cases (jEdge r e.id) <;> rfl
    | col _ _ => simp [undoE, jEdge]
    | row _ _ => simp [undoE, jEdge]
    | label _ _ => simp [undoE, jEdge]

/-! ### the invariant -/

structure StoreWF2 (st : St) : Prop where
  nd : (nodeIds st).Nodup
  fresh : ∀ n ∈ st.nodes, n.id < st.nextNode
  efresh : ∀ e ∈ st.edges, e.id < st.nextEdge
  closed : ∀ e ∈ st.edges, e.src ∈ nodeIds st ∧ e.tgt ∈ nodeIds st

structure UInv (st0 : St) (s : Imp) : Prop where
  nodes : s.journal.foldl undoN (s.st.nodes.filter (isPre st0.nextNode)) = st0.nodes
  created_iff : ∀ id ∈ nodeIds s.st, (st0.nextNode ≤ id ↔ id ∈ s.created)
  created_sub : ∀ id ∈ s.created, id ∈ nodeIds s.st
  created_nd : s.created.Nodup
  fresh : ∀ id ∈ nodeIds s.st, id < s.st.nextNode
  nextN : st0.nextNode ≤ s.st.nextNode
  nd : (nodeIds s.st).Nodup
  edges : ∃ ne, s.st.edges = st0.edges ++ ne ∧ ∀ e ∈ ne, st0.nextEdge ≤ e.id
      ∧ (e.src ∈ s.created ∨ e.tgt ∈ s.created ∨ Undo.edge e.id ∈ s.journal)
  jedges : ∀ eid, Undo.edge eid ∈ s.journal → st0.nextEdge ≤ eid
  nextE : st0.nextEdge ≤ s.st.nextEdge
  hier : s.st.hier = st0.hier

theorem uinv_init {st0 : St} (h : StoreWF2 st0) (d : List ((Str × Str × Str) × Nat)) :
    UInv st0 { st := st0, dedup := d } := by
  refine ⟨?_, ?_, by simp, by simp, ?_, Nat.le_refl _, h.nd, ⟨[], by simp, by simp⟩, by simp,
    Nat.le_refl _, rfl⟩
  · simp only [List.foldl_nil]
    rw [List.filter_eq_self]
    intro n hn
    simpa [isPre] using h.fresh n hn
  · intro id hid
    simp only [nodeIds, List.mem_map] at hid
    obtain ⟨n, hn, rfl⟩ := hid
    have := h.fresh n hn
    simp only [List.not_mem_nil, iff_false, Nat.not_le]
    exact this
  · intro id hid
    simp only [nodeIds, List.mem_map] at hid
    obtain ⟨n, hn, rfl⟩ := hid
    exact h.fresh n hn

/-- a merge step whose effect is `Undoes` keeps the invariant -/
theorem uinv_of_undoes {st0 : St} {s : Imp} (h : UInv st0 s) {st' : St} {j' : List Undo}
    (hu : Undoes s.st s.journal st' j') (remap' : List (Nat × Nat)) (m : Nat) :
    UInv st0 { s with st := st', journal := j', remap := remap', nMerged := m } := by
  have hids := hu.ids
  obtain ⟨new, a, b, c, d, e, f, g⟩ := hu
  refine ⟨?_, ?_, ?_, h.created_nd, ?_, ?_, ?_, ?_, ?_, ?_, ?_⟩
  · show j'.foldl undoN (st'.nodes.filter (isPre st0.nextNode)) = st0.nodes
    rw [a, List.foldl_append, ← foldl_undoN_filter, b]
    exact h.nodes
  · show ∀ id ∈ nodeIds st', _
    rw [hids]; exact h.created_iff
  · show ∀ id ∈ s.created, id ∈ nodeIds st'
    rw [hids]; exact h.created_sub
  · show ∀ id ∈ nodeIds st', id < st'.nextNode
    rw [hids, f]; exact h.fresh
  · show st0.nextNode ≤ st'.nextNode
    rw [f]; exact h.nextN
  · show (nodeIds st').Nodup
    rw [hids]; exact h.nd
  · obtain ⟨ne, h1, h2⟩ := h.edges
    refine ⟨ne, by show st'.edges = _; rw [d]; exact h1, ?_⟩
    intro x hx
    obtain ⟨p, q⟩ := h2 x hx
    refine ⟨p, ?_⟩
    rcases q with q | q | q
    · exact Or.inl q
    · exact Or.inr (Or.inl q)
    · refine Or.inr (Or.inr ?_)
      show Undo.edge x.id ∈ j'
      rw [a]; exact List.mem_append_right _ q
  · intro eid he
    have he' : Undo.edge eid ∈ new ++ s.journal := by rw [← a]; exact he
    rcases List.mem_append.mp he' with hh | hh
    · exact absurd rfl (c _ hh eid)
    · exact h.jedges eid hh
  · show st0.nextEdge ≤ st'.nextEdge
    rw [g]; exact h.nextE
  · show st'.hier = st0.hier
    rw [e]; exact h.hier

/-- a merge step that only touched created nodes keeps the invariant -/
theorem uinv_of_sameAbove {st0 : St} {s : Imp} (h : UInv st0 s) {st' : St}
    (hs : SameAbove st0.nextNode s.st st') (remap' : List (Nat × Nat)) (m : Nat) :
    UInv st0 { s with st := st', remap := remap', nMerged := m } := by
  obtain ⟨a, hids, d, e, f, g⟩ := hs
  refine ⟨?_, ?_, ?_, h.created_nd, ?_, ?_, ?_, ?_, h.jedges, ?_, ?_⟩
  · show s.journal.foldl undoN (st'.nodes.filter (isPre st0.nextNode)) = st0.nodes
    rw [a]; exact h.nodes
  · show ∀ id ∈ nodeIds st', _
    rw [hids]; exact h.created_iff
  · show ∀ id ∈ s.created, id ∈ nodeIds st'
    rw [hids]; exact h.created_sub
  · show ∀ id ∈ nodeIds st', id < st'.nextNode
    rw [hids, f]; exact h.fresh
  · show st0.nextNode ≤ st'.nextNode
    rw [f]; exact h.nextN
  · show (nodeIds st').Nodup
    rw [hids]; exact h.nd
  · obtain ⟨ne, h1, h2⟩ := h.edges
    exact ⟨ne, by show st'.edges = _; rw [d]; exact h1, h2⟩
  · show st0.nextEdge ≤ st'.nextEdge
    rw [g]; exact h.nextE
  · show st'.hier = st0.hier
    rw [e]; exact h.hier

end SgModel.SnapJson
