import SgModel.Lemmas.VecIdxInv2
/-!
What `searchIx` returns, for any entry list; then the bridge from an index that satisfies
the invariant to the executable specification `specSearch` on observations.
-/
namespace SgModel.VecIdx

/-- the list `searchIx` sorts: all entries in the exact regime, the surviving HNSW hits above -/
def pool (ix : Index) (raw : List Nat) : List Entry :=
  if ix.entries.length ≤ EXACT_MAX then ix.entries
  else dedupNodes (raw.filterMap (findEntry ix.entries))

theorem searchIx_eq {ix : Index} {q : Vec} (hq : q.length = ix.dim) (k : Nat) (raw : List Nat) :
    searchIx ix q k raw = (sortBy ix.metric q (pool ix raw)).take k := by
  unfold searchIx pool
  simp only [hq, ne_eq, not_true_eq_false, if_false]
  split <;> rfl

theorem searchIx_wrong_dim {ix : Index} {q : Vec} (hq : q.length ≠ ix.dim) (k : Nat) (raw : List Nat) :
    searchIx ix q k raw = [] := by
  unfold searchIx; simp [hq]

theorem pool_subset (ix : Index) (raw : List Nat) : ∀ e ∈ pool ix raw, e ∈ ix.entries := by
  intro e he
  unfold pool at he
  split at he
  · exact he
  · have h1 := (dedupNodes_sublist _).subset he
    simp only [List.mem_filterMap] at h1
    obtain ⟨n, _, hn⟩ := h1
    exact (findEntry_some hn).1

theorem pool_nodup {ix : Index} (hnd : NodesNodup ix.entries) (raw : List Nat) : NodesNodup (pool ix raw) := by
  unfold pool
  split
  · exact hnd
  · exact dedupNodes_nodup _

theorem searchIx_subset (ix : Index) (q : Vec) (k : Nat) (raw : List Nat) :
    ∀ e ∈ searchIx ix q k raw, e ∈ ix.entries := by
  intro e he
  by_cases hq : q.length = ix.dim
  · rw [searchIx_eq hq] at he
    exact pool_subset ix raw e ((sortBy_perm _ _ _).mem_iff.mp (List.mem_of_mem_take he))
  · rw [searchIx_wrong_dim hq] at he; simp at he

theorem searchIx_nodup {ix : Index} (hnd : NodesNodup ix.entries) (q : Vec) (k : Nat) (raw : List Nat) :
    NodesNodup (searchIx ix q k raw) := by
  by_cases hq : q.length = ix.dim
  · rw [searchIx_eq hq]
    exact List.Pairwise.sublist (List.take_sublist _ _) (nodup_perm (sortBy_perm _ _ _) (pool_nodup hnd raw))
  · rw [searchIx_wrong_dim hq]; simp [NodesNodup]

theorem searchIx_sorted (ix : Index) (q : Vec) (k : Nat) (raw : List Nat) :
    Srt ix.metric q (searchIx ix q k raw) := by
  by_cases hq : q.length = ix.dim
  · rw [searchIx_eq hq]
    exact List.Pairwise.sublist (List.take_sublist _ _) (sortBy_sorted _ _ _)
  · rw [searchIx_wrong_dim hq]; simp [Srt]

/-- exact regime: the first `k` of the sorted entry list; whatever was left out is at
least as far as everything returned -/
theorem searchIx_topk {ix : Index} {q : Vec} (hq : q.length = ix.dim) (hsz : ix.entries.length ≤ EXACT_MAX)
    (k : Nat) (raw : List Nat) :
    (searchIx ix q k raw).length = min k ix.entries.length
    ∧ ∀ c ∈ ix.entries, c ∉ searchIx ix q k raw → ∀ e ∈ searchIx ix q k raw, Nearer ix.metric q e c := by
  rw [searchIx_eq hq]
  have hp : pool ix raw = ix.entries := by unfold pool; simp [hsz]
  rw [hp]
  constructor
  · rw [List.length_take, (sortBy_perm _ _ _).length_eq]
  · intro c hc hnot e he
    have hs := sortBy_sorted ix.metric q ix.entries
    unfold Srt at hs
    rw [← List.take_append_drop k (sortBy ix.metric q ix.entries), List.pairwise_append] at hs
    have hc' : c ∈ sortBy ix.metric q ix.entries := (sortBy_perm _ _ _).mem_iff.mpr hc
    rw [← List.take_append_drop k (sortBy ix.metric q ix.entries), List.mem_append] at hc'
    rcases hc' with h | h
    · exact absurd h hnot
    · exact hs.2.2 e he c h

/-! ### bridge to the specification -/

def toO (x : Node) : ONode := { id := x.id, inL := x.inL, vec := x.vec }

theorem find_obs {nodes : List Node} (hi : IdsNodup nodes) {x : Node} (hx : x ∈ nodes) :
    (nodes.map toO).find? (fun y => decide (y.id = x.id)) = some (toO x) := by
  induction nodes with
  | nil => simp at hx
  | cons y rest ih =>
    simp only [IdsNodup, List.pairwise_cons] at hi
    simp only [List.mem_cons] at hx
    rcases hx with rfl | hx
    · simp [toO]
    · have : ¬ y.id = x.id := hi.1 x hx
      simp only [List.map_cons, List.find?_cons, toO, this, decide_false]
      exact ih hi.2 hx

theorem find_obs_none {nodes : List Node} {n : Nat} (h : ∀ x ∈ nodes, x.id ≠ n) :
    (nodes.map toO).find? (fun y => decide (y.id = n)) = none := by
  rw [List.find?_eq_none]
  intro y hy
  simp only [List.mem_map] at hy
  obtain ⟨x, hx, rfl⟩ := hy
  simp [toO, h x hx]

/-- `candidate` on the observation of the nodes is `Live` -/
theorem candidate_iff {nodes : List Node} (hi : IdsNodup nodes) (dim : Nat) (n : Nat) (v : Vec) :
    candidate (nodes.map toO) dim n = some v ↔ Live nodes dim ⟨n, v⟩ := by
  unfold candidate Live
  constructor
  · intro h
    cases hf : (nodes.map toO).find? (fun y => decide (y.id = n)) with
    | none => simp [hf] at h
    | some y =>
      simp only [hf] at h
      have hy := List.find?_some hf
      have hym := List.mem_of_find?_eq_some hf
      simp only [List.mem_map] at hym
      obtain ⟨x, hx, rfl⟩ := hym
      cases hv : x.vec with
      | none => simp [toO, hv] at h
      | some w =>
        simp only [toO, hv] at h
        split at h
        · rename_i hc
          simp only [Option.some.injEq] at h; subst h
          simp only [Bool.and_eq_true, decide_eq_true_eq] at hc
          exact ⟨x, hx, of_decide_eq_true hy, hc.1, hv, hc.2⟩
        · simp at h
  · rintro ⟨x, hx, hxi, h1, h2, h3⟩
    simp only at hxi h2 h3
    subst hxi
    rw [find_obs hi hx]
    simp [toO, h1, h2, h3]

theorem candidates_eq (nodes : List Node) (dim : Nat) :
    candidates (nodes.map toO) dim = (rebuild nodes dim).map (fun e => (e.node, e.vec)) := by
  unfold candidates rebuild
  induction nodes with
  | nil => rfl
  | cons x rest ih =>
    rw [List.map_cons]
    cases hv : x.vec with
    | none =>
      rw [List.filterMap_cons_none (by simp [toO, hv]), List.filterMap_cons_none (by simp [hv])]
      exact ih
    | some v =>
      by_cases hc : (x.inL && decide (v.length = dim)) = true
      · rw [List.filterMap_cons_some (b := (x.id, v)) (by simp [toO, hv, hc]),
          List.filterMap_cons_some (b := (⟨x.id, v⟩ : Entry)) (by simp [hv, hc]), List.map_cons, ih]
      · rw [List.filterMap_cons_none (by simp [toO, hv, hc]), List.filterMap_cons_none (by simp [hv, hc])]
        exact ih

theorem nodup_of_nodesNodup {es : List Entry} (h : NodesNodup es) : es.Nodup := by
  unfold NodesNodup at h
  exact List.Pairwise.imp (fun hab e => hab (congrArg Entry.node e)) h

/-- an index satisfying the invariant has as many entries as there are candidates -/
theorem entries_length {nodes : List Node} (hi : IdsNodup nodes) {ix : Index} (hok : IxOk nodes ix) :
    ix.entries.length = (rebuild nodes ix.dim).length := by
  apply List.Perm.length_eq
  rw [List.perm_ext_iff_of_nodup (nodup_of_nodesNodup hok.nodup) (nodup_of_nodesNodup (nodup_rebuild hi _))]
  intro e
  rw [hok.exact e, mem_rebuild]

theorem sortedRanks_of_pairwise {l : List Rank} (h : l.Pairwise RLe) : sortedRanks l = true := by
  induction l with
  | nil => rfl
  | cons a rest ih =>
    cases rest with
    | nil => rfl
    | cons b rest' =>
      rw [List.pairwise_cons] at h
      simp only [sortedRanks, Bool.and_eq_true]
      exact ⟨(le_iff _ _).mpr (h.1 b List.mem_cons_self), ih h.2⟩

theorem nodupNat_of {l : List Nat} (h : l.Nodup) : nodupNat l = true := by
  induction l with
  | nil => rfl
  | cons a rest ih =>
    rw [List.nodup_cons] at h
    simp only [nodupNat, Bool.and_eq_true, Bool.not_eq_eq_eq_not, Bool.not_true]
    exact ⟨by simpa using h.1, ih h.2⟩

theorem filterMap_eq_map {α β γ : Type} (g : α → β) (f : β → Option γ) (h : α → γ) (l : List α)
    (hl : ∀ a ∈ l, f (g a) = some (h a)) : (l.map g).filterMap f = l.map h := by
  induction l with
  | nil => rfl
  | cons a rest ih =>
    simp only [List.map_cons, List.filterMap_cons, hl a List.mem_cons_self]
    rw [ih (fun b hb => hl b (List.mem_cons_of_mem _ hb))]

/-- **the model's answer satisfies the specification** on the observation of the nodes -/
theorem spec_of_ixOk {nodes : List Node} (hi : IdsNodup nodes) {ix : Index} (hok : IxOk nodes ix)
    {q : Vec} (hq : q.length = ix.dim) (k : Nat) (raw : List Nat) :
    specSearch (nodes.map toO) ix.dim ix.metric q k ((searchIx ix q k raw).map (·.node)) = true := by
  have hcand : ∀ e ∈ searchIx ix q k raw, candidate (nodes.map toO) ix.dim e.node = some e.vec := by
    intro e he
    exact (candidate_iff hi ix.dim e.node e.vec).mpr ((hok.exact e).mp (searchIx_subset ix q k raw e he))
  have hnd := searchIx_nodup hok.nodup q k raw
  have hsorted := searchIx_sorted ix q k raw
  unfold specSearch
  simp only [Bool.and_eq_true]
  refine ⟨⟨⟨?_, ?_⟩, ?_⟩, ?_⟩
  · rw [List.all_eq_true]
    intro n hn
    simp only [List.mem_map] at hn
    obtain ⟨e, he, rfl⟩ := hn
    rw [hcand e he]; rfl
  · apply nodupNat_of
    unfold NodesNodup at hnd
    rw [List.Nodup, List.pairwise_map]
    exact hnd
  · rw [filterMap_eq_map (fun e : Entry => e.node) _ (fun e => rank ix.metric q e.vec) _
      (fun e he => by rw [hcand e he]; rfl)]
    apply sortedRanks_of_pairwise
    rw [List.pairwise_map]
    exact hsorted
  · rw [candidates_eq, List.length_map, ← entries_length hi hok]
    split
    · rename_i hsz
      obtain ⟨hlen, htop⟩ := searchIx_topk hq hsz k raw
      simp only [Bool.and_eq_true, decide_eq_true_eq, List.length_map]
      refine ⟨hlen, ?_⟩
      rw [List.all_eq_true]
      intro c hc
      simp only [List.mem_map] at hc
      obtain ⟨e, he, rfl⟩ := hc
      have he' : e ∈ ix.entries := (hok.exact e).mpr (mem_rebuild.mp he)
      simp only [Bool.or_eq_true]
      by_cases hin : e ∈ searchIx ix q k raw
      · left
        simp only [List.contains_iff_mem, List.mem_map]
        exact ⟨e, hin, rfl⟩
      · right
        rw [List.all_eq_true]
        intro n hn
        simp only [List.mem_map] at hn
        obtain ⟨r, hr, rfl⟩ := hn
        rw [hcand r hr]
        exact (le_iff _ _).mpr (htop e he' hin r hr)
    · rfl

end SgModel.VecIdx
