import SgModel.Lemmas.Store
/-!
Helper lemmas for the graph-store model (C06), part 2: the store invariant `Inv` and its
preservation by every write.
-/
namespace SgModel.Store

/-- where relationship `e` belongs in the outgoing tier -/
def keyOut (s : State) (e : Nat) : Option (Nat × Nat) :=
  if endpOf s e = (0, 0) then none else some ((endpOf s e).1, (endpOf s e).2)
/-- … and in the incoming tier -/
def keyIn (s : State) (e : Nat) : Option (Nat × Nat) :=
  if endpOf s e = (0, 0) then none else some ((endpOf s e).2, (endpOf s e).1)

/-- everything except "no relationship dangles" (which `delete_node` breaks temporarily) -/
structure InvE (s : State) : Prop where
  out : TierInv s.outT (keyOut s)
  inn : TierInv s.inT (keyIn s)
  typed : ∀ e, endpOf s e ≠ (0, 0) → ∃ ti, typeIdOf s e = some ti ∧ ti < s.etypeTable.length
  untyped : ∀ e, endpOf s e = (0, 0) → typeIdOf s e = none
  node0 : getNode s 0 = none
  freeE_dead : ∀ e ∈ s.freeE, endpOf s e = (0, 0)
  freeE_nodup : s.freeE.Nodup
  freeE_lt : ∀ e ∈ s.freeE, e < s.nextE
  nextE_dead : ∀ e, s.nextE ≤ e → endpOf s e = (0, 0)
  freeN_dead : ∀ n ∈ s.freeN, getNode s n = none
  freeN_pos : ∀ n ∈ s.freeN, n ≠ 0
  freeN_nodup : s.freeN.Nodup
  freeN_lt : ∀ n ∈ s.freeN, n < s.nextN
  nextN_dead : ∀ n, s.nextN ≤ n → getNode s n = none
  nextN_pos : 1 ≤ s.nextN
  tbl : s.etypeTable.Nodup
  ecols_live : ∀ p ∈ s.ecols, endpOf s p.1.1 ≠ (0, 0)
  eprops_live : ∀ p ∈ s.eprops, endpOf s p.1 ≠ (0, 0)
  ncols_live : ∀ p ∈ s.ncols, getNode s p.1.1 ≠ none

structure Inv (s : State) : Prop extends InvE s where
  ends : ∀ e, endpOf s e ≠ (0, 0) →
    getNode s (endpOf s e).1 ≠ none ∧ getNode s (endpOf s e).2 ≠ none

theorem endpOf_init (e : Nat) : endpOf init e = (0, 0) := by simp [endpOf, init]
theorem getNode_init (n : Nat) : getNode init n = none := by simp [getNode, init]

theorem inv_init : Inv init := by
  refine { out := ?_, inn := ?_, typed := ?_, untyped := ?_, ends := ?_, node0 := ?_,
           freeE_dead := ?_, freeE_nodup := ?_, freeE_lt := ?_, nextE_dead := ?_, freeN_dead := ?_,
           freeN_pos := ?_, freeN_nodup := ?_, freeN_lt := ?_, nextN_dead := ?_, nextN_pos := ?_, tbl := ?_,
           ecols_live := ?_, eprops_live := ?_, ncols_live := ?_ }
  · exact TierInv.init _ (fun e => by simp [keyOut, endpOf_init])
  · exact TierInv.init _ (fun e => by simp [keyIn, endpOf_init])
  · intro e h; exact absurd (endpOf_init e) h
  · intro e _; simp [typeIdOf, init]
  · exact getNode_init 0
  · intro e h; cases h
  · exact List.nodup_nil
  · intro e h; cases h
  · intro e _; exact endpOf_init e
  · intro n h; cases h
  · intro n h; cases h
  · exact List.nodup_nil
  · intro n h; cases h
  · intro n _; exact getNode_init n
  · exact Nat.le_refl 1
  · exact List.nodup_nil
  · intro p h; cases h
  · intro p h; cases h
  · intro p h; cases h
  · intro e h; exact absurd (endpOf_init e) h

/-! ### frame: a state that reads the same on the relationship side -/

/-- everything `Inv` says about relationships depends on `s` only through these reads -/
theorem keyOut_congr {s s' : State} (h : ∀ e, endpOf s' e = endpOf s e) : keyOut s' = keyOut s := by
  funext e; simp [keyOut, h]
theorem keyIn_congr {s s' : State} (h : ∀ e, endpOf s' e = endpOf s e) : keyIn s' = keyIn s := by
  funext e; simp [keyIn, h]

/-! ### column / association helpers -/

theorem mem_colSet {c : List ((Nat × Nat) × Nat)} {r k v : Nat} {p : (Nat × Nat) × Nat}
    (h : p ∈ colSet c r k v) : p ∈ c ∨ p.1.1 = r := by
  simp only [colSet, List.mem_append, List.mem_filter, List.mem_singleton] at h
  rcases h with h | h
  · exact Or.inl h.1
  · right; rw [h]

theorem mem_foldl_colSet (ps : Props) (c : List ((Nat × Nat) × Nat)) (r : Nat)
    (p : (Nat × Nat) × Nat) (h : p ∈ ps.foldl (fun c q => colSet c r q.1 q.2) c) :
    p ∈ c ∨ p.1.1 = r := by
  induction ps generalizing c with
  | nil => exact Or.inl h
  | cons a as ih =>
    rcases ih _ h with h' | h'
    · exact mem_colSet h'
    · exact Or.inr h'

theorem mem_colRemove {c : List ((Nat × Nat) × Nat)} {r k : Nat} {p : (Nat × Nat) × Nat}
    (h : p ∈ colRemove c r k) : p ∈ c := (List.mem_filter.mp h).1

theorem mem_colClearRow {c : List ((Nat × Nat) × Nat)} {r : Nat} {p : (Nat × Nat) × Nat}
    (h : p ∈ colClearRow c r) : p ∈ c ∧ p.1.1 ≠ r := by
  simp only [colClearRow, List.mem_filter, bne_iff_ne, ne_eq] at h
  exact h

theorem mem_assocSet {β : Type} {m : List (Nat × β)} {k : Nat} {v : β} {p : Nat × β}
    (h : p ∈ assocSet m k v) : p ∈ m ∨ p.1 = k := by
  unfold assocSet at h
  split at h
  · rcases List.mem_map.mp h with ⟨q, hq, rfl⟩
    by_cases hk : q.1 = k
    · right; simp [hk]
    · left; simp [hk]; exact hq
  · rcases List.mem_append.mp h with h | h
    · exact Or.inl h
    · right; simp only [List.mem_singleton] at h; rw [h]

theorem mem_assocErase {β : Type} {m : List (Nat × β)} {k : Nat} {p : Nat × β}
    (h : p ∈ assocErase m k) : p ∈ m ∧ p.1 ≠ k := by
  simp only [assocErase, List.mem_filter, bne_iff_ne, ne_eq] at h
  exact h

/-! ### node-side writes -/

theorem getNode_setGrow (s : State) (i n : Nat) (r : Option NodeRec) :
    (setGrow s.nodes i r none).getD n none = if n = i then r else getNode s n := by
  rw [getD_setGrow]; rfl

/-- a write that touches only node records / node columns / indexes, and never turns a live
node into a dead one, keeps the invariant -/
theorem Inv.node_frame {s s' : State} (h : Inv s)
    (hendp : s'.endp = s.endp) (hty : s'.etypeIds = s.etypeIds) (htbl : s'.etypeTable = s.etypeTable)
    (hout : s'.outT = s.outT) (hin : s'.inT = s.inT) (hfe : s'.freeE = s.freeE)
    (hne : s'.nextE = s.nextE) (hfn : s'.freeN = s.freeN) (hnn : s'.nextN = s.nextN)
    (hec : s'.ecols = s.ecols) (hep : s'.eprops = s.eprops)
    (hlive : ∀ n, getNode s' n = none ↔ getNode s n = none)
    (hnc : ∀ p ∈ s'.ncols, getNode s' p.1.1 ≠ none) : Inv s' := by
  have he : ∀ e, endpOf s' e = endpOf s e := fun e => by simp [endpOf, hendp]
  have ht : ∀ e, typeIdOf s' e = typeIdOf s e := fun e => by simp [typeIdOf, hty]
  refine { out := ?_, inn := ?_, typed := ?_, untyped := ?_, ends := ?_, node0 := ?_,
           freeE_dead := ?_, freeE_nodup := ?_, freeE_lt := ?_, nextE_dead := ?_, freeN_dead := ?_,
           freeN_pos := ?_, freeN_nodup := ?_, freeN_lt := ?_, nextN_dead := ?_, nextN_pos := ?_, tbl := ?_,
           ecols_live := ?_, eprops_live := ?_, ncols_live := hnc }
  · rw [hout, keyOut_congr he]; exact h.out
  · rw [hin, keyIn_congr he]; exact h.inn
  · intro e hl; rw [he] at hl; rw [ht, htbl]; exact h.typed e hl
  · intro e hl; rw [he] at hl; rw [ht]; exact h.untyped e hl
  · exact (hlive 0).mpr h.node0
  · intro e hm; rw [hfe] at hm; rw [he]; exact h.freeE_dead e hm
  · rw [hfe]; exact h.freeE_nodup
  · intro e hm; rw [hfe] at hm; rw [hne]; exact h.freeE_lt e hm
  · intro e hle; rw [hne] at hle; rw [he]; exact h.nextE_dead e hle
  · intro n hm; rw [hfn] at hm; exact (hlive n).mpr (h.freeN_dead n hm)
  · intro n hm; rw [hfn] at hm; exact h.freeN_pos n hm
  · rw [hfn]; exact h.freeN_nodup
  · intro n hm; rw [hfn] at hm; rw [hnn]; exact h.freeN_lt n hm
  · intro n hle; rw [hnn] at hle; exact (hlive n).mpr (h.nextN_dead n hle)
  · rw [hnn]; exact h.nextN_pos
  · rw [htbl]; exact h.tbl
  · intro p hp; rw [hec] at hp; rw [he]; exact h.ecols_live p hp
  · intro p hp; rw [hep] at hp; rw [he]; exact h.eprops_live p hp
  · intro e hl; rw [he] at hl ⊢
    have := h.ends e hl
    exact ⟨fun hc => this.1 ((hlive _).mp hc), fun hc => this.2 ((hlive _).mp hc)⟩

theorem getNode_updNode (s : State) (n m : Nat) (f : NodeRec → NodeRec) :
    getNode (updNode s n f) m = none ↔ getNode s m = none := by
  unfold updNode
  cases hg : getNode s n with
  | none => simp
  | some r =>
    simp only [getNode, getD_set_eq]
    by_cases hm : m = n
    · subst hm
      by_cases hl : m < s.nodes.length
      · simp only [hl, and_self, if_true]
        simp only [getNode, List.getD_eq_getElem?_getD] at hg; simp [hg]
      · simp [hl]
    · simp [hm]

theorem updNode_fields (s : State) (n : Nat) (f : NodeRec → NodeRec) :
    (updNode s n f).endp = s.endp ∧ (updNode s n f).etypeIds = s.etypeIds
    ∧ (updNode s n f).etypeTable = s.etypeTable ∧ (updNode s n f).outT = s.outT
    ∧ (updNode s n f).inT = s.inT ∧ (updNode s n f).freeE = s.freeE
    ∧ (updNode s n f).nextE = s.nextE ∧ (updNode s n f).freeN = s.freeN
    ∧ (updNode s n f).nextN = s.nextN ∧ (updNode s n f).ecols = s.ecols
    ∧ (updNode s n f).eprops = s.eprops ∧ (updNode s n f).ncols = s.ncols
    ∧ (updNode s n f).labelIdx = s.labelIdx := by
  unfold updNode; cases getNode s n <;> simp

theorem inv_addLabel {s : State} (h : Inv s) (n l : Nat) : Inv (addLabel s n l).1 := by
  unfold addLabel
  cases hg : getNode s n with
  | none => exact h
  | some r =>
    obtain ⟨a1, a2, a3, a4, a5, a6, a7, a8, a9, a10, a11, a12, _⟩ := updNode_fields s n
      (fun r => { r with labels := setInsert r.labels l })
    dsimp only
    refine Inv.node_frame h a1 a2 a3 a4 a5 a6 a7 a8 a9 a10 a11 ?_ ?_
    · intro m; exact getNode_updNode s n m _
    · intro p hp
      have hp' : p ∈ s.ncols := by rw [← a12]; exact hp
      intro hc
      exact h.ncols_live p hp' ((getNode_updNode s n p.1.1 _).mp hc)

theorem inv_removeLabel {s : State} (h : Inv s) (n l : Nat) : Inv (removeLabel s n l).1 := by
  unfold removeLabel
  cases hg : getNode s n with
  | none => exact h
  | some r =>
    simp only
    split
    · exact h
    · obtain ⟨a1, a2, a3, a4, a5, a6, a7, a8, a9, a10, a11, a12, _⟩ := updNode_fields s n
        (fun r => { r with labels := r.labels.filter (· != l) })
      refine Inv.node_frame h a1 a2 a3 a4 a5 a6 a7 a8 a9 a10 a11 ?_ ?_
      · intro m; exact getNode_updNode s n m _
      · intro p hp
        have hp' : p ∈ s.ncols := by rw [← a12]; exact hp
        intro hc
        exact h.ncols_live p hp' ((getNode_updNode s n p.1.1 _).mp hc)

theorem inv_setNodeProp {s : State} (h : Inv s) (n k v : Nat) : Inv (setNodeProp s n k v).1 := by
  unfold setNodeProp
  cases hg : getNode s n with
  | none => exact h
  | some r =>
    obtain ⟨a1, a2, a3, a4, a5, a6, a7, a8, a9, a10, a11, _, _⟩ := updNode_fields s n
      (fun r => { r with props := assocSet r.props k v })
    dsimp only
    refine Inv.node_frame h a1 a2 a3 a4 a5 a6 a7 a8 a9 a10 a11 ?_ ?_
    · intro m; exact getNode_updNode s n m _
    · intro p hp hc
      have hc' := (getNode_updNode s n p.1.1 _).mp hc
      rcases mem_colSet hp with hp' | hp'
      · exact h.ncols_live p hp' hc'
      · rw [hp', hg] at hc'; cases hc'

theorem inv_removeNodeProp {s : State} (h : Inv s) (n k : Nat) : Inv (removeNodeProp s n k).1 := by
  unfold removeNodeProp
  obtain ⟨a1, a2, a3, a4, a5, a6, a7, a8, a9, a10, a11, _, _⟩ := updNode_fields s n
    (fun r => { r with props := assocErase r.props k })
  dsimp only
  refine Inv.node_frame h a1 a2 a3 a4 a5 a6 a7 a8 a9 a10 a11 ?_ ?_
  · intro m; exact getNode_updNode s n m _
  · intro p hp hc
    exact h.ncols_live p (mem_colRemove hp) ((getNode_updNode s n p.1.1 _).mp hc)

/-! ### node creation -/

/-- the id handed out is not live, is not 0, and the free list / counter stay consistent -/
theorem allocN_spec {s : State} (h : Inv s) :
    getNode s (allocN s).1 = none ∧ (allocN s).1 ≠ 0
    ∧ (∀ n ∈ (allocN s).2.freeN, n ∈ s.freeN ∧ n ≠ (allocN s).1)
    ∧ (allocN s).2.freeN.Nodup
    ∧ s.nextN ≤ (allocN s).2.nextN ∧ (allocN s).1 < (allocN s).2.nextN
    ∧ (allocN s).2 = { s with freeN := (allocN s).2.freeN, nextN := (allocN s).2.nextN } := by
  unfold allocN
  cases hf : s.freeN with
  | nil =>
    refine ⟨h.nextN_dead _ (Nat.le_refl _), ?_, ?_, List.nodup_nil, ?_, ?_, rfl⟩
    · have := h.nextN_pos; simp only; omega
    · intro n hn; cases hn
    · simp only; omega
    · simp only; omega
  | cons i rest =>
    have hnd : (i :: rest).Nodup := hf ▸ h.freeN_nodup
    have hi : i ∈ s.freeN := by rw [hf]; exact List.mem_cons_self ..
    refine ⟨h.freeN_dead i hi, h.freeN_pos i hi, ?_, (List.nodup_cons.mp hnd).2, Nat.le_refl _,
      h.freeN_lt i hi, rfl⟩
    intro n hn
    refine ⟨List.mem_cons_of_mem _ hn, ?_⟩
    intro hni; subst hni
    exact (List.nodup_cons.mp hnd).1 hn

end SgModel.Store
