import SgModel.Model.Wal
/-! Helper lemmas for C15 (core Lean only): little-endian codecs, the frame parser, replay of
a well-formed image followed by a torn tail, byte-prefix decomposition. -/
namespace SgModel.Wal

theorem le_length (n v : Nat) : (le n v).length = n := by
  induction n generalizing v <;> simp [le, *]

theorem toNat_ofNat_mod (v : Nat) : (UInt8.ofNat (v % 256)).toNat = v % 256 := by
  simp [UInt8.toNat_ofNat']

theorem fromLE_le (n v : Nat) (h : v < 256 ^ n) : fromLE (le n v) = v := by
  induction n generalizing v with
  | zero => simp [le, fromLE]; omega
  | succ n ih =>
    simp only [le, fromLE]
    rw [toNat_ofNat_mod, ih (v / 256) (by rw [Nat.pow_succ] at h; omega)]
    omega

theorem xorAll_append (a b : Bytes) : xorAll (a ++ b) = xorAll a ^^^ xorAll b := by
  induction a with
  | nil => simp [xorAll]
  | cons x xs ih => simp [xorAll, ih, UInt8.xor_assoc]

theorem cksum_lt (e : Bytes) : cksum e < 256 ^ 4 := by
  have := (xorAll e).toNat_lt
  simp only [cksum]; omega

/-- what the model assumes of an appended record: the counter fits `u64`, the frame length
fits `u32`, and bincode reads exactly the entry back from the front of any slice starting
with it (deterministic, self-delimiting encoding) -/
def WFRec (dec : Dec) (r : Rec) : Prop :=
  r.seq < 256 ^ 8 ∧ r.entry.length + 12 < 256 ^ 4 ∧ ∀ rest, dec (r.entry ++ rest) = some r.entry.length

theorem body_length (r : Rec) : (body r).length = r.entry.length + 12 := by
  simp [body, le_length]; omega

theorem frame_length (r : Rec) : (frame r).length = r.entry.length + 16 := by
  simp [frame, body_length, le_length]; omega

theorem parseBody_body {dec : Dec} {r : Rec} (h : WFRec dec r) :
    parseBody dec (body r) = some (r, cksum r.entry, r.entry.length + 12) := by
  obtain ⟨h1, _, h3⟩ := h
  have hl : (body r).length = r.entry.length + 12 := body_length r
  have hd : (body r).drop 8 = r.entry ++ le 4 (cksum r.entry) := by
    simp only [body]; exact List.drop_left' (le_length 8 _)
  have ht : (body r).take 8 = le 8 r.seq := by
    simp only [body]; exact List.take_left' (le_length 8 _)
  have hd2 : (body r).drop (8 + r.entry.length) = le 4 (cksum r.entry) := by
    rw [← List.drop_drop, hd]; exact List.drop_left' rfl
  unfold parseBody
  rw [if_neg (by omega), hd, h3]
  dsimp only
  rw [if_neg (by omega), ht, List.take_left' rfl, hd2,
    List.take_of_length_le (by simp [le_length]), fromLE_le 8 _ h1, fromLE_le 4 _ (cksum_lt _)]
  cases r; simp; omega

theorem replayFile_frame {dec : Dec} {r : Rec} (h : WFRec dec r) (m : Mode) (fuel : Nat) (rest : Bytes) :
    replayFile m dec (fuel + 1) (frame r ++ rest)
      = (r :: (replayFile m dec fuel rest).1, (replayFile m dec fuel rest).2) := by
  have hlen : (frame r ++ rest).length = r.entry.length + 16 + rest.length := by
    simp [frame_length]
  have ht : (frame r ++ rest).take 4 = le 4 (r.entry.length + 12) := by
    simp only [frame, List.append_assoc]; exact List.take_left' (le_length 4 _)
  have hd : (frame r ++ rest).drop 4 = body r ++ rest := by
    simp only [frame, List.append_assoc]; exact List.drop_left' (le_length 4 _)
  rw [replayFile]
  simp only [ht, hd, fromLE_le 4 _ h.2.1]
  rw [if_neg (by omega), if_neg (by simp [body_length])]
  rw [List.take_left' (body_length r), List.drop_left' (body_length r), parseBody_body h]
  simp

/-- a torn tail: nothing, or a proper byte prefix of one frame -/
def Torn (t : Bytes) : Prop :=
  t = [] ∨ ∃ r k, r.entry.length + 12 < 256 ^ 4 ∧ k < (frame r).length ∧ t = (frame r).take k

theorem replayFile_torn {m : Mode} (hm : m.tornIsEnd = true) (dec : Dec) (fuel : Nat) {t : Bytes}
    (h : Torn t) : replayFile m dec fuel t = ([], .ok) := by
  cases fuel with
  | zero => rfl
  | succ fuel =>
    rcases h with rfl | ⟨r, k, hb, hk, rfl⟩
    · rw [replayFile]; simp
    · rw [replayFile]
      rw [frame_length] at hk
      by_cases h4 : k < 4
      · rw [if_pos (by simp [List.length_take]; omega)]
      · have hlen : ((frame r).take k).length = k := by simp [List.length_take, frame_length]; omega
        rw [if_neg (by omega)]
        have ht : ((frame r).take k).take 4 = le 4 (r.entry.length + 12) := by
          rw [List.take_take, Nat.min_eq_left (by omega)]
          simp only [frame]; exact List.take_left' (le_length 4 _)
        simp only [ht, fromLE_le 4 _ hb]
        rw [if_pos (by simp [List.length_drop, hlen]; omega)]
        simp [hm]

theorem replayFile_frames {m : Mode} (hm : m.tornIsEnd = true) {dec : Dec} :
    ∀ (rs : List Rec) (fuel : Nat) (t : Bytes),
    (∀ r ∈ rs, WFRec dec r) → Torn t → rs.length < fuel →
    replayFile m dec fuel (frames rs ++ t) = (rs, .ok)
  | [], fuel, t, _, ht, _ => by simpa [frames] using replayFile_torn hm dec fuel ht
  | _ :: _, 0, _, _, _, hf => by simp at hf
  | r :: rs, fuel + 1, t, hw, ht, hf => by
    simp only [frames, List.append_assoc]
    rw [replayFile_frame (hw r (by simp)),
      replayFile_frames hm rs fuel t (fun x hx => hw x (by simp [hx])) ht (by simpa using hf)]

theorem frames_length_cons (r : Rec) (rs : List Rec) :
    (frames (r :: rs)).length = r.entry.length + 16 + (frames rs).length := by
  simp [frames, frame_length]

theorem frames_length_ge : ∀ rs : List Rec, rs.length ≤ (frames rs).length
  | [] => by simp [frames]
  | r :: rs => by have := frames_length_ge rs; rw [frames_length_cons]; simp; omega

theorem frames_append : ∀ (a b : List Rec), frames (a ++ b) = frames a ++ frames b
  | [], b => by simp [frames]
  | r :: a, b => by simp [frames, frames_append a b]

/-- **replay of whole records followed by a torn tail returns exactly the records** -/
theorem replay_frames {m : Mode} (hm : m.tornIsEnd = true) {dec : Dec} (rs : List Rec) (t : Bytes)
    (hw : ∀ r ∈ rs, WFRec dec r) (ht : Torn t) : replay m dec (frames rs ++ t) = (rs, .ok) :=
  replayFile_frames hm rs _ t hw ht (by
    have := frames_length_ge rs; simp only [List.length_append]; omega)

/-- split a byte offset into whole frames and the remainder -/
def cutRecs : List Rec → Nat → List Rec × Bytes
  | [], _ => ([], [])
  | r :: rs, k =>
    if r.entry.length + 16 ≤ k then
      (r :: (cutRecs rs (k - (r.entry.length + 16))).1, (cutRecs rs (k - (r.entry.length + 16))).2)
    else ([], (frame r).take k)

theorem take_frames : ∀ (rs : List Rec) (k : Nat),
    (frames rs).take k = frames (cutRecs rs k).1 ++ (cutRecs rs k).2
  | [], k => by simp [frames, cutRecs]
  | r :: rs, k => by
    simp only [frames, cutRecs]
    split
    · rename_i h
      rw [List.take_append, frame_length,
        List.take_of_length_le (by rw [frame_length]; exact h), take_frames rs _]
      simp [frames]
    · rename_i h
      rw [List.take_append_of_le_length (by rw [frame_length]; omega)]
      simp [frames]

theorem cutRecs_fst : ∀ (rs : List Rec) (k : Nat), (cutRecs rs k).1 = rs.take (fitCount rs k)
  | [], k => by simp [cutRecs, fitCount]
  | r :: rs, k => by
    simp only [cutRecs, fitCount]
    split <;> simp [cutRecs_fst rs]

theorem cutRecs_torn : ∀ (rs : List Rec) (k : Nat), (∀ r ∈ rs, r.entry.length + 12 < 256 ^ 4) →
    Torn (cutRecs rs k).2
  | [], k, _ => by simp [cutRecs, Torn]
  | r :: rs, k, h => by
    simp only [cutRecs]
    split
    · exact cutRecs_torn rs _ (fun x hx => h x (by simp [hx]))
    · rename_i hk
      exact Or.inr ⟨r, k, h r (by simp), by rw [frame_length]; omega, rfl⟩

theorem fitCount_le : ∀ (rs : List Rec) (k : Nat), fitCount rs k ≤ rs.length
  | [], k => by simp [fitCount]
  | r :: rs, k => by
    simp only [fitCount]; split
    · have := fitCount_le rs (k - (r.entry.length + 16)); simp; omega
    · simp

theorem fit_le : ∀ (rs : List Rec) (k : Nat), (frames (rs.take (fitCount rs k))).length ≤ k
  | [], k => by simp [fitCount, frames]
  | r :: rs, k => by
    simp only [fitCount]; split
    · have := fit_le rs (k - (r.entry.length + 16))
      rw [List.take_succ_cons, frames_length_cons]; omega
    · simp [frames]

theorem fit_max : ∀ (rs : List Rec) (k : Nat), fitCount rs k < rs.length →
    k < (frames (rs.take (fitCount rs k + 1))).length
  | [], k, h => by simp at h
  | r :: rs, k, h => by
    simp only [fitCount] at h ⊢; split
    · rename_i hk
      rw [if_pos hk] at h
      have := fit_max rs (k - (r.entry.length + 16)) (by simpa using h)
      rw [List.take_succ_cons, frames_length_cons]; omega
    · rename_i hk
      rw [List.take_succ_cons, frames_length_cons]; omega

/-- **truncation at any byte offset**: exactly the whole records before the cut -/
theorem replay_take {m : Mode} (hm : m.tornIsEnd = true) {dec : Dec} (rs : List Rec)
    (hw : ∀ r ∈ rs, WFRec dec r) (k : Nat) :
    replay m dec ((frames rs).take k) = (rs.take (fitCount rs k), .ok) := by
  rw [take_frames]
  have h1 := cutRecs_fst rs k
  have h2 := cutRecs_torn rs k (fun r hr => (hw r hr).2.1)
  rw [replay_frames hm _ _ (by rw [h1]; exact fun r hr => hw r (List.mem_of_mem_take hr)) h2, h1]

/-! ### the directory invariant -/

/-- the records `Wal::new`'s scan (and `replay`) finds in a file -/
def recsOf (dec : Dec) (f : File) : List Rec := (replay scanMode dec f.data).1
def seqsOf (dec : Dec) (f : File) : List Nat := (recsOf dec f).map (·.seq)

/-- a file is whole well-formed records followed by a torn tail -/
def Good (dec : Dec) (f : File) : Prop :=
  ∃ rs t, (∀ r ∈ rs, WFRec dec r) ∧ Torn t ∧ f.data = frames rs ++ t

theorem recsOf_eq {dec : Dec} {f : File} {rs : List Rec} {t : Bytes}
    (hw : ∀ r ∈ rs, WFRec dec r) (ht : Torn t) (hd : f.data = frames rs ++ t) :
    recsOf dec f = rs := by
  simp only [recsOf, hd, replay_frames (m := scanMode) rfl rs t hw ht]

theorem replay_good {m : Mode} (hm : m.tornIsEnd = true) {dec : Dec} {f : File} (h : Good dec f) :
    replay m dec f.data = (recsOf dec f, .ok) := by
  obtain ⟨rs, t, hw, ht, hd⟩ := h
  rw [recsOf_eq hw ht hd, hd, replay_frames hm rs t hw ht]

def FileOK (dec : Dec) (f : File) (B : Nat) : Prop :=
  Good dec f ∧ f.name ≤ B ∧ (seqsOf dec f).Pairwise (· < ·) ∧
    ∀ q ∈ seqsOf dec f, f.name ≤ q ∧ q ≤ B

def Before (dec : Dec) (f g : File) : Prop := f.name < g.name ∧ ∀ q ∈ seqsOf dec f, q < g.name

def DirOK (dec : Dec) (fs : List File) (B : Nat) : Prop :=
  (∀ f ∈ fs, FileOK dec f B) ∧ fs.Pairwise (Before dec)

theorem fileOK_mono {dec : Dec} {f : File} {B B' : Nat} (h : FileOK dec f B) (hB : B ≤ B') :
    FileOK dec f B' :=
  ⟨h.1, Nat.le_trans h.2.1 hB, h.2.2.1, fun q hq => ⟨(h.2.2.2 q hq).1, Nat.le_trans (h.2.2.2 q hq).2 hB⟩⟩

theorem dirOK_nil (dec : Dec) (B : Nat) : DirOK dec [] B := ⟨by simp, List.Pairwise.nil⟩

theorem dirOK_snoc {dec : Dec} {fs : List File} {f : File} {B B' : Nat} (h : DirOK dec fs B)
    (hB : B ≤ B') (hf : FileOK dec f B') (hb : ∀ g ∈ fs, Before dec g f) :
    DirOK dec (fs ++ [f]) B' := by
  refine ⟨?_, ?_⟩
  · intro x hx
    rcases List.mem_append.mp hx with hx | hx
    · exact fileOK_mono (h.1 x hx) hB
    · simp at hx; subst hx; exact hf
  · rw [List.pairwise_append]
    exact ⟨h.2, List.pairwise_singleton _ _, fun a ha b hb' => by
      simp at hb'; subst hb'; exact hb a ha⟩

theorem dirOK_init {dec : Dec} {fs : List File} {f : File} {B : Nat} (h : DirOK dec (fs ++ [f]) B) :
    DirOK dec fs B ∧ (∀ g ∈ fs, Before dec g f) ∧ FileOK dec f B := by
  have hp := h.2
  rw [List.pairwise_append] at hp
  exact ⟨⟨fun x hx => h.1 x (List.mem_append_left _ hx), hp.1⟩,
    fun g hg => hp.2.2 g hg f (by simp), h.1 f (by simp)⟩

theorem pairwise_mem {α : Type} {R : α → α → Prop} : ∀ {l : List α}, l.Pairwise R →
    ∀ {a b : α}, a ∈ l → b ∈ l → a = b ∨ R a b ∨ R b a
  | [], _, _, _, ha, _ => by simp at ha
  | x :: l, h, a, b, ha, hb => by
    rw [List.pairwise_cons] at h
    rcases List.mem_cons.mp ha with rfl | ha' <;> rcases List.mem_cons.mp hb with rfl | hb'
    · exact Or.inl rfl
    · exact Or.inr (Or.inl (h.1 b hb'))
    · exact Or.inr (Or.inr (h.1 a ha'))
    · exact pairwise_mem h.2 ha' hb'

theorem foldl_max_ge : ∀ (l : List Rec) (a : Nat),
    a ≤ l.foldl (fun a r => max a r.seq) a ∧ ∀ r ∈ l, r.seq ≤ l.foldl (fun a r => max a r.seq) a
  | [], a => by simp
  | x :: l, a => by
    have ih := foldl_max_ge l (max a x.seq)
    simp only [List.foldl_cons]
    refine ⟨by omega, fun r hr => ?_⟩
    rcases List.mem_cons.mp hr with rfl | hr
    · omega
    · exact ih.2 r hr

theorem foldl_max_le : ∀ (l : List Rec) (a B : Nat), a ≤ B → (∀ r ∈ l, r.seq ≤ B) →
    l.foldl (fun a r => max a r.seq) a ≤ B
  | [], a, B, ha, _ => by simpa
  | x :: l, a, B, ha, hl => by
    simp only [List.foldl_cons]
    exact foldl_max_le l _ B (by have := hl x (by simp); omega) (fun r hr => hl r (by simp [hr]))

theorem newest_spec : ∀ (fs : List File) (g : File), newest fs = some g →
    g ∈ fs ∧ ∀ f ∈ fs, f.name ≤ g.name
  | [], g, h => by simp [newest] at h
  | f :: fs, g, h => by
    simp only [newest] at h
    cases hn : newest fs with
    | none =>
      rw [hn] at h; simp at h; subst h
      have : fs = [] := by
        cases fs with
        | nil => rfl
        | cons y ys =>
          simp only [newest] at hn
          cases h2 : newest ys <;> rw [h2] at hn <;> simp at hn
          split at hn <;> simp at hn
      subst this; simp
    | some g' =>
      rw [hn] at h; dsimp only at h
      have ih := newest_spec fs g' hn
      by_cases hlt : f.name < g'.name
      · rw [if_pos hlt] at h; simp at h; subst h
        exact ⟨List.mem_cons_of_mem _ ih.1, fun x hx => by
          rcases List.mem_cons.mp hx with rfl | hx
          · omega
          · exact ih.2 x hx⟩
      · rw [if_neg hlt] at h; simp at h; subst h
        exact ⟨by simp, fun x hx => by
          rcases List.mem_cons.mp hx with rfl | hx
          · omega
          · have := ih.2 x hx; omega⟩

theorem newest_none : ∀ (fs : List File), newest fs = none → fs = []
  | [], _ => rfl
  | f :: fs, h => by
    simp only [newest] at h
    cases h2 : newest fs <;> rw [h2] at h <;> simp at h
    split at h <;> simp at h

theorem dirOK_findLatest {dec : Dec} {fs : List File} {B : Nat} (h : DirOK dec fs B) :
    DirOK dec fs (findLatest Mode.fixed dec fs) ∧ findLatest Mode.fixed dec fs ≤ B := by
  unfold findLatest
  cases hn : newest fs with
  | none =>
    have := newest_none fs hn; subst this
    exact ⟨dirOK_nil _ _, by simp⟩
  | some g =>
    simp only [Mode.fixed, if_true]
    obtain ⟨hg, hmax⟩ := newest_spec fs g hn
    have hge := foldl_max_ge (replay scanMode dec g.data).1 g.name
    have hgok := h.1 g hg
    refine ⟨⟨fun f hf => ?_, h.2⟩, ?_⟩
    · have hfok := h.1 f hf
      refine ⟨hfok.1, Nat.le_trans (hmax f hf) hge.1, hfok.2.2.1, fun q hq => ⟨(hfok.2.2.2 q hq).1, ?_⟩⟩
      rcases pairwise_mem h.2 hf hg with rfl | hb | hb
      · simp only [seqsOf, recsOf, List.mem_map] at hq
        obtain ⟨r, hr, rfl⟩ := hq
        exact hge.2 r hr
      · have := hb.2 q hq; omega
      · have := hb.1; have := hmax f hf; omega
    · apply foldl_max_le _ _ _ hgok.2.1
      intro r hr
      exact (hgok.2.2.2 r.seq (by simp only [seqsOf, recsOf, List.mem_map]; exact ⟨r, hr, rfl⟩)).2

end SgModel.Wal
