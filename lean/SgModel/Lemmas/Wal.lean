import SgModel.Model.Wal
/-! Helper lemmas for C15 (core Lean only): little-endian codecs, the frame parser, replay of
a well-formed image followed by a torn tail, byte-prefix decomposition. -/
namespace SgModel.Wal

theorem le_length (n v : Nat) : (le n v).length = n := by
  induction n generalizing v <;> simp [le, *]

theorem toNat_ofNat_mod (v : Nat) : (UInt8.ofNat (v % 256)).toNat = v % 256 := by
  simp [UInt8.toNat_ofNat']

theorem fromLE_le (n v : Nat) (h : v < 256 ^ n) : fromLE (le n v) = v := by
  induction n generalizing v with
  | zero => simp [le, fromLE]; omega
  | succ n ih =>
    simp only [le, fromLE]
    rw [toNat_ofNat_mod, ih (v / 256) (by rw [Nat.pow_succ] at h; omega)]
    omega

theorem xorAll_append (a b : Bytes) : xorAll (a ++ b) = xorAll a ^^^ xorAll b := by
  induction a with
  | nil => simp [xorAll]
  | cons x xs ih => simp [xorAll, ih, UInt8.xor_assoc]

theorem cksum_lt (e : Bytes) : cksum e < 256 ^ 4 := by
  have := (xorAll e).toNat_lt
  simp only [cksum]; omega

/-- what the model assumes of an appended record: the counter fits `u64`, the frame length
fits `u32`, and bincode reads exactly the entry back from the front of any slice starting
with it (deterministic, self-delimiting encoding) -/
def WFRec (dec : Dec) (r : Rec) : Prop :=
  r.seq < 256 ^ 8 ∧ r.entry.length + 12 < 256 ^ 4 ∧ ∀ rest, dec (r.entry ++ rest) = some r.entry.length

theorem body_length (r : Rec) : (body r).length = r.entry.length + 12 := by
  simp [body, le_length]; omega

theorem frame_length (r : Rec) : (frame r).length = r.entry.length + 16 := by
  simp [frame, body_length, le_length]; omega

theorem parseBody_body {dec : Dec} {r : Rec} (h : WFRec dec r) :
    parseBody dec (body r) = some (r, cksum r.entry, r.entry.length + 12) := by
  obtain ⟨h1, _, h3⟩ := h
  have hl : (body r).length = r.entry.length + 12 := body_length r
  have hd : (body r).drop 8 = r.entry ++ le 4 (cksum r.entry) := by
    simp only [body]; exact List.drop_left' (le_length 8 _)
  have ht : (body r).take 8 = le 8 r.seq := by
    simp only [body]; exact List.take_left' (le_length 8 _)
  have hd2 : (body r).drop (8 + r.entry.length) = le 4 (cksum r.entry) := by
    rw [← List.drop_drop, hd]; exact List.drop_left' rfl
  unfold parseBody
  rw [if_neg (by omega), hd, h3]
  dsimp only
  rw [if_neg (by omega), ht, List.take_left' rfl, hd2,
    List.take_of_length_le (by simp [le_length]), fromLE_le 8 _ h1, fromLE_le 4 _ (cksum_lt _)]
  cases r; simp; omega

theorem replayFile_frame {dec : Dec} {r : Rec} (h : WFRec dec r) (m : Mode) (fuel : Nat) (rest : Bytes) :
    replayFile m dec (fuel + 1) (frame r ++ rest)
      = (r :: (replayFile m dec fuel rest).1, (replayFile m dec fuel rest).2) := by
  have hlen : (frame r ++ rest).length = r.entry.length + 16 + rest.length := by
    simp [frame_length]
  have ht : (frame r ++ rest).take 4 = le 4 (r.entry.length + 12) := by
    simp only [frame, List.append_assoc]; exact List.take_left' (le_length 4 _)
  have hd : (frame r ++ rest).drop 4 = body r ++ rest := by
    simp only [frame, List.append_assoc]; exact List.drop_left' (le_length 4 _)
  rw [replayFile]
  simp only [ht, hd, fromLE_le 4 _ h.2.1]
  rw [if_neg (by omega), if_neg (by simp [body_length])]
  rw [List.take_left' (body_length r), List.drop_left' (body_length r), parseBody_body h]
  simp

end SgModel.Wal
