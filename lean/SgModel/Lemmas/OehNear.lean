import SgModel.Lemmas.OehRollup
/-! Near-tree encoding: the exception search with its threaded `seen` list is sound and
complete; spanning forest + exception edges decompose reachability on any DAG. -/
namespace SgModel.Oeh

/-! ### fuel-free reachability -/

inductive Reach (P : Poset) : Nat → Nat → Prop
  | refl (x : Nat) : Reach P x x
  | step {x p y : Nat} : (x, p) ∈ P.edges → Reach P p y → Reach P x y

theorem Reach.trans {P : Poset} {a b c : Nat} (h1 : Reach P a b) (h2 : Reach P b c) :
    Reach P a c := by
  induction h1 with
  | refl _ => exact h2
  | step e _ ih => exact Reach.step e (ih h2)

theorem Reach.of_reach {P : Poset} : ∀ (f x y : Nat), reach P f x y = true → Reach P x y := by
  intro f
  induction f with
  | zero => intro x y h; simp only [reach, beq_iff_eq] at h; subst h; exact Reach.refl _
  | succ f ih =>
    intro x y h
    rcases (reach_succ_iff P f x y).mp h with e | ⟨p, hp, hr⟩
    · subst e; exact Reach.refl _
    · exact Reach.step hp (ih p y hr)

theorem Reach.height {P : Poset} {h : Nat → Nat} (A : Acyclic P h) {x y : Nat}
    (r : Reach P x y) : x = y ∨ h x < h y := by
  induction r with
  | refl _ => exact Or.inl rfl
  | step e _ ih =>
    have := A.hEdge _ e
    simp only at this
    rcases ih with e' | hlt
    · subst e'; exact Or.inr this
    · exact Or.inr (by omega)

theorem reach_mono (P : Poset) : ∀ (k f a b : Nat), reach P f a b = true →
    reach P (f + k) a b = true := by
  intro k
  induction k with
  | zero => intro f a b h; exact h
  | succ k ih => intro f a b h; exact reach_mono_succ P _ _ _ (ih f a b h)

theorem Reach.to_reach_fuel {P : Poset} {h : Nat → Nat} (A : Acyclic P h) {x y : Nat}
    (r : Reach P x y) : ∀ f, h y - h x ≤ f → reach P f x y = true := by
  induction r with
  | refl _ => intro f _; exact reach_refl P f _
  | @step x p y e r ih =>
    intro f hf
    have he := A.hEdge _ e
    simp only at he
    have hr : h p ≤ h y := by
      rcases Reach.height A r with e' | hlt
      · subst e'; exact Nat.le_refl _
      · omega
    obtain ⟨f', rfl⟩ : ∃ f', f = f' + 1 := ⟨f - 1, by omega⟩
    exact (reach_succ_iff P f' x y).mpr (Or.inr ⟨p, e, ih f' (by omega)⟩)

/-- on an acyclic poset fuel `n` decides reachability -/
theorem reach_iff_Reach {P : Poset} {h : Nat → Nat} (A : Acyclic P h) (x y : Nat) (hy : y < P.n) :
    reach P P.n x y = true ↔ Reach P x y :=
  ⟨Reach.of_reach P.n x y, fun r => r.to_reach_fuel A P.n (by have := A.hBound y hy; omega)⟩

/-! ### the exception search, abstractly

`sub` is the forest test, `exc` the exception list, `y` the target.  `stepTo x p`: some
exception `(c, p)` has `x` below `c` in the forest.  `Hit x`: a chain of such steps ends in a
node below `y` in the forest. -/

section search
variable (sub : Nat → Nat → Bool) (exc : List (Nat × Nat)) (y : Nat)

def stepTo (x p : Nat) : Prop := ∃ c, (c, p) ∈ exc ∧ sub x c = true

inductive Hit : Nat → Prop
  | last {x p : Nat} : stepTo sub exc x p → sub p y = true → Hit x
  | more {x p : Nat} : stepTo sub exc x p → Hit p → Hit x

def Closed (S : List Nat) (q : Nat) : Prop :=
  ∀ r, stepTo sub exc q r → sub r y = false ∧ r ∈ S

/-- one iteration of the `for &(c, p) in exceptions` loop -/
def viaStep (rec : Nat → List Nat → Bool × List Nat) (x : Nat) (st : Bool × List Nat)
    (e : Nat × Nat) : Bool × List Nat :=
  if st.1 then st
  else if !(sub x e.1) then st
  else if sub e.2 y then (true, st.2)
  else if st.2.contains e.2 then st
  else rec e.2 (e.2 :: st.2)

/-- what a call of the search establishes -/
structure ViaSpec (x : Nat) (seen : List Nat) (out : Bool × List Nat) : Prop where
  mono : ∀ q ∈ seen, q ∈ out.2
  sound : out.1 = true → Hit sub exc y x
  complete : out.1 = false → ∀ p, stepTo sub exc x p → sub p y = false ∧ p ∈ out.2
  closed : out.1 = false → ∀ q ∈ out.2, q ∉ seen → Closed sub exc y out.2 q

/-- the loop invariant, over the exceptions already scanned (`done`) -/
structure FoldInv (x : Nat) (seen0 : List Nat) (done : List (Nat × Nat))
    (st : Bool × List Nat) : Prop where
  mono : ∀ q ∈ seen0, q ∈ st.2
  sound : st.1 = true → Hit sub exc y x
  complete : st.1 = false → ∀ e ∈ done, sub x e.1 = true → sub e.2 y = false ∧ e.2 ∈ st.2
  closed : st.1 = false → ∀ q ∈ st.2, q ∉ seen0 → Closed sub exc y st.2 q

theorem closed_mono {S S' : List Nat} {q : Nat} (hs : ∀ r ∈ S, r ∈ S')
    (c : Closed sub exc y S q) : Closed sub exc y S' q :=
  fun r hr => ⟨(c r hr).1, hs r (c r hr).2⟩

theorem fold_inv (rec : Nat → List Nat → Bool × List Nat) (x : Nat) (seen0 : List Nat)
    (hrec : ∀ e ∈ exc, sub x e.1 = true → ∀ s, ViaSpec sub exc y e.2 s (rec e.2 s)) :
    ∀ (es done : List (Nat × Nat)) (st : Bool × List Nat), (∀ e ∈ es, e ∈ exc) →
      FoldInv sub exc y x seen0 done st →
      FoldInv sub exc y x seen0 (done ++ es) (es.foldl (viaStep sub y rec x) st) := by
  intro es
  induction es with
  | nil => intro done st _ inv; simpa using inv
  | cons e es ih =>
    intro done st hes inv
    have he : e ∈ exc := hes e (by simp)
    have hes' : ∀ e' ∈ es, e' ∈ exc := fun e' h' => hes e' (by simp [h'])
    have key : FoldInv sub exc y x seen0 (done ++ [e]) (viaStep sub y rec x st e) := by
      unfold viaStep
      by_cases h1 : st.1 = true
      · simp only [h1, if_true]
        exact ⟨inv.mono, inv.sound, fun hf => (by rw [h1] at hf; cases hf),
          fun hf => (by rw [h1] at hf; cases hf)⟩
      · have h1' : st.1 = false := by simpa using h1
        simp only [h1', Bool.false_eq_true, if_false]
        by_cases h2 : sub x e.1 = true
        · simp only [h2, Bool.not_true, Bool.false_eq_true, if_false]
          by_cases h3 : sub e.2 y = true
          · simp only [h3, if_true]
            refine ⟨inv.mono, fun _ => Hit.last ⟨e.1, he, h2⟩ h3, fun hf => (by cases hf),
              fun hf => (by cases hf)⟩
          · have h3' : sub e.2 y = false := by simpa using h3
            simp only [h3', Bool.false_eq_true, if_false]
            by_cases h4 : st.2.contains e.2 = true
            · simp only [h4, if_true]
              refine ⟨inv.mono, inv.sound, ?_, inv.closed⟩
              intro hf e' he' hs'
              rcases List.mem_append.mp he' with hd | hd
              · exact inv.complete hf e' hd hs'
              · simp only [List.mem_singleton] at hd; subst hd
                exact ⟨h3', by simpa using h4⟩
            · simp only [h4, if_false]
              have spec := hrec e he h2 (e.2 :: st.2)
              refine ⟨fun q hq => spec.mono q (by simp [inv.mono q hq]), ?_, ?_, ?_⟩
              · intro ht; exact Hit.more ⟨e.1, he, h2⟩ (spec.sound ht)
              · intro hf e' he' hs'
                rcases List.mem_append.mp he' with hd | hd
                · have := inv.complete h1' e' hd hs'
                  exact ⟨this.1, spec.mono _ (by simp [this.2])⟩
                · simp only [List.mem_singleton] at hd; subst hd
                  exact ⟨h3', spec.mono _ (by simp)⟩
              · intro hf q hq hq0
                by_cases hqe : q = e.2
                · subst hqe
                  intro r hr
                  exact spec.complete hf r hr
                · by_cases hqs : q ∈ st.2
                  · exact closed_mono sub exc y (fun r hr => spec.mono r (by simp [hr]))
                      (inv.closed h1' q hqs hq0)
                  · exact spec.closed hf q hq (by simp [hqe, hqs])
        · have h2' : sub x e.1 = false := by simpa using h2
          simp only [h2', Bool.not_false, if_true]
          refine ⟨inv.mono, inv.sound, ?_, inv.closed⟩
          intro hf e' he' hs'
          rcases List.mem_append.mp he' with hd | hd
          · exact inv.complete hf e' hd hs'
          · simp only [List.mem_singleton] at hd; subst hd
            rw [h2'] at hs'; cases hs'
    have := ih (done ++ [e]) _ hes' key
    simpa [List.append_assoc] using this

end search

/-! ### the model's search satisfies the specification -/

theorem viaException_succ (N : Near) (f x y : Nat) (seen : List Nat) :
    viaException N (f + 1) x y seen
      = N.exceptions.foldl (viaStep N.lab.subsumes y (fun p s => viaException N f p y s) x)
          (false, seen) := rfl

theorem via_spec (N : Near) (y n : Nat) (h : Nat → Nat) (hb : ∀ v, v < n → h v < n)
    (H1 : ∀ e ∈ N.exceptions, e.2 < n ∧
      ∀ x, x < n → N.lab.subsumes x e.1 = true → h x < h e.2) :
    ∀ (f x : Nat) (seen : List Nat), x < n → h x < n → n + 1 ≤ f + h x →
      ViaSpec N.lab.subsumes N.exceptions y x seen (viaException N f x y seen) := by
  intro f
  induction f with
  | zero => intro x seen hx hhx hf; omega
  | succ f ih =>
    intro x seen hx hhx hf
    rw [viaException_succ]
    have init : FoldInv N.lab.subsumes N.exceptions y x seen [] (false, seen) :=
      ⟨fun q hq => hq, fun hf => (by cases hf), fun _ e he => (by cases he),
        fun _ q hq hq' => absurd hq hq'⟩
    have hrec : ∀ e ∈ N.exceptions, N.lab.subsumes x e.1 = true → ∀ s,
        ViaSpec N.lab.subsumes N.exceptions y e.2 s ((fun p s => viaException N f p y s) e.2 s) := by
      intro e he hs s
      have h1 := H1 e he
      have h2 := h1.2 x hx hs
      have h3 := hb e.2 h1.1
      exact ih e.2 s h1.1 h3 (by omega)
    have inv := fold_inv N.lab.subsumes N.exceptions y (fun p s => viaException N f p y s) x seen hrec N.exceptions [] (false, seen)
      (fun e he => he) init
    simp only [List.nil_append] at inv
    refine ⟨inv.mono, inv.sound, ?_, inv.closed⟩
    intro hf p ⟨c, hc, hs⟩
    exact inv.complete hf (c, p) hc hs

/-- with an empty `seen` the search answers exactly `Hit` -/
theorem via_iff_hit (N : Near) (y n : Nat) (h : Nat → Nat) (hb : ∀ v, v < n → h v < n)
    (H1 : ∀ e ∈ N.exceptions, e.2 < n ∧
      ∀ x, x < n → N.lab.subsumes x e.1 = true → h x < h e.2)
    (x : Nat) (hx : x < n) (hhx : h x < n) :
    (viaException N (n + 1) x y []).1 = true ↔ Hit N.lab.subsumes N.exceptions y x := by
  have spec := via_spec N y n h hb H1 (n + 1) x [] hx hhx (by omega)
  constructor
  · exact spec.sound
  · intro hit
    cases hb : (viaException N (n + 1) x y []).1 with
    | true => rfl
    | false =>
      exfalso
      have hc := spec.complete hb
      have hcl := spec.closed hb
      have key : ∀ z, Hit N.lab.subsumes N.exceptions y z →
          (z = x ∨ z ∈ (viaException N (n + 1) x y []).2) → False := by
        intro z hz
        induction hz with
        | @last z p hstep ht =>
          intro hz
          rcases hz with e | hm
          · subst e; have := (hc p hstep).1; rw [ht] at this; cases this
          · have := (hcl z hm (by simp) p hstep).1; rw [ht] at this; cases this
        | @more z p hstep _ ih =>
          intro hz
          rcases hz with e | hm
          · subst e; exact ih (Or.inr (hc p hstep).2)
          · exact ih (Or.inr (hcl z hm (by simp) p hstep).2)
      exact key x hit (Or.inl rfl)

/-! ### the spanning forest and the exception list of `build_near_tree` -/

/-- well-formedness of a poset handed to the near-tree encoding: a DAG with distinct edges -/
structure IsDag (P : Poset) (h : Nat → Nat) : Prop extends Acyclic P h where
  edgesNodup : P.edges.Nodup

theorem head_mem_parents {P : Poset} {c p : Nat} (hh : (P.parents c).head? = some p) :
    (c, p) ∈ P.edges := by
  apply mem_parents.mp
  cases hp : P.parents c with
  | nil => rw [hp] at hh; cases hh
  | cons a tl => rw [hp] at hh; simp only [List.head?_cons, Option.some.injEq] at hh; simp [hh]

theorem mem_forest_edges {P : Poset} {c p : Nat} :
    (c, p) ∈ (forestOf P).edges ↔ c < P.n ∧ (P.parents c).head? = some p := by
  simp only [forestOf, List.mem_filterMap, List.mem_range, Option.map_eq_some_iff]
  constructor
  · rintro ⟨a, ha, q, hq, he⟩
    simp only [Prod.mk.injEq] at he
    obtain ⟨rfl, rfl⟩ := he
    exact ⟨ha, hq⟩
  · rintro ⟨hc, hh⟩
    exact ⟨c, hc, p, hh, rfl⟩

theorem forest_edge_sub {P : Poset} {e : Nat × Nat} (he : e ∈ (forestOf P).edges) : e ∈ P.edges := by
  obtain ⟨c, p⟩ := e
  exact head_mem_parents (mem_forest_edges.mp he).2

theorem tagged_filter_nil (g : Nat → Option Nat) (i : Nat) : ∀ (l : List Nat), i ∉ l →
    (l.filterMap (fun c => (g c).map (fun p => (c, p)))).filter (fun e => e.1 == i) = [] := by
  intro l hi
  rw [List.filter_eq_nil_iff]
  intro e he
  simp only [List.mem_filterMap, Option.map_eq_some_iff] at he
  obtain ⟨a, ha, q, _, rfl⟩ := he
  simp only [beq_iff_eq]
  intro h; subst h; exact hi ha

theorem tagged_parents_le_one (g : Nat → Option Nat) (i : Nat) : ∀ (l : List Nat), l.Nodup →
    (((l.filterMap (fun c => (g c).map (fun p => (c, p)))).filter (fun e => e.1 == i)).map
      (·.2)).length ≤ 1 := by
  intro l
  induction l with
  | nil => intro _; simp
  | cons c l ih =>
    intro hnd
    rw [List.nodup_cons] at hnd
    cases hg : g c with
    | none => simp only [List.filterMap_cons, hg, Option.map_none]; exact ih hnd.2
    | some p =>
      simp only [List.filterMap_cons, hg, Option.map_some, List.filter_cons]
      by_cases hci : c = i
      · subst hci
        simp only [beq_self_eq_true, if_true, List.map_cons, List.length_cons]
        rw [tagged_filter_nil g c l hnd.1]; simp
      · have : (c == i) = false := by simp [hci]
        simp only [this]
        exact ih hnd.2

theorem tagged_nodup (g : Nat → Option Nat) : ∀ (l : List Nat), l.Nodup →
    (l.filterMap (fun c => (g c).map (fun p => (c, p)))).Nodup := by
  intro l
  induction l with
  | nil => intro _; simp
  | cons c l ih =>
    intro hnd
    rw [List.nodup_cons] at hnd
    cases hg : g c with
    | none => simp only [List.filterMap_cons, hg, Option.map_none]; exact ih hnd.2
    | some p =>
      simp only [List.filterMap_cons, hg, Option.map_some, List.nodup_cons]
      refine ⟨?_, ih hnd.2⟩
      intro hm
      simp only [List.mem_filterMap, Option.map_eq_some_iff] at hm
      obtain ⟨a, ha, q, _, he⟩ := hm
      simp only [Prod.mk.injEq] at he
      exact hnd.1 (he.1 ▸ ha)

theorem forest_isForest {P : Poset} {h : Nat → Nat} (D : IsDag P h) : IsForest (forestOf P) h where
  inRange := fun e he => D.inRange e (forest_edge_sub he)
  hEdge := fun e he => D.hEdge e (forest_edge_sub he)
  hBound := D.hBound
  onePar := fun i => tagged_parents_le_one _ i _ List.nodup_range
  edgesNodup := tagged_nodup _ _ List.nodup_range

def excList (P : Poset) : List (Nat × Nat) :=
  (List.range P.n).flatMap (fun c => ((P.parents c).drop 1).map (fun p => (c, p)))

theorem mem_insertByKey (key : Nat × Nat → Nat) (e x : Nat × Nat) : ∀ (l : List (Nat × Nat)),
    x ∈ insertByKey key e l ↔ x = e ∨ x ∈ l := by
  intro l
  induction l with
  | nil => simp [insertByKey]
  | cons a l ih =>
    simp only [insertByKey]
    split
    · simp
    · simp only [List.mem_cons, ih]
      constructor
      · rintro (h | h | h)
        · exact Or.inr (Or.inl h)
        · exact Or.inl h
        · exact Or.inr (Or.inr h)
      · rintro (h | h | h)
        · exact Or.inr (Or.inl h)
        · exact Or.inl h
        · exact Or.inr (Or.inr h)

theorem mem_foldl_insert (key : Nat × Nat → Nat) (x : Nat × Nat) : ∀ (l acc : List (Nat × Nat)),
    x ∈ l.foldl (fun acc e => insertByKey key e acc) acc ↔ x ∈ l ∨ x ∈ acc := by
  intro l
  induction l with
  | nil => intro acc; simp
  | cons a l ih =>
    intro acc
    simp only [List.foldl_cons, ih, mem_insertByKey, List.mem_cons]
    constructor
    · rintro (h | h | h)
      · exact Or.inl (Or.inr h)
      · exact Or.inl (Or.inl h)
      · exact Or.inr h
    · rintro ((h | h) | h)
      · exact Or.inr (Or.inl h)
      · exact Or.inl h
      · exact Or.inr (Or.inr h)

theorem mem_exceptions {P : Poset} {e : Nat × Nat} :
    e ∈ (buildNear P).exceptions ↔ e ∈ excList P := by
  simp only [buildNear, excList]
  rw [mem_foldl_insert]; simp

theorem mem_excList {P : Poset} {c p : Nat} :
    (c, p) ∈ excList P ↔ c < P.n ∧ p ∈ (P.parents c).drop 1 := by
  simp only [excList, List.mem_flatMap, List.mem_range, List.mem_map, Prod.mk.injEq]
  constructor
  · rintro ⟨a, ha, q, hq, rfl, rfl⟩; exact ⟨ha, hq⟩
  · rintro ⟨hc, hp⟩; exact ⟨c, hc, p, hp, rfl, rfl⟩

theorem exc_sub {P : Poset} {e : Nat × Nat} (he : e ∈ excList P) : e ∈ P.edges := by
  obtain ⟨c, p⟩ := e
  exact mem_parents.mp (List.mem_of_mem_drop (mem_excList.mp he).2)

/-- every covering edge is a spanning-forest edge or an exception -/
theorem edge_split {P : Poset} {c p : Nat} (hc : c < P.n) (he : (c, p) ∈ P.edges) :
    (c, p) ∈ (forestOf P).edges ∨ (c, p) ∈ excList P := by
  have hm := mem_parents.mpr he
  cases hp : P.parents c with
  | nil => rw [hp] at hm; cases hm
  | cons a tl =>
    rw [hp] at hm
    rcases List.mem_cons.mp hm with h | h
    · left; exact mem_forest_edges.mpr ⟨hc, by rw [hp, h]; rfl⟩
    · right; exact mem_excList.mpr ⟨hc, by rw [hp]; simpa using h⟩

theorem Reach.mono {P Q : Poset} (hsub : ∀ e ∈ P.edges, e ∈ Q.edges) {a b : Nat}
    (r : Reach P a b) : Reach Q a b := by
  induction r with
  | refl _ => exact Reach.refl _
  | step e _ ih => exact Reach.step (hsub _ e) ih

/-- on the spanning forest the interval test is reachability in the forest -/
theorem forest_sub_iff {P : Poset} {h : Nat → Nat} (D : IsDag P h) (a b : Nat) (ha : a < P.n)
    (hb : b < P.n) :
    (buildNear P).lab.subsumes a b = true ↔ Reach (forestOf P) a b := by
  have F := forest_isForest D
  have h1 := nested_subsumes_iff_mem F a b ha hb
  have h2 := mem_pre_iff_reach F.toAcyclic a b hb
  have h3 := reach_iff_Reach F.toAcyclic a b hb
  exact h1.trans (h2.trans h3)

/-- reachability in the DAG = forest reachability, or a chain of exception hops -/
theorem reach_decomp {P : Poset} {h : Nat → Nat} (D : IsDag P h) (y : Nat) (hy : y < P.n) :
    ∀ x, x < P.n → (Reach P x y ↔
      (Reach (forestOf P) x y ∨ Hit (buildNear P).lab.subsumes (buildNear P).exceptions y x)) := by
  have hitBelow : ∀ x q, x < P.n → q < P.n → Reach (forestOf P) x q →
      Hit (buildNear P).lab.subsumes (buildNear P).exceptions y q →
      Hit (buildNear P).lab.subsumes (buildNear P).exceptions y x := by
    intro x q hx hq hxq hit
    have lift : ∀ p, stepTo (buildNear P).lab.subsumes (buildNear P).exceptions q p →
        stepTo (buildNear P).lab.subsumes (buildNear P).exceptions x p := by
      intro p ⟨c, hc, hs⟩
      have hcn := (D.inRange _ (exc_sub (mem_exceptions.mp hc))).1
      simp only at hcn
      exact ⟨c, hc, (forest_sub_iff D x c hx hcn).mpr
        (hxq.trans ((forest_sub_iff D q c hq hcn).mp hs))⟩
    cases hit with
    | last hstep ht => exact Hit.last (lift _ hstep) ht
    | more hstep hp => exact Hit.more (lift _ hstep) hp
  intro x hx
  constructor
  · intro r
    induction r with
    | refl _ => exact Or.inl (Reach.refl _)
    | @step x q y' e r ih =>
      have hq := (D.inRange _ e).2
      simp only at hq
      rcases edge_split hx e with hf | hexc
      · have hxq : Reach (forestOf P) x q := Reach.step hf (Reach.refl _)
        rcases ih hy hitBelow hq with hl | hr
        · exact Or.inl (hxq.trans hl)
        · exact Or.inr (hitBelow x q hx hq hxq hr)
      · have hstep : stepTo (buildNear P).lab.subsumes (buildNear P).exceptions x q :=
          ⟨x, mem_exceptions.mpr hexc, (forest_sub_iff D x x hx hx).mpr (Reach.refl _)⟩
        rcases ih hy hitBelow hq with hl | hr
        · exact Or.inr (Hit.last hstep ((forest_sub_iff D q y' hq hy).mpr hl))
        · exact Or.inr (Hit.more hstep hr)
  · rintro (hl | hr)
    · exact hl.mono (fun e he => forest_edge_sub he)
    · have key : ∀ z, Hit (buildNear P).lab.subsumes (buildNear P).exceptions y z → z < P.n →
          Reach P z y := by
        intro z hz
        induction hz with
        | @last z p hstep ht =>
          intro hzn
          obtain ⟨c, hc, hs⟩ := hstep
          have he := exc_sub (mem_exceptions.mp hc)
          have hr := D.inRange _ he
          simp only at hr
          have r1 := ((forest_sub_iff D z c hzn hr.1).mp hs).mono (fun e he => forest_edge_sub he)
          have r2 := ((forest_sub_iff D p y hr.2 hy).mp ht).mono (fun e he => forest_edge_sub he)
          exact r1.trans (Reach.step he r2)
        | @more z p hstep _ ih =>
          intro hzn
          obtain ⟨c, hc, hs⟩ := hstep
          have he := exc_sub (mem_exceptions.mp hc)
          have hr := D.inRange _ he
          simp only at hr
          have r1 := ((forest_sub_iff D z c hzn hr.1).mp hs).mono (fun e he => forest_edge_sub he)
          exact r1.trans (Reach.step he (ih hr.2))
      exact key x hr hx

theorem near_tin_length (P : Poset) : (buildNear P).lab.tin.length = P.n := by
  simp [buildNear, buildNested, forestOf]

/-- **near-tree subsumption is reachability** on every DAG -/
theorem near_subsumes_iff_reach {P : Poset} {h : Nat → Nat} (D : IsDag P h) (x y : Nat)
    (hx : x < P.n) (hy : y < P.n) :
    (buildNear P).subsumes x y = reach P P.n x y := by
  have H1 : ∀ e ∈ (buildNear P).exceptions, e.2 < P.n ∧
      ∀ z, z < P.n → (buildNear P).lab.subsumes z e.1 = true → h z < h e.2 := by
    intro e he
    have hed := exc_sub (mem_exceptions.mp he)
    have hr := D.inRange _ hed
    refine ⟨hr.2, ?_⟩
    intro z hz hs
    have r := ((forest_sub_iff D z e.1 hz hr.1).mp hs).mono (fun e he => forest_edge_sub he)
    have hh := D.hEdge _ hed
    rcases Reach.height D.toAcyclic r with e' | hlt
    · rw [e']; exact hh
    · omega
  have hv := via_iff_hit (buildNear P) y P.n h D.hBound H1 x hx (D.hBound x hx)
  have hd := reach_decomp D y hy x hx
  have hr := reach_iff_Reach D.toAcyclic x y hy
  have hf := forest_sub_iff D x y hx hy
  unfold Near.subsumes
  rw [near_tin_length]
  rw [Bool.eq_iff_iff]
  simp only [Bool.or_eq_true]
  rw [hr, hd, hf, hv]

end SgModel.Oeh
