import SgModel.Lemmas.CyW
/-!
Helper lemmas for C05 (infallible writes) and C35 (parameter lookup, monotonicity of `eval`,
literal text).
-/
namespace SgModel.CyW

theorem streamRows_infallible {α : Type} (act : G → α → R G)
    (hi : ∀ g r, ∃ g', act g r = .ok g') (rows : List α) (g : G) :
    (streamRows act g rows).2 = none := by
  induction rows generalizing g with
  | nil => rfl
  | cons r rs ih =>
    obtain ⟨g1, h1⟩ := hi g r
    simp only [streamRows, h1]
    exact ih g1

theorem evalProps_lit (g : G) (ps : Props) (row : Row) (l : List (Nat × E)) (h : litProps l = true) :
    ∃ vs, evalProps g ps row l = .ok vs := by
  induction l with
  | nil => exact ⟨[], rfl⟩
  | cons ke l ih =>
    obtain ⟨k, e⟩ := ke
    simp only [litProps, List.all_cons, Bool.and_eq_true] at h
    obtain ⟨vs, hvs⟩ := ih h.2
    cases e with
    | lit v => exact ⟨(k, v) :: vs, by simp [evalProps, eval, hvs, bind, Except.bind, pure, Except.pure]⟩
    | _ => simp at h

/-- the syntactic predicate is sound: such a CREATE succeeds on every graph and row -/
theorem litCreate_infallible (del : G → Bool → Nat → R G) (ps : Props) (c : Clause)
    (hc : litCreate c = true) (g : G) (row : Row) : ∃ out, applyWrite del ps c g row = .ok out := by
  cases c with
  | create paths =>
    simp only [applyWrite]
    simp only [litCreate, List.all_eq_true, Bool.and_eq_true] at hc
    have key : ∀ (pl : List CPath), (∀ p ∈ pl, p.a.var.isNone = true ∧ litProps p.a.props = true ∧ p.seg.isNone = true) →
        ∀ acc : G × Row, ∃ out, foldR (createPath g ps row) acc pl = .ok out := by
      intro pl
      induction pl with
      | nil => intro _ acc; exact ⟨acc, rfl⟩
      | cons p pl ih =>
        intro hp acc
        obtain ⟨hv, hl, hs⟩ := hp p (List.mem_cons_self ..)
        obtain ⟨vs, hvs⟩ := evalProps_lit acc.1 ps acc.2 p.a.props hl
        have hvar : p.a.var = none := by simpa using hv
        have hseg : p.seg = none := by simpa using hs
        have h1 : createPath g ps row acc p
            = .ok ((acc.1.addNode (linsertAll [] p.a.labels) (psetAll [] vs)).1, acc.2) := by
          simp [createPath, createNode, hvar, hseg, hvs, bind, Except.bind, pure, Except.pure]
        simp only [foldR, h1, bind, Except.bind]
        exact ih (fun p' hp' => hp p' (List.mem_cons_of_mem _ hp')) _
    exact key paths (fun p hp => by
      have := hc p hp
      exact ⟨this.1.1, this.1.2, this.2⟩) (g, row)
  | _ => simp [litCreate] at hc

theorem plookup_append (ps P : Props) (p : Nat) :
    plookup (ps ++ P) p = match plookup ps p with | some v => some v | none => plookup P p := by
  induction ps with
  | nil => rfl
  | cons kv ps ih =>
    obtain ⟨k, v⟩ := kv
    simp only [List.cons_append, plookup]
    split
    · rfl
    · exact ih

theorem filterMapV_congr (f f' : V → R (Option V)) (h : ∀ v, f v = f' v) (l : V) :
    filterMapV f l = filterMapV f' l := by
  induction l with
  | cons hd tl _ iht => simp only [filterMapV, h, iht]
  | _ => rfl

/-- `P'` binds at least what `P` binds, to the same values -/
def Extends (P P' : Props) : Prop := ∀ p v, plookup P p = some v → plookup P' p = some v

theorem filterMapV_mono (f f' : V → R (Option V)) (h : ∀ v r, f v = .ok r → f' v = .ok r) (l : V) :
    ∀ out, filterMapV f l = .ok out → filterMapV f' l = .ok out := by
  induction l with
  | cons hd tl _ iht =>
    intro out ho
    simp only [filterMapV] at ho ⊢
    obtain ⟨r, hr, ho⟩ := bind_ok ho
    obtain ⟨rest, hrest, ho⟩ := bind_ok ho
    rw [h hd r hr, iht rest hrest]
    exact ho
  | _ => intro out ho; exact ho

/-- monotonicity: a successful evaluation is unaffected by binding more parameters -/
theorem eval_mono (g : G) (P P' : Props) (hP : Extends P P') (e : E) :
    ∀ row v, eval g P row e = .ok v → eval g P' row e = .ok v := by
  induction e with
  | lit v => intro row v h; exact h
  | var x => intro row v h; exact h
  | prop x k => intro row v h; exact h
  | param p =>
    intro row v h
    simp only [eval] at h ⊢
    cases hp : plookup P p with
    | none => rw [hp] at h; cases h
    | some w => rw [hp] at h; rw [hP p w hp]; exact h
  | lnil => intro row v h; exact h
  | mnil => intro row v h; exact h
  | lcons a b ih1 ih2 =>
    intro row v h
    simp only [eval] at h ⊢
    obtain ⟨x, hx, h⟩ := bind_ok h
    obtain ⟨y, hy, h⟩ := bind_ok h
    rw [ih1 row x hx, ih2 row y hy]; exact h
  | mcons k a b ih1 ih2 =>
    intro row v h
    simp only [eval] at h ⊢
    obtain ⟨x, hx, h⟩ := bind_ok h
    obtain ⟨y, hy, h⟩ := bind_ok h
    rw [ih1 row x hx, ih2 row y hy]; exact h
  | un op a ih =>
    intro row v h
    simp only [eval] at h ⊢
    obtain ⟨x, hx, h⟩ := bind_ok h
    rw [ih row x hx]; exact h
  | bin op a b ih1 ih2 =>
    intro row v h
    simp only [eval] at h ⊢
    obtain ⟨x, hx, h⟩ := bind_ok h
    obtain ⟨y, hy, h⟩ := bind_ok h
    rw [ih1 row x hx, ih2 row y hy]; exact h
  | idx a b ih1 ih2 =>
    intro row v h
    simp only [eval] at h ⊢
    obtain ⟨x, hx, h⟩ := bind_ok h
    obtain ⟨y, hy, h⟩ := bind_ok h
    rw [ih1 row x hx, ih2 row y hy]; exact h
  | ite c t e ih1 ih2 ih3 =>
    intro row v h
    simp only [eval] at h ⊢
    obtain ⟨x, hx, h⟩ := bind_ok h
    rw [ih1 row x hx]
    simp only [bind, Except.bind]
    split at h
    · rename_i hc; rw [if_pos hc]; exact ih2 row v h
    · rename_i hc
      rw [if_neg hc]
      split at h
      · rename_i hc2; rw [if_pos hc2]; exact ih3 row v h
      · cases h
  | comp x l f m ih1 ih2 ih3 =>
    intro row v h
    simp only [eval] at h ⊢
    obtain ⟨lv, hl, h⟩ := bind_ok h
    rw [ih1 row lv hl]
    simp only [bind, Except.bind]
    split at h
    · rename_i hc; rw [if_pos hc]; exact h
    · rename_i hc
      rw [if_neg hc]
      split at h
      · cases h
      · rename_i hc2
        rw [if_neg hc2]
        refine filterMapV_mono _ _ ?_ lv v h
        intro el r hr
        obtain ⟨c, hcv, hr⟩ := bind_ok hr
        rw [ih2 _ c hcv]
        simp only [bind, Except.bind]
        split at hr
        · rename_i hcc
          rw [if_pos hcc]
          obtain ⟨mv, hm, hr⟩ := bind_ok hr
          rw [ih3 _ mv hm]
          exact hr
        · rename_i hcc
          rw [if_neg hcc]
          exact hr

theorem extends_nil (P : Props) : Extends [] P := by
  intro p v h; simp [plookup] at h

theorem unescBody_escBody (s rest : List Char) :
    unescBody (escBody s ++ '\'' :: rest) = some (s, rest) := by
  induction s with
  | nil => simp [escBody, unescBody]
  | cons c cs ih =>
    simp only [escBody]
    split
    · rename_i hc
      simp only [List.cons_append, unescBody, ih, Option.map_some]
    · rename_i hc
      simp only [Bool.or_eq_true, decide_eq_true_eq, not_or] at hc
      simp only [List.cons_append]
      rw [unescBody]
      · simp [hc.1, ih]
      · intro c' cs' heq _
        exact hc.2 heq

theorem valRev_digitsRev (f n : Nat) (h : n < f) : valRev (digitsRev f n) = n := by
  induction f generalizing n with
  | zero => omega
  | succ f ih =>
    simp only [digitsRev]
    split
    · simp [valRev]
    · simp only [valRev]
      rw [ih (n / 10) (by omega)]
      omega

end SgModel.CyW
