import SgModel.Model.Cache
/-!
Invariant of the LRU model and transparency of `cachedParse`.
-/
namespace SgModel.Cache

variable {K V S E : Type} [DecidableEq K]

theorem lookup_some_mem {k : K} {v : V} : ∀ {c : LRU K V}, lookup k c = some v → (k, v) ∈ c
  | [], h => by simp [lookup] at h
  | (k', v') :: rest, h => by
    unfold lookup at h
    by_cases hk : k' = k
    · simp only [hk, ↓reduceIte, Option.some.injEq] at h
      subst hk; subst h; exact List.mem_cons_self
    · simp only [hk, ↓reduceIte] at h
      exact List.mem_cons_of_mem _ (lookup_some_mem h)

theorem lookup_none_iff {k : K} : ∀ {c : LRU K V}, lookup k c = none ↔ k ∉ c.map Prod.fst
  | [] => by simp [lookup]
  | (k', v') :: rest => by
    unfold lookup
    by_cases hk : k' = k
    · simp [hk]
    · have ih := @lookup_none_iff k rest
      simp only [hk, ↓reduceIte, ih, List.map_cons, List.mem_cons, not_or]
      constructor
      · intro h; exact ⟨fun h' => hk h'.symm, h⟩
      · intro h; exact h.2

theorem mem_remove {k : K} {c : LRU K V} {kv : K × V} (h : kv ∈ remove k c) :
    kv ∈ c ∧ kv.1 ≠ k := by
  simpa [remove, List.mem_filter] using h

theorem remove_keys_nodup {k : K} {c : LRU K V} (h : (c.map Prod.fst).Nodup) :
    ((remove k c).map Prod.fst).Nodup := by
  unfold remove
  exact List.Nodup.sublist (List.Sublist.map _ List.filter_sublist) h

theorem remove_length_le (k : K) (c : LRU K V) : (remove k c).length ≤ c.length :=
  List.length_filter_le _ _

theorem remove_length_lt {k : K} {v : V} {c : LRU K V} (h : (k, v) ∈ c) :
    (remove k c).length < c.length := by
  unfold remove
  induction c with
  | nil => simp at h
  | cons x rest ih =>
    simp only [List.filter_cons]
    by_cases hx : x.1 = k
    · simp only [hx, decide_true, Bool.not_true, Bool.false_eq_true, ↓reduceIte, List.length_cons]
      exact Nat.lt_succ_of_le (List.length_filter_le _ _)
    · have hm : (k, v) ∈ rest := by
        rcases List.mem_cons.1 h with h' | h'
        · exact absurd (by rw [← h']) hx
        · exact h'
      simp only [hx, decide_false, Bool.not_false, ↓reduceIte, List.length_cons]
      exact Nat.succ_lt_succ (ih hm)

/-- the invariant of the parsed-query cache -/
structure Inv (cap : Nat) (key : S → K) (parse : S → Except E V) (c : LRU K V) : Prop where
  size : c.length ≤ effCap cap
  nodup : (c.map Prod.fst).Nodup
  sound : ∀ kv ∈ c, ∃ s, key s = kv.1 ∧ parse s = .ok kv.2

theorem effCap_pos (cap : Nat) : 1 ≤ effCap cap := by
  unfold effCap; split <;> omega

omit [DecidableEq K] in
theorem inv_nil (cap : Nat) (key : S → K) (parse : S → Except E V) :
    Inv cap key parse ([] : LRU K V) :=
  ⟨by simp, by simp, by simp⟩

theorem inv_promote {cap : Nat} {key : S → K} {parse : S → Except E V} {c : LRU K V}
    (h : Inv cap key parse c) {k : K} {v : V} (hm : (k, v) ∈ c) :
    Inv cap key parse ((k, v) :: remove k c) := by
  refine ⟨?_, ?_, ?_⟩
  · have := remove_length_lt hm
    have := h.size
    simp only [List.length_cons]; omega
  · simp only [List.map_cons, List.nodup_cons]
    refine ⟨?_, remove_keys_nodup h.nodup⟩
    intro hk
    obtain ⟨kv, hkv, hfst⟩ := List.mem_map.1 hk
    exact (mem_remove hkv).2 hfst
  · intro kv hkv
    rcases List.mem_cons.1 hkv with h' | h'
    · subst h'; exact h.sound _ hm
    · exact h.sound _ (mem_remove h').1

theorem inv_put {cap : Nat} {key : S → K} {parse : S → Except E V} {c : LRU K V}
    (h : Inv cap key parse c) (s : S) {v : V} (hp : parse s = .ok v) :
    Inv cap key parse (put (effCap cap) (key s) v c) := by
  unfold put
  refine ⟨?_, ?_, ?_⟩
  · exact List.length_take_le _ _
  · have hnd : (((key s, v) :: remove (key s) c).map Prod.fst).Nodup := by
      simp only [List.map_cons, List.nodup_cons]
      refine ⟨?_, remove_keys_nodup h.nodup⟩
      intro hk
      obtain ⟨kv, hkv, hfst⟩ := List.mem_map.1 hk
      exact (mem_remove hkv).2 hfst
    exact List.Nodup.sublist (List.Sublist.map _ (List.take_sublist _ _)) hnd
  · intro kv hkv
    have hkv' := List.mem_of_mem_take hkv
    rcases List.mem_cons.1 hkv' with h' | h'
    · subst h'; exact ⟨s, rfl, hp⟩
    · exact h.sound _ (mem_remove h').1

/-- one call of `cached_parse` keeps the invariant -/
theorem inv_step {cap : Nat} {key : S → K} {parse : S → Except E V} {c : LRU K V}
    (h : Inv cap key parse c) (s : S) :
    Inv cap key parse (cachedParse cap key parse c s).cache := by
  unfold cachedParse get
  cases hl : lookup (key s) c with
  | some v => exact inv_promote h (lookup_some_mem hl)
  | none =>
    cases hp : parse s with
    | ok v => exact inv_put h s hp
    | error e => exact h

theorem inv_foldl {cap : Nat} {key : S → K} {parse : S → Except E V} (hist : List S) :
    ∀ {c : LRU K V}, Inv cap key parse c →
      Inv cap key parse (hist.foldl (fun c s => (cachedParse cap key parse c s).cache) c) := by
  induction hist with
  | nil => intro c h; exact h
  | cons s rest ih => intro c h; exact ih (inv_step h s)

theorem inv_run (cap : Nat) (key : S → K) (parse : S → Except E V) (hist : List S) :
    Inv cap key parse (run cap key parse hist) :=
  inv_foldl hist (inv_nil cap key parse)

/-- with a sound key, whatever the cache holds, `cached_parse` answers like `parse` -/
theorem step_result {cap : Nat} {key : S → K} {parse : S → Except E V} {c : LRU K V}
    (hk : ∀ a b, key a = key b → parse a = parse b)
    (h : Inv cap key parse c) (s : S) :
    (cachedParse cap key parse c s).result = parse s := by
  unfold cachedParse get
  cases hl : lookup (key s) c with
  | some v =>
    obtain ⟨s', hs', hp'⟩ := h.sound _ (lookup_some_mem hl)
    show Except.ok v = parse s
    rw [hk s s' hs'.symm, hp']
  | none =>
    cases hp : parse s with
    | ok v => rfl
    | error e => rfl

/-- a call is a hit exactly when the key is present -/
theorem step_hit_iff (cap : Nat) (key : S → K) (parse : S → Except E V) (c : LRU K V) (s : S) :
    (cachedParse cap key parse c s).hit = true ↔ key s ∈ c.map Prod.fst := by
  unfold cachedParse get
  cases hl : lookup (key s) c with
  | some v =>
    simp only [true_iff]
    exact List.mem_map.2 ⟨_, lookup_some_mem hl, rfl⟩
  | none =>
    have := lookup_none_iff.1 hl
    cases hp : parse s <;> simp [this]

end SgModel.Cache
